/-
C04 — the importer's signature tables: `sorted(set(...))` keeps exactly the members, strictly ascending;
`make_track_to_part_mapping`; what `load_score_midi` hands to `create_part` as key / time signatures of a part.
Helpers of Props/C04ImportMeta.lean.
-/
import Mathlib.Data.String.Basic
import PartituraModel.Proofs.C04Import
import PartituraModel.Proofs.C04Cells
import PartituraModel.Proofs.C04Sort

namespace C04IS
open Model Model.Ticks Model.MidiPair Model.MidiModes Model.ScoreMidi

-- ------------------------------------------------------------------ `sorted(set(l))`

variable {α : Type}

theorem mem_insertSorted (lt : α → α → Bool) (htri : ∀ a b, lt a b = false → lt b a = false → a = b)
    (x y : α) (l : List α) : y ∈ insertSorted lt x l ↔ y = x ∨ y ∈ l := by
  induction l with
  | nil => simp [insertSorted]
  | cons a as ih =>
    unfold insertSorted
    by_cases h1 : lt x a = true
    · rw [if_pos h1]; simp
    · rw [if_neg h1]
      by_cases h2 : lt a x = true
      · rw [if_pos h2, List.mem_cons, ih, List.mem_cons]; tauto
      · rw [if_neg h2]
        have : x = a := htri x a (by simpa using h1) (by simpa using h2)
        subst this
        simp

theorem mem_sortedSet (lt : α → α → Bool) (htri : ∀ a b, lt a b = false → lt b a = false → a = b)
    (y : α) (l : List α) : y ∈ sortedSet lt l ↔ y ∈ l := by
  induction l with
  | nil => simp [sortedSet]
  | cons a as ih =>
    have : sortedSet lt (a :: as) = insertSorted lt a (sortedSet lt as) := rfl
    rw [this, mem_insertSorted lt htri, ih, List.mem_cons]

theorem insertSorted_sorted (lt : α → α → Bool) (htrans : ∀ a b c, lt a b = true → lt b c = true → lt a c = true)
    (x : α) (l : List α) (h : l.Pairwise (fun a b => lt a b = true)) :
    (insertSorted lt x l).Pairwise (fun a b => lt a b = true) := by
  induction l with
  | nil => simp [insertSorted]
  | cons a as ih =>
    obtain ⟨h1, h2⟩ := List.pairwise_cons.mp h
    unfold insertSorted
    by_cases hx : lt x a = true
    · rw [if_pos hx]
      refine List.pairwise_cons.mpr ⟨?_, h⟩
      intro y hy
      rcases List.mem_cons.mp hy with rfl | hy
      · exact hx
      · exact htrans _ _ _ hx (h1 y hy)
    · rw [if_neg hx]
      by_cases hax : lt a x = true
      · rw [if_pos hax]
        refine List.pairwise_cons.mpr ⟨?_, ih h2⟩
        intro y hy
        -- membership without trichotomy: every member of the insertion is `x` or a member of `as`
        have : ∀ (l : List α) (y : α), y ∈ insertSorted lt x l → y = x ∨ y ∈ l := by
          intro l
          induction l with
          | nil => intro y hy; simpa [insertSorted] using hy
          | cons b bs ihb =>
            intro y hy
            unfold insertSorted at hy
            split at hy
            · simpa using hy
            · split at hy
              · rcases List.mem_cons.mp hy with rfl | hy
                · exact Or.inr (List.mem_cons_self ..)
                · rcases ihb y hy with rfl | h'
                  · exact Or.inl rfl
                  · exact Or.inr (List.mem_cons_of_mem _ h')
              · exact Or.inr hy
        rcases this as y hy with rfl | hy
        · exact hax
        · exact h1 y hy
      · rw [if_neg hax]; exact h

/-- `sorted(set(l))` is strictly ascending -/
theorem sortedSet_sorted (lt : α → α → Bool) (htrans : ∀ a b c, lt a b = true → lt b c = true → lt a c = true)
    (l : List α) : (sortedSet lt l).Pairwise (fun a b => lt a b = true) := by
  induction l with
  | nil => simp [sortedSet]
  | cons a as ih => exact insertSorted_sorted lt htrans a _ ih

-- ------------------------------------------------------------------ the two orders

theorem str_tri (a b : String) (h1 : ¬ a < b) (h2 : ¬ b < a) : a = b :=
  le_antisymm (not_lt.mp h2) (not_lt.mp h1)

theorem ltKS_tri (a b : Int × String) (h1 : ltKS a b = false) (h2 : ltKS b a = false) : a = b := by
  obtain ⟨a1, a2⟩ := a
  obtain ⟨b1, b2⟩ := b
  simp only [ltKS, Bool.or_eq_false_iff, Bool.and_eq_false_iff, decide_eq_false_iff_not, beq_eq_false_iff_ne] at h1 h2
  have e1 : a1 = b1 := by omega
  subst e1
  have := str_tri a2 b2 (by tauto) (by tauto)
  rw [this]

theorem ltKS_trans (a b c : Int × String) (h1 : ltKS a b = true) (h2 : ltKS b c = true) : ltKS a c = true := by
  obtain ⟨a1, a2⟩ := a
  obtain ⟨b1, b2⟩ := b
  obtain ⟨c1, c2⟩ := c
  simp only [ltKS, Bool.or_eq_true, Bool.and_eq_true, decide_eq_true_eq, beq_iff_eq] at h1 h2 ⊢
  rcases h1 with h1 | ⟨e1, s1⟩ <;> rcases h2 with h2 | ⟨e2, s2⟩
  · left; omega
  · left; omega
  · left; omega
  · right; exact ⟨e1.trans e2, lt_trans s1 s2⟩

theorem ltTS_tri (a b : Int × Int × Int) (h1 : ltTS a b = false) (h2 : ltTS b a = false) : a = b := by
  obtain ⟨a1, a2, a3⟩ := a
  obtain ⟨b1, b2, b3⟩ := b
  simp only [ltTS, Bool.or_eq_false_iff, Bool.and_eq_false_iff, decide_eq_false_iff_not, beq_eq_false_iff_ne] at h1 h2
  have e1 : a1 = b1 := by omega
  subst e1
  have e2 : a2 = b2 := by omega
  subst e2
  have e3 : a3 = b3 := by omega
  subst e3
  rfl

theorem ltTS_trans (a b c : Int × Int × Int) (h1 : ltTS a b = true) (h2 : ltTS b c = true) : ltTS a c = true := by
  obtain ⟨a1, a2, a3⟩ := a
  obtain ⟨b1, b2, b3⟩ := b
  obtain ⟨c1, c2, c3⟩ := c
  simp only [ltTS, Bool.or_eq_true, Bool.and_eq_true, decide_eq_true_eq, beq_iff_eq] at h1 h2 ⊢
  omega

-- ------------------------------------------------------------------ `make_track_to_part_mapping`

theorem foldl_seen_mem {β κ : Type} [BEq κ] [LawfulBEq κ] (f : β → κ) (l : List β) (acc : List κ) (x : κ) :
    x ∈ l.foldl (fun acc e => if acc.contains (f e) then acc else acc ++ [f e]) acc ↔ x ∈ acc ∨ ∃ e ∈ l, f e = x := by
  induction l generalizing acc with
  | nil => simp
  | cons b bs ih =>
    rw [List.foldl_cons, ih]
    by_cases hc : acc.contains (f b) = true
    · rw [if_pos hc]
      have hm : f b ∈ acc := by simpa using hc
      constructor
      · rintro (h | ⟨e, he, rfl⟩)
        · exact Or.inl h
        · exact Or.inr ⟨e, List.mem_cons_of_mem _ he, rfl⟩
      · rintro (h | ⟨e, he, rfl⟩)
        · exact Or.inl h
        · rcases List.mem_cons.mp he with rfl | he
          · exact Or.inl hm
          · exact Or.inr ⟨e, he, rfl⟩
    · rw [if_neg hc]
      constructor
      · rintro (h | ⟨e, he, rfl⟩)
        · rcases List.mem_append.mp h with h | h
          · exact Or.inl h
          · rw [List.mem_singleton] at h
            exact Or.inr ⟨b, List.mem_cons_self .., h.symm⟩
        · exact Or.inr ⟨e, List.mem_cons_of_mem _ he, rfl⟩
      · rintro (h | ⟨e, he, rfl⟩)
        · exact Or.inl (List.mem_append_left _ h)
        · rcases List.mem_cons.mp he with rfl | he
          · exact Or.inl (List.mem_append_right _ (List.mem_singleton.mpr rfl))
          · exact Or.inr ⟨e, he, rfl⟩

/-- a track contributes to a part exactly when one of its (track, channel) cells belongs to the part -/
theorem mem_trackToParts (trch : List (Nat × Nat)) (gpv : List Cell) (tr : Nat) (q : Option Nat) :
    (trackToParts trch gpv tr).contains q = true ↔ ∃ c ∈ trch.zip gpv, c.1.1 = tr ∧ c.2.2.1 = q := by
  unfold trackToParts
  have key := foldl_seen_mem (fun e : (Nat × Nat) × Cell => e.2.2.1) ((trch.zip gpv).filter fun e => e.1.1 = tr) [] q
  rw [List.contains_iff_mem]
  refine key.trans ?_
  simp only [List.not_mem_nil, false_or, List.mem_filter, decide_eq_true_eq]
  constructor
  · rintro ⟨e, ⟨he, ht⟩, hq⟩; exact ⟨e, he, ht, hq⟩
  · rintro ⟨e, he, ht, hq⟩; exact ⟨e, ⟨he, ht⟩, hq⟩

-- ------------------------------------------------------------------ reading the tracks of a written file

/-- what the reader collects from a file whose tracks are the delta-time forms of `trs` -/
theorem readTracks_deltas (trs : List (List (Int × Msg))) :
    readTracks (trs.map (deltasFrom 0)) =
      (trs.zipIdx).map fun x => ((x.2, pairTrack (deltasFrom 0 x.1), timeSigsOf x.1, keySigsOf x.1, temposOf x.1) : TrackRead) := by
  unfold readTracks
  have : ∀ (k : Nat) (l : List (List (Int × Msg))),
      ((l.map (deltasFrom 0)).zipIdx k).map (fun (x : List (Int × Msg) × Nat) =>
        ((x.2, pairAbs (absoluteFrom 0 x.1), timeSigsOf (absoluteFrom 0 x.1), keySigsOf (absoluteFrom 0 x.1),
          temposOf (absoluteFrom 0 x.1)) : TrackRead)) =
      (l.zipIdx k).map fun x => ((x.2, pairTrack (deltasFrom 0 x.1), timeSigsOf x.1, keySigsOf x.1, temposOf x.1) : TrackRead) := by
    intro k l
    induction l generalizing k with
    | nil => rfl
    | cons t ts ih =>
      simp only [List.map_cons, List.zipIdx_cons]
      rw [ih (k + 1)]
      simp only [pairTrack, C04S.absolute_deltas]
  exact this 0 trs

theorem mem_keySigsOf (evs : List (Int × Msg)) (t : Int) (name : String) :
    (t, name) ∈ keySigsOf evs ↔ (t, Msg.keySig name) ∈ evs := by
  unfold keySigsOf
  rw [List.mem_filterMap]
  constructor
  · rintro ⟨⟨t', m⟩, he, hx⟩
    cases m <;> simp at hx
    obtain ⟨rfl, rfl⟩ := hx
    exact he
  · intro he
    exact ⟨_, he, rfl⟩

theorem mem_timeSigsOf (evs : List (Int × Msg)) (t n d : Int) :
    (t, n, d) ∈ timeSigsOf evs ↔ (t, Msg.timeSig n d) ∈ evs := by
  unfold timeSigsOf
  rw [List.mem_filterMap]
  constructor
  · rintro ⟨⟨t', m⟩, he, hx⟩
    cases m <;> simp at hx
    obtain ⟨rfl, rfl, rfl⟩ := hx
    exact he
  · intro he
    exact ⟨_, he, rfl⟩

-- ------------------------------------------------------------------ the signatures handed to `create_part`

/-- the tables of one imported part, as `importPart` builds them -/
theorem import_part_tables (mode ticks : Nat) (tracks : List (List (Int × Msg))) (imp : Imported)
    (h : loadScoreMidi mode ticks tracks = some imp) :
    let byTrCh := notesByTrCh ((readTracks tracks).filter fun e => !e.2.1.isEmpty)
    let trch := sortedTC (byTrCh.map (·.1))
    let gpv := assignGroupPartVoice mode trch
    let sig := sigTables (readTracks tracks)
    ∀ e ∈ imp.parts,
      e.2.keySigs = sortedSet ltKS
        ((sig.trackKS.flatMap fun t => if (trackToParts trch gpv t.1).contains (some e.1) then t.2 else []) ++ sig.globalKS) ∧
      e.2.timeSigs =
        (let tss := sortedSet ltTS
          ((sig.trackTS.flatMap fun t => if (trackToParts trch gpv t.1).contains (some e.1) then t.2 else []) ++ sig.globalTS)
         if tss.isEmpty then [(0, 4, 4)] else tss) := by
  intro byTrCh trch gpv sig e he
  obtain ⟨hp, _⟩ := C04I.load_inv mode ticks tracks imp h
  have hf := C04E.mapM_some _ _ _ hp
  obtain ⟨q, _, hq⟩ := C04E.forall₂_mem_right hf e he
  cases q with
  | none => simp [importPart] at hq
  | some pid =>
    simp only [importPart, Option.some.injEq] at hq
    subst hq
    exact ⟨rfl, rfl⟩

theorem zip_cell_of_mem (trch : List (Nat × Nat)) (gpv : List Cell) (hlen : gpv.length = trch.length)
    (q : Option Nat) (hq : q ∈ gpv.map (·.2.1)) : ∃ c ∈ trch.zip gpv, c.2.2.1 = q := by
  rw [List.mem_map] at hq
  obtain ⟨g, hgm, hg⟩ := hq
  obtain ⟨j, hj, hgj⟩ := List.mem_iff_getElem.mp hgm
  have hj' : j < trch.length := by omega
  refine ⟨(trch[j], gpv[j]), ?_, ?_⟩
  · rw [List.mem_iff_getElem]
    exact ⟨j, by simp [hj, hj'], by simp⟩
  · simp only
    rw [hgj]
    exact hg

/-- every imported part owns a (track, channel) cell -/
theorem import_part_has_cell (mode ticks : Nat) (tracks : List (List (Int × Msg))) (imp : Imported)
    (h : loadScoreMidi mode ticks tracks = some imp) :
    let byTrCh := notesByTrCh ((readTracks tracks).filter fun e => !e.2.1.isEmpty)
    let trch := sortedTC (byTrCh.map (·.1))
    let gpv := assignGroupPartVoice mode trch
    ∀ e ∈ imp.parts, ∃ c ∈ trch.zip gpv, c.2.2.1 = some e.1 := by
  intro byTrCh trch gpv e he
  obtain ⟨hp, _⟩ := C04I.load_inv mode ticks tracks imp h
  have hf := C04E.mapM_some _ _ _ hp
  obtain ⟨q, hqm, hq⟩ := C04E.forall₂_mem_right hf e he
  cases q with
  | none => simp [importPart] at hq
  | some pid =>
    simp only [importPart, Option.some.injEq] at hq
    subst hq
    rw [C04G.mem_firstSeen] at hqm
    exact zip_cell_of_mem trch gpv (C04M.assign_length mode trch) (some pid) hqm

/-- without a track that has notes but no time signature the sanitize step does nothing -/
theorem sigTables_unsanitized (perTrack : List TrackRead)
    (h : ∀ e ∈ perTrack, e.2.1.isEmpty = false → e.2.2.1 ≠ []) :
    (sigTables perTrack).trackTS = (perTrack.filter fun e => !e.2.1.isEmpty).map (fun e => (e.1, e.2.2.1)) ∧
    (sigTables perTrack).globalTS = (perTrack.filter fun e => e.2.1.isEmpty).flatMap (fun e => e.2.2.1) := by
  have hany : ((perTrack.filter fun e => !e.2.1.isEmpty).map fun e => e.2.2.1.length).any (· = 0) = false := by
    rw [List.any_eq_false]
    intro n hn
    rw [List.mem_map] at hn
    obtain ⟨e, hem, rfl⟩ := hn
    rw [List.mem_filter] at hem
    have := h e hem.1 (by simpa using hem.2)
    simpa using this
  unfold sigTables
  simp only [hany, Bool.and_false, Bool.false_and, Bool.false_eq_true, ↓reduceIte, and_self]

/-- the two outcomes of the sanitize step for the time signatures -/
theorem sigTables_ts_cases (perTrack : List TrackRead) :
    ((sigTables perTrack).globalTS = (perTrack.filter fun e => !e.2.1.isEmpty).flatMap (fun e => e.2.2.1) ∧
      (sigTables perTrack).trackTS = []) ∨
    ((sigTables perTrack).globalTS = (perTrack.filter fun e => e.2.1.isEmpty).flatMap (fun e => e.2.2.1) ∧
      (sigTables perTrack).trackTS = (perTrack.filter fun e => !e.2.1.isEmpty).map (fun e => (e.1, e.2.2.1))) := by
  unfold sigTables
  dsimp only
  split
  · left; exact ⟨rfl, rfl⟩
  · right; exact ⟨rfl, rfl⟩

-- ------------------------------------------------------------------ strictly ascending lists with the same members

theorem sorted_ext (lt : α → α → Bool) (hirr : ∀ a, lt a a = false)
    (htrans : ∀ a b c, lt a b = true → lt b c = true → lt a c = true)
    (l₁ l₂ : List α) (h₁ : l₁.Pairwise (fun a b => lt a b = true)) (h₂ : l₂.Pairwise (fun a b => lt a b = true))
    (hm : ∀ x, x ∈ l₁ ↔ x ∈ l₂) : l₁ = l₂ := by
  have hasymm : ∀ a b, lt a b = true → lt b a = true → False := by
    intro a b h1 h2
    have := htrans a b a h1 h2
    rw [hirr a] at this
    exact Bool.false_ne_true this
  induction l₁ generalizing l₂ with
  | nil =>
    cases l₂ with
    | nil => rfl
    | cons b bs => exact absurd ((hm b).mpr List.mem_cons_self) (by simp)
  | cons a as ih =>
    cases l₂ with
    | nil => exact absurd ((hm a).mp List.mem_cons_self) (by simp)
    | cons b bs =>
      obtain ⟨ha, has⟩ := List.pairwise_cons.mp h₁
      obtain ⟨hb, hbs⟩ := List.pairwise_cons.mp h₂
      have hab : a = b := by
        rcases List.mem_cons.mp ((hm a).mp List.mem_cons_self) with h | h
        · exact h
        · rcases List.mem_cons.mp ((hm b).mpr List.mem_cons_self) with h' | h'
          · exact h'.symm
          · exact absurd (ha b h') (fun h1 => hasymm a b h1 (hb a h))
      subst hab
      congr 1
      apply ih bs has hbs
      intro x
      constructor
      · intro hx
        rcases List.mem_cons.mp ((hm x).mp (List.mem_cons_of_mem _ hx)) with h | h
        · subst h
          have := ha x hx
          rw [hirr x] at this
          exact absurd this Bool.false_ne_true
        · exact h
      · intro hx
        rcases List.mem_cons.mp ((hm x).mpr (List.mem_cons_of_mem _ hx)) with h | h
        · subst h
          have := hb x hx
          rw [hirr x] at this
          exact absurd this Bool.false_ne_true
        · exact h

theorem ltKS_irrefl (a : Int × String) : ltKS a a = false := by
  obtain ⟨a1, a2⟩ := a
  simp [ltKS]

theorem ltTS_irrefl (a : Int × Int × Int) : ltTS a a = false := by
  obtain ⟨a1, a2, a3⟩ := a
  simp [ltTS]

/-- the part numbers of the imported parts, in order: those `assign_group_part_voice` hands out, by first appearance -/
theorem import_part_ids (mode ticks : Nat) (tracks : List (List (Int × Msg))) (imp : Imported)
    (h : loadScoreMidi mode ticks tracks = some imp) :
    let byTrCh := notesByTrCh ((readTracks tracks).filter fun e => !e.2.1.isEmpty)
    let trch := sortedTC (byTrCh.map (·.1))
    let gpv := assignGroupPartVoice mode trch
    imp.parts.map (fun e => some e.1) = firstSeen (gpv.map (·.2.1)) := by
  intro byTrCh trch gpv
  obtain ⟨hp, _⟩ := C04I.load_inv mode ticks tracks imp h
  have hf := C04E.mapM_some _ _ _ hp
  have : ∀ (l : List (Option Nat)) (r : List (Nat × PartOut)),
      List.Forall₂ (fun q e => importPart ticks byTrCh trch gpv (sigTables (readTracks tracks)) q = some e) l r →
      r.map (fun e => some e.1) = l := by
    intro l r hfr
    induction hfr with
    | nil => rfl
    | @cons q e l' r' hqe _ ih =>
      rw [List.map_cons, ih]
      congr 1
      cases q with
      | none => simp [importPart] at hqe
      | some pid =>
        simp only [importPart, Option.some.injEq] at hqe
        subst hqe
        rfl
  exact this _ _ hf

/-- the condition of the sanitize step -/
def sanitizes (pt : List TrackRead) : Bool :=
  ((pt.filter fun e => e.2.1.isEmpty).flatMap fun e => e.2.2.1).isEmpty &&
    ((pt.filter fun e => !e.2.1.isEmpty).map fun e => e.2.2.1.length).any (· = 0) &&
    ((pt.filter fun e => !e.2.1.isEmpty).map fun e => e.2.2.1.length).any (· ≠ 0)

theorem sigTables_ts_eq (pt : List TrackRead) :
    (sigTables pt).globalTS = (if sanitizes pt then (pt.filter fun e => !e.2.1.isEmpty).flatMap (fun e => e.2.2.1)
      else (pt.filter fun e => e.2.1.isEmpty).flatMap (fun e => e.2.2.1)) ∧
    (sigTables pt).trackTS = (if sanitizes pt then [] else (pt.filter fun e => !e.2.1.isEmpty).map (fun e => (e.1, e.2.2.1))) := by
  unfold sigTables sanitizes
  exact ⟨rfl, rfl⟩

/-- a created part always gets a time signature -/
theorem import_timeSigs_ne_nil (mode ticks : Nat) (tracks : List (List (Int × Msg))) (imp : Imported)
    (h : loadScoreMidi mode ticks tracks = some imp) : ∀ e ∈ imp.parts, e.2.timeSigs ≠ [] := by
  intro e he
  have := (import_part_tables mode ticks tracks imp h e he).2
  rw [this]
  dsimp only
  split
  · simp
  · rename_i hne
    intro hnil
    rw [hnil] at hne
    simp at hne

end C04IS
