/-
C11 — the tie chain that replaces a note (Model/Measures.lean: `chainFrom`, `mkChain`, `cutPoints`):
by induction over the split list.
-/
import PartituraModel.Model.Measures
import Mathlib.Tactic.Linarith

namespace C11Tie
open Model Model.Dur Model.Meas

/-- the pieces tile `[s, e)`: consecutive, each non-empty -/
def PTiles : Nat → Nat → List (Nat × Nat × Option Est) → Prop
  | s, e, [] => s = e
  | s, e, (l, r, _) :: rest => l = s ∧ l < r ∧ PTiles r e rest

theorem ptiles_cons (s e l r : Nat) (x : Option Est) (rest : List (Nat × Nat × Option Est)) :
    PTiles s e ((l, r, x) :: rest) ↔ l = s ∧ l < r ∧ PTiles r e rest := Iff.rfl

theorem ptiles_le : ∀ (ps : List (Nat × Nat × Option Est)) (s e : Nat), PTiles s e ps → s ≤ e := by
  intro ps
  induction ps with
  | nil => intro s e h; exact Nat.le_of_eq h
  | cons p rest ih =>
    intro s e h
    obtain ⟨l, r, x⟩ := p
    obtain ⟨h1, h2, h3⟩ := (ptiles_cons ..).mp h
    have := ih r e h3
    omega

/-- summed duration of a chain -/
def sumDur (c : List Note) : Nat := (c.map fun n => n.stop - n.start).sum

/-- consecutive members are adjacent in time and linked both ways -/
def Linked : List Note → Prop
  | a :: b :: rest => a.stop = b.start ∧ a.tieNext = some b.key ∧ b.tiePrev = some a.key ∧ Linked (b :: rest)
  | _ => True

theorem linked_cons2 (a b : Note) (rest : List Note) :
    Linked (a :: b :: rest) ↔ a.stop = b.start ∧ a.tieNext = some b.key ∧ b.tiePrev = some a.key ∧ Linked (b :: rest) :=
  Iff.rfl

def SameAs (orig : Note) (c : List Note) : Prop :=
  ∀ n ∈ c, n.pitch = orig.pitch ∧ n.voice = orig.voice ∧ n.staff = orig.staff

structure ChainSpec (orig : Note) (s e : Nat) (prev : Option Nat) (ck : Nat) (cid : Option String)
    (ps : List (Nat × Nat × Option Est)) (c : List Note) : Prop where
  len : c.length = ps.length
  bounds : c.map (fun n => (n.start, n.stop, n.sym)) = ps
  same : SameAs orig c
  linked : Linked c
  sum : sumDur c = e - s
  head : ∃ h t, c = h :: t ∧ h.start = s ∧ h.key = ck ∧ h.id = cid ∧ h.tiePrev = prev
  last : ∃ l, c.getLast? = some l ∧ l.stop = e ∧ l.tieNext = orig.tieNext ∧ l.slurStops = orig.slurStops

theorem chainFrom_spec (orig : Note) (base : Nat) : ∀ (ps : List (Nat × Nat × Option Est)) (i : Nat)
    (prev : Option Nat) (ck : Nat) (cid : Option String) (s e : Nat), ps ≠ [] → PTiles s e ps →
    ChainSpec orig s e prev ck cid ps (chainFrom orig base i prev ck cid ps) := by
  intro ps
  induction ps with
  | nil => intro i prev ck cid s e h; exact absurd rfl h
  | cons p rest ih =>
    intro i prev ck cid s e _ ht
    obtain ⟨l, r, sy⟩ := p
    obtain ⟨hl, hlr, hrest⟩ := (ptiles_cons ..).mp ht
    subst hl
    cases rest with
    | nil =>
      have he : r = e := hrest
      subst he
      have hc : chainFrom orig base i prev ck cid [(l, r, sy)] =
          [{ orig with key := ck, id := cid, start := l, stop := r, sym := sy, tiePrev := prev,
                       tieNext := orig.tieNext, slurStops := orig.slurStops }] := rfl
      rw [hc]
      refine ⟨rfl, rfl, ?_, trivial, ?_, ⟨_, _, rfl, rfl, rfl, rfl, rfl⟩, ⟨_, rfl, rfl, rfl, rfl⟩⟩
      · intro n hn; simp only [List.mem_singleton] at hn; subst hn; exact ⟨rfl, rfl, rfl⟩
      · simp [sumDur]
    | cons q rest' =>
      have hc : chainFrom orig base i prev ck cid ((l, r, sy) :: q :: rest') =
          { orig with key := ck, id := cid, start := l, stop := r, sym := sy, tiePrev := prev,
                      tieNext := some (base + i), slurStops := [] }
            :: chainFrom orig base (i + 1) (some ck) (base + i) (cid.bind makeTiedNoteId) (q :: rest') := rfl
      rw [hc]
      have ihq := ih (i + 1) (some ck) (base + i) (cid.bind makeTiedNoteId) r e (by simp) hrest
      obtain ⟨h', t', hceq, hs', hk', hid', hp'⟩ := ihq.head
      have hre := ptiles_le _ _ _ hrest
      refine ⟨?_, ?_, ?_, ?_, ?_, ⟨_, _, rfl, rfl, rfl, rfl, rfl⟩, ?_⟩
      · simp only [List.length_cons]; rw [ihq.len]; simp
      · rw [List.map_cons, ihq.bounds]
      · intro n hn
        rcases List.mem_cons.mp hn with hn | hn
        · subst hn; exact ⟨rfl, rfl, rfl⟩
        · exact ihq.same n hn
      · rw [hceq]
        refine (linked_cons2 ..).mpr ⟨hs'.symm, ?_, ?_, ?_⟩
        · simp only; rw [hk']
        · rw [hp']
        · rw [← hceq]; exact ihq.linked
      · have := ihq.sum
        simp only [sumDur, List.map_cons, List.sum_cons] at this ⊢
        rw [this]; omega
      · obtain ⟨la, hla, h1, h2, h3⟩ := ihq.last
        refine ⟨la, ?_, h1, h2, h3⟩
        rw [hceq] at hla ⊢
        simpa [List.getLast?_cons_cons] using hla

/-- the note-array row a chain contributes: onset of its head, summed duration, pitch, voice -/
def chainRow (c : List Note) : Option (Nat × Nat × String × Option Int) :=
  c.head?.map fun h => (h.start, sumDur c, h.pitch, h.voice)

def noteRow (n : Note) : Nat × Nat × String × Option Int := (n.start, n.stop - n.start, n.pitch, n.voice)

/-- **tie_sound_same** (chain level): replacing a note by the chain built from any tiling of its extent
    preserves onset, summed duration, pitch and voice; the chain is contiguous, linked both ways, of one
    pitch/voice/staff, keeps the note's key, id and back link at its head and hands the forward tie and the
    stopping slurs to its last member -/
theorem mkChain_sound (orig : Note) (base : Nat) (ps : List (Nat × Nat × Option Est)) (hne : ps ≠ [])
    (ht : PTiles orig.start orig.stop ps) :
    chainRow (mkChain orig base ps) = some (noteRow orig) ∧
    ChainSpec orig orig.start orig.stop orig.tiePrev orig.key orig.id ps (mkChain orig base ps) := by
  have sp := chainFrom_spec orig base ps 0 orig.tiePrev orig.key orig.id orig.start orig.stop hne ht
  refine ⟨?_, sp⟩
  obtain ⟨h, t, hc, hs, _, _, _⟩ := sp.head
  have hsame := sp.same h (by rw [hc]; exact List.mem_cons_self)
  have hsum := sp.sum
  show chainRow (chainFrom orig base 0 orig.tiePrev orig.key orig.id ps) = some (noteRow orig)
  unfold chainRow noteRow
  rw [hsum, hc]
  simp only [List.head?_cons, Option.map_some, hs, hsame.1, hsame.2.1]

-- ------------------------------------------------------------------ cut points

/-- the pieces `pieceBounds start stop (cutPoints start stop ms)` tile `[start, stop)` — for any list of
    measure starts, sorted or not -/
theorem cutPoints_tiles (f : Nat × Nat → Option Est) : ∀ (ms : List Nat) (start stop : Nat), start < stop →
    PTiles start stop ((pieceBounds start stop (cutPoints start stop ms)).map fun b => (b.1, b.2, f b)) := by
  intro ms
  induction ms with
  | nil =>
    intro start stop h
    exact (ptiles_cons ..).mpr ⟨rfl, h, rfl⟩
  | cons m ms ih =>
    intro start stop h
    unfold cutPoints
    split
    · exact ih start stop h
    · split
      · rename_i h1 h2
        have e : pieceBounds start stop (m :: cutPoints m stop ms) =
            (start, m) :: pieceBounds m stop (cutPoints m stop ms) := rfl
        rw [e, List.map_cons]
        exact (ptiles_cons ..).mpr ⟨rfl, by omega, ih m stop h2⟩
      · exact (ptiles_cons ..).mpr ⟨rfl, h, rfl⟩

/-- every piece starts at or after the start of the note -/
theorem cutPieces_ge : ∀ (ms : List Nat) (start stop : Nat),
    ∀ b ∈ pieceBounds start stop (cutPoints start stop ms), start ≤ b.1 := by
  intro ms
  induction ms with
  | nil =>
    intro start stop b hb
    have e : pieceBounds start stop (cutPoints start stop []) = [(start, stop)] := rfl
    rw [e] at hb; simp only [List.mem_singleton] at hb; subst hb; exact Nat.le_refl _
  | cons m0 ms ih =>
    intro start stop b hb
    unfold cutPoints at hb
    split at hb
    · exact ih start stop b hb
    · split at hb
      · have e : pieceBounds start stop (m0 :: cutPoints m0 stop ms) =
            (start, m0) :: pieceBounds m0 stop (cutPoints m0 stop ms) := rfl
        rw [e] at hb
        rcases List.mem_cons.mp hb with hb | hb
        · subst hb; exact Nat.le_refl _
        · have := ih m0 stop b hb; omega
      · have e : pieceBounds start stop [] = [(start, stop)] := rfl
        rw [e] at hb; simp only [List.mem_singleton] at hb; subst hb; exact Nat.le_refl _

/-- with the measure starts in time order, no measure starts strictly inside a piece: every piece lies
    within one measure of a tiling -/
theorem cutPoints_no_inner : ∀ (ms : List Nat) (start stop : Nat), ms.Pairwise (· ≤ ·) →
    ∀ b ∈ pieceBounds start stop (cutPoints start stop ms), ∀ m ∈ ms, ¬ (b.1 < m ∧ m < b.2) := by
  intro ms
  induction ms with
  | nil => intro start stop _ b _ m hm; simp at hm
  | cons m0 ms ih =>
    intro start stop hs b hb m hm
    have hs' := (List.pairwise_cons.mp hs)
    unfold cutPoints at hb
    split at hb
    · rename_i hle
      rcases List.mem_cons.mp hm with hm | hm
      · subst hm
        have := cutPieces_ge ms start stop b hb
        omega
      · exact ih start stop hs'.2 b hb m hm
    · split at hb
      · rename_i h1 h2
        have e : pieceBounds start stop (m0 :: cutPoints m0 stop ms) =
            (start, m0) :: pieceBounds m0 stop (cutPoints m0 stop ms) := rfl
        rw [e] at hb
        rcases List.mem_cons.mp hb with hb | hb
        · subst hb
          rcases List.mem_cons.mp hm with hm | hm
          · subst hm; simp
          · have := hs'.1 m hm; simp only; omega
        · rcases List.mem_cons.mp hm with hm | hm
          · subst hm
            have := cutPieces_ge ms m stop b hb
            omega
          · exact ih m0 stop hs'.2 b hb m hm
      · rename_i h1 h2
        have e : pieceBounds start stop [] = [(start, stop)] := rfl
        rw [e] at hb
        simp only [List.mem_singleton] at hb
        subst hb
        rcases List.mem_cons.mp hm with hm | hm
        · subst hm; simp only; omega
        · have := hs'.1 m hm; simp only; omega

end C11Tie
