/-
C06 helper lemmas (round 2): `remove_silence_from_performed_part` — minimum of a list, the shift, the
"previous" interpolation on samples in order of time, the partition of the controls into groups.
-/
import PartituraModel.Model.PerfMidi
import PartituraModel.Proofs.C06Sort
import PartituraModel.Proofs.C06Merged
import Mathlib.Tactic.Linarith

namespace C06Silence
open Model Model.PerfMidi C06Sort

-- ------------------------------------------------------------------ minimum, maximum

theorem minRat_none (l : List Rat) : minRat l = none ↔ l = [] := by
  cases l with
  | nil => simp [minRat]
  | cons a l =>
    simp only [minRat]
    cases minRat l <;> simp

theorem minRat_spec (l : List Rat) (m : Rat) (h : minRat l = some m) : m ∈ l ∧ ∀ x ∈ l, m ≤ x := by
  induction l generalizing m with
  | nil => simp [minRat] at h
  | cons a l ih =>
    simp only [minRat] at h
    cases hl : minRat l with
    | none =>
      rw [hl] at h
      have : l = [] := (minRat_none l).mp hl
      subst this
      simp at h
      subst h
      simp
    | some m' =>
      rw [hl] at h
      obtain ⟨h1, h2⟩ := ih m' hl
      simp at h
      by_cases ham : a ≤ m'
      · rw [if_pos ham] at h
        subst h
        refine ⟨List.mem_cons_self, ?_⟩
        intro x hx
        rcases List.mem_cons.mp hx with rfl | hx
        · exact le_refl _
        · exact le_trans ham (h2 x hx)
      · rw [if_neg ham] at h
        subst h
        refine ⟨List.mem_cons_of_mem _ h1, ?_⟩
        intro x hx
        rcases List.mem_cons.mp hx with rfl | hx
        · exact le_of_lt (not_le.mp ham)
        · exact h2 x hx

theorem maxRat_none (l : List Rat) : maxRat l = none ↔ l = [] := by
  cases l with
  | nil => simp [maxRat]
  | cons a l =>
    simp only [maxRat]
    cases maxRat l <;> simp

theorem maxRat_spec (l : List Rat) (m : Rat) (h : maxRat l = some m) : m ∈ l ∧ ∀ x ∈ l, x ≤ m := by
  induction l generalizing m with
  | nil => simp [maxRat] at h
  | cons a l ih =>
    simp only [maxRat] at h
    cases hl : maxRat l with
    | none =>
      rw [hl] at h
      have : l = [] := (maxRat_none l).mp hl
      subst this
      simp at h
      subst h
      simp
    | some m' =>
      rw [hl] at h
      obtain ⟨h1, h2⟩ := ih m' hl
      simp at h
      by_cases ham : m' ≤ a
      · rw [if_pos ham] at h
        subst h
        refine ⟨List.mem_cons_self, ?_⟩
        intro x hx
        rcases List.mem_cons.mp hx with rfl | hx
        · exact le_refl _
        · exact le_trans (h2 x hx) ham
      · rw [if_neg ham] at h
        subst h
        refine ⟨List.mem_cons_of_mem _ h1, ?_⟩
        intro x hx
        rcases List.mem_cons.mp hx with rfl | hx
        · exact le_of_lt (not_le.mp ham)
        · exact h2 x hx

-- ------------------------------------------------------------------ the shift

theorem shiftT_of_le (s t : Rat) (h : s ≤ t) : shiftT s t = t - s := by
  unfold shiftT
  rw [if_neg (by linarith)]

theorem shiftT_nonneg (s t : Rat) : 0 ≤ shiftT s t := by
  unfold shiftT
  split
  · exact le_refl _
  · linarith

theorem shiftT_mono (s a b : Rat) (h : a ≤ b) : shiftT s a ≤ shiftT s b := by
  unfold shiftT
  split <;> split <;> linarith

theorem shiftT_pos_iff (s t : Rat) : 0 < shiftT s t ↔ s < t := by
  unfold shiftT
  split
  · constructor
    · intro h; exact absurd h (lt_irrefl 0)
    · intro h; linarith
  · constructor
    · intro h; linarith
    · intro h; linarith

-- ------------------------------------------------------------------ "previous" interpolation

theorem ctlTimeLe_total (a b : PCtl) : ctlTimeLe a b = true ∨ ctlTimeLe b a = true := by
  simp only [ctlTimeLe, decide_eq_true_eq]
  exact le_total _ _

theorem ctlTimeLe_trans (a b c : PCtl) (h1 : ctlTimeLe a b = true) (h2 : ctlTimeLe b c = true) :
    ctlTimeLe a c = true := by
  simp only [ctlTimeLe, decide_eq_true_eq] at *
  exact le_trans h1 h2

/-- on samples strictly in order of time, starting after the best so far, the loop ends on the sample at `t` -/
theorem prevBest_sorted (t : Rat) (v : Nat) (l : List (Rat × Nat)) (best : Option (Rat × Nat))
    (hs : l.Pairwise (fun a b => a.1 < b.1)) (hb : ∀ b, best = some b → ∀ x ∈ l, b.1 < x.1)
    (hm : (t, v) ∈ l) : prevBest t best l = some (t, v) := by
  induction l generalizing best with
  | nil => cases hm
  | cons c l ih =>
    obtain ⟨x, w⟩ := c
    rw [List.pairwise_cons] at hs
    -- after the sample at t nothing is ≤ t
    have hafter : ∀ (l' : List (Rat × Nat)) (b : Option (Rat × Nat)), (∀ y ∈ l', t < y.1) → prevBest t b l' = b := by
      intro l' b hl'
      induction l' generalizing b with
      | nil => rfl
      | cons y l' ih' =>
        obtain ⟨y1, y2⟩ := y
        have : ¬ y1 ≤ t := not_le.mpr (hl' (y1, y2) List.mem_cons_self)
        simp only [prevBest, this, if_false]
        exact ih' b (fun z hz => hl' z (List.mem_cons_of_mem _ hz))
    rcases List.mem_cons.mp hm with heq | hm'
    · -- the head is the sample at t
      have hx : x = t := (Prod.mk.inj heq).1.symm
      have hw : w = v := (Prod.mk.inj heq).2.symm
      subst hx; subst hw
      have hrest : ∀ y ∈ l, x < y.1 := fun y hy => hs.1 y hy
      cases best with
      | none =>
        simp only [prevBest, le_refl, if_true]
        exact hafter l _ hrest
      | some b =>
        obtain ⟨bx, bv⟩ := b
        have hbx : bx ≤ x := le_of_lt (hb (bx, bv) rfl (x, w) List.mem_cons_self)
        simp only [prevBest, le_refl, if_true, hbx]
        exact hafter l _ hrest
    · -- the sample at t comes later: the head is before it
      have hxt : x ≤ t := le_of_lt (hs.1 (t, v) hm')
      have hnext : ∀ b, some (x, w) = some b → ∀ y ∈ l, b.1 < y.1 := by
        intro b hb' y hy
        cases hb'
        exact hs.1 y hy
      cases best with
      | none =>
        simp only [prevBest, hxt, if_true]
        exact ih (some (x, w)) hs.2 hnext hm'
      | some b =>
        obtain ⟨bx, bv⟩ := b
        have hbx : bx ≤ x := le_of_lt (hb (bx, bv) rfl (x, w) List.mem_cons_self)
        simp only [prevBest, hxt, if_true, hbx]
        exact ih (some (x, w)) hs.2 hnext hm'

/-- a sample of a group whose times are strictly increasing keeps its value -/
theorem prevVal_sorted (c0 : Rat × Nat) (rest : List (Rat × Nat))
    (hs : (c0 :: rest).Pairwise (fun a b => a.1 < b.1)) (t : Rat) (v : Nat) (hm : (t, v) ∈ c0 :: rest) :
    prevVal c0 rest t = v := by
  unfold prevVal
  simp only
  have hmem : t ∈ (c0 :: rest).map (·.1) := List.mem_map.mpr ⟨(t, v), hm, rfl⟩
  cases hlo : minRat ((c0 :: rest).map (·.1)) with
  | none => exact absurd ((minRat_none _).mp hlo) (by simp)
  | some lo =>
    cases hhi : maxRat ((c0 :: rest).map (·.1)) with
    | none => exact absurd ((maxRat_none _).mp hhi) (by simp)
    | some hi =>
      have h1 := (minRat_spec _ lo hlo).2 t hmem
      have h2 := (maxRat_spec _ hi hhi).2 t hmem
      simp only [not_lt.mpr h1, not_lt.mpr h2, if_false]
      rw [prevBest_sorted t v (c0 :: rest) none hs (fun b hb => by cases hb) hm]

-- ------------------------------------------------------------------ groups partition the controls

theorem nodup_nub (l : List Nat) : (nub l).Nodup := by
  induction l with
  | nil => exact List.nodup_nil
  | cons a l ih =>
    unfold nub
    rw [List.nodup_cons]
    refine ⟨?_, ih.filter _⟩
    intro h
    have := (List.mem_filter.mp h).2
    simp at this

theorem mem_nub (l : List Nat) (x : Nat) : x ∈ nub l ↔ x ∈ l := by
  induction l with
  | nil => simp [nub]
  | cons a l ih =>
    unfold nub
    rw [List.mem_cons, List.mem_cons, List.mem_filter, ih]
    by_cases h : x = a
    · simp [h]
    · simp [h]

/-- a list split by the value of `f`, values in order of first occurrence -/
theorem nub_partition {γ : Type} (f : γ → Nat) (X : List γ) :
    ((nub (X.map f)).flatMap fun v => X.filter (fun x => f x == v)).Perm X := by
  have := C06Merged.flatMap_filter_perm f X (nub (X.map f)) (nodup_nub _)
    (fun x hx => (mem_nub _ _).mpr (List.mem_map.mpr ⟨x, hx, rfl⟩))
  refine List.Perm.trans ?_ this
  refine List.Perm.of_eq ?_
  refine List.flatMap_congr ?_
  intro v _
  refine List.filter_congr ?_
  intro x _
  by_cases h : f x = v <;> simp [h]

-- ------------------------------------------------------------------ the controls after the first onset

/-- (shifted time, number, channel, track) of the controls strictly after `s` -/
def laterKeys (s : Rat) (X : List PCtl) : List (Rat × Nat × Nat × Nat) :=
  (X.filter (fun c => decide (s < c.time))).map fun c => (c.time - s, c.num, c.ch, c.track)

def ctlKey (c : PCtl) : Rat × Nat × Nat × Nat := (c.time, c.num, c.ch, c.track)

theorem laterKeys_flatMap {γ : Type} (s : Rat) (l : List γ) (f : γ → List PCtl) :
    laterKeys s (l.flatMap f) = l.flatMap (fun a => laterKeys s (f a)) := by
  unfold laterKeys
  rw [List.filter_flatMap, List.map_flatMap]

theorem laterKeys_perm (s : Rat) {X Y : List PCtl} (h : X.Perm Y) : (laterKeys s X).Perm (laterKeys s Y) :=
  (h.filter _).map _

theorem flatMap_perm_congr {γ δ : Type} (l : List γ) (f g : γ → List δ) (h : ∀ a ∈ l, (f a).Perm (g a)) :
    (l.flatMap f).Perm (l.flatMap g) :=
  C06Lists.flatMap_perm_of_forall₂ f g l l (List.forall₂_same.mpr h)

theorem filter_pos_map (s : Rat) (num ch tr : Nat) (F : Rat → PCtl)
    (hF : ∀ t, (F t).time = shiftT s t ∧ (F t).num = num ∧ (F t).ch = ch ∧ (F t).track = tr) (T : List Rat) :
    ((T.map F).filter (fun c => decide (0 < c.time))).map ctlKey
      = (T.filter (fun t => decide (s < t))).map (fun t => (t - s, num, ch, tr)) := by
  rw [List.filter_map, List.map_map]
  have : (fun c : PCtl => decide (0 < c.time)) ∘ F = fun t => decide (s < t) := by
    funext t
    simp only [Function.comp, (hF t).1, shiftT_pos_iff]
  rw [this]
  refine List.map_congr_left ?_
  intro t ht
  have hst : s < t := by simpa using (List.mem_filter.mp ht).2
  obtain ⟨h1, h2, h3, h4⟩ := hF t
  simp only [Function.comp, ctlKey, h1, h2, h3, h4, shiftT_of_le s t (le_of_lt hst)]

theorem later_times (s : Rat) (num ch tr : Nat) (L : List PCtl)
    (hL : ∀ c ∈ L, c.track = tr ∧ c.ch = ch ∧ c.num = num) :
    ((((L.map (fun c => (c.time, c.val))).filter (fun c => decide (s ≤ c.1))).map (·.1)).filter
        (fun t => decide (s < t))).map (fun t => (t - s, num, ch, tr)) = laterKeys s L := by
  induction L with
  | nil => rfl
  | cons c L ih =>
    have ih' := ih (fun c' hc' => hL c' (List.mem_cons_of_mem _ hc'))
    obtain ⟨h1, h2, h3⟩ := hL c List.mem_cons_self
    unfold laterKeys at ih' ⊢
    by_cases hlt : s < c.time
    · have hle : s ≤ c.time := le_of_lt hlt
      simp only [List.map_cons, List.filter_cons, hle, hlt, decide_true, if_true]
      rw [ih', h1, h2, h3]
    · by_cases hle : s ≤ c.time
      · simp only [List.map_cons, List.filter_cons, hle, hlt, decide_true, decide_false, if_true]
        simpa using ih'
      · simp only [List.map_cons, List.filter_cons, hle, hlt, decide_false]
        simpa using ih'

/-- one group: after dropping what lands on time 0, the shifted controls are the group's controls strictly
    after `s`, shifted (values aside) -/
theorem shiftGroup_later (s : Rat) (tr ch num : Nat) (X : List PCtl)
    (hX : ∀ c ∈ X, c.track = tr ∧ c.ch = ch ∧ c.num = num) :
    ((shiftGroup s (tr, ch, num, X.map (fun c => (c.time, c.val)))).filter (fun c => decide (0 < c.time))).map ctlKey
      = laterKeys s X := by
  cases X with
  | nil => rfl
  | cons x X =>
    have e : (x :: X).map (fun c => (c.time, c.val)) = (x.time, x.val) :: X.map (fun c => (c.time, c.val)) := rfl
    rw [e]
    simp only [shiftGroup]
    rw [← e, filter_pos_map s num ch tr _ (fun t => ⟨rfl, rfl, rfl, rfl⟩)]
    generalize hT : (((x :: X).map (fun c => (c.time, c.val))).filter (fun c => decide (s ≤ c.1))).map (·.1) = T
    have hT2 : (T.filter (fun t => decide (s < t))).map (fun t => (t - s, num, ch, tr)) = laterKeys s (x :: X) := by
      rw [← hT]
      exact later_times s num ch tr (x :: X) hX
    split
    · exact hT2
    · rw [List.filter_cons_of_neg (by simp)]
      exact hT2

/-- all groups: the controls strictly after `s` are kept (shifted), as a multiset of (time, number, channel,
    track) -/
theorem groups_later (s : Rat) (cs : List PCtl) :
    ((((groupControls cs).flatMap (shiftGroup s)).filter (fun c => decide (0 < c.time))).map ctlKey).Perm
      (laterKeys s cs) := by
  rw [List.filter_flatMap, List.map_flatMap]
  unfold groupControls
  simp only [List.flatMap_assoc, List.flatMap_map]
  -- innermost groups
  have inner : ∀ tr ch num,
      ((shiftGroup s (tr, ch, num,
          (((cs.filter (fun c => c.track == tr)).filter (fun c => c.ch == ch)).filter (fun c => c.num == num)).map
            (fun c => (c.time, c.val)))).filter (fun c => decide (0 < c.time))).map ctlKey
        = laterKeys s (((cs.filter (fun c => c.track == tr)).filter (fun c => c.ch == ch)).filter (fun c => c.num == num)) := by
    intro tr ch num
    refine shiftGroup_later s tr ch num _ ?_
    intro c hc
    have h3 := List.mem_filter.mp hc
    have h2 := List.mem_filter.mp h3.1
    have h1 := List.mem_filter.mp h2.1
    exact ⟨by simpa using h1.2, by simpa using h2.2, by simpa using h3.2⟩
  simp only [inner]
  -- glue the three levels
  have lvl3 : ∀ tr ch, ((nub (((cs.filter (fun c => c.track == tr)).filter (fun c => c.ch == ch)).map (·.num))).flatMap fun num =>
        laterKeys s (((cs.filter (fun c => c.track == tr)).filter (fun c => c.ch == ch)).filter (fun c => c.num == num))).Perm
      (laterKeys s ((cs.filter (fun c => c.track == tr)).filter (fun c => c.ch == ch))) := by
    intro tr ch
    rw [← laterKeys_flatMap]
    exact laterKeys_perm s (nub_partition (fun c : PCtl => c.num) _)
  have lvl2 : ∀ tr, ((nub ((cs.filter (fun c => c.track == tr)).map (·.ch))).flatMap fun ch =>
        (nub (((cs.filter (fun c => c.track == tr)).filter (fun c => c.ch == ch)).map (·.num))).flatMap fun num =>
          laterKeys s (((cs.filter (fun c => c.track == tr)).filter (fun c => c.ch == ch)).filter (fun c => c.num == num))).Perm
      (laterKeys s (cs.filter (fun c => c.track == tr))) := by
    intro tr
    refine (flatMap_perm_congr _ _ _ (fun ch _ => lvl3 tr ch)).trans ?_
    rw [← laterKeys_flatMap]
    exact laterKeys_perm s (nub_partition (fun c : PCtl => c.ch) _)
  refine (flatMap_perm_congr _ _ _ (fun tr _ => lvl2 tr)).trans ?_
  rw [← laterKeys_flatMap]
  exact laterKeys_perm s (nub_partition (fun c : PCtl => c.track) _)

end C06Silence
