/-
Helper lemmas for the C19 writer theorems: the token written for a note parses back to the note
(character level), and the rows written by `KernWrite.writeKern` drive the `Kern` state machine
column by column.
-/
import PartituraModel.Model.KernWrite
import PartituraModel.Proofs.C19
import PartituraModel.Proofs.Digits

set_option linter.unusedSimpArgs false

namespace C19W
open Model Model.Kern Model.KernWrite C19P

/-! ## character classes -/

/-- what `parseSub` looks at in a token -/
structure Prof where
  num : List Char
  letters : List Char
  dots : Nat
  sharps : Nat
  flats : Nat
  q : Bool
  r : Bool
  o : Bool
  u : Bool
  c : Bool
  sp : Bool
  deriving DecidableEq

def numP (c : Char) : Bool := c.isDigit || c = '%'

def prof (cs : List Char) : Prof :=
  ⟨cs.filter numP, cs.filter isPitchLetter, count '.' cs, count '#' cs, count '-' cs,
   cs.contains 'q', cs.contains 'r', cs.contains '[', cs.contains '_', cs.contains ']', cs.contains ' '⟩

def Prof.add (a b : Prof) : Prof :=
  ⟨a.num ++ b.num, a.letters ++ b.letters, a.dots + b.dots, a.sharps + b.sharps, a.flats + b.flats,
   a.q || b.q, a.r || b.r, a.o || b.o, a.u || b.u, a.c || b.c, a.sp || b.sp⟩

theorem prof_append (a b : List Char) : prof (a ++ b) = (prof a).add (prof b) := by
  simp [prof, Prof.add, List.filter_append, count_append, List.contains_append]

def parseProf (p : Prof) : Option SubTok :=
  let recip? : Option (Option Recip) :=
    if p.num = [] then (if p.q then some none else none)
    else (parseRecip p.num).map some
  match recip? with
  | none => none
  | some recip =>
    let mk (pt : Option (String × Int)) : SubTok :=
      { recip := recip, dots := p.dots, pitch := pt, alter := (p.sharps : Int) - (p.flats : Int), grace := p.q,
        tOpen := p.o, tCont := p.u, tClose := p.c }
    if p.r then some (mk none)
    else (pitchOf p.letters).map fun pt => mk (some pt)

theorem parseSub_prof (cs : List Char) : parseSub cs = parseProf (prof cs) := by
  simp only [parseSub, parseProf, prof, numP, alterOf]
  rfl

def digitChars : List Char := ['0', '1', '2', '3', '4', '5', '6', '7', '8', '9']

theorem digitChar_mem (d : Nat) (h : d < 10) : digitChar d ∈ digitChars := by
  interval_cases d <;> decide

theorem natDigitsRev_mem (fuel n : Nat) : ∀ c ∈ natDigitsRev fuel n, c ∈ digitChars := by
  induction fuel generalizing n with
  | zero => simp [natDigitsRev]
  | succ fuel ih =>
    unfold natDigitsRev
    split
    · rename_i hlt
      intro c hc
      simp only [List.mem_singleton] at hc
      subst hc
      exact digitChar_mem n hlt
    · intro c hc
      simp only [List.mem_cons] at hc
      rcases hc with rfl | hc
      · exact digitChar_mem _ (Nat.mod_lt _ (by decide))
      · exact ih _ c hc

theorem natDigits_mem (n : Nat) : ∀ c ∈ natDigits n, c ∈ digitChars := by
  unfold natDigits
  intro c hc
  exact natDigitsRev_mem _ _ c (List.mem_reverse.mp hc)

/-- a list of characters drawn from a finite alphabet on which the profile is known pointwise -/
theorem prof_of_class (S : List Char) (l : List Char) (hl : ∀ c ∈ l, c ∈ S)
    (hn : ∀ c ∈ S, numP c = true) (hp : ∀ c ∈ S, isPitchLetter c = false)
    (h1 : '.' ∉ S) (h2 : '#' ∉ S) (h3 : '-' ∉ S) (h4 : 'q' ∉ S) (h5 : 'r' ∉ S) (h6 : '[' ∉ S) (h7 : '_' ∉ S) (h8 : ']' ∉ S) (h9 : ' ' ∉ S) :
    prof l = ⟨l, [], 0, 0, 0, false, false, false, false, false, false⟩ := by
  have hno : ∀ x, x ∉ S → x ∉ l := fun x hx hm => hx (hl x hm)
  have hc : ∀ x, x ∉ S → count x l = 0 := by
    intro x hx
    simp only [count, List.length_eq_zero_iff, List.filter_eq_nil_iff]
    intro a ha
    have : a ≠ x := fun h => hx (h ▸ hl a ha)
    simpa using this
  simp only [prof, hc _ h1, hc _ h2, hc _ h3, List.contains_eq_mem, hno _ h4, hno _ h5, hno _ h6, hno _ h7, hno _ h8, hno _ h9,
    decide_false, Prof.mk.injEq, and_true, true_and]
  exact ⟨List.filter_eq_self.mpr fun a ha => hn a (hl a ha),
         List.filter_eq_nil_iff.mpr fun a ha => by simp [hp a (hl a ha)]⟩

theorem prof_digits (l : List Char) (hl : ∀ c ∈ l, c ∈ digitChars) :
    prof l = ⟨l, [], 0, 0, 0, false, false, false, false, false, false⟩ :=
  prof_of_class digitChars l hl (by decide) (by decide) (by decide) (by decide) (by decide) (by decide)
    (by decide) (by decide) (by decide) (by decide) (by decide)

theorem prof_natDigits (n : Nat) : prof (natDigits n) = ⟨natDigits n, [], 0, 0, 0, false, false, false, false, false, false⟩ :=
  prof_digits _ (natDigits_mem n)

theorem prof_dots (k : Nat) : prof (List.replicate k '.') = ⟨[], [], k, 0, 0, false, false, false, false, false, false⟩ := by
  induction k with
  | zero => rfl
  | succ k ih =>
    rw [List.replicate_succ, ← List.singleton_append, prof_append, ih]
    simp [prof, Prof.add, count, numP, isPitchLetter]
    omega

/-- the fourteen pitch letters -/
def pitchLetters : List Char := ['C', 'D', 'E', 'F', 'G', 'A', 'B', 'c', 'd', 'e', 'f', 'g', 'a', 'b']

theorem prof_letters (L : Char) (hL : L ∈ pitchLetters) (k : Nat) :
    prof (List.replicate k L) = ⟨[], List.replicate k L, 0, 0, 0, false, false, false, false, false, false⟩ := by
  induction k with
  | zero => rfl
  | succ k ih =>
    rw [List.replicate_succ, ← List.singleton_append, prof_append, ih]
    simp only [pitchLetters, List.mem_cons, List.not_mem_nil, or_false] at hL
    rcases hL with rfl | rfl | rfl | rfl | rfl | rfl | rfl | rfl | rfl | rfl | rfl | rfl | rfl | rfl <;> rfl

theorem kernDursW_facts : ∀ e ∈ kernDursW,
    (parseRecip e.2).bind baseValue = some (4 / baseRecip e.2) ∧ e.2 ≠ [] ∧ (∀ c ∈ e.2, c ∈ digitChars) ∧ 0 < baseRecip e.2 := by
  decide +kernel

theorem lookup_mem {α β : Type} [DecidableEq α] (k : α) (l : List (α × β)) (v : β) (h : lookup k l = some v) : (k, v) ∈ l := by
  induction l with
  | nil => simp [lookup] at h
  | cons a rest ih =>
    obtain ⟨a1, a2⟩ := a
    simp only [lookup] at h
    split at h
    · rename_i heq
      simp at h
      subst h
      simp [heq]
    · exact List.mem_cons_of_mem _ (ih h)

theorem allZeros_digitsToNat (l : List Char) (h : l.all (· = '0') = true) : digitsToNat l = 0 := by
  unfold digitsToNat
  suffices ∀ acc, acc = 0 → l.foldl (fun n c => 10 * n + (c.toNat - '0'.toNat)) acc = 0 from this 0 rfl
  induction l with
  | nil => intro acc h0; simpa using h0
  | cons c rest ih =>
    intro acc h0
    simp only [List.all_cons, Bool.and_eq_true, decide_eq_true_eq] at h
    simp only [List.foldl_cons]
    apply ih h.2
    subst h0
    rw [h.1]
    rfl

theorem digits_all_isDigit (l : List Char) (hl : ∀ c ∈ l, c ∈ digitChars) : l.all Char.isDigit = true := by
  rw [List.all_eq_true]
  intro c hc
  have := hl c hc
  revert c
  intro c _ h
  simp only [digitChars, List.mem_cons, List.not_mem_nil, or_false] at h
  rcases h with rfl | rfl | rfl | rfl | rfl | rfl | rfl | rfl | rfl | rfl <;> rfl

theorem percent_not_digits (l : List Char) (hl : ∀ c ∈ l, c ∈ digitChars) : '%' ∉ l := by
  intro h
  have := hl _ h
  revert this
  decide

/-- the decimal digits of a positive number are read back as that number -/
theorem parseRecip_natDigits (m : Nat) (hm : 0 < m) : parseRecip (natDigits m) = some (.num m) := by
  have hd := natDigits_mem m
  have hne := Digits.natDigits_ne_nil m
  have hall := digits_all_isDigit _ hd
  have hz : (natDigits m).all (· = '0') = false := by
    by_contra hc
    simp only [Bool.not_eq_false] at hc
    have := allZeros_digitsToNat _ hc
    rw [Digits.digitsToNat_natDigits] at this
    omega
  simp only [parseRecip, List.splitOn_eq_singleton (percent_not_digits _ hd)]
  simp [hne, hall, hz, Digits.digitsToNat_natDigits]

theorem parseRecip_frac (a b : Nat) :
    parseRecip (natDigits a ++ '%' :: natDigits b) = some (.frac a b) := by
  have ha := natDigits_mem a
  have hb := natDigits_mem b
  simp only [parseRecip, List.splitOn_append_cons_self_of_not_mem (percent_not_digits _ ha),
    List.splitOn_eq_singleton (percent_not_digits _ hb)]
  simp [Digits.natDigits_ne_nil, digits_all_isDigit _ ha, digits_all_isDigit _ hb, Digits.digitsToNat_natDigits]

/-- the reciprocal written for a positive rational denotes `4/r` quarters -/
theorem recipChars_value (r : Rat) (hr : 0 < r) :
    ∃ R, parseRecip (recipChars r) = some R ∧ baseValue R = some (4 / r) ∧ recipChars r ≠ [] ∧
      (∀ c ∈ recipChars r, c ∈ '%' :: digitChars) ∧ (recipChars r).head? ≠ some '%' := by
  have hnum : 0 < r.num := Rat.num_pos.mpr hr
  have hcast : ((r.num.toNat : Nat) : Rat) = (r.num : Rat) := by
    have : ((r.num.toNat : Nat) : Int) = r.num := Int.toNat_of_nonneg (le_of_lt hnum)
    exact_mod_cast this
  have hnpos : 0 < r.num.toNat := by omega
  have hrd := Rat.num_div_den r
  have hnum0 : (r.num : Rat) ≠ 0 := by exact_mod_cast (ne_of_gt hnum)
  by_cases hden : r.den = 1
  · refine ⟨.num r.num.toNat, ?_, ?_, ?_, ?_, ?_⟩
    · simp [recipChars, hden, parseRecip_natDigits _ hnpos]
    · have : r.num.toNat ≠ 0 := by omega
      simp only [baseValue, this, if_false, hcast]
      rw [hden] at hrd
      simp at hrd
      rw [hrd]
    · simp [recipChars, hden, Digits.natDigits_ne_nil]
    · intro c hc
      simp only [recipChars, hden, if_true] at hc
      exact List.mem_cons_of_mem _ (natDigits_mem _ c hc)
    · simp only [recipChars, hden, if_true]
      intro h
      have hm : '%' ∈ natDigits r.num.toNat := List.mem_of_mem_head? h
      exact percent_not_digits _ (natDigits_mem _) hm
  · refine ⟨.frac r.num.toNat r.den, ?_, ?_, ?_, ?_, ?_⟩
    · simp [recipChars, hden, parseRecip_frac]
    · have h1 : r.num.toNat ≠ 0 := by omega
      have h2 : r.den ≠ 0 := r.den_nz
      simp only [baseValue, h1, h2, or_self, if_false, hcast]
      have hd0 : (r.den : Rat) ≠ 0 := by exact_mod_cast h2
      have e : (4 : Rat) / r = 4 * (r.den : Rat) / (r.num : Rat) := by
        conv_lhs => rw [← hrd]
        field_simp
      rw [e]
    · simp [recipChars, hden]
    · intro c hc
      simp only [recipChars, hden, if_false, List.mem_append, List.mem_cons] at hc
      rcases hc with hc | rfl | hc
      · exact List.mem_cons_of_mem _ (natDigits_mem _ c hc)
      · simp
      · exact List.mem_cons_of_mem _ (natDigits_mem _ c hc)
    · simp only [recipChars, hden, if_false]
      intro h
      have hne := Digits.natDigits_ne_nil r.num.toNat
      cases hnd : natDigits r.num.toNat with
      | nil => exact hne hnd
      | cons x xs =>
        rw [hnd] at h
        simp at h
        have : '%' ∈ natDigits r.num.toNat := by rw [hnd, ← h]; simp
        exact percent_not_digits _ (natDigits_mem _) this

def valOf (divs : Nat) (n : XNote) : Rat := if n.kind = 1 then 0 else (n.dur : Rat) / (divs : Rat)

abbrev plainProf (num letters : List Char) (dots sharps flats : Nat) : Prof :=
  ⟨num, letters, dots, sharps, flats, false, false, false, false, false, false⟩

theorem prof_recipAlphabet (l : List Char) (hl : ∀ c ∈ l, c ∈ '%' :: digitChars) :
    prof l = plainProf l [] 0 0 0 :=
  prof_of_class ('%' :: digitChars) l hl (by decide) (by decide) (by decide) (by decide) (by decide) (by decide)
    (by decide) (by decide) (by decide) (by decide) (by decide)

/-- the duration written for a symbolic duration reads back as its value -/
theorem symTok_spec (sd : SymDur) (v : Rat) (hv : symValue sd = some v) :
    ∃ num R, symTok sd = some (num ++ List.replicate sd.dots '.') ∧ prof num = plainProf num [] 0 0 0 ∧
      parseRecip num = some R ∧ value R sd.dots = some v ∧ (∃ h rest, num = h :: rest ∧ h ∈ digitChars) := by
  simp only [symValue] at hv
  cases hl : lookup sd.type kernDursW with
  | none => simp [hl] at hv
  | some base =>
    simp only [hl] at hv
    obtain ⟨hpb, hne, hdig, hpos⟩ := kernDursW_facts (sd.type, base) (lookup_mem _ _ _ hl)
    simp only at hpb hne hdig hpos
    cases ht : sd.tup with
    | none =>
      simp only [ht, Option.some.injEq] at hv
      obtain ⟨R, hR, hbv⟩ := Option.bind_eq_some_iff.mp hpb
      refine ⟨base, R, ?_, ?_, hR, ?_, ?_⟩
      · simp [symTok, hl, ht]
      · exact prof_recipAlphabet base fun c hc => List.mem_cons_of_mem _ (hdig c hc)
      · simp [value, hbv, hv]
      · cases base with
        | nil => exact absurd rfl hne
        | cons h rest => exact ⟨h, rest, rfl, hdig h (by simp)⟩
    | some ab =>
      obtain ⟨a, b⟩ := ab
      simp only [ht] at hv
      by_cases h0 : a = 0 ∨ b = 0
      · simp [h0] at hv
      · simp only [h0, if_false, Option.some.injEq] at hv
        have ha : a ≠ 0 := fun h => h0 (Or.inl h)
        have hb : b ≠ 0 := fun h => h0 (Or.inr h)
        have haq : (0 : Rat) < (a : Rat) := by exact_mod_cast Nat.pos_of_ne_zero ha
        have hbq : (0 : Rat) < (b : Rat) := by exact_mod_cast Nat.pos_of_ne_zero hb
        have hr : 0 < baseRecip base * (a : Rat) / (b : Rat) := div_pos (mul_pos hpos haq) hbq
        obtain ⟨R, hR, hbv, hne', hal, hhd⟩ := recipChars_value _ hr
        refine ⟨recipChars (baseRecip base * (a : Rat) / (b : Rat)), R, ?_, prof_recipAlphabet _ hal, hR, ?_, ?_⟩
        · simp [symTok, hl, ht, hb]
        · simp only [value, hbv, Option.map_some, Option.some.injEq]
          rw [← hv]
          congr 1
          have h1 : baseRecip base ≠ 0 := ne_of_gt hpos
          have h2 : (a : Rat) ≠ 0 := ne_of_gt haq
          have h3 : (b : Rat) ≠ 0 := ne_of_gt hbq
          field_simp
        · cases hrc : recipChars (baseRecip base * (a : Rat) / (b : Rat)) with
          | nil => exact absurd hrc hne'
          | cons h rest =>
            refine ⟨h, rest, rfl, ?_⟩
            have hm := hal h (by rw [hrc]; simp)
            rw [hrc] at hhd
            simp only [List.head?_cons, ne_eq, Option.some.injEq] at hhd
            rcases List.mem_cons.mp hm with h' | h'
            · exact absurd h' hhd
            · exact h'

theorem stepLetters_facts : ∀ e ∈ stepLetters,
    (e.2.2, e.1, (4 : Int)) ∈ kernNotes ∧ (e.2.1, e.1, (3 : Int)) ∈ kernNotes ∧ e.2.2 ∈ pitchLetters ∧ e.2.1 ∈ pitchLetters := by
  decide

theorem accToSign_facts : ∀ e ∈ accToSign,
    prof e.2 = plainProf [] [] 0 (count '#' e.2) (count '-' e.2) ∧ ((count '#' e.2 : Nat) : Int) - ((count '-' e.2 : Nat) : Int) = e.1 := by
  decide

/-- the letters written for (step, octave) read back as that step and octave -/
theorem letters_spec (n : XNote) (up lo : Char) (hs : lookup n.step stepLetters = some (up, lo)) :
    ∃ letters, (if n.octave > 4 then List.replicate (n.octave - 3).toNat lo
        else if n.octave < 3 then List.replicate (4 - n.octave).toNat up
        else if n.octave = 3 then [up] else [lo]) = letters ∧
      prof letters = plainProf [] letters 0 0 0 ∧ pitchOf letters = some (n.step, n.octave) := by
  obtain ⟨h4, h3, hlo, hup⟩ := stepLetters_facts (n.step, up, lo) (lookup_mem _ _ _ hs)
  simp only at h4 h3 hlo hup
  by_cases c1 : n.octave > 4
  · refine ⟨List.replicate (n.octave - 3).toNat lo, by simp only [c1, if_true], prof_letters lo hlo _, ?_⟩
    have hk : (n.octave - 3).toNat = (n.octave - 4).toNat + 1 := by omega
    rw [hk, pitchOf_replicate _ h4]
    simp only [if_true, Option.some.injEq, Prod.mk.injEq, true_and]
    omega
  · by_cases c2 : n.octave < 3
    · refine ⟨List.replicate (4 - n.octave).toNat up, by simp only [c1, c2, if_true, if_false], prof_letters up hup _, ?_⟩
      have hk : (4 - n.octave).toNat = (3 - n.octave).toNat + 1 := by omega
      rw [hk, pitchOf_replicate _ h3]
      simp only [Option.some.injEq, Prod.mk.injEq, true_and]
      have : ¬ ((3 : Int) = 4) := by decide
      simp only [this, if_false]
      omega
    · by_cases c3 : n.octave = 3
      · refine ⟨[up], by simp [c3], prof_letters up hup 1, ?_⟩
        have := pitchOf_replicate _ h3 0
        simp only [List.replicate] at this
        rw [this]
        simp [c3]
      · refine ⟨[lo], by simp only [c1, c2, c3, if_false], prof_letters lo hlo 1, ?_⟩
        have := pitchOf_replicate _ h4 0
        simp only [List.replicate] at this
        rw [this]
        simp only [if_true, Option.some.injEq, Prod.mk.injEq, true_and]
        omega

structure TokSpec (divs : Nat) (n : XNote) (cs : List Char) (t : SubTok) : Prop where
  tok : noteTok n = some cs
  parse : parseSub cs = some t
  value : subValue t = some (valOf divs n)
  grace : t.grace = decide (n.kind = 1)
  pitch : t.pitch = if n.kind = 2 then none else some (n.step, n.octave)
  alter : n.kind ≠ 2 → t.alter = n.alter.getD 0
  nosp : ' ' ∉ cs
  head : ∃ h rest, cs = h :: rest ∧ h ∈ 'q' :: digitChars

theorem markTok_prof (n : XNote) :
    ∃ o u c, prof (markTok n) = ⟨[], [], 0, 0, 0, false, false, o, u, c, false⟩ := by
  unfold markTok
  split
  · exact ⟨_, _, _, rfl⟩
  · split
    · exact ⟨_, _, _, rfl⟩
    · split
      · exact ⟨_, _, _, rfl⟩
      · split
        · exact ⟨_, _, _, rfl⟩
        · exact ⟨_, _, _, rfl⟩

/-- the pitch part of a token of a note or grace note -/
theorem pitchTok_spec (n : XNote) (hk : n.kind ≠ 2) (hs : (lookup n.step stepLetters).isSome = true)
    (ha : (match n.alter with | none => true | some a => (lookup a accToSign).isSome) = true) :
    ∃ letters sign s f, pitchTok n = some (letters ++ sign) ∧ prof letters = plainProf [] letters 0 0 0 ∧
      pitchOf letters = some (n.step, n.octave) ∧ prof sign = plainProf [] [] 0 s f ∧
      ((s : Nat) : Int) - ((f : Nat) : Int) = n.alter.getD 0 := by
  cases hl : lookup n.step stepLetters with
  | none => simp [hl] at hs
  | some ul =>
    obtain ⟨up, lo⟩ := ul
    obtain ⟨letters, hlet, hprof, hpitch⟩ := letters_spec n up lo hl
    cases hal : n.alter with
    | none =>
      refine ⟨letters, [], 0, 0, ?_, hprof, hpitch, rfl, by simp⟩
      simp only [pitchTok, hk, if_false, hl, hal, hlet, List.append_nil]
    | some a =>
      simp only [hal] at ha
      cases hsg : lookup a accToSign with
      | none => simp [hsg] at ha
      | some sg =>
        obtain ⟨hp, hv⟩ := accToSign_facts (a, sg) (lookup_mem _ _ _ hsg)
        simp only at hp hv
        refine ⟨letters, sg, _, _, ?_, hprof, hpitch, hp, by simpa using hv⟩
        simp only [pitchTok, hk, if_false, hl, hal, hlet, hsg, Option.map_some]

theorem noteTok_spec (divs : Nat) (n : XNote) (h : noteOk divs n = true) : ∃ cs t, TokSpec divs n cs t := by
  simp only [noteOk, Bool.and_eq_true, Bool.or_eq_true, decide_eq_true_eq] at h
  obtain ⟨⟨hk, hp⟩, hd⟩ := h
  obtain ⟨mo, mu, mc, hm⟩ := markTok_prof n
  by_cases k2 : n.kind = 2
  · -- a rest
    have k1 : n.kind ≠ 1 := by omega
    rcases hd with hd | hd
    · exact absurd hd k1
    · cases hsym : n.sym with
      | none => simp [hsym] at hd
      | some sd =>
        simp only [hsym, decide_eq_true_eq] at hd
        obtain ⟨num, R, htok, hprof, hR, hval, hh, hrest, hnum, hhd⟩ := symTok_spec sd _ hd
        have hmark : markTok n = [] := by simp [markTok, k2]
        have hcs : noteTok n = some (num ++ List.replicate sd.dots '.' ++ ['r'] ++ []) := by
          simp [noteTok, durTok, k1, hsym, htok, pitchTok, k2, hmark]
        have hpr : prof (num ++ List.replicate sd.dots '.' ++ ['r'] ++ []) =
            ⟨num, [], sd.dots, 0, 0, false, true, false, false, false, false⟩ := by
          rw [List.append_nil, prof_append, prof_append, hprof, prof_dots]
          simp [Prof.add, prof, count, numP, isPitchLetter]
        have hne : num ≠ [] := by rw [hnum]; simp
        refine ⟨_, { recip := some R, dots := sd.dots, pitch := none, alter := 0, grace := false,
                     tOpen := false, tCont := false, tClose := false }, hcs, ?_, ?_, ?_, ?_, ?_, ?_, ?_⟩
        · rw [parseSub_prof, hpr]
          simp [parseProf, hne, hR]
        · simp [subValue, hval, valOf, k1]
        · simp [k1]
        · simp [k2]
        · intro hc; exact absurd k2 hc
        · have := congrArg Prof.sp hpr
          simp only [prof] at this
          simpa [List.contains_eq_mem] using this
        · exact ⟨hh, hrest ++ List.replicate sd.dots '.' ++ ['r'] ++ [], by simp [hnum], List.mem_cons_of_mem _ hhd⟩
  · rcases hp with hp | hp
    · exact absurd hp k2
    · obtain ⟨letters, sign, s, f, hpt, hpl, hpo, hps, hsf⟩ := pitchTok_spec n k2 hp.1 hp.2
      by_cases k1 : n.kind = 1
      · -- a grace note
        have hcs : noteTok n = some (['q'] ++ (letters ++ sign) ++ markTok n) := by
          simp [noteTok, durTok, k1, hpt]
        have hpr : prof (['q'] ++ (letters ++ sign) ++ markTok n) =
            ⟨[], letters, 0, s, f, true, false, mo, mu, mc, false⟩ := by
          rw [prof_append, prof_append, prof_append, hpl, hps, hm]
          simp [Prof.add, prof, count, numP, isPitchLetter]
        refine ⟨_, { recip := none, dots := 0, pitch := some (n.step, n.octave), alter := n.alter.getD 0, grace := true,
                     tOpen := mo, tCont := mu, tClose := mc }, hcs, ?_, ?_, ?_, ?_, ?_, ?_, ?_⟩
        · rw [parseSub_prof, hpr]
          simp [parseProf, hpo, hsf]
        · simp [subValue, valOf, k1]
        · simp [k1]
        · simp [k2]
        · intro _; rfl
        · have := congrArg Prof.sp hpr
          simp only [prof] at this
          simpa [List.contains_eq_mem] using this
        · exact ⟨'q', (letters ++ sign) ++ markTok n, by simp, by simp⟩
      · -- an ordinary note
        rcases hd with hd | hd
        · exact absurd hd k1
        · cases hsym : n.sym with
          | none => simp [hsym] at hd
          | some sd =>
            simp only [hsym, decide_eq_true_eq] at hd
            obtain ⟨num, R, htok, hprof, hR, hval, hh, hrest, hnum, hhd⟩ := symTok_spec sd _ hd
            have hcs : noteTok n = some (num ++ List.replicate sd.dots '.' ++ (letters ++ sign) ++ markTok n) := by
              simp [noteTok, durTok, k1, hsym, htok, hpt]
            have hpr : prof (num ++ List.replicate sd.dots '.' ++ (letters ++ sign) ++ markTok n) =
                ⟨num, letters, sd.dots, s, f, false, false, mo, mu, mc, false⟩ := by
              rw [prof_append, prof_append, prof_append, prof_append, hprof, prof_dots, hpl, hps, hm]
              simp [Prof.add]
            have hne : num ≠ [] := by rw [hnum]; simp
            refine ⟨_, { recip := some R, dots := sd.dots, pitch := some (n.step, n.octave), alter := n.alter.getD 0,
                         grace := false, tOpen := mo, tCont := mu, tClose := mc }, hcs, ?_, ?_, ?_, ?_, ?_, ?_, ?_⟩
            · rw [parseSub_prof, hpr]
              simp [parseProf, hne, hR, hpo, hsf]
            · simp [subValue, hval, valOf, k1]
            · simp [k1]
            · simp [k2]
            · intro _; rfl
            · have := congrArg Prof.sp hpr
              simp only [prof] at this
              simpa [List.contains_eq_mem] using this
            · exact ⟨hh, hrest ++ List.replicate sd.dots '.' ++ (letters ++ sign) ++ markTok n, by simp [hnum],
                List.mem_cons_of_mem _ hhd⟩

/-! ## nothing is lost when the raw notes are assembled into parts -/

theorem mem_insertUniq {α : Type} [BEq α] [LawfulBEq α] (a b : α) (l : List α) :
    b ∈ insertUniq a l ↔ b = a ∨ b ∈ l := by
  unfold insertUniq
  split
  · rename_i h
    have : a ∈ l := by simpa [List.contains_eq_mem] using h
    constructor
    · intro hb; exact Or.inr hb
    · rintro (rfl | hb)
      · exact this
      · exact hb
  · simp [List.mem_append, or_comm]

theorem mem_dedup_aux {α : Type} [BEq α] [LawfulBEq α] (l acc : List α) (b : α) :
    b ∈ l.foldl (fun acc a => insertUniq a acc) acc ↔ b ∈ acc ∨ b ∈ l := by
  induction l generalizing acc with
  | nil => simp
  | cons a rest ih =>
    simp only [List.foldl_cons, ih, mem_insertUniq, List.mem_cons]
    tauto

theorem mem_dedup {α : Type} [BEq α] [LawfulBEq α] (l : List α) (b : α) : b ∈ dedup l ↔ b ∈ l := by
  simp [dedup, mem_dedup_aux]

theorem exists_zip_right {α β : Type} (l : List α) (l' : List β) (h : l.length = l'.length) (a : α) (ha : a ∈ l) :
    ∃ b, (a, b) ∈ l.zip l' := by
  induction l generalizing l' with
  | nil => cases ha
  | cons x xs ih =>
    cases l' with
    | nil => simp at h
    | cons y ys =>
      simp only [List.length_cons, Nat.add_right_cancel_iff] at h
      rcases List.mem_cons.mp ha with rfl | ha
      · exact ⟨y, by simp⟩
      · obtain ⟨b, hb⟩ := ih ys h ha
        exact ⟨b, by simp [hb]⟩

theorem tieFlags_length (ns : List TNote) : (tieFlags ns).length = ns.length := by
  simp [tieFlags]

/-- every pitched raw note of a voice column is among the column's notes, with the same time, value, spelling and staff -/
theorem colPart_mem (raw : List RawNote) (offs : List (Nat × Nat)) (r : RawNote) (hr : r ∈ raw) (hk : r.kind ≠ 2) :
    ∃ m ∈ (colPart raw offs (r.main, r.pos)).1, m.onset = r.onset ∧ m.dur = r.dur ∧ m.kind = r.kind ∧ m.step = r.step ∧
      m.alter = r.alter ∧ m.octave = r.octave ∧ m.staff = r.staff := by
  have h1 : r ∈ (raw.filter fun (n : RawNote) => n.main = r.main && n.pos = r.pos).filter fun (n : RawNote) => n.kind ≠ 2 := by
    simp [List.mem_filter, hr, hk]
  obtain ⟨fl, hfl⟩ := exists_zip_right _ (tieFlags (((raw.filter fun (n : RawNote) => n.main = r.main && n.pos = r.pos).filter
    fun (n : RawNote) => n.kind ≠ 2).map tnoteOf)) (by simp [tieFlags_length]) r h1
  refine ⟨pitchedNote (1 + (lookup r.main offs).getD 0 + r.pos) (r, fl), ?_, ?_⟩
  · simp only [colPart]
    apply List.mem_append_left
    exact List.mem_map.mpr ⟨(r, fl), hfl, rfl⟩
  · simp [pitchedNote]

theorem mkPart_mem (st : Kern.St) (m : Nat) (r : RawNote) (hr : r ∈ st.notes) (hm : r.main = m) (hk : r.kind ≠ 2) :
    ∃ x ∈ (mkPart st [m]).notes, x.onset = r.onset ∧ x.dur = r.dur ∧ x.kind = r.kind ∧ x.step = r.step ∧
      x.alter = r.alter ∧ x.octave = r.octave ∧ x.staff = r.staff := by
  have hraw : r ∈ st.notes.reverse.filter fun (n : RawNote) => [m].contains n.main := by
    simp [List.mem_filter, hr, hm]
  obtain ⟨x, hx, hfacts⟩ := colPart_mem _ (voiceOffsets st.widths [m] 0) r hraw hk
  refine ⟨x, ?_, hfacts⟩
  simp only [mkPart, List.mem_mergeSort]
  apply List.mem_flatten.mpr
  refine ⟨_, ?_, hx⟩
  apply List.mem_map.mpr
  refine ⟨colPart _ _ (r.main, r.pos), ?_, rfl⟩
  apply List.mem_map.mpr
  refine ⟨(r.main, r.pos), ?_, rfl⟩
  rw [mem_dedup]
  exact List.mem_map.mpr ⟨r, hraw, rfl⟩

/-- spines that are parts of their own: every pitched raw note is a note of the part of its spine -/
theorem assemble_mem (st : Kern.St) (mains : List Nat) (hs : st.same = false) (r : RawNote) (hr : r ∈ st.notes)
    (hm : r.main ∈ mains) (hk : r.kind ≠ 2) :
    ∃ p ∈ assemble st mains, ∃ x ∈ p.notes, x.onset = r.onset ∧ x.dur = r.dur ∧ x.kind = r.kind ∧ x.step = r.step ∧
      x.alter = r.alter ∧ x.octave = r.octave ∧ x.staff = r.staff := by
  obtain ⟨x, hx, hf⟩ := mkPart_mem st r.main r hr rfl hk
  refine ⟨mkPart st [r.main], ?_, x, hx, hf⟩
  simp only [assemble, hs, Bool.false_eq_true, if_false, List.mem_reverse]
  exact List.mem_map.mpr ⟨r.main, hm, rfl⟩

/-! ## the columns of the state machine while it reads a document written by the exporter -/

/-- the spines: one per writer column, numbered from `j`, all `**kern`, standing at `cur c`, on staff `stf c` -/
def kcolsFrom (cur : Nat × Nat → Rat) (stf : Nat × Nat → Nat) : Nat → List (Nat × Nat) → List Col
  | _, [] => []
  | j, c :: rest => ⟨j, true, cur c, stf c⟩ :: kcolsFrom cur stf (j + 1) rest

theorem kcolsFrom_length (cur stf) (j : Nat) (cols : List (Nat × Nat)) : (kcolsFrom cur stf j cols).length = cols.length := by
  induction cols generalizing j with
  | nil => rfl
  | cons c rest ih => simp [kcolsFrom, ih]

theorem withPosAux_kcols (cur stf) (cols : List (Nat × Nat)) (j : Nat) (prev : Option Nat) (k : Nat)
    (hp : ∀ m, prev = some m → m < j) :
    withPosAux (kcolsFrom cur stf j cols) prev k = (kcolsFrom cur stf j cols).map fun c => (c, 0) := by
  induction cols generalizing j prev k with
  | nil => rfl
  | cons c rest ih =>
    have hne : prev ≠ some j := fun h => by have := hp j h; omega
    simp only [kcolsFrom, withPosAux, hne, if_false, List.map_cons]
    congr 1
    exact ih (j + 1) (some j) 0 (fun m hm => by simp at hm; omega)

theorem withPos_kcols (cur stf) (cols : List (Nat × Nat)) :
    withPos (kcolsFrom cur stf 0 cols) = (kcolsFrom cur stf 0 cols).map fun c => (c, 0) :=
  withPosAux_kcols cur stf cols 0 none 0 (fun m hm => by simp at hm)

/-- an interpretation cell that is not a spine path: reads on every `**kern` spine, may set the staff,
    and leaves notes, part grouping and positions alone -/
structure TandemOK (cell : List Char) (newStaff : Option Nat) : Prop where
  np1 : cell ≠ "*^".toList
  np2 : cell ≠ "*v".toList
  np3 : cell ≠ "*-".toList
  ok : ∀ (st : Kern.St) (k : Col) (p : Nat), k.kern = true →
    ∃ st', tandem st k p cell = some (st', { k with staff := newStaff.getD k.staff }) ∧ st'.notes = st.notes ∧ st'.same = st.same

theorem interpRow_spec (cur stf) (cell : Nat × Nat → List Char) (ns : Nat × Nat → Option Nat)
    (cols : List (Nat × Nat)) (hc : ∀ c ∈ cols, TandemOK (cell c) (ns c))
    (st : Kern.St) (j : Nat) (acc : List Col) (b : Bool) :
    ∃ st', interpRow st ((kcolsFrom cur stf j cols).map fun c => (c, 0)) (cols.map cell) acc b
        = some (st', acc.reverse ++ kcolsFrom cur (fun c => (ns c).getD (stf c)) j cols) ∧
      st'.notes = st.notes ∧ st'.same = st.same := by
  induction cols generalizing st j acc b with
  | nil => exact ⟨st, by simp [kcolsFrom, interpRow], rfl, rfl⟩
  | cons c rest ih =>
    have hcc := hc c (by simp)
    obtain ⟨st1, h1, hn1, hs1⟩ := hcc.ok st ⟨j, true, cur c, stf c⟩ 0 rfl
    obtain ⟨st2, h2, hn2, hs2⟩ := ih (fun x hx => hc x (by simp [hx])) st1 (j + 1)
      ({ main := j, kern := true, cursor := cur c, staff := (ns c).getD (stf c) } :: acc) false
    refine ⟨st2, ?_, by rw [hn2, hn1], by rw [hs2, hs1]⟩
    simp only [kcolsFrom, List.map_cons, interpRow, hcc.np1, hcc.np2, hcc.np3, if_false, h1]
    rw [h2]
    simp [kcolsFrom]

theorem barRow_spec (cps : List (Col × Nat)) (cells : List (List Char)) (h : cps.length = cells.length) (st : Kern.St) :
    ∃ st', barRow st cps cells = some st' ∧ st'.notes = st.notes ∧ st'.same = st.same ∧ st'.cols = st.cols := by
  induction cps generalizing cells st with
  | nil =>
    cases cells with
    | nil => exact ⟨st, rfl, rfl, rfl, rfl⟩
    | cons _ _ => simp at h
  | cons cp rest ih =>
    cases cells with
    | nil => simp at h
    | cons cell cells =>
      simp only [List.length_cons, Nat.add_right_cancel_iff] at h
      obtain ⟨c, p⟩ := cp
      simp only [barRow]
      split
      · obtain ⟨st', h1, h2, h3, h4⟩ := ih cells h { st with bars := ⟨c.main, p, c.cursor, firstNat cell⟩ :: st.bars }
        exact ⟨st', h1, h2, h3, h4⟩
      · exact ih cells h st

/-! ### data rows -/

theorem subNotes_of (k : Col) (p : Nat) (toks : List SubTok) (h : ∀ t ∈ toks, ∃ d, subValue t = some d) :
    ∃ ns, subNotes k p toks = some ns ∧ ∀ t ∈ toks, ∀ d, subValue t = some d → noteOf k p t d ∈ ns := by
  induction toks with
  | nil => exact ⟨[], rfl, by simp⟩
  | cons t rest ih =>
    obtain ⟨d, hd⟩ := h t (by simp)
    obtain ⟨ns, hns, hmem⟩ := ih (fun x hx => h x (by simp [hx]))
    refine ⟨noteOf k p t d :: ns, by simp [subNotes, hd, hns], ?_⟩
    intro x hx d' hd'
    rcases List.mem_cons.mp hx with rfl | hx
    · rw [hd] at hd'
      simp at hd'
      subst hd'
      simp
    · exact List.mem_cons_of_mem _ (hmem x hx d' hd')

theorem tokenNotes_of (k : Col) (p : Nat) (toks : List SubTok) (a : Rat)
    (h : ∀ t ∈ toks, ∃ d, subValue t = some d) (ha : tokAdv toks = some a) :
    ∃ ns, tokenNotes k p toks = some (ns, a) ∧ ∀ t ∈ toks, ∀ d, subValue t = some d → noteOf k p t d ∈ ns := by
  obtain ⟨ns, hns, hmem⟩ := subNotes_of k p toks h
  refine ⟨ns, ?_, hmem⟩
  simp only [tokAdv] at ha
  cases hta : tokenAdvance toks with
  | none => simp [hta] at ha
  | some x =>
    simp only [hta, Option.map_some, Option.some.injEq] at ha
    simp only [tokenNotes, hns, hta, Option.some.injEq, Prod.mk.injEq, true_and]
    exact ha

theorem lookup_none_of_lt (anchors : List (Nat × Rat)) (g : Nat) (h : ∀ e ∈ anchors, e.1 < g) : lookup g anchors = none := by
  induction anchors with
  | nil => rfl
  | cons e rest ih =>
    obtain ⟨e1, e2⟩ := e
    have : e1 < g := h (e1, e2) (by simp)
    have hne : ¬ (e1 = g) := by omega
    simp only [lookup, hne, if_false]
    exact ih (fun x hx => h x (by simp [hx]))

/-- what a cell of a data row is, for the spine of writer column `c` -/
inductive CellKind (cell : List Char) (toks : List SubTok) (adv : Rat) : Prop where
  | null (h : cell = ['.']) (ht : toks = []) (ha : adv = 0)
  | tandem (hd : cell ≠ ['.']) (hb : startsWith cell "!" = false) (hs : startsWith cell "*" = true)
      (ok : TandemOK cell none) (ht : toks = []) (ha : adv = 0)
  | token (hd : cell ≠ ['.']) (hb : startsWith cell "!" = false) (hs : startsWith cell "*" = false)
      (hp : parseToken cell = some toks) (hv : ∀ t ∈ toks, ∃ d, subValue t = some d) (hadv : tokAdv toks = some adv)

theorem dataRow_spec (cur stf) (cell : Nat × Nat → List Char) (toks : Nat × Nat → List SubTok) (adv : Nat × Nat → Rat)
    (cols : List (Nat × Nat)) (hc : ∀ c ∈ cols, CellKind (cell c) (toks c) (adv c))
    (st : Kern.St) (hsame : st.same = false) (j : Nat) (acc : List Col) (anchors : List (Nat × Rat))
    (hanch : ∀ e ∈ anchors, e.1 < j + 1) :
    ∃ st' new, dataRow st ((kcolsFrom cur stf j cols).map fun c => (c, 0)) (cols.map cell) acc anchors
        = some (st', acc.reverse ++ kcolsFrom (fun c => cur c + adv c) stf j cols) ∧
      st'.notes = new ++ st.notes ∧ st'.same = false ∧
      (∀ r ∈ new, j ≤ r.main ∧ r.main < j + cols.length) ∧
      (∀ c ∈ cols, ∀ t ∈ toks c, ∀ d, subValue t = some d →
        ∃ m, noteOf ⟨m, true, cur c, stf c⟩ 0 t d ∈ new) ∧
      (∀ r ∈ new, ∃ c ∈ cols, toks c ≠ []) := by
  induction cols generalizing st j acc anchors with
  | nil => exact ⟨st, [], by simp [kcolsFrom, dataRow], by simp, hsame, by simp, by simp, by simp⟩
  | cons c rest ih =>
    have hrest : ∀ x ∈ rest, CellKind (cell x) (toks x) (adv x) := fun x hx => hc x (by simp [hx])
    cases hc c (by simp) with
    | null h ht ha =>
      obtain ⟨st', new, h1, h2, h3, h4, h5, h6⟩ := ih hrest st hsame (j + 1) (⟨j, true, cur c, stf c⟩ :: acc) anchors
        (fun e he => by have := hanch e he; omega)
      refine ⟨st', new, ?_, h2, h3, ?_, ?_, fun r hr => by obtain ⟨x, hx, hx'⟩ := h6 r hr; exact ⟨x, by simp [hx], hx'⟩⟩
      · simp only [kcolsFrom, List.map_cons, dataRow, h, Bool.or_true, Bool.true_or, if_true]
        rw [h1]
        simp [kcolsFrom, ha]
      · intro r hr; have := h4 r hr; simp only [List.length_cons]; omega
      · intro x hx t htk d hd
        rcases List.mem_cons.mp hx with rfl | hx
        · rw [ht] at htk; cases htk
        · exact h5 x hx t htk d hd
    | tandem hd hb hs ok ht ha =>
      obtain ⟨st1, ht1, hn1, hs1⟩ := ok.ok st ⟨j, true, cur c, stf c⟩ 0 rfl
      obtain ⟨st', new, h1, h2, h3, h4, h5, h6⟩ := ih hrest st1 (by rw [hs1]; exact hsame) (j + 1)
        (⟨j, true, cur c, stf c⟩ :: acc) anchors (fun e he => by have := hanch e he; omega)
      refine ⟨st', new, ?_, by rw [h2, hn1], h3, ?_, ?_, fun r hr => by obtain ⟨x, hx, hx'⟩ := h6 r hr; exact ⟨x, by simp [hx], hx'⟩⟩
      · have e1 : cell c ≠ "*^".toList := ok.np1
        have e2 : cell c ≠ "*v".toList := ok.np2
        have e3 : cell c ≠ "*-".toList := ok.np3
        simp only [kcolsFrom, List.map_cons, dataRow, hd, hb, hs, Bool.not_true, Bool.false_or, decide_false,
          Bool.false_eq_true, if_false, if_true, e1, e2, e3, Bool.or_self, ht1]
        simp only [Option.getD_none] at h1 ⊢
        rw [h1]
        simp [kcolsFrom, ha]
      · intro r hr; have := h4 r hr; simp only [List.length_cons]; omega
      · intro x hx t htk d hd'
        rcases List.mem_cons.mp hx with rfl | hx
        · rw [ht] at htk; cases htk
        · exact h5 x hx t htk d hd'
    | token hd hb hs hp hv hadv =>
      obtain ⟨scols, snotes, sbars, sts, sks, scl, spt, sit, sw, ssame⟩ := st
      simp only at hsame
      subst hsame
      obtain ⟨ns, hns, hmem⟩ := tokenNotes_of ⟨j, true, cur c, stf c⟩ 0 (toks c) (adv c) hv hadv
      have hlk : lookup (j + 1) anchors = none := lookup_none_of_lt anchors (j + 1) hanch
      have htne : toks c ≠ [] := by
        intro he
        rw [he] at hadv
        simp [tokAdv, tokenAdvance] at hadv
      obtain ⟨st', new, h1, h2, h3, h4, h5, h6⟩ := ih hrest ⟨scols, ns.reverse ++ snotes, sbars, sts, sks, scl, spt, sit, sw, false⟩ rfl (j + 1)
        (⟨j, true, cur c + adv c, stf c⟩ :: acc) ((j + 1, cur c) :: anchors)
        (fun e he => by
          rcases List.mem_cons.mp he with rfl | he
          · simp
          · have := hanch e he; omega)
      have hsub : subNotes ⟨j, true, cur c, stf c⟩ 0 (toks c) = some ns := (tokenNotes_adv _ _ _ _ _ hns).2
      have hmain := subNotes_onset _ _ _ _ hsub
      refine ⟨st', new ++ ns.reverse, ?_, by rw [h2]; simp, h3, ?_, ?_, ?_⟩
      · simp only [kcolsFrom, List.map_cons, dataRow, hd, hb, hs, Bool.not_true, Bool.false_or, decide_false,
          Bool.false_eq_true, if_false, hp, groupKey, hlk, hns]
        rw [h1]
        simp [kcolsFrom]
      · intro r hr
        simp only [List.length_cons]
        rcases List.mem_append.mp hr with hr | hr
        · have := h4 r hr; omega
        · have := (hmain r (List.mem_reverse.mp hr)).2.2.2
          simp at this
          omega
      · intro x hx t htk d hd'
        rcases List.mem_cons.mp hx with rfl | hx
        · exact ⟨j, List.mem_append_right _ (List.mem_reverse.mpr (hmem t htk d hd'))⟩
        · obtain ⟨m, hm⟩ := h5 x hx t htk d hd'
          exact ⟨m, List.mem_append_left _ hm⟩
      · intro r hr
        rcases List.mem_append.mp hr with hr | hr
        · obtain ⟨x, hx, hx'⟩ := h6 r hr
          exact ⟨x, by simp [hx], hx'⟩
        · exact ⟨c, by simp, htne⟩

theorem takeWhile_all {α : Type} (p : α → Bool) (l : List α) (h : ∀ a ∈ l, p a = true) : l.takeWhile p = l := by
  induction l with
  | nil => rfl
  | cons a rest ih =>
    simp only [List.takeWhile_cons, h a (by simp), if_true]
    rw [ih (fun x hx => h x (by simp [hx]))]

theorem digitChars_isDigit : ∀ c ∈ digitChars, c.isDigit = true := by decide

theorem leadingNat_natDigits (n : Nat) : leadingNat (natDigits n) = some n := by
  have h := natDigits_mem n
  simp only [leadingNat, takeWhile_all Char.isDigit _ (fun c hc => digitChars_isDigit c (h c hc)),
    Digits.natDigits_ne_nil, if_false, Digits.digitsToNat_natDigits]

theorem firstNat_natDigits (n : Nat) : firstNat (natDigits n) = some n := by
  have h := natDigits_mem n
  cases hd : natDigits n with
  | nil => exact absurd hd (Digits.natDigits_ne_nil n)
  | cons x xs =>
    have hx : x.isDigit = true := digitChars_isDigit x (h x (by rw [hd]; simp))
    simp only [firstNat, List.dropWhile_cons, hx, Bool.not_true, Bool.false_eq_true, if_false]
    rw [← hd]
    exact leadingNat_natDigits n

theorem slash_not_digits (l : List Char) (hl : ∀ c ∈ l, c ∈ digitChars) : '/' ∉ l := by
  intro h
  have := hl _ h
  revert this
  decide

theorem digit_ne_space : ∀ c ∈ digitChars, (decide (c ≠ ' ')) = true := by decide
theorem digit_ne_M : ∀ c ∈ digitChars, (c == 'M') = false := by decide

theorem tandemOK_staff (n : Nat) : TandemOK ("*staff".toList ++ natDigits n) (some n) where
  np1 := by simp
  np2 := by simp
  np3 := by simp
  ok := by
    intro st k p hk
    obtain ⟨km, kk, kc, ks⟩ := k
    simp only at hk
    subst hk
    refine ⟨st, ?_, rfl, rfl⟩
    have hl := leadingNat_natDigits n
    simp [tandem, startsWith, List.isPrefixOf, hl]

theorem tandemOK_dot : TandemOK dotCell none where
  np1 := by decide
  np2 := by decide
  np3 := by decide
  ok := by
    intro st k p hk
    obtain ⟨km, kk, kc, ks⟩ := k
    simp only at hk
    subst hk
    refine ⟨st, ?_, rfl, rfl⟩
    simp [tandem, startsWith, List.isPrefixOf, dotCell]

theorem tandemOK_clef (sign : List Char) (line : Nat) (hs : sign = ['G'] ∨ sign = ['F'] ∨ sign = ['C']) :
    TandemOK ("*clef".toList ++ sign ++ natDigits line) none where
  np1 := by simp
  np2 := by simp
  np3 := by simp
  ok := by
    intro st k p hk
    obtain ⟨km, kk, kc, ks⟩ := k
    simp only at hk
    subst hk
    rcases hs with rfl | rfl | rfl
    all_goals
      simp only [tandem, startsWith, parseClef]
      simp [List.isPrefixOf]

theorem tandemOK_key (f : Int) : TandemOK (keyCell f) none where
  np1 := by simp [keyCell]
  np2 := by simp [keyCell]
  np3 := by simp [keyCell]
  ok := by
    intro st k p hk
    obtain ⟨km, kk, kc, ks⟩ := k
    simp only at hk
    subst hk
    simp only [tandem, startsWith, keyCell]
    simp [List.isPrefixOf]

theorem tandemOK_meter (b u : Nat) : TandemOK ("*M".toList ++ natDigits b ++ '/' :: natDigits u) none where
  np1 := by simp
  np2 := by simp
  np3 := by simp
  ok := by
    intro st k p hk
    obtain ⟨km, kk, kc, ks⟩ := k
    simp only at hk
    subst hk
    have hb := natDigits_mem b
    have hu := natDigits_mem u
    have hsp : ∀ c ∈ natDigits b ++ '/' :: natDigits u, (decide (c ≠ ' ')) = true := by
      intro c hc
      rcases List.mem_append.mp hc with hc | hc
      · exact digit_ne_space c (hb c hc)
      · rcases List.mem_cons.mp hc with rfl | hc
        · decide
        · exact digit_ne_space c (hu c hc)
    have hpm : parseMeter (natDigits b ++ '/' :: natDigits u) = some (b, u) := by
      simp only [parseMeter, takeWhile_all _ _ hsp,
        List.splitOn_append_cons_self_of_not_mem (slash_not_digits _ hb), List.splitOn_eq_singleton (slash_not_digits _ hu),
        firstNat_natDigits]
    have hdrop : ("*M".toList ++ natDigits b ++ '/' :: natDigits u).drop 2 = natDigits b ++ '/' :: natDigits u := by simp
    refine ⟨{ st with tsigs := ⟨km, p, kc, (b, u)⟩ :: st.tsigs }, ?_, rfl, rfl⟩
    simp only [tandem, startsWith, hdrop, hpm]
    obtain ⟨x, xs, hdb⟩ : ∃ x xs, natDigits b = x :: xs := by
      cases h : natDigits b with
      | nil => exact absurd h (Digits.natDigits_ne_nil b)
      | cons x xs => exact ⟨x, xs, rfl⟩
    have hxM : (x == 'M') = false := digit_ne_M x (hb x (by rw [hdb]; simp))
    have hne : ¬ ('M' = x) := by
      intro h
      subst h
      simp at hxM
    rw [hdb]
    simp [List.isPrefixOf, hne]

/-! ## the row of the notes of one time point -/

def tokc (n : XNote) : List Char := (noteTok n).getD []
def subc (n : XNote) : Option SubTok := parseSub (tokc n)

theorem tokc_spec (divs : Nat) (n : XNote) (h : noteOk divs n = true) : ∃ t, subc n = some t ∧ TokSpec divs n (tokc n) t := by
  obtain ⟨cs, t, hs⟩ := noteTok_spec divs n h
  have : tokc n = cs := by simp [tokc, hs.tok]
  exact ⟨t, by simp [subc, this, hs.parse], this ▸ hs⟩

theorem mapM_tokOf (divs : Nat) (notes : List XNote) (h : ∀ n ∈ notes, noteOk divs n = true) :
    notes.mapM tokOf = some (notes.map fun n => (keyOf n, tokc n)) := by
  induction notes with
  | nil => rfl
  | cons n rest ih =>
    obtain ⟨t, _, hs⟩ := tokc_spec divs n (h n (by simp))
    have h1 : tokOf n = some (keyOf n, tokc n) := by
      have := hs.tok
      simp [tokOf, this, keyOf]
    simp [List.mapM_cons, h1, ih (fun x hx => h x (by simp [hx]))]

theorem noteCell_eq (notes : List XNote) (c : Nat × Nat) :
    noteCell (notes.map fun n => (keyOf n, tokc n)) c = joinToks ((notes.filter fun n => keyOf n = c).map tokc) := by
  simp only [noteCell, List.filter_map, List.map_map]
  rfl

theorem parseToken_single (a : List Char) (t : SubTok) (hsp : ' ' ∉ a) (hne : a ≠ []) (hp : parseSub a = some t) :
    parseToken a = some [t] := by
  simp [parseToken, List.splitOn_eq_singleton hsp, hne, List.mapM_cons, hp]

theorem parseToken_cons (a X : List Char) (t : SubTok) (L : List SubTok) (hsp : ' ' ∉ a) (hne : a ≠ [])
    (hp : parseSub a = some t) (hX : parseToken X = some L) : parseToken (a ++ ' ' :: X) = some (t :: L) := by
  simp only [parseToken] at hX ⊢
  rw [List.splitOn_append_cons_self_of_not_mem hsp]
  simp only [ne_eq, decide_not] at hX
  simp [hne, List.mapM_cons, hp, hX]

/-- what a spine advances by after the token of the notes `l` (the first governs; a token with a grace note does not advance) -/
def advOf (divs : Nat) : List XNote → Rat
  | [] => 0
  | n :: rest => if (n :: rest).any (fun x => x.kind = 1) then 0 else valOf divs n

theorem joinToks_cons (a : List Char) (b : List Char) (rest : List (List Char)) :
    joinToks (a :: b :: rest) = a ++ ' ' :: joinToks (b :: rest) := rfl

theorem head_facts : ∀ h ∈ 'q' :: digitChars, h ≠ '.' ∧ h ≠ '!' ∧ h ≠ '*' ∧ h ≠ '=' ∧ h ≠ 'p' ∧ h ≠ 'I' := by decide

/-- the chord token of a non-empty list of exportable notes parses into their sub-tokens -/
theorem parseToken_join (divs : Nat) (l : List XNote) (h : ∀ n ∈ l, noteOk divs n = true) (hne : l ≠ []) :
    parseToken (joinToks (l.map tokc)) = some (l.filterMap subc) ∧
      ∃ hd rest, joinToks (l.map tokc) = hd :: rest ∧ hd ∈ 'q' :: digitChars := by
  induction l with
  | nil => exact absurd rfl hne
  | cons n rest ih =>
    obtain ⟨t, hsub, hs⟩ := tokc_spec divs n (h n (by simp))
    obtain ⟨hd, tl, hcs, hhd⟩ := hs.head
    have hne' : tokc n ≠ [] := by rw [hcs]; simp
    cases rest with
    | nil =>
      refine ⟨?_, hd, tl, by simp [joinToks, hcs], hhd⟩
      simp only [List.map_cons, List.map_nil, joinToks, List.filterMap_cons, hsub, List.filterMap_nil]
      exact parseToken_single _ t hs.nosp hne' hs.parse
    | cons n' rest' =>
      obtain ⟨ih1, _⟩ := ih (fun x hx => h x (by simp [hx])) (by simp)
      refine ⟨?_, hd, tl ++ ' ' :: joinToks ((n' :: rest').map tokc), by simp [joinToks_cons, hcs], hhd⟩
      simp only [List.map_cons, joinToks_cons, List.filterMap_cons, hsub]
      simp only [List.map_cons, List.filterMap_cons] at ih1
      exact parseToken_cons _ _ t _ hs.nosp hne' hs.parse ih1

theorem tokAdv_subs (divs : Nat) (l : List XNote) (h : ∀ n ∈ l, noteOk divs n = true) (hne : l ≠ []) :
    tokAdv (l.filterMap subc) = some (advOf divs l) ∧ ∀ t ∈ l.filterMap subc, ∃ d, subValue t = some d := by
  have hall : ∀ t ∈ l.filterMap subc, ∃ n ∈ l, subc n = some t := by
    intro t ht
    obtain ⟨n, hn, hnt⟩ := List.mem_filterMap.mp ht
    exact ⟨n, hn, hnt⟩
  have hany : (l.filterMap subc).any (·.grace) = l.any (fun x => x.kind = 1) := by
    clear hne hall
    induction l with
    | nil => rfl
    | cons n rest ih =>
      obtain ⟨t, hsub, hs⟩ := tokc_spec divs n (h n (by simp))
      simp only [List.filterMap_cons, hsub, List.any_cons, hs.grace, ih (fun x hx => h x (by simp [hx]))]
  constructor
  · cases l with
    | nil => exact absurd rfl hne
    | cons n rest =>
      obtain ⟨t, hsub, hs⟩ := tokc_spec divs n (h n (by simp))
      have hta : tokenAdvance ((n :: rest).filterMap subc) = some (valOf divs n) := by
        simp [List.filterMap_cons, hsub, tokenAdvance, hs.value]
      simp only [tokAdv, hta, Option.map_some, hany, advOf]
  · intro t ht
    obtain ⟨n, hn, hnt⟩ := hall t ht
    obtain ⟨t', hsub, hs⟩ := tokc_spec divs n (h n hn)
    rw [hnt] at hsub
    simp only [Option.some.injEq] at hsub
    subst hsub
    exact ⟨_, hs.value⟩

/-- every cell of the row of the notes `notes` is a null token or the chord token of the column's notes -/
theorem noteRow_cellKind (divs : Nat) (notes : List XNote) (h : ∀ n ∈ notes, noteOk divs n = true) (c : Nat × Nat) :
    CellKind (noteCell (notes.map fun n => (keyOf n, tokc n)) c)
      ((notes.filter fun n => keyOf n = c).filterMap subc) (advOf divs (notes.filter fun n => keyOf n = c)) := by
  rw [noteCell_eq]
  have hl : ∀ n ∈ notes.filter (fun n => keyOf n = c), noteOk divs n = true := fun n hn => h n (List.mem_filter.mp hn).1
  cases hf : notes.filter (fun n => keyOf n = c) with
  | nil => exact CellKind.null rfl rfl rfl
  | cons n rest =>
    rw [hf] at hl
    obtain ⟨hp, hd, tl, hcell, hhd⟩ := parseToken_join divs (n :: rest) hl (by simp)
    obtain ⟨hadv, hv⟩ := tokAdv_subs divs (n :: rest) hl (by simp)
    obtain ⟨f1, f2, f3, _⟩ := head_facts hd hhd
    refine CellKind.token ?_ ?_ ?_ hp hv hadv
    · rw [hcell]; intro hc; simp at hc; exact f1 hc.1
    · rw [hcell]; simp [startsWith, List.isPrefixOf]; intro hc; exact absurd hc.symm f2
    · rw [hcell]; simp [startsWith, List.isPrefixOf]; intro hc; exact absurd hc.symm f3

/-! ## one row at a time -/

/-- the state machine stands in a document written by the exporter: one `**kern` spine per writer column,
    every spine a part of its own -/
def Shape (st : Kern.St) (cols : List (Nat × Nat)) (cur : Nat × Nat → Rat) (stf : Nat × Nat → Nat) : Prop :=
  st.cols = kcolsFrom cur stf 0 cols ∧ st.same = false

theorem step_interp (c0 : Nat × Nat) (rest : List (Nat × Nat)) (cur stf) (cell : Nat × Nat → List Char) (ns : Nat × Nat → Option Nat)
    (hc : ∀ c ∈ c0 :: rest, TandemOK (cell c) (ns c))
    (hstar : startsWith (cell c0) "*" = true) (hbang : startsWith (cell c0) "!" = false)
    (st : Kern.St) (hs : Shape st (c0 :: rest) cur stf) :
    ∃ st', step st ((c0 :: rest).map cell) = some st' ∧ Shape st' (c0 :: rest) cur (fun c => (ns c).getD (stf c)) ∧
      st'.notes = st.notes := by
  obtain ⟨hcols, hsame⟩ := hs
  have hlen : ((c0 :: rest).map cell).length = st.cols.length := by rw [hcols, kcolsFrom_length]; simp
  obtain ⟨st', h1, h2, h3⟩ := interpRow_spec cur stf cell ns (c0 :: rest) hc
    { st with widths := updWidths st.widths (withPos st.cols) } 0 [] false
  refine ⟨{ st' with cols := kcolsFrom cur (fun c => (ns c).getD (stf c)) 0 (c0 :: rest) }, ?_, ⟨rfl, by simp [h3, hsame]⟩, by simp [h2]⟩
  have hlen' : ¬ ((cell c0 :: rest.map cell).length ≠ st.cols.length) := by simpa using hlen
  simp only [step, List.map_cons, hbang, Bool.false_eq_true, if_false, hlen', hstar, if_true]
  rw [hcols, withPos_kcols] at h1 ⊢
  simp only [List.map_cons] at h1
  rw [h1]
  simp

theorem step_bar (c0 : Nat × Nat) (rest : List (Nat × Nat)) (cur stf) (cell : List Char)
    (hstar : startsWith cell "*" = false) (hbang : startsWith cell "!" = false) (heq : startsWith cell "=" = true)
    (st : Kern.St) (hs : Shape st (c0 :: rest) cur stf) :
    ∃ st', step st (fullRow (c0 :: rest) cell) = some st' ∧ Shape st' (c0 :: rest) cur stf ∧ st'.notes = st.notes := by
  obtain ⟨hcols, hsame⟩ := hs
  have hlen : (fullRow (c0 :: rest) cell).length = st.cols.length := by rw [hcols, kcolsFrom_length]; simp [fullRow]
  obtain ⟨st', h1, h2, h3, h4⟩ := barRow_spec (withPos st.cols) (fullRow (c0 :: rest) cell)
    (by rw [hcols, withPos_kcols]; simp [kcolsFrom_length, fullRow])
    { st with widths := updWidths st.widths (withPos st.cols) }
  refine ⟨st', ?_, ⟨by rw [h4]; exact hcols, by rw [h3]; exact hsame⟩, by rw [h2]⟩
  have hlen' : ¬ ((cell :: rest.map fun _ => cell).length ≠ st.cols.length) := by simpa [fullRow] using hlen
  simp only [fullRow, List.map_cons] at h1
  simp only [step, fullRow, List.map_cons, hbang, Bool.false_eq_true, if_false, hlen', hstar, heq, if_true]
  exact h1

theorem step_data (c0 : Nat × Nat) (rest : List (Nat × Nat)) (cur stf) (cell : Nat × Nat → List Char)
    (toks : Nat × Nat → List SubTok) (adv : Nat × Nat → Rat)
    (hc : ∀ c ∈ c0 :: rest, CellKind (cell c) (toks c) (adv c))
    (hstar : startsWith (cell c0) "*" = false) (hbang : startsWith (cell c0) "!" = false) (heq : startsWith (cell c0) "=" = false)
    (st : Kern.St) (hs : Shape st (c0 :: rest) cur stf) :
    ∃ st' new, step st ((c0 :: rest).map cell) = some st' ∧ Shape st' (c0 :: rest) (fun c => cur c + adv c) stf ∧
      st'.notes = new ++ st.notes ∧ (∀ r ∈ new, r.main < (c0 :: rest).length) ∧
      (∀ c ∈ c0 :: rest, ∀ t ∈ toks c, ∀ d, subValue t = some d → ∃ m, noteOf ⟨m, true, cur c, stf c⟩ 0 t d ∈ new) ∧
      (∀ r ∈ new, ∃ c ∈ c0 :: rest, toks c ≠ []) := by
  obtain ⟨hcols, hsame⟩ := hs
  have hlen : ((c0 :: rest).map cell).length = st.cols.length := by rw [hcols, kcolsFrom_length]; simp
  obtain ⟨st', new, h1, h2, h3, h4, h5, h6⟩ := dataRow_spec cur stf cell toks adv (c0 :: rest) hc
    { st with widths := updWidths st.widths (withPos st.cols) } hsame 0 [] [] (by simp)
  refine ⟨{ st' with cols := kcolsFrom (fun c => cur c + adv c) stf 0 (c0 :: rest) }, new, ?_, ⟨rfl, by simp [h3]⟩, by simp [h2],
    fun r hr => by have := (h4 r hr).2; omega, h5, h6⟩
  have hlen' : ¬ ((cell c0 :: rest.map cell).length ≠ st.cols.length) := by simpa using hlen
  simp only [step, List.map_cons, hbang, Bool.false_eq_true, if_false, hlen', hstar, heq]
  rw [hcols, withPos_kcols] at h1 ⊢
  simp only [List.map_cons] at h1
  rw [h1]
  simp

/-! ## rows that leave positions and notes alone -/

def Pres (cols : List (Nat × Nat)) (row : Row) : Prop :=
  ∀ cur stf (st : Kern.St), Shape st cols cur stf → ∃ st', step st row = some st' ∧ Shape st' cols cur stf ∧ st'.notes = st.notes

theorem runRows_append (st : Kern.St) (a b : List Row) :
    runRows st (a ++ b) = (runRows st a).bind fun st' => runRows st' b := by
  induction a generalizing st with
  | nil => simp [runRows]
  | cons r rest ih =>
    simp only [List.cons_append, runRows]
    cases step st r with
    | none => simp
    | some st1 => simp [ih]

theorem runRows_pres (cols : List (Nat × Nat)) (rows : List Row) (h : ∀ row ∈ rows, Pres cols row)
    (cur stf) (st : Kern.St) (hs : Shape st cols cur stf) :
    ∃ st', runRows st rows = some st' ∧ Shape st' cols cur stf ∧ st'.notes = st.notes := by
  induction rows generalizing st with
  | nil => exact ⟨st, rfl, hs, rfl⟩
  | cons r rest ih =>
    obtain ⟨st1, h1, hs1, hn1⟩ := h r (by simp) cur stf st hs
    obtain ⟨st2, h2, hs2, hn2⟩ := ih (fun x hx => h x (by simp [hx])) st1 hs1
    exact ⟨st2, by simp [runRows, h1, h2], hs2, by rw [hn2, hn1]⟩

theorem structRows_pres (divs : Nat) (c0 : Nat × Nat) (rest : List (Nat × Nat)) (el : El) (hok : elOk divs el = true)
    (hn : isNote el = false) : ∀ row ∈ structRows (c0 :: rest) el, Pres (c0 :: rest) row := by
  intro row hrow cur stf st hs
  cases el with
  | note n => simp [isNote] at hn
  | other => simp [structRows] at hrow
  | measure number =>
    simp only [structRows, List.mem_singleton] at hrow
    subst hrow
    exact step_bar c0 rest cur stf _ (by simp [startsWith, List.isPrefixOf]) (by simp [startsWith, List.isPrefixOf])
      (by simp [startsWith, List.isPrefixOf]) st hs
  | tsig b u =>
    simp only [structRows, List.mem_singleton] at hrow
    subst hrow
    exact step_interp c0 rest cur stf (fun _ => "*M".toList ++ natDigits b ++ '/' :: natDigits u) (fun _ => none)
      (fun _ _ => tandemOK_meter b u) (by simp [startsWith, List.isPrefixOf]) (by simp [startsWith, List.isPrefixOf]) st hs
  | ksig f =>
    simp only [structRows, List.mem_singleton] at hrow
    subst hrow
    exact step_interp c0 rest cur stf (fun _ => keyCell f) (fun _ => none)
      (fun _ _ => tandemOK_key f) (by simp [startsWith, List.isPrefixOf, keyCell]) (by simp [startsWith, List.isPrefixOf, keyCell]) st hs
  | clef staff sign line =>
    simp only [structRows] at hrow
    split at hrow
    · simp only [List.mem_singleton] at hrow
      subst hrow
      simp only [elOk, Bool.or_eq_true, decide_eq_true_eq] at hok
      have hsign : sign.toList.map Char.toUpper = ['G'] ∨ sign.toList.map Char.toUpper = ['F'] ∨ sign.toList.map Char.toUpper = ['C'] := by
        rcases hok with (h | h) | h
        · exact Or.inl h
        · exact Or.inr (Or.inl h)
        · exact Or.inr (Or.inr h)
      have hclef := tandemOK_clef _ line hsign
      have hall : ∀ c ∈ c0 :: rest, TandemOK ((fun (c : Nat × Nat) => if c.2 = staff then
          "*clef".toList ++ (sign.toList.map Char.toUpper) ++ natDigits line else dotCell) c) ((fun _ => none) c) := by
        intro c _
        by_cases hc : c.2 = staff
        · simp only [hc, if_true]; exact hclef
        · simp only [hc, if_false]; exact tandemOK_dot
      by_cases h0 : c0.2 = staff
      · exact step_interp c0 rest cur stf _ (fun _ => none) hall
          (by simp [h0, startsWith, List.isPrefixOf]) (by simp [h0, startsWith, List.isPrefixOf]) st hs
      · have hkind : ∀ c ∈ c0 :: rest, CellKind ((fun (c : Nat × Nat) => if c.2 = staff then
            "*clef".toList ++ (sign.toList.map Char.toUpper) ++ natDigits line else dotCell) c) ((fun _ => []) c) ((fun _ => 0) c) := by
          intro c _
          by_cases hc : c.2 = staff
          · simp only [hc, if_true]
            exact CellKind.tandem (by simp) (by simp [startsWith, List.isPrefixOf]) (by simp [startsWith, List.isPrefixOf]) hclef rfl rfl
          · simp only [hc, if_false]
            exact CellKind.null rfl rfl rfl
        obtain ⟨st', new, h1, h2, h3, h4, h5, h6⟩ := step_data c0 rest cur stf _ _ _ hkind
          (by simp [h0, startsWith, List.isPrefixOf, dotCell]) (by simp [h0, startsWith, List.isPrefixOf, dotCell])
          (by simp [h0, startsWith, List.isPrefixOf, dotCell]) st hs
        have hcur : (fun c => cur c + (fun _ => (0 : Rat)) c) = cur := by funext c; simp
        rw [hcur] at h2
        refine ⟨st', h1, h2, ?_⟩
        -- no sub-token anywhere: nothing new
        have hnil : new = [] := by
          apply List.eq_nil_iff_forall_not_mem.mpr
          intro r hr
          obtain ⟨c, _, hc⟩ := h6 r hr
          exact hc rfl
        rw [h3, hnil]
        rfl
    · simp at hrow

/-! ## the rows of the notes -/

def rawFact (r : RawNote) : Fact := ⟨r.onset, r.dur, r.kind, r.step, r.alter, r.octave, r.staff⟩

theorem emitted_fact (divs : Nat) (n : XNote) (t : SubTok) (hs : TokSpec divs n (tokc n) t) (hk : n.kind ≠ 2)
    (hok : noteOk divs n = true) (m : Nat) (x : Rat) (s : Nat) :
    rawFact (noteOf ⟨m, true, x, s⟩ 0 t (valOf divs n)) = ⟨x, valOf divs n, n.kind, n.step, n.alter.getD 0, n.octave, s⟩ ∧
      (noteOf ⟨m, true, x, s⟩ 0 t (valOf divs n)).kind ≠ 2 := by
  have hp := hs.pitch
  simp only [hk, if_false] at hp
  have hg := hs.grace
  have ha := hs.alter hk
  have hle : n.kind ≤ 2 := by
    simp only [noteOk, Bool.and_eq_true, decide_eq_true_eq] at hok
    exact hok.1.1
  by_cases k1 : n.kind = 1
  · simp [rawFact, noteOf, hp, hg, ha, k1]
  · have k0 : n.kind = 0 := by omega
    simp [rawFact, noteOf, hp, hg, ha, k0]

theorem noteCell_first (divs : Nat) (notes : List XNote) (h : ∀ n ∈ notes, noteOk divs n = true) (c : Nat × Nat) :
    startsWith (noteCell (notes.map fun n => (keyOf n, tokc n)) c) "*" = false ∧
    startsWith (noteCell (notes.map fun n => (keyOf n, tokc n)) c) "!" = false ∧
    startsWith (noteCell (notes.map fun n => (keyOf n, tokc n)) c) "=" = false ∧
    startsWith (noteCell (notes.map fun n => (keyOf n, tokc n)) c) "*part" = false ∧
    startsWith (noteCell (notes.map fun n => (keyOf n, tokc n)) c) "*I" = false := by
  rw [noteCell_eq]
  cases hf : notes.filter (fun n => keyOf n = c) with
  | nil => simp [joinToks, dotCell, startsWith, List.isPrefixOf]
  | cons n rest =>
    have hl : ∀ x ∈ n :: rest, noteOk divs x = true := by
      intro x hx
      rw [← hf] at hx
      exact h x (List.mem_filter.mp hx).1
    obtain ⟨_, hd, tl, hcell, hhd⟩ := parseToken_join divs (n :: rest) hl (by simp)
    obtain ⟨f1, f2, f3, f4, _, _⟩ := head_facts hd hhd
    rw [hcell]
    simp only [startsWith]
    refine ⟨?_, ?_, ?_, ?_, ?_⟩ <;> simp [List.isPrefixOf] <;> intro hc <;> first
      | exact absurd hc.symm f3 | exact absurd hc.symm f2 | exact absurd hc.symm f4

def curOf (divs : Nat) (nexts : List ((Nat × Nat) × Nat)) (c : Nat × Nat) : Rat :=
  (((lookup c nexts).getD 0 : Nat) : Rat) / (divs : Rat)

/-- the row of a list of exportable notes: every spine with a token moves on, every note and grace note is read
    where its spine stands, with its value, spelling and staff -/
theorem noteRow_spec (divs : Nat) (c0 : Nat × Nat) (rest : List (Nat × Nat)) (notes : List XNote)
    (hok : ∀ n ∈ notes, noteOk divs n = true) (hkeys : ∀ n ∈ notes, keyOf n ∈ c0 :: rest)
    (cur stf) (st : Kern.St) (hs : Shape st (c0 :: rest) cur stf) :
    ∃ st' new, step st ((c0 :: rest).map (noteCell (notes.map fun n => (keyOf n, tokc n)))) = some st' ∧
      Shape st' (c0 :: rest) (fun c => cur c + advOf divs (notes.filter fun n => keyOf n = c)) stf ∧
      st'.notes = new ++ st.notes ∧ (∀ r ∈ new, r.main < (c0 :: rest).length) ∧
      ∀ n ∈ notes, n.kind ≠ 2 → ∃ r ∈ new, r.kind ≠ 2 ∧
        rawFact r = ⟨cur (keyOf n), valOf divs n, n.kind, n.step, n.alter.getD 0, n.octave, stf (keyOf n)⟩ := by
  obtain ⟨f1, f2, f3, _, _⟩ := noteCell_first divs notes hok c0
  obtain ⟨st', new, h1, h2, h3, h4, h5, _⟩ := step_data c0 rest cur stf
    (noteCell (notes.map fun n => (keyOf n, tokc n)))
    (fun c => (notes.filter fun n => keyOf n = c).filterMap subc)
    (fun c => advOf divs (notes.filter fun n => keyOf n = c))
    (fun c _ => noteRow_cellKind divs notes hok c) f1 f2 f3 st hs
  refine ⟨st', new, h1, h2, h3, h4, ?_⟩
  intro n hn hk
  obtain ⟨t, hsub, hspec⟩ := tokc_spec divs n (hok n hn)
  have hmem : t ∈ (notes.filter fun x => keyOf x = keyOf n).filterMap subc :=
    List.mem_filterMap.mpr ⟨n, List.mem_filter.mpr ⟨hn, by simp⟩, hsub⟩
  obtain ⟨m, hm⟩ := h5 (keyOf n) (hkeys n hn) t hmem (valOf divs n) hspec.value
  obtain ⟨e1, e2⟩ := emitted_fact divs n t hspec hk (hok n hn) m (cur (keyOf n)) (stf (keyOf n))
  exact ⟨_, hm, e2, e1⟩

/-! ## one time point -/

theorem mem_notesOf (els : List El) (n : XNote) : n ∈ notesOf els ↔ El.note n ∈ els := by
  simp only [notesOf, List.mem_filterMap]
  constructor
  · rintro ⟨e, he, hn⟩
    cases e <;> simp at hn
    subst hn
    exact he
  · intro h
    exact ⟨El.note n, h, rfl⟩

theorem advOf_grace (divs : Nat) (g : XNote) (hg : g.kind = 1) (c : Nat × Nat) :
    advOf divs ([g].filter fun n => keyOf n = c) = 0 := by
  by_cases h : keyOf g = c
  · simp [h, advOf, hg]
  · simp [h, advOf]

theorem graceRows_spec (divs : Nat) (c0 : Nat × Nat) (rest : List (Nat × Nat)) (gs : List XNote)
    (hg : ∀ g ∈ gs, g.kind = 1) (hok : ∀ n ∈ gs, noteOk divs n = true) (hkeys : ∀ n ∈ gs, keyOf n ∈ c0 :: rest)
    (cur stf) (st : Kern.St) (hs : Shape st (c0 :: rest) cur stf) :
    ∃ st' new, runRows st (gs.map fun g => (c0 :: rest).map (noteCell [(keyOf g, tokc g)])) = some st' ∧
      Shape st' (c0 :: rest) cur stf ∧ st'.notes = new ++ st.notes ∧ (∀ r ∈ new, r.main < (c0 :: rest).length) ∧
      ∀ n ∈ gs, ∃ r ∈ new, r.kind ≠ 2 ∧
        rawFact r = ⟨cur (keyOf n), valOf divs n, n.kind, n.step, n.alter.getD 0, n.octave, stf (keyOf n)⟩ := by
  induction gs generalizing st with
  | nil => exact ⟨st, [], rfl, hs, by simp, by simp, by simp⟩
  | cons g rest' ih =>
    have hg1 := hg g (by simp)
    obtain ⟨st1, new1, h1, h2, h3, h4, h5⟩ := noteRow_spec divs c0 rest [g]
      (fun n hn => hok n (by simp at hn; simp [hn])) (fun n hn => hkeys n (by simp at hn; simp [hn])) cur stf st hs
    have hcur : (fun c => cur c + advOf divs ([g].filter fun n => keyOf n = c)) = cur := by
      funext c; rw [advOf_grace divs g hg1]; simp
    rw [hcur] at h2
    obtain ⟨st2, new2, k1, k2, k3, k4, k5⟩ := ih (fun x hx => hg x (by simp [hx])) (fun x hx => hok x (by simp [hx]))
      (fun x hx => hkeys x (by simp [hx])) st1 h2
    refine ⟨st2, new2 ++ new1, ?_, k2, by rw [k3, h3]; simp, ?_, ?_⟩
    · simp only [List.map_cons, runRows]
      simp only [List.map_cons, List.map_nil] at h1
      rw [h1]
      exact k1
    · intro r hr
      rcases List.mem_append.mp hr with hr | hr
      · exact k4 r hr
      · exact h4 r hr
    · intro n hn
      rcases List.mem_cons.mp hn with rfl | hn
      · have hk2 : n.kind ≠ 2 := by omega
        obtain ⟨r, hr, e⟩ := h5 n (by simp) hk2
        exact ⟨r, List.mem_append_right _ hr, e⟩
      · obtain ⟨r, hr, e⟩ := k5 n hn
        exact ⟨r, List.mem_append_left _ hr, e⟩

theorem lookup_map_val {α β : Type} [DecidableEq α] (g : α → β → β) (l : List (α × β)) (k : α) :
    lookup k (l.map fun e => (e.1, g e.1 e.2)) = (lookup k l).map (g k) := by
  induction l with
  | nil => rfl
  | cons e rest ih =>
    obtain ⟨a, b⟩ := e
    simp only [List.map_cons, lookup]
    by_cases h : a = k
    · subst h; simp
    · simp [h, ih]

/-- the positions after the time point, as `advanceCols` computes them, are where the spines stand after the row -/
theorem advance_cur (divs t : Nat) (notes : List XNote) (nexts nexts' : List ((Nat × Nat) × Nat))
    (h : advanceCols nexts t notes = some nexts') (c : Nat × Nat) :
    curOf divs nexts' c = curOf divs nexts c + advOf divs (colNotes (plainOf notes) c) := by
  simp only [advanceCols] at h
  split at h
  · rename_i hall0
    have hall := (Bool.and_eq_true_iff.mp hall0).1
    simp only [Option.some.injEq] at h
    subst h
    simp only [curOf]
    rw [lookup_map_val (bump t notes)]
    cases hf : colNotes (plainOf notes) c with
    | nil =>
      cases hl : lookup c nexts with
      | none => simp [advOf]
      | some v => simp [bump, firstPlain, hf, advOf]
    | cons n0 rest =>
      have hmem : n0 ∈ colNotes (plainOf notes) c := by rw [hf]; simp
      simp only [colNotes, plainOf] at hmem
      have hn0 : n0 ∈ notes := (List.mem_filter.mp (List.mem_filter.mp hmem).1).1
      have hkey : keyOf n0 = c := by simpa using (List.mem_filter.mp hmem).2
      have hlk : lookup c nexts = some t := by
        have := List.all_eq_true.mp hall n0 hn0
        simp only [decide_eq_true_eq] at this
        rw [← hkey]
        exact this
      have hnog : (n0 :: rest).any (fun x => x.kind = 1) = false := by
        rw [← hf]
        apply List.any_eq_false.mpr
        intro x hx
        simp only [colNotes, plainOf] at hx
        have := (List.mem_filter.mp (List.mem_filter.mp hx).1).2
        simpa using this
      have hk1 : n0.kind ≠ 1 := by
        have := (List.mem_filter.mp (List.mem_filter.mp hmem).1).2
        simpa using this
      simp only [hlk, Option.map_some, bump, firstPlain, hf, List.head?_cons, Option.getD_some, advOf, hnog, Bool.false_eq_true, if_false, valOf, hk1]
      push_cast
      ring
  · simp at h

/-- a cell that does not declare a part or an instrument -/
def NoTag (cell : List Char) : Prop := startsWith cell "*part" = false ∧ startsWith cell "*I" = false

theorem structRows_noTag (cols : List (Nat × Nat)) (el : El) :
    ∀ row ∈ structRows cols el, ∀ cell ∈ row, NoTag cell := by
  intro row hrow cell hcell
  cases el with
  | note n => simp [structRows] at hrow
  | other => simp [structRows] at hrow
  | measure number =>
    simp only [structRows, List.mem_singleton] at hrow
    subst hrow
    simp only [fullRow, List.mem_map] at hcell
    obtain ⟨_, _, rfl⟩ := hcell
    simp [NoTag, startsWith, List.isPrefixOf]
  | tsig b u =>
    simp only [structRows, List.mem_singleton] at hrow
    subst hrow
    simp only [fullRow, List.mem_map] at hcell
    obtain ⟨_, _, rfl⟩ := hcell
    simp [NoTag, startsWith, List.isPrefixOf]
  | ksig f =>
    simp only [structRows, List.mem_singleton] at hrow
    subst hrow
    simp only [fullRow, List.mem_map] at hcell
    obtain ⟨_, _, rfl⟩ := hcell
    simp [NoTag, startsWith, List.isPrefixOf, keyCell]
  | clef staff sign line =>
    simp only [structRows] at hrow
    split at hrow
    · simp only [List.mem_singleton] at hrow
      subst hrow
      simp only [List.mem_map] at hcell
      obtain ⟨c, _, rfl⟩ := hcell
      by_cases hc : c.2 = staff
      · simp [hc, NoTag, startsWith, List.isPrefixOf]
      · simp [hc, NoTag, startsWith, List.isPrefixOf, dotCell]
    · simp at hrow

theorem fact_eq (divs t : Nat) (n : XNote) (nexts : List ((Nat × Nat) × Nat)) (h : lookup (keyOf n) nexts = some t) :
    (⟨curOf divs nexts (keyOf n), valOf divs n, n.kind, n.step, n.alter.getD 0, n.octave, Prod.snd (keyOf n)⟩ : Fact)
      = factOf divs t n := by
  simp only [keyOf] at h
  simp [curOf, valOf, factOf, keyOf, h]

theorem point_spec (divs : Nat) (c0 : Nat × Nat) (rest : List (Nat × Nat)) (els : List El) (t : Nat)
    (nexts nexts' : List ((Nat × Nat) × Nat))
    (hok : ∀ e ∈ els, elOk divs e = true) (hkeys : ∀ n ∈ notesOf els, keyOf n ∈ c0 :: rest)
    (hadv : advanceCols nexts t (notesOf els) = some nexts')
    (st : Kern.St) (hs : Shape st (c0 :: rest) (curOf divs nexts) Prod.snd) :
    ∃ rows st' new, pointRows (c0 :: rest) els = some rows ∧ runRows st rows = some st' ∧
      Shape st' (c0 :: rest) (curOf divs nexts') Prod.snd ∧ st'.notes = new ++ st.notes ∧
      (∀ r ∈ new, r.main < (c0 :: rest).length) ∧
      (∀ n ∈ notesOf els, n.kind ≠ 2 → ∃ r ∈ new, r.kind ≠ 2 ∧ rawFact r = factOf divs t n) ∧
      (∀ row ∈ rows, ∀ cell ∈ row, NoTag cell) := by
  have hnok : ∀ n ∈ notesOf els, noteOk divs n = true := by
    intro n hn
    have := hok _ ((mem_notesOf els n).mp hn)
    simpa [elOk] using this
  have hgsub : ∀ n ∈ gracesOf (notesOf els), n ∈ notesOf els ∧ n.kind = 1 := by
    intro n hn
    simp only [gracesOf, List.mem_filter, decide_eq_true_eq] at hn
    exact hn
  have hpsub : ∀ n ∈ plainOf (notesOf els), n ∈ notesOf els ∧ n.kind ≠ 1 := by
    intro n hn
    simp only [plainOf, List.mem_filter, decide_eq_true_eq] at hn
    exact hn
  have hlk : ∀ n ∈ notesOf els, lookup (keyOf n) nexts = some t := by
    intro n hn
    simp only [advanceCols] at hadv
    split at hadv
    · rename_i hall0
      have hall := (Bool.and_eq_true_iff.mp hall0).1
      have := List.all_eq_true.mp hall n hn
      simpa using this
    · simp at hadv
  have hg := mapM_tokOf divs (gracesOf (notesOf els)) (fun n hn => hnok n (hgsub n hn).1)
  have hp := mapM_tokOf divs (plainOf (notesOf els)) (fun n hn => hnok n (hpsub n hn).1)
  -- the structural rows
  obtain ⟨st1, r1, s1, n1⟩ := runRows_pres (c0 :: rest)
    ((((els.filter fun e => !isNote e).filter fun e => !isMeasure e) ++ (els.filter fun e => !isNote e).filter isMeasure).map
      (structRows (c0 :: rest))).flatten
    (by
      intro row hrow
      obtain ⟨l, hl, hrl⟩ := List.mem_flatten.mp hrow
      obtain ⟨el, hel, rfl⟩ := List.mem_map.mp hl
      have hel' : el ∈ els ∧ isNote el = false := by
        rcases List.mem_append.mp hel with h | h
        · have := (List.mem_filter.mp (List.mem_filter.mp h).1)
          exact ⟨this.1, by simpa using this.2⟩
        · have := (List.mem_filter.mp (List.mem_filter.mp h).1)
          exact ⟨this.1, by simpa using this.2⟩
      exact structRows_pres divs c0 rest el (hok el hel'.1) hel'.2 row hrl)
    (curOf divs nexts) Prod.snd st hs
  -- the grace notes
  obtain ⟨st2, new2, r2, s2, n2, m2, f2⟩ := graceRows_spec divs c0 rest (gracesOf (notesOf els))
    (fun g hg => (hgsub g hg).2) (fun n hn => hnok n (hgsub n hn).1) (fun n hn => hkeys n (hgsub n hn).1)
    (curOf divs nexts) Prod.snd st1 s1
  have r2' : runRows st1 (((gracesOf (notesOf els)).map fun n => (keyOf n, tokc n)).map fun g => (c0 :: rest).map (noteCell [g])) = some st2 := by
    rw [List.map_map]; exact r2
  have hcurfin : ∀ c, curOf divs nexts' c = curOf divs nexts c + advOf divs ((plainOf (notesOf els)).filter fun n => keyOf n = c) :=
    fun c => advance_cur divs t (notesOf els) nexts nexts' hadv c
  -- the notes and rests
  by_cases hpl : plainOf (notesOf els) = []
  · refine ⟨((((els.filter fun e => !isNote e).filter fun e => !isMeasure e) ++ (els.filter fun e => !isNote e).filter isMeasure).map
      (structRows (c0 :: rest))).flatten ++ (((gracesOf (notesOf els)).map fun n => (keyOf n, tokc n)).map fun g => (c0 :: rest).map (noteCell [g])), st2, new2, ?_, ?_, ?_, by rw [n2, n1], m2, ?_, ?_⟩
    · simp only [pointRows, hg, hp]
      simp only [hpl, List.map_nil, if_true, List.append_nil]
    · rw [runRows_append, r1]
      exact r2'
    · have : curOf divs nexts' = curOf divs nexts := by
        funext c
        rw [hcurfin c, hpl]
        simp [advOf]
      rw [this]; exact s2
    · intro n hn hk2
      have hk1 : n.kind = 1 := by
        by_contra hne
        have : n ∈ plainOf (notesOf els) := by simp [plainOf, hn, hne]
        rw [hpl] at this
        cases this
      obtain ⟨r, hr, e1, e2⟩ := f2 n (by simp [gracesOf, hn, hk1])
      exact ⟨r, hr, e1, by rw [e2]; exact fact_eq divs t n nexts (hlk n hn)⟩
    · intro row hrow cell hcell
      rcases List.mem_append.mp hrow with h | h
      · obtain ⟨l, hl, hrl⟩ := List.mem_flatten.mp h
        obtain ⟨el, _, rfl⟩ := List.mem_map.mp hl
        exact structRows_noTag _ el row hrl cell hcell
      · obtain ⟨gtok, hgt, rfl⟩ := List.mem_map.mp h
        obtain ⟨g, hgm, rfl⟩ := List.mem_map.mp hgt
        obtain ⟨c, _, rfl⟩ := List.mem_map.mp hcell
        have := noteCell_first divs [g] (fun n hn => by simp at hn; rw [hn]; exact hnok g (hgsub g hgm).1) c
        exact ⟨this.2.2.2.1, this.2.2.2.2⟩
  · obtain ⟨st3, new3, r3, s3, n3, m3, f3⟩ := noteRow_spec divs c0 rest (plainOf (notesOf els))
      (fun n hn => hnok n (hpsub n hn).1) (fun n hn => hkeys n (hpsub n hn).1) (curOf divs nexts) Prod.snd st2 s2
    have hmapne : (plainOf (notesOf els)).map (fun n => (keyOf n, tokc n)) ≠ [] := by simpa using hpl
    refine ⟨((((els.filter fun e => !isNote e).filter fun e => !isMeasure e) ++ (els.filter fun e => !isNote e).filter isMeasure).map
      (structRows (c0 :: rest))).flatten ++ (((gracesOf (notesOf els)).map fun n => (keyOf n, tokc n)).map fun g => (c0 :: rest).map (noteCell [g])) ++ [(c0 :: rest).map (noteCell ((plainOf (notesOf els)).map fun n => (keyOf n, tokc n)))], st3, new3 ++ new2, ?_, ?_, ?_, by rw [n3, n2, n1]; simp, ?_, ?_, ?_⟩
    · simp only [pointRows, hg, hp, hmapne, if_false]
    · rw [runRows_append, runRows_append, r1]
      simp only [Option.bind_some]
      rw [r2']
      simp only [Option.bind_some, runRows, r3]
    · have : curOf divs nexts' = fun c => curOf divs nexts c + advOf divs ((plainOf (notesOf els)).filter fun n => keyOf n = c) :=
        funext hcurfin
      rw [this]; exact s3
    · intro r hr
      rcases List.mem_append.mp hr with h | h
      · exact m3 r h
      · exact m2 r h
    · intro n hn hk2
      by_cases hk1 : n.kind = 1
      · obtain ⟨r, hr, e1, e2⟩ := f2 n (by simp [gracesOf, hn, hk1])
        exact ⟨r, List.mem_append_right _ hr, e1, by rw [e2]; exact fact_eq divs t n nexts (hlk n hn)⟩
      · obtain ⟨r, hr, e1, e2⟩ := f3 n (by simp [plainOf, hn, hk1]) hk2
        exact ⟨r, List.mem_append_left _ hr, e1, by rw [e2]; exact fact_eq divs t n nexts (hlk n hn)⟩
    · intro row hrow cell hcell
      rcases List.mem_append.mp hrow with h | h
      · rcases List.mem_append.mp h with h | h
        · obtain ⟨l, hl, hrl⟩ := List.mem_flatten.mp h
          obtain ⟨el, _, rfl⟩ := List.mem_map.mp hl
          exact structRows_noTag _ el row hrl cell hcell
        · obtain ⟨gtok, hgt, rfl⟩ := List.mem_map.mp h
          obtain ⟨g, hgm, rfl⟩ := List.mem_map.mp hgt
          obtain ⟨c, _, rfl⟩ := List.mem_map.mp hcell
          have := noteCell_first divs [g] (fun n hn => by simp at hn; rw [hn]; exact hnok g (hgsub g hgm).1) c
          exact ⟨this.2.2.2.1, this.2.2.2.2⟩
      · simp only [List.mem_singleton] at h
        subst h
        simp only [List.mem_map] at hcell
        obtain ⟨c, _, rfl⟩ := hcell
        have := noteCell_first divs (plainOf (notesOf els)) (fun n hn => hnok n (hpsub n hn).1) c
        exact ⟨this.2.2.2.1, this.2.2.2.2⟩

/-! ## the whole document -/

theorem allRows_spec (divs : Nat) (c0 : Nat × Nat) (rest : List (Nat × Nat)) (points : List (Nat × List El))
    (nexts : List ((Nat × Nat) × Nat))
    (hok : ∀ pt ∈ points, ∀ e ∈ pt.2, elOk divs e = true)
    (hkeys : ∀ pt ∈ points, ∀ n ∈ notesOf pt.2, keyOf n ∈ c0 :: rest)
    (hsp : spinesComplete nexts points = true)
    (st : Kern.St) (hs : Shape st (c0 :: rest) (curOf divs nexts) Prod.snd) :
    ∃ body st' new nexts', allRows (c0 :: rest) points = some body ∧ runRows st body = some st' ∧
      Shape st' (c0 :: rest) (curOf divs nexts') Prod.snd ∧ st'.notes = new ++ st.notes ∧
      (∀ r ∈ new, r.main < (c0 :: rest).length) ∧
      (∀ pt ∈ points, ∀ n ∈ notesOf pt.2, n.kind ≠ 2 → ∃ r ∈ new, r.kind ≠ 2 ∧ rawFact r = factOf divs pt.1 n) ∧
      (∀ row ∈ body, ∀ cell ∈ row, NoTag cell) := by
  induction points generalizing nexts st with
  | nil => exact ⟨[], st, [], nexts, rfl, rfl, hs, by simp, by simp, by simp, by simp⟩
  | cons pt pts ih =>
    simp only [spinesComplete] at hsp
    cases hadv : advanceCols nexts pt.1 (notesOf pt.2) with
    | none => simp [hadv] at hsp
    | some nexts1 =>
      simp only [hadv] at hsp
      obtain ⟨rows1, st1, new1, p1, r1, s1, n1, m1, f1, t1⟩ := point_spec divs c0 rest pt.2 pt.1 nexts nexts1
        (hok pt (by simp)) (hkeys pt (by simp)) hadv st hs
      obtain ⟨body2, st2, new2, nexts2, p2, r2, s2, n2, m2, f2, t2⟩ := ih nexts1
        (fun x hx => hok x (by simp [hx])) (fun x hx => hkeys x (by simp [hx])) hsp st1 s1
      refine ⟨rows1 ++ body2, st2, new2 ++ new1, nexts2, by simp [allRows, p1, p2], ?_, s2, by rw [n2, n1]; simp, ?_, ?_, ?_⟩
      · rw [runRows_append, r1]; exact r2
      · intro r hr
        rcases List.mem_append.mp hr with h | h
        · exact m2 r h
        · exact m1 r h
      · intro x hx n hn hk
        rcases List.mem_cons.mp hx with rfl | hx
        · obtain ⟨r, hr, e⟩ := f1 n hn hk
          exact ⟨r, List.mem_append_right _ hr, e⟩
        · obtain ⟨r, hr, e⟩ := f2 x hx n hn hk
          exact ⟨r, List.mem_append_left _ hr, e⟩
      · intro row hrow cell hcell
        rcases List.mem_append.mp hrow with h | h
        · exact t1 row h cell hcell
        · exact t2 row h cell hcell

theorem initCols_kern (cols : List (Nat × Nat)) (j : Nat) :
    initCols (fullRow cols "**kern".toList) j = kcolsFrom (fun _ => 0) (fun _ => 1) j cols := by
  induction cols generalizing j with
  | nil => rfl
  | cons c rest ih =>
    have h : (startsWith "**kern".toList "**kern" || startsWith "**kern".toList "**notes") = true := by decide
    show initCols ("**kern".toList :: fullRow rest "**kern".toList) j = _
    simp only [initCols, kcolsFrom, h, ih]

theorem mains_kcols (cur stf) (cols : List (Nat × Nat)) (j m : Nat) (h1 : j ≤ m) (h2 : m < j + cols.length) :
    m ∈ ((kcolsFrom cur stf j cols).filter (·.kern)).map (·.main) := by
  induction cols generalizing j with
  | nil => simp at h2; omega
  | cons c rest ih =>
    simp only [kcolsFrom, List.filter_cons, if_true, List.map_cons, List.mem_cons]
    by_cases h : m = j
    · exact Or.inl h
    · right
      exact ih (j + 1) (by omega) (by simp only [List.length_cons] at h2; omega)

theorem scanTags_nil (rows : List Row) (pfx : String) (h : ∀ row ∈ rows, ∀ cell ∈ row, startsWith cell pfx = false) :
    scanTags rows pfx = [] := by
  simp only [scanTags, List.map_eq_nil_iff, List.filter_eq_nil_iff]
  intro cell hcell
  obtain ⟨row, hrow, hc⟩ := List.mem_flatten.mp hcell
  simp [h row hrow cell hc]

theorem samePartOf_false (rows : List Row) (h : ∀ row ∈ rows, ∀ cell ∈ row, NoTag cell) : samePartOf rows = false := by
  have h1 := scanTags_nil rows "*part" (fun row hr cell hc => (h row hr cell hc).1)
  have h2 := scanTags_nil rows "*I" (fun row hr cell hc => (h row hr cell hc).2)
  simp [samePartOf, h1, h2]

theorem endRow_spec (cols : List (Nat × Nat)) (cur stf) (st : Kern.St) (j : Nat) (acc : List Col) (b : Bool) :
    interpRow st ((kcolsFrom cur stf j cols).map fun c => (c, 0)) (fullRow cols "*-".toList) acc b = some (st, acc.reverse) := by
  induction cols generalizing j acc b with
  | nil => simp [kcolsFrom, fullRow, interpRow]
  | cons c rest ih =>
    simp only [kcolsFrom, fullRow, List.map_cons, interpRow]
    have h1 : ¬ ("*-".toList = "*^".toList) := by decide
    have h2 : ¬ ("*-".toList = "*v".toList) := by decide
    simp only [h1, h2, if_false, if_true]
    exact ih (j + 1) acc false

theorem step_unfold_interp (st : Kern.St) (first : List Char) (tl : List (List Char))
    (h1 : startsWith first "!" = false) (h2 : (first :: tl).length = st.cols.length) (h3 : startsWith first "*" = true) :
    step st (first :: tl) =
      (interpRow { st with widths := updWidths st.widths (withPos st.cols) } (withPos st.cols) (first :: tl) [] false).map
        fun (x : Kern.St × List Col) => { x.1 with cols := x.2 } := by
  have h2' : ¬ ((first :: tl).length ≠ st.cols.length) := by simpa using h2
  simp only [step, h1, h2', h3, Bool.false_eq_true, if_false, if_true]

theorem step_end (c0 : Nat × Nat) (rest : List (Nat × Nat)) (cur stf) (st : Kern.St) (hs : Shape st (c0 :: rest) cur stf) :
    ∃ st', step st (fullRow (c0 :: rest) "*-".toList) = some st' ∧ st'.notes = st.notes ∧ st'.same = false := by
  obtain ⟨hcols, hsame⟩ := hs
  refine ⟨{ ({ st with widths := updWidths st.widths (withPos st.cols) } : Kern.St) with cols := [] }, ?_, rfl, hsame⟩
  show step st ("*-".toList :: fullRow rest "*-".toList) = _
  rw [step_unfold_interp st _ _ (by decide) (by rw [hcols, kcolsFrom_length]; simp [fullRow]) (by decide)]
  have := endRow_spec (c0 :: rest) cur stf { st with widths := updWidths st.widths (withPos st.cols) } 0 [] false
  rw [show ("*-".toList :: fullRow rest "*-".toList) = fullRow (c0 :: rest) "*-".toList from rfl]
  rw [← withPos_kcols, ← hcols] at this
  rw [this]
  rfl

theorem mem_insertPair (a x : Nat × Nat) (l : List (Nat × Nat)) : x ∈ insertPair a l ↔ x = a ∨ x ∈ l := by
  induction l with
  | nil => simp [insertPair]
  | cons b rest ih =>
    simp only [insertPair]
    split
    · rename_i hab
      subst hab
      simp only [List.mem_cons]
      tauto
    · split
      · simp only [List.mem_cons]
      · simp only [List.mem_cons, ih]
        tauto

theorem mem_columns_fold (notes : List XNote) (acc : List (Nat × Nat)) (x : Nat × Nat) :
    x ∈ notes.foldl (fun acc n => insertPair (n.voice, n.staff) acc) acc ↔ x ∈ acc ∨ ∃ n ∈ notes, keyOf n = x := by
  induction notes generalizing acc with
  | nil => simp
  | cons n rest ih =>
    simp only [List.foldl_cons, ih, mem_insertPair, List.mem_cons, exists_eq_or_imp, keyOf]
    constructor
    · rintro ((rfl | h) | h)
      · exact Or.inr (Or.inl rfl)
      · exact Or.inl h
      · exact Or.inr (Or.inr h)
    · rintro (h | h | h)
      · exact Or.inl (Or.inr h)
      · exact Or.inl (Or.inl h.symm)
      · exact Or.inr h

theorem columns_mem (p : XPart) (pt : Nat × List El) (hpt : pt ∈ p.points) (n : XNote) (hn : n ∈ notesOf pt.2) :
    keyOf n ∈ columns p := by
  simp only [columns, mem_columns_fold]
  right
  refine ⟨n, ?_, rfl⟩
  simp only [allNotes, List.mem_flatten, List.mem_map]
  exact ⟨notesOf pt.2, ⟨pt, hpt, rfl⟩, hn⟩

theorem curOf_init (divs : Nat) (cols : List (Nat × Nat)) (c : Nat × Nat) :
    curOf divs (cols.map fun c => (c, 0)) c = 0 := by
  have : (lookup c (cols.map fun c => (c, (0 : Nat)))).getD 0 = 0 := by
    induction cols with
    | nil => rfl
    | cons d rest ih =>
      simp only [List.map_cons, lookup]
      split
      · rfl
      · exact ih
  simp [curOf, this]

theorem mem_facts (p : XPart) (f : Fact) (hf : f ∈ facts p) :
    ∃ pt ∈ p.points, ∃ n ∈ notesOf pt.2, n.kind ≠ 2 ∧ f = factOf p.divs pt.1 n := by
  simp only [facts, List.mem_flatten, List.mem_map] at hf
  obtain ⟨l, ⟨pt, hpt, rfl⟩, hfl⟩ := hf
  simp only [List.mem_map, List.mem_filter] at hfl
  obtain ⟨n, ⟨hn, hk⟩, rfl⟩ := hfl
  exact ⟨pt, hpt, n, hn, by simpa using hk, rfl⟩

/-- **export_import (kern).**  The document written for an exportable part denotes, among the notes of its
    parts, every note and grace note of the part with its onset and duration in quarters, spelling and staff. -/
theorem export_import_kern_aux (p : XPart) (h : Exportable p = true) :
    ∃ rows parts, writeKern p = some rows ∧ Kern.denote rows = some parts ∧
      ∀ f ∈ facts p, ∃ part ∈ parts, ∃ x ∈ part.notes, factOfKernNote x = f := by
  simp only [Exportable, Bool.and_eq_true, decide_eq_true_eq, Bool.not_eq_true', List.all_eq_true] at h
  obtain ⟨⟨⟨hdivs, hcols⟩, hok⟩, hsp⟩ := h
  cases hc : columns p with
  | nil => simp [hc] at hcols
  | cons c0 rest =>
    rw [hc] at hsp
    have hkeys : ∀ pt ∈ p.points, ∀ n ∈ notesOf pt.2, keyOf n ∈ c0 :: rest := by
      intro pt hpt n hn
      rw [← hc]
      exact columns_mem p pt hpt n hn
    -- the state after the two header rows
    have hcur0 : (fun _ => (0 : Rat)) = curOf p.divs ((c0 :: rest).map fun c => (c, 0)) := by
      funext c; exact (curOf_init p.divs (c0 :: rest) c).symm
    let hdr : Row := fullRow (c0 :: rest) "**kern".toList
    let staffRow : Row := (c0 :: rest).map fun c => "*staff".toList ++ natDigits c.2
    -- rows and their cells
    obtain ⟨st1, r1, s1, n1⟩ := step_interp c0 rest (fun _ => 0) (fun _ => 1)
      (fun c => "*staff".toList ++ natDigits c.2) (fun c => some c.2) (fun c _ => tandemOK_staff c.2)
      (by simp [startsWith, List.isPrefixOf]) (by simp [startsWith, List.isPrefixOf])
      { cols := initCols hdr 0, same := false } ⟨initCols_kern (c0 :: rest) 0, rfl⟩
    have s1' : Shape st1 (c0 :: rest) (curOf p.divs ((c0 :: rest).map fun c => (c, 0))) Prod.snd := by
      rw [← hcur0]; exact s1
    obtain ⟨body, st2, new, nexts', pb, r2, s2, n2, m2, f2, t2⟩ := allRows_spec p.divs c0 rest p.points _
      (fun pt hpt e he => hok pt hpt e he) hkeys hsp st1 s1'
    obtain ⟨st3, r3, n3, same3⟩ := step_end c0 rest _ _ st2 s2
    have hrows : writeKern p = some ([hdr, staffRow] ++ body ++ [fullRow (c0 :: rest) "*-".toList]) := by
      simp only [writeKern, hc, pb]
      simp [hdr, staffRow]
    have hnotag : ∀ row ∈ [hdr, staffRow] ++ body ++ [fullRow (c0 :: rest) "*-".toList], ∀ cell ∈ row, NoTag cell := by
      intro row hrow cell hcell
      simp only [List.mem_append, List.mem_cons, List.mem_singleton, List.not_mem_nil, or_false] at hrow
      rcases hrow with ((rfl | rfl) | h) | rfl
      · simp only [hdr, fullRow, List.mem_map] at hcell
        obtain ⟨_, _, rfl⟩ := hcell
        simp [NoTag, startsWith, List.isPrefixOf]
      · simp only [staffRow, List.mem_map] at hcell
        obtain ⟨_, _, rfl⟩ := hcell
        simp [NoTag, startsWith, List.isPrefixOf]
      · exact t2 row h cell hcell
      · simp only [fullRow, List.mem_map] at hcell
        obtain ⟨_, _, rfl⟩ := hcell
        simp [NoTag, startsWith, List.isPrefixOf]
    have hsameP : samePartOf (hdr :: staffRow :: (body ++ [fullRow (c0 :: rest) "*-".toList])) = false :=
      samePartOf_false _ hnotag
    have hrun : run ([hdr, staffRow] ++ body ++ [fullRow (c0 :: rest) "*-".toList]) = some st3 := by
      have hskip : isSkippable hdr = false := by
        simp [hdr, fullRow, isSkippable, startsWith, List.isPrefixOf]
      simp only [run, List.cons_append, List.nil_append, List.dropWhile_cons, hskip, Bool.false_eq_true, if_false, hsameP]
      simp only [runRows, staffRow] at r1 ⊢
      rw [r1]
      simp only [runRows_append, r2, Option.bind_some, runRows, r3]
    refine ⟨_, assemble st3 (kernMains ([hdr, staffRow] ++ body ++ [fullRow (c0 :: rest) "*-".toList])), hrows, ?_, ?_⟩
    · simp only [denote, hrun, Option.map_some]
    · intro f hf
      obtain ⟨pt, hpt, n, hn, hk, rfl⟩ := mem_facts p f hf
      obtain ⟨r, hr, hrk, hrf⟩ := f2 pt hpt n hn hk
      have hr3 : r ∈ st3.notes := by rw [n3, n2]; exact List.mem_append_left _ hr
      have hmain : r.main ∈ kernMains ([hdr, staffRow] ++ body ++ [fullRow (c0 :: rest) "*-".toList]) := by
        have hskip : isSkippable hdr = false := by
          simp [hdr, fullRow, isSkippable, startsWith, List.isPrefixOf]
        simp only [kernMains, List.cons_append, List.nil_append, List.dropWhile_cons, hskip, Bool.false_eq_true, if_false]
        rw [initCols_kern]
        exact mains_kcols _ _ _ 0 r.main (Nat.zero_le _) (by simpa using m2 r hr)
      obtain ⟨part, hpart, x, hx, e1, e2, e3, e4, e5, e6, e7⟩ := assemble_mem st3 _ same3 r hr3 hmain hrk
      refine ⟨part, hpart, x, hx, ?_⟩
      rw [← hrf]
      simp [factOfKernNote, rawFact, e1, e2, e3, e4, e5, e6, e7]

end C19W
