/-
Helper lemmas for the C19 writer theorems: the token written for a note parses back to the note
(character level), and the rows written by `KernWrite.writeKern` drive the `Kern` state machine
column by column.
-/
import PartituraModel.Model.KernWrite
import PartituraModel.Proofs.C19
import PartituraModel.Proofs.Digits

namespace C19W
open Model Model.Kern Model.KernWrite C19P

/-! ## character classes -/

/-- what `parseSub` looks at in a token -/
structure Prof where
  num : List Char
  letters : List Char
  dots : Nat
  sharps : Nat
  flats : Nat
  q : Bool
  r : Bool
  o : Bool
  u : Bool
  c : Bool
  sp : Bool
  deriving DecidableEq

def numP (c : Char) : Bool := c.isDigit || c = '%'

def prof (cs : List Char) : Prof :=
  ⟨cs.filter numP, cs.filter isPitchLetter, count '.' cs, count '#' cs, count '-' cs,
   cs.contains 'q', cs.contains 'r', cs.contains '[', cs.contains '_', cs.contains ']', cs.contains ' '⟩

def Prof.add (a b : Prof) : Prof :=
  ⟨a.num ++ b.num, a.letters ++ b.letters, a.dots + b.dots, a.sharps + b.sharps, a.flats + b.flats,
   a.q || b.q, a.r || b.r, a.o || b.o, a.u || b.u, a.c || b.c, a.sp || b.sp⟩

theorem prof_append (a b : List Char) : prof (a ++ b) = (prof a).add (prof b) := by
  simp [prof, Prof.add, List.filter_append, count_append, List.contains_append]

def parseProf (p : Prof) : Option SubTok :=
  let recip? : Option (Option Recip) :=
    if p.num = [] then (if p.q then some none else none)
    else (parseRecip p.num).map some
  match recip? with
  | none => none
  | some recip =>
    let mk (pt : Option (String × Int)) : SubTok :=
      { recip := recip, dots := p.dots, pitch := pt, alter := (p.sharps : Int) - (p.flats : Int), grace := p.q,
        tOpen := p.o, tCont := p.u, tClose := p.c }
    if p.r then some (mk none)
    else (pitchOf p.letters).map fun pt => mk (some pt)

theorem parseSub_prof (cs : List Char) : parseSub cs = parseProf (prof cs) := by
  simp only [parseSub, parseProf, prof, numP, alterOf]
  rfl

def digitChars : List Char := ['0', '1', '2', '3', '4', '5', '6', '7', '8', '9']

theorem digitChar_mem (d : Nat) (h : d < 10) : digitChar d ∈ digitChars := by
  interval_cases d <;> decide

theorem natDigitsRev_mem (fuel n : Nat) : ∀ c ∈ natDigitsRev fuel n, c ∈ digitChars := by
  induction fuel generalizing n with
  | zero => simp [natDigitsRev]
  | succ fuel ih =>
    unfold natDigitsRev
    split
    · rename_i hlt
      intro c hc
      simp only [List.mem_singleton] at hc
      subst hc
      exact digitChar_mem n hlt
    · intro c hc
      simp only [List.mem_cons] at hc
      rcases hc with rfl | hc
      · exact digitChar_mem _ (Nat.mod_lt _ (by decide))
      · exact ih _ c hc

theorem natDigits_mem (n : Nat) : ∀ c ∈ natDigits n, c ∈ digitChars := by
  unfold natDigits
  intro c hc
  exact natDigitsRev_mem _ _ c (List.mem_reverse.mp hc)

/-- a list of characters drawn from a finite alphabet on which the profile is known pointwise -/
theorem prof_of_class (S : List Char) (l : List Char) (hl : ∀ c ∈ l, c ∈ S)
    (hn : ∀ c ∈ S, numP c = true) (hp : ∀ c ∈ S, isPitchLetter c = false)
    (h1 : '.' ∉ S) (h2 : '#' ∉ S) (h3 : '-' ∉ S) (h4 : 'q' ∉ S) (h5 : 'r' ∉ S) (h6 : '[' ∉ S) (h7 : '_' ∉ S) (h8 : ']' ∉ S) (h9 : ' ' ∉ S) :
    prof l = ⟨l, [], 0, 0, 0, false, false, false, false, false, false⟩ := by
  have hno : ∀ x, x ∉ S → x ∉ l := fun x hx hm => hx (hl x hm)
  have hc : ∀ x, x ∉ S → count x l = 0 := by
    intro x hx
    simp only [count, List.length_eq_zero_iff, List.filter_eq_nil_iff]
    intro a ha
    have : a ≠ x := fun h => hx (h ▸ hl a ha)
    simpa using this
  simp only [prof, hc _ h1, hc _ h2, hc _ h3, List.contains_eq_mem, hno _ h4, hno _ h5, hno _ h6, hno _ h7, hno _ h8, hno _ h9,
    decide_false, Prof.mk.injEq, and_true, true_and]
  exact ⟨List.filter_eq_self.mpr fun a ha => hn a (hl a ha),
         List.filter_eq_nil_iff.mpr fun a ha => by simp [hp a (hl a ha)]⟩

theorem prof_digits (l : List Char) (hl : ∀ c ∈ l, c ∈ digitChars) :
    prof l = ⟨l, [], 0, 0, 0, false, false, false, false, false, false⟩ :=
  prof_of_class digitChars l hl (by decide) (by decide) (by decide) (by decide) (by decide) (by decide)
    (by decide) (by decide) (by decide) (by decide) (by decide)

theorem prof_natDigits (n : Nat) : prof (natDigits n) = ⟨natDigits n, [], 0, 0, 0, false, false, false, false, false, false⟩ :=
  prof_digits _ (natDigits_mem n)

theorem prof_dots (k : Nat) : prof (List.replicate k '.') = ⟨[], [], k, 0, 0, false, false, false, false, false, false⟩ := by
  induction k with
  | zero => rfl
  | succ k ih =>
    rw [List.replicate_succ, ← List.singleton_append, prof_append, ih]
    simp [prof, Prof.add, count, numP, isPitchLetter]
    omega

/-- the fourteen pitch letters -/
def pitchLetters : List Char := ['C', 'D', 'E', 'F', 'G', 'A', 'B', 'c', 'd', 'e', 'f', 'g', 'a', 'b']

theorem prof_letters (L : Char) (hL : L ∈ pitchLetters) (k : Nat) :
    prof (List.replicate k L) = ⟨[], List.replicate k L, 0, 0, 0, false, false, false, false, false, false⟩ := by
  induction k with
  | zero => rfl
  | succ k ih =>
    rw [List.replicate_succ, ← List.singleton_append, prof_append, ih]
    simp only [pitchLetters, List.mem_cons, List.not_mem_nil, or_false] at hL
    rcases hL with rfl | rfl | rfl | rfl | rfl | rfl | rfl | rfl | rfl | rfl | rfl | rfl | rfl | rfl <;> rfl

theorem kernDursW_facts : ∀ e ∈ kernDursW,
    (parseRecip e.2).bind baseValue = some (4 / baseRecip e.2) ∧ e.2 ≠ [] ∧ (∀ c ∈ e.2, c ∈ digitChars) ∧ 0 < baseRecip e.2 := by
  decide +kernel

theorem lookup_mem {α β : Type} [DecidableEq α] (k : α) (l : List (α × β)) (v : β) (h : lookup k l = some v) : (k, v) ∈ l := by
  induction l with
  | nil => simp [lookup] at h
  | cons a rest ih =>
    obtain ⟨a1, a2⟩ := a
    simp only [lookup] at h
    split at h
    · rename_i heq
      simp at h
      subst h
      simp [heq]
    · exact List.mem_cons_of_mem _ (ih h)

theorem allZeros_digitsToNat (l : List Char) (h : l.all (· = '0') = true) : digitsToNat l = 0 := by
  unfold digitsToNat
  suffices ∀ acc, acc = 0 → l.foldl (fun n c => 10 * n + (c.toNat - '0'.toNat)) acc = 0 from this 0 rfl
  induction l with
  | nil => intro acc h0; simpa using h0
  | cons c rest ih =>
    intro acc h0
    simp only [List.all_cons, Bool.and_eq_true, decide_eq_true_eq] at h
    simp only [List.foldl_cons]
    apply ih h.2
    subst h0
    rw [h.1]
    rfl

theorem digits_all_isDigit (l : List Char) (hl : ∀ c ∈ l, c ∈ digitChars) : l.all Char.isDigit = true := by
  rw [List.all_eq_true]
  intro c hc
  have := hl c hc
  revert c
  intro c _ h
  simp only [digitChars, List.mem_cons, List.not_mem_nil, or_false] at h
  rcases h with rfl | rfl | rfl | rfl | rfl | rfl | rfl | rfl | rfl | rfl <;> rfl

theorem percent_not_digits (l : List Char) (hl : ∀ c ∈ l, c ∈ digitChars) : '%' ∉ l := by
  intro h
  have := hl _ h
  revert this
  decide

/-- the decimal digits of a positive number are read back as that number -/
theorem parseRecip_natDigits (m : Nat) (hm : 0 < m) : parseRecip (natDigits m) = some (.num m) := by
  have hd := natDigits_mem m
  have hne := Digits.natDigits_ne_nil m
  have hall := digits_all_isDigit _ hd
  have hz : (natDigits m).all (· = '0') = false := by
    by_contra hc
    simp only [Bool.not_eq_false] at hc
    have := allZeros_digitsToNat _ hc
    rw [Digits.digitsToNat_natDigits] at this
    omega
  simp only [parseRecip, List.splitOn_eq_singleton (percent_not_digits _ hd)]
  simp [hne, hall, hz, Digits.digitsToNat_natDigits]

theorem parseRecip_frac (a b : Nat) :
    parseRecip (natDigits a ++ '%' :: natDigits b) = some (.frac a b) := by
  have ha := natDigits_mem a
  have hb := natDigits_mem b
  simp only [parseRecip, List.splitOn_append_cons_self_of_not_mem (percent_not_digits _ ha),
    List.splitOn_eq_singleton (percent_not_digits _ hb)]
  simp [Digits.natDigits_ne_nil, digits_all_isDigit _ ha, digits_all_isDigit _ hb, Digits.digitsToNat_natDigits]

/-- the reciprocal written for a positive rational denotes `4/r` quarters -/
theorem recipChars_value (r : Rat) (hr : 0 < r) :
    ∃ R, parseRecip (recipChars r) = some R ∧ baseValue R = some (4 / r) ∧ recipChars r ≠ [] ∧
      (∀ c ∈ recipChars r, c ∈ '%' :: digitChars) ∧ (recipChars r).head? ≠ some '%' := by
  have hnum : 0 < r.num := Rat.num_pos.mpr hr
  have hcast : ((r.num.toNat : Nat) : Rat) = (r.num : Rat) := by
    have : ((r.num.toNat : Nat) : Int) = r.num := Int.toNat_of_nonneg (le_of_lt hnum)
    exact_mod_cast this
  have hnpos : 0 < r.num.toNat := by omega
  have hrd := Rat.num_div_den r
  have hnum0 : (r.num : Rat) ≠ 0 := by exact_mod_cast (ne_of_gt hnum)
  by_cases hden : r.den = 1
  · refine ⟨.num r.num.toNat, ?_, ?_, ?_, ?_, ?_⟩
    · simp [recipChars, hden, parseRecip_natDigits _ hnpos]
    · have : r.num.toNat ≠ 0 := by omega
      simp only [baseValue, this, if_false, hcast]
      rw [hden] at hrd
      simp at hrd
      rw [hrd]
    · simp [recipChars, hden, Digits.natDigits_ne_nil]
    · intro c hc
      simp only [recipChars, hden, if_true] at hc
      exact List.mem_cons_of_mem _ (natDigits_mem _ c hc)
    · simp only [recipChars, hden, if_true]
      intro h
      have hm : '%' ∈ natDigits r.num.toNat := List.mem_of_mem_head? h
      exact percent_not_digits _ (natDigits_mem _) hm
  · refine ⟨.frac r.num.toNat r.den, ?_, ?_, ?_, ?_, ?_⟩
    · simp [recipChars, hden, parseRecip_frac]
    · have h1 : r.num.toNat ≠ 0 := by omega
      have h2 : r.den ≠ 0 := r.den_nz
      simp only [baseValue, h1, h2, or_self, if_false, hcast]
      have hd0 : (r.den : Rat) ≠ 0 := by exact_mod_cast h2
      have e : (4 : Rat) / r = 4 * (r.den : Rat) / (r.num : Rat) := by
        conv_lhs => rw [← hrd]
        field_simp
      rw [e]
    · simp [recipChars, hden]
    · intro c hc
      simp only [recipChars, hden, if_false, List.mem_append, List.mem_cons] at hc
      rcases hc with hc | rfl | hc
      · exact List.mem_cons_of_mem _ (natDigits_mem _ c hc)
      · simp
      · exact List.mem_cons_of_mem _ (natDigits_mem _ c hc)
    · simp only [recipChars, hden, if_false]
      intro h
      have hne := Digits.natDigits_ne_nil r.num.toNat
      cases hnd : natDigits r.num.toNat with
      | nil => exact hne hnd
      | cons x xs =>
        rw [hnd] at h
        simp at h
        have : '%' ∈ natDigits r.num.toNat := by rw [hnd, ← h]; simp
        exact percent_not_digits _ (natDigits_mem _) this

def valOf (divs : Nat) (n : XNote) : Rat := if n.kind = 1 then 0 else (n.dur : Rat) / (divs : Rat)

abbrev plainProf (num letters : List Char) (dots sharps flats : Nat) : Prof :=
  ⟨num, letters, dots, sharps, flats, false, false, false, false, false, false⟩

theorem prof_recipAlphabet (l : List Char) (hl : ∀ c ∈ l, c ∈ '%' :: digitChars) :
    prof l = plainProf l [] 0 0 0 :=
  prof_of_class ('%' :: digitChars) l hl (by decide) (by decide) (by decide) (by decide) (by decide) (by decide)
    (by decide) (by decide) (by decide) (by decide) (by decide)

/-- the duration written for a symbolic duration reads back as its value -/
theorem symTok_spec (sd : SymDur) (v : Rat) (hv : symValue sd = some v) :
    ∃ num R, symTok sd = some (num ++ List.replicate sd.dots '.') ∧ prof num = plainProf num [] 0 0 0 ∧
      parseRecip num = some R ∧ value R sd.dots = some v ∧ (∃ h rest, num = h :: rest ∧ h ∈ digitChars) := by
  simp only [symValue] at hv
  cases hl : lookup sd.type kernDursW with
  | none => simp [hl] at hv
  | some base =>
    simp only [hl] at hv
    obtain ⟨hpb, hne, hdig, hpos⟩ := kernDursW_facts (sd.type, base) (lookup_mem _ _ _ hl)
    simp only at hpb hne hdig hpos
    cases ht : sd.tup with
    | none =>
      simp only [ht, Option.some.injEq] at hv
      obtain ⟨R, hR, hbv⟩ := Option.bind_eq_some_iff.mp hpb
      refine ⟨base, R, ?_, ?_, hR, ?_, ?_⟩
      · simp [symTok, hl, ht]
      · exact prof_recipAlphabet base fun c hc => List.mem_cons_of_mem _ (hdig c hc)
      · simp [value, hbv, hv]
      · cases base with
        | nil => exact absurd rfl hne
        | cons h rest => exact ⟨h, rest, rfl, hdig h (by simp)⟩
    | some ab =>
      obtain ⟨a, b⟩ := ab
      simp only [ht] at hv
      by_cases h0 : a = 0 ∨ b = 0
      · simp [h0] at hv
      · simp only [h0, if_false, Option.some.injEq] at hv
        have ha : a ≠ 0 := fun h => h0 (Or.inl h)
        have hb : b ≠ 0 := fun h => h0 (Or.inr h)
        have haq : (0 : Rat) < (a : Rat) := by exact_mod_cast Nat.pos_of_ne_zero ha
        have hbq : (0 : Rat) < (b : Rat) := by exact_mod_cast Nat.pos_of_ne_zero hb
        have hr : 0 < baseRecip base * (a : Rat) / (b : Rat) := div_pos (mul_pos hpos haq) hbq
        obtain ⟨R, hR, hbv, hne', hal, hhd⟩ := recipChars_value _ hr
        refine ⟨recipChars (baseRecip base * (a : Rat) / (b : Rat)), R, ?_, prof_recipAlphabet _ hal, hR, ?_, ?_⟩
        · simp [symTok, hl, ht, hb]
        · simp only [value, hbv, Option.map_some, Option.some.injEq]
          rw [← hv]
          congr 1
          have h1 : baseRecip base ≠ 0 := ne_of_gt hpos
          have h2 : (a : Rat) ≠ 0 := ne_of_gt haq
          have h3 : (b : Rat) ≠ 0 := ne_of_gt hbq
          field_simp
        · cases hrc : recipChars (baseRecip base * (a : Rat) / (b : Rat)) with
          | nil => exact absurd hrc hne'
          | cons h rest =>
            refine ⟨h, rest, rfl, ?_⟩
            have hm := hal h (by rw [hrc]; simp)
            rw [hrc] at hhd
            simp only [List.head?_cons, ne_eq, Option.some.injEq] at hhd
            rcases List.mem_cons.mp hm with h' | h'
            · exact absurd h' hhd
            · exact h'

theorem stepLetters_facts : ∀ e ∈ stepLetters,
    (e.2.2, e.1, (4 : Int)) ∈ kernNotes ∧ (e.2.1, e.1, (3 : Int)) ∈ kernNotes ∧ e.2.2 ∈ pitchLetters ∧ e.2.1 ∈ pitchLetters := by
  decide

theorem accToSign_facts : ∀ e ∈ accToSign,
    prof e.2 = plainProf [] [] 0 (count '#' e.2) (count '-' e.2) ∧ ((count '#' e.2 : Nat) : Int) - ((count '-' e.2 : Nat) : Int) = e.1 := by
  decide

/-- the letters written for (step, octave) read back as that step and octave -/
theorem letters_spec (n : XNote) (up lo : Char) (hs : lookup n.step stepLetters = some (up, lo)) :
    ∃ letters, (if n.octave > 4 then List.replicate (n.octave - 3).toNat lo
        else if n.octave < 3 then List.replicate (4 - n.octave).toNat up
        else if n.octave = 3 then [up] else [lo]) = letters ∧
      prof letters = plainProf [] letters 0 0 0 ∧ pitchOf letters = some (n.step, n.octave) := by
  obtain ⟨h4, h3, hlo, hup⟩ := stepLetters_facts (n.step, up, lo) (lookup_mem _ _ _ hs)
  simp only at h4 h3 hlo hup
  by_cases c1 : n.octave > 4
  · refine ⟨List.replicate (n.octave - 3).toNat lo, by simp only [c1, if_true], prof_letters lo hlo _, ?_⟩
    have hk : (n.octave - 3).toNat = (n.octave - 4).toNat + 1 := by omega
    rw [hk, pitchOf_replicate _ h4]
    simp only [if_true, Option.some.injEq, Prod.mk.injEq, true_and]
    omega
  · by_cases c2 : n.octave < 3
    · refine ⟨List.replicate (4 - n.octave).toNat up, by simp only [c1, c2, if_true, if_false], prof_letters up hup _, ?_⟩
      have hk : (4 - n.octave).toNat = (3 - n.octave).toNat + 1 := by omega
      rw [hk, pitchOf_replicate _ h3]
      simp only [Option.some.injEq, Prod.mk.injEq, true_and]
      have : ¬ ((3 : Int) = 4) := by decide
      simp only [this, if_false]
      omega
    · by_cases c3 : n.octave = 3
      · refine ⟨[up], by simp [c3], prof_letters up hup 1, ?_⟩
        have := pitchOf_replicate _ h3 0
        simp only [List.replicate] at this
        rw [this]
        simp [c3]
      · refine ⟨[lo], by simp only [c1, c2, c3, if_false], prof_letters lo hlo 1, ?_⟩
        have := pitchOf_replicate _ h4 0
        simp only [List.replicate] at this
        rw [this]
        simp only [if_true, Option.some.injEq, Prod.mk.injEq, true_and]
        omega

end C19W
