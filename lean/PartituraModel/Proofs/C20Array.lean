/-
Helper lemmas for Props/C20Array.lean: `slice_notearray_by_time` over a heap of buffers (Model/ArrayView.lean) is
characterised completely — the heap grows by ONE buffer holding the specified rows, nothing else changes.
-/
import PartituraModel.Model.ArrayView

namespace C20Arr
open Model.ArrayView

/-- the rows the slice holds (specification): the active rows in their order; when clipping, rows that start before
    the window are overwritten by the scalar and then every duration is adjusted -/
def sliceSpec {α : Type} (act early : α → Bool) (setAll clipDur : α → α) (clip : Bool) (rows : List α) : List α :=
  if clip then ((rows.filter act).map (fun x => if early x then setAll x else x)).map clipDur else rows.filter act

theorem takeRows_activeFrom {α : Type} (act : α → Bool) (rs : List α) :
    ∀ pre : List α, takeRows (pre ++ rs) (activeFrom act pre.length rs) = rs.filter act := by
  induction rs with
  | nil => intro pre; rfl
  | cons r rs ih =>
    intro pre
    have h := ih (pre ++ [r])
    simp only [List.append_assoc, List.singleton_append, List.length_append, List.length_singleton] at h
    simp only [activeFrom]
    by_cases hr : act r = true
    · simp only [hr, if_true, takeRows, List.filterMap_cons, List.filter_cons]
      have hget : (pre ++ r :: rs)[pre.length]? = some r := by simp
      rw [hget]
      simp only [takeRows] at h
      rw [h]
    · have hr' : act r = false := by simpa using hr
      simp only [hr', Bool.false_eq_true, if_false, List.filter_cons]
      exact h

/-- integer-array indexing with the active indices selects exactly the active rows, in order -/
theorem takeRows_active {α : Type} (act : α → Bool) (rows : List α) :
    takeRows rows (activeIdx act rows) = rows.filter act := by
  have h := takeRows_activeFrom act rows []
  simpa [activeIdx] using h

theorem activeFrom_length {α : Type} (act : α → Bool) (rs : List α) :
    ∀ i, (activeFrom act i rs).length = (rs.filter act).length := by
  induction rs with
  | nil => intro i; rfl
  | cons r rs ih =>
    intro i
    simp only [activeFrom, List.filter_cons]
    by_cases hr : act r = true
    · simp [hr, ih]
    · have hr' : act r = false := by simpa using hr
      simp [hr', ih]

theorem activeIdx_isEmpty {α : Type} (act : α → Bool) (rows : List α) :
    (activeIdx act rows).isEmpty = (rows.filter act).isEmpty := by
  have h := activeFrom_length act rows 0
  unfold activeIdx
  cases h1 : activeFrom act 0 rows <;> cases h2 : rows.filter act <;> simp_all

theorem get_last {β : Type} (l : List β) (x : β) : (l ++ [x])[l.length]? = some x := by simp

theorem set_last {β : Type} (l : List β) (x y : β) : (l ++ [x]).set l.length y = l ++ [y] := by
  simp

theorem writeWhere_last {α : Type} (sel : α → Bool) (g : α → α) (bufs : Bufs α) (x : List α) :
    writeWhere sel g (bufs ++ [x]) bufs.length = bufs ++ [x.map (fun r => if sel r then g r else r)] := by
  simp only [writeWhere, get_last, set_last]

theorem writeAll_last {α : Type} (g : α → α) (bufs : Bufs α) (x : List α) :
    writeAll g (bufs ++ [x]) bufs.length = bufs ++ [x.map g] := by
  simp only [writeAll, get_last, set_last]

/-- **complete characterisation** of the function as written: the heap afterwards is the heap before plus ONE new
    buffer holding the specified rows; the array returned is that new buffer -/
theorem sliceByTime_eq {α : Type} (act early : α → Bool) (setAll clipDur : α → α) (clip : Bool)
    (bufs : Bufs α) (a : Nat) (rows : List α) (h : bufs[a]? = some rows) :
    sliceByTime act early setAll clipDur clip bufs a
      = some (bufs ++ [sliceSpec act early setAll clipDur clip rows], bufs.length) := by
  simp only [sliceByTime, sliceGen, h]
  rw [activeIdx_isEmpty]
  cases hE : (rows.filter act).isEmpty with
  | true =>
    have hnil : rows.filter act = [] := by simpa using hE
    simp only [if_true, Bool.not_true, Bool.and_false, Bool.false_eq_true, if_false, bindSel, alloc]
    cases clip <;> simp [sliceSpec, hnil]
  | false =>
    simp only [Bool.false_eq_true, if_false, bindSel, alloc, takeRows_active, Bool.not_false, Bool.and_true]
    cases clip with
    | false => simp [sliceSpec]
    | true =>
      simp only [if_true, writeWhere_last, writeAll_last, sliceSpec]

end C20Arr
