/-
Helper lemmas for Props/C16Heap.lean: the loops of `transpose` over a heap (Model/TransposeHeap.lean).
-/
import PartituraModel.Model.TransposeHeap

namespace C16Heap
open Model Model.TH

/-- a cell with its pitch fields blanked: "everything else" of an object -/
def erase : Cell → Cell
  | .note _ _ _ rs p => .note "" none 0 rs p
  | c => c

theorem erase_transposed {iv : Interval} {c c' : Cell} (h : Cell.transposed iv c = some c') :
    erase c' = erase c := by
  cases c with
  | note s a o rs p =>
    simp only [Cell.transposed, Option.map_eq_some_iff] at h
    obtain ⟨r, _, rfl⟩ := h
    rfl
  | score ps => simp [Cell.transposed] at h
  | part os => simp [Cell.transposed] at h
  | other rs p => simp [Cell.transposed] at h

theorem isNote_of_erase {c c' : Cell} (h : erase c = erase c') : c.isNote = c'.isNote := by
  cases c <;> cases c' <;> simp_all [erase, Cell.isNote]

theorem part_of_erase {c : Cell} {os : List Nat} (h : erase c = .part os) : c = .part os := by
  cases c <;> simp_all [erase]

theorem score_of_erase {c : Cell} {ps : List Nat} (h : erase c = .score ps) : c = .score ps := by
  cases c <;> simp_all [erase]

theorem erase_shift (k : Nat) (c : Cell) : erase (c.shift k) = (erase c).shift k := by
  cases c <;> rfl

theorem isNote_shift (k : Nat) (c : Cell) : (c.shift k).isNote = c.isNote := by
  cases c <;> rfl

theorem transposed_shift (iv : Interval) (k : Nat) (c : Cell) :
    Cell.transposed iv (c.shift k) = (Cell.transposed iv c).map (Cell.shift k) := by
  cases c with
  | note s a o rs p =>
    simp only [Cell.shift, Cell.transposed, Option.map_map]
    rfl
  | score ps => rfl
  | part os => rfl
  | other rs p => rfl

/-- heaps that agree on everything but pitch fields -/
def SameFrame (h h' : Heap) : Prop :=
  h'.length = h.length ∧ ∀ a : Nat, (h'[a]?).map erase = (h[a]?).map erase

theorem SameFrame.refl (h : Heap) : SameFrame h h := ⟨rfl, fun _ => rfl⟩

theorem SameFrame.trans {h1 h2 h3 : Heap} (a : SameFrame h1 h2) (b : SameFrame h2 h3) : SameFrame h1 h3 :=
  ⟨b.1.trans a.1, fun x => (b.2 x).trans (a.2 x)⟩

theorem notesOf_sameFrame {h h' : Heap} (hf : SameFrame h h') (objs : List Nat) :
    notesOf h' objs = notesOf h objs := by
  unfold notesOf
  apply List.filter_congr
  intro a _
  have := hf.2 a
  cases h1 : h'[a]? <;> cases h2 : h[a]? <;> simp_all
  exact isNote_of_erase this

theorem part_sameFrame {h h' : Heap} (hf : SameFrame h h') {p : Nat} {os : List Nat}
    (hp : h[p]? = some (.part os)) : h'[p]? = some (.part os) := by
  have := hf.2 p
  rw [hp] at this
  cases h1 : h'[p]? with
  | none => simp [h1] at this
  | some c =>
    simp only [h1, Option.map_some, Option.some.injEq] at this
    exact congrArg some (part_of_erase (by simpa [erase] using this))

theorem transposeAt_spec {iv : Interval} {h h' : Heap} {a : Nat} (e : transposeAt iv h a = some h') :
    ∃ c c', h[a]? = some c ∧ Cell.transposed iv c = some c' ∧ h' = h.set a c' := by
  unfold transposeAt at e
  simp only [Option.map_eq_some_iff, Option.bind_eq_some_iff] at e
  obtain ⟨c', ⟨c, hc, hc'⟩, rfl⟩ := e
  exact ⟨c, c', hc, hc', rfl⟩

/-- the inner loop over an arbitrary list of addresses -/
theorem foldl_at (iv : Interval) : ∀ (l : List Nat) (h h' : Heap), l.foldlM (transposeAt iv) h = some h' →
    SameFrame h h' ∧ (∀ a, a ∉ l → h'[a]? = h[a]?) ∧
    (l.Nodup → ∀ a ∈ l, h'[a]? = h[a]?.bind (Cell.transposed iv)) := by
  intro l
  induction l with
  | nil =>
    intro h h' e
    simp only [List.foldlM_nil, Option.pure_def, Option.some.injEq] at e
    subst e
    exact ⟨SameFrame.refl _, fun _ _ => rfl, fun _ a ha => by simp at ha⟩
  | cons x l ih =>
    intro h h' e
    simp only [List.foldlM_cons, Option.bind_eq_bind, Option.bind_eq_some_iff] at e
    obtain ⟨h1, e1, e2⟩ := e
    obtain ⟨c, c', hc, hc', rfl⟩ := transposeAt_spec e1
    obtain ⟨f, g, k⟩ := ih _ _ e2
    have hx : x < h.length := by
      rcases Nat.lt_or_ge x h.length with hlt | hge
      · exact hlt
      · rw [List.getElem?_eq_none hge] at hc; cases hc
    have step : SameFrame h (h.set x c') := by
      refine ⟨by simp, fun a => ?_⟩
      rw [List.getElem?_set]
      by_cases hax : x = a
      · subst hax
        rw [hc]
        simp [hx, erase_transposed hc']
      · simp [hax]
    refine ⟨step.trans f, ?_, ?_⟩
    · intro a ha
      simp only [List.mem_cons, not_or] at ha
      rw [g a ha.2, List.getElem?_set]
      simp [Ne.symm ha.1]
    · intro nd a ha
      simp only [List.nodup_cons] at nd
      simp only [List.mem_cons] at ha
      rcases ha with rfl | ha
      · rw [g a nd.1, List.getElem?_set, hc]
        simp [hx, hc']
      · have hne : x ≠ a := fun e => nd.1 (e ▸ ha)
        rw [k nd.2 a ha, List.getElem?_set]
        simp [hne]

/-- the addresses the loops of `transpose` visit, in order, read off the heap BEFORE the loops -/
def targets (h : Heap) (ps : List Nat) : List Nat :=
  ps.flatMap fun (p : Nat) => match h[p]? with
    | some (Cell.part objs) => notesOf h objs
    | _ => []

theorem targets_sameFrame {h h' : Heap} (hf : SameFrame h h') (ps : List Nat) :
    targets h' ps = targets h ps := by
  unfold targets
  induction ps with
  | nil => rfl
  | cons p ps ihp =>
  rw [List.flatMap_cons, List.flatMap_cons, ihp]
  congr 1
  have := hf.2 p
  cases h2 : h[p]? with
  | none =>
    cases h1 : h'[p]? with
    | none => rfl
    | some c => simp [h1, h2] at this
  | some c =>
    cases h1 : h'[p]? with
    | none => simp [h1, h2] at this
    | some c' =>
      simp only [h1, h2, Option.map_some, Option.some.injEq] at this
      cases c with
      | part os =>
        have hc : c' = Cell.part os := part_of_erase (by simpa [erase] using this)
        subst hc
        exact notesOf_sameFrame hf os
      | score ps' =>
        have hc : c' = Cell.score ps' := score_of_erase (by simpa [erase] using this)
        subst hc
        rfl
      | note s a o rs p' =>
        cases c' <;> simp_all [erase]
      | other rs p' =>
        cases c' <;> simp_all [erase]

/-- the two nested loops -/
theorem foldl_parts (iv : Interval) : ∀ (ps : List Nat) (h h' : Heap), ps.foldlM (transposePart iv) h = some h' →
    SameFrame h h' ∧ (∀ a, a ∉ targets h ps → h'[a]? = h[a]?) ∧
    ((targets h ps).Nodup → ∀ a ∈ targets h ps, h'[a]? = h[a]?.bind (Cell.transposed iv)) := by
  intro ps
  induction ps with
  | nil =>
    intro h h' e
    simp only [List.foldlM_nil, Option.pure_def, Option.some.injEq] at e
    subst e
    exact ⟨SameFrame.refl _, fun _ _ => rfl, fun _ a ha => by simp [targets] at ha⟩
  | cons p ps ih =>
    intro h h' e
    simp only [List.foldlM_cons, Option.bind_eq_bind, Option.bind_eq_some_iff] at e
    obtain ⟨h1, e1, e2⟩ := e
    unfold transposePart at e1
    split at e1
    · rename_i objs hp
      obtain ⟨f1, g1, k1⟩ := foldl_at iv _ _ _ e1
      obtain ⟨f2, g2, k2⟩ := ih _ _ e2
      rw [targets_sameFrame f1] at g2 k2
      have ht : targets h (p :: ps) = notesOf h objs ++ targets h ps := by
        simp [targets, hp]
      rw [ht]
      refine ⟨f1.trans f2, ?_, ?_⟩
      · intro a ha
        simp only [List.mem_append, not_or] at ha
        rw [g2 a ha.2, g1 a ha.1]
      · intro nd a ha
        rw [List.nodup_append] at nd
        obtain ⟨nd1, nd2, dj⟩ := nd
        simp only [List.mem_append] at ha
        rcases ha with ha | ha
        · have : a ∉ targets h ps := fun hb => dj a ha a hb rfl
          rw [g2 a this, k1 nd1 a ha]
        · have : a ∉ notesOf h objs := fun hb => dj a hb a ha rfl
          rw [k2 nd2 a ha, g1 a this]
    · cases e1

/-! ### the copy -/

theorem copy_lo (h : Heap) (f : Cell → Cell) {a : Nat} (ha : a < h.length) : (h ++ h.map f)[a]? = h[a]? :=
  List.getElem?_append_left ha

theorem copy_hi (h : Heap) (f : Cell → Cell) (a : Nat) : (h ++ h.map f)[a + h.length]? = (h[a]?).map f := by
  rw [List.getElem?_append_right (by omega)]
  simp

theorem notesOf_copy (h : Heap) (objs : List Nat) :
    notesOf (h ++ h.map (Cell.shift h.length)) (objs.map (· + h.length)) = (notesOf h objs).map (· + h.length) := by
  unfold notesOf
  rw [List.filter_map]
  congr 1
  apply List.filter_congr
  intro a _
  simp only [Function.comp, copy_hi]
  cases h[a]? with
  | none => rfl
  | some c => simp [isNote_shift]

theorem listedParts_copy (h : Heap) (root : Nat) :
    listedParts (h ++ h.map (Cell.shift h.length)) (root + h.length) = (listedParts h root).map (· + h.length) := by
  unfold listedParts
  rw [copy_hi]
  cases h[root]? with
  | none => rfl
  | some c => cases c <;> simp [Cell.shift]

theorem uniqueParts_map (n : Nat) : ∀ (l seen : List Nat),
    uniqueParts (seen.map (· + n)) (l.map (· + n)) = (uniqueParts seen l).map (· + n)
  | [], _ => rfl
  | p :: ps, seen => by
    have hc : (seen.map (· + n)).contains (p + n) = seen.contains p := by
      induction seen with
      | nil => rfl
      | cons x xs ih =>
        simp only [List.map_cons, List.contains_cons, ih]
        have : (p + n == x + n) = (p == x) := by
          by_cases hpx : p = x
          · subst hpx; simp
          · have h2 : ¬ (p + n = x + n) := by omega
            rw [beq_eq_false_iff_ne.mpr hpx, beq_eq_false_iff_ne.mpr h2]
        rw [this]
    simp only [List.map_cons, uniqueParts, hc]
    split
    · exact uniqueParts_map n ps seen
    · rw [List.map_cons]
      congr 1
      exact uniqueParts_map n ps (p :: seen)

theorem mem_uniqueParts {p : Nat} : ∀ {l seen : List Nat}, p ∈ uniqueParts seen l ↔ p ∈ l ∧ p ∉ seen
  | [], _ => by simp [uniqueParts]
  | q :: qs, seen => by
    unfold uniqueParts
    split
    · rename_i hq
      have hq' : q ∈ seen := by simpa using hq
      rw [mem_uniqueParts]
      constructor
      · exact fun ⟨a, b⟩ => ⟨List.mem_cons_of_mem _ a, b⟩
      · rintro ⟨a, b⟩
        rcases List.mem_cons.mp a with rfl | a
        · exact absurd hq' b
        · exact ⟨a, b⟩
    · rename_i hq
      have hq' : q ∉ seen := by simpa using hq
      rw [List.mem_cons, mem_uniqueParts, List.mem_cons, List.mem_cons]
      constructor
      · rintro (rfl | ⟨a, b⟩)
        · exact ⟨Or.inl rfl, hq'⟩
        · exact ⟨Or.inr a, fun hs => b (Or.inr hs)⟩
      · rintro ⟨a | a, b⟩
        · exact Or.inl a
        · by_cases hpq : p = q
          · exact Or.inl hpq
          · exact Or.inr ⟨a, fun hs => hs.elim hpq b⟩

theorem nodup_uniqueParts : ∀ (l seen : List Nat), (uniqueParts seen l).Nodup
  | [], _ => List.nodup_nil
  | q :: qs, seen => by
    unfold uniqueParts
    split
    · exact nodup_uniqueParts qs seen
    · rw [List.nodup_cons]
      refine ⟨fun hm => ?_, nodup_uniqueParts qs (q :: seen)⟩
      exact (mem_uniqueParts.mp hm).2 (List.mem_cons_self)

theorem partsOf_copy (h : Heap) (root : Nat) :
    partsOf (h ++ h.map (Cell.shift h.length)) (root + h.length) = (partsOf h root).map (· + h.length) := by
  unfold partsOf
  rw [listedParts_copy]
  exact uniqueParts_map h.length _ []

theorem targets_copy (h : Heap) (ps : List Nat) :
    targets (h ++ h.map (Cell.shift h.length)) (ps.map (· + h.length)) = (targets h ps).map (· + h.length) := by
  induction ps with
  | nil => rfl
  | cons p ps ih =>
    unfold targets at ih ⊢
    rw [List.map_cons, List.flatMap_cons, List.flatMap_cons, List.map_append, ih, copy_hi]
    congr 1
    cases h[p]? with
    | none => rfl
    | some c =>
      cases c with
      | part os => simp only [Option.map_some, Cell.shift]; exact notesOf_copy h os
      | score ps' => rfl
      | note s a o rs p' => rfl
      | other rs p' => rfl

/-- what `transpose` returns, in terms of the loops over the copy -/
theorem transpose_unfold {h h' : Heap} {root r' : Nat} {iv : Interval} (e : transpose h root iv = some (h', r')) :
    r' = root + h.length ∧
    SameFrame (h ++ h.map (Cell.shift h.length)) h' ∧
    (∀ a, a ∉ (targets h (partsOf h root)).map (· + h.length) → h'[a]? = (h ++ h.map (Cell.shift h.length))[a]?) ∧
    ((targets h (partsOf h root)).Nodup → ∀ a ∈ targets h (partsOf h root),
      h'[a + h.length]? = (h[a]?.bind (Cell.transposed iv)).map (Cell.shift h.length)) := by
  unfold transpose deepcopy at e
  simp only [Option.map_eq_some_iff, Prod.mk.injEq] at e
  obtain ⟨h2, e2, rfl, rfl⟩ := e
  obtain ⟨f, g, k⟩ := foldl_parts iv _ _ _ e2
  rw [partsOf_copy, targets_copy] at g k
  refine ⟨rfl, f, g, ?_⟩
  intro nd a ha
  have nd' : ((targets h (partsOf h root)).map (· + h.length)).Nodup :=
    List.Pairwise.map _ (fun x y (hxy : x ≠ y) => by show x + h.length ≠ y + h.length; omega) nd
  rw [k nd' (a + h.length) (List.mem_map.mpr ⟨a, ha, rfl⟩), copy_hi]
  cases h[a]? with
  | none => rfl
  | some c => simp [transposed_shift]

/-! ### totality -/

theorem foldl_at_total (iv : Interval) : ∀ (l : List Nat) (h : Heap), l.Nodup →
    (∀ a ∈ l, (h[a]?.bind (Cell.transposed iv)).isSome) → (l.foldlM (transposeAt iv) h).isSome := by
  intro l
  induction l with
  | nil => intro h _ _; rfl
  | cons x l ih =>
    intro h nd ok
    simp only [List.nodup_cons] at nd
    obtain ⟨c', hc'⟩ := Option.isSome_iff_exists.mp (ok x (by simp))
    have e1 : transposeAt iv h x = some (h.set x c') := by simp [transposeAt, hc']
    simp only [List.foldlM_cons, Option.bind_eq_bind, e1, Option.bind_some]
    apply ih _ nd.2
    intro a ha
    have hne : x ≠ a := fun e => nd.1 (e ▸ ha)
    rw [List.getElem?_set]
    simp only [hne, if_false]
    exact ok a (by simp [ha])

theorem foldl_parts_total (iv : Interval) : ∀ (ps : List Nat) (h : Heap), (targets h ps).Nodup →
    (∀ p ∈ ps, ∃ os, h[p]? = some (Cell.part os)) →
    (∀ a ∈ targets h ps, (h[a]?.bind (Cell.transposed iv)).isSome) →
    (ps.foldlM (transposePart iv) h).isSome := by
  intro ps
  induction ps with
  | nil => intro h _ _ _; rfl
  | cons p ps ih =>
    intro h nd hp ok
    obtain ⟨os, hos⟩ := hp p (by simp)
    have ht : targets h (p :: ps) = notesOf h os ++ targets h ps := by
      simp [targets, hos]
    rw [ht] at nd ok
    rw [List.nodup_append] at nd
    obtain ⟨nd1, nd2, dj⟩ := nd
    obtain ⟨h1, e1⟩ := Option.isSome_iff_exists.mp
      (foldl_at_total iv _ h nd1 (fun a ha => ok a (List.mem_append_left _ ha)))
    have e1' : transposePart iv h p = some h1 := by simp [transposePart, hos, e1]
    simp only [List.foldlM_cons, Option.bind_eq_bind, e1', Option.bind_some]
    obtain ⟨f1, g1, -⟩ := foldl_at iv _ _ _ e1
    apply ih
    · rw [targets_sameFrame f1]; exact nd2
    · intro q hq
      obtain ⟨os', hq'⟩ := hp q (by simp [hq])
      exact ⟨os', part_sameFrame f1 hq'⟩
    · rw [targets_sameFrame f1]
      intro a ha
      have : a ∉ notesOf h os := fun hb => dj a hb a ha rfl
      rw [g1 a this]
      exact ok a (List.mem_append_right _ ha)

/-! ### the result as an argument of a second call -/

theorem partsOf_sameFrame {h h' : Heap} (hf : SameFrame h h') (r : Nat) : partsOf h' r = partsOf h r := by
  unfold partsOf
  congr 1
  unfold listedParts
  have := hf.2 r
  cases h2 : h[r]? with
  | none =>
    cases h1 : h'[r]? with
    | none => rfl
    | some c => simp [h1, h2] at this
  | some c =>
    cases h1 : h'[r]? with
    | none => simp [h1, h2] at this
    | some c' =>
      simp only [h1, h2, Option.map_some, Option.some.injEq] at this
      cases c with
      | part os =>
        have hc : c' = Cell.part os := part_of_erase (by simpa [erase] using this)
        subst hc
        rfl
      | score ps' =>
        have hc : c' = Cell.score ps' := score_of_erase (by simpa [erase] using this)
        subst hc
        rfl
      | note s a o rs p' => cases c' <;> simp_all [erase]
      | other rs p' => cases c' <;> simp_all [erase]

/-- the notes a second call on the result visits are the copies of the notes the first call visited -/
theorem targets_result {h h' : Heap} {root r' : Nat} {iv : Interval} (e : transpose h root iv = some (h', r')) :
    targets h' (partsOf h' r') = (targets h (partsOf h root)).map (· + h.length) := by
  obtain ⟨hr, f, -, -⟩ := transpose_unfold e
  rw [partsOf_sameFrame f, targets_sameFrame f, hr, partsOf_copy, targets_copy]

/-! ### a note that is listed several times (a part listed twice in a score, …): no `Nodup` anywhere -/

/-- `_transpose_note_inplace` applied `k` times to one object -/
def iterT (iv : Interval) : Nat → Cell → Option Cell
  | 0, c => some c
  | k + 1, c => (Cell.transposed iv c).bind (iterT iv k)

theorem iterT_add (iv : Interval) (m n : Nat) (c : Cell) :
    (iterT iv m c).bind (iterT iv n) = iterT iv (m + n) c := by
  induction m generalizing c with
  | zero => simp [iterT]
  | succ m ih =>
    have : m + 1 + n = (m + n) + 1 := by omega
    rw [this]
    simp only [iterT, Option.bind_assoc]
    congr 1
    funext x
    exact ih x

theorem iterT_shift (iv : Interval) (n : Nat) : ∀ (k : Nat) (c : Cell),
    iterT iv k (c.shift n) = (iterT iv k c).map (Cell.shift n)
  | 0, c => rfl
  | k + 1, c => by
    simp only [iterT, transposed_shift]
    cases Cell.transposed iv c with
    | none => rfl
    | some c' => simpa using iterT_shift iv n k c'

/-- the inner loop, for ANY list of addresses: the object at `a` is transposed as often as `a` is listed -/
theorem foldl_at_count (iv : Interval) : ∀ (l : List Nat) (h h' : Heap), l.foldlM (transposeAt iv) h = some h' →
    ∀ a, h'[a]? = h[a]?.bind (iterT iv (l.count a)) := by
  intro l
  induction l with
  | nil =>
    intro h h' e a
    simp only [List.foldlM_nil, Option.pure_def, Option.some.injEq] at e
    subst e
    cases h[a]? <;> simp [iterT]
  | cons x l ih =>
    intro h h' e a
    simp only [List.foldlM_cons, Option.bind_eq_bind, Option.bind_eq_some_iff] at e
    obtain ⟨h1, e1, e2⟩ := e
    obtain ⟨c, c', hc, hc', rfl⟩ := transposeAt_spec e1
    have hx : x < h.length := by
      rcases Nat.lt_or_ge x h.length with hlt | hge
      · exact hlt
      · rw [List.getElem?_eq_none hge] at hc; cases hc
    rw [ih _ _ e2 a, List.getElem?_set]
    by_cases hax : x = a
    · subst hax
      rw [hc]
      simp [hx, iterT, hc']
    · have : (x :: l).count a = l.count a := by
        rw [List.count_cons]; simp [hax]
      simp [hax, this]

/-- the two nested loops, for ANY list of parts -/
theorem foldl_parts_count (iv : Interval) : ∀ (ps : List Nat) (h h' : Heap),
    ps.foldlM (transposePart iv) h = some h' →
    ∀ a, h'[a]? = h[a]?.bind (iterT iv ((targets h ps).count a)) := by
  intro ps
  induction ps with
  | nil =>
    intro h h' e a
    simp only [List.foldlM_nil, Option.pure_def, Option.some.injEq] at e
    subst e
    cases h[a]? <;> simp [iterT, targets]
  | cons p ps ih =>
    intro h h' e a
    simp only [List.foldlM_cons, Option.bind_eq_bind, Option.bind_eq_some_iff] at e
    obtain ⟨h1, e1, e2⟩ := e
    unfold transposePart at e1
    split at e1
    · rename_i objs hp
      obtain ⟨f1, -, -⟩ := foldl_at iv _ _ _ e1
      have ht : targets h (p :: ps) = notesOf h objs ++ targets h ps := by
        simp [targets, hp]
      rw [ih _ _ e2 a, targets_sameFrame f1, foldl_at_count iv _ _ _ e1 a, ht, List.count_append,
        Option.bind_assoc]
      congr 1
      funext c
      exact iterT_add iv _ _ c
    · cases e1

theorem count_map_add (n a : Nat) (l : List Nat) : (l.map (· + n)).count (a + n) = l.count a := by
  induction l with
  | nil => rfl
  | cons x l ih =>
    simp only [List.map_cons, List.count_cons, ih]
    congr 1
    by_cases hxa : x = a
    · simp [hxa]
    · simp [hxa]

/-- `transpose`, for ANY argument: the copy of the object at `a` is `_transpose_note_inplace` applied to it as
    often as the loops list it -/
theorem transpose_count {h h' : Heap} {root r' : Nat} {iv : Interval} (e : transpose h root iv = some (h', r'))
    (a : Nat) :
    h'[a + h.length]? =
      (h[a]?.bind (iterT iv ((targets h (partsOf h root)).count a))).map (Cell.shift h.length) := by
  unfold transpose deepcopy at e
  simp only [Option.map_eq_some_iff, Prod.mk.injEq] at e
  obtain ⟨h2, e2, rfl, rfl⟩ := e
  rw [foldl_parts_count iv _ _ _ e2 (a + h.length), partsOf_copy, targets_copy, count_map_add, copy_hi]
  cases h[a]? with
  | none => rfl
  | some c => simp [iterT_shift]

/-! ### totality without `Nodup`: an invariant on the cells the loops touch -/

/-- every address of `T` holds a cell satisfying `G` -/
def AllGood (G : Cell → Prop) (T : List Nat) (h : Heap) : Prop := ∀ a ∈ T, ∃ c, h[a]? = some c ∧ G c

theorem foldl_at_good (iv : Interval) (G : Cell → Prop)
    (hG : ∀ c, G c → ∃ c', Cell.transposed iv c = some c' ∧ G c') (T : List Nat) :
    ∀ (l : List Nat) (h : Heap), (∀ a ∈ l, a ∈ T) → AllGood G T h →
      ∃ h', l.foldlM (transposeAt iv) h = some h' ∧ AllGood G T h' := by
  intro l
  induction l with
  | nil => intro h _ inv; exact ⟨h, rfl, inv⟩
  | cons x l ih =>
    intro h sub inv
    obtain ⟨c, hc, gc⟩ := inv x (sub x (by simp))
    obtain ⟨c', hc', gc'⟩ := hG c gc
    have hx : x < h.length := by
      rcases Nat.lt_or_ge x h.length with hlt | hge
      · exact hlt
      · rw [List.getElem?_eq_none hge] at hc; cases hc
    have e1 : transposeAt iv h x = some (h.set x c') := by simp [transposeAt, hc, hc']
    have inv' : AllGood G T (h.set x c') := by
      intro a ha
      rw [List.getElem?_set]
      by_cases hax : x = a
      · subst hax; exact ⟨c', by simp [hx], gc'⟩
      · simpa [hax] using inv a ha
    obtain ⟨h', e2, inv2⟩ := ih _ (fun a ha => sub a (by simp [ha])) inv'
    exact ⟨h', by simp only [List.foldlM_cons, Option.bind_eq_bind, e1, Option.bind_some, e2], inv2⟩

theorem foldl_parts_good (iv : Interval) (G : Cell → Prop)
    (hG : ∀ c, G c → ∃ c', Cell.transposed iv c = some c' ∧ G c') (T : List Nat) :
    ∀ (ps : List Nat) (h : Heap), (∀ p ∈ ps, ∃ os, h[p]? = some (Cell.part os)) →
      (∀ a ∈ targets h ps, a ∈ T) → AllGood G T h → (ps.foldlM (transposePart iv) h).isSome := by
  intro ps
  induction ps with
  | nil => intro h _ _ _; rfl
  | cons p ps ih =>
    intro h hp sub inv
    obtain ⟨os, hos⟩ := hp p (by simp)
    have ht : targets h (p :: ps) = notesOf h os ++ targets h ps := by
      simp [targets, hos]
    rw [ht] at sub
    obtain ⟨h1, e1, inv1⟩ := foldl_at_good iv G hG T _ h (fun a ha => sub a (List.mem_append_left _ ha)) inv
    have e1' : transposePart iv h p = some h1 := by simp [transposePart, hos, e1]
    simp only [List.foldlM_cons, Option.bind_eq_bind, e1', Option.bind_some]
    obtain ⟨f1, -, -⟩ := foldl_at iv _ _ _ e1
    apply ih _ _ _ inv1
    · intro q hq
      obtain ⟨os', hq'⟩ := hp q (by simp [hq])
      exact ⟨os', part_sameFrame f1 hq'⟩
    · rw [targets_sameFrame f1]
      exact fun a ha => sub a (List.mem_append_right _ ha)

/-! ### an interval that moves no note at all (it has no size) -/

theorem foldl_at_none (iv : Interval) (hN : ∀ c, Cell.transposed iv c = none) :
    ∀ (l : List Nat) (h h' : Heap), l.foldlM (transposeAt iv) h = some h' → l = [] ∧ h' = h := by
  intro l h h' e
  cases l with
  | nil => simpa using e.symm
  | cons x l =>
    simp only [List.foldlM_cons, Option.bind_eq_bind, Option.bind_eq_some_iff] at e
    obtain ⟨h1, e1, -⟩ := e
    obtain ⟨c, c', -, hc', -⟩ := transposeAt_spec e1
    rw [hN] at hc'
    cases hc'

theorem foldl_parts_none (iv : Interval) (hN : ∀ c, Cell.transposed iv c = none) :
    ∀ (ps : List Nat) (h h' : Heap), ps.foldlM (transposePart iv) h = some h' → targets h ps = [] ∧ h' = h := by
  intro ps
  induction ps with
  | nil =>
    intro h h' e
    simp only [List.foldlM_nil, Option.pure_def, Option.some.injEq] at e
    exact ⟨rfl, e.symm⟩
  | cons p ps ih =>
    intro h h' e
    simp only [List.foldlM_cons, Option.bind_eq_bind, Option.bind_eq_some_iff] at e
    obtain ⟨h1, e1, e2⟩ := e
    unfold transposePart at e1
    split at e1
    · rename_i objs hp
      obtain ⟨hn, q1⟩ := foldl_at_none iv hN _ _ _ e1
      subst q1
      obtain ⟨ht, q2⟩ := ih _ _ e2
      subst q2
      refine ⟨?_, rfl⟩
      have : targets h' (p :: ps) = notesOf h' objs ++ targets h' ps := by simp [targets, hp]
      rw [this, hn, ht]
      rfl
    · cases e1

/-! ### the loops run to the first raise (`runNotes`, `runParts`, `transposeRun`) -/

theorem runNotes_cons_some {iv : Interval} {a : Nat} {l : List Nat} {h h' : Heap}
    (e : transposeAt iv h a = some h') : runNotes iv (a :: l) h = runNotes iv l h' := by
  simp [runNotes, e]

theorem runNotes_cons_none {iv : Interval} {a : Nat} {l : List Nat} {h : Heap}
    (e : transposeAt iv h a = none) : runNotes iv (a :: l) h = (h, false) := by
  simp [runNotes, e]

theorem runParts_cons_part {iv : Interval} {p : Nat} {ps : List Nat} {h : Heap} {objs : List Nat}
    (hp : h[p]? = some (Cell.part objs)) :
    runParts iv (p :: ps) h =
      if (runNotes iv (notesOf h objs) h).2 then runParts iv ps (runNotes iv (notesOf h objs) h).1
      else runNotes iv (notesOf h objs) h := by
  simp [runParts, hp]

theorem runParts_cons_other {iv : Interval} {p : Nat} {ps : List Nat} {h : Heap}
    (hp : ∀ objs, h[p]? ≠ some (Cell.part objs)) : runParts iv (p :: ps) h = (h, false) := by
  unfold runParts
  split
  · rename_i objs hq; exact absurd hq (hp objs)
  · rfl

theorem transposePart_other {iv : Interval} {p : Nat} {h : Heap}
    (hp : ∀ objs, h[p]? ≠ some (Cell.part objs)) : transposePart iv h p = none := by
  unfold transposePart
  split
  · rename_i objs hq; exact absurd hq (hp objs)
  · rfl

theorem runNotes_agrees (iv : Interval) : ∀ (l : List Nat) (h : Heap),
    l.foldlM (transposeAt iv) h = (if (runNotes iv l h).2 then some (runNotes iv l h).1 else none)
  | [], h => rfl
  | a :: l, h => by
    cases e : transposeAt iv h a with
    | none => simp [runNotes_cons_none e, e]
    | some h' =>
      rw [runNotes_cons_some e]
      simpa [e] using runNotes_agrees iv l h'

theorem runParts_agrees (iv : Interval) : ∀ (ps : List Nat) (h : Heap),
    ps.foldlM (transposePart iv) h = (if (runParts iv ps h).2 then some (runParts iv ps h).1 else none)
  | [], h => rfl
  | p :: ps, h => by
    by_cases hp : ∃ objs, h[p]? = some (Cell.part objs)
    · obtain ⟨objs, hp⟩ := hp
      have e1 : transposePart iv h p = (notesOf h objs).foldlM (transposeAt iv) h := by
        simp [transposePart, hp]
      rw [runParts_cons_part hp, List.foldlM_cons, e1, runNotes_agrees]
      cases hr : (runNotes iv (notesOf h objs) h).2 with
      | false => simp [hr]
      | true => simpa [hr] using runParts_agrees iv ps _
    · have hp' : ∀ objs, h[p]? ≠ some (Cell.part objs) := fun objs hq => hp ⟨objs, hq⟩
      rw [runParts_cons_other hp', List.foldlM_cons, transposePart_other hp']
      rfl

/-- `transpose` is `transposeRun` with the heap forgotten when it raises -/
theorem transposeRun_agrees (h : Heap) (root : Nat) (iv : Interval) :
    transpose h root iv = (transposeRun h root iv).2.map fun r => ((transposeRun h root iv).1, r) := by
  unfold transpose transposeRun
  simp only
  rw [runParts_agrees]
  split <;> simp

/-- the inner loop, also when it stops early: frame and untouched cells -/
theorem runNotes_frame (iv : Interval) : ∀ (l : List Nat) (h : Heap),
    SameFrame h (runNotes iv l h).1 ∧ ∀ a, a ∉ l → (runNotes iv l h).1[a]? = h[a]?
  | [], h => ⟨SameFrame.refl _, fun _ _ => rfl⟩
  | x :: l, h => by
    cases e : transposeAt iv h x with
    | none => rw [runNotes_cons_none e]; exact ⟨SameFrame.refl _, fun _ _ => rfl⟩
    | some h' =>
      rw [runNotes_cons_some e]
      obtain ⟨f1, g1, -⟩ := foldl_at iv [x] h h' (by simp [e])
      obtain ⟨f2, g2⟩ := runNotes_frame iv l h'
      refine ⟨f1.trans f2, fun a ha => ?_⟩
      simp only [List.mem_cons, not_or] at ha
      rw [g2 a ha.2, g1 a (by simp [ha.1])]

theorem part_sameFrame_rev {h h' : Heap} (hf : SameFrame h h') {p : Nat} {os : List Nat}
    (hp : h'[p]? = some (.part os)) : h[p]? = some (.part os) := by
  have := hf.2 p
  rw [hp] at this
  cases h1 : h[p]? with
  | none => simp [h1] at this
  | some c =>
    simp only [h1, Option.map_some, Option.some.injEq] at this
    exact congrArg some (part_of_erase (by simpa [erase] using this.symm))

/-- the outer loop, also when it stops early: cells below `n` are untouched when every part reached lists only
    addresses from `n` on -/
theorem runParts_frame (iv : Interval) (n : Nat) : ∀ (ps : List Nat) (h : Heap),
    (∀ p ∈ ps, ∀ os, h[p]? = some (Cell.part os) → ∀ o ∈ os, n ≤ o) →
    ∀ a, a < n → (runParts iv ps h).1[a]? = h[a]?
  | [], _, _, _, _ => rfl
  | p :: ps, h, hyp, a, ha => by
    by_cases hp : ∃ objs, h[p]? = some (Cell.part objs)
    · obtain ⟨objs, hp⟩ := hp
      rw [runParts_cons_part hp]
      obtain ⟨f1, g1⟩ := runNotes_frame iv (notesOf h objs) h
      have hna : a ∉ notesOf h objs := by
        intro hm
        have := hyp p (by simp) objs hp a (List.mem_filter.mp hm).1
        omega
      split
      · rw [runParts_frame iv n ps _ ?_ a ha, g1 a hna]
        intro q hq os hos
        exact hyp q (by simp [hq]) os (part_sameFrame_rev f1 hos)
      · exact g1 a hna
    · rw [runParts_cons_other (fun objs hq => hp ⟨objs, hq⟩)]

/-- **whatever happens — the call returns or raises at any note — the cells of the argument are what they were** -/
theorem transposeRun_frame (h : Heap) (root : Nat) (iv : Interval) (a : Nat) (ha : a < h.length) :
    (transposeRun h root iv).1[a]? = h[a]? := by
  unfold transposeRun deepcopy
  simp only
  rw [runParts_frame iv h.length _ _ ?_ a ha, copy_lo h _ ha]
  rw [partsOf_copy]
  intro p hp os hos o ho
  obtain ⟨q, -, rfl⟩ := List.mem_map.mp hp
  rw [copy_hi] at hos
  cases hq : h[q]? with
  | none => simp [hq] at hos
  | some c =>
    cases c with
    | part os' =>
      simp only [hq, Option.map_some, Cell.shift, Option.some.injEq, Cell.part.injEq] at hos
      subst hos
      obtain ⟨o', -, rfl⟩ := List.mem_map.mp ho
      omega
    | score ps' => simp [hq, Cell.shift] at hos
    | note s al oc rs p' => simp [hq, Cell.shift] at hos
    | other rs p' => simp [hq, Cell.shift] at hos

end C16Heap
