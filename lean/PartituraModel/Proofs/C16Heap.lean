/-
Helper lemmas for Props/C16Heap.lean: the loops of `transpose` over a heap (Model/TransposeHeap.lean).
-/
import PartituraModel.Model.TransposeHeap

namespace C16Heap
open Model Model.TH

/-- a cell with its pitch fields blanked: "everything else" of an object -/
def erase : Cell → Cell
  | .note _ _ _ rs p => .note "" none 0 rs p
  | c => c

theorem erase_transposed {iv : Interval} {c c' : Cell} (h : Cell.transposed iv c = some c') :
    erase c' = erase c := by
  cases c with
  | note s a o rs p =>
    simp only [Cell.transposed, Option.map_eq_some_iff] at h
    obtain ⟨r, _, rfl⟩ := h
    rfl
  | score ps => simp [Cell.transposed] at h
  | part os => simp [Cell.transposed] at h
  | other rs p => simp [Cell.transposed] at h

theorem isNote_of_erase {c c' : Cell} (h : erase c = erase c') : c.isNote = c'.isNote := by
  cases c <;> cases c' <;> simp_all [erase, Cell.isNote]

theorem part_of_erase {c : Cell} {os : List Nat} (h : erase c = .part os) : c = .part os := by
  cases c <;> simp_all [erase]

theorem score_of_erase {c : Cell} {ps : List Nat} (h : erase c = .score ps) : c = .score ps := by
  cases c <;> simp_all [erase]

theorem erase_shift (k : Nat) (c : Cell) : erase (c.shift k) = (erase c).shift k := by
  cases c <;> rfl

theorem isNote_shift (k : Nat) (c : Cell) : (c.shift k).isNote = c.isNote := by
  cases c <;> rfl

theorem transposed_shift (iv : Interval) (k : Nat) (c : Cell) :
    Cell.transposed iv (c.shift k) = (Cell.transposed iv c).map (Cell.shift k) := by
  cases c with
  | note s a o rs p =>
    simp only [Cell.shift, Cell.transposed, Option.map_map]
    rfl
  | score ps => rfl
  | part os => rfl
  | other rs p => rfl

/-- heaps that agree on everything but pitch fields -/
def SameFrame (h h' : Heap) : Prop :=
  h'.length = h.length ∧ ∀ a : Nat, (h'[a]?).map erase = (h[a]?).map erase

theorem SameFrame.refl (h : Heap) : SameFrame h h := ⟨rfl, fun _ => rfl⟩

theorem SameFrame.trans {h1 h2 h3 : Heap} (a : SameFrame h1 h2) (b : SameFrame h2 h3) : SameFrame h1 h3 :=
  ⟨b.1.trans a.1, fun x => (b.2 x).trans (a.2 x)⟩

theorem notesOf_sameFrame {h h' : Heap} (hf : SameFrame h h') (objs : List Nat) :
    notesOf h' objs = notesOf h objs := by
  unfold notesOf
  apply List.filter_congr
  intro a _
  have := hf.2 a
  cases h1 : h'[a]? <;> cases h2 : h[a]? <;> simp_all
  exact isNote_of_erase this

theorem part_sameFrame {h h' : Heap} (hf : SameFrame h h') {p : Nat} {os : List Nat}
    (hp : h[p]? = some (.part os)) : h'[p]? = some (.part os) := by
  have := hf.2 p
  rw [hp] at this
  cases h1 : h'[p]? with
  | none => simp [h1] at this
  | some c =>
    simp only [h1, Option.map_some, Option.some.injEq] at this
    exact congrArg some (part_of_erase (by simpa [erase] using this))

theorem transposeAt_spec {iv : Interval} {h h' : Heap} {a : Nat} (e : transposeAt iv h a = some h') :
    ∃ c c', h[a]? = some c ∧ Cell.transposed iv c = some c' ∧ h' = h.set a c' := by
  unfold transposeAt at e
  simp only [Option.map_eq_some_iff, Option.bind_eq_some_iff] at e
  obtain ⟨c', ⟨c, hc, hc'⟩, rfl⟩ := e
  exact ⟨c, c', hc, hc', rfl⟩

/-- the inner loop over an arbitrary list of addresses -/
theorem foldl_at (iv : Interval) : ∀ (l : List Nat) (h h' : Heap), l.foldlM (transposeAt iv) h = some h' →
    SameFrame h h' ∧ (∀ a, a ∉ l → h'[a]? = h[a]?) ∧
    (l.Nodup → ∀ a ∈ l, h'[a]? = h[a]?.bind (Cell.transposed iv)) := by
  intro l
  induction l with
  | nil =>
    intro h h' e
    simp only [List.foldlM_nil, Option.pure_def, Option.some.injEq] at e
    subst e
    exact ⟨SameFrame.refl _, fun _ _ => rfl, fun _ a ha => by simp at ha⟩
  | cons x l ih =>
    intro h h' e
    simp only [List.foldlM_cons, Option.bind_eq_bind, Option.bind_eq_some_iff] at e
    obtain ⟨h1, e1, e2⟩ := e
    obtain ⟨c, c', hc, hc', rfl⟩ := transposeAt_spec e1
    obtain ⟨f, g, k⟩ := ih _ _ e2
    have hx : x < h.length := by
      rcases Nat.lt_or_ge x h.length with hlt | hge
      · exact hlt
      · rw [List.getElem?_eq_none hge] at hc; cases hc
    have step : SameFrame h (h.set x c') := by
      refine ⟨by simp, fun a => ?_⟩
      rw [List.getElem?_set]
      by_cases hax : x = a
      · subst hax
        rw [hc]
        simp [hx, erase_transposed hc']
      · simp [hax]
    refine ⟨step.trans f, ?_, ?_⟩
    · intro a ha
      simp only [List.mem_cons, not_or] at ha
      rw [g a ha.2, List.getElem?_set]
      simp [Ne.symm ha.1]
    · intro nd a ha
      simp only [List.nodup_cons] at nd
      simp only [List.mem_cons] at ha
      rcases ha with rfl | ha
      · rw [g a nd.1, List.getElem?_set, hc]
        simp [hx, hc']
      · have hne : x ≠ a := fun e => nd.1 (e ▸ ha)
        rw [k nd.2 a ha, List.getElem?_set]
        simp [hne]

/-- the addresses the loops of `transpose` visit, in order, read off the heap BEFORE the loops -/
def targets (h : Heap) (ps : List Nat) : List Nat :=
  ps.flatMap fun (p : Nat) => match h[p]? with
    | some (Cell.part objs) => notesOf h objs
    | _ => []

theorem targets_sameFrame {h h' : Heap} (hf : SameFrame h h') (ps : List Nat) :
    targets h' ps = targets h ps := by
  unfold targets
  induction ps with
  | nil => rfl
  | cons p ps ihp =>
  rw [List.flatMap_cons, List.flatMap_cons, ihp]
  congr 1
  have := hf.2 p
  cases h2 : h[p]? with
  | none =>
    cases h1 : h'[p]? with
    | none => rfl
    | some c => simp [h1, h2] at this
  | some c =>
    cases h1 : h'[p]? with
    | none => simp [h1, h2] at this
    | some c' =>
      simp only [h1, h2, Option.map_some, Option.some.injEq] at this
      cases c with
      | part os =>
        have hc : c' = Cell.part os := part_of_erase (by simpa [erase] using this)
        subst hc
        exact notesOf_sameFrame hf os
      | score ps' =>
        have hc : c' = Cell.score ps' := score_of_erase (by simpa [erase] using this)
        subst hc
        rfl
      | note s a o rs p' =>
        cases c' <;> simp_all [erase]
      | other rs p' =>
        cases c' <;> simp_all [erase]

/-- the two nested loops -/
theorem foldl_parts (iv : Interval) : ∀ (ps : List Nat) (h h' : Heap), ps.foldlM (transposePart iv) h = some h' →
    SameFrame h h' ∧ (∀ a, a ∉ targets h ps → h'[a]? = h[a]?) ∧
    ((targets h ps).Nodup → ∀ a ∈ targets h ps, h'[a]? = h[a]?.bind (Cell.transposed iv)) := by
  intro ps
  induction ps with
  | nil =>
    intro h h' e
    simp only [List.foldlM_nil, Option.pure_def, Option.some.injEq] at e
    subst e
    exact ⟨SameFrame.refl _, fun _ _ => rfl, fun _ a ha => by simp [targets] at ha⟩
  | cons p ps ih =>
    intro h h' e
    simp only [List.foldlM_cons, Option.bind_eq_bind, Option.bind_eq_some_iff] at e
    obtain ⟨h1, e1, e2⟩ := e
    unfold transposePart at e1
    split at e1
    · rename_i objs hp
      obtain ⟨f1, g1, k1⟩ := foldl_at iv _ _ _ e1
      obtain ⟨f2, g2, k2⟩ := ih _ _ e2
      rw [targets_sameFrame f1] at g2 k2
      have ht : targets h (p :: ps) = notesOf h objs ++ targets h ps := by
        simp [targets, hp]
      rw [ht]
      refine ⟨f1.trans f2, ?_, ?_⟩
      · intro a ha
        simp only [List.mem_append, not_or] at ha
        rw [g2 a ha.2, g1 a ha.1]
      · intro nd a ha
        rw [List.nodup_append] at nd
        obtain ⟨nd1, nd2, dj⟩ := nd
        simp only [List.mem_append] at ha
        rcases ha with ha | ha
        · have : a ∉ targets h ps := fun hb => dj a ha a hb rfl
          rw [g2 a this, k1 nd1 a ha]
        · have : a ∉ notesOf h objs := fun hb => dj a hb a ha rfl
          rw [k2 nd2 a ha, g1 a this]
    · cases e1

/-! ### the copy -/

theorem copy_lo (h : Heap) (f : Cell → Cell) {a : Nat} (ha : a < h.length) : (h ++ h.map f)[a]? = h[a]? :=
  List.getElem?_append_left ha

theorem copy_hi (h : Heap) (f : Cell → Cell) (a : Nat) : (h ++ h.map f)[a + h.length]? = (h[a]?).map f := by
  rw [List.getElem?_append_right (by omega)]
  simp

theorem notesOf_copy (h : Heap) (objs : List Nat) :
    notesOf (h ++ h.map (Cell.shift h.length)) (objs.map (· + h.length)) = (notesOf h objs).map (· + h.length) := by
  unfold notesOf
  rw [List.filter_map]
  congr 1
  apply List.filter_congr
  intro a _
  simp only [Function.comp, copy_hi]
  cases h[a]? with
  | none => rfl
  | some c => simp [isNote_shift]

theorem partsOf_copy (h : Heap) (root : Nat) :
    partsOf (h ++ h.map (Cell.shift h.length)) (root + h.length) = (partsOf h root).map (· + h.length) := by
  unfold partsOf
  rw [copy_hi]
  cases h[root]? with
  | none => rfl
  | some c => cases c <;> simp [Cell.shift]

theorem targets_copy (h : Heap) (ps : List Nat) :
    targets (h ++ h.map (Cell.shift h.length)) (ps.map (· + h.length)) = (targets h ps).map (· + h.length) := by
  induction ps with
  | nil => rfl
  | cons p ps ih =>
    unfold targets at ih ⊢
    rw [List.map_cons, List.flatMap_cons, List.flatMap_cons, List.map_append, ih, copy_hi]
    congr 1
    cases h[p]? with
    | none => rfl
    | some c =>
      cases c with
      | part os => simp only [Option.map_some, Cell.shift]; exact notesOf_copy h os
      | score ps' => rfl
      | note s a o rs p' => rfl
      | other rs p' => rfl

/-- what `transpose` returns, in terms of the loops over the copy -/
theorem transpose_unfold {h h' : Heap} {root r' : Nat} {iv : Interval} (e : transpose h root iv = some (h', r')) :
    r' = root + h.length ∧
    SameFrame (h ++ h.map (Cell.shift h.length)) h' ∧
    (∀ a, a ∉ (targets h (partsOf h root)).map (· + h.length) → h'[a]? = (h ++ h.map (Cell.shift h.length))[a]?) ∧
    ((targets h (partsOf h root)).Nodup → ∀ a ∈ targets h (partsOf h root),
      h'[a + h.length]? = (h[a]?.bind (Cell.transposed iv)).map (Cell.shift h.length)) := by
  unfold transpose deepcopy at e
  simp only [Option.map_eq_some_iff, Prod.mk.injEq] at e
  obtain ⟨h2, e2, rfl, rfl⟩ := e
  obtain ⟨f, g, k⟩ := foldl_parts iv _ _ _ e2
  rw [partsOf_copy, targets_copy] at g k
  refine ⟨rfl, f, g, ?_⟩
  intro nd a ha
  have nd' : ((targets h (partsOf h root)).map (· + h.length)).Nodup :=
    List.Pairwise.map _ (fun x y (hxy : x ≠ y) => by show x + h.length ≠ y + h.length; omega) nd
  rw [k nd' (a + h.length) (List.mem_map.mpr ⟨a, ha, rfl⟩), copy_hi]
  cases h[a]? with
  | none => rfl
  | some c => simp [transposed_shift]

/-! ### totality -/

theorem foldl_at_total (iv : Interval) : ∀ (l : List Nat) (h : Heap), l.Nodup →
    (∀ a ∈ l, (h[a]?.bind (Cell.transposed iv)).isSome) → (l.foldlM (transposeAt iv) h).isSome := by
  intro l
  induction l with
  | nil => intro h _ _; rfl
  | cons x l ih =>
    intro h nd ok
    simp only [List.nodup_cons] at nd
    obtain ⟨c', hc'⟩ := Option.isSome_iff_exists.mp (ok x (by simp))
    have e1 : transposeAt iv h x = some (h.set x c') := by simp [transposeAt, hc']
    simp only [List.foldlM_cons, Option.bind_eq_bind, e1, Option.bind_some]
    apply ih _ nd.2
    intro a ha
    have hne : x ≠ a := fun e => nd.1 (e ▸ ha)
    rw [List.getElem?_set]
    simp only [hne, if_false]
    exact ok a (by simp [ha])

theorem foldl_parts_total (iv : Interval) : ∀ (ps : List Nat) (h : Heap), (targets h ps).Nodup →
    (∀ p ∈ ps, ∃ os, h[p]? = some (Cell.part os)) →
    (∀ a ∈ targets h ps, (h[a]?.bind (Cell.transposed iv)).isSome) →
    (ps.foldlM (transposePart iv) h).isSome := by
  intro ps
  induction ps with
  | nil => intro h _ _ _; rfl
  | cons p ps ih =>
    intro h nd hp ok
    obtain ⟨os, hos⟩ := hp p (by simp)
    have ht : targets h (p :: ps) = notesOf h os ++ targets h ps := by
      simp [targets, hos]
    rw [ht] at nd ok
    rw [List.nodup_append] at nd
    obtain ⟨nd1, nd2, dj⟩ := nd
    obtain ⟨h1, e1⟩ := Option.isSome_iff_exists.mp
      (foldl_at_total iv _ h nd1 (fun a ha => ok a (List.mem_append_left _ ha)))
    have e1' : transposePart iv h p = some h1 := by simp [transposePart, hos, e1]
    simp only [List.foldlM_cons, Option.bind_eq_bind, e1', Option.bind_some]
    obtain ⟨f1, g1, -⟩ := foldl_at iv _ _ _ e1
    apply ih
    · rw [targets_sameFrame f1]; exact nd2
    · intro q hq
      obtain ⟨os', hq'⟩ := hp q (by simp [hq])
      exact ⟨os', part_sameFrame f1 hq'⟩
    · rw [targets_sameFrame f1]
      intro a ha
      have : a ∉ notesOf h os := fun hb => dj a hb a ha rfl
      rw [g1 a this]
      exact ok a (List.mem_append_right _ ha)

/-! ### the result as an argument of a second call -/

theorem partsOf_sameFrame {h h' : Heap} (hf : SameFrame h h') (r : Nat) : partsOf h' r = partsOf h r := by
  unfold partsOf
  have := hf.2 r
  cases h2 : h[r]? with
  | none =>
    cases h1 : h'[r]? with
    | none => rfl
    | some c => simp [h1, h2] at this
  | some c =>
    cases h1 : h'[r]? with
    | none => simp [h1, h2] at this
    | some c' =>
      simp only [h1, h2, Option.map_some, Option.some.injEq] at this
      cases c with
      | part os =>
        have hc : c' = Cell.part os := part_of_erase (by simpa [erase] using this)
        subst hc
        rfl
      | score ps' =>
        have hc : c' = Cell.score ps' := score_of_erase (by simpa [erase] using this)
        subst hc
        rfl
      | note s a o rs p' => cases c' <;> simp_all [erase]
      | other rs p' => cases c' <;> simp_all [erase]

/-- the notes a second call on the result visits are the copies of the notes the first call visited -/
theorem targets_result {h h' : Heap} {root r' : Nat} {iv : Interval} (e : transpose h root iv = some (h', r')) :
    targets h' (partsOf h' r') = (targets h (partsOf h root)).map (· + h.length) := by
  obtain ⟨hr, f, -, -⟩ := transpose_unfold e
  rw [partsOf_sameFrame f, targets_sameFrame f, hr, partsOf_copy, targets_copy]

end C16Heap
