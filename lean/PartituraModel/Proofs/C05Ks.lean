/-
Helper lemmas for C05, round 5: the key-signature columns (`ks_fifths`, `ks_mode`) through `note_array_to_score`
(repaired, fixes/C05-10) and back through `key_signature_map` of the created part.
-/
import PartituraModel.Proofs.C05Ts

namespace NoteArray
open List Model

theorem allSomeL_spec {β : Type} : ∀ (l : List (Int × Option β)) (out : List (Int × β)),
    allSomeL l = some out → l = out.map fun p => (p.1, some p.2) := by
  intro l
  induction l with
  | nil => intro out h; simp [allSomeL] at h; subst h; rfl
  | cons e l ih =>
    intro out h
    obtain ⟨t, v⟩ := e
    cases v with
    | none => simp [allSomeL] at h
    | some v =>
      simp only [allSomeL, Option.map_eq_some_iff] at h
      obtain ⟨o', ho', rfl⟩ := h
      rw [ih o' ho']
      simp

/-- reading a table whose values were all defined -/
theorem lastLE_of_allSome {β γ : Type} (g : β → Option γ) (T : StepMap.Tbl β) (out : StepMap.Tbl γ)
    (h : allSomeL (T.map fun p => (p.1, g p.2)) = some out) (x : Int) (v : β)
    (hv : StepMap.lastLE T x = some v) : ∃ w, g v = some w ∧ StepMap.lastLE out x = some w := by
  have hs := allSomeL_spec _ _ h
  have h1 := lastLE_map g T x
  have h2 := lastLE_map (fun w : γ => some w) out x
  rw [hs] at h1
  rw [h1] at h2
  rw [hv] at h2
  cases ho : StepMap.lastLE out x with
  | none => rw [ho] at h2; simp at h2
  | some w =>
    rw [ho] at h2
    simp only [Option.map_some, Option.some.injEq] at h2
    exact ⟨w, h2, rfl⟩

/-- valid key-signature columns: rows with the same onset carry the same key, fifths in -7..7, mode 1 or -1 -/
def KsColumnsOK (a : List ARow) : Prop :=
  (∀ r ∈ a, ∀ r' ∈ a, r.onsetDiv = r'.onsetDiv → (r.ksFifths, r.ksMode) = (r'.ksFifths, r'.ksMode)) ∧
  ∀ r ∈ a, -7 ≤ r.ksFifths ∧ r.ksFifths ≤ 7 ∧ (r.ksMode = 1 ∨ r.ksMode = -1)

theorem keyIntToMode_ok (m : Int) (h : m = 1 ∨ m = -1) : ∃ md, keyIntToMode m = some md ∧ keyModeToInt md = m := by
  rcases h with rfl | rfl
  · exact ⟨.major, by decide, rfl⟩
  · exact ⟨.minor, by decide, rfl⟩

/-- a valid row has a key name, and `create_part` reads the row's key back from it (C12 `key_bijection`) -/
theorem keyNameOf_ok (r : ARow) (h1 : -7 ≤ r.ksFifths) (h2 : r.ksFifths ≤ 7) (h3 : r.ksMode = 1 ∨ r.ksMode = -1) :
    ∃ name md, keyNameOf r = some name ∧ keyNameToFifthsMode name = some (r.ksFifths, md) ∧
      keyModeToInt md = r.ksMode := by
  obtain ⟨md, hmd, hback⟩ := keyIntToMode_ok r.ksMode h3
  obtain ⟨hsome, hbij⟩ := C12.key_bijection r.ksFifths h1 h2 md
  obtain ⟨name, hname⟩ := Option.isSome_iff_exists.mp hsome
  refine ⟨name, md, ?_, ?_, hback⟩
  · unfold keyNameOf; rw [hmd]; exact hname
  · rw [hname] at hbij; exact hbij

/-- the key-signature map of a part whose key signatures start at time 0 is "previous" interpolation in the list -/
theorem ksMap_lastLE (ks : List (Int × (Int × Mode))) (last x : Int) (hne : ks ≠ [])
    (h0 : ∀ e ∈ ks.head?, e.1 = 0) (hx : 0 ≤ x) :
    StepMap.ksMap (some (0, last)) (ks.map fun p => (p.1, p.2.1, p.2.2)) x =
      (StepMap.lastLE ks x).map fun v => (v.1, keyModeToInt v.2) := by
  unfold StepMap.ksMap StepMap.ksTable StepMap.ksRows
  rw [map_map, ← lastLE_map]
  have hx' : ¬ x < 0 := by omega
  cases ks with
  | nil => exact absurd rfl hne
  | cons e rest =>
    have he : e.1 = 0 := h0 e (by simp)
    cases rest with
    | nil => simp [StepMap.backfill, StepMap.interpPrev, StepMap.lastLE, he, hx']
    | cons e2 rest2 =>
      simp only [map_cons, StepMap.backfill, StepMap.interpPrev, he, Int.lt_irrefl, ↓reduceIte, Function.comp_def]

theorem createdDesc_ks (d : Nat) (ts : Option (List (Int × (Int × Int)))) (ks : List (Int × (Int × Mode)))
    (ms : List (Int × Int)) (last x : Int) (hne : ks ≠ []) (h0 : ∀ e ∈ ks.head?, e.1 = 0) (hx : 0 ≤ x) :
    (createdDesc d ts (ks.map fun p => (p.1, p.2.1, p.2.2)) ms last).ks x =
      (StepMap.lastLE ks x).map fun v => (v.1, keyModeToInt v.2) := by
  unfold Desc.ks
  rw [createdDesc_span]
  exact ksMap_lastLE ks last x hne h0 hx

theorem maps_ks_on (desc : Desc) (t : Int) : (desc.maps xOpts).ks t = (desc.ks t).getD (0, 0) := rfl

theorem keyNameOf_congr (r r' : ARow) (h : (r.ksFifths, r.ksMode) = (r'.ksFifths, r'.ksMode)) :
    keyNameOf r = keyNameOf r' := by
  simp only [Prod.mk.injEq] at h
  unfold keyNameOf
  rw [h.1, h.2]

/-- what `invKeySigs` computed when it succeeds on an array with key columns -/
theorem invKeySigs_ok (sa : List ARow) (l : List (Int × Int × Int)) (kss : List (Int × Int × Mode))
    (h : invKeySigs true sa l = some kss) :
    ∃ names ks', allSomeL (onsetsWith keyNameOf sa l) = some names ∧
      allSomeL ((firstAtZero (changes names)).map fun p => (p.1, keyNameToFifthsMode p.2)) = some ks' ∧
      kss = ks'.map fun p => (p.1, p.2.1, p.2.2) := by
  unfold invKeySigs at h
  simp only [Bool.not_true, Bool.false_eq_true, ↓reduceIte] at h
  cases hn : allSomeL (onsetsWith keyNameOf sa l) with
  | none => rw [hn] at h; cases h
  | some names =>
    rw [hn] at h
    simp only [Option.map_eq_some_iff] at h
    obtain ⟨ks', hks', rfl⟩ := h
    exact ⟨names, ks', rfl, hks', rfl⟩

/-- the created part states, at the onset of every row of the (sorted) array, the key that row carries -/
theorem created_ks_at_row (a : List ARow) (hok : KsColumnsOK a) (hnn : ∀ r ∈ a, 0 ≤ r.onsetDiv)
    (kss : List (Int × Int × Mode))
    (hks : invKeySigs true (sortArr true a) ((sortArr true a).map divTriple) = some kss)
    (d : Nat) (ts : Option (List (Int × (Int × Int)))) (ms : List (Int × Int)) (last : Int) :
    ∀ r ∈ sortArr true a, (createdDesc d ts kss ms last).ks r.onsetDiv = some (r.ksFifths, r.ksMode) := by
  obtain ⟨names, ks', hnames, hks', rfl⟩ := invKeySigs_ok _ _ _ hks
  have hcol := allSomeL_spec _ _ hnames
  rw [onsetsWith_map] at hcol
  -- rows of `names` and rows of the array
  have hmem : ∀ p, p ∈ names ↔ ∃ r ∈ sortArr true a, r.onsetDiv = p.1 ∧ keyNameOf r = some p.2 := by
    intro p
    constructor
    · intro hp
      have : (p.1, some p.2) ∈ (sortArr true a).map fun r => (r.onsetDiv, keyNameOf r) := by
        rw [hcol]; exact mem_map.mpr ⟨p, hp, rfl⟩
      obtain ⟨r, hr, he⟩ := mem_map.mp this
      simp only [Prod.mk.injEq] at he
      exact ⟨r, hr, he.1, he.2⟩
    · rintro ⟨r, hr, h1, h2⟩
      have : (r.onsetDiv, keyNameOf r) ∈ names.map fun p => (p.1, some p.2) := by
        rw [← hcol]; exact mem_map.mpr ⟨r, hr, rfl⟩
      obtain ⟨q, hq, he⟩ := mem_map.mp this
      simp only [Prod.mk.injEq] at he
      have : q = p := by
        apply Prod.ext
        · rw [he.1, h1]
        · have := he.2.trans h2
          simpa using this
      rw [← this]; exact hq
  have hfst : names.map (·.1) = (sortArr true a).map (·.onsetDiv) := by
    have := congrArg (fun l => l.map (fun p : Int × Option String => p.1)) hcol
    simp only [map_map] at this
    exact this.symm
  have hsorted : OnsetSorted names := by
    unfold OnsetSorted
    have h1 : (names.map (·.1)).Pairwise (· ≤ ·) := by
      rw [hfst, pairwise_map]; exact sortArr_sorted a
    exact (pairwise_map.mp h1)
  have hcons : Consistent names := by
    intro p hp q hq hpq
    obtain ⟨r, hr, h1, h2⟩ := (hmem p).mp hp
    obtain ⟨r', hr', h1', h2'⟩ := (hmem q).mp hq
    have hra := (sortArr_perm true a).mem_iff.mp hr
    have hra' := (sortArr_perm true a).mem_iff.mp hr'
    have := keyNameOf_congr r r' (hok.1 r hra r' hra' (by omega))
    rw [h2, h2'] at this
    simpa using this
  have hnn' : ∀ p ∈ names, 0 ≤ p.1 := by
    intro p hp
    obtain ⟨r, hr, h1, _⟩ := (hmem p).mp hp
    have := hnn r ((sortArr_perm true a).mem_iff.mp hr)
    omega
  intro r hr
  have hra := (sortArr_perm true a).mem_iff.mp hr
  obtain ⟨h1, h2, h3⟩ := hok.2 r hra
  obtain ⟨nm, md, hnm, hback, hmode⟩ := keyNameOf_ok r h1 h2 h3
  have hp : (r.onsetDiv, nm) ∈ names := (hmem (r.onsetDiv, nm)).mpr ⟨r, hr, rfl, hnm⟩
  have hL := lastLE_changes_at_row names hsorted hcons hnn' _ hp
  obtain ⟨w, hw, hL'⟩ := lastLE_of_allSome keyNameToFifthsMode _ ks' hks' r.onsetDiv nm hL
  rw [hback] at hw
  have hne : ks' ≠ [] ∧ ∀ e ∈ ks'.head?, e.1 = 0 := by
    have hs := allSomeL_spec _ _ hks'
    cases hn : names with
    | nil => rw [hn] at hp; simp at hp
    | cons p0 rest =>
      rw [hn, changes_cons] at hs
      simp only [firstAtZero, map_cons] at hs
      cases hk : ks' with
      | nil => rw [hk] at hs; simp at hs
      | cons e rest' =>
        rw [hk] at hs
        simp only [map_cons, cons.injEq, Prod.mk.injEq] at hs
        exact ⟨by simp, by intro e' he'; simp at he'; rw [← he']; exact hs.1.1.symm⟩
  rw [createdDesc_ks d ts ks' ms last r.onsetDiv hne.1 hne.2 (hnn r hra), hL']
  simp only [Option.map_some, Option.some.injEq]
  have hw' : w = (r.ksFifths, md) := by simpa using hw.symm
  rw [hw']
  simp [hmode]

/-- arrays with division and key-signature columns: the table of the part `note_array_to_score` makes holds, for every
    row of the array, its onset, duration, pitch AND its key signature -/
theorem fromArrayX_ks_back (hb ht : Bool) (a : List ARow) (dv : Option Nat) (tsl : List (Int × Int × Int))
    (est san : Bool) (x : XOut) (h : fromArrayX hb true ht true a dv tsl est san = .ok x) (hok : KsColumnsOK a) :
    x.rows.map (fun r => (r.onsetDiv, r.durDiv, r.pitch, r.ksFifths, r.ksMode))
      ~ a.map (fun r => (r.onsetDiv, r.durDiv, r.pitch, r.ksFifths, r.ksMode)) := by
  obtain ⟨d, l, kss, ms, hfa, hks, _, _, _, _, _, hrows⟩ := fromArrayX_ok _ _ _ _ _ _ _ _ _ _ h
  have hl := fromArray_div_eq hb ht a dv d l hfa
  have hnn : ∀ r ∈ a, 0 ≤ r.onsetDiv := by
    intro r hr
    obtain ⟨hperm, hpos⟩ := fromArray_div hb ht a dv d l hfa
    exact (hpos (divTriple r) (hperm.mem_iff.mpr (mem_map_of_mem hr))).1
  rw [hl] at hks
  generalize invTimeSigs true ht (sortArr true a) l d tsl est = ts at hrows
  generalize xLast ts kss _ _ = last at hrows
  rw [hl] at hrows
  have hrows' := rowsC_rows _ _ _ _ hrows
  rw [createdDesc_part] at hrows'
  have hP := rows_createPart_cols d ((sortArr true a).map divTriple) _ dummySpell xOpts x.rows
    (fun y _ => dummySpell_keeps y.2.2) hrows'
  have hP2 := hP.map (fun c : (Int × Int × Int) × (Int × Int × Int) × (Int × Int) =>
    (c.1.1, c.1.2.1, c.1.2.2, c.2.2.1, c.2.2.2))
  rw [map_map, map_map, map_map] at hP2
  refine (hP2.trans (Perm.of_eq ?_)).trans ((sortArr_perm true a).map _)
  apply map_congr_left
  intro r hr
  have hk := created_ks_at_row a hok hnn kss hks d ts ms last r hr
  simp only [Function.comp, divTriple, maps_ks_on]
  rw [hk]
  rfl

end NoteArray
