/-
C18 (round 6) — lemmas about Model/CodecAl.lean: alignments of any form.
-/
import PartituraModel.Model.CodecAl
import PartituraModel.Proofs.C18Match

namespace C18P
open Model Model.Codec

-- ------------------------------------------------------------------ the in-place rewriting

theorem normaliseIds_length (al : List AEntry) : (normaliseIds al).1.length = al.length := by
  induction al with
  | nil => rfl
  | cons a rest ih =>
    unfold normaliseIds
    cases hl : a.label with
    | none => simp
    | some l =>
      by_cases hm : l = "match"
      · cases hs : a.sid with
        | none => simp [hm]
        | some v => simp [hm, ih]
      · simp [hm, ih]

theorem normaliseIds_idem (al : List AEntry) : normaliseIds (normaliseIds al).1 = normaliseIds al := by
  induction al with
  | nil => rfl
  | cons a rest ih =>
    cases hl : a.label with
    | none =>
      have e : normaliseIds (a :: rest) = (a :: rest, false) := by rw [normaliseIds]; simp [hl]
      rw [e]; exact e
    | some l =>
      by_cases hm : l = "match"
      · cases hs : a.sid with
        | none =>
          have e : normaliseIds (a :: rest) = (a :: rest, false) := by rw [normaliseIds]; simp [hl, hm, hs]
          rw [e]; exact e
        | some v =>
          have e : normaliseIds (a :: rest)
              = ({ a with sid := some (.str (pyStr v)) } :: (normaliseIds rest).1, (normaliseIds rest).2) := by
            rw [normaliseIds]; simp [hl, hm, hs]
          rw [e]
          simp only
          rw [normaliseIds]
          simp only [hl, hm, if_true, pyStr, ih]
      · have e : normaliseIds (a :: rest) = (a :: (normaliseIds rest).1, (normaliseIds rest).2) := by
          rw [normaliseIds]; simp [hl, hm]
        rw [e]
        simp only
        rw [normaliseIds]
        simp only [hl, hm, if_false, ih]

/-- what the rewriting does to an entry -/
def Rewritten (a b : AEntry) : Prop :=
  b.label = a.label ∧ b.pid = a.pid ∧
    (b.sid = a.sid ∨ (a.label = some "match" ∧ ∃ v, a.sid = some v ∧ b.sid = some (.str (pyStr v))))

theorem normaliseIds_spec (al : List AEntry) : List.Forall₂ Rewritten al (normaliseIds al).1 := by
  have hrefl : ∀ l : List AEntry, List.Forall₂ Rewritten l l := by
    intro l
    exact List.forall₂_same.mpr (fun a _ => ⟨rfl, rfl, Or.inl rfl⟩)
  induction al with
  | nil => exact List.Forall₂.nil
  | cons a rest ih =>
    unfold normaliseIds
    cases hl : a.label with
    | none => exact hrefl _
    | some l =>
      by_cases hm : l = "match"
      · cases hs : a.sid with
        | none => simp only [hm, if_true]; exact hrefl _
        | some v =>
          simp only [hm, if_true]
          refine List.Forall₂.cons ⟨by simp [hl, hm], rfl, Or.inr ⟨?_, v, hs, rfl⟩⟩ ih
          rw [hl, hm]
      · simp only [hm, if_false]
        exact List.Forall₂.cons ⟨rfl, rfl, Or.inl rfl⟩ ih

/-- the loop runs to the end exactly when every entry is labelled and every match has a score id -/
theorem normaliseIds_ok_iff (al : List AEntry) :
    (normaliseIds al).2 = true ↔ ∀ a ∈ al, ∃ l, a.label = some l ∧ (l = "match" → a.sid.isSome) := by
  induction al with
  | nil => simp [normaliseIds]
  | cons a rest ih =>
    unfold normaliseIds
    cases hl : a.label with
    | none =>
      simp only [Bool.false_eq_true, false_iff]
      intro h
      obtain ⟨l, h1, _⟩ := h a (by simp)
      rw [hl] at h1; cases h1
    | some l =>
      by_cases hm : l = "match"
      · cases hs : a.sid with
        | none =>
          simp only [hm, if_true, Bool.false_eq_true, false_iff]
          intro h
          obtain ⟨l', h1, h2⟩ := h a (by simp)
          rw [hl] at h1
          have : l' = "match" := by cases h1; exact hm
          have := h2 this
          rw [hs] at this; cases this
        | some v =>
          simp only [hm, if_true, ih, List.mem_cons, forall_eq_or_imp]
          constructor
          · intro h; exact ⟨⟨"match", by rw [hl, hm], fun _ => by rw [hs]; rfl⟩, h⟩
          · intro h; exact h.2
      · simp only [hm, if_false, ih, List.mem_cons, forall_eq_or_imp]
        constructor
        · intro h; exact ⟨⟨l, hl, fun h' => absurd h' hm⟩, h⟩
        · intro h; exact h.2

/-- an alignment with string ids is left as it is -/
theorem normaliseIds_ofARow (al : List ARow) : (normaliseIds (al.map ofARow)).1 = al.map ofARow := by
  induction al with
  | nil => rfl
  | cons a rest ih =>
    obtain ⟨l, s, p⟩ := a
    rw [List.map_cons, normaliseIds]
    by_cases hm : l = "match"
    · cases s with
      | none => simp [ofARow, hm]
      | some s => simp [ofARow, hm, pyStr, ih]
    · simp [ofARow, hm, ih]

-- ------------------------------------------------------------------ to_matched_score

/-- the pairs `to_matched_score` forms on an alignment of any form are the pairs of Model/Codec.lean on the
    alignment read through `flatS` -/
theorem notePairsA_flatS (ss : List SRow) (ps : List PRow) (al : List AEntry) (hlab : ∀ a ∈ al, a.label.isSome) :
    (if (normaliseIds al).2 then notePairsA ss ps (normaliseIds al).1 else none)
      = notePairs ss ps (al.map flatS) := by
  induction al with
  | nil => simp [normaliseIds, notePairsA, notePairs]
  | cons a rest ih =>
    have ih' := ih (fun b hb => hlab b (by simp [hb]))
    obtain ⟨l, hl⟩ := Option.isSome_iff_exists.mp (hlab a (by simp))
    rw [List.map_cons, notePairs]
    by_cases hm : l = "match"
    · cases hs : a.sid with
      | none =>
        have e : normaliseIds (a :: rest) = (a :: rest, false) := by rw [normaliseIds]; simp [hl, hm, hs]
        rw [e]
        cases notePairs ss ps (rest.map flatS) <;> simp [flatS, hl, hm, hs]
      | some v =>
        have e : normaliseIds (a :: rest)
            = ({ a with sid := some (.str (pyStr v)) } :: (normaliseIds rest).1, (normaliseIds rest).2) := by
          rw [normaliseIds]; simp [hl, hm, hs]
        rw [e, ← ih']
        simp only
        rw [notePairsA]
        simp only [hl, hm, if_true, flatS, hs, Option.map_some, Option.getD_some]
        cases hr : (normaliseIds rest).2 with
        | false => simp
        | true =>
          simp only [if_true]
          cases hn : notePairsA ss ps (normaliseIds rest).1 with
          | none =>
            cases sIndex ss (pyStr v) with
            | none => simp
            | some i =>
              simp only
              cases hp : a.pid with
              | none => simp
              | some pv =>
                cases pv with
                | str p => cases hpi : pIndex ps p <;> simp [hpi]
                | int n => simp
                | none => simp
          | some tl =>
            cases sIndex ss (pyStr v) with
            | none => simp
            | some i =>
              simp only
              cases hp : a.pid with
              | none => simp
              | some pv =>
                cases pv with
                | str p => cases hpi : pIndex ps p <;> simp [hpi]
                | int n => simp
                | none => simp
    · have e : normaliseIds (a :: rest) = (a :: (normaliseIds rest).1, (normaliseIds rest).2) := by
        rw [normaliseIds]; simp [hl, hm]
      rw [e, ← ih']
      simp only
      rw [notePairsA]
      simp only [hl, hm, if_false, flatS, Option.getD_some]
      cases (normaliseIds rest).2 with
      | false => simp
      | true =>
        simp only [if_true]
        cases notePairsA ss ps (normaliseIds rest).1 <;> simp

theorem toMatchedScore_eq_bind (ss : List SRow) (ps : List PRow) (al : List ARow) :
    toMatchedScore ss ps al = (notePairs ss ps al).bind fun l =>
      allSome ((isort (fun a b => lexLe (sKey ss a.1) (sKey ss b.1)) l).map (mkRow ss ps)) := by
  unfold toMatchedScore matchedPairs
  cases notePairs ss ps al <;> rfl

theorem toMatchedScoreA_snd (ss : List SRow) (ps : List PRow) (al : List AEntry) :
    (toMatchedScoreA ss ps al).2 = (normaliseIds al).1 := by
  unfold toMatchedScoreA
  simp only
  split <;> rfl

theorem toMatchedScoreA_fst (ss : List SRow) (ps : List PRow) (al : List AEntry) (hlab : ∀ a ∈ al, a.label.isSome) :
    (toMatchedScoreA ss ps al).1 = toMatchedScore ss ps (al.map flatS) := by
  rw [toMatchedScore_eq_bind, ← notePairsA_flatS ss ps al hlab]
  unfold toMatchedScoreA
  simp only
  cases (normaliseIds al).2 <;> simp

/-- without a label somewhere the call raises -/
theorem toMatchedScoreA_unlabelled (ss : List SRow) (ps : List PRow) (al : List AEntry)
    (h : ∃ a ∈ al, a.label = none) : (toMatchedScoreA ss ps al).1 = none := by
  unfold toMatchedScoreA
  simp only
  cases hok : (normaliseIds al).2 with
  | false => simp
  | true =>
    obtain ⟨a, ha, hn⟩ := h
    obtain ⟨l, hl, _⟩ := (normaliseIds_ok_iff al).mp hok a ha
    rw [hn] at hl; cases hl

theorem flatS_ofARow (a : ARow) : flatS (ofARow a) = a := by
  obtain ⟨l, s, p⟩ := a
  cases s <;> cases p <;> simp [flatS, ofARow, pyStr]

theorem flatP_ofARow (a : ARow) : flatP (ofARow a) = a := by
  obtain ⟨l, s, p⟩ := a
  cases s <;> cases p <;> simp [flatP, ofARow, pyStr]

-- ------------------------------------------------------------------ get_matched_notes

theorem matchedNotes_cons (ss : List SRow) (ps : List PRow) (a : ARow) (al : List ARow) :
    matchedNotes ss ps (a :: al) =
      (if a.label = "match" then
        match a.sid, a.pid with
        | some s, some p =>
          match sIndex ss s, pIndex ps p with
          | some i, some j => [(i, j)]
          | _, _ => []
        | _, _ => []
      else []) ++ matchedNotes ss ps al := by
  unfold matchedNotes
  rw [List.filterMap_cons]
  by_cases hm : a.label = "match"
  · simp only [hm, if_true]
    cases a.sid with
    | none => simp
    | some s =>
      cases a.pid with
      | none => simp
      | some p =>
        simp only
        cases sIndex ss s with
        | none => simp
        | some i => cases pIndex ps p <;> simp
  · simp [hm]

theorem matchedNotesA_flatP (ss : List SRow) (ps : List PRow) (al : List AEntry) :
    matchedNotesA ss ps al = if al.all keysOk then some (matchedNotes ss ps (al.map flatP)) else none := by
  induction al with
  | nil => simp [matchedNotesA, matchedNotes]
  | cons a rest ih =>
    rw [matchedNotesA, List.map_cons, matchedNotes_cons, List.all_cons]
    cases hl : a.label with
    | none => simp [keysOk, hl]
    | some l =>
      by_cases hm : l = "match"
      · simp only [hm, if_true]
        cases hp : a.pid with
        | none => simp [keysOk, hl, hm, hp]
        | some pv =>
          cases hs : a.sid with
          | none => simp [keysOk, hl, hm, hp, hs]
          | some sv =>
            simp only [ih, keysOk, hl, hm, hp, hs, if_true, Option.isSome_some, Bool.and_self, Bool.true_and, flatP,
              Option.getD_some, Option.map_some]
            cases hall : rest.all keysOk with
            | false => simp
            | true =>
              simp only [if_true, Option.map_some, Option.some.injEq]
              congr 1
              cases sv with
              | str s => simp only [pairsOf]; cases sIndex ss s <;> cases pIndex ps (pyStr pv) <;> rfl
              | int n => simp [pairsOf]
              | none => simp [pairsOf]
      · simp only [hm, if_false, ih, keysOk, hl, flatP, Option.getD_some, Bool.true_and, List.nil_append]

theorem pairsOf_sublist (ss : List SRow) (ps : List PRow) (sv pv : IdVal) :
    (pairsOf ss ps sv pv).Sublist (pairsOf ss ps (.str (pyStr sv)) pv) := by
  cases sv with
  | str s => simp [pyStr]
  | int n => simp [pairsOf]
  | none => simp [pairsOf]

/-- `get_matched_notes` on the alignment `to_matched_score` left behind finds at least the pairs it found before -/
theorem matchedNotesA_after (ss : List SRow) (ps : List PRow) (al : List AEntry) (l : List (Nat × Nat))
    (h : matchedNotesA ss ps al = some l) :
    ∃ l', matchedNotesA ss ps (normaliseIds al).1 = some l' ∧ l.Sublist l' := by
  induction al generalizing l with
  | nil => exact ⟨l, h, List.Sublist.refl _⟩
  | cons a rest ih =>
    rw [matchedNotesA] at h
    cases hl : a.label with
    | none => simp [hl] at h
    | some lab =>
      simp only [hl] at h
      by_cases hm : lab = "match"
      · simp only [hm, if_true] at h
        cases hp : a.pid with
        | none => simp [hp] at h
        | some pv =>
          cases hs : a.sid with
          | none => simp [hp, hs] at h
          | some sv =>
            simp only [hp, hs] at h
            cases hr : matchedNotesA ss ps rest with
            | none => simp [hr] at h
            | some l0 =>
              simp only [hr, Option.map_some, Option.some.injEq] at h
              obtain ⟨l0', h1, h2⟩ := ih l0 hr
              have e : normaliseIds (a :: rest)
                  = ({ a with sid := some (.str (pyStr sv)) } :: (normaliseIds rest).1, (normaliseIds rest).2) := by
                rw [normaliseIds]; simp [hl, hm, hs]
              rw [e]
              simp only
              rw [matchedNotesA]
              simp only [hl, hm, if_true, hp, h1, Option.map_some]
              refine ⟨_, rfl, ?_⟩
              rw [← h]
              exact List.Sublist.append (pairsOf_sublist ss ps sv pv) h2
      · simp only [hm, if_false] at h
        obtain ⟨l', h1, h2⟩ := ih l h
        have e : normaliseIds (a :: rest) = (a :: (normaliseIds rest).1, (normaliseIds rest).2) := by
          rw [normaliseIds]; simp [hl, hm]
        rw [e]
        simp only
        rw [matchedNotesA]
        simp only [hl, hm, if_false]
        exact ⟨l', h1, h2⟩

end C18P
