/-
C02 helper lemmas, part 4: the interpolated value is the integral of the rate
`fac / divs` over the key-point stretches (`elapsed`).
-/
import PartituraModel.Proofs.C02Part
import Mathlib.Order.Lattice

namespace C02Proofs
open Model.TimeMap

/-- length of `[a, b] ∩ [u, v]` -/
def overlap (a b u v : Rat) : Rat := max 0 (min b v - max a u)

/-- the statement's sum: over every stretch between consecutive key points, the part of `[a, b]`
inside the stretch, divided by the quarter duration and multiplied by the beat factor in force -/
def elapsed : List KP → Rat → Rat → Rat
  | k :: k' :: rest, a, b =>
    overlap a b (k.t : Rat) (k'.t : Rat) * (k.fac / k.divs) + elapsed (k' :: rest) a b
  | _, _, _ => 0

theorem overlap_of_le_left {a b u v : Rat} (hbu : b ≤ u) (huv : u ≤ v) : overlap a b u v = 0 := by
  unfold overlap
  have h1 : min b v = b := min_eq_left (le_trans hbu huv)
  have h2 : u ≤ max a u := le_max_right _ _
  rw [h1]
  exact max_eq_left (by linarith)

theorem overlap_inside {a x u v : Rat} (ha : a ≤ u) (hux : u ≤ x) (hxv : x ≤ v) : overlap a x u v = x - u := by
  unfold overlap
  rw [min_eq_left hxv, max_eq_right ha]
  exact max_eq_right (by linarith)

theorem overlap_full {a x u v : Rat} (ha : a ≤ u) (huv : u ≤ v) (hvx : v ≤ x) : overlap a x u v = v - u := by
  unfold overlap
  rw [min_eq_right hvx, max_eq_right ha]
  exact max_eq_right (by linarith)

theorem overlap_lower {a a' x u v : Rat} (ha : a ≤ u) (ha' : a' ≤ u) : overlap a x u v = overlap a' x u v := by
  unfold overlap
  rw [max_eq_right ha, max_eq_right ha']

theorem overlap_diff {t0 a b u v : Rat} (h0 : t0 ≤ u) (huv : u ≤ v) (hab : a ≤ b) :
    overlap t0 b u v - overlap t0 a u v = overlap a b u v := by
  unfold overlap
  rw [max_eq_right h0]
  rcases le_total a u with hau | hua
  · rw [max_eq_right hau]
    have : max 0 (min a v - u) = 0 := max_eq_left (by have := min_le_left a v; linarith)
    rw [this]; ring
  · rw [max_eq_left hua]
    rcases le_total a v with hav | hva
    · rw [min_eq_left hav]
      have hbv : a ≤ min b v := le_min hab hav
      rw [max_eq_right (by linarith), max_eq_right (by linarith), max_eq_right (by linarith)]
      ring
    · have hbv : v ≤ b := le_trans hva hab
      rw [min_eq_right hva, min_eq_right hbv]
      rw [max_eq_right (by linarith), max_eq_left (by linarith)]
      ring

/-- times of a key-point list are all at or after `x` -/
def AllFrom (x : Rat) (kps : List KP) : Prop := ∀ k ∈ kps, x ≤ (k.t : Rat)

theorem kps_cons (k : KP) (rest : List KP) (h : KPsOK (k :: rest)) :
    (∀ t ∈ rest.map (·.t), k.t < t) ∧ (rest.map (·.t)).Pairwise (· < ·) := by
  have hp : ((k :: rest).map (·.t)).Pairwise (· < ·) := h.1
  rw [List.map_cons, List.pairwise_cons] at hp
  exact hp

theorem kps_tail_from (k : KP) (rest : List KP) (h : KPsOK (k :: rest)) : AllFrom (k.t : Rat) rest := by
  intro q hq
  have := (kps_cons k rest h).1 q.t (List.mem_map.mpr ⟨q, hq, rfl⟩)
  have : ((k.t : Int) : Rat) < ((q.t : Int) : Rat) := by exact_mod_cast this
  exact this.le

theorem kps_tail_ok (k : KP) (rest : List KP) (h : KPsOK (k :: rest)) : KPsOK rest :=
  ⟨(kps_cons k rest h).2, fun q hq => h.2 q (List.mem_cons_of_mem _ hq)⟩

theorem kps_sorted_le (k k' : KP) (rest : List KP) (h : KPsOK (k :: k' :: rest)) : (k.t : Rat) < (k'.t : Rat) := by
  have := (kps_cons k (k' :: rest) h).1 k'.t (by simp)
  exact_mod_cast this

/-- nothing elapses on stretches that start at or after `x` -/
theorem elapsed_zero : ∀ (kps : List KP) (a x : Rat), KPsOK kps → AllFrom x kps → elapsed kps a x = 0
  | [], _, _, _, _ => rfl
  | [_], _, _, _, _ => rfl
  | k :: k' :: rest, a, x, hok, hfrom => by
    simp only [elapsed]
    have h1 : x ≤ (k.t : Rat) := hfrom k List.mem_cons_self
    have h2 := kps_sorted_le k k' rest hok
    rw [overlap_of_le_left h1 h2.le,
      elapsed_zero (k' :: rest) a x (kps_tail_ok k _ hok) (fun q hq => hfrom q (List.mem_cons_of_mem _ hq))]
    ring

/-- the lower end of the interval does not matter once it is before every stretch -/
theorem elapsed_lower : ∀ (kps : List KP) (a a' x : Rat), KPsOK kps → AllFrom a kps → AllFrom a' kps →
    elapsed kps a x = elapsed kps a' x
  | [], _, _, _, _, _, _ => rfl
  | [_], _, _, _, _, _, _ => rfl
  | k :: k' :: rest, a, a', x, hok, h1, h2 => by
    simp only [elapsed]
    rw [overlap_lower (h1 k List.mem_cons_self) (h2 k List.mem_cons_self),
      elapsed_lower (k' :: rest) a a' x (kps_tail_ok k _ hok)
        (fun q hq => h1 q (List.mem_cons_of_mem _ hq)) (fun q hq => h2 q (List.mem_cons_of_mem _ hq))]

theorem elapsed_diff : ∀ (kps : List KP) (t0 a b : Rat), KPsOK kps → AllFrom t0 kps → a ≤ b →
    elapsed kps t0 b - elapsed kps t0 a = elapsed kps a b
  | [], _, _, _, _, _, _ => by simp [elapsed]
  | [_], _, _, _, _, _, _ => by simp [elapsed]
  | k :: k' :: rest, t0, a, b, hok, hfrom, hab => by
    simp only [elapsed]
    have ih := elapsed_diff (k' :: rest) t0 a b (kps_tail_ok k _ hok)
      (fun q hq => hfrom q (List.mem_cons_of_mem _ hq)) hab
    have ho := overlap_diff (t0 := t0) (a := a) (b := b) (hfrom k List.mem_cons_self)
      (kps_sorted_le k k' rest hok).le hab
    rw [← ih, ← ho]
    ring

/-- the interpolated value to the right of key point `k` is its ordinate plus what elapsed since -/
theorem interpAux_elapsed : ∀ (rest : List KP) (k : KP) (y x v : Rat), KPsOK (k :: rest) → (k.t : Rat) ≤ x →
    interpAux (k.t : Rat) y (tailKnots k y rest) x = some v → v = y + elapsed (k :: rest) (k.t : Rat) x
  | [], _, _, _, _, _, _, h => by simp [tailKnots, interpAux] at h
  | k' :: rest, k, y, x, v, hok, hx, h => by
    have hlt := kps_sorted_le k k' rest hok
    have hd : 0 < k.divs := (hok.2 k List.mem_cons_self).1
    have hne : ((k'.t : Int) : Rat) - (k.t : Rat) ≠ 0 := by linarith
    have hdne : k.divs ≠ 0 := ne_of_gt hd
    simp only [tailKnots] at h
    unfold interpAux at h
    simp only [elapsed]
    by_cases hle : x ≤ (k'.t : Rat)
    · rw [if_pos hle] at h
      injection h with h
      rw [overlap_inside (le_refl _) hx hle,
        elapsed_zero (k' :: rest) _ x (kps_tail_ok k _ hok) (by
          intro q hq
          rcases List.mem_cons.mp hq with hq | hq
          · subst hq; exact hle
          · exact le_trans hle (kps_tail_from k' rest (kps_tail_ok k _ hok) q hq))]
      rw [← h]
      field_simp
      ring
    · rw [if_neg hle] at h
      have hgt : (k'.t : Rat) < x := lt_of_not_ge hle
      have ih := interpAux_elapsed rest k' _ x v (kps_tail_ok k _ hok) hgt.le h
      rw [overlap_full (le_refl _) hlt.le hgt.le]
      have hl : elapsed (k' :: rest) (k.t : Rat) x = elapsed (k' :: rest) (k'.t : Rat) x :=
        elapsed_lower (k' :: rest) _ _ x (kps_tail_ok k _ hok)
          (by
            intro q hq
            rcases List.mem_cons.mp hq with hq | hq
            · subst hq; exact hlt.le
            · exact le_trans hlt.le (kps_tail_from k' rest (kps_tail_ok k _ hok) q hq))
          (by
            intro q hq
            rcases List.mem_cons.mp hq with hq | hq
            · subst hq; exact le_refl _
            · exact kps_tail_from k' rest (kps_tail_ok k _ hok) q hq)
      rw [ih, hl]
      field_simp
      ring

/-- value of the un-shifted interpolation through the knots of a key-point list -/
theorem interp_elapsed (kps : List KP) (y0 x v : Rat) (hok : KPsOK kps) (h2 : 2 ≤ kps.length)
    (h : interp (knots kps y0) x = some v) :
    ∃ k rest, kps = k :: rest ∧ (k.t : Rat) ≤ x ∧ v = y0 + elapsed kps (k.t : Rat) x := by
  match kps, h2 with
  | k :: k' :: rest, _ =>
    rw [knots_eq] at h
    simp only [tailKnots] at h
    rw [interp_cons2] at h
    by_cases hlt : x < (k.t : Rat)
    · rw [if_pos hlt] at h; cases h
    · rw [if_neg hlt] at h
      refine ⟨k, k' :: rest, rfl, not_lt.mp hlt, ?_⟩
      exact interpAux_elapsed (k' :: rest) k y0 x v hok (not_lt.mp hlt) (by simpa [tailKnots] using h)

end C02Proofs
