/-
C06 helper lemmas: note pairing works key by key; on an alternating on/off run it returns the notes.
-/
import PartituraModel.Model.PerfMidi
import PartituraModel.Proofs.C06Sort

namespace C06Pair
open Model Model.PerfMidi

/-- the hash a note message is filed under -/
def evKey : Ev → Option Nat
  | .noteOn ch p _ => some (noteHash ch p)
  | .noteOff ch p _ => some (noteHash ch p)
  | _ => none

/-- the note messages of one (channel, pitch) hash, in file order -/
def proj (κ : Nat) (l : Track) : Track := l.filter (fun m => decide (evKey m.2 = some κ))

def RNote.key (n : RNote) : Nat := noteHash n.ch n.pitch

/-- the paired notes of one hash -/
def notesOf (κ : Nat) (l : List RNote) : List RNote := l.filter (fun n => decide (RNote.key n = κ))

theorem set_other (s : Sounding) (h κ : Nat) (v : Option (Int × Nat)) (hne : κ ≠ h) :
    (s.set h v) κ = s κ := by
  simp [Sounding.set, hne]

theorem set_same (s : Sounding) (h : Nat) (v : Option (Int × Nat)) : (s.set h v) h = v := by
  simp [Sounding.set]

theorem pairFrom_on_pos (s : Sounding) (k : Int) (ch p v : Nat) (rest : Track) (hv : 0 < v) :
    pairFrom s ((k, Ev.noteOn ch p v) :: rest) = pairFrom (s.set (noteHash ch p) (some (k, v))) rest := by
  simp [pairFrom, hv]

theorem pairFrom_on_zero_none (s : Sounding) (k : Int) (ch p v : Nat) (rest : Track) (hv : ¬ 0 < v)
    (hs : s (noteHash ch p) = none) :
    pairFrom s ((k, Ev.noteOn ch p v) :: rest) = pairFrom s rest := by
  simp [pairFrom, hv, hs]

theorem pairFrom_on_zero_some (s : Sounding) (k : Int) (ch p v : Nat) (rest : Track) (hv : ¬ 0 < v)
    (on : Int) (vel : Nat) (hs : s (noteHash ch p) = some (on, vel)) :
    pairFrom s ((k, Ev.noteOn ch p v) :: rest)
      = ⟨p, on, k, vel, ch⟩ :: pairFrom (s.set (noteHash ch p) none) rest := by
  simp [pairFrom, hv, hs]

theorem pairFrom_off_none (s : Sounding) (k : Int) (ch p v : Nat) (rest : Track)
    (hs : s (noteHash ch p) = none) :
    pairFrom s ((k, Ev.noteOff ch p v) :: rest) = pairFrom s rest := by
  simp [pairFrom, hs]

theorem pairFrom_off_some (s : Sounding) (k : Int) (ch p v : Nat) (rest : Track)
    (on : Int) (vel : Nat) (hs : s (noteHash ch p) = some (on, vel)) :
    pairFrom s ((k, Ev.noteOff ch p v) :: rest)
      = ⟨p, on, k, vel, ch⟩ :: pairFrom (s.set (noteHash ch p) none) rest := by
  simp [pairFrom, hs]

theorem pairFrom_skip (s : Sounding) (k : Int) (e : Ev) (rest : Track) (he : evKey e = none) :
    pairFrom s ((k, e) :: rest) = pairFrom s rest := by
  cases e <;> simp_all [pairFrom, evKey]

theorem proj_cons_same (κ : Nat) (m : TMsg) (l : Track) (h : evKey m.2 = some κ) :
    proj κ (m :: l) = m :: proj κ l := by
  simp [proj, h]

theorem proj_cons_other (κ : Nat) (m : TMsg) (l : Track) (h : evKey m.2 ≠ some κ) :
    proj κ (m :: l) = proj κ l := by
  simp [proj, h]

theorem notesOf_cons_same (κ : Nat) (n : RNote) (l : List RNote) (h : RNote.key n = κ) :
    notesOf κ (n :: l) = n :: notesOf κ l := by
  simp [notesOf, h]

theorem notesOf_cons_other (κ : Nat) (n : RNote) (l : List RNote) (h : RNote.key n ≠ κ) :
    notesOf κ (n :: l) = notesOf κ l := by
  simp [notesOf, h]

/-- pairing works key by key: the notes of hash `κ` are what pairing the messages of hash `κ` alone gives,
    from any state that agrees on `κ` -/
theorem pair_proj (κ : Nat) (l : Track) (s s' : Sounding) (h : s κ = s' κ) :
    notesOf κ (pairFrom s l) = pairFrom s' (proj κ l) := by
  induction l generalizing s s' with
  | nil => simp [pairFrom, proj, notesOf]
  | cons m l ih =>
    obtain ⟨k, e⟩ := m
    by_cases hnone : evKey e = none
    · rw [pairFrom_skip s k e l hnone, proj_cons_other κ (k, e) l (by simp [hnone])]
      exact ih s s' h
    · cases e with
      | noteOn ch p v =>
        by_cases hk : noteHash ch p = κ
        · rw [proj_cons_same κ _ l (by simp [evKey, hk])]
          by_cases hv : 0 < v
          · rw [pairFrom_on_pos _ _ _ _ _ _ hv, pairFrom_on_pos _ _ _ _ _ _ hv]
            exact ih _ _ (by rw [hk, set_same, set_same])
          · cases hs : s κ with
            | none =>
              rw [pairFrom_on_zero_none s _ _ _ _ _ hv (by rw [hk]; exact hs),
                  pairFrom_on_zero_none s' _ _ _ _ _ hv (by rw [hk, ← h]; exact hs)]
              exact ih _ _ h
            | some ov =>
              obtain ⟨on, vel⟩ := ov
              rw [pairFrom_on_zero_some s _ _ _ _ _ hv on vel (by rw [hk]; exact hs),
                  pairFrom_on_zero_some s' _ _ _ _ _ hv on vel (by rw [hk, ← h]; exact hs),
                  notesOf_cons_same κ ⟨p, on, k, vel, ch⟩ _ (show RNote.key ⟨p, on, k, vel, ch⟩ = κ from hk)]
              congr 1
              exact ih _ _ (by rw [hk, set_same, set_same])
        · have hne : κ ≠ noteHash ch p := fun h' => hk h'.symm
          rw [proj_cons_other κ _ l (by simp [evKey, hk])]
          by_cases hv : 0 < v
          · rw [pairFrom_on_pos _ _ _ _ _ _ hv]
            exact ih _ _ (by rw [set_other _ _ _ _ hne]; exact h)
          · cases hs : s (noteHash ch p) with
            | none =>
              rw [pairFrom_on_zero_none s _ _ _ _ _ hv hs]
              exact ih _ _ h
            | some ov =>
              obtain ⟨on, vel⟩ := ov
              rw [pairFrom_on_zero_some s _ _ _ _ _ hv on vel hs, notesOf_cons_other κ ⟨p, on, k, vel, ch⟩ _ (show RNote.key ⟨p, on, k, vel, ch⟩ ≠ κ from hk)]
              exact ih _ _ (by rw [set_other _ _ _ _ hne]; exact h)
      | noteOff ch p v =>
        by_cases hk : noteHash ch p = κ
        · rw [proj_cons_same κ _ l (by simp [evKey, hk])]
          cases hs : s κ with
          | none =>
            rw [pairFrom_off_none s _ _ _ _ _ (by rw [hk]; exact hs),
                pairFrom_off_none s' _ _ _ _ _ (by rw [hk, ← h]; exact hs)]
            exact ih _ _ h
          | some ov =>
            obtain ⟨on, vel⟩ := ov
            rw [pairFrom_off_some s _ _ _ _ _ on vel (by rw [hk]; exact hs),
                pairFrom_off_some s' _ _ _ _ _ on vel (by rw [hk, ← h]; exact hs),
                notesOf_cons_same κ ⟨p, on, k, vel, ch⟩ _ (show RNote.key ⟨p, on, k, vel, ch⟩ = κ from hk)]
            congr 1
            exact ih _ _ (by rw [hk, set_same, set_same])
        · have hne : κ ≠ noteHash ch p := fun h' => hk h'.symm
          rw [proj_cons_other κ _ l (by simp [evKey, hk])]
          cases hs : s (noteHash ch p) with
          | none =>
            rw [pairFrom_off_none s _ _ _ _ _ hs]
            exact ih _ _ h
          | some ov =>
            obtain ⟨on, vel⟩ := ov
            rw [pairFrom_off_some s _ _ _ _ _ on vel hs, notesOf_cons_other κ ⟨p, on, k, vel, ch⟩ _ (show RNote.key ⟨p, on, k, vel, ch⟩ ≠ κ from hk)]
            exact ih _ _ (by rw [set_other _ _ _ _ hne]; exact h)
      | control a b c => exact absurd rfl hnone
      | program a b => exact absurd rfl hnone
      | tempo a => exact absurd rfl hnone
      | timeSig a b => exact absurd rfl hnone
      | keySig a b => exact absurd rfl hnone
      | eot => exact absurd rfl hnone
      | metaMsg a => exact absurd rfl hnone
      | other a => exact absurd rfl hnone

/-- the message releases the note (channel `ch`, pitch `p`): a note-off or a note-on with velocity 0 -/
def IsRelease (e : Ev) (ch p : Nat) : Prop := (∃ v, e = Ev.noteOff ch p v) ∨ e = Ev.noteOn ch p 0

/-- a run of messages in which note-ons (velocity > 0) and releases of the same channel and pitch
    alternate — what a track holds for one (channel, pitch) when its notes do not overlap; the last note
    may still be sounding at the end of the track -/
inductive Alt : Track → List RNote → Prop
  | nil : Alt [] []
  | sounding (k : Int) (ch p v : Nat) : 0 < v → Alt [(k, Ev.noteOn ch p v)] []
  | pair (k₁ k₂ : Int) (ch p v : Nat) (e : Ev) (rest : Track) (ns : List RNote) :
      0 < v → IsRelease e ch p → Alt rest ns →
      Alt ((k₁, Ev.noteOn ch p v) :: (k₂, e) :: rest) (⟨p, k₁, k₂, v, ch⟩ :: ns)

/-- pairing an alternating run of one hash returns its notes -/
theorem pair_alt (κ : Nat) (l : Track) (ns : List RNote) (h : Alt l ns)
    (hκ : ∀ m ∈ l, evKey m.2 = some κ) (s : Sounding) (hs : s κ = none) :
    pairFrom s l = ns := by
  induction h generalizing s with
  | nil => rfl
  | sounding k ch p v hv => rw [pairFrom_on_pos _ _ _ _ _ _ hv]; rfl
  | pair k₁ k₂ ch p v e rest ns hv hrel _ ih =>
    have hk : noteHash ch p = κ := by
      have := hκ (k₁, Ev.noteOn ch p v) (List.mem_cons_self)
      simpa [evKey] using this
    have hrest : ∀ m ∈ rest, evKey m.2 = some κ := fun m hm =>
      hκ m (List.mem_cons_of_mem _ (List.mem_cons_of_mem _ hm))
    have hs1 : (s.set (noteHash ch p) (some (k₁, v))) (noteHash ch p) = some (k₁, v) := set_same _ _ _
    have hs2 : ((s.set (noteHash ch p) (some (k₁, v))).set (noteHash ch p) none) κ = none := by
      rw [hk]; exact set_same _ _ _
    rw [pairFrom_on_pos _ _ _ _ _ _ hv]
    rcases hrel with ⟨v', rfl⟩ | rfl
    · rw [pairFrom_off_some _ _ _ _ _ _ k₁ v hs1, ih hrest _ hs2]
    · rw [pairFrom_on_zero_some _ _ _ _ _ _ (Nat.lt_irrefl 0) k₁ v hs1, ih hrest _ hs2]

theorem proj_key (κ : Nat) (l : Track) : ∀ m ∈ proj κ l, evKey m.2 = some κ := by
  intro m hm
  have := (List.mem_filter.mp hm).2
  simpa using this

end C06Pair
