/-
C09 helper lemmas, part 10: the segment table `add_segments` builds for one repeated section with k
brackets carrying the numbers 1..N (any assignment, numbers written in increasing order on each bracket),
for SYMBOLIC boundary times.
-/
import PartituraModel.Proofs.C09Sort
import PartituraModel.Proofs.C09VoltaN
import PartituraModel.Proofs.C09LayoutChain

namespace C09
open Model.Unfold

/-! ### the loops of the volta branches -/

theorem addTo_addTo (i : Nat) (a b : List (Tag × Dest)) (info : List SegInfo) :
    addTo i b (addTo i a info) = addTo i (a ++ b) info := by
  unfold addTo
  rw [modAt_modAt]
  congr 1
  funext s
  simp [List.append_assoc]

theorem addTo_nil (i : Nat) (info : List SegInfo) : addTo i [] info = info := by
  unfold addTo
  apply modAt_id
  intro s
  simp

def newCvrs (re : Option Int) (x : Int) : Int :=
  match re with
  | some rs => if rs > x then rs else x
  | none => x

theorem newCvrs_idem (re : Option Int) (x : Int) : newCvrs re (newCvrs re x) = newCvrs re x := by
  cases re with
  | none => rfl
  | some rs =>
    by_cases h : rs > x <;> simp [newCvrs, h]

/-- the `for vn in current_volta_numbers` loop: one `Z_Volta_` destination per number other than the total -/
theorem voltaEndLoop_eq (times : List Int) (i : Nat) (re : Option Int) (d : Dest) :
    ∀ (nums : List Nat) (st : BState),
      ((nums.filter fun n => decide (n ≠ st.cvt)).length = 0 ∨ idOf times (newCvrs re st.cvrs) = some d) →
      voltaEndLoop times i re nums st =
        some { st with
          cvrs := if (nums.filter fun n => decide (n ≠ st.cvt)).length = 0 then st.cvrs else newCvrs re st.cvrs,
          info := addTo i (List.replicate (nums.filter fun n => decide (n ≠ st.cvt)).length (Tag.volta 10, d)) st.info } := by
  intro nums
  induction nums with
  | nil => intro st _; simp [voltaEndLoop, addTo_nil]
  | cons vn rest ih =>
    intro st h
    simp only [voltaEndLoop]
    by_cases hv : vn = st.cvt
    · have hne : ¬ (vn ≠ st.cvt) := fun h => h hv
      simp only [hne, if_false, List.filter_cons, decide_false, Bool.false_eq_true]
      simp only [List.filter_cons, hne, decide_false, Bool.false_eq_true, if_false] at h
      exact ih st h
    · have hne : vn ≠ st.cvt := hv
      simp only [hne, ne_eq, not_false_eq_true, if_true, List.filter_cons, decide_true, List.length_cons]
      simp only [List.filter_cons, hne, ne_eq, not_false_eq_true, decide_true, if_true, List.length_cons] at h
      have hid : idOf times (newCvrs re st.cvrs) = some d := by
        rcases h with h | h
        · omega
        · exact h
      have hstep : ∀ x' : Int, x' = newCvrs re st.cvrs →
          (match idOf times x' with
            | none => none
            | some d' => voltaEndLoop times i re rest { st with cvrs := x', info := addTo i [(Tag.volta 10, d')] st.info }) =
          some { st with
            cvrs := newCvrs re st.cvrs,
            info := addTo i (List.replicate ((rest.filter fun n => decide (n ≠ st.cvt)).length + 1) (Tag.volta 10, d)) st.info } := by
        intro x' hx'
        subst hx'
        rw [hid]
        simp only
        rw [ih _ (Or.inr (by simp only [newCvrs_idem]; exact hid))]
        simp only [newCvrs_idem, addTo_addTo, Option.some.injEq]
        have e1 : ∀ m : Nat, [(Tag.volta 10, d)] ++ List.replicate m (Tag.volta 10, d) = List.replicate (m + 1) (Tag.volta 10, d) := by
          intro m; simp [List.replicate_succ]
        rw [e1]
        split <;> rfl
      have e2 : (¬ ((rest.filter fun n => decide (n ≠ st.cvt)).length + 1 = 0)) := by omega
      simp only [e2, if_false]
      cases re with
      | none => exact hstep _ rfl
      | some rs => exact hstep _ rfl

/-- what the `for volta_number in range(10)` scan does to the raw information -/
def scanFold (i c : Nat) : Nat → List (List Nat) → List SegInfo → List SegInfo
  | _, [], info => info
  | j, ns :: rest, info =>
    scanFold i c (j + 1) rest
      (modAt (c + 1 + j) (fun s => { s with voltaNums := s.voltaNums ++ ns })
        (addTo i (ns.map fun n => (Tag.volta n, Dest.seg (c + 1 + j))) info))

def sumLen : List (List Nat) → Nat
  | [] => 0
  | ns :: rest => ns.length + sumLen rest

theorem voltaScan_run (tb : BTable) (times : List Int) (i c k : Nat) (V : Nat → Int) (nums : Nat → List Nat)
    (h1 : ∀ j, j < k → (tblGet (V j) tb).bind (·.voltaStart) = some (nums j, V (j + 1)))
    (h2 : (tblGet (V k) tb).bind (·.voltaStart) = none)
    (h3 : ∀ j, j < k → idOf times (V j) = some (.seg (c + 1 + j))) :
    ∀ (m j fuel : Nat) (st : BState), j + m = k → m ≤ fuel → st.cve = V j →
      voltaScan tb times i fuel st =
        some { st with info := scanFold i c j ((List.range' j m).map nums) st.info, cve := V k,
                       cvt := st.cvt + sumLen ((List.range' j m).map nums) } := by
  intro m
  induction m with
  | zero =>
    intro j fuel st hj _ hc
    have : j = k := by omega
    subst this
    have e : ({ st with info := st.info, cve := V j, cvt := st.cvt + 0 } : BState) = st := by
      cases st
      simp only [BState.mk.injEq, Nat.add_zero, true_and, and_true]
      exact hc.symm
    cases fuel with
    | zero =>
      simp only [voltaScan, List.range'_zero, List.map_nil, scanFold, sumLen, e]
    | succ f =>
      simp only [voltaScan, hc, h2, List.range'_zero, List.map_nil, scanFold, sumLen, e]
  | succ m ih =>
    intro j fuel st hj hf hc
    obtain ⟨f, rfl⟩ : ∃ f, fuel = f + 1 := ⟨fuel - 1, by omega⟩
    have hjk : j < k := by omega
    simp only [voltaScan, hc, h1 j hjk, h3 j hjk]
    rw [ih (j + 1) f _ (by omega) (by omega) rfl]
    simp only [List.range'_succ, List.map_cons, scanFold, sumLen, Option.some.injEq]
    congr 1
    omega

theorem scanFold_get (i c : Nat) : ∀ (nss : List (List Nat)) (j : Nat) (info : List SegInfo) (x : Nat),
    i < c + 1 + j →
    (scanFold i c j nss info)[x]? = (info[x]?).map fun s =>
      { s with
        to := s.to ++ (if x = i then (enum j nss).flatMap (fun q => q.2.map fun n => (Tag.volta n, Dest.seg (c + 1 + q.1))) else []),
        voltaNums := s.voltaNums ++ (if c + 1 + j ≤ x then (nss[x - (c + 1 + j)]?).getD [] else []) } := by
  intro nss
  induction nss with
  | nil =>
    intro j info x _
    simp only [scanFold, enum, List.flatMap_nil, ite_self, List.append_nil, List.getElem?_nil, Option.getD_none]
    cases info[x]? <;> rfl
  | cons ns rest ih =>
    intro j info x hi
    simp only [scanFold]
    rw [ih (j + 1) _ x (by omega), modAt_get]
    unfold addTo
    rw [modAt_get]
    by_cases hxi : x = i
    · subst hxi
      have h1 : ¬ x = c + 1 + j := by omega
      have h2 : ¬ c + 1 + (j + 1) ≤ x := by omega
      have h3 : ¬ c + 1 + j ≤ x := by omega
      simp only [h1, h2, h3, if_false, if_true, enum, List.flatMap_cons]
      cases info[x]? with
      | none => rfl
      | some s => simp [List.append_assoc]
    · simp only [hxi, if_false]
      by_cases hxj : x = c + 1 + j
      · subst hxj
        have h2 : ¬ c + 1 + (j + 1) ≤ c + 1 + j := by omega
        simp only [h2, if_false, if_true, Nat.le_refl, Nat.sub_self, List.getElem?_cons_zero, Option.getD_some]
        cases info[c + 1 + j]? with
        | none => rfl
        | some s => simp
      · simp only [hxj, if_false]
        by_cases h4 : c + 1 + (j + 1) ≤ x
        · have h5 : c + 1 + j ≤ x := by omega
          have e : x - (c + 1 + j) = (x - (c + 1 + (j + 1))) + 1 := by omega
          simp only [h4, h5, if_true, e, List.getElem?_cons_succ]
        · have h5 : ¬ c + 1 + j ≤ x := by omega
          simp only [h4, h5, if_false]

/-! ### the layout family -/


theorem repIdx_mem (k j : Nat) : j ∈ repIdx k ↔ 1 ≤ j ∧ (j < k ∨ (k = 1 ∧ j = 1)) := by
  unfold repIdx
  by_cases hk : k = 1
  · subst hk; simp; omega
  · simp only [hk, if_false, List.mem_map, List.mem_range]
    constructor
    · rintro ⟨a, ha, rfl⟩; omega
    · rintro ⟨h1, h2⟩
      have h3 : j < k := by
        rcases h2 with h2 | ⟨h, _⟩
        · exact h2
        · exact h.elim
      refine ⟨j - 1, ?_, ?_⟩
      · omega
      · show j - 1 + 1 = j; omega


theorem lastSome_map {α β γ : Type} (f : β → Option γ) (g : α → β) (l : List α) :
    lastSome f (l.map g) = lastSome (fun a => f (g a)) l := by
  induction l with
  | nil => rfl
  | cons a as ih => simp only [List.map_cons, lastSome, ih]

section mvfacts
variable (pre : Bool) (k : Nat) (post : Bool) (asg : List Nat) (ts : List Int)
variable (hs : StrictSorted ts) (hlen : ts.length = vLen pre k post + 1) (hk : 1 ≤ k)

include hs hlen in
theorem T_inj (i i' : Nat) (hi : i ≤ vLen pre k post) (hi' : i' ≤ vLen pre k post)
    (h : ts.getD i 0 = ts.getD i' 0) : i = i' := by
  have h1 : i < ts.length := by omega
  have h2 : i' < ts.length := by omega
  have e1 : ts[i]? = some (ts.getD i 0) := by
    rw [List.getD_eq_getElem?_getD, List.getElem?_eq_getElem h1]; rfl
  have e2 : ts[i']? = some (ts.getD i 0) := by
    rw [h, List.getD_eq_getElem?_getD, List.getElem?_eq_getElem h2]; rfl
  exact sorted_inj ts hs i i' _ e1 e2

include hs hlen hk in
theorem mv_repA (i : Nat) (hi : i ≤ vLen pre k post) :
    repA (mvLayout pre k post asg ts).repeats (ts.getD i 0) = decide (i = vBody pre) := by
  unfold repA mvLayout
  simp only [List.any_map]
  by_cases h : i = vBody pre
  · subst h
    simp only [decide_true]
    rw [List.any_eq_true]
    have : repIdx k ≠ [] := by
      unfold repIdx
      by_cases hk1 : k = 1
      · simp [hk1]
      · simp only [hk1, if_false, ne_eq, List.map_eq_nil_iff, List.range_eq_nil]; omega
    obtain ⟨j, hj⟩ := List.exists_mem_of_ne_nil _ this
    exact ⟨j, hj, by simp⟩
  · simp only [h, decide_false]
    rw [List.any_eq_false]
    intro j _
    simp only [Function.comp, decide_eq_true_eq]
    intro he
    have hc : vBody pre ≤ vLen pre k post := by unfold vLen; omega
    exact h (T_inj pre k post ts hs hlen _ _ hc hi he).symm

include hs hlen in
theorem mv_repE (i : Nat) (hi : i ≤ vLen pre k post) :
    repE (mvLayout pre k post asg ts).repeats (ts.getD i 0) =
      if vBody pre + 2 ≤ i ∧ (i - vBody pre - 1 < k ∨ (k = 1 ∧ i = vBody pre + 2)) then some (ts.getD (vBody pre) 0) else none := by
  unfold repE mvLayout
  simp only [lastSome_map]
  split
  · rename_i hc
    apply lastSome_eq_some
    · refine ⟨i - vBody pre - 1, (repIdx_mem k _).mpr (by omega), ?_⟩
      have : vBody pre + 1 + (i - vBody pre - 1) = i := by omega
      simp [this]
    · intro j _ b' hb'
      split at hb'
      · simpa using hb'.symm
      · simp at hb'
  · rename_i hc
    apply lastSome_eq_none
    intro j hj
    rw [repIdx_mem] at hj
    split
    · rename_i he
      have hj2 : vBody pre + 1 + j ≤ vLen pre k post := by unfold vLen; omega
      have := T_inj pre k post ts hs hlen _ _ hj2 hi he
      exfalso; apply hc; omega
    · rfl

include hs hlen in
theorem mv_volS (i : Nat) (hi : i ≤ vLen pre k post) :
    volS (mvLayout pre k post asg ts).endings (ts.getD i 0) =
      if vBody pre + 1 ≤ i ∧ i ≤ vBody pre + k then some (numsOf asg (i - vBody pre - 1), ts.getD (i + 1) 0) else none := by
  unfold volS mvLayout
  simp only [lastSome_map]
  split
  · rename_i hc
    have e : vBody pre + 1 + (i - vBody pre - 1) = i := by omega
    have e2 : vBody pre + 2 + (i - vBody pre - 1) = i + 1 := by omega
    apply lastSome_eq_some
    · refine ⟨i - vBody pre - 1, by simp; omega, ?_⟩
      simp [e, e2]
    · intro j hj b' hb'
      have hjk : j < k := by simpa using hj
      split at hb'
      · rename_i he
        have hj2 : vBody pre + 1 + j ≤ vLen pre k post := by unfold vLen; omega
        have := T_inj pre k post ts hs hlen _ _ hj2 hi he
        have ej : j = i - vBody pre - 1 := by omega
        subst ej
        simp only [Option.some.injEq] at hb'
        rw [← hb', e2]
      · simp at hb'
  · rename_i hc
    apply lastSome_eq_none
    intro j hj
    have hjk : j < k := by simpa using hj
    split
    · rename_i he
      have hj2 : vBody pre + 1 + j ≤ vLen pre k post := by unfold vLen; omega
      have := T_inj pre k post ts hs hlen _ _ hj2 hi he
      exfalso; apply hc; omega
    · rfl

include hs hlen in
theorem mv_volE (i : Nat) (hi : i ≤ vLen pre k post) :
    volE (mvLayout pre k post asg ts).endings (ts.getD i 0) =
      decide (vBody pre + 2 ≤ i ∧ i ≤ vBody pre + k + 1) := by
  unfold volE mvLayout
  simp only [List.any_map]
  by_cases hc : vBody pre + 2 ≤ i ∧ i ≤ vBody pre + k + 1
  · simp only [hc, and_self, decide_true]
    rw [List.any_eq_true]
    refine ⟨i - vBody pre - 2, by simp; omega, ?_⟩
    have e : vBody pre + 2 + (i - vBody pre - 2) = i := by omega
    simp [e]
  · simp only [hc, decide_false]
    rw [List.any_eq_false]
    intro j hj
    have hjk : j < k := by simpa using hj
    simp only [Function.comp, decide_eq_true_eq]
    intro he
    have hj2 : vBody pre + 2 + j ≤ vLen pre k post := by unfold vLen; omega
    have := T_inj pre k post ts hs hlen _ _ hj2 hi he
    apply hc; omega

theorem getD_mem_of_lt (l : List Int) (i : Nat) (h : i < l.length) : l.getD i 0 ∈ l := by
  rw [List.getD_eq_getElem?_getD, List.getElem?_eq_getElem h]
  exact List.getElem_mem h

theorem getD_get (l : List Int) (i : Nat) (h : i < l.length) : l[i]? = some (l.getD i 0) := by
  rw [List.getD_eq_getElem?_getD, List.getElem?_eq_getElem h]; rfl

include hs hlen hk in
/-- everything registered at the i-th boundary time -/
theorem mv_info (i : Nat) (hi : i ≤ vLen pre k post) :
    infoAt (mvLayout pre k post asg ts) (ts.getD i 0) =
      { repeatStart := decide (i = vBody pre),
        repeatEnd := if vBody pre + 2 ≤ i ∧ (i - vBody pre - 1 < k ∨ (k = 1 ∧ i = vBody pre + 2)) then some (ts.getD (vBody pre) 0) else none,
        voltaStart := if vBody pre + 1 ≤ i ∧ i ≤ vBody pre + k then some (numsOf asg (i - vBody pre - 1), ts.getD (i + 1) 0) else none,
        voltaEnd := decide (vBody pre + 2 ≤ i ∧ i ≤ vBody pre + k + 1),
        isEnd := decide (i = vLen pre k post), isStart := decide (i = 0) } := by
  unfold infoAt
  rw [mv_repA pre k post asg ts hs hlen hk i hi, mv_repE pre k post asg ts hs hlen i hi,
    mv_volS pre k post asg ts hs hlen i hi, mv_volE pre k post asg ts hs hlen i hi]
  have e1 : decide (ts.getD i 0 = (mvLayout pre k post asg ts).last) = decide (i = vLen pre k post) := by
    by_cases h : i = vLen pre k post
    · subst h; simp [mvLayout]
    · have : ¬ ts.getD i 0 = ts.getD (vLen pre k post) 0 :=
        fun he => h (T_inj pre k post ts hs hlen _ _ hi (Nat.le_refl _) he)
      simp only [mvLayout, this, h, decide_false]
  have e2 : decide (ts.getD i 0 = (mvLayout pre k post asg ts).first) = decide (i = 0) := by
    by_cases h : i = 0
    · subst h; simp [mvLayout]
    · have : ¬ ts.getD i 0 = ts.getD 0 0 :=
        fun he => h (T_inj pre k post ts hs hlen _ _ hi (Nat.zero_le _) he)
      simp only [mvLayout, this, h, decide_false]
  rw [e1, e2]
  simp [mvLayout]

include hs hlen hk in
theorem mv_isKey (t : Int) : t ∈ ts ↔ isKey (mvLayout pre k post asg ts) t = true := by
  constructor
  · intro ht
    obtain ⟨i, hi⟩ := List.getElem?_of_mem ht
    have hil := (List.getElem?_eq_some_iff.mp hi).1
    have hi' : i ≤ vLen pre k post := by omega
    have ht' : t = ts.getD i 0 := by
      rw [List.getD_eq_getElem?_getD, hi]; rfl
    subst ht'
    have hinfo := mv_info pre k post asg ts hs hlen hk i hi'
    have hcomp : isKey (mvLayout pre k post asg ts) (ts.getD i 0) =
        ((infoAt (mvLayout pre k post asg ts) (ts.getD i 0)).repeatStart ||
         (infoAt (mvLayout pre k post asg ts) (ts.getD i 0)).repeatEnd.isSome ||
         (infoAt (mvLayout pre k post asg ts) (ts.getD i 0)).voltaStart.isSome ||
         (infoAt (mvLayout pre k post asg ts) (ts.getD i 0)).voltaEnd ||
         (infoAt (mvLayout pre k post asg ts) (ts.getD i 0)).coda ||
         (infoAt (mvLayout pre k post asg ts) (ts.getD i 0)).tocoda ||
         (infoAt (mvLayout pre k post asg ts) (ts.getD i 0)).dacapo ||
         (infoAt (mvLayout pre k post asg ts) (ts.getD i 0)).fine ||
         (infoAt (mvLayout pre k post asg ts) (ts.getD i 0)).segno ||
         (infoAt (mvLayout pre k post asg ts) (ts.getD i 0)).dalsegno ||
         (infoAt (mvLayout pre k post asg ts) (ts.getD i 0)).isEnd ||
         (infoAt (mvLayout pre k post asg ts) (ts.getD i 0)).isStart) := rfl
    rw [hcomp, hinfo]
    simp only [Bool.or_false]
    have hv : vLen pre k post = vBody pre + 1 + k + (if post then 1 else 0) := rfl
    have hb : vBody pre = 0 ∨ vBody pre = 1 := by unfold vBody; cases pre <;> simp
    by_cases h0 : i = 0
    · simp [h0]
    · by_cases hc : i = vBody pre
      · simp [hc]
      · by_cases h1 : vBody pre + 1 ≤ i ∧ i ≤ vBody pre + k
        · simp [h1]
        · by_cases h2 : vBody pre + 2 ≤ i ∧ i ≤ vBody pre + k + 1
          · simp [h2]
          · have : i = vLen pre k post := by
              rw [hv] at hi' ⊢
              cases post <;> simp at hi' ⊢ <;> omega
            simp [this]
  · intro hk'
    have hv : vLen pre k post = vBody pre + 1 + k + (if post then 1 else 0) := rfl
    simp only [isKey, Bool.or_eq_true] at hk'
    rcases hk' with ((((((((((h | h) | h) | h) | h) | h) | h) | h) | h) | h) | h) | h
    · unfold repA mvLayout at h
      simp only [List.any_map, List.any_eq_true, Function.comp, decide_eq_true_eq] at h
      obtain ⟨j, _, he⟩ := h
      rw [← he]
      exact getD_mem_of_lt ts _ (by omega)
    · unfold repE mvLayout at h
      rw [lastSome_map, lastSome_isSome, List.any_eq_true] at h
      obtain ⟨j, hj, he⟩ := h
      rw [repIdx_mem] at hj
      split at he
      · rename_i h'
        rw [← h']
        exact getD_mem_of_lt ts _ (by omega)
      · simp at he
    · unfold volS mvLayout at h
      rw [lastSome_map, lastSome_isSome, List.any_eq_true] at h
      obtain ⟨j, hj, he⟩ := h
      have hjk : j < k := by simpa using hj
      split at he
      · rename_i h'
        rw [← h']
        exact getD_mem_of_lt ts _ (by omega)
      · simp at he
    · unfold volE mvLayout at h
      simp only [List.any_map, List.any_eq_true, Function.comp, decide_eq_true_eq] at h
      obtain ⟨j, hj, he⟩ := h
      have hjk : j < k := by simpa using hj
      rw [← he]
      exact getD_mem_of_lt ts _ (by omega)
    · simp [mvLayout] at h
    · simp [mvLayout] at h
    · simp [mvLayout] at h
    · simp [mvLayout] at h
    · simp [mvLayout] at h
    · simp [mvLayout] at h
    · rw [of_decide_eq_true h]
      exact getD_mem_of_lt ts _ (by omega)
    · rw [of_decide_eq_true h]
      exact getD_mem_of_lt ts _ (by omega)

end mvfacts

/-! ### the raw information, segment by segment -/

section mvproc
variable (pre : Bool) (k : Nat) (post : Bool) (asg : List Nat) (ts : List Int)

def mvBracketRaw (b : Nat) : List (Tag × Dest) :=
  List.replicate (mBack asg b) (Tag.volta 10, Dest.seg (vBody pre)) ++
  (if asg.getLast? = some b then [(Tag.plain, vNext pre k post)] else []) ++
  (if vBody pre + 1 + b + 1 = vLen pre k post then [(Tag.plain, Dest.fin)] else [])

def mvFinal (x : Nat) : SegInfo :=
  if x < vBody pre then { to := [(Tag.plain, Dest.seg (vBody pre))], ty := tyAt ts x }
  else if x = vBody pre then
    { to := (voltaPairs (vBody pre) k asg).map (fun p => (Tag.volta p.1, Dest.seg p.2)), ty := tyAt ts x }
  else if x ≤ vBody pre + k then
    { to := mvBracketRaw pre k post asg (x - vBody pre - 1), ty := tyAt ts x, voltaNums := numsOf asg (x - vBody pre - 1) }
  else { to := [(Tag.plain, Dest.fin)], ty := tyAt ts x }

def mvPending (x : Nat) : SegInfo :=
  if vBody pre < x ∧ x ≤ vBody pre + k then { voltaNums := numsOf asg (x - vBody pre - 1) } else {}

def mvCell (i x : Nat) : SegInfo :=
  if x < i then mvFinal pre k post asg ts x else if vBody pre < i then mvPending pre k asg x else {}

def mvSt (i : Nat) : BState :=
  { info := (List.range (vLen pre k post)).map (mvCell pre k post asg ts i),
    cvrs := if vBody pre + 2 ≤ i ∧ 0 < mBack asg 0 then ts.getD (vBody pre) 0 else 0,
    cve := if vBody pre < i then ts.getD (vBody pre + 1 + k) 0 else 0,
    cvt := if vBody pre < i then asg.length else 0 }

theorem mvSt_get (i x : Nat) :
    (mvSt pre k post asg ts i).info[x]? = if x < vLen pre k post then some (mvCell pre k post asg ts i x) else none := by
  unfold mvSt
  simp only [List.getElem?_map]
  by_cases hx : x < vLen pre k post
  · rw [List.getElem?_range hx]; simp [hx]
  · have : (List.range (vLen pre k post))[x]? = none := by simp; omega
    simp [this, hx]

/-- a step that rewrites only the entry of segment `i` -/
theorem mv_step_info (i : Nat) (f : SegInfo → SegInfo) (hi : i < vLen pre k post)
    (hc : vBody pre < i ↔ vBody pre < i + 1)
    (hf : f (mvCell pre k post asg ts i i) = mvFinal pre k post asg ts i) :
    modAt i f (mvSt pre k post asg ts i).info = (mvSt pre k post asg ts (i + 1)).info := by
  apply List.ext_getElem?
  intro x
  rw [modAt_get, mvSt_get, mvSt_get]
  by_cases hx : x < vLen pre k post
  · simp only [hx, if_true]
    by_cases hxi : x = i
    · subst hxi
      simp only [if_true, Option.map_some, hf, Option.some.injEq]
      have : x < x + 1 := Nat.lt_succ_self x
      simp [mvCell, this]
    · simp only [hxi, if_false, Option.some.injEq]
      unfold mvCell
      by_cases h1 : x < i
      · have : x < i + 1 := by omega
        simp [h1, this]
      · have h2 : ¬ x < i + 1 := by omega
        simp only [h1, h2, if_false]
        by_cases h3 : vBody pre < i
        · simp [h3, hc.mp h3]
        · have : ¬ vBody pre < i + 1 := fun h => h3 (hc.mpr h)
          simp [h3, this]
  · have : ¬ x = i := by omega
    simp [hx, this]

end mvproc

section mvsteps
variable (pre : Bool) (k : Nat) (post : Bool) (asg : List Nat) (ts : List Int)
variable (hs : StrictSorted ts) (hlen : ts.length = vLen pre k post + 1) (hk : 1 ≤ k)

include hs hlen hk in
theorem mv_get (i : Nat) (hi : i ≤ vLen pre k post) :
    tblGet (ts.getD i 0) (mkTable (mvLayout pre k post asg ts)) =
      some (infoAt (mvLayout pre k post asg ts) (ts.getD i 0)) := by
  rw [mkTable_get]
  have : isKey (mvLayout pre k post asg ts) (ts.getD i 0) = true :=
    (mv_isKey pre k post asg ts hs hlen hk _).mp (getD_mem_of_lt ts i (by omega))
  rw [this]; rfl

include hs hlen in
theorem mv_id (i : Nat) (hi : i ≤ vLen pre k post) :
    idOf ts (ts.getD i 0) = some (if i = vLen pre k post then Dest.fin else Dest.seg i) := by
  rw [idOf_sorted ts hs i _ (getD_get ts i (by omega)), hlen]
  by_cases h : i = vLen pre k post
  · simp [h]
  · have : ¬ i + 1 = vLen pre k post + 1 := by omega
    simp [h, this]

include hs hlen hk in
/-- the lead-in (if any): on to the section -/
theorem mv_step_pre (i : Nat) (hi : i < vBody pre) :
    procSeg (mvLayout pre k post asg ts) (mkTable (mvLayout pre k post asg ts)) ts i (ts.getD i 0) (ts.getD (i + 1) 0)
      (mvSt pre k post asg ts i) = some (mvSt pre k post asg ts (i + 1)) := by
  have hpre : pre = true := by cases pre <;> simp [vBody] at hi ⊢
  subst hpre
  have hi0 : i = 0 := by simp [vBody] at hi; exact hi
  subst hi0
  have hv : vLen true k post = 1 + 1 + k + (if post then 1 else 0) := rfl
  have h1 : 0 + 1 ≤ vLen true k post := by omega
  have hinfo := mv_info true k post asg ts hs hlen hk 1 h1
  have hb1 : vBody true = 1 := rfl
  have hro : RepeatOnly (infoAt (mvLayout true k post asg ts) (ts.getD (0 + 1) 0)) := by
    rw [hinfo]; simp [RepeatOnly, hb1, infoAt]
  rw [procSeg_repeatOnly _ _ _ 0 _ _ _ _ (.seg 1) (mv_get true k post asg ts hs hlen hk 1 h1)
    (by rw [mv_id true k post ts hs hlen 1 h1]; have : ¬ 1 = vLen true k post := by omega
        simp [this]) hro none (by rw [hinfo]; simp [hb1])]
  have e := mv_step_info true k post asg ts 0
    (fun s => { s with to := s.to ++ repRaw (infoAt (mvLayout true k post asg ts) (ts.getD (0 + 1) 0)) (Dest.seg 1) none,
                       ty := if ts.getD 0 0 = 0 then SegType.leapEnd else s.ty })
    (by omega) (by simp [hb1])
    (by rw [hinfo]
        have h1k : ¬ (1 = vLen true k post) := by omega
        simp [mvCell, mvFinal, hb1, repRaw, tyAt, h1k])
  rw [e]
  simp [mvSt, hb1]

include hs hlen hk in
/-- the music after the group: on to END -/
theorem mv_step_post (i : Nat) (hi : i = vBody pre + k + 1) (hil : i < vLen pre k post) :
    procSeg (mvLayout pre k post asg ts) (mkTable (mvLayout pre k post asg ts)) ts i (ts.getD i 0) (ts.getD (i + 1) 0)
      (mvSt pre k post asg ts i) = some (mvSt pre k post asg ts (i + 1)) := by
  have hv : vLen pre k post = vBody pre + 1 + k + (if post then 1 else 0) := rfl
  have hpost : post = true := by
    cases post with
    | true => rfl
    | false => simp at hv; omega
  subst hpost
  simp only [if_true] at hv
  have h1 : i + 1 ≤ vLen pre k true := by omega
  have hinfo := mv_info pre k true asg ts hs hlen hk (i + 1) h1
  have hE : i + 1 = vLen pre k true := by omega
  have c1 : ¬ (i + 1 = vBody pre) := by omega
  have c2 : ¬ (vBody pre + 2 ≤ i + 1 ∧ (i + 1 - vBody pre - 1 < k ∨ (k = 1 ∧ i + 1 = vBody pre + 2))) := by omega
  have c3 : ¬ (vBody pre + 1 ≤ i + 1 ∧ i + 1 ≤ vBody pre + k) := by omega
  have c4 : ¬ (vBody pre + 2 ≤ i + 1 ∧ i + 1 ≤ vBody pre + k + 1) := by omega
  have c5 : ¬ (i + 1 = 0) := by omega
  have c6 : decide (i + 1 = vLen pre k true) = true := decide_eq_true hE
  simp only [c1, c2, c3, c4, c5, c6, if_false, decide_false] at hinfo
  have hro : RepeatOnly (infoAt (mvLayout pre k true asg ts) (ts.getD (i + 1) 0)) := by
    rw [hinfo]; simp [RepeatOnly]
  rw [procSeg_repeatOnly _ _ _ i _ _ _ _ .fin (mv_get pre k true asg ts hs hlen hk (i + 1) h1)
    (by rw [mv_id pre k true ts hs hlen (i + 1) h1]; simp [hE]) hro none (by rw [hinfo])]
  have e := mv_step_info pre k true asg ts i
    (fun s => { s with to := s.to ++ repRaw (infoAt (mvLayout pre k true asg ts) (ts.getD (i + 1) 0)) Dest.fin none,
                       ty := if ts.getD i 0 = 0 then SegType.leapEnd else s.ty })
    hil (by omega)
    (by rw [hinfo]
        have d1 : ¬ i < i := Nat.lt_irrefl i
        have d2 : vBody pre < i := by omega
        have d3 : ¬ (vBody pre < i ∧ i ≤ vBody pre + k) := by omega
        have d4 : ¬ i < vBody pre := by omega
        have d5 : ¬ i = vBody pre := by omega
        have d6 : ¬ i ≤ vBody pre + k := by omega
        simp [mvCell, mvFinal, mvPending, repRaw, tyAt, d1, d2, d3, d4, d5, d6])
  rw [e]
  have d2 : vBody pre < i := by omega
  have d7 : vBody pre < i + 1 := by omega
  have d8 : vBody pre + 2 ≤ i := by omega
  have d9 : vBody pre + 2 ≤ i + 1 := by omega
  simp [mvSt, d2, d7, d8, d9]

theorem sumLen_map (f : Nat → List Nat) (l : List Nat) : sumLen (l.map f) = (l.flatMap f).length := by
  induction l with
  | nil => rfl
  | cons a as ih => simp [sumLen, ih]

theorem sumLen_numsOf (asg : List Nat) (k : Nat) (h : ∀ x ∈ asg, x < k) :
    sumLen ((List.range' 0 k).map (numsOf asg)) = asg.length := by
  rw [sumLen_map, ← List.range_eq_range']
  have h1 := (voltaPairs_perm 0 k asg h).length_eq
  unfold voltaPairs voltaTarget at h1
  rw [List.length_map, enum_length] at h1
  rw [← h1]
  simp [List.length_flatMap]

theorem enum_range'_flatMap {β : Type} (f : Nat → List Nat) (G : Nat → List Nat → List β) :
    ∀ (m s : Nat), (enum s ((List.range' s m).map f)).flatMap (fun q => G q.1 q.2) =
      (List.range' s m).flatMap (fun j => G j (f j)) := by
  intro m
  induction m with
  | zero => intro s; rfl
  | succ m ih =>
    intro s
    simp only [List.range'_succ, List.map_cons, enum, List.flatMap_cons, ih]

variable (hk10 : k ≤ 10) (hasg : ∀ x ∈ asg, x < k)

include hs hlen hk hk10 hasg in
/-- the repeated section: the scan over the consecutive brackets -/
theorem mv_step_body :
    procSeg (mvLayout pre k post asg ts) (mkTable (mvLayout pre k post asg ts)) ts (vBody pre)
      (ts.getD (vBody pre) 0) (ts.getD (vBody pre + 1) 0)
      (mvSt pre k post asg ts (vBody pre)) = some (mvSt pre k post asg ts (vBody pre + 1)) := by
  have hv : vLen pre k post = vBody pre + 1 + k + (if post then 1 else 0) := rfl
  have h1 : vBody pre + 1 ≤ vLen pre k post := by omega
  have hinfo := mv_info pre k post asg ts hs hlen hk (vBody pre + 1) h1
  have c1 : ¬ (vBody pre + 1 = vBody pre) := by omega
  have c2 : ¬ (vBody pre + 2 ≤ vBody pre + 1) := by omega
  have c3 : (vBody pre + 1 ≤ vBody pre + 1 ∧ vBody pre + 1 ≤ vBody pre + k) := by omega
  have c4 : ¬ (vBody pre + 2 ≤ vBody pre + 1 ∧ vBody pre + 1 ≤ vBody pre + k + 1) := by omega
  have c5 : ¬ (vBody pre + 1 = 0) := by omega
  have c6 : ¬ (vBody pre + 1 = vLen pre k post) := by omega
  have c7 : vBody pre + 1 - vBody pre - 1 = 0 := by omega
  simp only [c1, c2, c3, c4, c5, c6, c7, false_and, if_false, decide_false, and_self, if_true] at hinfo
  -- the scan
  have hscan := voltaScan_run (mkTable (mvLayout pre k post asg ts)) ts (vBody pre) (vBody pre) k
    (fun j => ts.getD (vBody pre + 1 + j) 0) (numsOf asg)
    (by
      intro j hj
      have hj1 : vBody pre + 1 + j ≤ vLen pre k post := by omega
      rw [mv_get pre k post asg ts hs hlen hk _ hj1, mv_info pre k post asg ts hs hlen hk _ hj1]
      have d1 : (vBody pre + 1 ≤ vBody pre + 1 + j ∧ vBody pre + 1 + j ≤ vBody pre + k) := by omega
      have d2 : vBody pre + 1 + j - vBody pre - 1 = j := by omega
      have d3 : vBody pre + 1 + j + 1 = vBody pre + 1 + (j + 1) := by omega
      simp only [Option.bind_some, d1, and_self, if_true, d2, d3])
    (by
      have hj1 : vBody pre + 1 + k ≤ vLen pre k post := by omega
      rw [mv_get pre k post asg ts hs hlen hk _ hj1, mv_info pre k post asg ts hs hlen hk _ hj1]
      have d1 : ¬ (vBody pre + 1 ≤ vBody pre + 1 + k ∧ vBody pre + 1 + k ≤ vBody pre + k) := by omega
      simp only [Option.bind_some, d1, if_false])
    (by
      intro j hj
      have hj1 : vBody pre + 1 + j ≤ vLen pre k post := by omega
      rw [mv_id pre k post ts hs hlen _ hj1]
      have : ¬ (vBody pre + 1 + j = vLen pre k post) := by omega
      simp [this])
    k 0 10 { (mvSt pre k post asg ts (vBody pre)) with cvt := 0, cve := ts.getD (vBody pre + 1) 0 }
    (by omega) hk10 rfl
  unfold procSeg
  rw [mv_get pre k post asg ts hs hlen hk _ h1, mv_id pre k post ts hs hlen _ h1, hinfo]
  simp only [stRepeatStart, stRepeatEnd, stVoltaStart, stVoltaEnd, stLeapEnd, stToCoda, stJumpBack, stFine, stEnd,
    Bool.false_eq_true, if_false, Option.isSome_some, Bool.not_false, Bool.and_self, if_true, Option.bind_some]
  rw [hscan]
  simp only [Option.bind_some, stFirst, Option.some.injEq]
  have hsum := sumLen_numsOf asg k hasg
  -- compare the states
  have hinfoEq : (if ts.getD (vBody pre) 0 = 0 then
        setTy (vBody pre) SegType.leapEnd
          (scanFold (vBody pre) (vBody pre) 0 ((List.range' 0 k).map (numsOf asg)) (mvSt pre k post asg ts (vBody pre)).info)
      else scanFold (vBody pre) (vBody pre) 0 ((List.range' 0 k).map (numsOf asg)) (mvSt pre k post asg ts (vBody pre)).info) =
      (mvSt pre k post asg ts (vBody pre + 1)).info := by
    apply List.ext_getElem?
    intro x
    have hsf := scanFold_get (vBody pre) (vBody pre) ((List.range' 0 k).map (numsOf asg)) 0
      (mvSt pre k post asg ts (vBody pre)).info x (by omega)
    have hent : (enum 0 ((List.range' 0 k).map (numsOf asg))).flatMap
        (fun q => q.2.map fun n => (Tag.volta n, Dest.seg (vBody pre + 1 + q.1))) =
        (voltaPairs (vBody pre) k asg).map (fun p => (Tag.volta p.1, Dest.seg p.2)) := by
      rw [enum_range'_flatMap (numsOf asg) (fun j ns => ns.map fun n => (Tag.volta n, Dest.seg (vBody pre + 1 + j))) k 0]
      unfold voltaPairs
      rw [List.map_flatMap, ← List.range_eq_range']
      apply flatMap_congr'
      intro j _
      rw [List.map_map]
      rfl
    have hget : (if ts.getD (vBody pre) 0 = 0 then
          setTy (vBody pre) SegType.leapEnd
            (scanFold (vBody pre) (vBody pre) 0 ((List.range' 0 k).map (numsOf asg)) (mvSt pre k post asg ts (vBody pre)).info)
        else scanFold (vBody pre) (vBody pre) 0 ((List.range' 0 k).map (numsOf asg)) (mvSt pre k post asg ts (vBody pre)).info)[x]? =
        ((scanFold (vBody pre) (vBody pre) 0 ((List.range' 0 k).map (numsOf asg)) (mvSt pre k post asg ts (vBody pre)).info)[x]?).map
          (fun s => if x = vBody pre ∧ ts.getD (vBody pre) 0 = 0 then { s with ty := SegType.leapEnd } else s) := by
      by_cases h0 : ts.getD (vBody pre) 0 = 0
      · simp only [h0, if_true, setTy]
        rw [modAt_get]
        by_cases hx : x = vBody pre
        · simp [hx]
        · simp only [hx, if_false, false_and]
          cases (scanFold (vBody pre) (vBody pre) 0 ((List.range' 0 k).map (numsOf asg)) (mvSt pre k post asg ts (vBody pre)).info)[x]? <;> rfl
      · simp only [h0, if_false, and_false]
        cases (scanFold (vBody pre) (vBody pre) 0 ((List.range' 0 k).map (numsOf asg)) (mvSt pre k post asg ts (vBody pre)).info)[x]? <;> rfl
    rw [hget, hsf, hent, mvSt_get, mvSt_get]
    by_cases hx : x < vLen pre k post
    · simp only [hx, if_true, Option.map_some, Option.some.injEq]
      by_cases hxc : x = vBody pre
      · subst hxc
        have e1 : vBody pre < vBody pre + 1 := Nat.lt_succ_self _
        have e2 : ¬ vBody pre + 1 + 0 ≤ vBody pre := by omega
        simp only [mvCell, Nat.lt_irrefl, if_false, e1, if_true, mvFinal, e2, List.append_nil, List.nil_append, true_and]
        simp only [tyAt]
        split <;> rfl
      · have e0 : ¬ (x = vBody pre ∧ ts.getD (vBody pre) 0 = 0) := fun h => hxc h.1
        simp only [hxc, e0, if_false, List.append_nil, false_and]
        by_cases hlt : x < vBody pre
        · have e1 : x < vBody pre + 1 := by omega
          have e2 : ¬ vBody pre + 1 + 0 ≤ x := by omega
          simp only [mvCell, hlt, e1, e2, if_true, if_false, List.append_nil]
        · have e1 : ¬ x < vBody pre + 1 := by omega
          have e2 : vBody pre + 1 + 0 ≤ x := by omega
          have e3 : vBody pre < vBody pre + 1 := Nat.lt_succ_self _
          simp only [mvCell, hlt, e1, e2, e3, Nat.lt_irrefl, if_true, if_false, List.nil_append]
          unfold mvPending
          by_cases hb : vBody pre < x ∧ x ≤ vBody pre + k
          · have hbk : x - (vBody pre + 1 + 0) < k := by omega
            have : ((List.range' 0 k).map (numsOf asg))[x - (vBody pre + 1 + 0)]? = some (numsOf asg (x - vBody pre - 1)) := by
              rw [List.getElem?_map, List.getElem?_range' hbk]
              simp only [Option.map_some, Option.some.injEq]
              congr 1; omega
            simp [hb, this]
          · have hbk : ¬ x - (vBody pre + 1 + 0) < k := by omega
            have : ((List.range' 0 k).map (numsOf asg))[x - (vBody pre + 1 + 0)]? = none := by
              rw [List.getElem?_map, List.getElem?_eq_none (by simp; omega)]
              rfl
            simp [hb, this]
    · simp [hx]
  by_cases h0 : ts.getD (vBody pre) 0 = 0
  · simp only [h0, if_true] at hinfoEq ⊢
    have e3 : vBody pre < vBody pre + 1 := Nat.lt_succ_self _
    have e4 : ¬ vBody pre + 2 ≤ vBody pre + 1 := by omega
    have e5 : ¬ vBody pre + 2 ≤ vBody pre := by omega
    simp only [mvSt, BState.mk.injEq, Nat.lt_irrefl, e3, e4, e5, if_true, if_false, false_and, Nat.zero_add, hsum, and_self, and_true]
    exact hinfoEq
  · simp only [h0, if_false] at hinfoEq ⊢
    have e3 : vBody pre < vBody pre + 1 := Nat.lt_succ_self _
    have e4 : ¬ vBody pre + 2 ≤ vBody pre + 1 := by omega
    have e5 : ¬ vBody pre + 2 ≤ vBody pre := by omega
    simp only [mvSt, BState.mk.injEq, Nat.lt_irrefl, e3, e4, e5, if_true, if_false, false_and, Nat.zero_add, hsum, and_self, and_true]
    exact hinfoEq

theorem stRepeatEnd_voltaEnd (times : List Int) (i : Nat) (b : BInfo) (idSe : Dest) (st : BState)
    (h : b.voltaEnd = true) : stRepeatEnd times i b idSe st = some st := by
  unfold stRepeatEnd
  cases b.repeatEnd <;> simp [h]

theorem stVoltaEnd_eq (times : List Int) (i : Nat) (b : BInfo) (st st' : BState) (s : SegInfo) (d : Dest)
    (hve : b.voltaEnd = true) (hs : st.info[i]? = some s)
    (hloop : voltaEndLoop times i b.repeatEnd s.voltaNums st = some st')
    (hid : s.voltaNums.contains st'.cvt = true → idOf times st'.cve = some d) :
    stVoltaEnd times i b st =
      some (if s.voltaNums.contains st'.cvt then { st' with info := addTo i [(Tag.plain, d)] st'.info } else st') := by
  unfold stVoltaEnd
  simp only [hve, if_true, hs, hloop]
  cases hc : s.voltaNums.contains st'.cvt with
  | false => simp
  | true => simp [hid hc]

theorem mBack0_pos (asg : List Nat) (k : Nat) (hk2 : 2 ≤ k) (hlast : asg.getLast? = some (k - 1))
    (hsurj : ∀ j, j < k → j ∈ asg) : 0 < mBack asg 0 := by
  unfold mBack
  rw [List.count_pos_iff]
  have hne : asg ≠ [] := by intro h; simp [h] at hlast
  have h0 : 0 ∈ asg := hsurj 0 (by omega)
  rw [← List.dropLast_concat_getLast hne, List.mem_append] at h0
  rcases h0 with h0 | h0
  · exact h0
  · exfalso
    simp only [List.mem_singleton] at h0
    have : asg.getLast? = some (asg.getLast hne) := List.getLast?_eq_some_getLast hne
    rw [this] at hlast
    simp only [Option.some.injEq] at hlast
    omega

variable (hlast : asg.getLast? = some (k - 1)) (hsurj : ∀ j, j < k → j ∈ asg) (ha : 0 ≤ ts.getD (vBody pre) 0)

include hs hlen hk hlast hsurj ha in
/-- a bracket: back to the section once per number other than the last, on after the last number -/
theorem mv_step_bracket (b : Nat) (hb : b < k) :
    procSeg (mvLayout pre k post asg ts) (mkTable (mvLayout pre k post asg ts)) ts (vBody pre + 1 + b)
      (ts.getD (vBody pre + 1 + b) 0) (ts.getD (vBody pre + 1 + b + 1) 0)
      (mvSt pre k post asg ts (vBody pre + 1 + b)) = some (mvSt pre k post asg ts (vBody pre + 1 + b + 1)) := by
  have hv : vLen pre k post = vBody pre + 1 + k + (if post then 1 else 0) := rfl
  have h1 : vBody pre + 1 + b + 1 ≤ vLen pre k post := by omega
  have hil : vBody pre + 1 + b < vLen pre k post := by omega
  have hinfo := mv_info pre k post asg ts hs hlen hk (vBody pre + 1 + b + 1) h1
  have c1 : ¬ (vBody pre + 1 + b + 1 = vBody pre) := by omega
  have c4 : (vBody pre + 2 ≤ vBody pre + 1 + b + 1 ∧ vBody pre + 1 + b + 1 ≤ vBody pre + k + 1) := by omega
  have hve : (infoAt (mvLayout pre k post asg ts) (ts.getD (vBody pre + 1 + b + 1) 0)).voltaEnd = true := by
    rw [hinfo]; exact decide_eq_true c4
  have e1 : (infoAt (mvLayout pre k post asg ts) (ts.getD (vBody pre + 1 + b + 1) 0)).repeatStart = false := by
    rw [hinfo]; exact decide_eq_false c1
  have e2 : (infoAt (mvLayout pre k post asg ts) (ts.getD (vBody pre + 1 + b + 1) 0)).coda = false := by rw [hinfo]
  have e3 : (infoAt (mvLayout pre k post asg ts) (ts.getD (vBody pre + 1 + b + 1) 0)).tocoda = false := by rw [hinfo]
  have e4 : (infoAt (mvLayout pre k post asg ts) (ts.getD (vBody pre + 1 + b + 1) 0)).dacapo = false := by rw [hinfo]
  have e5 : (infoAt (mvLayout pre k post asg ts) (ts.getD (vBody pre + 1 + b + 1) 0)).fine = false := by rw [hinfo]
  have e6 : (infoAt (mvLayout pre k post asg ts) (ts.getD (vBody pre + 1 + b + 1) 0)).segno = false := by rw [hinfo]
  have e7 : (infoAt (mvLayout pre k post asg ts) (ts.getD (vBody pre + 1 + b + 1) 0)).dalsegno = false := by rw [hinfo]
  have e8 : (infoAt (mvLayout pre k post asg ts) (ts.getD (vBody pre + 1 + b + 1) 0)).isEnd =
      decide (vBody pre + 1 + b + 1 = vLen pre k post) := by rw [hinfo]
  -- the entry of this segment so far
  have hcell : (mvSt pre k post asg ts (vBody pre + 1 + b)).info[vBody pre + 1 + b]? =
      some ({ voltaNums := numsOf asg b } : SegInfo) := by
    rw [mvSt_get]
    have d1 : vBody pre < vBody pre + 1 + b := by omega
    have d2 : (vBody pre < vBody pre + 1 + b ∧ vBody pre + 1 + b ≤ vBody pre + k) := by omega
    have d3 : vBody pre + 1 + b - vBody pre - 1 = b := by omega
    simp only [hil, if_true, mvCell, Nat.lt_irrefl, if_false, d1, mvPending, d2, and_self, d3]
  -- the loop
  have hcvt : (mvSt pre k post asg ts (vBody pre + 1 + b)).cvt = asg.length := by
    have d1 : vBody pre < vBody pre + 1 + b := by omega
    simp [mvSt, d1]
  have hcve : (mvSt pre k post asg ts (vBody pre + 1 + b)).cve = ts.getD (vBody pre + 1 + k) 0 := by
    have d1 : vBody pre < vBody pre + 1 + b := by omega
    simp [mvSt, d1]
  have hm : ((numsOf asg b).filter fun n => decide (n ≠ (mvSt pre k post asg ts (vBody pre + 1 + b)).cvt)).length = mBack asg b := by
    rw [hcvt]; exact numsOf_back asg b
  have hidc : idOf ts (ts.getD (vBody pre) 0) = some (Dest.seg (vBody pre)) := by
    rw [mv_id pre k post ts hs hlen _ (by omega)]
    have : ¬ vBody pre = vLen pre k post := by omega
    simp [this]
  have hre : (infoAt (mvLayout pre k post asg ts) (ts.getD (vBody pre + 1 + b + 1) 0)).repeatEnd =
      if (b + 1 < k ∨ (k = 1 ∧ b = 0)) then some (ts.getD (vBody pre) 0) else none := by
    rw [hinfo]
    show (if _ then _ else _) = _
    by_cases hR : (b + 1 < k ∨ (k = 1 ∧ b = 0))
    · have : (vBody pre + 2 ≤ vBody pre + 1 + b + 1 ∧ (vBody pre + 1 + b + 1 - vBody pre - 1 < k ∨ (k = 1 ∧ vBody pre + 1 + b + 1 = vBody pre + 2))) := by omega
      rw [if_pos this, if_pos hR]
    · have : ¬ (vBody pre + 2 ≤ vBody pre + 1 + b + 1 ∧ (vBody pre + 1 + b + 1 - vBody pre - 1 < k ∨ (k = 1 ∧ vBody pre + 1 + b + 1 = vBody pre + 2))) := by omega
      rw [if_neg this, if_neg hR]
  have hnew : mBack asg b ≠ 0 →
      newCvrs (infoAt (mvLayout pre k post asg ts) (ts.getD (vBody pre + 1 + b + 1) 0)).repeatEnd
        (mvSt pre k post asg ts (vBody pre + 1 + b)).cvrs = ts.getD (vBody pre) 0 := by
    intro _
    rw [hre]
    by_cases hb0 : b = 0
    · subst hb0
      have hR : (0 + 1 < k ∨ (k = 1 ∧ 0 = 0)) := by omega
      have d1 : ¬ (vBody pre + 2 ≤ vBody pre + 1 + 0) := by omega
      have hc0 : (mvSt pre k post asg ts (vBody pre + 1 + 0)).cvrs = 0 := by
        simp only [mvSt, d1, false_and, if_false]
      rw [if_pos hR, hc0]
      simp only [newCvrs]
      split <;> omega
    · have hk2 : 2 ≤ k := by omega
      have hp := mBack0_pos asg k hk2 hlast hsurj
      have d1 : vBody pre + 2 ≤ vBody pre + 1 + b := by omega
      have hc : (mvSt pre k post asg ts (vBody pre + 1 + b)).cvrs = ts.getD (vBody pre) 0 := by
        simp only [mvSt, d1, hp, and_self, if_true]
      rw [hc]
      by_cases hR : (b + 1 < k ∨ (k = 1 ∧ b = 0))
      · rw [if_pos hR]
        simp only [newCvrs]
        split <;> omega
      · rw [if_neg hR]
        rfl
  have hloop := voltaEndLoop_eq ts (vBody pre + 1 + b)
    (infoAt (mvLayout pre k post asg ts) (ts.getD (vBody pre + 1 + b + 1) 0)).repeatEnd (Dest.seg (vBody pre))
    (numsOf asg b) (mvSt pre k post asg ts (vBody pre + 1 + b))
    (by
      rw [hm]
      by_cases h0 : mBack asg b = 0
      · exact Or.inl h0
      · right; rw [hnew h0]; exact hidc)
  rw [hm] at hloop
  -- next segment after the group
  have hnext : idOf ts (ts.getD (vBody pre + 1 + k) 0) = some (vNext pre k post) := by
    rw [mv_id pre k post ts hs hlen _ (by omega)]
    unfold vNext
    cases post with
    | true =>
      have : ¬ vBody pre + 1 + k = vLen pre k true := by simp at hv; omega
      simp only [this, if_false, if_true]
      congr 2; omega
    | false =>
      have : vBody pre + 1 + k = vLen pre k false := by simp at hv; omega
      simp [this]
  have hsv := stVoltaEnd_eq ts (vBody pre + 1 + b)
    (infoAt (mvLayout pre k post asg ts) (ts.getD (vBody pre + 1 + b + 1) 0))
    (mvSt pre k post asg ts (vBody pre + 1 + b)) _ _ (vNext pre k post) hve hcell hloop
    (by intro _; simp only [hcve]; exact hnext)
  simp only [hcvt, numsOf_last] at hsv
  -- unfold the step
  unfold procSeg
  rw [mv_get pre k post asg ts hs hlen hk _ h1, mv_id pre k post ts hs hlen _ h1]
  simp only [stRepeatStart, stVoltaStart]
  simp only [e1, Bool.false_eq_true, if_false, stRepeatEnd_voltaEnd _ _ _ _ _ hve, Option.bind_some, hve,
    Bool.not_true, Bool.and_false, hsv, stLeapEnd, stToCoda, stJumpBack, stFine, stEnd, stFirst, e2, e3, e4, e5, e6, e7, e8]
  -- compare
  have hinfoEq := mv_step_info pre k post asg ts (vBody pre + 1 + b)
    (fun s => { s with to := s.to ++ mvBracketRaw pre k post asg b,
                       ty := if ts.getD (vBody pre + 1 + b) 0 = 0 then SegType.leapEnd else s.ty })
    hil (by omega)
    (by
      have d1 : vBody pre < vBody pre + 1 + b := by omega
      have d2 : (vBody pre < vBody pre + 1 + b ∧ vBody pre + 1 + b ≤ vBody pre + k) := by omega
      have d3 : vBody pre + 1 + b - vBody pre - 1 = b := by omega
      have d4 : ¬ vBody pre + 1 + b < vBody pre := by omega
      have d5 : ¬ vBody pre + 1 + b = vBody pre := by omega
      have d6 : vBody pre + 1 + b ≤ vBody pre + k := by omega
      simp only [mvCell, Nat.lt_irrefl, if_false, d1, if_true, mvPending, d2, and_self, mvFinal, d3, d4, d5, d6,
        List.nil_append, tyAt])
  have hcv : (mvSt pre k post asg ts (vBody pre + 1 + b + 1)).cvrs =
      (if mBack asg b = 0 then (mvSt pre k post asg ts (vBody pre + 1 + b)).cvrs
        else newCvrs (infoAt (mvLayout pre k post asg ts) (ts.getD (vBody pre + 1 + b + 1) 0)).repeatEnd
          (mvSt pre k post asg ts (vBody pre + 1 + b)).cvrs) := by
    by_cases h0 : mBack asg b = 0
    · simp only [h0, if_true]
      by_cases hb0 : b = 0
      · subst hb0
        have d1 : ¬ (vBody pre + 2 ≤ vBody pre + 1 + 0) := by omega
        simp [mvSt, d1, h0]
      · have hk2 : 2 ≤ k := by omega
        have hp := mBack0_pos asg k hk2 hlast hsurj
        have d1 : vBody pre + 2 ≤ vBody pre + 1 + b := by omega
        have d2 : vBody pre + 2 ≤ vBody pre + 1 + b + 1 := by omega
        simp [mvSt, d1, d2, hp]
    · simp only [h0, if_false]
      rw [hnew h0]
      by_cases hb0 : b = 0
      · subst hb0
        have d2 : vBody pre + 2 ≤ vBody pre + 1 + 0 + 1 := by omega
        have : 0 < mBack asg 0 := by omega
        simp [mvSt, d2, this]
      · have hk2 : 2 ≤ k := by omega
        have hp := mBack0_pos asg k hk2 hlast hsurj
        have d2 : vBody pre + 2 ≤ vBody pre + 1 + b + 1 := by omega
        simp [mvSt, d2, hp]
  have hrest : (mvSt pre k post asg ts (vBody pre + 1 + b + 1)).cve = (mvSt pre k post asg ts (vBody pre + 1 + b)).cve ∧
      (mvSt pre k post asg ts (vBody pre + 1 + b + 1)).cvt = (mvSt pre k post asg ts (vBody pre + 1 + b)).cvt := by
    have d1 : vBody pre < vBody pre + 1 + b := by omega
    have d2 : vBody pre < vBody pre + 1 + b + 1 := by omega
    simp [mvSt, d1, d2]
  have hcvt' : (mvSt pre k post asg ts (vBody pre + 1 + b + 1)).cvt = asg.length := by rw [hrest.2, hcvt]
  have hrec : ∀ (inf : List SegInfo) (x e : Int) (t : Nat),
      inf = (mvSt pre k post asg ts (vBody pre + 1 + b + 1)).info →
      x = (mvSt pre k post asg ts (vBody pre + 1 + b + 1)).cvrs →
      e = (mvSt pre k post asg ts (vBody pre + 1 + b + 1)).cve →
      t = (mvSt pre k post asg ts (vBody pre + 1 + b + 1)).cvt →
      (BState.mk inf x e t) = mvSt pre k post asg ts (vBody pre + 1 + b + 1) := by
    intro inf x e t h1 h2 h3 h4
    subst h1 h2 h3 h4
    rfl
  have fin1 : ∀ (X : List (Tag × Dest)) (T : Option SegType) (I : List SegInfo) (x e : Int) (t : Nat),
      X = mvBracketRaw pre k post asg b →
      T = (if ts.getD (vBody pre + 1 + b) 0 = 0 then some SegType.leapEnd else none) →
      I = modAt (vBody pre + 1 + b) (fun s => { s with to := s.to ++ X, ty := match T with | some y => y | none => s.ty })
            (mvSt pre k post asg ts (vBody pre + 1 + b)).info →
      x = (mvSt pre k post asg ts (vBody pre + 1 + b + 1)).cvrs →
      e = (mvSt pre k post asg ts (vBody pre + 1 + b + 1)).cve →
      t = (mvSt pre k post asg ts (vBody pre + 1 + b + 1)).cvt →
      (BState.mk I x e t) = mvSt pre k post asg ts (vBody pre + 1 + b + 1) := by
    intro X T I x e t hX hT hI h2 h3 h4
    apply hrec _ _ _ _ _ h2 h3 h4
    rw [hI, ← hinfoEq, hX, hT]
    congr 1
    funext s
    by_cases h0 : ts.getD (vBody pre + 1 + b) 0 = 0 <;> simp only [h0, if_true, if_false]
  by_cases hEq : vBody pre + 1 + b + 1 = vLen pre k post
  · have dE : decide (vBody pre + 1 + b + 1 = vLen pre k post) = true := decide_eq_true hEq
    have iE : (if vBody pre + 1 + b + 1 = vLen pre k post then Dest.fin else Dest.seg (vBody pre + 1 + b + 1)) = Dest.fin :=
      if_pos hEq
    by_cases hL : asg.getLast? = some b <;> by_cases h0 : ts.getD (vBody pre + 1 + b) 0 = 0 <;>
      (simp only [hL, decide_true, decide_false, if_true, if_false, Bool.false_eq_true, dE, iE, h0, Option.some.injEq]
       refine fin1 (mvBracketRaw pre k post asg b)
         (if ts.getD (vBody pre + 1 + b) 0 = 0 then some SegType.leapEnd else none) _ _ _ _ rfl rfl ?_
         hcv.symm hrest.1.symm hcvt'.symm
       simp only [h0, if_true, if_false]
       simp [addTo, setTy, modAt_modAt, mvBracketRaw, hL, if_pos hEq])
  · have dE : decide (vBody pre + 1 + b + 1 = vLen pre k post) = false := decide_eq_false hEq
    by_cases hL : asg.getLast? = some b <;> by_cases h0 : ts.getD (vBody pre + 1 + b) 0 = 0 <;>
      (simp only [hL, decide_true, decide_false, if_true, if_false, Bool.false_eq_true, dE, h0, Option.some.injEq]
       refine fin1 (mvBracketRaw pre k post asg b)
         (if ts.getD (vBody pre + 1 + b) 0 = 0 then some SegType.leapEnd else none) _ _ _ _ rfl rfl ?_
         hcv.symm hrest.1.symm hcvt'.symm
       simp only [h0, if_true, if_false]
       simp [addTo, setTy, modAt_modAt, mvBracketRaw, hL, if_neg hEq])

end mvsteps

/-! ### cleaning up the raw destinations of the section and of a bracket -/

def fv (p : Nat × Nat) : Tag × Dest := (Tag.volta p.1, Dest.seg p.2)
def fp (d : Dest) : Tag × Dest := (Tag.plain, d)

theorem filterMap_mix_some (sel : Tag × Dest → Option Dest) (hv : ∀ n j, sel (Tag.volta n, Dest.seg j) = none)
    (hp : ∀ d, sel (Tag.plain, d) = some d) (P : List (Nat × Nat)) (l : List Dest) :
    (P.map fv ++ l.map fp).filterMap sel = l := by
  induction P with
  | nil =>
    simp only [List.map_nil, List.nil_append]
    induction l with
    | nil => rfl
    | cons d ds ih => simp only [List.map_cons, List.filterMap_cons, fp, hp, ih]
  | cons q qs ih => simp only [List.map_cons, List.cons_append, List.filterMap_cons, fv, hv, ih]

theorem filterMap_mix_none (sel : Tag × Dest → Option Dest) (hv : ∀ n j, sel (Tag.volta n, Dest.seg j) = none)
    (hp : ∀ d, sel (Tag.plain, d) = none) (P : List (Nat × Nat)) (l : List Dest) :
    (P.map fv ++ l.map fp).filterMap sel = [] := by
  induction P with
  | nil =>
    simp only [List.map_nil, List.nil_append]
    induction l with
    | nil => rfl
    | cons d ds ih => simp only [List.map_cons, List.filterMap_cons, fp, hp, ih]
  | cons q qs ih => simp only [List.map_cons, List.cons_append, List.filterMap_cons, fv, hv, ih]

theorem foldr_mix (F : Tag × Dest → Option (List (Nat × Nat)) → Option (List (Nat × Nat)))
    (hFv : ∀ n j l, F (Tag.volta n, Dest.seg j) (some l) = some ((n, j) :: l))
    (hFp : ∀ d l, F (Tag.plain, d) (some l) = some l) (P : List (Nat × Nat)) (l : List Dest) :
    List.foldr F (some []) (P.map fv ++ l.map fp) = some P := by
  induction P with
  | nil =>
    simp only [List.map_nil, List.nil_append]
    induction l with
    | nil => rfl
    | cons d ds ih => simp only [List.map_cons, List.foldr_cons, ih, fp, hFp]
  | cons q qs ih => simp only [List.map_cons, List.cons_append, List.foldr_cons, ih, fv, hFv]

theorem nav1Of_append (a b : List (Tag × Dest)) : nav1Of (a ++ b) = nav1Of a ++ nav1Of b := by
  unfold nav1Of; rw [List.filterMap_append]

theorem nav1Of_fv (P : List (Nat × Nat)) : nav1Of (P.map fv) = [] := by
  induction P with
  | nil => rfl
  | cons q qs ih =>
    have : nav1Of (fv q :: qs.map fv) = nav1Of (qs.map fv) := rfl
    rw [List.map_cons, this, ih]

theorem nav1Of_fp (l : List Dest) : nav1Of (l.map fp) = [] := by
  induction l with
  | nil => rfl
  | cons d ds ih =>
    have : nav1Of (fp d :: ds.map fp) = nav1Of (ds.map fp) := rfl
    rw [List.map_cons, this, ih]

/-- volta destinations and plain destinations: the sorted volta destinations, then the plain segment destinations
(ascending, without those that are volta destinations), then END if it was among them -/
theorem cleanTo_mix (P : List (Nat × Nat)) (l : List Dest) :
    cleanToBase (P.map fv ++ l.map fp) =
      some (((P.foldl (fun acc x => insVolta x acc) []).map fun x => Dest.seg x.2) ++
        (((l.foldl (fun acc d => match d with
            | Dest.seg j => insSorted j acc
            | Dest.fin => acc) []).map Dest.seg).filter
          fun d => !((P.foldl (fun acc x => insVolta x acc) []).map fun x => Dest.seg x.2).contains d) ++
        (if l.contains Dest.fin then [Dest.fin] else []), []) := by
  unfold cleanToBase
  simp only
  have hn : nav1Of (P.map fv ++ l.map fp) = [] := by rw [nav1Of_append, nav1Of_fv, nav1Of_fp]; rfl
  rw [hn, filterMap_mix_some _ (fun _ _ => rfl) (fun _ => rfl),
    filterMap_mix_none _ (fun _ _ => rfl) (fun _ => rfl), foldr_mix _ (fun _ _ _ => rfl) (fun _ _ => rfl)]
  simp only [Option.bind_eq_bind, Option.bind_some, List.contains_nil, Bool.or_false, List.nil_append]
  cases l.contains Dest.fin <;> first | rfl | (simp; rfl)

theorem sort_replicate (x : Nat × Nat) (m : Nat) :
    (List.replicate m x).foldl (fun acc x => insVolta x acc) [] = List.replicate m x := by
  obtain ⟨_, hp⟩ := sortVolta_spec (List.replicate m x) [] List.Pairwise.nil
  rw [List.append_nil] at hp
  rw [List.eq_replicate_iff]
  refine ⟨?_, ?_⟩
  · rw [hp.length_eq]; simp
  · intro b hb
    exact (List.mem_replicate.mp (hp.subset hb)).2

section mvmain
variable (pre : Bool) (k : Nat) (post : Bool) (asg : List Nat) (ts : List Int)
variable (hs : StrictSorted ts) (hlen : ts.length = vLen pre k post + 1) (hk : 1 ≤ k) (hk10 : k ≤ 10)
variable (hasg : ∀ x ∈ asg, x < k) (hN9 : asg.length ≤ 9)
variable (hlast : asg.getLast? = some (k - 1)) (hsurj : ∀ j, j < k → j ∈ asg) (ha : 0 ≤ ts.getD (vBody pre) 0)

theorem mv_noNav (x : Nat) : nav1Of (mvFinal pre k post asg ts x).to = [] := by
  unfold mvFinal
  split
  · rfl
  · split
    · exact nav1Of_fv _
    · split
      · unfold mvBracketRaw
        have e1 : List.replicate (mBack asg (x - vBody pre - 1)) (Tag.volta 10, Dest.seg (vBody pre)) =
            (List.replicate (mBack asg (x - vBody pre - 1)) (10, vBody pre)).map fv := by simp [fv]
        rw [nav1Of_append, nav1Of_append, e1, nav1Of_fv]
        split <;> split <;> rfl
      · rfl

include hlast hk hasg in
theorem mv_cleanTo (x : Nat) (hx : x < vLen pre k post) :
    cleanToBase (mvFinal pre k post asg ts x).to = some (mTo pre k post asg x, []) := by
  have hv : vLen pre k post = vBody pre + 1 + k + (if post then 1 else 0) := rfl
  unfold mvFinal mTo
  by_cases h1 : x < vBody pre
  · simp [h1, cleanToBase, nav1Of, insSorted, insVolta]
  · by_cases h2 : x = vBody pre
    · subst h2
      have hirr : ¬ vBody pre < vBody pre := Nat.lt_irrefl _
      simp only [hirr, if_false, if_true]
      have := cleanTo_mix (voltaPairs (vBody pre) k asg) []
      simp only [List.map_nil, List.append_nil] at this
      have e : (voltaPairs (vBody pre) k asg).map (fun p => (Tag.volta p.1, Dest.seg p.2)) =
          (voltaPairs (vBody pre) k asg).map fv := rfl
      rw [e, this, voltaPairs_sorted _ _ _ hasg, voltaTarget_dests]
      simp [bracketDest]
    · by_cases h3 : x ≤ vBody pre + k
      · simp only [h1, h2, h3, if_false, if_true]
        obtain ⟨b, rfl⟩ : ∃ b, x = vBody pre + 1 + b := ⟨x - vBody pre - 1, by omega⟩
        have eb : vBody pre + 1 + b - vBody pre - 1 = b := by omega
        rw [eb]
        have hraw : mvBracketRaw pre k post asg b =
            (List.replicate (mBack asg b) (10, vBody pre)).map fv ++
              ((if asg.getLast? = some b then [vNext pre k post] else []) ++
               (if vBody pre + 1 + b + 1 = vLen pre k post then [Dest.fin] else [])).map fp := by
          unfold mvBracketRaw
          by_cases hL : asg.getLast? = some b <;> by_cases hE : vBody pre + 1 + b + 1 = vLen pre k post <;>
            simp [hL, hE, fv, fp]
        rw [hraw, cleanTo_mix, sort_replicate]
        by_cases hL : asg.getLast? = some b
        · have hbk : b = k - 1 := by rw [hlast] at hL; simpa using hL.symm
          cases post with
          | false =>
            have hE : vBody pre + 1 + b + 1 = vLen pre k false := by simp at hv; omega
            simp [hL, hE, vNext]
          | true =>
            have hE : ¬ vBody pre + 1 + b + 1 = vLen pre k true := by simp at hv; omega
            have hne : ¬ (vBody pre + k + 1 = vBody pre) := by omega
            simp [hL, hE, vNext, insSorted, hne]
        · have hE : ¬ vBody pre + 1 + b + 1 = vLen pre k post := by
            intro hE
            apply hL
            rw [hlast]
            congr 1
            cases post <;> simp at hv <;> omega
          simp [hL, hE]
      · simp [h1, h2, h3, cleanToBase, nav1Of, insSorted, insVolta]

include hs hlen hk hk10 hasg hN9 hlast hsurj ha in
/-- `add_segments` on a repeat with k brackets carrying the numbers 1..N: the table `mvGraph` -/
theorem mv_mkSegments :
    mkSegments (mvLayout pre k post asg ts) =
      some (mvGraph pre k post asg (tyAt ts) (fun i => (ts.getD i 0, ts.getD (i + 1) 0))) := by
  have hv : vLen pre k post = vBody pre + 1 + k + (if post then 1 else 0) := rfl
  have hkeys := mkTable_keys (mvLayout pre k post asg ts) ts hs (mv_isKey pre k post asg ts hs hlen hk)
  have hsup : (mvLayout pre k post asg ts).supported = true := by
    simp only [Layout.supported, mvLayout, List.all_map, List.all_eq_true, Function.comp, decide_eq_true_eq]
    intro j _ n hn
    exact numsOf_small asg j hN9 n hn
  have he : (if post then 1 else 0) ≤ 1 := by cases post <;> simp
  have hstep : ∀ i, i < vLen pre k post → ∀ ss se, ts[i]? = some ss → ts[i + 1]? = some se →
      procSeg (mvLayout pre k post asg ts) (mkTable (mvLayout pre k post asg ts)) ts i ss se
        (mvSt pre k post asg ts i) = some (mvSt pre k post asg ts (i + 1)) := by
    intro i hi ss se hss hse
    have e1 : ss = ts.getD i 0 := by rw [List.getD_eq_getElem?_getD, hss]; rfl
    have e2 : se = ts.getD (i + 1) 0 := by rw [List.getD_eq_getElem?_getD, hse]; rfl
    subst e1 e2
    by_cases h1 : i < vBody pre
    · exact mv_step_pre pre k post asg ts hs hlen hk i h1
    · by_cases h2 : i = vBody pre
      · subst h2
        exact mv_step_body pre k post asg ts hs hlen hk hk10 hasg
      · by_cases h3 : i ≤ vBody pre + k
        · obtain ⟨b, rfl⟩ : ∃ b, i = vBody pre + 1 + b := ⟨i - vBody pre - 1, by omega⟩
          exact mv_step_bracket pre k post asg ts hs hlen hk hlast hsurj ha b (by omega)
        · exact mv_step_post pre k post asg ts hs hlen hk i (by omega) hi
  have hproc := procAll_seq (mvLayout pre k post asg ts) (mkTable (mvLayout pre k post asg ts)) ts ts
    (mvSt pre k post asg ts) (vLen pre k post) hlen hstep
  have hinit : mvSt pre k post asg ts 0 = { info := List.replicate (vLen pre k post) {} } := by
    unfold mvSt
    have e : (List.range (vLen pre k post)).map (mvCell pre k post asg ts 0) =
        (List.range (vLen pre k post)).map (fun _ => ({} : SegInfo)) := by
      apply List.map_congr_left
      intro x _
      simp [mvCell]
    rw [e, range_map_const]
    simp
  unfold mkSegments
  simp only [hsup, Bool.not_true, Bool.false_eq_true, if_false, hkeys]
  have hnn : ts.length - 1 = vLen pre k post := by omega
  rw [hnn, ← hinit, hproc]
  simp only
  apply buildSegs_eq
  · simp [mvSt, hlen]
  · simp [mvSt, mvGraph]
  · intro i inf hinf
    rw [mvSt_get] at hinf
    have hi : i < vLen pre k post := by
      by_cases h : i < vLen pre k post
      · exact h
      · simp [h] at hinf
    simp only [hi, if_true, Option.some.injEq, mvCell] at hinf
    subst hinf
    have hnav : nav1Of (mvFinal pre k post asg ts i).to = [] := mv_noNav pre k post asg ts i
    refine ⟨ts.getD i 0, ts.getD (i + 1) 0, mTo pre k post asg i, [], getD_get ts i (by omega),
      getD_get ts (i + 1) (by omega), ?_, ?_⟩
    · rw [Nat.zero_add, cleanTo_noNav _ _ hnav]
      exact mv_cleanTo pre k post asg ts hk hasg hlast i hi
    rw [mvGraph_get pre k post asg _ _ i hi]
    have hty : (mvFinal pre k post asg ts i).ty = tyAt ts i := by
      unfold mvFinal
      split
      · rfl
      · split
        · rfl
        · split <;> rfl
    rw [hty]

end mvmain

end C09
