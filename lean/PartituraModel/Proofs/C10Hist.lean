/-
Helper lemmas for Props/C10Hist.lean (round 5): Model/StepMapHist.lean.
-/
import PartituraModel.Model.StepMapHist
import PartituraModel.Proofs.C10Notes

namespace C10
open Model Model.StepMap

/-! ### a stable sort commutes with `filterMap` -/

theorem insertBy_cons_of_le {α : Type} (key : α → Int) (a : α) (l : List α)
    (h : ∀ b, l.head? = some b → key a ≤ key b) : insertBy key a l = a :: l := by
  cases l with
  | nil => rfl
  | cons b l' =>
    have := h b rfl
    simp [insertBy, this]

theorem insertBy_cons_le {α : Type} (key : α → Int) (a b : α) (l : List α) (h : key a ≤ key b) :
    insertBy key a (b :: l) = a :: b :: l := by
  simp [insertBy, h]

theorem insertBy_cons_gt {α : Type} (key : α → Int) (a b : α) (l : List α) (h : ¬ key a ≤ key b) :
    insertBy key a (b :: l) = b :: insertBy key a l := by
  simp [insertBy, h]

theorem filterMap_insertBy_none {α β : Type} (key : α → Int) (g : α → Option β) (a : α) (hg : g a = none) :
    ∀ S : List α, (insertBy key a S).filterMap g = S.filterMap g
  | [] => by simp [insertBy, hg]
  | x :: S' => by
    by_cases h : key a ≤ key x
    · rw [insertBy_cons_le key a x S' h, List.filterMap_cons, hg]
    · rw [insertBy_cons_gt key a x S' h, List.filterMap_cons, List.filterMap_cons,
        filterMap_insertBy_none key g a hg S']

theorem filterMap_insertBy_some {α β : Type} (key : α → Int) (key' : β → Int) (g : α → Option β)
    (hk : ∀ x y, g x = some y → key' y = key x) (a : α) (b : β) (hg : g a = some b) :
    ∀ S : List α, S.Pairwise (fun x y => key x ≤ key y) →
      (insertBy key a S).filterMap g = insertBy key' b (S.filterMap g)
  | [], _ => by simp [insertBy, hg]
  | x :: S', hp => by
    have hp' := List.pairwise_cons.mp hp
    have ih := filterMap_insertBy_some key key' g hk a b hg S' hp'.2
    by_cases h : key a ≤ key x
    · rw [insertBy_cons_le key a x S' h, List.filterMap_cons, hg]
      simp only
      rw [insertBy_cons_of_le key' b]
      intro y hy
      have hmem : y ∈ (x :: S').filterMap g := List.mem_of_mem_head? hy
      obtain ⟨z, hz, hgz⟩ := List.mem_filterMap.mp hmem
      rw [hk a b hg, hk z y hgz]
      rcases List.mem_cons.mp hz with rfl | hz'
      · exact h
      · have := hp'.1 z hz'
        omega
    · rw [insertBy_cons_gt key a x S' h, List.filterMap_cons, ih, List.filterMap_cons]
      cases hx : g x with
      | none => rfl
      | some x' =>
        simp only
        have : ¬ key' b ≤ key' x' := by rw [hk a b hg, hk x x' hx]; exact h
        rw [insertBy_cons_gt key' b x' _ this]

theorem sortBy_cons {α : Type} (key : α → Int) (a : α) (l : List α) :
    sortBy key (a :: l) = insertBy key a (sortBy key l) := rfl

theorem filterMap_sortBy {α β : Type} (key : α → Int) (key' : β → Int) (g : α → Option β)
    (hk : ∀ x y, g x = some y → key' y = key x) :
    ∀ l : List α, (sortBy key l).filterMap g = sortBy key' (l.filterMap g)
  | [] => rfl
  | a :: l => by
    rw [sortBy_cons]
    cases hg : g a with
    | none =>
      rw [filterMap_insertBy_none key g a hg, filterMap_sortBy key key' g hk l, List.filterMap_cons, hg]
    | some b =>
      rw [filterMap_insertBy_some key key' g hk a b hg _ (sortBy_sorted key l), filterMap_sortBy key key' g hk l,
        List.filterMap_cons, hg]
      rfl

theorem pairwise_filterMap_key {α β : Type} (key : α → Int) (key' : β → Int) (g : α → Option β)
    (hk : ∀ x y, g x = some y → key' y = key x) (l : List α) (h : l.Pairwise fun x y => key x ≤ key y) :
    (l.filterMap g).Pairwise fun x y => key' x ≤ key' y := by
  rw [List.pairwise_filterMap]
  refine h.imp ?_
  intro a b hab x hx y hy
  rw [hk a x hx, hk b y hy]
  exact hab

/-! ### the tables of a described part are in time order -/

theorem liveSorted_sorted (s : HPart) : (liveSorted s).Pairwise fun a b => a.t ≤ b.t :=
  sortBy_sorted _ _

/-- coincident objects come in the order they were added -/
theorem liveSorted_lex (s : HPart) :
    (liveSorted s).Pairwise fun a b => a.t < b.t ∨ (a.t = b.t ∧ (a.seq : Int) ≤ (b.seq : Int)) :=
  sortBy_lex (fun o : HObj => o.t) (fun o : HObj => (o.seq : Int)) _ (sortBy_sorted _ _)

theorem mem_liveSorted (s : HPart) (o : HObj) : o ∈ liveSorted s ↔ o ∈ s.objs ∧ o.live = true := by
  unfold liveSorted
  rw [mem_sortBy, mem_sortBy, List.mem_filter]

def tsKey (o : HObj) : Option TimeMap.TSig := match o.kind with | .ts b bt => some ⟨o.t, b, bt, o.mb⟩ | _ => none
def ksKey (o : HObj) : Option (Int × Int × Mode) := match o.kind with | .ks f m => some (o.t, f, m) | _ => none
def clefKey (o : HObj) : Option RawClef :=
  match o.kind with | .clef st sg ln oc => some (o.t, st, sg, ln, oc) | _ => none
def msKey (o : HObj) : Option (Int × Int × Option Int) :=
  match o.kind with | .measure e n => some (o.t, e, n) | _ => none
def otherKey (o : HObj) : Option (Int × Option Int × Option Int) :=
  match o.kind with | .other e st => some (o.t, e, st) | _ => none

theorem tsOf_eq (l : List HObj) : tsOf l = l.filterMap tsKey := rfl
theorem ksOf_eq (l : List HObj) : ksOf l = l.filterMap ksKey := rfl
theorem clefsOf_eq (l : List HObj) : clefsOf l = l.filterMap clefKey := rfl
theorem msOf_eq (l : List HObj) : msOf l = l.filterMap msKey := rfl
theorem othersOf_eq (l : List HObj) : othersOf l = l.filterMap otherKey := rfl

theorem tsKey_t (x : HObj) (y : TimeMap.TSig) (h : tsKey x = some y) : y.t = x.t := by
  unfold tsKey at h
  cases hk : x.kind <;> rw [hk] at h <;> simp at h
  rw [← h]

theorem ksKey_t (x : HObj) (y : Int × Int × Mode) (h : ksKey x = some y) : y.1 = x.t := by
  unfold ksKey at h
  cases hk : x.kind <;> rw [hk] at h <;> simp at h
  rw [← h]

theorem clefKey_t (x : HObj) (y : RawClef) (h : clefKey x = some y) : y.1 = x.t := by
  unfold clefKey at h
  cases hk : x.kind <;> rw [hk] at h <;> simp at h
  rw [← h]

theorem msKey_t (x : HObj) (y : Int × Int × Option Int) (h : msKey x = some y) : y.1 = x.t := by
  unfold msKey at h
  cases hk : x.kind <;> rw [hk] at h <;> simp at h
  rw [← h]

theorem otherKey_t (x : HObj) (y : Int × Option Int × Option Int) (h : otherKey x = some y) : y.1 = x.t := by
  unfold otherKey at h
  cases hk : x.kind <;> rw [hk] at h <;> simp at h
  rw [← h]

/-! ### the run of a history -/

theorem hpRun_append (q0 : Nat) (ops ops' : List HistOp) :
    hpRun q0 (ops ++ ops') = ops'.foldl hpStep (hpRun q0 ops) := by
  unfold hpRun
  rw [List.foldl_append]

/-- the objects a block of `new` operations creates, given the clock at its start -/
def mkObjs : Nat → List (Int × EKind × Option Nat) → List HObj
  | _, [] => []
  | c, (t, k, mb) :: rest => ⟨0, t, k, mb.getD (initMB k), true, c⟩ :: mkObjs (c + 1) rest

theorem foldl_new (specs : List (Int × EKind × Option Nat)) :
    ∀ s : HPart, (specs.map fun e => HistOp.new 0 e.1 e.2.1 e.2.2).foldl hpStep s
      = { s with objs := s.objs ++ mkObjs s.clock specs, clock := s.clock + specs.length } := by
  induction specs with
  | nil => intro s; simp [mkObjs]
  | cons e rest ih =>
    intro s
    obtain ⟨t, k, mb⟩ := e
    simp only [List.map_cons, List.foldl_cons]
    rw [ih]
    simp only [hpStep, mkObjs, List.append_assoc, List.singleton_append, List.length_cons]
    congr 1
    omega

theorem foldl_setQD_objs (l : List (Int × Nat)) :
    ∀ s : HPart, ((l.map fun e => HistOp.setQD e.1 e.2).foldl hpStep s).objs = s.objs
      ∧ ((l.map fun e => HistOp.setQD e.1 e.2).foldl hpStep s).musical = s.musical
      ∧ ((l.map fun e => HistOp.setQD e.1 e.2).foldl hpStep s).clock = s.clock := by
  induction l with
  | nil => intro s; exact ⟨rfl, rfl, rfl⟩
  | cons e rest ih =>
    intro s
    simp only [List.map_cons, List.foldl_cons]
    obtain ⟨h1, h2, h3⟩ := ih (hpStep s (.setQD e.1 e.2))
    exact ⟨h1, h2, h3⟩

theorem mkObjs_live : ∀ (c : Nat) (specs : List (Int × EKind × Option Nat)), ∀ o ∈ mkObjs c specs, o.live = true
  | _, [], o, h => by simp [mkObjs] at h
  | c, e :: rest, o, h => by
    obtain ⟨t, k, mb⟩ := e
    simp only [mkObjs, List.mem_cons] at h
    rcases h with rfl | h
    · rfl
    · exact mkObjs_live (c + 1) rest o h

theorem mkObjs_seq_ge : ∀ (c : Nat) (specs : List (Int × EKind × Option Nat)), ∀ o ∈ mkObjs c specs, c ≤ o.seq
  | _, [], o, h => by simp [mkObjs] at h
  | c, e :: rest, o, h => by
    obtain ⟨t, k, mb⟩ := e
    simp only [mkObjs, List.mem_cons] at h
    rcases h with rfl | h
    · exact Nat.le_refl _
    · have := mkObjs_seq_ge (c + 1) rest o h
      omega

theorem mkObjs_seq_sorted : ∀ (c : Nat) (specs : List (Int × EKind × Option Nat)),
    (mkObjs c specs).Pairwise fun a b => (a.seq : Int) ≤ (b.seq : Int)
  | _, [] => by simp [mkObjs]
  | c, e :: rest => by
    obtain ⟨t, k, mb⟩ := e
    simp only [mkObjs]
    refine List.pairwise_cons.mpr ⟨?_, mkObjs_seq_sorted (c + 1) rest⟩
    intro o ho
    have := mkObjs_seq_ge (c + 1) rest o ho
    simp only
    omega

theorem mkObjs_filterMap {β : Type} (g : HObj → Option β) (h : (Int × EKind × Option Nat) → Option β)
    (hg : ∀ c t k mb, g ⟨0, t, k, Option.getD mb (initMB k), true, c⟩ = h (t, k, mb)) :
    ∀ (c : Nat) (specs : List (Int × EKind × Option Nat)), (mkObjs c specs).filterMap g = specs.filterMap h
  | _, [] => rfl
  | c, e :: rest => by
    obtain ⟨t, k, mb⟩ := e
    simp only [mkObjs, List.filterMap_cons, hg, mkObjs_filterMap g h hg (c + 1) rest]

/-! ### the quarter-duration table under a replay (round 6) -/

/-- no redundant entry: the times increase strictly and every change changes the value (what a table looks like when
    no `set_quarter_duration` call has re-set an existing entry to the duration already in force before it) -/
def QDNormal : List (Int × Nat) → Prop
  | [] => True
  | [_] => True
  | a :: b :: rest => a.1 < b.1 ∧ a.2 ≠ b.2 ∧ QDNormal (b :: rest)

instance : (l : List (Int × Nat)) → Decidable (QDNormal l)
  | [] => isTrue trivial
  | [_] => isTrue trivial
  | a :: b :: rest =>
    have : Decidable (QDNormal (b :: rest)) := instDecidableQDNormal (b :: rest)
    by unfold QDNormal; exact inferInstance

/-- a change after every entry, to a value other than the last one, is appended -/
theorem setQDAux_append (t : Int) (q : Nat) : ∀ (T : List (Int × Nat)) (prev : Option Nat),
    (∀ e ∈ T, e.1 < t) → (match T.getLast? with | some e => e.2 ≠ q | none => prev ≠ some q) →
    TimeMap.setQDAux t q prev T = T ++ [(t, q)]
  | [], prev, _, h => by
    simp only [List.getLast?_nil] at h
    simp [TimeMap.setQDAux, h]
  | (t0, q0) :: rest, prev, hlt, h => by
    have h0 : t0 < t := hlt (t0, q0) (List.mem_cons_self ..)
    unfold TimeMap.setQDAux
    rw [if_pos h0]
    rw [setQDAux_append t q rest (some q0) (fun e he => hlt e (List.mem_cons_of_mem _ he))]
    · rfl
    · cases rest with
      | nil =>
        simp only [List.getLast?_singleton] at h
        simp only [List.getLast?_nil]
        intro hc; exact h (Option.some.inj hc)
      | cons b r =>
        rw [List.getLast?_cons_cons] at h
        exact h

/-- the quarter-duration table after a block of `set_quarter_duration` calls -/
def replayQD (init l : List (Int × Nat)) : List (Int × Nat) := l.foldl (fun qd e => TimeMap.setQD qd e.1 e.2) init

/-- replaying a table without redundant entries, entry by entry, reproduces it -/
theorem replayQD_normal : ∀ (l T : List (Int × Nat)) (a : Int × Nat), QDNormal (a :: l) → (∀ e ∈ T, e.1 < a.1) →
    replayQD (T ++ [a]) l = T ++ a :: l
  | [], T, a, _, _ => rfl
  | b :: l', T, a, hn, hT => by
    obtain ⟨hab, hv, hn'⟩ := hn
    unfold replayQD
    rw [List.foldl_cons]
    have hstep : TimeMap.setQD (T ++ [a]) b.1 b.2 = (T ++ [a]) ++ [b] := by
      unfold TimeMap.setQD
      rw [setQDAux_append]
      · intro e he
        rcases List.mem_append.mp he with he | he
        · have := hT e he; omega
        · rw [List.mem_singleton.mp he]; exact hab
      · rw [List.getLast?_append_of_ne_nil _ (List.cons_ne_nil _ _)]
        exact hv
    rw [hstep]
    have := replayQD_normal l' (T ++ [a]) b hn' (by
      intro e he
      rcases List.mem_append.mp he with he | he
      · have := hT e he; omega
      · rw [List.mem_singleton.mp he]; exact hab)
    unfold replayQD at this
    rw [this]
    simp

theorem foldl_setQD_qd (l : List (Int × Nat)) :
    ∀ s : HPart, ((l.map fun e => HistOp.setQD e.1 e.2).foldl hpStep s).qd = replayQD s.qd l := by
  induction l with
  | nil => intro s; rfl
  | cons e rest ih =>
    intro s
    simp only [List.map_cons, List.foldl_cons]
    rw [ih]
    rfl

/-- operations other than `set_quarter_duration` leave the quarter-duration table alone -/
theorem foldl_no_setQD_qd : ∀ (ops : List HistOp) (st : HPart), (∀ op ∈ ops, ∀ t q, op ≠ HistOp.setQD t q) →
    (ops.foldl hpStep st).qd = st.qd := by
  intro ops
  induction ops with
  | nil => intro st _; rfl
  | cons op rest ih =>
    intro st hno
    rw [List.foldl_cons, ih _ (fun o ho => hno o (List.mem_cons_of_mem _ ho))]
    have := hno op (List.mem_cons_self ..)
    cases op <;> simp [hpStep] at this ⊢
    · split <;> rfl
    · split <;> rfl

/-- what `set_quarter_duration` can put into the table -/
theorem mem_setQDAux (t : Int) (q : Nat) : ∀ (l : List (Int × Nat)) (prev : Option Nat) (e : Int × Nat),
    e ∈ TimeMap.setQDAux t q prev l → e ∈ l ∨ e = (t, q)
  | [], prev, e, h => by
    unfold TimeMap.setQDAux at h
    split at h
    · simp at h
    · exact Or.inr (List.mem_singleton.mp h)
  | (t0, q0) :: rest, prev, e, h => by
    unfold TimeMap.setQDAux at h
    split at h
    · rcases List.mem_cons.mp h with h | h
      · exact Or.inl (h ▸ List.mem_cons_self ..)
      · rcases mem_setQDAux t q rest (some q0) e h with h | h
        · exact Or.inl (List.mem_cons_of_mem _ h)
        · exact Or.inr h
    · split at h
      · rename_i heq
        rcases List.mem_cons.mp h with h | h
        · right; rw [h, heq]
        · exact Or.inl (List.mem_cons_of_mem _ h)
      · split at h
        · exact Or.inl h
        · rcases List.mem_cons.mp h with h | h
          · exact Or.inr h
          · exact Or.inl h

/-! ### the hypotheses of the lookup theorems, from the order of the tables (round 6) -/

/-- the clef rows carry the times of the clefs -/
theorem clefRows_times : ∀ (clefs : List RawClef) (rows : Tbl ClefV), clefRows clefs = some rows →
    rows.map (·.1) = clefs.map (·.1)
  | [], rows, h => by
    simp only [clefRows, Option.some.injEq] at h
    rw [← h]; rfl
  | (t, st, sign, line, oc) :: rest, rows, h => by
    unfold clefRows at h
    cases hc : clefSignToInt sign with
    | none => rw [hc] at h; simp at h
    | some code =>
      cases hrs : clefRows rest with
      | none => rw [hc, hrs] at h; simp at h
      | some rs =>
        rw [hc, hrs] at h
        simp only [Option.some.injEq] at h
        rw [← h]
        simp only [List.map_cons, clefRows_times rest rs hrs]

theorem clefRows_sorted (clefs : List RawClef) (rows : Tbl ClefV) (h : clefRows clefs = some rows)
    (hs : clefs.Pairwise fun a b => a.1 ≤ b.1) : SortedLE rows := by
  unfold SortedLE
  have h1 : (rows.map (·.1)).Pairwise (· ≤ ·) := by
    rw [clefRows_times clefs rows h, List.pairwise_map]
    exact hs
  rwa [List.pairwise_map] at h1

/-- measures in the order of their starts that are non-empty and pairwise disjoint follow each other -/
theorem ordered_of_disjoint : ∀ (l : List (Int × Int)), (∀ m ∈ l, m.1 < m.2) →
    l.Pairwise (fun a b => a.1 ≤ b.1) → l.Pairwise (fun a b => a.2 ≤ b.1 ∨ b.2 ≤ a.1) → Ordered l
  | [], _, _, _ => trivial
  | [(s, e)], hpos, _, _ => hpos (s, e) (List.mem_singleton.mpr rfl)
  | (s, e) :: (s', e') :: rest, hpos, hsort, hdis => by
    have h1 : s < e := hpos (s, e) (List.mem_cons_self ..)
    have h2 : s' < e' := hpos (s', e') (List.mem_cons_of_mem _ (List.mem_cons_self ..))
    have hs := (List.pairwise_cons.mp hsort)
    have hd := (List.pairwise_cons.mp hdis)
    have h3 : s ≤ s' := hs.1 (s', e') (List.mem_cons_self ..)
    have h4 : e ≤ s' ∨ e' ≤ s := hd.1 (s', e') (List.mem_cons_self ..)
    refine ⟨h1, ?_, ordered_of_disjoint ((s', e') :: rest)
      (fun m hm => hpos m (List.mem_cons_of_mem _ hm)) hs.2 hd.2⟩
    rcases h4 with h4 | h4
    · exact h4
    · omega

/-- a replay of later changes keeps the entry at 0 and adds nothing but (some of) the replayed entries -/
theorem replayQD_head (q0 : Nat) : ∀ (l T' : List (Int × Nat)), (∀ e ∈ l, 0 < e.1) →
    ∃ T'', replayQD ((0, q0) :: T') l = (0, q0) :: T'' ∧ ∀ e ∈ T'', e ∈ T' ∨ e ∈ l
  | [], T', _ => ⟨T', rfl, fun _ he => Or.inl he⟩
  | b :: l', T', hl => by
    have hb : 0 < b.1 := hl b (List.mem_cons_self ..)
    have hstep : TimeMap.setQD ((0, q0) :: T') b.1 b.2 = (0, q0) :: TimeMap.setQDAux b.1 b.2 (some q0) T' := by
      unfold TimeMap.setQD
      rw [TimeMap.setQDAux, if_pos hb]
    obtain ⟨T'', h1, h2⟩ := replayQD_head q0 l' (TimeMap.setQDAux b.1 b.2 (some q0) T')
      (fun e he => hl e (List.mem_cons_of_mem _ he))
    refine ⟨T'', ?_, ?_⟩
    · unfold replayQD
      rw [List.foldl_cons, hstep]
      exact h1
    · intro e he
      rcases h2 e he with h | h
      · rcases mem_setQDAux _ _ _ _ e h with h | h
        · exact Or.inl h
        · right; rw [h]; exact List.mem_cons_self ..
      · exact Or.inr (List.mem_cons_of_mem _ h)

end C10
