/-
Helper lemmas for Props/C10Hist.lean (round 5): Model/StepMapHist.lean.
-/
import PartituraModel.Model.StepMapHist
import PartituraModel.Proofs.C10Notes

namespace C10
open Model Model.StepMap

/-! ### a stable sort commutes with `filterMap` -/

theorem insertBy_cons_of_le {α : Type} (key : α → Int) (a : α) (l : List α)
    (h : ∀ b, l.head? = some b → key a ≤ key b) : insertBy key a l = a :: l := by
  cases l with
  | nil => rfl
  | cons b l' =>
    have := h b rfl
    simp [insertBy, this]

theorem insertBy_cons_le {α : Type} (key : α → Int) (a b : α) (l : List α) (h : key a ≤ key b) :
    insertBy key a (b :: l) = a :: b :: l := by
  simp [insertBy, h]

theorem insertBy_cons_gt {α : Type} (key : α → Int) (a b : α) (l : List α) (h : ¬ key a ≤ key b) :
    insertBy key a (b :: l) = b :: insertBy key a l := by
  simp [insertBy, h]

theorem filterMap_insertBy_none {α β : Type} (key : α → Int) (g : α → Option β) (a : α) (hg : g a = none) :
    ∀ S : List α, (insertBy key a S).filterMap g = S.filterMap g
  | [] => by simp [insertBy, hg]
  | x :: S' => by
    by_cases h : key a ≤ key x
    · rw [insertBy_cons_le key a x S' h, List.filterMap_cons, hg]
    · rw [insertBy_cons_gt key a x S' h, List.filterMap_cons, List.filterMap_cons,
        filterMap_insertBy_none key g a hg S']

theorem filterMap_insertBy_some {α β : Type} (key : α → Int) (key' : β → Int) (g : α → Option β)
    (hk : ∀ x y, g x = some y → key' y = key x) (a : α) (b : β) (hg : g a = some b) :
    ∀ S : List α, S.Pairwise (fun x y => key x ≤ key y) →
      (insertBy key a S).filterMap g = insertBy key' b (S.filterMap g)
  | [], _ => by simp [insertBy, hg]
  | x :: S', hp => by
    have hp' := List.pairwise_cons.mp hp
    have ih := filterMap_insertBy_some key key' g hk a b hg S' hp'.2
    by_cases h : key a ≤ key x
    · rw [insertBy_cons_le key a x S' h, List.filterMap_cons, hg]
      simp only
      rw [insertBy_cons_of_le key' b]
      intro y hy
      have hmem : y ∈ (x :: S').filterMap g := List.mem_of_mem_head? hy
      obtain ⟨z, hz, hgz⟩ := List.mem_filterMap.mp hmem
      rw [hk a b hg, hk z y hgz]
      rcases List.mem_cons.mp hz with rfl | hz'
      · exact h
      · have := hp'.1 z hz'
        omega
    · rw [insertBy_cons_gt key a x S' h, List.filterMap_cons, ih, List.filterMap_cons]
      cases hx : g x with
      | none => rfl
      | some x' =>
        simp only
        have : ¬ key' b ≤ key' x' := by rw [hk a b hg, hk x x' hx]; exact h
        rw [insertBy_cons_gt key' b x' _ this]

theorem sortBy_cons {α : Type} (key : α → Int) (a : α) (l : List α) :
    sortBy key (a :: l) = insertBy key a (sortBy key l) := rfl

theorem filterMap_sortBy {α β : Type} (key : α → Int) (key' : β → Int) (g : α → Option β)
    (hk : ∀ x y, g x = some y → key' y = key x) :
    ∀ l : List α, (sortBy key l).filterMap g = sortBy key' (l.filterMap g)
  | [] => rfl
  | a :: l => by
    rw [sortBy_cons]
    cases hg : g a with
    | none =>
      rw [filterMap_insertBy_none key g a hg, filterMap_sortBy key key' g hk l, List.filterMap_cons, hg]
    | some b =>
      rw [filterMap_insertBy_some key key' g hk a b hg _ (sortBy_sorted key l), filterMap_sortBy key key' g hk l,
        List.filterMap_cons, hg]
      rfl

theorem pairwise_filterMap_key {α β : Type} (key : α → Int) (key' : β → Int) (g : α → Option β)
    (hk : ∀ x y, g x = some y → key' y = key x) (l : List α) (h : l.Pairwise fun x y => key x ≤ key y) :
    (l.filterMap g).Pairwise fun x y => key' x ≤ key' y := by
  rw [List.pairwise_filterMap]
  refine h.imp ?_
  intro a b hab x hx y hy
  rw [hk a x hx, hk b y hy]
  exact hab

/-! ### the tables of a described part are in time order -/

theorem liveSorted_sorted (s : HPart) : (liveSorted s).Pairwise fun a b => a.t ≤ b.t :=
  sortBy_sorted _ _

/-- coincident objects come in the order they were added -/
theorem liveSorted_lex (s : HPart) :
    (liveSorted s).Pairwise fun a b => a.t < b.t ∨ (a.t = b.t ∧ (a.seq : Int) ≤ (b.seq : Int)) :=
  sortBy_lex (fun o : HObj => o.t) (fun o : HObj => (o.seq : Int)) _ (sortBy_sorted _ _)

theorem mem_liveSorted (s : HPart) (o : HObj) : o ∈ liveSorted s ↔ o ∈ s.objs ∧ o.live = true := by
  unfold liveSorted
  rw [mem_sortBy, mem_sortBy, List.mem_filter]

def tsKey (o : HObj) : Option TimeMap.TSig := match o.kind with | .ts b bt => some ⟨o.t, b, bt, o.mb⟩ | _ => none
def ksKey (o : HObj) : Option (Int × Int × Mode) := match o.kind with | .ks f m => some (o.t, f, m) | _ => none
def clefKey (o : HObj) : Option RawClef :=
  match o.kind with | .clef st sg ln oc => some (o.t, st, sg, ln, oc) | _ => none
def msKey (o : HObj) : Option (Int × Int × Option Int) :=
  match o.kind with | .measure e n => some (o.t, e, n) | _ => none
def otherKey (o : HObj) : Option (Int × Option Int × Option Int) :=
  match o.kind with | .other e st => some (o.t, e, st) | _ => none

theorem tsOf_eq (l : List HObj) : tsOf l = l.filterMap tsKey := rfl
theorem ksOf_eq (l : List HObj) : ksOf l = l.filterMap ksKey := rfl
theorem clefsOf_eq (l : List HObj) : clefsOf l = l.filterMap clefKey := rfl
theorem msOf_eq (l : List HObj) : msOf l = l.filterMap msKey := rfl
theorem othersOf_eq (l : List HObj) : othersOf l = l.filterMap otherKey := rfl

theorem tsKey_t (x : HObj) (y : TimeMap.TSig) (h : tsKey x = some y) : y.t = x.t := by
  unfold tsKey at h
  cases hk : x.kind <;> rw [hk] at h <;> simp at h
  rw [← h]

theorem ksKey_t (x : HObj) (y : Int × Int × Mode) (h : ksKey x = some y) : y.1 = x.t := by
  unfold ksKey at h
  cases hk : x.kind <;> rw [hk] at h <;> simp at h
  rw [← h]

theorem clefKey_t (x : HObj) (y : RawClef) (h : clefKey x = some y) : y.1 = x.t := by
  unfold clefKey at h
  cases hk : x.kind <;> rw [hk] at h <;> simp at h
  rw [← h]

theorem msKey_t (x : HObj) (y : Int × Int × Option Int) (h : msKey x = some y) : y.1 = x.t := by
  unfold msKey at h
  cases hk : x.kind <;> rw [hk] at h <;> simp at h
  rw [← h]

theorem otherKey_t (x : HObj) (y : Int × Option Int × Option Int) (h : otherKey x = some y) : y.1 = x.t := by
  unfold otherKey at h
  cases hk : x.kind <;> rw [hk] at h <;> simp at h
  rw [← h]

/-! ### the run of a history -/

theorem hpRun_append (q0 : Nat) (ops ops' : List HistOp) :
    hpRun q0 (ops ++ ops') = ops'.foldl hpStep (hpRun q0 ops) := by
  unfold hpRun
  rw [List.foldl_append]

/-- the objects a block of `new` operations creates, given the clock at its start -/
def mkObjs : Nat → List (Int × EKind × Option Nat) → List HObj
  | _, [] => []
  | c, (t, k, mb) :: rest => ⟨0, t, k, mb.getD (initMB k), true, c⟩ :: mkObjs (c + 1) rest

theorem foldl_new (specs : List (Int × EKind × Option Nat)) :
    ∀ s : HPart, (specs.map fun e => HistOp.new 0 e.1 e.2.1 e.2.2).foldl hpStep s
      = { s with objs := s.objs ++ mkObjs s.clock specs, clock := s.clock + specs.length } := by
  induction specs with
  | nil => intro s; simp [mkObjs]
  | cons e rest ih =>
    intro s
    obtain ⟨t, k, mb⟩ := e
    simp only [List.map_cons, List.foldl_cons]
    rw [ih]
    simp only [hpStep, mkObjs, List.append_assoc, List.singleton_append, List.length_cons]
    congr 1
    omega

theorem foldl_setQD_objs (l : List (Int × Nat)) :
    ∀ s : HPart, ((l.map fun e => HistOp.setQD e.1 e.2).foldl hpStep s).objs = s.objs
      ∧ ((l.map fun e => HistOp.setQD e.1 e.2).foldl hpStep s).musical = s.musical
      ∧ ((l.map fun e => HistOp.setQD e.1 e.2).foldl hpStep s).clock = s.clock := by
  induction l with
  | nil => intro s; exact ⟨rfl, rfl, rfl⟩
  | cons e rest ih =>
    intro s
    simp only [List.map_cons, List.foldl_cons]
    obtain ⟨h1, h2, h3⟩ := ih (hpStep s (.setQD e.1 e.2))
    exact ⟨h1, h2, h3⟩

theorem mkObjs_live : ∀ (c : Nat) (specs : List (Int × EKind × Option Nat)), ∀ o ∈ mkObjs c specs, o.live = true
  | _, [], o, h => by simp [mkObjs] at h
  | c, e :: rest, o, h => by
    obtain ⟨t, k, mb⟩ := e
    simp only [mkObjs, List.mem_cons] at h
    rcases h with rfl | h
    · rfl
    · exact mkObjs_live (c + 1) rest o h

theorem mkObjs_seq_ge : ∀ (c : Nat) (specs : List (Int × EKind × Option Nat)), ∀ o ∈ mkObjs c specs, c ≤ o.seq
  | _, [], o, h => by simp [mkObjs] at h
  | c, e :: rest, o, h => by
    obtain ⟨t, k, mb⟩ := e
    simp only [mkObjs, List.mem_cons] at h
    rcases h with rfl | h
    · exact Nat.le_refl _
    · have := mkObjs_seq_ge (c + 1) rest o h
      omega

theorem mkObjs_seq_sorted : ∀ (c : Nat) (specs : List (Int × EKind × Option Nat)),
    (mkObjs c specs).Pairwise fun a b => (a.seq : Int) ≤ (b.seq : Int)
  | _, [] => by simp [mkObjs]
  | c, e :: rest => by
    obtain ⟨t, k, mb⟩ := e
    simp only [mkObjs]
    refine List.pairwise_cons.mpr ⟨?_, mkObjs_seq_sorted (c + 1) rest⟩
    intro o ho
    have := mkObjs_seq_ge (c + 1) rest o ho
    simp only
    omega

theorem mkObjs_filterMap {β : Type} (g : HObj → Option β) (h : (Int × EKind × Option Nat) → Option β)
    (hg : ∀ c t k mb, g ⟨0, t, k, Option.getD mb (initMB k), true, c⟩ = h (t, k, mb)) :
    ∀ (c : Nat) (specs : List (Int × EKind × Option Nat)), (mkObjs c specs).filterMap g = specs.filterMap h
  | _, [] => rfl
  | c, e :: rest => by
    obtain ⟨t, k, mb⟩ := e
    simp only [mkObjs, List.filterMap_cons, hg, mkObjs_filterMap g h hg (c + 1) rest]

end C10
