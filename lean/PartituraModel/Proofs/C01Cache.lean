/-
C01 helper lemmas, round 5: the memo `Part._quarter_map` (Model/TimelineX.lean `CPart`, `stepC`).

`lift s` is the part `s` with a FRESH memo.  `stepC_lift`: started with a fresh memo, the machine that reads the
memo (`stepC`) does exactly what the memo-free machine (`step`) does and ends with a fresh memo again.
-/
import PartituraModel.Model.TimelineX
import PartituraModel.Proofs.C01WeakOps

namespace TL

/-- the part with a fresh memo -/
def lift (s : Part) : CPart := { part := s, qcache := interpTable s.qtab }

theorem cacheOk_iff (c : CPart) : CacheOk c ↔ c = lift c.part := by
  cases c with
  | mk p q =>
    simp only [CacheOk, lift, CPart.mk.injEq, true_and]

theorem cacheOk_lift (s : Part) : CacheOk (lift s) := rfl

@[simp] theorem lift_part (s : Part) : (lift s).part = s := rfl
@[simp] theorem lift_qcache (s : Part) : (lift s).qcache = interpTable s.qtab := rfl

-- ------------------------------------------------------------------ the doubled one-entry table

theorem qdAt_interpTable (tab : List (Int × Nat)) (t : Int) : qdAt (interpTable tab) t = qdAt tab t := by
  unfold interpTable
  split
  · rename_i h
    match tab, h with
    | [(x, y)], _ =>
      simp only [List.cons_append, List.nil_append, qdAt, qdAtAux]
      split <;> rfl
  · rfl

theorem qdAtQ_interpTable (tab : List (Int × Nat)) (x : Rat) : qdAtQ (interpTable tab) x = qdAtQ tab x := by
  unfold interpTable
  split
  · rename_i h
    match tab, h with
    | [(a, y)], _ =>
      simp only [List.cons_append, List.nil_append, qdAtQ, qdAtAuxQ]
      split <;> rfl
  · rfl

-- ------------------------------------------------------------------ what does not touch the table

theorem ensurePoint_qtab {s s' : Part} {t : Int} (h : ensurePoint s t = .ok s') : s'.qtab = s.qtab := by
  unfold ensurePoint at h
  split at h
  · cases h
  · split at h
    · simp only [pure, Except.pure, Except.ok.injEq] at h; subst h; rfl
    · split at h
      · cases h
      · simp only [bind, Except.bind] at h
        split at h
        · cases h
        · simp only [pure, Except.pure, Except.ok.injEq] at h; subst h; rfl

theorem cleanupPoint_qtab {s s' : Part} {t : Int} (h : cleanupPoint s t = .ok s') : s'.qtab = s.qtab := by
  unfold cleanupPoint at h
  cases hf : findPoint s.points t with
  | none => simp [hf] at h
  | some p =>
    simp only [hf] at h
    split at h
    · cases hr : removePoint s.points t with
      | error e => simp [hr, bind, Except.bind] at h
      | ok pts =>
        simp only [hr, bind, Except.bind, pure, Except.pure, Except.ok.injEq] at h
        subst h; rfl
    · simp only [pure, Except.pure, Except.ok.injEq] at h
      subst h; rfl

theorem removeSide_qtab {s s' : Part} {sd : Side} {o : ObjRef} (h : removeSide s sd o = .ok s') :
    s'.qtab = s.qtab := by
  unfold removeSide at h
  split at h
  · simp only [pure, Except.pure, Except.ok.injEq] at h; subst h; rfl
  · rename_i t _
    cases hc : cleanupPoint { s with
        points := modifyPoint s.points t (fun p => p.setReg sd (regRemove (p.reg sd) o)) } t with
    | error e => simp [hc, bind, Except.bind] at h
    | ok s2 =>
      simp only [hc, bind, Except.bind, pure, Except.pure, Except.ok.injEq] at h
      subst h
      have := cleanupPoint_qtab hc
      exact this

theorem stepRemove_qtab {s s' : Part} {o : ObjRef} {w : Which} (h : stepRemove s o w = .ok s') :
    s'.qtab = s.qtab := by
  unfold stepRemove at h
  have key : ∀ (a : Except Err Part) (f : Part → Except Err Part),
      (∀ x, a = .ok x → x.qtab = s.qtab) → (∀ x y, x.qtab = s.qtab → f x = .ok y → y.qtab = s.qtab) →
      a.bind f = .ok s' → s'.qtab = s.qtab := by
    intro a f h1 h2 hb
    cases a with
    | error e => simp [Except.bind] at hb
    | ok x => exact h2 x s' (h1 x rfl) hb
  refine key _ _ ?_ ?_ h
  · intro x hx
    split at hx
    · exact removeSide_qtab hx
    · cases hx; rfl
  · intro x y hx hy
    split at hy
    · rw [removeSide_qtab hy, hx]
    · cases hy; exact hx

-- ------------------------------------------------------------------ reading the memo = reading the table

theorem ensurePointC_lift (s : Part) (t : Int) :
    ensurePointC (lift s) t = (ensurePoint s t).map lift := by
  unfold ensurePointC ensurePoint
  simp only [lift_part, lift_qcache, qdAt_interpTable]
  by_cases ht : t < 0
  · simp only [ht, if_true]; rfl
  · simp only [ht, if_false]
    cases hg : getPoint s.points t with
    | some p => rfl
    | none =>
      cases hq : qdAt s.qtab t with
      | none => rfl
      | some q =>
        simp only
        cases addPoint s.points { t := t, quarter := q, prev := none, next := none, starting := [], ending := [] } with
        | error e => rfl
        | ok pts => rfl

theorem addSideC_lift (s : Part) (sd : Side) (t : Int) (o : ObjRef) :
    addSideC (lift s) sd t o = (addSide s sd t o).map lift := by
  unfold addSideC addSide
  rw [ensurePointC_lift]
  cases h : ensurePoint s t with
  | error e => rfl
  | ok s1 =>
    have := ensurePoint_qtab h
    simp only [Except.map, bind, Except.bind, pure, Except.pure, lift, this]

theorem addSideOptC_lift (s : Part) (sd : Side) (t : Option Int) (o : ObjRef) :
    addSideOptC (lift s) sd t o = (addSideOpt s sd t o).map lift := by
  cases t with
  | none => rfl
  | some t => exact addSideC_lift s sd t o

theorem stepAddC_lift (s : Part) (o : ObjRef) (st en : Option Int) :
    stepAddC (lift s) o st en = (stepAdd s o st en).map lift := by
  unfold stepAddC stepAdd
  split
  · rfl
  · rw [addSideOptC_lift]
    cases addSideOpt s .start st o with
    | error e => rfl
    | ok s1 =>
      simp only [Except.map, Except.bind]
      rw [addSideOptC_lift]
      rfl

theorem stepGetOrAddC_lift (s : Part) (t : Int) :
    stepGetOrAddC (lift s) t = (stepGetOrAdd s t).map lift := by
  unfold stepGetOrAddC stepGetOrAdd
  rw [ensurePointC_lift]
  cases ensurePoint s t with
  | error e => rfl
  | ok s1 => rfl

theorem setQD_qtab (s : Part) (t : Int) (q : Nat) :
    (setQD s t q).qtab = ((qtabUpdate s.qtab t q).2).getD s.qtab := by
  unfold setQD
  split
  · rename_i h; rw [h]; rfl
  · rename_i h; rw [h]; rfl

theorem setQDC_lift (s : Part) (t : Int) (q : Nat) : setQDC (lift s) t q = lift (setQD s t q) := by
  unfold setQDC
  simp only [lift_part]
  cases h : (qtabUpdate s.qtab t q).2 with
  | none =>
    have : setQD s t q = s := by
      unfold setQD
      split
      · rfl
      · rename_i h'; rw [h'] at h; cases h
    simp only [this]
  | some tab' =>
    have := setQD_qtab s t q
    rw [h] at this
    simp only [lift, this, Option.getD_some]

/-- started with a fresh memo, the machine that reads the memo does exactly what the memo-free machine does,
and the memo is fresh afterwards -/
theorem stepC_lift (s : Part) (op : Op) :
    stepC (lift s) op = (step s op).map fun r => (lift r.1, r.2) := by
  have hq : ∀ (r : Except Err Out), (r.map fun x => ((lift s), x))
      = ((r.map fun x => (s, x)).map fun r => (lift r.1, r.2)) := by
    intro r; cases r <;> rfl
  cases op with
  | add o st en =>
    simp only [stepC, step, stepAddC_lift]
    cases stepAdd s o st en <;> rfl
  | remove o w =>
    simp only [stepC, step, lift_part]
    cases h : stepRemove s o w with
    | error e => rfl
    | ok s' =>
      have := stepRemove_qtab h
      simp only [Except.map, lift, this]
  | setQD t q => simp only [stepC, step, setQDC_lift, Except.map]
  | getOrAdd t =>
    simp only [stepC, step, stepGetOrAddC_lift]
    cases stepGetOrAdd s t <;> rfl
  | iterAll cls a b incl mode => rfl
  | iterPrev t cls eq incl =>
    simp only [stepC, step, lift_part]
    cases iterLinks s (·.prev) t cls eq incl <;> rfl
  | iterNext t cls eq incl =>
    simp only [stepC, step, lift_part]
    cases iterLinks s (·.next) t cls eq incl <;> rfl
  | first => rfl
  | last => rfl
  | getPoint t =>
    simp only [stepC, step, lift_part]
    split <;> rfl
  | quarterDurations a b => rfl

theorem init_lift (q : Nat) : CPart.init q = lift (Part.init q) := rfl

end TL
