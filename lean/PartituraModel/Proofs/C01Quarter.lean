/-
C01 helper lemmas, part 4: the quarter-duration table (`qdAt`, `qtabUpdate`, `setQuarterRange`, `setQD`).
-/
import PartituraModel.Proofs.C01Step

namespace TL

-- ------------------------------------------------------------------ qdAt

def lastVal : List (Int × Nat) → Nat → Nat
  | [], c => c
  | e :: r, _ => lastVal r e.2

theorem aux_append_le (cur : Nat) (l1 l2 : List (Int × Nat)) (x : Int) (h : ∀ e ∈ l1, e.1 ≤ x) :
    qdAtAux cur (l1 ++ l2) x = qdAtAux (lastVal l1 cur) l2 x := by
  induction l1 generalizing cur with
  | nil => rfl
  | cons e r ih =>
    have he : e.1 ≤ x := h e (by simp)
    obtain ⟨a, b⟩ := e
    simp only [List.cons_append, qdAtAux, he, if_true, lastVal]
    exact ih b (fun e' he' => h e' (by simp [he']))

theorem aux_head_gt (cur : Nat) (l : List (Int × Nat)) (x : Int) (h : ∀ e ∈ l.head?, x < e.1) :
    qdAtAux cur l x = cur := by
  cases l with
  | nil => rfl
  | cons e r =>
    obtain ⟨a, b⟩ := e
    have : x < a := h (a, b) (by simp)
    have hn : ¬ a ≤ x := by omega
    simp [qdAtAux, hn]

theorem aux_append_gt (cur : Nat) (l1 l2 : List (Int × Nat)) (x : Int) (h : ∀ e ∈ l2.head?, x < e.1) :
    qdAtAux cur (l1 ++ l2) x = qdAtAux cur l1 x := by
  induction l1 generalizing cur with
  | nil => simpa [qdAtAux] using aux_head_gt cur l2 x h
  | cons e r ih =>
    obtain ⟨a, b⟩ := e
    simp only [List.cons_append, qdAtAux]
    split
    · exact ih b
    · rfl

theorem qdAt_eq_aux {tab : List (Int × Nat)} {h0 x : Int} (hh : tab.head?.map (·.1) = some h0) (hx : h0 ≤ x)
    (d : Nat) : qdAt tab x = some (qdAtAux d tab x) := by
  cases tab with
  | nil => simp at hh
  | cons e r =>
    obtain ⟨a, b⟩ := e
    simp only [List.head?_cons, Option.map_some, Option.some.injEq] at hh
    subst hh
    simp [qdAt, qdAtAux, hx]

-- ------------------------------------------------------------------ the table update, structurally

/-- the first stored change time after `t` -/
def nextChange (tab : List (Int × Nat)) (t : Int) : Option Int :=
  (tab.map (·.1)).find? (fun x => decide (t < x))

def ltOpt (x : Int) : Option Int → Prop
  | none => True
  | some n => x < n

instance (x : Int) (o : Option Int) : Decidable (ltOpt x o) := by
  cases o <;> simp only [ltOpt] <;> infer_instance

theorem tab_getLast_pred (pre : List (Int × Nat)) (post : List (Int × Nat)) (hpos : 0 < pre.length) :
    (pre ++ post)[pre.length - 1]? = pre.getLast? := by
  rcases List.eq_nil_or_concat pre with rfl | ⟨l, a, rfl⟩
  · simp at hpos
  · simp only [List.concat_eq_append]
    rw [getElem?_concat_len_pred]
    simp

/-- "`i == 0 or quarters[i - 1] != quarter`" on the split table -/
def prevDiffers (pre : List (Int × Nat)) (q : Nat) : Bool :=
  match pre.getLast? with
  | some e => e.2 != q
  | none => true

theorem prevDiffers_eq (pre post : List (Int × Nat)) (q : Nat) :
    (pre.length == 0 || (match (pre ++ post)[pre.length - 1]? with | some e => e.2 != q | none => true))
      = prevDiffers pre q := by
  rcases List.eq_nil_or_concat pre with rfl | ⟨l, a, rfl⟩
  · simp [prevDiffers]
  · simp only [List.concat_eq_append]
    rw [getElem?_concat_len_pred]
    simp [prevDiffers]

theorem searchsorted_tab_app (pre post : List (Int × Nat)) (t : Int)
    (h1 : ∀ e ∈ pre, e.1 < t) (h2 : ∀ e ∈ post.head?, t ≤ e.1) :
    searchsorted ((pre ++ post).map (·.1)) t = pre.length := by
  have := searchsorted_app (pre.map (·.1)) (post.map (·.1)) t (by simpa using h1) (by
    cases post with
    | nil => simp
    | cons b r => have := h2 b (by simp); simpa using this)
  simpa using this

/-- an entry is stored at `t`: replace it (or nothing to do) -/
theorem qtabUpdate_at (pre post' : List (Int × Nat)) (t : Int) (q q' : Nat) (h1 : ∀ e ∈ pre, e.1 < t) :
    qtabUpdate (pre ++ (t, q') :: post') t q
      = (pre.length, if q' != q then some (pre ++ (t, q) :: post') else none) := by
  have hs := searchsorted_tab_app pre ((t, q') :: post') t h1 (by simp)
  unfold qtabUpdate
  simp only [hs, getElem?_app_len, List.head?_cons, if_true, set_app_len]

/-- no entry at `t`: insert unless redundant -/
theorem qtabUpdate_new (pre post : List (Int × Nat)) (t : Int) (q : Nat) (h1 : ∀ e ∈ pre, e.1 < t)
    (h2 : ∀ e ∈ post.head?, t < e.1) :
    qtabUpdate (pre ++ post) t q
      = (pre.length, if prevDiffers pre q then some (pre ++ (t, q) :: post) else none) := by
  have hs := searchsorted_tab_app pre post t h1 (fun e he => by have := h2 e he; omega)
  unfold qtabUpdate
  simp only [hs, getElem?_app_len, insertIdx_app_len]
  cases post with
  | nil =>
    rcases List.eq_nil_or_concat pre with rfl | ⟨l, a, rfl⟩
    · simp [prevDiffers]
    · simp only [List.concat_eq_append]
      rw [getElem?_concat_len_pred]
      simp [prevDiffers]
  | cons b r =>
    have := h2 b (by simp)
    have hne : ¬ b.1 = t := by omega
    rcases List.eq_nil_or_concat pre with rfl | ⟨l, a, rfl⟩
    · simp [prevDiffers, hne]
    · simp only [List.concat_eq_append]
      rw [getElem?_concat_len_pred]
      simp [prevDiffers, hne]

-- ------------------------------------------------------------------ setQuarterRange

theorem setQuarterRange_lnk (pts : List Point) (si ei q : Nat) :
    (setQuarterRange pts si ei q).map (fun p => (p.t, p.prev, p.next, p.starting, p.ending))
      = pts.map (fun p => (p.t, p.prev, p.next, p.starting, p.ending)) := by
  induction pts generalizing si ei with
  | nil => simp [setQuarterRange]
  | cons p ps ih =>
    cases si with
    | zero =>
      cases ei with
      | zero => simp [setQuarterRange]
      | succ ei => simp [setQuarterRange, ih]
    | succ si => simp [setQuarterRange, ih]

/-- on a sorted point list, the index range `[#(<t), #(<tn))` is the time range `[t, tn)` -/
theorem setQuarterRange_sorted (pts : List Point) (hs : (pts.map (·.t)).Pairwise (· < ·)) (t : Int)
    (tn : Option Int) (q : Nat) (htn : ltOpt t tn) :
    setQuarterRange pts (searchsorted (pts.map (·.t)) t) (endIdx pts tn) q
      = pts.map (fun p => if t ≤ p.t ∧ ltOpt p.t tn then { p with quarter := q } else p) := by
  unfold endIdx
  induction pts with
  | nil => cases tn <;> simp [setQuarterRange, searchsorted]
  | cons p ps ih =>
    simp only [List.map_cons, List.pairwise_cons] at hs
    have ih' := ih hs.2
    by_cases hp : p.t < t
    · -- before the range
      have hlt : ltOpt p.t tn := by
        cases tn with
        | none => trivial
        | some n => simp only [ltOpt] at htn ⊢; omega
      have hcond : ¬ (t ≤ p.t ∧ ltOpt p.t tn) := fun h => by omega
      cases tn with
      | none =>
        simp only [List.map_cons, searchsorted, hp, if_true, List.length_cons, setQuarterRange, hcond, if_false,
          Nat.add_sub_cancel]
        rw [← ih']
      | some n =>
        simp only [ltOpt] at hlt
        simp only [List.map_cons, searchsorted, hp, hlt, if_true, setQuarterRange, hcond, if_false,
          Nat.add_sub_cancel]
        rw [← ih']
    · -- at or after t: everything later is after t as well
      have hrest : ∀ x ∈ ps.map (·.t), t < x := fun x hx => by have := hs.1 x hx; omega
      have hs0 : searchsorted (ps.map (·.t)) t = 0 := by
        cases ps with
        | nil => rfl
        | cons b r =>
          have := hrest b.t (by simp)
          have hn : ¬ b.t < t := by omega
          simp [searchsorted, hn]
      rw [hs0] at ih'
      by_cases hin : ltOpt p.t tn
      · have hcond : t ≤ p.t ∧ ltOpt p.t tn := ⟨by omega, hin⟩
        cases tn with
        | none =>
          simp only [List.map_cons, searchsorted, hp, if_false, List.length_cons, setQuarterRange, hcond,
            and_self, if_true]
          rw [← ih']
        | some n =>
          simp only [ltOpt] at hin
          simp only [List.map_cons, searchsorted, hp, hin, if_false, if_true, setQuarterRange, hcond, and_self]
          rw [← ih']
      · -- past the range: nothing changes from here on
        cases tn with
        | none => exact absurd trivial hin
        | some n =>
          simp only [ltOpt] at hin
          have hcond : ¬ (t ≤ p.t ∧ ltOpt p.t (some n)) := fun h => hin h.2
          simp only [List.map_cons, searchsorted, hp, hin, if_false, setQuarterRange, hcond]
          congr 1
          symm
          rw [List.map_congr_left (g := id)]
          · simp
          · intro a ha
            have := hs.1 a.t (List.mem_map_of_mem ha)
            have : ¬ (t ≤ a.t ∧ ltOpt a.t (some n)) := fun h => by simp only [ltOpt] at h; omega
            simp [this]

-- ------------------------------------------------------------------ the law on tables

theorem aux_indep (c c' : Nat) (l : List (Int × Nat)) (x : Int) (h : ∃ e ∈ l.head?, e.1 ≤ x) :
    qdAtAux c l x = qdAtAux c' l x := by
  cases l with
  | nil => simp at h
  | cons e r =>
    obtain ⟨a, b⟩ := e
    simp only [List.head?_cons, Option.mem_def, Option.some.injEq, exists_eq_left'] at h
    simp [qdAtAux, h]

theorem lastVal_concat (l : List (Int × Nat)) (a : Int × Nat) (c : Nat) : lastVal (l ++ [a]) c = a.2 := by
  induction l generalizing c with
  | nil => rfl
  | cons b l ih => simp only [List.cons_append, lastVal]; exact ih _

theorem table_law (pre mid rest : List (Int × Nat)) (t : Int) (q d : Nat) (x : Int)
    (h1 : ∀ e ∈ pre, e.1 < t) (hmid : mid = [] ∨ ∃ q', mid = [(t, q')]) (h2 : ∀ e ∈ rest.head?, t < e.1) :
    qdAtAux d (pre ++ (t, q) :: rest) x
      = if t ≤ x ∧ ltOpt x (rest.head?.map (·.1)) then q else qdAtAux d (pre ++ mid ++ rest) x := by
  by_cases hx : t ≤ x
  · -- at or after t
    have hpre : ∀ e ∈ pre, e.1 ≤ x := fun e he => by have := h1 e he; omega
    rw [aux_append_le d pre _ x hpre]
    simp only [qdAtAux, hx, if_true, true_and]
    have hold : qdAtAux d (pre ++ mid ++ rest) x = qdAtAux (lastVal (pre ++ mid) d) rest x := by
      apply aux_append_le
      intro e he
      rcases List.mem_append.mp he with he | he
      · exact hpre e he
      · rcases hmid with rfl | ⟨q', rfl⟩
        · cases he
        · simp at he; subst he; exact hx
    rw [hold]
    cases rest with
    | nil => simp [ltOpt, qdAtAux]
    | cons b r =>
      obtain ⟨tn, qn⟩ := b
      simp only [List.head?_cons, Option.map_some, ltOpt]
      by_cases hn : x < tn
      · have : ¬ tn ≤ x := by omega
        simp [qdAtAux, hn, this]
      · have hle : tn ≤ x := by omega
        simp only [hn, if_false]
        exact aux_indep _ _ _ x ⟨(tn, qn), by simp, hle⟩
  · -- before t
    have hlt : x < t := by omega
    simp only [hx, false_and, if_false]
    rw [aux_append_gt d pre _ x (by simp [hlt])]
    rw [List.append_assoc, aux_append_gt d pre _ x]
    intro e he
    rcases hmid with rfl | ⟨q', rfl⟩
    · simp only [List.nil_append] at he
      have := h2 e he; omega
    · simp at he; subst he; exact hlt

theorem nextChange_split (pre rest : List (Int × Nat)) (t : Int) (h1 : ∀ e ∈ pre, e.1 ≤ t)
    (h2 : ∀ e ∈ rest.head?, t < e.1) : nextChange (pre ++ rest) t = rest.head?.map (·.1) := by
  unfold nextChange
  induction pre with
  | nil =>
    cases rest with
    | nil => rfl
    | cons b r =>
      have := h2 b (by simp)
      simp [List.find?_cons, this]
  | cons a pre ih =>
    have : a.1 ≤ t := h1 a (by simp)
    have hn : ¬ t < a.1 := by omega
    simp only [List.cons_append, List.map_cons, List.find?_cons, hn, decide_false]
    exact ih (fun e he => h1 e (by simp [he]))

-- ------------------------------------------------------------------ setQD on the state

theorem setQD_unchanged {s : Part} {t : Int} {q i : Nat} (h : qtabUpdate s.qtab t q = (i, none)) :
    setQD s t q = s := by
  unfold setQD
  rw [h]

theorem setQD_changed {s : Part} {t : Int} {q : Nat} {pre rest : List (Int × Nat)}
    (h : qtabUpdate s.qtab t q = (pre.length, some (pre ++ (t, q) :: rest))) :
    setQD s t q = { s with
      qtab := pre ++ (t, q) :: rest,
      points := setQuarterRange s.points (searchsorted (s.points.map (·.t)) t)
        (endIdx s.points (rest.head?.map (·.1))) q } := by
  unfold setQD
  rw [h]
  simp only [getElem?_app_len_succ]

/-- what `set_quarter_duration` guarantees, in terms of the split table -/
structure QDResult (s s' : Part) (t : Int) (q : Nat) : Prop where
  objs : s'.objs = s.objs
  requested : s'.requested = s.requested
  same : s'.points.map (fun p => (p.t, p.prev, p.next, p.starting, p.ending))
      = s.points.map (fun p => (p.t, p.prev, p.next, p.starting, p.ending))
  qsorted : (s'.qtab.map (·.1)).Pairwise (· < ·)
  qhead : s'.qtab.head?.map (·.1) = some 0
  law : ∀ x, 0 ≤ x → ∀ v, qdAt s.qtab x = some v →
      qdAt s'.qtab x = some (if t ≤ x ∧ ltOpt x (nextChange s.qtab t) then q else v)
  quarter : ∀ p' ∈ s'.points, qdAt s'.qtab p'.t = some p'.quarter

theorem sorted_tab_post_gt {pre post : List (Int × Nat)} {b : Int × Nat} {t : Int}
    (hs : ((pre ++ b :: post).map (·.1)).Pairwise (· < ·)) (hb : t ≤ b.1) :
    ∀ p ∈ post, t < p.1 := by
  intro p hp
  simp only [List.map_append, List.map_cons, List.pairwise_append, List.pairwise_cons] at hs
  have := hs.2.1.1 p.1 (List.mem_map_of_mem hp)
  omega

theorem prevDiffers_false {pre : List (Int × Nat)} {q : Nat} (h : prevDiffers pre q = false) (d : Nat) :
    pre ≠ [] ∧ lastVal pre d = q := by
  rcases List.eq_nil_or_concat pre with rfl | ⟨l, a, rfl⟩
  · simp [prevDiffers] at h
  · simp only [List.concat_eq_append] at h ⊢
    refine ⟨by simp, ?_⟩
    rw [lastVal_concat]
    simpa [prevDiffers] using h

theorem head_of_split {pre mid rest : List (Int × Nat)} {t : Int} {q : Nat} (ht : 0 ≤ t)
    (hh : (pre ++ mid ++ rest).head?.map (·.1) = some 0)
    (hmid : mid = [] ∨ ∃ q', mid = [(t, q')]) (h2 : ∀ e ∈ rest.head?, t < e.1) :
    (pre ++ (t, q) :: rest).head?.map (·.1) = some 0 := by
  cases pre with
  | cons a pre' => simpa using hh
  | nil =>
    rcases hmid with rfl | ⟨q', rfl⟩
    · cases rest with
      | nil => simp at hh
      | cons b r =>
        have := h2 b (by simp)
        simp at hh
        omega
    · simpa using hh

/-- the clauses of the invariant `set_quarter_duration` depends on (shared by `Inv` and `WInv`) -/
structure QCore (s : Part) : Prop where
  sorted : s.times.Pairwise (· < ·)
  nonneg : ∀ p ∈ s.points, 0 ≤ p.t
  quarter : ∀ p ∈ s.points, qdAt s.qtab p.t = some p.quarter
  qsorted : (s.qtab.map (·.1)).Pairwise (· < ·)
  qhead : s.qtab.head?.map (·.1) = some 0

theorem InvCore.toQCore {ex : Option Int} {s : Part} (h : InvCore ex s) : QCore s :=
  ⟨h.sorted, h.nonneg, h.quarter, h.qsorted, h.qhead⟩

theorem result_changed {s : Part} (h : QCore s) {t : Int} (ht : 0 ≤ t) {q : Nat}
    {pre mid rest : List (Int × Nat)} (hsplit : s.qtab = pre ++ mid ++ rest) (h1 : ∀ e ∈ pre, e.1 < t)
    (hmid : mid = [] ∨ ∃ q', mid = [(t, q')]) (h2 : ∀ e ∈ rest, t < e.1)
    (hupd : qtabUpdate s.qtab t q = (pre.length, some (pre ++ (t, q) :: rest))) :
    QDResult s (setQD s t q) t q := by
  have h2h : ∀ e ∈ rest.head?, t < e.1 := fun e he => h2 e (List.mem_of_mem_head? he)
  have hhead := head_of_split (q := q) ht (by rw [← hsplit]; exact h.qhead) hmid h2h
  have hnc : nextChange s.qtab t = rest.head?.map (·.1) := by
    rw [hsplit]
    apply nextChange_split _ _ _ _ h2h
    intro e he
    rcases List.mem_append.mp he with he | he
    · have := h1 e he; omega
    · rcases hmid with rfl | ⟨q', rfl⟩
      · cases he
      · simp at he; subst he; exact Int.le_refl _
  have hlaw : ∀ x, 0 ≤ x → ∀ v, qdAt s.qtab x = some v →
      qdAt (pre ++ (t, q) :: rest) x = some (if t ≤ x ∧ ltOpt x (nextChange s.qtab t) then q else v) := by
    intro x hx v hv
    rw [qdAt_eq_aux hhead hx 0, table_law pre mid rest t q 0 x h1 hmid h2h, hnc]
    rw [qdAt_eq_aux h.qhead hx 0, hsplit] at hv
    simp only [Option.some.injEq] at hv
    rw [hv]
  have hsrt : ((pre ++ (t, q) :: rest).map (·.1)).Pairwise (· < ·) := by
    have hs := h.qsorted
    rw [hsplit] at hs
    simp only [List.map_append, List.map_cons, List.pairwise_append, List.pairwise_cons] at hs ⊢
    refine ⟨hs.1.1, ⟨?_, hs.2.1⟩, ?_⟩
    · intro x hx
      obtain ⟨e, he, rfl⟩ := List.mem_map.mp hx
      exact h2 e he
    · intro a ha b hb
      obtain ⟨e, he, rfl⟩ := List.mem_map.mp ha
      rcases List.mem_cons.mp hb with rfl | hb
      · exact h1 e he
      · exact hs.2.2 _ (List.mem_append.mpr (Or.inl (List.mem_map_of_mem he))) b hb
  rw [setQD_changed hupd]
  have hpts := setQuarterRange_sorted s.points h.sorted t (rest.head?.map (·.1)) q (by
    cases rest with
    | nil => trivial
    | cons b r => exact h2 b (by simp))
  refine ⟨rfl, rfl, setQuarterRange_lnk _ _ _ _, hsrt, hhead, hlaw, ?_⟩
  intro p' hp'
  simp only at hp'
  rw [hpts] at hp'
  obtain ⟨p, hp, rfl⟩ := List.mem_map.mp hp'
  have hq := hlaw p.t (h.nonneg p hp) p.quarter (h.quarter p hp)
  rw [hnc] at hq
  simp only
  split
  · rename_i hc
    simpa [hc] using hq
  · rename_i hc
    simpa [hc] using hq

theorem result_unchanged {s : Part} (h : QCore s) {t : Int} {q : Nat} {i : Nat}
    (hupd : qtabUpdate s.qtab t q = (i, none))
    (hval : ∀ x, 0 ≤ x → t ≤ x → ltOpt x (nextChange s.qtab t) → qdAt s.qtab x = some q) :
    QDResult s (setQD s t q) t q := by
  rw [setQD_unchanged hupd]
  refine ⟨rfl, rfl, rfl, h.qsorted, h.qhead, ?_, h.quarter⟩
  intro x hx v hv
  split
  · rename_i hc
    rw [hval x hx hc.1 hc.2]
  · exact hv

theorem setQD_result {s : Part} (h : QCore s) {t : Int} (ht : 0 ≤ t) (q : Nat) :
    QDResult s (setQD s t q) t q := by
  obtain ⟨pre, post, hsplit, h1, h2, -⟩ := searchsorted_tab_split s.qtab t
  have hs := h.qsorted
  rw [hsplit] at hs
  -- is there an entry at t?
  by_cases hat : ∃ q' post', post = (t, q') :: post'
  · obtain ⟨q', post', rfl⟩ := hat
    have h2r : ∀ e ∈ post', t < e.1 := sorted_tab_post_gt hs (Int.le_refl t)
    have hupd := qtabUpdate_at pre post' t q q' h1
    rw [← hsplit] at hupd
    have hsplit' : s.qtab = pre ++ [(t, q')] ++ post' := by simp [hsplit]
    by_cases hq : q' = q
    · subst hq
      simp only [bne_self_eq_false, Bool.false_eq_true, if_false] at hupd
      apply result_unchanged h hupd
      intro x hx htx hlt
      have h2h : ∀ e ∈ post'.head?, t < e.1 := fun e he => h2r e (List.mem_of_mem_head? he)
      have hnc : nextChange s.qtab t = post'.head?.map (·.1) := by
        rw [hsplit']
        apply nextChange_split _ _ _ _ h2h
        intro e he
        rcases List.mem_append.mp he with he | he
        · have := h1 e he; omega
        · simp at he; subst he; exact Int.le_refl _
      rw [hnc] at hlt
      rw [qdAt_eq_aux h.qhead hx 0, hsplit]
      have := table_law pre [(t, q')] post' t q' 0 x h1 (Or.inr ⟨q', rfl⟩) h2h
      simp only [htx, hlt, and_self, if_true] at this
      rw [this]
    · have hne : (q' != q) = true := by simpa using hq
      simp only [hne, if_true] at hupd
      exact result_changed h ht hsplit' h1 (Or.inr ⟨q', rfl⟩) h2r hupd
  · have h2' : ∀ e ∈ post.head?, t < e.1 := by
      intro e he
      have := h2 e he
      cases post with
      | nil => simp at he
      | cons b r =>
        simp at he; subst he
        have : b.1 ≠ t := fun hc => hat ⟨b.2, r, by rw [← hc]⟩
        omega
    have h2r : ∀ e ∈ post, t < e.1 := by
      cases post with
      | nil => simp
      | cons b r =>
        intro e he
        have hb := h2' b (by simp)
        rcases List.mem_cons.mp he with rfl | he
        · exact hb
        · exact sorted_tab_post_gt hs (Int.le_of_lt hb) e he
    have hupd := qtabUpdate_new pre post t q h1 h2'
    rw [← hsplit] at hupd
    have hsplit' : s.qtab = pre ++ [] ++ post := by simp [hsplit]
    by_cases hpd : prevDiffers pre q = true
    · simp only [hpd, if_true] at hupd
      exact result_changed h ht hsplit' h1 (Or.inl rfl) h2r hupd
    · simp only [hpd, Bool.false_eq_true, if_false] at hupd
      apply result_unchanged h hupd
      intro x hx htx hlt
      have hnc : nextChange s.qtab t = post.head?.map (·.1) := by
        rw [hsplit]
        exact nextChange_split _ _ _ (fun e he => by have := h1 e he; omega) h2'
      rw [hnc] at hlt
      obtain ⟨-, hlv⟩ := prevDiffers_false (by simpa using hpd) 0
      rw [qdAt_eq_aux h.qhead hx 0, hsplit, aux_append_le 0 pre post x (fun e he => by have := h1 e he; omega),
        hlv, aux_head_gt]
      intro e he
      cases post with
      | nil => simp at he
      | cons b r =>
        simp at he; subst he
        simpa [ltOpt] using hlt

/-- `set_quarter_duration` keeps the invariant -/
theorem setQD_good {s : Part} (h : Good s) {t : Int} (ht : 0 ≤ t) (q : Nat) : Good (setQD s t q) := by
  have r := setQD_result h.1.toQCore ht q
  have hrg : ∀ p' ∈ (setQD s t q).points, ∃ p ∈ s.points,
      p.t = p'.t ∧ p.starting = p'.starting ∧ p.ending = p'.ending := by
    intro p' hp'
    have : (p'.t, p'.prev, p'.next, p'.starting, p'.ending)
        ∈ (setQD s t q).points.map (fun p => (p.t, p.prev, p.next, p.starting, p.ending)) :=
      List.mem_map.mpr ⟨p', hp', rfl⟩
    rw [r.same] at this
    obtain ⟨p, hp, he⟩ := List.mem_map.mp this
    simp only [Prod.mk.injEq] at he
    exact ⟨p, hp, he.1, he.2.2.2.1, he.2.2.2.2⟩
  have hreg : ∀ (p p' : Point), p.starting = p'.starting → p.ending = p'.ending → ∀ sd, p.reg sd = p'.reg sd := by
    intro p p' h1 h2 sd
    cases sd <;> simp [Point.reg, h1, h2]
  have htimes : (setQD s t q).times = s.times := by
    have := congrArg (List.map (·.1)) r.same
    simpa [Part.times, List.map_map, Function.comp_def] using this
  refine ⟨⟨by rw [htimes]; exact h.1.sorted, ?_, ?_, by rw [r.objs]; exact h.1.objsNodup, ?_, ?_, ?_, ?_, ?_,
    r.quarter, r.qsorted, r.qhead⟩, ?_⟩
  · intro p' hp'
    obtain ⟨p, hp, e1, -, -⟩ := hrg p' hp'
    rw [← e1]; exact h.1.nonneg p hp
  · intro sd p' hp'
    obtain ⟨p, hp, e1, e2, e3⟩ := hrg p' hp'
    rw [← hreg p p' e2 e3 sd]; exact h.1.regNodup sd p hp
  · intro sd e he p' hp'
    rw [r.objs] at he
    obtain ⟨p, hp, e1, e2, e3⟩ := hrg p' hp'
    rw [← hreg p p' e2 e3 sd, ← e1]; exact h.1.listed sd e he p hp
  · intro sd e he x hx
    rw [r.objs] at he
    rw [htimes]; exact h.1.refOn sd e he x hx
  · intro sd p' hp' o ho
    obtain ⟨p, hp, e1, e2, e3⟩ := hrg p' hp'
    rw [r.objs]
    exact h.1.listedKnown sd p hp o (by rw [hreg p p' e2 e3 sd]; exact ho)
  · intro p' hp'
    obtain ⟨p, hp, e1, e2, e3⟩ := hrg p' hp'
    rw [← e1, ← e2, ← e3, r.requested]; exact h.1.nonempty p hp
  · intro x hx
    rw [r.requested] at hx
    rw [htimes]; exact h.1.requestedOn x hx
  · apply (linksFrom_congr none s.points (setQD s t q).points ?_).mpr h.2
    have := congrArg (List.map (fun x : Int × Option Int × Option Int × List ObjRef × List ObjRef =>
      (x.1, x.2.1, x.2.2.1))) r.same
    simpa [List.map_map, Function.comp_def] using this

end TL
