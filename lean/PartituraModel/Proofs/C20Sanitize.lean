/-
C20 helper lemmas: `Performance.sanitize_track_numbers` (Model/ArgForms.lean `sanitizeWith`) reaches a fixed point.
-/
import PartituraModel.Model.ArgForms

namespace C20San
open Model Model.ArgForms

/-- the lexicographic order `sorted` uses on (part index, track) pairs -/
def plt (a b : Nat × Int) : Prop := a.1 < b.1 ∨ (a.1 = b.1 ∧ a.2 < b.2)

theorem pairLt_iff (a b : Nat × Int) : pairLt a b = true ↔ plt a b := by
  simp [pairLt, plt]

theorem plt_irrefl (a : Nat × Int) : ¬ plt a a := by
  simp [plt]

theorem plt_trans {a b c : Nat × Int} (h1 : plt a b) (h2 : plt b c) : plt a c := by
  unfold plt at *
  omega

theorem plt_tri (a b : Nat × Int) : plt a b ∨ a = b ∨ plt b a := by
  unfold plt
  rcases a with ⟨a1, a2⟩
  rcases b with ⟨b1, b2⟩
  simp only [Prod.mk.injEq]
  omega

abbrev SSorted (l : List (Nat × Int)) : Prop := l.Pairwise plt

theorem mem_insertPair (x y : Nat × Int) (l : List (Nat × Int)) :
    y ∈ insertPair x l ↔ y = x ∨ y ∈ l := by
  induction l with
  | nil => simp [insertPair]
  | cons z zs ih =>
    simp only [insertPair]
    split
    · simp
    · split
      · rename_i _ hxz
        subst hxz
        simp
      · simp only [List.mem_cons, ih]
        constructor
        · rintro (h | h | h)
          · exact Or.inr (Or.inl h)
          · exact Or.inl h
          · exact Or.inr (Or.inr h)
        · rintro (h | h | h)
          · exact Or.inr (Or.inl h)
          · exact Or.inl h
          · exact Or.inr (Or.inr h)

theorem insertPair_sorted (x : Nat × Int) (l : List (Nat × Int)) (h : SSorted l) : SSorted (insertPair x l) := by
  induction l with
  | nil => simp [insertPair]
  | cons z zs ih =>
    have hz := (List.pairwise_cons.mp h)
    simp only [insertPair]
    split
    · rename_i hlt
      have hxz : plt x z := (pairLt_iff x z).mp hlt
      refine List.pairwise_cons.mpr ⟨?_, h⟩
      intro y hy
      rcases List.mem_cons.mp hy with rfl | hy
      · exact hxz
      · exact plt_trans hxz (hz.1 y hy)
    · rename_i hnlt
      split
      · exact h
      · rename_i hne
        have hzx : plt z x := by
          rcases plt_tri x z with h1 | h1 | h1
          · exact absurd ((pairLt_iff x z).mpr h1) hnlt
          · exact absurd h1 hne
          · exact h1
        refine List.pairwise_cons.mpr ⟨?_, ih hz.2⟩
        intro y hy
        rcases (mem_insertPair x y zs).mp hy with rfl | hy
        · exact hzx
        · exact hz.1 y hy

theorem sortedSet_sorted (l : List (Nat × Int)) : SSorted (sortedSet l) := by
  induction l with
  | nil => simp [sortedSet]
  | cons x xs ih => exact insertPair_sorted x _ ih

theorem mem_sortedSet (l : List (Nat × Int)) (y : Nat × Int) : y ∈ sortedSet l ↔ y ∈ l := by
  induction l with
  | nil => simp [sortedSet]
  | cons x xs ih =>
    show y ∈ insertPair x (sortedSet xs) ↔ _
    rw [mem_insertPair, ih, List.mem_cons]

/-- a strictly sorted list is determined by its members -/
theorem sorted_unique : ∀ (l1 l2 : List (Nat × Int)), SSorted l1 → SSorted l2 → (∀ y, y ∈ l1 ↔ y ∈ l2) → l1 = l2
  | [], [], _, _, _ => rfl
  | [], b :: bs, _, _, h => by have := (h b).mpr (List.mem_cons_self ..); simp at this
  | a :: as, [], _, _, h => by have := (h a).mp (List.mem_cons_self ..); simp at this
  | a :: as, b :: bs, h1, h2, h => by
    have ha := List.pairwise_cons.mp h1
    have hb := List.pairwise_cons.mp h2
    have hab : a = b := by
      have m1 : a ∈ b :: bs := (h a).mp (List.mem_cons_self ..)
      have m2 : b ∈ a :: as := (h b).mpr (List.mem_cons_self ..)
      rcases List.mem_cons.mp m1 with e | m1
      · exact e
      · rcases List.mem_cons.mp m2 with e | m2
        · exact e.symm
        · exact absurd (plt_trans (ha.1 b m2) (hb.1 a m1)) (plt_irrefl a)
    subst hab
    congr 1
    apply sorted_unique as bs ha.2 hb.2
    intro y
    constructor
    · intro hy
      rcases List.mem_cons.mp ((h y).mp (List.mem_cons_of_mem _ hy)) with e | hy'
      · subst e; exact absurd (ha.1 y hy) (plt_irrefl y)
      · exact hy'
    · intro hy
      rcases List.mem_cons.mp ((h y).mpr (List.mem_cons_of_mem _ hy)) with e | hy'
      · subst e; exact absurd (hb.1 y hy) (plt_irrefl y)
      · exact hy'

-- ------------------------------------------------------------------ indexOf

theorem indexOf_getElem {α : Type} [DecidableEq α] (x : α) :
    ∀ (l : List α) (k : Nat), indexOf x l = some k → l[k]? = some x := by
  intro l
  induction l with
  | nil => intro k h; simp [indexOf] at h
  | cons a as ih =>
    intro k h
    simp only [indexOf] at h
    split at h
    · rename_i e; cases h; simp [e]
    · cases hi : indexOf x as with
      | none => simp [hi] at h
      | some j =>
        simp only [hi, Option.map_some, Option.some.injEq] at h
        subst h
        simpa using ih j hi

theorem indexOf_of_mem {α : Type} [DecidableEq α] (x : α) :
    ∀ (l : List α), x ∈ l → ∃ k, indexOf x l = some k := by
  intro l
  induction l with
  | nil => intro h; simp at h
  | cons a as ih =>
    intro h
    simp only [indexOf]
    split
    · exact ⟨0, rfl⟩
    · rename_i hne
      rcases List.mem_cons.mp h with e | h
      · exact absurd e.symm hne
      · obtain ⟨k, hk⟩ := ih h
        exact ⟨k + 1, by simp [hk]⟩

theorem mem_of_indexOf {α : Type} [DecidableEq α] (x : α) (l : List α) (k : Nat) (h : indexOf x l = some k) : x ∈ l :=
  List.mem_of_getElem? (indexOf_getElem x l k h)

/-- in a list without repetitions the position of an element IS its index -/
theorem indexOf_of_getElem (x : Nat × Int) :
    ∀ (l : List (Nat × Int)) (k : Nat), SSorted l → l[k]? = some x → indexOf x l = some k := by
  intro l
  induction l with
  | nil => intro k _ h; simp at h
  | cons a as ih =>
    intro k hs h
    have ha := List.pairwise_cons.mp hs
    cases k with
    | zero =>
      simp only [List.getElem?_cons_zero, Option.some.injEq] at h
      simp [indexOf, h]
    | succ j =>
      simp only [List.getElem?_cons_succ] at h
      have hx : x ∈ as := List.mem_of_getElem? h
      have hne : a ≠ x := fun e => by subst e; exact plt_irrefl a (ha.1 a hx)
      simp [indexOf, hne, ih j ha.2 h]

-- ------------------------------------------------------------------ the relabelled track ids

/-- the track ids after the renumbering: the k-th pair keeps its part index and gets track k -/
def relabel : Nat → List (Nat × Int) → List (Nat × Int)
  | _, [] => []
  | s, x :: xs => (x.1, (s : Int)) :: relabel (s + 1) xs

theorem relabel_getElem : ∀ (l : List (Nat × Int)) (s k : Nat),
    (relabel s l)[k]? = (l[k]?).map (fun x => (x.1, ((s + k : Nat) : Int))) := by
  intro l
  induction l with
  | nil => intro s k; simp [relabel]
  | cons a as ih =>
    intro s k
    cases k with
    | zero => simp [relabel]
    | succ j =>
      simp only [relabel, List.getElem?_cons_succ, ih]
      congr 2
      funext x
      congr 2
      omega

theorem mem_relabel (l : List (Nat × Int)) (s : Nat) (z : Nat × Int) (h : z ∈ relabel s l) :
    ∃ k x, l[k]? = some x ∧ z = (x.1, ((s + k : Nat) : Int)) := by
  obtain ⟨k, hk⟩ := List.getElem?_of_mem h
  rw [relabel_getElem] at hk
  cases hx : l[k]? with
  | none => simp [hx] at hk
  | some x =>
    simp only [hx, Option.map_some, Option.some.injEq] at hk
    exact ⟨k, x, hx, hk.symm⟩

theorem relabel_sorted : ∀ (l : List (Nat × Int)) (s : Nat), SSorted l → SSorted (relabel s l) := by
  intro l
  induction l with
  | nil => intro s _; simp [relabel]
  | cons a as ih =>
    intro s h
    have ha := List.pairwise_cons.mp h
    simp only [relabel]
    refine List.pairwise_cons.mpr ⟨?_, ih (s + 1) ha.2⟩
    intro z hz
    obtain ⟨k, x, hx, rfl⟩ := mem_relabel as (s + 1) z hz
    have hax : plt a x := ha.1 x (List.mem_of_getElem? hx)
    unfold plt at hax ⊢
    simp only
    omega

-- ------------------------------------------------------------------ one renumbering pass on the pairs

/-- what the pass does to a (part, track) pair -/
def rho (d : Int) (ids : List (Nat × Int)) (x : Nat × Int) : Nat × Int :=
  (x.1, getTrack d ((indexOf x ids).map (fun k => (k : Int))))

theorem pairsOf_sanitizePart (d : Int) (ids : List (Nat × Int)) (i : Nat) (pp : PPart) :
    pairsOf d i (sanitizePart d ids i pp) = (pairsOf d i pp).map (rho d ids) := by
  simp only [pairsOf, sanitizePart, List.map_append, List.map_map]
  rfl

theorem allPairs_sanitizeFrom (d : Int) (ids : List (Nat × Int)) :
    ∀ (pps : List PPart) (s : Nat),
      allPairs d s (sanitizeFrom d ids s pps) = (allPairs d s pps).map (rho d ids) := by
  intro pps
  induction pps with
  | nil => intro s; rfl
  | cons pp pps ih =>
    intro s
    simp only [sanitizeFrom, allPairs, List.map_append, pairsOf_sanitizePart, ih]

/-- the pairs after one pass are exactly the relabelled track ids -/
theorem trackIds_after (d : Int) (pps : List PPart) :
    trackIds d (sanitizeWith d pps) = relabel 0 (trackIds d pps) := by
  have hs := sortedSet_sorted (allPairs d 0 pps)
  apply sorted_unique _ _ (sortedSet_sorted _) (relabel_sorted _ 0 hs)
  intro y
  show y ∈ sortedSet (allPairs d 0 (sanitizeFrom d (trackIds d pps) 0 pps)) ↔ y ∈ relabel 0 (sortedSet (allPairs d 0 pps))
  rw [mem_sortedSet, allPairs_sanitizeFrom, List.mem_map]
  constructor
  · rintro ⟨x, hx, rfl⟩
    have hxL : x ∈ sortedSet (allPairs d 0 pps) := (mem_sortedSet _ x).mpr hx
    obtain ⟨k, hk⟩ := indexOf_of_mem x _ hxL
    have hg := indexOf_getElem x _ k hk
    apply List.mem_of_getElem? (i := k)
    rw [relabel_getElem]
    simp [hg, rho, trackIds, hk, getTrack]
  · intro hy
    obtain ⟨k, x, hx, rfl⟩ := mem_relabel _ 0 y hy
    have hxL : x ∈ sortedSet (allPairs d 0 pps) := List.mem_of_getElem? hx
    refine ⟨x, (mem_sortedSet _ x).mp hxL, ?_⟩
    have hk := indexOf_of_getElem x _ k hs hx
    simp [rho, trackIds, hk, getTrack]

-- ------------------------------------------------------------------ the second pass changes nothing

theorem mapTrack_fixed (d : Int) (L : List (Nat × Int)) (hs : SSorted L) (i : Nat) (t : Option Int)
    (hm : (i, getTrack d t) ∈ L) :
    mapTrack d (relabel 0 L) i (mapTrack d L i t) = mapTrack d L i t := by
  obtain ⟨k, hk⟩ := indexOf_of_mem _ L hm
  have hg := indexOf_getElem _ L k hk
  have hE : (relabel 0 L)[k]? = some (i, (k : Int)) := by
    rw [relabel_getElem]; simp [hg]
  have hk2 := indexOf_of_getElem _ _ k (relabel_sorted L 0 hs) hE
  unfold mapTrack
  rw [hk]
  show (indexOf (i, (k : Int)) (relabel 0 L)).map (fun k => (k : Int)) = _
  rw [hk2]

theorem mapMeta_fixed (d : Int) (hd : d < 0) (L : List (Nat × Int)) (hs : SSorted L) (i : Nat) (t : Option Int) :
    mapMeta d (relabel 0 L) i (mapMeta d L i t) = mapMeta d L i t := by
  cases hk : indexOf (i, getTrack d t) L with
  | some k =>
    have hg := indexOf_getElem _ L k hk
    have hE : (relabel 0 L)[k]? = some (i, (k : Int)) := by
      rw [relabel_getElem]; simp [hg]
    have hk2 := indexOf_of_getElem _ _ k (relabel_sorted L 0 hs) hE
    unfold mapMeta
    rw [hk]
    show (match indexOf (i, (k : Int)) (relabel 0 L) with
          | some k' => some (k' : Int)
          | none => some (k : Int)) = some (k : Int)
    rw [hk2]
  | none =>
    -- the event keeps its entry; if that entry happens to be a pair of the new numbering it is mapped to itself
    simp only [mapMeta, hk]
    cases hk2 : indexOf (i, getTrack d t) (relabel 0 L) with
    | none => rfl
    | some j =>
      have hg := indexOf_getElem _ _ j hk2
      rw [relabel_getElem] at hg
      cases hx : L[j]? with
      | none => simp [hx] at hg
      | some x =>
        simp only [hx, Option.map_some, Option.some.injEq, Prod.mk.injEq, Nat.zero_add] at hg
        cases t with
        | none =>
          simp only [getTrack, Option.getD_none] at hg
          omega
        | some v =>
          simp only [getTrack, Option.getD_some] at hg
          simp [hg.2]

theorem sanitizePart_fixed (d : Int) (hd : d < 0) (L : List (Nat × Int)) (hs : SSorted L) (i : Nat) (pp : PPart)
    (hm : ∀ x ∈ pairsOf d i pp, x ∈ L) :
    sanitizePart d (relabel 0 L) i (sanitizePart d L i pp) = sanitizePart d L i pp := by
  have hmem : ∀ t ∈ pp.notes ++ pp.controls ++ pp.programs, (i, getTrack d t) ∈ L := by
    intro t ht
    exact hm _ (List.mem_map.mpr ⟨t, ht, rfl⟩)
  simp only [sanitizePart, List.map_map, PPart.mk.injEq]
  refine ⟨?_, ?_, ?_, ?_⟩
  · apply List.map_congr_left
    intro t ht
    exact mapTrack_fixed d L hs i t (hmem t (by simp [ht]))
  · apply List.map_congr_left
    intro t ht
    exact mapTrack_fixed d L hs i t (hmem t (by simp [ht]))
  · apply List.map_congr_left
    intro t ht
    exact mapTrack_fixed d L hs i t (hmem t (by simp [ht]))
  · apply List.map_congr_left
    intro t _
    exact mapMeta_fixed d hd L hs i t

theorem sanitizeFrom_fixed (d : Int) (hd : d < 0) (L : List (Nat × Int)) (hs : SSorted L) :
    ∀ (pps : List PPart) (s : Nat), (∀ x ∈ allPairs d s pps, x ∈ L) →
      sanitizeFrom d (relabel 0 L) s (sanitizeFrom d L s pps) = sanitizeFrom d L s pps := by
  intro pps
  induction pps with
  | nil => intro s _; rfl
  | cons pp pps ih =>
    intro s hm
    simp only [sanitizeFrom]
    rw [sanitizePart_fixed d hd L hs s pp (fun x hx => hm x (by simp [allPairs, hx])),
        ih (s + 1) (fun x hx => hm x (by simp [allPairs, hx]))]

theorem sanitizeWith_idem (d : Int) (hd : d < 0) (pps : List PPart) :
    sanitizeWith d (sanitizeWith d pps) = sanitizeWith d pps := by
  have h1 := trackIds_after d pps
  show sanitizeFrom d (trackIds d (sanitizeWith d pps)) 0 (sanitizeWith d pps) = sanitizeWith d pps
  rw [h1]
  exact sanitizeFrom_fixed d hd _ (sortedSet_sorted _) pps 0 (fun x hx => (mem_sortedSet _ x).mpr hx)

end C20San
