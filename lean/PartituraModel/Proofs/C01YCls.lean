/-
C01 helper lemmas, round 6: `ClsOk` (every object record belongs to a class of the generated table) along the
histories of the extended machines — discharges the hypothesis `hk` of the query theorems for reachable states.
-/
import PartituraModel.Proofs.C01Y

namespace TL

def OpX.clsOk : OpX → Prop
  | .base op => op.clsOk
  | .tpAdd _ _ o => o.cls < Gen.numClasses
  | .tpRemove _ _ o => o.cls < Gen.numClasses
  | .slurStart slur _ => slur.cls < Gen.numClasses
  | .slurEnd slur _ => slur.cls < Gen.numClasses
  | .addDefault o _ _ => o.cls < Gen.numClasses
  | _ => True

instance (op : OpX) : Decidable op.clsOk := by
  cases op <;> simp only [OpX.clsOk] <;> infer_instance

def OpY.clsOk : OpY → Prop
  | .base op => op.clsOk
  | .tupletStart tup _ => tup.cls < Gen.numClasses
  | .tupletEnd tup _ => tup.cls < Gen.numClasses
  | _ => True

instance (op : OpY) : Decidable op.clsOk := by
  cases op <;> simp only [OpY.clsOk] <;> infer_instance

theorem tpRegister_clsOk {s : Part} (hc : ClsOk s) (sd : Side) (t : Int) {o : ObjRef} (ho : o.cls < Gen.numClasses) :
    ClsOk (tpRegister s sd t o) := by
  unfold ClsOk tpRegister
  exact clsOk_setObj (f := fun e => e.setAt sd (some t)) (fun e => by cases sd <;> rfl) hc ho

theorem tpUnregister_clsOk {s : Part} (hc : ClsOk s) (sd : Side) (t : Int) {o : ObjRef} (ho : o.cls < Gen.numClasses) :
    ClsOk (tpUnregister s sd t o) := by
  unfold ClsOk
  rw [tpUnregister, allowEmpty_objs]
  exact clsOk_setObj (f := fun e => e.setAt sd none) (fun e => by cases sd <;> rfl) hc ho

theorem stepRemove_clsOk {s s' : Part} (hc : ClsOk s) {o : ObjRef} {w : Which} (h : stepRemove s o w = .ok s') :
    ClsOk s' :=
  step_clsOk (op := .remove o w) (out := .unit) hc trivial (by simp only [step, h, Except.map])

theorem stepAdd_clsOk {s s' : Part} (hc : ClsOk s) {o : ObjRef} {st en : Option Int} (ho : o.cls < Gen.numClasses)
    (h : stepAdd s o st en = .ok s') : ClsOk s' :=
  step_clsOk (op := .add o st en) (out := .unit) hc ho (by simp only [step, h, Except.map])

theorem stepX_clsOk {c c' : CPart} {out : OutX} (hk : CacheOk c) (hc : ClsOk c.part) {op : OpX} (ho : op.clsOk)
    (he : stepX c op = .ok (c', out)) : ClsOk c'.part := by
  have hl : c = lift c.part := (cacheOk_iff c).mp hk
  cases op with
  | base op =>
    simp only [stepX] at he
    rw [hl, stepC_lift] at he
    cases hs : step c.part op with
    | error e => rw [hs] at he; cases he
    | ok r =>
      rw [hs] at he
      simp only [Except.map, Except.ok.injEq, Prod.mk.injEq] at he
      obtain ⟨rfl, -⟩ := he
      obtain ⟨s', o'⟩ := r
      exact step_clsOk hc ho hs
  | tpAdd sd t o =>
    simp only [stepX] at he
    split at he
    · cases he
    · split at he
      · cases he; exact hc
      · cases he; exact tpRegister_clsOk hc sd t ho
  | tpRemove sd t o =>
    simp only [stepX] at he
    split at he
    · cases he
    · split at he
      · cases he; exact hc
      · cases he; exact tpUnregister_clsOk hc sd t ho
  | slurStart slur note =>
    simp only [stepX] at he
    cases he
    show ClsOk (slurSetStart c.part slur)
    unfold slurSetStart
    split
    · exact tpUnregister_clsOk hc _ _ ho
    · exact hc
  | slurEnd slur note =>
    simp only [stepX] at he
    cases he
    show ClsOk (slurSetEnd c.part slur note)
    unfold slurSetEnd
    have h1 : ClsOk (match (getObj c.part.objs slur).stop with
        | some t => tpUnregister c.part .stop t slur
        | none => c.part) := by
      split
      · exact tpUnregister_clsOk hc _ _ ho
      · exact hc
    simp only
    split
    · exact tpRegister_clsOk h1 _ _ ho
    · exact h1
  | removeX o w =>
    simp only [stepX] at he
    cases hr : stepRemoveX c.part o w with
    | error e => rw [hr] at he; cases he
    | ok s' =>
      rw [hr] at he
      simp only [Except.map, Except.ok.injEq, Prod.mk.injEq] at he
      obtain ⟨rfl, -⟩ := he
      rcases stepRemoveX_cases c.part o w with h0 | ⟨w', h0⟩
      · rw [h0] at hr; cases hr; exact hc
      · rw [h0] at hr; exact stepRemove_clsOk hc hr
  | addDefault o st en =>
    simp only [stepX] at he
    rw [hl, stepAddC_lift] at he
    cases hr : stepAdd c.part o (st.getD Gen.C01Sig.addStartDefault) (en.getD Gen.C01Sig.addEndDefault) with
    | error e => rw [hr] at he; cases he
    | ok s' =>
      rw [hr] at he
      simp only [Except.map, Except.ok.injEq, Prod.mk.injEq] at he
      obtain ⟨rfl, -⟩ := he
      exact stepAdd_clsOk hc ho hr
  | iterAllX cls a b incl mode => simp only [stepX, Except.ok.injEq, Prod.mk.injEq] at he; rw [← he.1]; exact hc
  | mapCached xs => simp only [stepX, Except.ok.injEq, Prod.mk.injEq] at he; rw [← he.1]; exact hc
  | mapFresh xs => simp only [stepX, Except.ok.injEq, Prod.mk.injEq] at he; rw [← he.1]; exact hc

theorem tupletDetach_clsOk {s : Part} (hc : ClsOk s) (sd : Side) {tup : ObjRef} (ho : tup.cls < Gen.numClasses)
    (old note : Option ObjRef) : ClsOk (tupletDetach s sd tup old note) := by
  rcases tupletDetach_cases s sd tup old note with he | ⟨n, o, t, -, -, -, -, he⟩
  · rw [he]; exact hc
  · rw [he]; exact tpUnregister_clsOk hc sd t ho

theorem stepY_clsOk {staff : ObjRef → Option Nat} {y y' : YPart} {out : OutY} (hk : CacheOk y.c)
    (hc : ClsOk y.c.part) {op : OpY} (ho : op.clsOk) (he : stepY staff y op = .ok (y', out)) : ClsOk y'.c.part := by
  cases op with
  | base op =>
    simp only [stepY] at he
    cases hs : stepX y.c op with
    | error e => rw [hs] at he; cases he
    | ok r =>
      rw [hs] at he
      simp only [Except.map, Except.ok.injEq, Prod.mk.injEq] at he
      obtain ⟨rfl, -⟩ := he
      obtain ⟨c', o'⟩ := r
      exact stepX_clsOk hk hc ho hs
  | tupletStart tup note =>
    simp only [stepY, Except.ok.injEq, Prod.mk.injEq] at he
    obtain ⟨rfl, -⟩ := he
    exact tupletDetach_clsOk hc .start ho _ _
  | tupletEnd tup note =>
    simp only [stepY, Except.ok.injEq, Prod.mk.injEq] at he
    obtain ⟨rfl, -⟩ := he
    exact tupletDetach_clsOk hc .stop ho _ _
  | view name =>
    simp only [stepY, Except.ok.injEq, Prod.mk.injEq] at he
    obtain ⟨rfl, -⟩ := he; exact hc
  | staves =>
    simp only [stepY, Except.ok.injEq, Prod.mk.injEq] at he
    obtain ⟨rfl, -⟩ := he
    unfold readStaves
    split <;> exact hc
  | duration o =>
    simp only [stepY, Except.ok.injEq, Prod.mk.injEq] at he
    obtain ⟨rfl, -⟩ := he; exact hc

theorem runY_clsOk {staff : ObjRef → Option Nat} {y : YPart} (h : YInv y) (hc : ClsOk y.c.part) (ops : List OpY)
    (hq : ∀ op ∈ ops, op.qdNonneg) (ho : ∀ op ∈ ops, op.clsOk) : ClsOk (runY staff y ops).c.part := by
  induction ops generalizing y with
  | nil => exact hc
  | cons op ops ih =>
    rw [runY_cons]
    have hy := nextY_yinv (staff := staff) h (hq op (by simp))
    refine ih hy ?_ (fun op' h' => hq op' (by simp [h'])) (fun op' h' => ho op' (by simp [h']))
    unfold nextY
    cases he : stepY staff y op with
    | error e => exact hc
    | ok r =>
      obtain ⟨y', out⟩ := r
      exact stepY_clsOk h.2 hc (ho op (by simp)) he

end TL
