/-
C03 — `readDirections` (the element-by-element model of `_handle_direction` with its `ongoing` dict) on the elements the
exporter writes: one step per element kind, and the wedge objects it builds are the pairs of `slotAll`.
-/
import PartituraModel.Model.XmlDir
import Mathlib.Tactic.Linarith

namespace C03.DirRead
open Model Model.XmlNote Model.XmlDir

/-- the number the importer reads for a written number -/
def num (k : Nat) : Int := intOr (some (k : Int)) 1

/-- the staff the importer reads for a written staff -/
def stf (staff : Option Int) : Option Int := if staff = some 1 then none else truthy staff

def mkObj (pos kind : Nat) (text : Str) (line : Bool) (staff : Option Int) : DirObj :=
  { start := pos, kind := kind, text := text, line := line, staff := staff, stop := none }

/-- `_handle_direction` on one element of each kind the exporter writes -/
def stepW (st : DirState) (pos : Nat) : DirW → DirState
  | .dyn name staff => { st with objs := st.objs ++ [mkObj pos 0 name false (stf staff)] }
  | .wedgeStart c k staff =>
    { st with objs := st.objs ++ [mkObj pos (if c then 1 else 2) (if c then sCresc else sDim) false (stf staff)],
              wedge := (num k, st.objs.length) :: eraseKey (num k) st.wedge }
  | .words t none staff => { st with objs := st.objs ++ [mkObj pos 3 (filterString t) false (stf staff)] }
  | .words t (some k) staff =>
    { st with objs := st.objs ++ [mkObj pos 3 (filterString t) false (stf staff)],
              dashes := (num k, [st.objs.length]) :: eraseKey (num k) st.dashes }
  | .rangeStop true k =>
    match Model.lookup (num k) st.wedge with
    | some i => { st with wedge := eraseKey (num k) st.wedge, objs := setEnd st.objs i pos }
    | none => st
  | .rangeStop false k =>
    match Model.lookup (num k) st.dashes with
    | some l => { st with dashes := eraseKey (num k) st.dashes, objs := l.foldl (fun objs i => setEnd objs i pos) st.objs }
    | none => st
  | .pedalStart line staff =>
    match Model.lookup 1 st.pedal with
    | some i =>
      { st with objs := setEnd (st.objs ++ [mkObj pos 4 [] line (stf staff)]) i pos,
                pedal := (1, st.objs.length) :: eraseKey 1 (eraseKey 1 st.pedal) }
    | none =>
      { st with objs := st.objs ++ [mkObj pos 4 [] line (stf staff)],
                pedal := (1, st.objs.length) :: eraseKey 1 st.pedal }
  | .pedalStop _ _ =>
    match Model.lookup 1 st.pedal with
    | some i => { st with pedal := eraseKey 1 st.pedal, objs := setEnd st.objs i pos }
    | none => st

theorem handleDirection_canon (st : DirState) (pos : Nat) (w : DirW) :
    handleDirection st pos (canonDir w) = stepW st pos w := by
  cases w with
  | dyn name staff =>
    simp [handleDirection, canonDir, handleItem, newObj, handleDashes, stepW, mkObj, stf]
  | wedgeStart c k staff =>
    simp [handleDirection, canonDir, handleItem, newObj, handleDashes, stepW, mkObj, stf, num]
  | words t d staff =>
    cases d with
    | none => simp [handleDirection, canonDir, handleItem, newObj, handleDashes, stepW, mkObj, stf]
    | some k =>
      simp [handleDirection, canonDir, handleItem, newObj, handleDashes, stepW, mkObj, stf, num, eraseKey]
      congr 1
      funext x
      by_cases hx : x.1 = intOr (some (k : Int)) 1 <;> simp [hx]
  | rangeStop isWedge k =>
    cases isWedge with
    | true =>
      simp only [handleDirection, canonDir, if_true, List.foldl_cons, List.foldl_nil, handleItem, stepW, num]
      cases h : Model.lookup (intOr (some (k : Int)) 1) st.wedge with
      | none => simp [handleDashes]
      | some i => simp [handleDashes]
    | false =>
      simp only [handleDirection, canonDir, Bool.false_eq_true, if_false, List.foldl_cons, List.foldl_nil, handleItem,
        stepW, num]
      cases h : Model.lookup (intOr (some (k : Int)) 1) st.dashes with
      | none => simp [handleDashes, eraseKey, h]
      | some l => simp [handleDashes, eraseKey, h]
  | pedalStart line staff =>
    simp only [handleDirection, canonDir, List.foldl_cons, List.foldl_nil, handleItem, stepW]
    cases h : Model.lookup 1 st.pedal with
    | none => simp [newObj, handleDashes, mkObj, stf]
    | some i => simp [newObj, handleDashes, mkObj, stf]
  | pedalStop line staff =>
    simp only [handleDirection, canonDir, List.foldl_cons, List.foldl_nil, handleItem, stepW]
    cases h : Model.lookup 1 st.pedal with
    | none => simp [handleDashes]
    | some i => simp [handleDashes]

/-! ### lists of objects -/

theorem getElem?_setEnd (objs : List DirObj) (i t j : Nat) :
    (setEnd objs i t)[j]? = (objs[j]?).map fun o => if j = i then { o with stop := some t } else o := by
  simp [setEnd, List.getElem?_mapIdx]

theorem getElem?_snoc_lt (objs : List DirObj) (o : DirObj) (j : Nat) (h : j < objs.length) :
    (objs ++ [o])[j]? = objs[j]? := List.getElem?_append_left h

theorem getElem?_snoc_len (objs : List DirObj) (o : DirObj) : (objs ++ [o])[objs.length]? = some o := by
  simp

theorem lt_of_getElem? {objs : List DirObj} {j : Nat} {o : DirObj} (h : objs[j]? = some o) : j < objs.length := by
  by_contra hc
  rw [List.getElem?_eq_none (by omega)] at h
  cases h

theorem getElem?_snoc_some (objs : List DirObj) (o o' : DirObj) (j : Nat) (h : (objs ++ [o])[j]? = some o') :
    objs[j]? = some o' ∨ (j = objs.length ∧ o' = o) := by
  by_cases hj : j < objs.length
  · left; rwa [getElem?_snoc_lt objs o j hj] at h
  · have hlen := lt_of_getElem? h
    simp only [List.length_append, List.length_singleton] at hlen
    have : j = objs.length := by omega
    subst this
    rw [getElem?_snoc_len] at h
    right; exact ⟨rfl, (Option.some.inj h).symm⟩

/-! ### association lists -/

theorem lookup_mem {β : Type} (k : Int) (l : List (Int × β)) (v : β) (h : Model.lookup k l = some v) : (k, v) ∈ l := by
  induction l with
  | nil => cases h
  | cons x xs ih =>
    obtain ⟨a, b⟩ := x
    unfold Model.lookup at h
    by_cases hk : a = k
    · simp only [hk, if_true, Option.some.injEq] at h; subst h; subst hk; exact List.mem_cons_self ..
    · simp only [hk, if_false] at h; exact List.mem_cons_of_mem _ (ih h)

theorem lookup_eraseKey {β : Type} (k k' : Int) (l : List (Int × β)) :
    Model.lookup k (eraseKey k' l) = if k = k' then none else Model.lookup k l := by
  induction l with
  | nil => simp [eraseKey, Model.lookup]
  | cons x xs ih =>
    obtain ⟨a, b⟩ := x
    unfold eraseKey at ih ⊢
    by_cases ha : a = k'
    · subst ha
      simp only [List.filter_cons, ne_eq, not_true_eq_false, decide_false, Bool.false_eq_true, if_false, ih]
      by_cases hk : k = a
      · simp [hk]
      · have : ¬ a = k := fun e => hk e.symm
        simp [hk, Model.lookup, this]
    · simp only [List.filter_cons, ne_eq, ha, not_false_eq_true, decide_true, if_true, Model.lookup, ih]
      by_cases hk : a = k
      · have : ¬ k = k' := fun e => ha (hk.trans e)
        simp [hk, this]
      · simp [hk]

theorem mem_eraseKey {β : Type} {k : Int} {l : List (Int × β)} {x : Int × β} (h : x ∈ eraseKey k l) :
    x ∈ l ∧ x.1 ≠ k := by
  unfold eraseKey at h
  obtain ⟨h1, h2⟩ := List.mem_filter.mp h
  exact ⟨h1, by simpa using h2⟩

theorem lookup_filter_ne (m k : Nat) (l : List (Nat × Nat)) (h : m ≠ k) :
    Model.lookup m (l.filter (·.1 ≠ k)) = Model.lookup m l := by
  induction l with
  | nil => rfl
  | cons x xs ih =>
    obtain ⟨a, b⟩ := x
    by_cases ha : a = k
    · subst ha
      have : ¬ a = m := fun e => h e.symm
      rw [List.filter_cons_of_neg (by simp)]
      simp only [Model.lookup, this, if_false]
      exact ih
    · rw [List.filter_cons_of_pos (by simpa using ha)]
      simp only [Model.lookup, ih]

theorem lookup_filter_self (k : Nat) (l : List (Nat × Nat)) : Model.lookup k (l.filter (·.1 ≠ k)) = none := by
  induction l with
  | nil => rfl
  | cons x xs ih =>
    obtain ⟨a, b⟩ := x
    by_cases ha : a = k
    · subst ha
      rw [List.filter_cons_of_neg (by simp)]
      exact ih
    · rw [List.filter_cons_of_pos (by simpa using ha)]
      simp only [Model.lookup, ha, if_false, ih]

/-! ### the invariant -/

def IsW (o : DirObj) : Prop := o.kind = 1 ∨ o.kind = 2

/-- a wedge object that was ended: the element that started it and the element that stopped it -/
def WPair (objs : List DirObj) (a b : Nat) : Prop :=
  ∃ (j : Nat) (o : DirObj), objs[j]? = some o ∧ IsW o ∧ o.start = a ∧ o.stop = some b

structure Inv (st : DirState) (sl : List (Nat × Nat) × List (Nat × Nat)) : Prop where
  wopen : ∀ n i, (n, i) ∈ st.wedge → ∃ o, st.objs[i]? = some o ∧ IsW o ∧ o.stop = none
  wnodup : (st.wedge.map (·.2)).Nodup
  wslots : ∀ m : Nat, (Model.lookup (m : Int) st.wedge).bind (fun i => (st.objs[i]?).map (·.start)) = Model.lookup m sl.1
  closed : ∀ a b, WPair st.objs a b ↔ (a, b) ∈ sl.2
  dkind : ∀ n l, (n, l) ∈ st.dashes → ∀ i ∈ l, ∃ o, st.objs[i]? = some o ∧ o.kind = 3
  pkind : ∀ n i, (n, i) ∈ st.pedal → ∃ o, st.objs[i]? = some o ∧ o.kind = 4

theorem inv_init : Inv { objs := [], wedge := [], dashes := [], pedal := [] } ([], []) where
  wopen := fun _ _ h => by cases h
  wnodup := by simp
  wslots := fun m => by simp [Model.lookup]
  closed := fun a b => by simp [WPair]
  dkind := fun _ _ h => by cases h
  pkind := fun _ _ h => by cases h

/-- a new object without end changes nothing that is there -/
theorem inv_append (st : DirState) (sl) (o : DirObj) (hstop : o.stop = none) (h : Inv st sl) :
    Inv { st with objs := st.objs ++ [o] } sl where
  wopen := fun n i hm => by
    obtain ⟨o', h1, h2, h3⟩ := h.wopen n i hm
    exact ⟨o', by rw [getElem?_snoc_lt _ _ _ (lt_of_getElem? h1)]; exact h1, h2, h3⟩
  wnodup := h.wnodup
  wslots := fun m => by
    rw [← h.wslots m]
    cases hl : Model.lookup (m : Int) st.wedge with
    | none => rfl
    | some i =>
      obtain ⟨o', h1, _, _⟩ := h.wopen _ i (lookup_mem _ _ _ hl)
      simp only [Option.bind_some]
      rw [getElem?_snoc_lt _ _ _ (lt_of_getElem? h1)]
  closed := fun a b => by
    rw [← h.closed a b]
    constructor
    · rintro ⟨j, o', h1, h2, h3, h4⟩
      rcases getElem?_snoc_some _ _ _ _ h1 with h1' | ⟨_, rfl⟩
      · exact ⟨j, o', h1', h2, h3, h4⟩
      · rw [hstop] at h4; cases h4
    · rintro ⟨j, o', h1, h2, h3, h4⟩
      exact ⟨j, o', by rw [getElem?_snoc_lt _ _ _ (lt_of_getElem? h1)]; exact h1, h2, h3, h4⟩
  dkind := fun n l hm i hi => by
    obtain ⟨o', h1, h2⟩ := h.dkind n l hm i hi
    exact ⟨o', by rw [getElem?_snoc_lt _ _ _ (lt_of_getElem? h1)]; exact h1, h2⟩
  pkind := fun n i hm => by
    obtain ⟨o', h1, h2⟩ := h.pkind n i hm
    exact ⟨o', by rw [getElem?_snoc_lt _ _ _ (lt_of_getElem? h1)]; exact h1, h2⟩

/-- ending an object that is not a wedge changes nothing about wedges -/
theorem inv_setEnd_other (st : DirState) (sl) (i t : Nat) (hk : ∀ o, st.objs[i]? = some o → ¬ IsW o) (h : Inv st sl) :
    Inv { st with objs := setEnd st.objs i t } sl where
  wopen := fun n i' hm => by
    obtain ⟨o', h1, h2, h3⟩ := h.wopen n i' hm
    have hne : i' ≠ i := fun e => hk o' (e ▸ h1) h2
    exact ⟨o', by simp [getElem?_setEnd, h1, hne], h2, h3⟩
  wnodup := h.wnodup
  wslots := fun m => by
    rw [← h.wslots m]
    cases hl : Model.lookup (m : Int) st.wedge with
    | none => rfl
    | some i' =>
      simp only [Option.bind_some, getElem?_setEnd]
      cases st.objs[i']? with
      | none => rfl
      | some o' => by_cases he : i' = i <;> simp [he]
  closed := fun a b => by
    rw [← h.closed a b]
    constructor
    · rintro ⟨j, o', h1, h2, h3, h4⟩
      rw [getElem?_setEnd] at h1
      cases ho : st.objs[j]? with
      | none => simp [ho] at h1
      | some o0 =>
        simp only [ho, Option.map_some, Option.some.injEq] at h1
        by_cases hj : j = i
        · subst hj
          simp only [if_true] at h1
          subst h1
          exact absurd h2 (hk o0 ho)
        · simp only [hj, if_false] at h1
          subst h1
          exact ⟨j, o0, ho, h2, h3, h4⟩
    · rintro ⟨j, o', h1, h2, h3, h4⟩
      have hne : j ≠ i := fun e => hk o' (e ▸ h1) h2
      exact ⟨j, o', by simp [getElem?_setEnd, h1, hne], h2, h3, h4⟩
  dkind := fun n l hm i' hi => by
    obtain ⟨o', h1, h2⟩ := h.dkind n l hm i' hi
    by_cases he : i' = i
    · exact ⟨{ o' with stop := some t }, by rw [getElem?_setEnd, h1]; simp only [Option.map_some, he, if_true], h2⟩
    · exact ⟨o', by rw [getElem?_setEnd, h1]; simp only [Option.map_some, he, if_false], h2⟩
  pkind := fun n i' hm => by
    obtain ⟨o', h1, h2⟩ := h.pkind n i' hm
    by_cases he : i' = i
    · exact ⟨{ o' with stop := some t }, by rw [getElem?_setEnd, h1]; simp only [Option.map_some, he, if_true], h2⟩
    · exact ⟨o', by rw [getElem?_setEnd, h1]; simp only [Option.map_some, he, if_false], h2⟩

theorem kind_setEnd (objs : List DirObj) (i t j : Nat) (o : DirObj) (h : (setEnd objs i t)[j]? = some o) :
    ∃ o0, objs[j]? = some o0 ∧ o.kind = o0.kind := by
  rw [getElem?_setEnd] at h
  cases ho : objs[j]? with
  | none => simp [ho] at h
  | some o0 =>
    simp only [ho, Option.map_some, Option.some.injEq] at h
    subst h
    exact ⟨o0, rfl, by split <;> rfl⟩

theorem inv_setEnds_other (l : List Nat) (t : Nat) : ∀ (st : DirState) (sl),
    (∀ i ∈ l, ∀ o, st.objs[i]? = some o → ¬ IsW o) → Inv st sl →
    Inv { st with objs := l.foldl (fun objs i => setEnd objs i t) st.objs } sl := by
  induction l with
  | nil => intro st sl _ h; exact h
  | cons i is ih =>
    intro st sl hk h
    have h1 := inv_setEnd_other st sl i t (hk i (List.mem_cons_self ..)) h
    have := ih { st with objs := setEnd st.objs i t } sl
      (fun i' hi' o ho => by
        obtain ⟨o0, ho0, hkind⟩ := kind_setEnd _ _ _ _ _ ho
        have := hk i' (List.mem_cons_of_mem _ hi') o0 ho0
        unfold IsW at this ⊢
        rw [hkind]; exact this) h1
    simpa using this

theorem inv_set_dashes (st : DirState) (sl) (d' : List (Int × List Nat))
    (hd : ∀ n l, (n, l) ∈ d' → ∀ i ∈ l, ∃ o, st.objs[i]? = some o ∧ o.kind = 3) (h : Inv st sl) :
    Inv { st with dashes := d' } sl :=
  { wopen := h.wopen, wnodup := h.wnodup, wslots := h.wslots, closed := h.closed, dkind := hd, pkind := h.pkind }

theorem inv_set_pedal (st : DirState) (sl) (p' : List (Int × Nat))
    (hp : ∀ n i, (n, i) ∈ p' → ∃ o, st.objs[i]? = some o ∧ o.kind = 4) (h : Inv st sl) :
    Inv { st with pedal := p' } sl :=
  { wopen := h.wopen, wnodup := h.wnodup, wslots := h.wslots, closed := h.closed, dkind := h.dkind, pkind := hp }

/-! ### the marks of the wedges, and one step -/

/-- numbers are never 0 (the exporter's counter starts at 1; a 0 would be read as 1) -/
def NumOK : DirW → Prop
  | .wedgeStart _ k _ => k ≠ 0
  | .words _ (some k) _ => k ≠ 0
  | .rangeStop _ k => k ≠ 0
  | _ => True

theorem num_eq {k : Nat} (h : k ≠ 0) : num k = (k : Int) := by
  unfold num intOr
  simp [h]

/-- what the wedge elements look like to `slotAll`: the element index, start or stop, the number -/
def wedgeMark (pos : Nat) : DirW → Option Model.Ranges.Mark
  | .wedgeStart _ k _ => some { note := pos, time := 0, isStart := true, number := k }
  | .rangeStop true k => some { note := pos, time := 0, isStart := false, number := k }
  | _ => none

def slotStep? (sl : List (Nat × Nat) × List (Nat × Nat)) : Option Model.Ranges.Mark → List (Nat × Nat) × List (Nat × Nat)
  | some m => slotStep sl m
  | none => sl

theorem nodup_snd_unique {l : List (Int × Nat)} (h : (l.map (·.2)).Nodup) {a b : Int} {i : Nat}
    (ha : (a, i) ∈ l) (hb : (b, i) ∈ l) : a = b := by
  induction l with
  | nil => cases ha
  | cons x xs ih =>
    simp only [List.map_cons, List.nodup_cons, List.mem_map, not_exists, not_and] at h
    rcases List.mem_cons.mp ha with ha | ha <;> rcases List.mem_cons.mp hb with hb | hb
    · rw [← ha] at hb; exact (Prod.mk.inj hb).1.symm
    · exact absurd rfl (by rw [← ha] at h; exact h.1 (b, i) hb)
    · exact absurd rfl (by rw [← hb] at h; exact h.1 (a, i) ha)
    · exact ih h.2 ha hb

theorem step_inv (st : DirState) (sl) (pos : Nat) (w : DirW) (hn : NumOK w) (h : Inv st sl) :
    Inv (stepW st pos w) (slotStep? sl (wedgeMark pos w)) := by
  cases w with
  | dyn name staff => exact inv_append st sl _ rfl h
  | words t d staff =>
    cases d with
    | none => exact inv_append st sl _ rfl h
    | some k =>
      have h1 := inv_append st sl (mkObj pos 3 (filterString t) false (stf staff)) rfl h
      refine inv_set_dashes _ sl _ ?_ h1
      intro n l hm i hi
      rcases List.mem_cons.mp hm with hm | hm
      · obtain ⟨_, rfl⟩ := Prod.mk.inj hm
        simp only [List.mem_singleton] at hi
        subst hi
        exact ⟨_, getElem?_snoc_len _ _, rfl⟩
      · exact h1.dkind n l (mem_eraseKey hm).1 i hi
  | wedgeStart c k staff =>
    have hk : k ≠ 0 := hn
    have h1 := inv_append st sl (mkObj pos (if c then 1 else 2) (if c then sCresc else sDim) false (stf staff)) rfl h
    have hlt : ∀ n i, (n, i) ∈ st.wedge → i < st.objs.length := fun n i hm => by
      obtain ⟨o, ho, _, _⟩ := h.wopen n i hm
      exact lt_of_getElem? ho
    simp only [stepW, wedgeMark, slotStep?, slotStep, num_eq hk, if_true]
    constructor
    · intro n i hm
      rcases List.mem_cons.mp hm with hm | hm
      · obtain ⟨_, rfl⟩ := Prod.mk.inj hm
        refine ⟨_, getElem?_snoc_len _ _, ?_, rfl⟩
        cases c <;> simp [IsW, mkObj]
      · exact h1.wopen n i (mem_eraseKey hm).1
    · simp only [List.map_cons, List.nodup_cons]
      constructor
      · intro hmem
        obtain ⟨x, hx, hx2⟩ := List.mem_map.mp hmem
        have := hlt x.1 x.2 (mem_eraseKey hx).1
        omega
      · exact (h.wnodup).sublist ((List.filter_sublist).map _)
    · intro m
      by_cases hm : m = k
      · subst hm
        simp [Model.lookup, mkObj]
      · have hne : ¬ ((k : Int) = (m : Int)) := fun e => hm (by exact_mod_cast e.symm)
        have hne' : ¬ ((m : Int) = (k : Int)) := fun e => hne e.symm
        have hkm : ¬ k = m := fun e => hm e.symm
        simp only [Model.lookup, hne, if_false, lookup_eraseKey, hne', hkm]
        rw [lookup_filter_ne m k sl.1 hm]
        exact h1.wslots m
    · exact h1.closed
    · exact h1.dkind
    · exact h1.pkind
  | rangeStop isWedge k =>
    have hk : k ≠ 0 := hn
    cases isWedge with
    | false =>
      simp only [stepW, wedgeMark, slotStep?]
      cases hl : Model.lookup (num k) st.dashes with
      | none => exact h
      | some l =>
        have hmem := lookup_mem _ _ _ hl
        have h1 := inv_setEnds_other l pos st sl (fun i hi o ho => by
          obtain ⟨o', ho', hkind⟩ := h.dkind _ l hmem i hi
          rw [ho'] at ho
          cases ho
          unfold IsW; omega) h
        refine inv_set_dashes _ sl _ ?_ h1
        intro n l' hm i hi
        exact h1.dkind n l' (mem_eraseKey hm).1 i hi
    | true =>
      simp only [stepW, wedgeMark, slotStep?, slotStep, num_eq hk, Bool.false_eq_true, if_false]
      cases hl : Model.lookup (k : Int) st.wedge with
      | none =>
        have := h.wslots k
        rw [hl] at this
        simp only [Option.bind_none] at this
        rw [← this]
        exact h
      | some i =>
        have hmem := lookup_mem _ _ _ hl
        obtain ⟨o, ho, hoW, hostop⟩ := h.wopen _ i hmem
        have hs := h.wslots k
        rw [hl] at hs
        simp only [Option.bind_some, ho, Option.map_some] at hs
        rw [← hs]
        have hother : ∀ n i', (n, i') ∈ eraseKey (k : Int) st.wedge → i' ≠ i := by
          intro n i' hm hi
          subst hi
          obtain ⟨hm1, hm2⟩ := mem_eraseKey hm
          exact hm2 (nodup_snd_unique h.wnodup hm1 hmem)
        constructor
        · intro n i' hm
          obtain ⟨o', ho', h2, h3⟩ := h.wopen n i' (mem_eraseKey hm).1
          exact ⟨o', by rw [getElem?_setEnd, ho']; simp [hother n i' hm], h2, h3⟩
        · exact (h.wnodup).sublist ((List.filter_sublist).map _)
        · intro m
          by_cases hm : m = k
          · subst hm
            rw [lookup_eraseKey, if_pos rfl]
            exact (lookup_filter_self m sl.1).symm
          · have hne' : ¬ ((m : Int) = (k : Int)) := fun e => hm (by exact_mod_cast e)
            simp only [lookup_eraseKey, hne', if_false]
            rw [lookup_filter_ne m k sl.1 hm, ← h.wslots m]
            cases hl' : Model.lookup (m : Int) st.wedge with
            | none => rfl
            | some i' =>
              have hmem' := lookup_mem _ _ _ hl'
              have hne : i' ≠ i := fun e => by
                subst e
                exact hne' (nodup_snd_unique h.wnodup hmem' hmem)
              simp only [Option.bind_some, getElem?_setEnd]
              cases st.objs[i']? with
              | none => rfl
              | some o' => simp [hne]
        · intro a b
          simp only [List.mem_append, List.mem_singleton, Prod.mk.injEq, ← h.closed a b]
          constructor
          · rintro ⟨j, o', h1, h2, h3, h4⟩
            rw [getElem?_setEnd] at h1
            cases ho0 : st.objs[j]? with
            | none => simp [ho0] at h1
            | some o0 =>
              simp only [ho0, Option.map_some, Option.some.injEq] at h1
              by_cases hj : j = i
              · subst hj
                simp only [if_true] at h1
                subst h1
                rw [ho] at ho0
                cases ho0
                right
                simp only [Option.some.injEq] at h4
                exact ⟨h3.symm, h4.symm⟩
              · simp only [hj, if_false] at h1
                subst h1
                exact Or.inl ⟨j, o0, ho0, h2, h3, h4⟩
          · rintro (⟨j, o', h1, h2, h3, h4⟩ | ⟨ha, hb⟩)
            · have hne : j ≠ i := fun e => by
                subst e
                rw [ho] at h1
                cases h1
                rw [hostop] at h4
                cases h4
              exact ⟨j, o', by rw [getElem?_setEnd, h1]; simp [hne], h2, h3, h4⟩
            · exact ⟨i, { o with stop := some pos }, by rw [getElem?_setEnd, ho]; simp, hoW, ha.symm, by simp [hb]⟩
        · intro n l hm i' hi
          obtain ⟨o', ho', hk'⟩ := h.dkind n l hm i' hi
          obtain ⟨o2, ho2, hkind⟩ : ∃ o2, (setEnd st.objs i pos)[i']? = some o2 ∧ o2.kind = o'.kind := by
            rw [getElem?_setEnd, ho']
            exact ⟨_, rfl, by simp only [Option.map_some]; split <;> rfl⟩
          exact ⟨o2, ho2, by rw [hkind]; exact hk'⟩
        · intro n i' hm
          obtain ⟨o', ho', hk'⟩ := h.pkind n i' hm
          obtain ⟨o2, ho2, hkind⟩ : ∃ o2, (setEnd st.objs i pos)[i']? = some o2 ∧ o2.kind = o'.kind := by
            rw [getElem?_setEnd, ho']
            exact ⟨_, rfl, by simp only [Option.map_some]; split <;> rfl⟩
          exact ⟨o2, ho2, by rw [hkind]; exact hk'⟩
  | pedalStart line staff =>
    simp only [stepW, wedgeMark, slotStep?]
    have h1 := inv_append st sl (mkObj pos 4 [] line (stf staff)) rfl h
    cases hl : Model.lookup 1 st.pedal with
    | none =>
      refine inv_set_pedal _ sl _ ?_ h1
      intro n i hm
      rcases List.mem_cons.mp hm with hm | hm
      · obtain ⟨_, rfl⟩ := Prod.mk.inj hm
        exact ⟨_, getElem?_snoc_len _ _, rfl⟩
      · exact h1.pkind n i (mem_eraseKey hm).1
    | some i =>
      have hmem := lookup_mem _ _ _ hl
      obtain ⟨oi, hoi, hki⟩ := h1.pkind _ i hmem
      have h2 := inv_setEnd_other _ sl i pos (fun o ho => by
        rw [hoi] at ho; cases ho; unfold IsW; omega) h1
      refine inv_set_pedal _ sl _ ?_ h2
      intro n i' hm
      rcases List.mem_cons.mp hm with hm | hm
      · obtain ⟨_, rfl⟩ := Prod.mk.inj hm
        have hlt : i < st.objs.length := by
          obtain ⟨o0, ho0, _⟩ := h.pkind _ i hmem
          exact lt_of_getElem? ho0
        refine ⟨mkObj pos 4 [] line (stf staff), ?_, rfl⟩
        show (setEnd (st.objs ++ [mkObj pos 4 [] line (stf staff)]) i pos)[st.objs.length]? = _
        rw [getElem?_setEnd, getElem?_snoc_len]
        have : st.objs.length ≠ i := by omega
        simp [this]
      · exact h2.pkind n i' (mem_eraseKey (mem_eraseKey hm).1).1
  | pedalStop line staff =>
    simp only [stepW, wedgeMark, slotStep?]
    cases hl : Model.lookup 1 st.pedal with
    | none => exact h
    | some i =>
      have hmem := lookup_mem _ _ _ hl
      obtain ⟨oi, hoi, hki⟩ := h.pkind _ i hmem
      have h2 := inv_setEnd_other st sl i pos (fun o ho => by
        rw [hoi] at ho; cases ho; unfold IsW; omega) h
      refine inv_set_pedal _ sl _ ?_ h2
      intro n i' hm
      exact h2.pkind n i' (mem_eraseKey hm).1

/-! ### the whole document -/

/-- the wedge elements of a document as `slotAll` sees them -/
def wedgeMarks (ws : List DirW) : List Model.Ranges.Mark :=
  (ws.zipIdx).filterMap fun wi => wedgeMark wi.2 wi.1

theorem run_inv : ∀ (ws : List DirW) (k : Nat) (st : DirState) (sl : List (Nat × Nat) × List (Nat × Nat)),
    (∀ w ∈ ws, NumOK w) → Inv st sl →
    Inv ((ws.zipIdx k).foldl (fun st wi => handleDirection st wi.2 (canonDir wi.1)) st)
      (((ws.zipIdx k).filterMap fun wi => wedgeMark wi.2 wi.1).foldl slotStep sl) := by
  intro ws
  induction ws with
  | nil => intro k st sl _ h; simpa using h
  | cons w ws ih =>
    intro k st sl hn h
    have hstep := step_inv st sl k w (hn w (List.mem_cons_self ..)) h
    rw [← handleDirection_canon] at hstep
    simp only [List.zipIdx_cons, List.foldl_cons, List.filterMap_cons]
    have := ih (k + 1) _ _ (fun w' hw' => hn w' (List.mem_cons_of_mem _ hw')) hstep
    cases hm : wedgeMark k w with
    | none => simpa [slotStep?, hm] using this
    | some m => simpa [slotStep?, hm] using this

theorem readDirections_map (ws : List DirW) :
    readDirections (ws.map canonDir) =
      (ws.zipIdx).foldl (fun st wi => handleDirection st wi.2 (canonDir wi.1))
        { objs := [], wedge := [], dashes := [], pedal := [] } := by
  unfold readDirections
  rw [List.zipIdx_map, List.foldl_map]
  rfl

theorem readDirections_inv (ws : List DirW) (hn : ∀ w ∈ ws, NumOK w) :
    Inv (readDirections (ws.map canonDir)) (slotAll (wedgeMarks ws)) := by
  rw [readDirections_map]
  exact run_inv ws 0 _ _ hn inv_init

/-! ### pedals: one slot, a start on an open pedal ends it -/

/-- a pedal object that was ended: the element that started it and the element at which it ends -/
def PPair (objs : List DirObj) (a b : Nat) : Prop :=
  ∃ (j : Nat) (o : DirObj), objs[j]? = some o ∧ o.kind = 4 ∧ o.start = a ∧ o.stop = some b

/-- `ongoing[("pedal", 1)]` as one optional open start, and the pedals closed so far -/
def pedStep (ps : Option Nat × List (Nat × Nat)) (m : Nat × Bool) : Option Nat × List (Nat × Nat) :=
  match m.2, ps.1 with
  | true, some a => (some m.1, ps.2 ++ [(a, m.1)])
  | true, none => (some m.1, ps.2)
  | false, some a => (none, ps.2 ++ [(a, m.1)])
  | false, none => ps

def pedalMark (pos : Nat) : DirW → Option (Nat × Bool)
  | .pedalStart _ _ => some (pos, true)
  | .pedalStop _ _ => some (pos, false)
  | _ => none

def pedStep? (ps : Option Nat × List (Nat × Nat)) : Option (Nat × Bool) → Option Nat × List (Nat × Nat)
  | some m => pedStep ps m
  | none => ps

def pedalAll (ws : List DirW) : Option Nat × List (Nat × Nat) :=
  ((ws.zipIdx).filterMap fun wi => pedalMark wi.2 wi.1).foldl pedStep (none, [])

structure PInv (st : DirState) (ps : Option Nat × List (Nat × Nat)) : Prop where
  popen : match ps.1 with
    | none => Model.lookup 1 st.pedal = none
    | some a => ∃ i o, Model.lookup 1 st.pedal = some i ∧ st.objs[i]? = some o ∧ o.kind = 4 ∧ o.stop = none ∧ o.start = a
  pclosed : ∀ a b, PPair st.objs a b ↔ (a, b) ∈ ps.2
  wother : ∀ n i, (n, i) ∈ st.wedge → ∃ o, st.objs[i]? = some o ∧ o.kind ≠ 4
  dother : ∀ n l, (n, l) ∈ st.dashes → ∀ i ∈ l, ∃ o, st.objs[i]? = some o ∧ o.kind ≠ 4

theorem pinv_init : PInv { objs := [], wedge := [], dashes := [], pedal := [] } (none, []) where
  popen := rfl
  pclosed := fun a b => by simp [PPair]
  wother := fun _ _ h => by cases h
  dother := fun _ _ h => by cases h

/-- a new object without end, the maps unchanged -/
theorem pinv_append (st : DirState) (ps) (o : DirObj) (hstop : o.stop = none) (h : PInv st ps) :
    PInv { st with objs := st.objs ++ [o] } ps where
  popen := by
    have := h.popen
    cases hp : ps.1 with
    | none => simpa [hp] using this
    | some a =>
      simp only [hp] at this ⊢
      obtain ⟨i, o', h1, h2, h3⟩ := this
      exact ⟨i, o', h1, by rw [getElem?_snoc_lt _ _ _ (lt_of_getElem? h2)]; exact h2, h3⟩
  pclosed := fun a b => by
    rw [← h.pclosed a b]
    constructor
    · rintro ⟨j, o', h1, h2, h3, h4⟩
      rcases getElem?_snoc_some _ _ _ _ h1 with h1' | ⟨_, rfl⟩
      · exact ⟨j, o', h1', h2, h3, h4⟩
      · rw [hstop] at h4; cases h4
    · rintro ⟨j, o', h1, h2, h3, h4⟩
      exact ⟨j, o', by rw [getElem?_snoc_lt _ _ _ (lt_of_getElem? h1)]; exact h1, h2, h3, h4⟩
  wother := fun n i hm => by
    obtain ⟨o', h1, h2⟩ := h.wother n i hm
    exact ⟨o', by rw [getElem?_snoc_lt _ _ _ (lt_of_getElem? h1)]; exact h1, h2⟩
  dother := fun n l hm i hi => by
    obtain ⟨o', h1, h2⟩ := h.dother n l hm i hi
    exact ⟨o', by rw [getElem?_snoc_lt _ _ _ (lt_of_getElem? h1)]; exact h1, h2⟩

/-- ending an object that is not a pedal -/
theorem pinv_setEnd_other (st : DirState) (ps) (i t : Nat) (hk : ∀ o, st.objs[i]? = some o → o.kind ≠ 4) (h : PInv st ps) :
    PInv { st with objs := setEnd st.objs i t } ps where
  popen := by
    have := h.popen
    cases hp : ps.1 with
    | none => simpa [hp] using this
    | some a =>
      simp only [hp] at this ⊢
      obtain ⟨i', o', h1, h2, h3, h4⟩ := this
      have hne : i' ≠ i := fun e => hk o' (e ▸ h2) h3
      exact ⟨i', o', h1, by rw [getElem?_setEnd, h2]; simp [hne], h3, h4⟩
  pclosed := fun a b => by
    rw [← h.pclosed a b]
    constructor
    · rintro ⟨j, o', h1, h2, h3, h4⟩
      rw [getElem?_setEnd] at h1
      cases ho : st.objs[j]? with
      | none => simp [ho] at h1
      | some o0 =>
        simp only [ho, Option.map_some, Option.some.injEq] at h1
        by_cases hj : j = i
        · subst hj
          simp only [if_true] at h1
          subst h1
          exact absurd h2 (hk o0 ho)
        · simp only [hj, if_false] at h1
          subst h1
          exact ⟨j, o0, ho, h2, h3, h4⟩
    · rintro ⟨j, o', h1, h2, h3, h4⟩
      have hne : j ≠ i := fun e => hk o' (e ▸ h1) h2
      exact ⟨j, o', by rw [getElem?_setEnd, h1]; simp [hne], h2, h3, h4⟩
  wother := fun n i' hm => by
    obtain ⟨o', h1, h2⟩ := h.wother n i' hm
    obtain ⟨o2, ho2, hkind⟩ : ∃ o2, (setEnd st.objs i t)[i']? = some o2 ∧ o2.kind = o'.kind := by
      rw [getElem?_setEnd, h1]
      exact ⟨_, rfl, by simp only [Option.map_some]; split <;> rfl⟩
    exact ⟨o2, ho2, by rw [hkind]; exact h2⟩
  dother := fun n l hm i' hi => by
    obtain ⟨o', h1, h2⟩ := h.dother n l hm i' hi
    obtain ⟨o2, ho2, hkind⟩ : ∃ o2, (setEnd st.objs i t)[i']? = some o2 ∧ o2.kind = o'.kind := by
      rw [getElem?_setEnd, h1]
      exact ⟨_, rfl, by simp only [Option.map_some]; split <;> rfl⟩
    exact ⟨o2, ho2, by rw [hkind]; exact h2⟩

theorem pinv_setEnds_other (l : List Nat) (t : Nat) : ∀ (st : DirState) (ps),
    (∀ i ∈ l, ∀ o, st.objs[i]? = some o → o.kind ≠ 4) → PInv st ps →
    PInv { st with objs := l.foldl (fun objs i => setEnd objs i t) st.objs } ps := by
  induction l with
  | nil => intro st ps _ h; exact h
  | cons i is ih =>
    intro st ps hk h
    have h1 := pinv_setEnd_other st ps i t (hk i (List.mem_cons_self ..)) h
    have := ih { st with objs := setEnd st.objs i t } ps
      (fun i' hi' o ho => by
        obtain ⟨o0, ho0, hkind⟩ := kind_setEnd _ _ _ _ _ ho
        rw [hkind]
        exact hk i' (List.mem_cons_of_mem _ hi') o0 ho0) h1
    simpa using this

theorem pinv_set_wedge (st : DirState) (ps) (w' : List (Int × Nat))
    (hw : ∀ n i, (n, i) ∈ w' → ∃ o, st.objs[i]? = some o ∧ o.kind ≠ 4) (h : PInv st ps) :
    PInv { st with wedge := w' } ps :=
  { popen := h.popen, pclosed := h.pclosed, wother := hw, dother := h.dother }

theorem pinv_set_dashes (st : DirState) (ps) (d' : List (Int × List Nat))
    (hd : ∀ n l, (n, l) ∈ d' → ∀ i ∈ l, ∃ o, st.objs[i]? = some o ∧ o.kind ≠ 4) (h : PInv st ps) :
    PInv { st with dashes := d' } ps :=
  { popen := h.popen, pclosed := h.pclosed, wother := h.wother, dother := hd }

theorem pstep_inv (st : DirState) (ps) (pos : Nat) (w : DirW) (h : PInv st ps) :
    PInv (stepW st pos w) (pedStep? ps (pedalMark pos w)) := by
  cases w with
  | dyn name staff => exact pinv_append st ps _ rfl h
  | words t d staff =>
    cases d with
    | none => exact pinv_append st ps _ rfl h
    | some k =>
      have h1 := pinv_append st ps (mkObj pos 3 (filterString t) false (stf staff)) rfl h
      refine pinv_set_dashes _ ps _ ?_ h1
      intro n l hm i hi
      rcases List.mem_cons.mp hm with hm | hm
      · obtain ⟨_, rfl⟩ := Prod.mk.inj hm
        simp only [List.mem_singleton] at hi
        subst hi
        exact ⟨_, getElem?_snoc_len _ _, by simp [mkObj]⟩
      · exact h1.dother n l (mem_eraseKey hm).1 i hi
  | wedgeStart c k staff =>
    have h1 := pinv_append st ps (mkObj pos (if c then 1 else 2) (if c then sCresc else sDim) false (stf staff)) rfl h
    refine pinv_set_wedge _ ps _ ?_ h1
    intro n i hm
    rcases List.mem_cons.mp hm with hm | hm
    · obtain ⟨_, rfl⟩ := Prod.mk.inj hm
      exact ⟨_, getElem?_snoc_len _ _, by cases c <;> simp [mkObj]⟩
    · exact h1.wother n i (mem_eraseKey hm).1
  | rangeStop isWedge k =>
    cases isWedge with
    | true =>
      simp only [stepW, pedalMark, pedStep?]
      cases hl : Model.lookup (num k) st.wedge with
      | none => exact h
      | some i =>
        have hmem := lookup_mem _ _ _ hl
        obtain ⟨oi, hoi, hki⟩ := h.wother _ i hmem
        have h2 := pinv_setEnd_other st ps i pos (fun o ho => by rw [hoi] at ho; cases ho; exact hki) h
        refine pinv_set_wedge _ ps _ ?_ h2
        intro n i' hm
        exact h2.wother n i' (mem_eraseKey hm).1
    | false =>
      simp only [stepW, pedalMark, pedStep?]
      cases hl : Model.lookup (num k) st.dashes with
      | none => exact h
      | some l =>
        have hmem := lookup_mem _ _ _ hl
        have h1 := pinv_setEnds_other l pos st ps (fun i hi o ho => by
          obtain ⟨o', ho', hkind⟩ := h.dother _ l hmem i hi
          rw [ho'] at ho
          cases ho
          exact hkind) h
        refine pinv_set_dashes _ ps _ ?_ h1
        intro n l' hm i hi
        exact h1.dother n l' (mem_eraseKey hm).1 i hi
  | pedalStart line staff =>
    obtain ⟨hopen, hclosed, hwo, hdo⟩ := h
    simp only [stepW, pedalMark, pedStep?, pedStep]
    cases hp : ps.1 with
    | none =>
      simp only [hp] at hopen
      simp only [hopen]
      refine ⟨?_, ?_, ?_, ?_⟩
      · exact ⟨st.objs.length, _, by simp [Model.lookup], getElem?_snoc_len _ _, rfl, rfl, rfl⟩
      · exact (pinv_append st ps _ rfl ⟨by simpa [hp] using hopen, hclosed, hwo, hdo⟩).pclosed
      · exact (pinv_append st ps (mkObj pos 4 [] line (stf staff)) rfl ⟨by simpa [hp] using hopen, hclosed, hwo, hdo⟩).wother
      · exact (pinv_append st ps (mkObj pos 4 [] line (stf staff)) rfl ⟨by simpa [hp] using hopen, hclosed, hwo, hdo⟩).dother
    | some a =>
      simp only [hp] at hopen
      obtain ⟨i, oi, hl, hoi, hki, hstop, hstart⟩ := hopen
      have hlt : i < st.objs.length := lt_of_getElem? hoi
      simp only [hl]
      have hget : ∀ j, (setEnd (st.objs ++ [mkObj pos 4 [] line (stf staff)]) i pos)[j]? =
          if j = i then some { oi with stop := some pos }
          else if j = st.objs.length then some (mkObj pos 4 [] line (stf staff)) else st.objs[j]? := by
        intro j
        rw [getElem?_setEnd]
        by_cases hj : j = i
        · subst hj
          rw [getElem?_snoc_lt _ _ _ hlt, hoi]
          simp
        · simp only [hj, if_false]
          by_cases hj2 : j = st.objs.length
          · subst hj2; simp
          · simp only [hj2, if_false]
            by_cases hj3 : j < st.objs.length
            · rw [getElem?_snoc_lt _ _ _ hj3]; cases st.objs[j]? <;> simp
            · have : st.objs[j]? = none := List.getElem?_eq_none (by omega)
              rw [this, List.getElem?_eq_none (by simp; omega)]
              rfl
      refine ⟨?_, ?_, ?_, ?_⟩
      · refine ⟨st.objs.length, mkObj pos 4 [] line (stf staff), by simp [Model.lookup], ?_, rfl, rfl, rfl⟩
        rw [hget]
        have : st.objs.length ≠ i := by omega
        simp [this]
      · intro a' b'
        simp only [List.mem_append, List.mem_singleton, Prod.mk.injEq, ← hclosed a' b']
        constructor
        · rintro ⟨j, o', h1, h2, h3, h4⟩
          rw [hget] at h1
          by_cases hj : j = i
          · simp only [hj, if_true, Option.some.injEq] at h1
            subst h1
            right
            simp only [Option.some.injEq] at h4
            exact ⟨by rw [← h3, ← hstart], h4.symm⟩
          · simp only [hj, if_false] at h1
            by_cases hj2 : j = st.objs.length
            · simp only [hj2, if_true, Option.some.injEq] at h1
              subst h1
              cases h4
            · simp only [hj2, if_false] at h1
              exact Or.inl ⟨j, o', h1, h2, h3, h4⟩
        · rintro (⟨j, o', h1, h2, h3, h4⟩ | ⟨ha, hb⟩)
          · have hne : j ≠ i := fun e => by
              subst e
              rw [hoi] at h1
              cases h1
              rw [hstop] at h4
              cases h4
            have hne2 : j ≠ st.objs.length := by have := lt_of_getElem? h1; omega
            exact ⟨j, o', by rw [hget]; simp [hne, hne2, h1], h2, h3, h4⟩
          · exact ⟨i, { oi with stop := some pos }, by rw [hget]; simp, hki, by rw [ha]; exact hstart, by simp [hb]⟩
      · intro n i' hm
        obtain ⟨o', h1, h2⟩ := hwo n i' hm
        have hne : i' ≠ i := fun e => by subst e; rw [hoi] at h1; cases h1; exact h2 hki
        have hne2 : i' ≠ st.objs.length := by have := lt_of_getElem? h1; omega
        exact ⟨o', by rw [hget]; simp [hne, hne2, h1], h2⟩
      · intro n l hm i' hi
        obtain ⟨o', h1, h2⟩ := hdo n l hm i' hi
        have hne : i' ≠ i := fun e => by subst e; rw [hoi] at h1; cases h1; exact h2 hki
        have hne2 : i' ≠ st.objs.length := by have := lt_of_getElem? h1; omega
        exact ⟨o', by rw [hget]; simp [hne, hne2, h1], h2⟩
  | pedalStop line staff =>
    obtain ⟨hopen, hclosed, hwo, hdo⟩ := h
    simp only [stepW, pedalMark, pedStep?, pedStep]
    cases hp : ps.1 with
    | none =>
      simp only [hp] at hopen
      simp only [hopen]
      exact ⟨by simpa [hp] using hopen, hclosed, hwo, hdo⟩
    | some a =>
      simp only [hp] at hopen
      obtain ⟨i, oi, hl, hoi, hki, hstop, hstart⟩ := hopen
      simp only [hl]
      refine ⟨?_, ?_, ?_, ?_⟩
      · simp [lookup_eraseKey]
      · intro a' b'
        simp only [List.mem_append, List.mem_singleton, Prod.mk.injEq, ← hclosed a' b']
        constructor
        · rintro ⟨j, o', h1, h2, h3, h4⟩
          rw [getElem?_setEnd] at h1
          cases ho0 : st.objs[j]? with
          | none => simp [ho0] at h1
          | some o0 =>
            simp only [ho0, Option.map_some, Option.some.injEq] at h1
            by_cases hj : j = i
            · subst hj
              simp only [if_true] at h1
              subst h1
              rw [hoi] at ho0
              cases ho0
              right
              simp only [Option.some.injEq] at h4
              exact ⟨by rw [← h3, ← hstart], h4.symm⟩
            · simp only [hj, if_false] at h1
              subst h1
              exact Or.inl ⟨j, o0, ho0, h2, h3, h4⟩
        · rintro (⟨j, o', h1, h2, h3, h4⟩ | ⟨ha, hb⟩)
          · have hne : j ≠ i := fun e => by
              subst e
              rw [hoi] at h1
              cases h1
              rw [hstop] at h4
              cases h4
            exact ⟨j, o', by rw [getElem?_setEnd, h1]; simp [hne], h2, h3, h4⟩
          · exact ⟨i, { oi with stop := some pos }, by rw [getElem?_setEnd, hoi]; simp, hki, by rw [ha]; exact hstart,
              by simp [hb]⟩
      · intro n i' hm
        obtain ⟨o', h1, h2⟩ := hwo n i' hm
        obtain ⟨o2, ho2, hkind⟩ : ∃ o2, (setEnd st.objs i pos)[i']? = some o2 ∧ o2.kind = o'.kind := by
          rw [getElem?_setEnd, h1]
          exact ⟨_, rfl, by simp only [Option.map_some]; split <;> rfl⟩
        exact ⟨o2, ho2, by rw [hkind]; exact h2⟩
      · intro n l hm i' hi
        obtain ⟨o', h1, h2⟩ := hdo n l hm i' hi
        obtain ⟨o2, ho2, hkind⟩ : ∃ o2, (setEnd st.objs i pos)[i']? = some o2 ∧ o2.kind = o'.kind := by
          rw [getElem?_setEnd, h1]
          exact ⟨_, rfl, by simp only [Option.map_some]; split <;> rfl⟩
        exact ⟨o2, ho2, by rw [hkind]; exact h2⟩

theorem prun_inv : ∀ (ws : List DirW) (k : Nat) (st : DirState) (ps : Option Nat × List (Nat × Nat)), PInv st ps →
    PInv ((ws.zipIdx k).foldl (fun st wi => handleDirection st wi.2 (canonDir wi.1)) st)
      (((ws.zipIdx k).filterMap fun wi => pedalMark wi.2 wi.1).foldl pedStep ps) := by
  intro ws
  induction ws with
  | nil => intro k st ps h; simpa using h
  | cons w ws ih =>
    intro k st ps h
    have hstep := pstep_inv st ps k w h
    rw [← handleDirection_canon] at hstep
    simp only [List.zipIdx_cons, List.foldl_cons, List.filterMap_cons]
    have := ih (k + 1) _ _ hstep
    cases hm : pedalMark k w with
    | none => simpa [pedStep?, hm] using this
    | some m => simpa [pedStep?, hm] using this

theorem readDirections_pinv (ws : List DirW) : PInv (readDirections (ws.map canonDir)) (pedalAll ws) := by
  rw [readDirections_map]
  exact prun_inv ws 0 _ _ pinv_init

/-- start / stop in turn: every pedal comes back with both its elements -/
theorem pedal_alternating (ps : List (Nat × Nat)) (closed : List (Nat × Nat)) :
    (ps.flatMap fun p => [(p.1, true), (p.2, false)]).foldl pedStep (none, closed) = (none, closed ++ ps) := by
  induction ps generalizing closed with
  | nil => simp
  | cons p ps ih =>
    simp only [List.flatMap_cons, List.cons_append, List.nil_append, List.foldl_cons, pedStep]
    rw [ih]
    simp

/-! ### dashes: `ongoing[("dashes", n)]` holds the objects of the element that opened them -/

/-- a words object that was ended by a dashes stop: the element that started it and the stopping element -/
def DPair (objs : List DirObj) (a b : Nat) : Prop :=
  ∃ (j : Nat) (o : DirObj), objs[j]? = some o ∧ o.kind = 3 ∧ o.start = a ∧ o.stop = some b

def dashesMark (pos : Nat) : DirW → Option Model.Ranges.Mark
  | .words _ (some k) _ => some { note := pos, time := 0, isStart := true, number := k }
  | .rangeStop false k => some { note := pos, time := 0, isStart := false, number := k }
  | _ => none

def dashesMarks (ws : List DirW) : List Model.Ranges.Mark :=
  (ws.zipIdx).filterMap fun wi => dashesMark wi.2 wi.1

structure DInv (st : DirState) (sl : List (Nat × Nat) × List (Nat × Nat)) : Prop where
  dopen : ∀ n l, (n, l) ∈ st.dashes → ∃ i o, l = [i] ∧ st.objs[i]? = some o ∧ o.kind = 3 ∧ o.stop = none
  dunique : ∀ n n' i, (n, [i]) ∈ st.dashes → (n', [i]) ∈ st.dashes → n = n'
  dslots : ∀ m : Nat, (Model.lookup (m : Int) st.dashes).bind
      (fun l => l.head?.bind fun i => (st.objs[i]?).map (·.start)) = Model.lookup m sl.1
  dclosed : ∀ a b, DPair st.objs a b ↔ (a, b) ∈ sl.2
  wother : ∀ n i, (n, i) ∈ st.wedge → ∃ o, st.objs[i]? = some o ∧ o.kind ≠ 3
  pother : ∀ n i, (n, i) ∈ st.pedal → ∃ o, st.objs[i]? = some o ∧ o.kind ≠ 3

theorem dinv_init : DInv { objs := [], wedge := [], dashes := [], pedal := [] } ([], []) where
  dopen := fun _ _ h => by cases h
  dunique := fun _ _ _ h => by cases h
  dslots := fun m => by simp [Model.lookup]
  dclosed := fun a b => by simp [DPair]
  wother := fun _ _ h => by cases h
  pother := fun _ _ h => by cases h

theorem dinv_append (st : DirState) (sl) (o : DirObj) (hstop : o.stop = none) (h : DInv st sl) :
    DInv { st with objs := st.objs ++ [o] } sl where
  dopen := fun n l hm => by
    obtain ⟨i, o', h0, h1, h2, h3⟩ := h.dopen n l hm
    exact ⟨i, o', h0, by rw [getElem?_snoc_lt _ _ _ (lt_of_getElem? h1)]; exact h1, h2, h3⟩
  dunique := h.dunique
  dslots := fun m => by
    rw [← h.dslots m]
    cases hl : Model.lookup (m : Int) st.dashes with
    | none => rfl
    | some l =>
      obtain ⟨i, o', h0, h1, _, _⟩ := h.dopen _ l (lookup_mem _ _ _ hl)
      subst h0
      simp only [Option.bind_some, List.head?_cons]
      rw [getElem?_snoc_lt _ _ _ (lt_of_getElem? h1)]
  dclosed := fun a b => by
    rw [← h.dclosed a b]
    constructor
    · rintro ⟨j, o', h1, h2, h3, h4⟩
      rcases getElem?_snoc_some _ _ _ _ h1 with h1' | ⟨_, rfl⟩
      · exact ⟨j, o', h1', h2, h3, h4⟩
      · rw [hstop] at h4; cases h4
    · rintro ⟨j, o', h1, h2, h3, h4⟩
      exact ⟨j, o', by rw [getElem?_snoc_lt _ _ _ (lt_of_getElem? h1)]; exact h1, h2, h3, h4⟩
  wother := fun n i hm => by
    obtain ⟨o', h1, h2⟩ := h.wother n i hm
    exact ⟨o', by rw [getElem?_snoc_lt _ _ _ (lt_of_getElem? h1)]; exact h1, h2⟩
  pother := fun n i hm => by
    obtain ⟨o', h1, h2⟩ := h.pother n i hm
    exact ⟨o', by rw [getElem?_snoc_lt _ _ _ (lt_of_getElem? h1)]; exact h1, h2⟩

theorem dinv_setEnd_other (st : DirState) (sl) (i t : Nat) (hk : ∀ o, st.objs[i]? = some o → o.kind ≠ 3) (h : DInv st sl) :
    DInv { st with objs := setEnd st.objs i t } sl where
  dopen := fun n l hm => by
    obtain ⟨i', o', h0, h1, h2, h3⟩ := h.dopen n l hm
    have hne : i' ≠ i := fun e => hk o' (e ▸ h1) h2
    exact ⟨i', o', h0, by rw [getElem?_setEnd, h1]; simp [hne], h2, h3⟩
  dunique := h.dunique
  dslots := fun m => by
    rw [← h.dslots m]
    cases hl : Model.lookup (m : Int) st.dashes with
    | none => rfl
    | some l =>
      obtain ⟨i', o', h0, h1, h2, _⟩ := h.dopen _ l (lookup_mem _ _ _ hl)
      subst h0
      have hne : i' ≠ i := fun e => hk o' (e ▸ h1) h2
      simp only [Option.bind_some, List.head?_cons, getElem?_setEnd, h1, Option.map_some, hne, if_false]
  dclosed := fun a b => by
    rw [← h.dclosed a b]
    constructor
    · rintro ⟨j, o', h1, h2, h3, h4⟩
      rw [getElem?_setEnd] at h1
      cases ho : st.objs[j]? with
      | none => simp [ho] at h1
      | some o0 =>
        simp only [ho, Option.map_some, Option.some.injEq] at h1
        by_cases hj : j = i
        · subst hj
          simp only [if_true] at h1
          subst h1
          exact absurd h2 (hk o0 ho)
        · simp only [hj, if_false] at h1
          subst h1
          exact ⟨j, o0, ho, h2, h3, h4⟩
    · rintro ⟨j, o', h1, h2, h3, h4⟩
      have hne : j ≠ i := fun e => hk o' (e ▸ h1) h2
      exact ⟨j, o', by rw [getElem?_setEnd, h1]; simp [hne], h2, h3, h4⟩
  wother := fun n i' hm => by
    obtain ⟨o', h1, h2⟩ := h.wother n i' hm
    obtain ⟨o2, ho2, hkind⟩ : ∃ o2, (setEnd st.objs i t)[i']? = some o2 ∧ o2.kind = o'.kind := by
      rw [getElem?_setEnd, h1]
      exact ⟨_, rfl, by simp only [Option.map_some]; split <;> rfl⟩
    exact ⟨o2, ho2, by rw [hkind]; exact h2⟩
  pother := fun n i' hm => by
    obtain ⟨o', h1, h2⟩ := h.pother n i' hm
    obtain ⟨o2, ho2, hkind⟩ : ∃ o2, (setEnd st.objs i t)[i']? = some o2 ∧ o2.kind = o'.kind := by
      rw [getElem?_setEnd, h1]
      exact ⟨_, rfl, by simp only [Option.map_some]; split <;> rfl⟩
    exact ⟨o2, ho2, by rw [hkind]; exact h2⟩

theorem dinv_set_wedge (st : DirState) (sl) (w' : List (Int × Nat))
    (hw : ∀ n i, (n, i) ∈ w' → ∃ o, st.objs[i]? = some o ∧ o.kind ≠ 3) (h : DInv st sl) :
    DInv { st with wedge := w' } sl :=
  { dopen := h.dopen, dunique := h.dunique, dslots := h.dslots, dclosed := h.dclosed, wother := hw, pother := h.pother }

theorem dinv_set_pedal (st : DirState) (sl) (p' : List (Int × Nat))
    (hp : ∀ n i, (n, i) ∈ p' → ∃ o, st.objs[i]? = some o ∧ o.kind ≠ 3) (h : DInv st sl) :
    DInv { st with pedal := p' } sl :=
  { dopen := h.dopen, dunique := h.dunique, dslots := h.dslots, dclosed := h.dclosed, wother := h.wother, pother := hp }

theorem dstep_inv (st : DirState) (sl) (pos : Nat) (w : DirW) (hn : NumOK w) (h : DInv st sl) :
    DInv (stepW st pos w) (slotStep? sl (dashesMark pos w)) := by
  cases w with
  | dyn name staff => exact dinv_append st sl _ rfl h
  | wedgeStart c k staff =>
    have h1 := dinv_append st sl (mkObj pos (if c then 1 else 2) (if c then sCresc else sDim) false (stf staff)) rfl h
    refine dinv_set_wedge _ sl _ ?_ h1
    intro n i hm
    rcases List.mem_cons.mp hm with hm | hm
    · obtain ⟨_, rfl⟩ := Prod.mk.inj hm
      exact ⟨_, getElem?_snoc_len _ _, by cases c <;> simp [mkObj]⟩
    · exact h1.wother n i (mem_eraseKey hm).1
  | pedalStart line staff =>
    simp only [stepW, dashesMark, slotStep?]
    have h1 := dinv_append st sl (mkObj pos 4 [] line (stf staff)) rfl h
    cases hl : Model.lookup 1 st.pedal with
    | none =>
      refine dinv_set_pedal _ sl _ ?_ h1
      intro n i hm
      rcases List.mem_cons.mp hm with hm | hm
      · obtain ⟨_, rfl⟩ := Prod.mk.inj hm
        exact ⟨_, getElem?_snoc_len _ _, by simp [mkObj]⟩
      · exact h1.pother n i (mem_eraseKey hm).1
    | some i =>
      have hmem := lookup_mem _ _ _ hl
      obtain ⟨oi, hoi, hki⟩ := h1.pother _ i hmem
      have h2 := dinv_setEnd_other _ sl i pos (fun o ho => by rw [hoi] at ho; cases ho; exact hki) h1
      refine dinv_set_pedal _ sl _ ?_ h2
      intro n i' hm
      rcases List.mem_cons.mp hm with hm | hm
      · obtain ⟨_, rfl⟩ := Prod.mk.inj hm
        have hlt : i < st.objs.length := by
          obtain ⟨o0, ho0, _⟩ := h.pother _ i hmem
          exact lt_of_getElem? ho0
        refine ⟨mkObj pos 4 [] line (stf staff), ?_, by simp [mkObj]⟩
        show (setEnd (st.objs ++ [mkObj pos 4 [] line (stf staff)]) i pos)[st.objs.length]? = _
        rw [getElem?_setEnd, getElem?_snoc_len]
        have : st.objs.length ≠ i := by omega
        simp [this]
      · exact h2.pother n i' (mem_eraseKey (mem_eraseKey hm).1).1
  | pedalStop line staff =>
    simp only [stepW, dashesMark, slotStep?]
    cases hl : Model.lookup 1 st.pedal with
    | none => exact h
    | some i =>
      have hmem := lookup_mem _ _ _ hl
      obtain ⟨oi, hoi, hki⟩ := h.pother _ i hmem
      have h2 := dinv_setEnd_other st sl i pos (fun o ho => by rw [hoi] at ho; cases ho; exact hki) h
      refine dinv_set_pedal _ sl _ ?_ h2
      intro n i' hm
      exact h2.pother n i' (mem_eraseKey hm).1
  | words t d staff =>
    cases d with
    | none => exact dinv_append st sl _ rfl h
    | some k =>
      have hk : k ≠ 0 := hn
      have h1 := dinv_append st sl (mkObj pos 3 (filterString t) false (stf staff)) rfl h
      have hlt : ∀ n i, (n, [i]) ∈ st.dashes → i < st.objs.length := fun n i hm => by
        obtain ⟨i', o, h0, ho, _, _⟩ := h.dopen n [i] hm
        obtain rfl : i = i' := by simpa using h0
        exact lt_of_getElem? ho
      simp only [stepW, dashesMark, slotStep?, slotStep, num_eq hk, if_true]
      constructor
      · intro n l hm
        rcases List.mem_cons.mp hm with hm | hm
        · obtain ⟨_, rfl⟩ := Prod.mk.inj hm
          exact ⟨st.objs.length, _, rfl, getElem?_snoc_len _ _, rfl, rfl⟩
        · exact h1.dopen n l (mem_eraseKey hm).1
      · intro n n' i hm hm'
        rcases List.mem_cons.mp hm with hm | hm <;> rcases List.mem_cons.mp hm' with hm' | hm'
        · rw [(Prod.mk.inj hm).1, (Prod.mk.inj hm').1]
        · have e : i = st.objs.length := by have := (Prod.mk.inj hm).2; simpa using this
          have := hlt n' i (mem_eraseKey hm').1
          omega
        · have e : i = st.objs.length := by have := (Prod.mk.inj hm').2; simpa using this
          have := hlt n i (mem_eraseKey hm).1
          omega
        · exact h.dunique n n' i (mem_eraseKey hm).1 (mem_eraseKey hm').1
      · intro m
        by_cases hm : m = k
        · subst hm
          simp [Model.lookup, mkObj]
        · have hne : ¬ ((k : Int) = (m : Int)) := fun e => hm (by exact_mod_cast e.symm)
          have hne' : ¬ ((m : Int) = (k : Int)) := fun e => hne e.symm
          have hkm : ¬ k = m := fun e => hm e.symm
          simp only [Model.lookup, hne, if_false, lookup_eraseKey, hne', hkm]
          rw [lookup_filter_ne m k sl.1 hm]
          exact h1.dslots m
      · exact h1.dclosed
      · exact h1.wother
      · exact h1.pother
  | rangeStop isWedge k =>
    have hk : k ≠ 0 := hn
    cases isWedge with
    | true =>
      simp only [stepW, dashesMark, slotStep?]
      cases hl : Model.lookup (num k) st.wedge with
      | none => exact h
      | some i =>
        have hmem := lookup_mem _ _ _ hl
        obtain ⟨oi, hoi, hki⟩ := h.wother _ i hmem
        have h2 := dinv_setEnd_other st sl i pos (fun o ho => by rw [hoi] at ho; cases ho; exact hki) h
        refine dinv_set_wedge _ sl _ ?_ h2
        intro n i' hm
        exact h2.wother n i' (mem_eraseKey hm).1
    | false =>
      simp only [stepW, dashesMark, slotStep?, slotStep, num_eq hk, Bool.false_eq_true, if_false]
      cases hl : Model.lookup (k : Int) st.dashes with
      | none =>
        have := h.dslots k
        rw [hl] at this
        simp only [Option.bind_none] at this
        rw [← this]
        exact h
      | some l =>
        have hmem := lookup_mem _ _ _ hl
        obtain ⟨i, o, hl0, ho, hoK, hostop⟩ := h.dopen _ l hmem
        subst hl0
        have hs := h.dslots k
        rw [hl] at hs
        simp only [Option.bind_some, List.head?_cons, ho, Option.map_some] at hs
        rw [← hs]
        simp only [List.foldl_cons, List.foldl_nil]
        have hother : ∀ n i', (n, [i']) ∈ eraseKey (k : Int) st.dashes → i' ≠ i := by
          intro n i' hm hi
          subst hi
          obtain ⟨hm1, hm2⟩ := mem_eraseKey hm
          exact hm2 (h.dunique _ _ _ hm1 hmem)
        constructor
        · intro n l' hm
          obtain ⟨i', o', h0, ho', h2, h3⟩ := h.dopen n l' (mem_eraseKey hm).1
          subst h0
          exact ⟨i', o', rfl, by rw [getElem?_setEnd, ho']; simp [hother n i' hm], h2, h3⟩
        · intro n n' i' hm hm'
          exact h.dunique n n' i' (mem_eraseKey hm).1 (mem_eraseKey hm').1
        · intro m
          by_cases hm : m = k
          · subst hm
            rw [lookup_eraseKey, if_pos rfl]
            exact (lookup_filter_self m sl.1).symm
          · have hne' : ¬ ((m : Int) = (k : Int)) := fun e => hm (by exact_mod_cast e)
            simp only [lookup_eraseKey, hne', if_false]
            rw [lookup_filter_ne m k sl.1 hm, ← h.dslots m]
            cases hl' : Model.lookup (m : Int) st.dashes with
            | none => rfl
            | some l' =>
              have hmem' := lookup_mem _ _ _ hl'
              obtain ⟨i', o', h0, ho', _, _⟩ := h.dopen _ l' hmem'
              subst h0
              have hne : i' ≠ i := fun e => by
                subst e
                exact hne' (h.dunique _ _ _ hmem' hmem)
              simp only [Option.bind_some, List.head?_cons, getElem?_setEnd, ho', Option.map_some, hne, if_false]
        · intro a b
          simp only [List.mem_append, List.mem_singleton, Prod.mk.injEq, ← h.dclosed a b]
          constructor
          · rintro ⟨j, o', h1, h2, h3, h4⟩
            rw [getElem?_setEnd] at h1
            cases ho0 : st.objs[j]? with
            | none => simp [ho0] at h1
            | some o0 =>
              simp only [ho0, Option.map_some, Option.some.injEq] at h1
              by_cases hj : j = i
              · subst hj
                simp only [if_true] at h1
                subst h1
                rw [ho] at ho0
                cases ho0
                right
                simp only [Option.some.injEq] at h4
                exact ⟨h3.symm, h4.symm⟩
              · simp only [hj, if_false] at h1
                subst h1
                exact Or.inl ⟨j, o0, ho0, h2, h3, h4⟩
          · rintro (⟨j, o', h1, h2, h3, h4⟩ | ⟨ha, hb⟩)
            · have hne : j ≠ i := fun e => by
                subst e
                rw [ho] at h1
                cases h1
                rw [hostop] at h4
                cases h4
              exact ⟨j, o', by rw [getElem?_setEnd, h1]; simp [hne], h2, h3, h4⟩
            · exact ⟨i, { o with stop := some pos }, by rw [getElem?_setEnd, ho]; simp, hoK, ha.symm, by simp [hb]⟩
        · intro n i' hm
          obtain ⟨o', h1, h2⟩ := h.wother n i' hm
          obtain ⟨o2, ho2, hkind⟩ : ∃ o2, (setEnd st.objs i pos)[i']? = some o2 ∧ o2.kind = o'.kind := by
            rw [getElem?_setEnd, h1]
            exact ⟨_, rfl, by simp only [Option.map_some]; split <;> rfl⟩
          exact ⟨o2, ho2, by rw [hkind]; exact h2⟩
        · intro n i' hm
          obtain ⟨o', h1, h2⟩ := h.pother n i' hm
          obtain ⟨o2, ho2, hkind⟩ : ∃ o2, (setEnd st.objs i pos)[i']? = some o2 ∧ o2.kind = o'.kind := by
            rw [getElem?_setEnd, h1]
            exact ⟨_, rfl, by simp only [Option.map_some]; split <;> rfl⟩
          exact ⟨o2, ho2, by rw [hkind]; exact h2⟩

theorem drun_inv : ∀ (ws : List DirW) (k : Nat) (st : DirState) (sl : List (Nat × Nat) × List (Nat × Nat)),
    (∀ w ∈ ws, NumOK w) → DInv st sl →
    DInv ((ws.zipIdx k).foldl (fun st wi => handleDirection st wi.2 (canonDir wi.1)) st)
      (((ws.zipIdx k).filterMap fun wi => dashesMark wi.2 wi.1).foldl slotStep sl) := by
  intro ws
  induction ws with
  | nil => intro k st sl _ h; simpa using h
  | cons w ws ih =>
    intro k st sl hn h
    have hstep := dstep_inv st sl k w (hn w (List.mem_cons_self ..)) h
    rw [← handleDirection_canon] at hstep
    simp only [List.zipIdx_cons, List.foldl_cons, List.filterMap_cons]
    have := ih (k + 1) _ _ (fun w' hw' => hn w' (List.mem_cons_of_mem _ hw')) hstep
    cases hm : dashesMark k w with
    | none => simpa [slotStep?, hm] using this
    | some m => simpa [slotStep?, hm] using this

theorem readDirections_dinv (ws : List DirW) (hn : ∀ w ∈ ws, NumOK w) :
    DInv (readDirections (ws.map canonDir)) (slotAll (dashesMarks ws)) := by
  rw [readDirections_map]
  exact drun_inv ws 0 _ _ hn dinv_init

end C03.DirRead
