/-
C09 helper lemmas, part 15 (round 3): every `"<n>_Volta_"` label the boundary pass of `_make_segments` produces
is an ending number of the part (one decimal digit when the layout is `supported`) or the `Z` of the jump back
(label 10) — the hypothesis of `mkSegments_refines`.
-/
import PartituraModel.Proofs.C09CleanStr

namespace C09
open Model.Unfold

/-! ### the boundary table carries only the part's ending numbers -/

def VSOK (b : BInfo) : Prop := ∀ nums e, b.voltaStart = some (nums, e) → ∀ n ∈ nums, n < 10

def TblOK (tb : BTable) : Prop := ∀ p ∈ tb, VSOK p.2

theorem vsok_default : VSOK {} := by
  intro nums e h; cases h

theorem tblUpd_ok (t : Int) (f : BInfo → BInfo) (hf : ∀ b, VSOK b → VSOK (f b)) :
    ∀ tb : BTable, TblOK tb → TblOK (tblUpd t f tb) := by
  intro tb
  induction tb with
  | nil =>
    intro _ p hp
    simp only [tblUpd, List.mem_singleton] at hp
    subst hp
    exact hf _ vsok_default
  | cons q qs ih =>
    intro h p hp
    obtain ⟨u, b⟩ := q
    simp only [tblUpd] at hp
    split at hp
    · rcases List.mem_cons.mp hp with rfl | hp
      · exact hf _ vsok_default
      · exact h p hp
    · split at hp
      · rcases List.mem_cons.mp hp with rfl | hp
        · exact hf _ (h (u, b) (List.mem_cons_self ..))
        · exact h p (List.mem_cons_of_mem _ hp)
      · rcases List.mem_cons.mp hp with rfl | hp
        · exact h _ (List.mem_cons_self ..)
        · exact ih (fun r hr => h r (List.mem_cons_of_mem _ hr)) p hp

theorem foldl_ok {α : Type} (step : BTable → α → BTable) (l : List α)
    (hstep : ∀ tb x, x ∈ l → TblOK tb → TblOK (step tb x)) : ∀ tb, TblOK tb → TblOK (l.foldl step tb) := by
  induction l with
  | nil => intro tb h; exact h
  | cons a as ih =>
    intro tb h
    exact ih (fun tb x hx => hstep tb x (List.mem_cons_of_mem _ hx)) _ (hstep tb a (List.mem_cons_self ..) h)

theorem tblUpd_keep (t : Int) (f : BInfo → BInfo) (hf : ∀ b, (f b).voltaStart = b.voltaStart)
    (tb : BTable) (h : TblOK tb) : TblOK (tblUpd t f tb) :=
  tblUpd_ok t f (fun b hb nums e hh => hb nums e (by rw [← hf b]; exact hh)) tb h

theorem foldl_keep (f : Int → BInfo → BInfo) (hf : ∀ t b, (f t b).voltaStart = b.voltaStart) (l : List Int)
    (tb : BTable) (h : TblOK tb) : TblOK (l.foldl (fun tb t => tblUpd t (f t) tb) tb) :=
  foldl_ok _ l (fun tb t _ h => tblUpd_keep t (f t) (hf t) tb h) tb h

theorem mkTable_ok (L : Layout) (hs : L.supported = true) : TblOK (mkTable L) := by
  have hnum : ∀ v ∈ L.endings, ∀ n ∈ v.2.2, n < 10 := by
    intro v hv n hn
    have := List.all_eq_true.mp hs v hv
    have := List.all_eq_true.mp this n hn
    simpa using this
  simp only [mkTable]
  refine tblUpd_keep _ _ ?h1 _ ?_
  case h1 => intro b; rfl
  refine tblUpd_keep _ _ ?h2 _ ?_
  case h2 => intro b; rfl
  refine foldl_keep (fun _ b => { b with dalsegno := true }) (fun _ _ => rfl) _ _ ?_
  refine foldl_keep (fun _ b => { b with segno := true }) (fun _ _ => rfl) _ _ ?_
  refine foldl_keep (fun _ b => { b with fine := true }) (fun _ _ => rfl) _ _ ?_
  refine foldl_keep (fun _ b => { b with dacapo := true }) (fun _ _ => rfl) _ _ ?_
  refine foldl_keep (fun _ b => { b with tocoda := true }) (fun _ _ => rfl) _ _ ?_
  refine foldl_keep (fun _ b => { b with coda := true }) (fun _ _ => rfl) _ _ ?_
  refine foldl_ok _ _ ?_ _ ?_
  · intro tb v hv h
    refine tblUpd_keep _ _ ?h3 _ ?_
    case h3 => intro b; rfl
    refine tblUpd_ok _ _ ?_ tb h
    intro b _ nums e hh
    simp only [Option.some.injEq, Prod.mk.injEq] at hh
    obtain ⟨rfl, _⟩ := hh
    exact hnum v hv
  · refine foldl_ok _ _ ?_ _ ?_
    · intro tb r _ h
      refine tblUpd_keep _ _ ?h4 _ ?_
      case h4 => intro b; rfl
      refine tblUpd_keep _ _ ?h5 _ h
      intro b; rfl
    · intro p hp; cases hp

theorem tblGet_mem (t : Int) : ∀ (tb : BTable) (b : BInfo), tblGet t tb = some b → (t, b) ∈ tb := by
  intro tb
  induction tb with
  | nil => intro b h; cases h
  | cons q qs ih =>
    intro b h
    obtain ⟨u, c⟩ := q
    simp only [tblGet] at h
    split at h
    · rename_i htu
      simp only [Option.some.injEq] at h
      subst h; subst htu
      exact List.mem_cons_self ..
    · exact List.mem_cons_of_mem _ (ih b h)

/-! ### the per-segment raw destinations -/

def InfOK (inf : SegInfo) : Prop := ∀ p ∈ inf.to, ∀ lb, p.1 = Tag.volta lb → lb ≤ 10

theorem labelsOK_iff (infs : List SegInfo) : LabelsOK infs ↔ ∀ inf ∈ infs, InfOK inf := Iff.rfl

theorem modAt_ok {f : SegInfo → SegInfo} (hf : ∀ inf, InfOK inf → InfOK (f inf)) (i : Nat) :
    ∀ infs : List SegInfo, LabelsOK infs → LabelsOK (modAt i f infs) := by
  intro infs
  induction infs generalizing i with
  | nil => intro h; simpa [modAt] using h
  | cons a as ih =>
    intro h
    cases i with
    | zero =>
      intro inf hinf
      simp only [modAt] at hinf
      rcases List.mem_cons.mp hinf with rfl | hinf
      · exact hf a (h a (List.mem_cons_self ..))
      · exact h inf (List.mem_cons_of_mem _ hinf)
    | succ i =>
      intro inf hinf
      simp only [modAt] at hinf
      rcases List.mem_cons.mp hinf with rfl | hinf
      · exact h _ (List.mem_cons_self ..)
      · exact ih i (fun x hx => h x (List.mem_cons_of_mem _ hx)) inf hinf

theorem addTo_ok (i : Nat) (ds : List (Tag × Dest)) (hds : ∀ p ∈ ds, ∀ lb, p.1 = Tag.volta lb → lb ≤ 10)
    (infs : List SegInfo) (h : LabelsOK infs) : LabelsOK (addTo i ds infs) := by
  apply modAt_ok _ i infs h
  intro inf hinf p hp lb hlb
  rcases List.mem_append.mp hp with hp | hp
  · exact hinf p hp lb hlb
  · exact hds p hp lb hlb

theorem modAt_keep (f : SegInfo → SegInfo) (hf : ∀ inf, (f inf).to = inf.to) (i : Nat) (infs : List SegInfo)
    (h : LabelsOK infs) : LabelsOK (modAt i f infs) :=
  modAt_ok (fun inf hinf p hp lb hlb => hinf p (by rw [← hf inf]; exact hp) lb hlb) i infs h

theorem setTy_ok (i : Nat) (ty : SegType) (infs : List SegInfo) (h : LabelsOK infs) : LabelsOK (setTy i ty infs) :=
  modAt_keep _ (by intro _; rfl) i infs h

theorem keepLeapEnd_ok (i : Nat) (infs : List SegInfo) (h : LabelsOK infs) : LabelsOK (keepLeapEnd i infs) :=
  modAt_keep _ (by intro _; rfl) i infs h

/-! ### the steps of the boundary pass -/

def StOK (st : BState) : Prop := LabelsOK st.info

theorem plain_labels (ds : List (Tag × Dest)) (h : ∀ p ∈ ds, ∀ lb, p.1 ≠ Tag.volta lb) :
    ∀ p ∈ ds, ∀ lb, p.1 = Tag.volta lb → lb ≤ 10 :=
  fun p hp lb hlb => absurd hlb (h p hp lb)

theorem voltaScan_ok (tb : BTable) (htb : TblOK tb) (times : List Int) (i : Nat) :
    ∀ (k : Nat) (st st' : BState), StOK st → voltaScan tb times i k st = some st' → StOK st' := by
  intro k
  induction k with
  | zero => intro st st' h hs; simp only [voltaScan, Option.some.injEq] at hs; subst hs; exact h
  | succ k ih =>
    intro st st' h hs
    simp only [voltaScan] at hs
    split at hs
    · simp only [Option.some.injEq] at hs; subst hs; exact h
    · rename_i nums e hget
      split at hs
      · rename_i ci _
        refine ih _ st' ?_ hs
        show LabelsOK _
        refine modAt_keep _ (by intro _; rfl) _ _ ?_
        refine addTo_ok _ _ ?_ _ h
        intro p hp lb hlb
        obtain ⟨n, hn, rfl⟩ := List.mem_map.mp hp
        simp only [Tag.volta.injEq] at hlb
        subst hlb
        -- the numbers come from the table
        cases hg : tblGet st.cve tb with
        | none => simp [hg] at hget
        | some b =>
          simp only [hg, Option.bind_some] at hget
          have := htb _ (tblGet_mem _ _ _ hg) nums e hget n hn
          omega
      · cases hs

theorem voltaEndLoop_ok (times : List Int) (i : Nat) (re : Option Int) :
    ∀ (nums : List Nat) (st st' : BState), StOK st → voltaEndLoop times i re nums st = some st' → StOK st' := by
  intro nums
  induction nums with
  | nil => intro st st' h hs; simp only [voltaEndLoop, Option.some.injEq] at hs; subst hs; exact h
  | cons vn rest ih =>
    intro st st' h hs
    simp only [voltaEndLoop] at hs
    split at hs
    · split at hs
      · cases hs
      · refine ih _ st' ?_ hs
        show LabelsOK _
        refine addTo_ok _ _ ?_ _ h
        intro p hp lb hlb
        simp only [List.mem_singleton] at hp
        subst hp
        simp only [Tag.volta.injEq] at hlb
        omega
    · exact ih _ st' h hs

/-- adding destinations without a volta tag keeps the labels -/
theorem addPlain_ok (i : Nat) (ds : List (Tag × Dest)) (hds : ∀ p ∈ ds, ∀ lb, p.1 ≠ Tag.volta lb)
    (infs : List SegInfo) (h : LabelsOK infs) : LabelsOK (addTo i ds infs) :=
  addTo_ok i ds (plain_labels ds hds) infs h

theorem stRepeatStart_ok (i : Nat) (b : BInfo) (d : Dest) (st : BState) (h : StOK st) : StOK (stRepeatStart i b d st) := by
  unfold stRepeatStart
  split
  · exact addPlain_ok _ _ (by simp) _ h
  · exact h

theorem stRepeatEnd_ok (times : List Int) (i : Nat) (b : BInfo) (d : Dest) (st st' : BState) (h : StOK st)
    (hs : stRepeatEnd times i b d st = some st') : StOK st' := by
  unfold stRepeatEnd at hs
  split at hs
  · simp only [Option.some.injEq] at hs; subst hs; exact h
  · split at hs
    · simp only [Option.some.injEq] at hs; subst hs; exact h
    · split at hs
      · cases hs
      · simp only [Option.some.injEq] at hs; subst hs
        exact addPlain_ok _ _ (by simp) _ h

theorem stVoltaStart_ok (tb : BTable) (htb : TblOK tb) (times : List Int) (i : Nat) (b : BInfo) (se : Int)
    (st st' : BState) (h : StOK st) (hs : stVoltaStart tb times i b se st = some st') : StOK st' := by
  unfold stVoltaStart at hs
  split at hs
  · exact voltaScan_ok tb htb times i 10 _ st' (by exact h) hs
  · simp only [Option.some.injEq] at hs; subst hs; exact h

def voltaEndBody (times : List Int) (i : Nat) (b : BInfo) (nums : List Nat) (st : BState) : Option BState :=
  match voltaEndLoop times i b.repeatEnd nums st with
  | none => none
  | some st =>
    if nums.contains st.cvt then
      match idOf times st.cve with
      | none => none
      | some d => some { st with info := addTo i [(Tag.plain, d)] st.info }
    else some st

theorem voltaEndBody_ok (times : List Int) (i : Nat) (b : BInfo) (nums : List Nat) (st st' : BState) (h : StOK st)
    (hs : voltaEndBody times i b nums st = some st') : StOK st' := by
  unfold voltaEndBody at hs
  split at hs
  · cases hs
  · rename_i st1 hl
    have h1 : StOK st1 := voltaEndLoop_ok times i b.repeatEnd _ st st1 h hl
    split at hs
    · split at hs
      · cases hs
      · simp only [Option.some.injEq] at hs; subst hs
        exact addPlain_ok _ _ (by simp) _ h1
    · simp only [Option.some.injEq] at hs; subst hs; exact h1

theorem stVoltaEnd_body (times : List Int) (i : Nat) (b : BInfo) (st : BState) :
    stVoltaEnd times i b st = if b.voltaEnd then voltaEndBody times i b (match st.info[i]? with
      | some s => s.voltaNums
      | none => []) st else some st := rfl

theorem stVoltaEnd_ok (times : List Int) (i : Nat) (b : BInfo) (st st' : BState) (h : StOK st)
    (hs : stVoltaEnd times i b st = some st') : StOK st' := by
  rw [stVoltaEnd_body] at hs
  by_cases hb : b.voltaEnd = true
  · rw [if_pos hb] at hs
    exact voltaEndBody_ok times i b _ st st' h hs
  · rw [if_neg hb] at hs
    simp only [Option.some.injEq] at hs; subst hs; exact h

theorem stLeapEnd_ok (flag : Bool) (i : Nat) (d : Dest) (st st' : BState) (h : StOK st)
    (hs : stLeapEnd flag i d st = some st') : StOK st' := by
  unfold stLeapEnd at hs
  split at hs
  · split at hs
    · cases hs
    · simp only [Option.some.injEq] at hs; subst hs
      exact setTy_ok _ _ _ (addPlain_ok _ _ (by simp) _ h)
  · simp only [Option.some.injEq] at hs; subst hs; exact h

theorem stToCoda_ok (L : Layout) (times : List Int) (i : Nat) (b : BInfo) (d : Dest) (st st' : BState) (h : StOK st)
    (hs : stToCoda L times i b d st = some st') : StOK st' := by
  unfold stToCoda at hs
  split at hs
  · split at hs
    · cases hs
    · split at hs
      · cases hs
      · simp only [Option.some.injEq] at hs; subst hs
        exact addPlain_ok _ _ (by simp) _ h
  · simp only [Option.some.injEq] at hs; subst hs; exact h

theorem stJumpBack_ok (flag : Bool) (target : Option Int) (times : List Int) (i : Nat) (d : Dest) (st st' : BState)
    (h : StOK st) (hs : stJumpBack flag target times i d st = some st') : StOK st' := by
  unfold stJumpBack at hs
  split at hs
  · split at hs
    · cases hs
    · split at hs
      · cases hs
      · simp only [Option.some.injEq] at hs; subst hs
        exact setTy_ok _ _ _ (addPlain_ok _ _ (by simp) _ h)
  · simp only [Option.some.injEq] at hs; subst hs; exact h

theorem stFine_ok (L : Layout) (times : List Int) (i : Nat) (b : BInfo) (d : Dest) (st st' : BState) (h : StOK st)
    (hs : stFine L times i b d st = some st') : StOK st' := by
  unfold stFine at hs
  split at hs
  · split at hs
    · cases hs
    · simp only [Option.some.injEq] at hs; subst hs
      exact addPlain_ok _ _ (by simp) _ h
  · simp only [Option.some.injEq] at hs; subst hs; exact h

theorem stEnd_ok (i : Nat) (b : BInfo) (d : Dest) (st : BState) (h : StOK st) : StOK (stEnd i b d st) := by
  unfold stEnd
  split
  · exact addPlain_ok _ _ (by simp) _ h
  · exact h

theorem stFirst_ok (i : Nat) (ss : Int) (st : BState) (h : StOK st) : StOK (stFirst i ss st) := by
  unfold stFirst
  split
  · exact setTy_ok _ _ _ h
  · exact h

theorem bind_ok {f : BState → Option BState} {o : Option BState} {st' : BState}
    (ho : ∀ s, o = some s → StOK s) (hf : ∀ s s', StOK s → f s = some s' → StOK s') (h : o.bind f = some st') : StOK st' := by
  cases o with
  | none => cases h
  | some s => exact hf s st' (ho s rfl) h

theorem procSeg_ok (L : Layout) (tb : BTable) (htb : TblOK tb) (times : List Int) (i : Nat) (ss se : Int)
    (st st' : BState) (h : StOK st) (hs : procSeg L tb times i ss se st = some st') : StOK st' := by
  unfold procSeg at hs
  split at hs
  · rename_i b idSe _ _
    refine bind_ok (fun s hs1 => stRepeatEnd_ok times i b idSe _ s (stRepeatStart_ok i b idSe st h) hs1) ?_ hs
    intro s1 s' h1 hs
    refine bind_ok (fun s hs1 => stVoltaStart_ok tb htb times i b se s1 s h1 hs1) ?_ hs
    intro s2 s' h2 hs
    refine bind_ok (fun s hs1 => stVoltaEnd_ok times i b s2 s h2 hs1) ?_ hs
    intro s3 s' h3 hs
    refine bind_ok (fun s hs1 => stLeapEnd_ok b.coda i idSe s3 s h3 hs1) ?_ hs
    intro s4 s' h4 hs
    refine bind_ok (fun s hs1 => stToCoda_ok L times i b idSe s4 s h4 hs1) ?_ hs
    intro s5 s' h5 hs
    refine bind_ok (fun s hs1 => stJumpBack_ok b.dacapo _ times i idSe s5 s h5 hs1) ?_ hs
    intro s6 s' h6 hs
    refine bind_ok (fun s hs1 => stFine_ok L times i b idSe s6 s h6 hs1) ?_ hs
    intro s7 s' h7 hs
    refine bind_ok (fun s hs1 => stLeapEnd_ok b.segno i idSe s7 s h7 hs1) ?_ hs
    intro s8 s' h8 hs
    refine bind_ok (fun s hs1 => stJumpBack_ok b.dalsegno _ times i idSe s8 s h8 hs1) ?_ hs
    intro s9 s' h9 hs
    simp only [Option.some.injEq] at hs
    subst hs
    exact stFirst_ok _ _ _ (stEnd_ok _ _ _ _ h9)
  · cases hs

theorem procAll_ok (L : Layout) (tb : BTable) (htb : TblOK tb) (times : List Int) :
    ∀ (ts : List Int) (i : Nat) (st st' : BState), StOK st → procAll L tb times i ts st = some st' → StOK st' := by
  intro ts
  induction ts with
  | nil => intro i st st' h hs; simp only [procAll, Option.some.injEq] at hs; subst hs; exact h
  | cons ss rest ih =>
    intro i st st' h hs
    cases rest with
    | nil => simp only [procAll, Option.some.injEq] at hs; subst hs; exact h
    | cons se rest =>
      simp only [procAll] at hs
      split at hs
      · cases hs
      · rename_i st1 hp
        exact ih (i + 1) st1 st' (procSeg_ok L tb htb times i ss se st st1 h hp) hs

/-- The labels of the raw destinations of a supported layout are decimal digits or `Z`. -/
theorem labels_ok (L : Layout) (hs : L.supported = true) (st : BState) (n : Nat)
    (h : procAll L (mkTable L) ((mkTable L).map (·.1)) 0 ((mkTable L).map (·.1)) { info := List.replicate n {} } = some st) :
    LabelsOK st.info := by
  refine procAll_ok L (mkTable L) (mkTable_ok L hs) _ _ 0 _ st ?_ h
  intro inf hinf p hp
  rw [List.eq_of_mem_replicate hinf] at hp
  cases hp

/-- `add_segments` on numbers and on id strings agree, for every layout the model accepts. -/
theorem mkSegments_str (L : Layout) (g : List Seg) (h : mkSegments L = some g) :
    mkSegmentsStr L = some (g.map fun s => (s.to.map Dest.str, s.await.map Dest.str)) := by
  have hs : L.supported = true := by
    cases hsup : L.supported with
    | true => rfl
    | false => simp [mkSegments, hsup] at h
  exact mkSegments_refines L g h fun st n hp => labels_ok L hs st n hp

end C09
