/-
Helper lemmas for C10 (Model/StepMap.lean).
-/
import PartituraModel.Model.StepMap
import PartituraModel.Proofs.Round

namespace C10
open Model Model.StepMap

/-- rows in time order (coincident times allowed) -/
def SortedLE {α : Type} (tbl : Tbl α) : Prop := tbl.Pairwise fun a b => a.1 ≤ b.1

/-- rows in time order, at most one per time -/
def SortedLT {α : Type} (tbl : Tbl α) : Prop := tbl.Pairwise fun a b => a.1 < b.1

/-- `e` is in force at `x`: it starts at or before `x`, and nothing that starts at or before `x` starts later -/
def InForce {α : Type} (tbl : Tbl α) (x : Int) (e : Int × α) : Prop :=
  e ∈ tbl ∧ e.1 ≤ x ∧ ∀ e' ∈ tbl, e'.1 ≤ x → e'.1 ≤ e.1

theorem SortedLT.le {α : Type} {tbl : Tbl α} (h : SortedLT tbl) : SortedLE tbl :=
  List.Pairwise.imp (fun h => Int.le_of_lt h) h

/-! ### `lastLE` -/

theorem lastLE_cons_of_lt {α : Type} (t : Int) (v : α) (rest : Tbl α) (x : Int) (h : x < t) :
    lastLE ((t, v) :: rest) x = none := by
  simp [lastLE, h]

theorem lastLE_cons_of_le {α : Type} (t : Int) (v : α) (rest : Tbl α) (x : Int) (h : t ≤ x) :
    lastLE ((t, v) :: rest) x = some ((lastLE rest x).getD v) := by
  have : ¬ x < t := by omega
  simp only [lastLE, this, if_false]
  cases lastLE rest x <;> rfl

theorem lastLE_isSome_of_head_le {α : Type} (t : Int) (v : α) (rest : Tbl α) (x : Int) (h : t ≤ x) :
    (lastLE ((t, v) :: rest) x).isSome := by
  rw [lastLE_cons_of_le t v rest x h]; rfl

/-- in a time-ordered table the answer is NaN exactly when every row starts after `x` -/
theorem lastLE_eq_none_iff {α : Type} (tbl : Tbl α) (x : Int) (hs : SortedLE tbl) :
    lastLE tbl x = none ↔ ∀ e ∈ tbl, x < e.1 := by
  cases tbl with
  | nil => simp [lastLE]
  | cons hd rest =>
    obtain ⟨t, v⟩ := hd
    constructor
    · intro h e he
      by_cases hx : x < t
      · rcases List.mem_cons.mp he with rfl | he'
        · exact hx
        · have := (List.pairwise_cons.mp hs).1 e he'
          simp only at this
          omega
      · rw [lastLE_cons_of_le t v rest x (by omega)] at h
        simp at h
    · intro h
      exact lastLE_cons_of_lt t v rest x (h (t, v) (List.mem_cons_self ..))

/-- in a time-ordered table a non-NaN answer is the value of a row in force -/
theorem lastLE_some_inForce {α : Type} (tbl : Tbl α) (x : Int) (hs : SortedLE tbl) (w : α)
    (h : lastLE tbl x = some w) : ∃ e, InForce tbl x e ∧ e.2 = w := by
  induction tbl generalizing w with
  | nil => simp [lastLE] at h
  | cons hd rest ih =>
    obtain ⟨t, v⟩ := hd
    have hs' := (List.pairwise_cons.mp hs)
    by_cases hx : x < t
    · rw [lastLE_cons_of_lt t v rest x hx] at h; simp at h
    · have htx : t ≤ x := by omega
      rw [lastLE_cons_of_le t v rest x htx] at h
      cases hr : lastLE rest x with
      | some w' =>
        rw [hr] at h
        simp only [Option.getD_some, Option.some.injEq] at h
        obtain ⟨e, ⟨hmem, hle, hmax⟩, hv⟩ := ih hs'.2 w' hr
        refine ⟨e, ⟨List.mem_cons_of_mem _ hmem, hle, ?_⟩, by rw [hv, h]⟩
        intro e' he' hle'
        rcases List.mem_cons.mp he' with rfl | he''
        · exact hs'.1 e hmem
        · exact hmax e' he'' hle'
      | none =>
        rw [hr] at h
        simp only [Option.getD_none, Option.some.injEq] at h
        have hall := (lastLE_eq_none_iff rest x hs'.2).mp hr
        refine ⟨(t, v), ⟨List.mem_cons_self .., htx, ?_⟩, h⟩
        intro e' he' hle'
        rcases List.mem_cons.mp he' with rfl | he''
        · exact Int.le_refl _
        · have := hall e' he''; omega

/-- with at most one row per time the row in force is unique -/
theorem inForce_unique {α : Type} (tbl : Tbl α) (x : Int) (hs : SortedLT tbl) (e e' : Int × α)
    (h : InForce tbl x e) (h' : InForce tbl x e') : e = e' := by
  have h1 := h.2.2 e' h'.1 h'.2.1
  have h2 := h'.2.2 e h.1 h.2.1
  have heq : e.1 = e'.1 := by omega
  -- two members of a strictly ordered list with the same time are the same member
  have key : ∀ (l : Tbl α), SortedLT l → e ∈ l → e' ∈ l → e = e' := by
    intro l hl
    induction l with
    | nil => intro h; simp at h
    | cons a rest ih =>
      intro he he'
      have hp := List.pairwise_cons.mp hl
      rcases List.mem_cons.mp he with rfl | he1 <;> rcases List.mem_cons.mp he' with rfl | he2
      · rfl
      · have := hp.1 e' he2; omega
      · have := hp.1 e he1; omega
      · exact ih hp.2 he1 he2
  exact key tbl hs h.1 h'.1

/-- `lookupPrev`: the answer of `lastLE`, or the first row's value when that is NaN -/
theorem lookupPrev_of_some {α : Type} (tbl : Tbl α) (x : Int) (w : α) (h : lastLE tbl x = some w) :
    lookupPrev tbl x = some w := by
  simp [lookupPrev, h]

theorem lookupPrev_of_none {α : Type} (tbl : Tbl α) (x : Int) (h : lastLE tbl x = none) :
    lookupPrev tbl x = tbl.head?.map (·.2) := by
  simp [lookupPrev, h]

/-- a non-NaN answer of scipy is also the answer of the single-sample wrapper -/
theorem interpPrev_of_some {α : Type} (tbl : Tbl α) (x : Int) (w : α) (h : lastLE tbl x = some w) :
    interpPrev tbl x = some w := by
  unfold interpPrev
  split
  · rename_i t v
    by_cases hx : x < t
    · rw [lastLE_cons_of_lt t v [] x hx] at h; simp at h
    · rw [lastLE_cons_of_le t v [] x (by omega)] at h
      simpa [lastLE] using h
  · exact h

/-! ### back-fill to the first time point -/

/-- duplicating a single row (the code's `np.array([rows[0], rows[0]])`) does not change the answer -/
def dupSingle {α : Type} (rows : Tbl α) : Tbl α :=
  match rows with
  | [r] => [r, r]
  | _ => rows

theorem lastLE_dupSingle {α : Type} (rows : Tbl α) (x : Int) : lastLE (dupSingle rows) x = lastLE rows x := by
  unfold dupSingle
  split
  · rename_i r
    obtain ⟨t, v⟩ := r
    by_cases hx : x < t
    · simp [lastLE, hx]
    · simp [lastLE, hx]
  · rfl

theorem dupSingle_ne_nil {α : Type} (rows : Tbl α) (h : rows ≠ []) : dupSingle rows ≠ [] := by
  unfold dupSingle
  split <;> simp_all

theorem dupSingle_head {α : Type} (rows : Tbl α) : (dupSingle rows).head? = rows.head? := by
  unfold dupSingle
  split <;> rfl

/-- a table that is back-filled to the first time point answers, on the timeline, like
    "latest row at or before `x`, else the first row" on the rows themselves -/
theorem lastLE_backfill {α : Type} (rows : Tbl α) (f l x : Int) (hne : rows ≠ []) (hx : f ≤ x) :
    lastLE (backfill (some (f, l)) rows) x = lookupPrev rows x := by
  cases rows with
  | nil => exact absurd rfl hne
  | cons hd rest =>
    obtain ⟨t, v⟩ := hd
    unfold backfill
    by_cases hft : f < t
    · simp only [hft, if_true]
      rw [lastLE_cons_of_le f v _ x hx]
      unfold lookupPrev
      cases lastLE ((t, v) :: rest) x <;> simp
    · simp only [hft, if_false]
      have := lastLE_isSome_of_head_le t v rest x (by omega)
      cases hr : lastLE ((t, v) :: rest) x with
      | none => rw [hr] at this; simp at this
      | some w => exact (lookupPrev_of_some _ x w hr).symm

theorem lookupPrev_isSome {α : Type} (rows : Tbl α) (x : Int) (hne : rows ≠ []) : (lookupPrev rows x).isSome := by
  cases rows with
  | nil => exact absurd rfl hne
  | cons hd rest =>
    unfold lookupPrev
    cases lastLE (hd :: rest) x <;> simp

/-- the wrapper `interp1d` on a back-filled table: also "latest row, else the first" -/
theorem interpPrev_backfill {α : Type} (rows : Tbl α) (f l x : Int) (hne : rows ≠ []) (hx : f ≤ x) :
    interpPrev (backfill (some (f, l)) rows) x = lookupPrev rows x := by
  have h := lastLE_backfill rows f l x hne hx
  have hs := lookupPrev_isSome rows x hne
  cases hr : lookupPrev rows x with
  | none => rw [hr] at hs; simp at hs
  | some w => rw [hr] at h; exact interpPrev_of_some _ x w h

theorem lookupPrev_dupSingle {α : Type} (rows : Tbl α) (x : Int) :
    lookupPrev (dupSingle rows) x = lookupPrev rows x := by
  unfold lookupPrev
  rw [lastLE_dupSingle, dupSingle_head]

/-! ### values attached to rows -/

/-- rows whose values are a function of the elements' payload -/
def mapVal {β γ : Type} (g : β → γ) (l : Tbl β) : Tbl γ := l.map fun e => (e.1, g e.2)

theorem sortedLT_mapVal {β γ : Type} (g : β → γ) (l : Tbl β) (h : SortedLT l) : SortedLT (mapVal g l) := by
  unfold SortedLT mapVal
  rw [List.pairwise_map]
  exact h

theorem inForce_mapVal {β γ : Type} (g : β → γ) (l : Tbl β) (x : Int) (e : Int × β) (h : InForce l x e) :
    InForce (mapVal g l) x (e.1, g e.2) := by
  obtain ⟨hm, hle, hmax⟩ := h
  refine ⟨List.mem_map.mpr ⟨e, hm, rfl⟩, hle, ?_⟩
  intro e' he' hle'
  obtain ⟨a, ha, rfl⟩ := List.mem_map.mp he'
  exact hmax a ha hle'

/-- with at most one row per time, the row in force is the one `lastLE` (hence `lookupPrev`) answers -/
theorem lastLE_of_inForce {α : Type} (tbl : Tbl α) (x : Int) (hs : SortedLT tbl) (e : Int × α)
    (h : InForce tbl x e) : lastLE tbl x = some e.2 := by
  cases hr : lastLE tbl x with
  | none =>
    have := (lastLE_eq_none_iff tbl x hs.le).mp hr e h.1
    have := h.2.1
    omega
  | some w =>
    obtain ⟨e', he', hv⟩ := lastLE_some_inForce tbl x hs.le w hr
    have := inForce_unique tbl x hs e e' h he'
    rw [this, hv]

theorem lookupPrev_of_inForce {α : Type} (tbl : Tbl α) (x : Int) (hs : SortedLT tbl) (e : Int × α)
    (h : InForce tbl x e) : lookupPrev tbl x = some e.2 :=
  lookupPrev_of_some tbl x e.2 (lastLE_of_inForce tbl x hs e h)

/-- before the first row: the first row's value -/
theorem lookupPrev_before {α : Type} (t : Int) (v : α) (rest : Tbl α) (x : Int) (h : x < t) :
    lookupPrev ((t, v) :: rest) x = some v := by
  rw [lookupPrev_of_none _ x (lastLE_cons_of_lt t v rest x h)]
  rfl

/-! ### the three signature tables -/

theorem tsRows_eq (tss : List (Int × Nat × Nat)) :
    tsRows tss = mapVal (fun v : Nat × Nat => (v.1, v.2, musicalBeats v.1)) tss := rfl

theorem tsTable_of_ne_nil (span : Span) (tss : List (Int × Nat × Nat)) (h : tss ≠ []) :
    tsTable span tss = backfill span (dupSingle (tsRows tss)) := by
  unfold tsTable dupSingle
  cases hr : tsRows tss with
  | nil =>
    cases tss with
    | nil => exact absurd rfl h
    | cons a b => simp [tsRows] at hr
  | cons a rest =>
    cases rest <;> rfl

theorem tsMap_eq_lookupPrev (f l x : Int) (tss : List (Int × Nat × Nat)) (h : tss ≠ []) (hx : f ≤ x) :
    tsMap (some (f, l)) tss x = lookupPrev (tsRows tss) x := by
  unfold tsMap
  rw [tsTable_of_ne_nil _ _ h]
  have hne : tsRows tss ≠ [] := by
    cases tss with
    | nil => exact absurd rfl h
    | cons a b => simp [tsRows]
  rw [interpPrev_backfill _ f l x (dupSingle_ne_nil _ hne) hx, lookupPrev_dupSingle]

theorem tsMap_default (span : Span) (x : Int) (hx : (spanOrZero span).1 ≤ x) :
    tsMap span [] x = some (4, 4, 4) := by
  unfold tsMap tsTable
  simp only [tsRows, List.map_nil]
  have hb : ∀ rows : Tbl TSv, rows = [((spanOrZero span).1, ((4 : Nat), (4 : Nat), (4 : Nat))),
      ((spanOrZero span).2, (4, 4, 4))] → backfill span rows = rows := by
    intro rows hr
    subst hr
    unfold backfill spanOrZero
    cases span with
    | none => rfl
    | some p => obtain ⟨a, b⟩ := p; simp
  rw [hb _ rfl]
  apply interpPrev_of_some
  rw [lastLE_cons_of_le _ _ _ x hx]
  by_cases h2 : x < (spanOrZero span).2
  · rw [lastLE_cons_of_lt _ _ _ x h2]; rfl
  · rw [lastLE_cons_of_le _ _ _ x (by omega)]; rfl

theorem ksRows_eq (kss : List (Int × Int × Mode)) :
    ksRows kss = mapVal (fun v : Int × Mode => (v.1, keyModeToInt v.2)) kss := rfl

theorem ksMap_eq_lookupPrev (f l x : Int) (kss : List (Int × Int × Mode)) (h : kss ≠ []) (hx : f ≤ x) :
    ksMap (some (f, l)) kss x = lookupPrev (ksRows kss) x := by
  unfold ksMap ksTable
  cases hr : ksRows kss with
  | nil =>
    cases kss with
    | nil => exact absurd rfl h
    | cons a b => simp [ksRows] at hr
  | cons a rest =>
    simp only
    exact interpPrev_backfill _ f l x (by simp) hx

theorem ksMap_default (span : Span) (x : Int) (hx : (spanOrZero span).1 ≤ x) :
    ksMap span [] x = some (0, 1) := by
  unfold ksMap ksTable
  simp only [ksRows, List.map_nil]
  apply interpPrev_of_some
  rw [lastLE_cons_of_le _ _ _ x hx, lastLE_cons_of_le _ _ _ x hx]
  rfl

/-! ### clefs -/

theorem clefTableStaff_of_ne_nil (span : Span) (rows : Tbl ClefV) (noneCode s : Int)
    (h : rows.filter (fun r => r.2.1 = s) ≠ []) :
    clefTableStaff span rows noneCode s = backfill span (dupSingle (rows.filter fun r => r.2.1 = s)) := by
  unfold clefTableStaff dupSingle
  cases hr : rows.filter (fun r => r.2.1 = s) with
  | nil => exact absurd hr h
  | cons a rest => cases rest <;> rfl

theorem clefStaff_eq_lookupPrev (f l x : Int) (rows : Tbl ClefV) (noneCode s : Int)
    (h : rows.filter (fun r => r.2.1 = s) ≠ []) (hx : f ≤ x) :
    interpPrev (clefTableStaff (some (f, l)) rows noneCode s) x
      = lookupPrev (rows.filter fun r => r.2.1 = s) x := by
  rw [clefTableStaff_of_ne_nil _ _ _ _ h,
    interpPrev_backfill _ f l x (dupSingle_ne_nil _ h) hx, lookupPrev_dupSingle]

theorem clefStaff_default (span : Span) (x : Int) (rows : Tbl ClefV) (noneCode s : Int)
    (h : rows.filter (fun r => r.2.1 = s) = []) (hx : (spanOrZero span).1 ≤ x) :
    interpPrev (clefTableStaff span rows noneCode s) x = some (s, noneCode, 0, 0) := by
  unfold clefTableStaff
  rw [h]
  simp only
  have hb : ∀ rws : Tbl ClefV, rws = [((spanOrZero span).1, (s, noneCode, 0, 0)),
      ((spanOrZero span).2, (s, noneCode, 0, 0))] → backfill span rws = rws := by
    intro rws hr
    subst hr
    unfold backfill spanOrZero
    cases span with
    | none => rfl
    | some p => obtain ⟨a, b⟩ := p; simp
  rw [hb _ rfl]
  apply interpPrev_of_some
  rw [lastLE_cons_of_le _ _ _ x hx]
  by_cases h2 : x < (spanOrZero span).2
  · rw [lastLE_cons_of_lt _ _ _ x h2]; rfl
  · rw [lastLE_cons_of_le _ _ _ x (by omega)]; rfl

/-! ### measures in time order -/

/-- every measure is non-empty and starts at or after the end of the previous one (no overlap) -/
def Ordered : List (Int × Int) → Prop
  | [] => True
  | [(s, e)] => s < e
  | (s, e) :: (s', e') :: rest => s < e ∧ e ≤ s' ∧ Ordered ((s', e') :: rest)

/-- every measure is non-empty and starts where the previous one ends (no gaps either) -/
def Tiles : List (Int × Int) → Prop
  | [] => True
  | [(s, e)] => s < e
  | (s, e) :: (s', e') :: rest => s < e ∧ e = s' ∧ Tiles ((s', e') :: rest)

theorem Tiles.ordered {L : List (Int × Int)} (h : Tiles L) : Ordered L := by
  induction L with
  | nil => trivial
  | cons a rest ih =>
    obtain ⟨s, e⟩ := a
    cases rest with
    | nil => exact h
    | cons b r =>
      obtain ⟨s', e'⟩ := b
      exact ⟨h.1, Int.le_of_eq h.2.1, ih h.2.2⟩

theorem Tiles.tail {m : Int × Int} {rest : List (Int × Int)} (h : Tiles (m :: rest)) : Tiles rest := by
  obtain ⟨s, e⟩ := m
  cases rest with
  | nil => trivial
  | cons m' r => obtain ⟨s', e'⟩ := m'; exact h.2.2

theorem Ordered.tail {m : Int × Int} {rest : List (Int × Int)} (h : Ordered (m :: rest)) : Ordered rest := by
  obtain ⟨s, e⟩ := m
  cases rest with
  | nil => trivial
  | cons m' r => obtain ⟨s', e'⟩ := m'; exact h.2.2

theorem Ordered.head_lt {s e : Int} {rest : List (Int × Int)} (h : Ordered ((s, e) :: rest)) : s < e := by
  cases rest with
  | nil => exact h
  | cons m' r => obtain ⟨s', e'⟩ := m'; exact h.1

theorem Ordered.mem_lt {L : List (Int × Int)} (h : Ordered L) : ∀ m ∈ L, m.1 < m.2 := by
  induction L with
  | nil => intro m hm; simp at hm
  | cons a rest ih =>
    intro m hm
    rcases List.mem_cons.mp hm with rfl | hm'
    · obtain ⟨s, e⟩ := m; exact h.head_lt
    · exact ih h.tail m hm'

theorem Ordered.later {s0 e0 : Int} {rest : List (Int × Int)} (h : Ordered ((s0, e0) :: rest)) :
    ∀ m ∈ rest, e0 ≤ m.1 := by
  induction rest generalizing s0 e0 with
  | nil => intro m hm; simp at hm
  | cons a r ih =>
    obtain ⟨s1, e1⟩ := a
    intro m hm
    have h1 : e0 ≤ s1 := h.2.1
    have h2 : Ordered ((s1, e1) :: r) := h.2.2
    rcases List.mem_cons.mp hm with rfl | hm'
    · simp only; omega
    · have := ih h2 m hm'
      have := h2.head_lt
      omega

/-- the core step lemma: in a table whose abscissae are the starts of non-overlapping measures in
    time order, a position inside measure `i` gets the `i`-th value -/
theorem tiles_lastLE_zip {β : Type} (L : List (Int × Int)) (vals : List β) (x : Int) (ht : Ordered L)
    (hl : vals.length = L.length) (i : Nat) (s e : Int) (hi : L[i]? = some (s, e)) (hs : s ≤ x) (he : x < e) :
    lastLE ((L.map (·.1)).zip vals) x = vals[i]? := by
  induction L generalizing vals i with
  | nil => simp at hi
  | cons a rest ih =>
    obtain ⟨s0, e0⟩ := a
    cases vals with
    | nil => simp at hl
    | cons v0 vrest =>
      have hl' : vrest.length = rest.length := by simpa using hl
      simp only [List.map_cons, List.zip_cons_cons]
      cases i with
      | zero =>
        simp only [List.getElem?_cons_zero, Option.some.injEq, Prod.mk.injEq] at hi
        obtain ⟨rfl, rfl⟩ := hi
        rw [lastLE_cons_of_le _ _ _ x hs]
        have hnone : lastLE ((rest.map (·.1)).zip vrest) x = none := by
          cases rest with
          | nil => simp [lastLE]
          | cons b r2 =>
            obtain ⟨s1, e1⟩ := b
            cases vrest with
            | nil => simp at hl'
            | cons v1 vr2 =>
              simp only [List.map_cons, List.zip_cons_cons]
              have h1 := ht.2.1
              exact lastLE_cons_of_lt _ _ _ x (by omega)
        rw [hnone]; rfl
      | succ j =>
        simp only [List.getElem?_cons_succ] at hi ⊢
        have hmem : (s, e) ∈ rest := List.mem_of_getElem? hi
        have h1 := ht.later (s, e) hmem
        have h2 := ht.head_lt
        simp only at h1
        rw [lastLE_cons_of_le _ _ _ x (by omega), ih vrest ht.tail hl' j hi]
        have hj : j < vrest.length := by
          rw [hl']
          exact (List.getElem?_eq_some_iff.mp hi).1
        rw [List.getElem?_eq_getElem hj]; rfl

theorem map_self_eq_zip (L : List (Int × Int)) : (L.map fun m => (m.1, m)) = (L.map (·.1)).zip L := by
  induction L with
  | nil => rfl
  | cons a rest ih => simp [ih]

/-! ### pickup correction -/

theorem pickupStart_le (s e : Int) (b d : Option Rat) : pickupStart s e b d ≤ s := by
  unfold pickupStart
  split
  · rename_i b d
    split
    · rename_i h
      have h1 : (e : Rat) - b * d ≤ (s : Rat) := by
        have : ((e - s : Int) : Rat) = (e : Rat) - (s : Rat) := Int.cast_sub e s
        rw [this] at h
        linarith
      have := Round.roundHalfEven_mono h1
      rw [Round.roundHalfEven_int] at this
      exact this
    · exact Int.le_refl _
  · exact Int.le_refl _

/-- the measures with the pickup-corrected first start -/
def corrected (ms : List (Int × Int)) (b d : Option Rat) : List (Int × Int) :=
  match ms with
  | [] => []
  | (s, e) :: rest => (pickupStart s e b d, e) :: rest

theorem ordered_corrected (ms : List (Int × Int)) (b d : Option Rat) (h : Ordered ms) : Ordered (corrected ms b d) := by
  cases ms with
  | nil => trivial
  | cons a rest =>
    obtain ⟨s, e⟩ := a
    have hp := pickupStart_le s e b d
    have hlt := h.head_lt
    cases rest with
    | nil => show pickupStart s e b d < e; omega
    | cons a' r =>
      obtain ⟨s', e'⟩ := a'
      exact ⟨by omega, h.2.1, h.2.2⟩

theorem tiles_corrected (ms : List (Int × Int)) (b d : Option Rat) (h : Tiles ms) : Tiles (corrected ms b d) := by
  cases ms with
  | nil => trivial
  | cons a rest =>
    obtain ⟨s, e⟩ := a
    have hp := pickupStart_le s e b d
    have hlt := h.ordered.head_lt
    cases rest with
    | nil => show pickupStart s e b d < e; omega
    | cons a' r =>
      obtain ⟨s', e'⟩ := a'
      exact ⟨by omega, h.2.1, h.2.2⟩

theorem corrected_length (ms : List (Int × Int)) (b d : Option Rat) : (corrected ms b d).length = ms.length := by
  cases ms with
  | nil => rfl
  | cons a rest => obtain ⟨s, e⟩ := a; rfl

theorem corrected_zero (s e : Int) (rest : List (Int × Int)) (b d : Option Rat) :
    (corrected ((s, e) :: rest) b d)[0]? = some (pickupStart s e b d, e) := rfl

theorem corrected_succ (ms : List (Int × Int)) (b d : Option Rat) (j : Nat) :
    (corrected ms b d)[j + 1]? = ms[j + 1]? := by
  cases ms with
  | nil => rfl
  | cons a rest => obtain ⟨s, e⟩ := a; rfl

/-- the entry of the corrected list at the index of a measure containing `x` still contains `x` -/
theorem corrected_get (ms : List (Int × Int)) (b d : Option Rat) (i : Nat) (s e : Int) (hi : ms[i]? = some (s, e)) :
    (corrected ms b d)[i]? = some (if i = 0 then pickupStart s e b d else s, e)
    ∧ (if i = 0 then pickupStart s e b d else s) ≤ s := by
  cases i with
  | zero =>
    cases ms with
    | nil => simp at hi
    | cons a rest =>
      simp only [List.getElem?_cons_zero, Option.some.injEq] at hi
      subst hi
      exact ⟨rfl, pickupStart_le s e b d⟩
  | succ j =>
    rw [corrected_succ, hi]
    simp

theorem measureTable_eq (span : Span) (ms : List (Int × Int)) (b d : Option Rat) (h : ms ≠ []) :
    measureTable span ms b d = (corrected ms b d).map fun m => (m.1, m) := by
  cases ms with
  | nil => exact absurd rfl h
  | cons a rest => obtain ⟨s, e⟩ := a; rfl

/-- `measure_map` inside measure `i` of a tiling list: the `i`-th corrected measure -/
theorem measureMap_tiles (span : Span) (tss : List (Int × Nat × Nat)) (ms : List (Int × Int)) (d : Option Rat)
    (x : Int) (ht : Ordered ms) (i : Nat) (s e : Int) (hi : ms[i]? = some (s, e)) (hs : s ≤ x) (he : x < e) :
    measureMap span tss ms d x = (corrected ms (beatsAtZero span tss) d)[i]? := by
  have hne : ms ≠ [] := by intro h; rw [h] at hi; simp at hi
  unfold measureMap
  rw [measureTable_eq _ _ _ _ hne, map_self_eq_zip]
  obtain ⟨hg, hle⟩ := corrected_get ms (beatsAtZero span tss) d i s e hi
  have := tiles_lastLE_zip (corrected ms (beatsAtZero span tss) d) (corrected ms (beatsAtZero span tss) d) x
    (ordered_corrected _ _ _ ht) rfl i _ e hg (by omega) he
  rw [hg] at this ⊢
  exact interpPrev_of_some _ x _ this

/-! ### measure numbers -/

theorem allSome_length {α : Type} (l : List (Option α)) (r : List α) (h : allSome l = some r) :
    r.length = l.length := by
  induction l generalizing r with
  | nil => simp [allSome] at h; subst h; rfl
  | cons o rest ih =>
    cases o with
    | none => simp [allSome] at h
    | some a =>
      simp only [allSome, Option.map_eq_some_iff] at h
      obtain ⟨r', hr', rfl⟩ := h
      simp [ih r' hr']

theorem allSome_get {α : Type} (l : List (Option α)) (r : List α) (h : allSome l = some r) (i : Nat) (a : α)
    (hi : l[i]? = some (some a)) : r[i]? = some a := by
  induction l generalizing r i with
  | nil => simp at hi
  | cons o rest ih =>
    cases o with
    | none => simp [allSome] at h
    | some b =>
      simp only [allSome, Option.map_eq_some_iff] at h
      obtain ⟨r', hr', rfl⟩ := h
      cases i with
      | zero => simpa using hi
      | succ j => simpa using ih r' hr' j (by simpa using hi)

theorem fillNumbers_length (nums : List (Option Int)) : (fillNumbers nums).length = nums.length := by
  simp [fillNumbers]

theorem fillNumbers_get (nums : List (Option Int)) (i : Nat) (n : Int) (h : nums[i]? = some (some n)) :
    (fillNumbers nums)[i]? = some (some n) := by
  have hi : i < nums.length := (List.getElem?_eq_some_iff.mp h).1
  unfold fillNumbers
  rw [List.getElem?_map, List.getElem?_range hi]
  simp [h]

/-- a measure that carries a number keeps it: the back-fill only touches `None`s -/
theorem allSome_of_forall_some (l : List (Option Int)) (h : ∀ o ∈ l, o ≠ none) : ∃ r, allSome l = some r := by
  induction l with
  | nil => exact ⟨[], rfl⟩
  | cons o rest ih =>
    cases o with
    | none => exact absurd rfl (h none (List.mem_cons_self ..))
    | some a =>
      obtain ⟨r, hr⟩ := ih (fun o ho => h o (List.mem_cons_of_mem _ ho))
      exact ⟨a :: r, by simp [allSome, hr]⟩

theorem fillNumbers_no_none (nums : List (Option Int)) (h : ∀ o ∈ nums, o ≠ none) :
    ∀ o ∈ fillNumbers nums, o ≠ none := by
  intro o ho
  obtain ⟨i, hi, rfl⟩ := List.mem_map.mp ho
  have hi' : i < nums.length := List.mem_range.mp hi
  have hmem : nums[i] ∈ nums := List.getElem_mem hi'
  cases hn : nums[i] with
  | none => exact absurd hn (h _ hmem)
  | some k =>
    rw [List.getElem?_eq_getElem hi', hn]
    simp

/-- the measures without their numbers -/
def strip (ms : List (Int × Int × Option Int)) : List (Int × Int) := ms.map fun m => (m.1, m.2.1)

theorem measureNumberMap_tiles (span : Span) (tss : List (Int × Nat × Nat)) (ms : List (Int × Int × Option Int))
    (d : Option Rat) (x : Int) (ht : Ordered (strip ms)) (filled : List Int)
    (hf : allSome (fillNumbers (ms.map (·.2.2))) = some filled)
    (i : Nat) (s e n : Int) (hi : ms[i]? = some (s, e, some n)) (hs : s ≤ x) (he : x < e) :
    measureNumberMap span tss ms d x = some (some n) := by
  cases ms with
  | nil => simp at hi
  | cons a rest =>
    obtain ⟨s0, e0, n0⟩ := a
    unfold measureNumberMap measureNumberTable
    simp only [hf, Option.map_some, Option.some.injEq]
    have hstarts : pickupStart s0 e0 (beatsAtZero span tss) d :: rest.map (·.1)
        = (corrected (strip ((s0, e0, n0) :: rest)) (beatsAtZero span tss) d).map (·.1) := by
      simp [strip, corrected, List.map_map, Function.comp_def]
    rw [hstarts]
    have hi' : (strip ((s0, e0, n0) :: rest))[i]? = some (s, e) := by
      unfold strip; rw [List.getElem?_map, hi]; rfl
    obtain ⟨hg, hle⟩ := corrected_get _ (beatsAtZero span tss) d i s e hi'
    have hlen : filled.length = (corrected (strip ((s0, e0, n0) :: rest)) (beatsAtZero span tss) d).length := by
      rw [corrected_length, allSome_length _ _ hf, fillNumbers_length]; simp [strip]
    have := tiles_lastLE_zip _ filled x (ordered_corrected _ (beatsAtZero span tss) d ht) hlen i _ e hg (by omega) he
    have hfi : filled[i]? = some n := by
      apply allSome_get _ _ hf i n
      apply fillNumbers_get
      rw [List.getElem?_map, hi]; rfl
    rw [hfi] at this
    exact interpPrev_of_some _ x _ this

/-! ### metrical position -/

theorem barLookups_eq (tbl : Tbl (Int × Int)) (l r : List (Int × Int)) (hlen : r.length = l.length)
    (h : ∀ (j : Nat) (m : Int × Int), l[j]? = some m → ∃ q, r[j]? = some q ∧ interpPrev tbl m.1 = some q) :
    barLookups tbl l = some r := by
  induction l generalizing r with
  | nil =>
    cases r with
    | nil => rfl
    | cons a b => simp at hlen
  | cons a rest ih =>
    obtain ⟨s, e⟩ := a
    cases r with
    | nil => simp at hlen
    | cons q0 rrest =>
      obtain ⟨q, hq, hint⟩ := h 0 (s, e) rfl
      simp only [List.getElem?_cons_zero, Option.some.injEq] at hq
      subst hq
      have := ih rrest (by simpa using hlen) (fun j m hm => by simpa using h (j + 1) m (by simpa using hm))
      simp only [barLookups, hint, this]

theorem diffs_tiles (L : List (Int × Int)) (ht : Tiles L) (last : Int × Int) (hl : L.getLast? = some last) :
    diffs (L.map (·.1) ++ [last.2]) = L.map fun m => m.2 - m.1 := by
  induction L with
  | nil => simp at hl
  | cons a rest ih =>
    obtain ⟨s, e⟩ := a
    cases rest with
    | nil =>
      simp only [List.getLast?_singleton, Option.some.injEq] at hl
      subst hl
      rfl
    | cons b r2 =>
      obtain ⟨s', e'⟩ := b
      rw [List.getLast?_cons_cons] at hl
      have h1 : e = s' := ht.2.1
      have := ih ht.tail hl
      simp only [List.map_cons, List.cons_append] at this ⊢
      rw [diffs, this, h1]

theorem map_dup_eq_zip (l : List Int) : (l.map fun s => (s, s)) = l.zip l := by
  induction l with
  | nil => rfl
  | cons a rest ih => simp [ih]

/-- inside measure `i` of a tiling list of bars: distance from its start, and its length -/
theorem metricalOfBars_tiles (L : List (Int × Int)) (x : Int) (ht : Tiles L) (i : Nat) (s e : Int)
    (hi : L[i]? = some (s, e)) (hs : s ≤ x) (he : x < e) :
    metricalOfBars L x = some (x - s, some (e - s)) := by
  have hne : L ≠ [] := by intro h; rw [h] at hi; simp at hi
  obtain ⟨last, hlast⟩ : ∃ last, L.getLast? = some last := by
    cases hl : L.getLast? with
    | none => exact absurd (List.getLast?_eq_none_iff.mp hl) hne
    | some a => exact ⟨a, rfl⟩
  unfold metricalOfBars
  simp only [hlast]
  rw [diffs_tiles L ht last hlast, map_dup_eq_zip]
  have h1 := tiles_lastLE_zip L (L.map (·.1)) x ht.ordered (by simp) i s e hi hs he
  rw [List.getElem?_map, hi] at h1
  have h2 := tiles_lastLE_zip L (L.map fun m => m.2 - m.1) x ht.ordered (by simp) i s e hi hs he
  rw [List.getElem?_map, hi] at h2
  simp only [Option.map_some] at h1 h2
  rw [lookupPrev_of_some _ x _ h1, interpPrev_of_some _ x _ h2]

theorem barLookups_tiles (span : Span) (tss : List (Int × Nat × Nat)) (ms : List (Int × Int)) (d : Option Rat)
    (ht : Ordered ms) :
    barLookups (measureTable span ms (beatsAtZero span tss) d) ms = some (corrected ms (beatsAtZero span tss) d) := by
  apply barLookups_eq _ _ _ (corrected_length _ _ _)
  intro j m hm
  obtain ⟨s, e⟩ := m
  have hlt : s < e := ht.mem_lt (s, e) (List.mem_of_getElem? hm)
  obtain ⟨hg, _⟩ := corrected_get ms (beatsAtZero span tss) d j s e hm
  refine ⟨_, hg, ?_⟩
  have := measureMap_tiles span tss ms d s ht j s e hm (Int.le_refl _) hlt
  rw [hg] at this
  exact this

theorem metricalMap_tiles (span : Span) (tss : List (Int × Nat × Nat)) (ms : List (Int × Int)) (d : Option Rat)
    (x : Int) (ht : Tiles ms) (i : Nat) (s e : Int) (hi : ms[i]? = some (s, e)) (hs : s ≤ x) (he : x < e) :
    metricalMap span tss ms d x
      = some (x - (if i = 0 then pickupStart s e (beatsAtZero span tss) d else s),
              some (e - (if i = 0 then pickupStart s e (beatsAtZero span tss) d else s))) := by
  unfold metricalMap metricalFromTable
  rw [barLookups_tiles span tss ms d ht.ordered]
  obtain ⟨hg, hle⟩ := corrected_get ms (beatsAtZero span tss) d i s e hi
  exact metricalOfBars_tiles _ x (tiles_corrected _ _ _ ht) i _ e hg (by omega) he

/-- without the tiling assumption (gaps between measures allowed) the distance from the start still holds -/
theorem metricalOfBars_ordered (L : List (Int × Int)) (x : Int) (ht : Ordered L) (i : Nat) (s e : Int)
    (hi : L[i]? = some (s, e)) (hs : s ≤ x) (he : x < e) :
    (metricalOfBars L x).map (·.1) = some (x - s) := by
  have hne : L ≠ [] := by intro h; rw [h] at hi; simp at hi
  obtain ⟨last, hlast⟩ : ∃ last, L.getLast? = some last := by
    cases hl : L.getLast? with
    | none => exact absurd (List.getLast?_eq_none_iff.mp hl) hne
    | some a => exact ⟨a, rfl⟩
  unfold metricalOfBars
  simp only [hlast]
  rw [map_dup_eq_zip]
  have h1 := tiles_lastLE_zip L (L.map (·.1)) x ht (by simp) i s e hi hs he
  rw [List.getElem?_map, hi] at h1
  simp only [Option.map_some] at h1
  rw [lookupPrev_of_some _ x _ h1]
  rfl

theorem metricalMap_ordered (span : Span) (tss : List (Int × Nat × Nat)) (ms : List (Int × Int)) (d : Option Rat)
    (x : Int) (ht : Ordered ms) (i : Nat) (s e : Int) (hi : ms[i]? = some (s, e)) (hs : s ≤ x) (he : x < e) :
    (metricalMap span tss ms d x).map (·.1)
      = some (x - (if i = 0 then pickupStart s e (beatsAtZero span tss) d else s)) := by
  unfold metricalMap metricalFromTable
  rw [barLookups_tiles span tss ms d ht]
  obtain ⟨hg, hle⟩ := corrected_get ms (beatsAtZero span tss) d i s e hi
  exact metricalOfBars_ordered _ x (ordered_corrected _ _ _ ht) i _ e hg (by omega) he

end C10
