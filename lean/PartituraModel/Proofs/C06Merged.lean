/-
C06 helper lemmas (round 2): the note messages of one (channel, pitch) in a MERGED track (mido
`merge_tracks` on save and/or on load), and the order in which the stable sort by tick arranges notes.
-/
import PartituraModel.Model.PerfMidi
import PartituraModel.Proofs.C06Stable
import PartituraModel.Proofs.C06Notes

namespace C06Merged
open Model Model.PerfMidi C06Sort C06Pair C06Lists C06Export C06Ids C06Notes C06Stable

-- ------------------------------------------------------------------ notes as blocks of two messages

/-- what a stable sort by tick needs of two notes `a`, `b` of one channel and pitch whose messages are
    written in this order (a's before b's, in one track or in tracks merged in this order): either `a` is
    released no later (in ticks) than `b` begins — on one tick the written order is kept —, or `b` is
    released on a tick strictly before the one where `a` begins -/
def MergeOk (q : Rat → Int) (a b : PNote) : Prop := q a.off ≤ q b.on ∨ q b.off < q a.on

instance (q : Rat → Int) (a b : PNote) : Decidable (MergeOk q a b) := by unfold MergeOk; infer_instance

/-- insertion of a note into a list of notes in order of tick: before the first that begins no earlier
    than the note is released -/
def insN (q : Rat → Int) (a : PNote) : List PNote → List PNote
  | [] => [a]
  | b :: S => if q a.off ≤ q b.on then a :: b :: S else b :: insN q a S

/-- the notes in the order of their messages after the stable sort by tick -/
def orderNotes (q : Rat → Int) (N : List PNote) : List PNote := N.foldr (insN q) []

theorem perm_insN (q : Rat → Int) (a : PNote) (S : List PNote) : (insN q a S).Perm (a :: S) := by
  induction S with
  | nil => exact List.Perm.refl _
  | cons b S ih =>
    unfold insN
    split
    · exact List.Perm.refl _
    · exact (List.Perm.cons b ih).trans (List.Perm.swap a b S)

theorem perm_orderNotes (q : Rat → Int) (N : List PNote) : (orderNotes q N).Perm N := by
  induction N with
  | nil => exact List.Perm.refl _
  | cons a N ih => exact (perm_insN q a _).trans (List.Perm.cons a ih)

/-- inserting the two messages of a note into the messages of notes in order inserts the note -/
theorem insert_block (q : Rat → Int) (a : PNote) (hw : q a.on ≤ q a.off) (S : List PNote)
    (hS : ∀ b ∈ S, MergeOk q a b ∧ q b.on ≤ q b.off) :
    insertBy tickLe (q a.on, Ev.noteOn a.ch a.pitch a.vel)
        (insertBy tickLe (q a.off, Ev.noteOff a.ch a.pitch 0) (S.flatMap (noteMsgs q)))
      = (insN q a S).flatMap (noteMsgs q) := by
  induction S with
  | nil => simp [insertBy, insN, noteMsgs, tickLe, hw]
  | cons b S ih =>
    have hb := hS b (List.mem_cons_self)
    have e : (b :: S).flatMap (noteMsgs q)
        = (q b.on, Ev.noteOn b.ch b.pitch b.vel) :: (q b.off, Ev.noteOff b.ch b.pitch 0) :: S.flatMap (noteMsgs q) := by
      simp [List.flatMap_cons, noteMsgs]
    rw [e]
    by_cases h : q a.off ≤ q b.on
    · have e2 : insN q a (b :: S) = a :: b :: S := by simp [insN, h]
      rw [e2, List.flatMap_cons, e]
      simp [insertBy, tickLe, h, hw, noteMsgs]
    · have e2 : insN q a (b :: S) = b :: insN q a S := by simp [insN, h]
      have h1 : q b.off < q a.on := by
        rcases hb.1 with h' | h'
        · exact absurd h' h
        · exact h'
      have n1 : ¬ q a.off ≤ q b.off := by omega
      have n2 : ¬ q a.on ≤ q b.on := by omega
      have n3 : ¬ q a.on ≤ q b.off := by omega
      rw [e2, List.flatMap_cons, ← ih (fun c hc => hS c (List.mem_cons_of_mem _ hc))]
      simp [insertBy, tickLe, h, n1, n2, n3, noteMsgs]

/-- the stable sort by tick of the messages of notes written in the order `N` arranges them note by note,
    in the order `orderNotes q N` -/
theorem sortBy_blocks (q : Rat → Int) (N : List PNote) (hw : ∀ n ∈ N, q n.on ≤ q n.off)
    (hno : N.Pairwise (MergeOk q)) :
    sortBy tickLe (N.flatMap (noteMsgs q)) = (orderNotes q N).flatMap (noteMsgs q) := by
  induction N with
  | nil => rfl
  | cons a N ih =>
    rw [List.pairwise_cons] at hno
    have e : sortBy tickLe ((a :: N).flatMap (noteMsgs q))
        = insertBy tickLe (q a.on, Ev.noteOn a.ch a.pitch a.vel)
            (insertBy tickLe (q a.off, Ev.noteOff a.ch a.pitch 0) (sortBy tickLe (N.flatMap (noteMsgs q)))) := by
      simp [List.flatMap_cons, noteMsgs, sortBy]
    rw [e, ih (fun n hn => hw n (List.mem_cons_of_mem _ hn)) hno.2]
    refine insert_block q a (hw a (List.mem_cons_self)) _ ?_
    intro b hb
    have hb' : b ∈ N := (perm_orderNotes q N).mem_iff.mp hb
    exact ⟨hno.1 b hb', hw b (List.mem_cons_of_mem _ hb')⟩

-- ------------------------------------------------------------------ `proj` through sort, merge, end of track

theorem proj_sortBy (κ : Nat) (l : Track) : proj κ (sortBy tickLe l) = sortBy tickLe (proj κ l) :=
  filter_sortBy tickLe tickLe_total tickLe_trans _ l

theorem proj_fixEot (κ : Nat) (t : Track) : proj κ (fixEot t) = proj κ t := by
  rw [proj_eq_sel, proj_eq_sel, sel_fixEot _ (gK_eot κ)]

theorem proj_flatten (κ : Nat) (ts : List Track) : proj κ ts.flatten = ts.flatMap (proj κ) := by
  induction ts with
  | nil => rfl
  | cons t ts ih =>
    rw [List.flatten_cons, List.flatMap_cons, ← ih]
    unfold proj
    rw [List.filter_append]

theorem proj_mergeAbs (κ : Nat) (ts : List Track) :
    proj κ (mergeAbs ts) = sortBy tickLe (ts.flatMap (proj κ)) := by
  unfold mergeAbs
  rw [proj_fixEot, proj_sortBy, proj_flatten]

theorem flatMap_proj_fixEot (κ : Nat) (ts : List Track) : (ts.map fixEot).flatMap (proj κ) = ts.flatMap (proj κ) := by
  induction ts with
  | nil => rfl
  | cons t ts ih => simp only [List.map_cons, List.flatMap_cons, ih, proj_fixEot]

/-- the note messages of one hash in the track the exporter builds for track number `tr`: those appended,
    sorted by tick (no hypothesis on the notes) -/
theorem proj_trackAbs_sort (q : Rat → Int) (parts : List PPart) (tr κ : Nat) :
    proj κ (trackAbs (insertAll q parts) tr) = sortBy tickLe ((keyNotes parts tr κ).flatMap (noteMsgs q)) := by
  unfold trackAbs
  rw [proj_sortBy, proj_eq_sel]
  exact congrArg _ (evI_gK_insertAll q tr κ parts)

theorem proj_cons_tempo (κ mpq : Nat) (t : Track) : proj κ ((0, Ev.tempo mpq) :: t) = proj κ t := by
  rw [proj_eq_sel, proj_eq_sel, sel_cons_none _ _ _ (gK_tempo κ mpq)]

theorem flatMap_congr_forall₂ {γ δ ε : Type} (f : γ → List ε) (f' : δ → List ε) :
    ∀ (l : List γ) (l' : List δ), List.Forall₂ (fun a b => f' b = f a) l l' → l'.flatMap f' = l.flatMap f
  | _, _, .nil => rfl
  | _, _, .cons h hs => by
    simp only [List.flatMap_cons]
    rw [h, flatMap_congr_forall₂ f f' _ _ hs]

/-- all notes of hash `κ` in the order their messages are written into the tracks that get merged: by
    track number, within a track part by part, within a part by (note_on, note_off) -/
def mergedKeyNotes (q : Rat → Int) (parts : List PPart) (κ : Nat) : List PNote :=
  (usedTracks q parts).flatMap fun tr => keyNotes parts tr κ

/-- the note messages of one hash, over all tracks of the exporter in file order -/
theorem flatMap_proj_exportAbs (q : Rat → Int) (mpq : Nat) (parts : List PPart) (κ : Nat) :
    (exportAbs q mpq parts).flatMap (proj κ)
      = (usedTracks q parts).flatMap fun tr => sortBy tickLe ((keyNotes parts tr κ).flatMap (noteMsgs q)) := by
  refine flatMap_congr_forall₂ _ _ _ _ ?_
  refine forall₂_exportAbs _ q mpq parts ?_ ?_
  · intro tr
    rw [proj_cons_tempo, proj_trackAbs_sort]
  · intro tr
    exact proj_trackAbs_sort q parts tr κ

theorem sortBy_flatMap_proj_exportAbs (q : Rat → Int) (mpq : Nat) (parts : List PPart) (κ : Nat) :
    sortBy tickLe ((exportAbs q mpq parts).flatMap (proj κ))
      = sortBy tickLe ((mergedKeyNotes q parts κ).flatMap (noteMsgs q)) := by
  rw [flatMap_proj_exportAbs, sortBy_flatMap_sortBy]
  unfold mergedKeyNotes
  rw [List.flatMap_assoc]

theorem length_exportAbs (q : Rat → Int) (mpq : Nat) (parts : List PPart) :
    (exportAbs q mpq parts).length = (usedTracks q parts).length :=
  (forall₂_exportAbs (fun _ _ => True) q mpq parts (fun _ => trivial) (fun _ => trivial)).length_eq.symm

/-- with merging on either side the loader sees ONE track, and its note messages of every hash are those of
    the whole performance in order of tick (stable with respect to the written order) -/
theorem merged_track (q : Rat → Int) (mpq : Nat) (ms ml : Bool) (parts : List PPart)
    (hm : ml = true ∨ (ms = true ∧ 1 < (usedTracks q parts).length)) :
    ∃ T, loaderTracks ml ((savedAbs q mpq ms parts).map toDelta) = [T] ∧
      ∀ κ, proj κ T = sortBy tickLe ((mergedKeyNotes q parts κ).flatMap (noteMsgs q)) := by
  have hsaved : ∀ κ, sortBy tickLe ((savedAbs q mpq ms parts).flatMap (proj κ))
      = sortBy tickLe ((mergedKeyNotes q parts κ).flatMap (noteMsgs q)) := by
    intro κ
    unfold savedAbs
    simp only
    rw [flatMap_proj_fixEot]
    split
    · simp only [List.flatMap_cons, List.flatMap_nil, List.append_nil]
      rw [proj_mergeAbs, sortBy_idem]
      exact sortBy_flatMap_proj_exportAbs q mpq parts κ
    · exact sortBy_flatMap_proj_exportAbs q mpq parts κ
  unfold loaderTracks
  rw [map_toAbs_toDelta]
  cases ml with
  | true =>
    refine ⟨mergeAbs (savedAbs q mpq ms parts), by simp, ?_⟩
    intro κ
    rw [proj_mergeAbs]
    exact hsaved κ
  | false =>
    rcases hm with hm | ⟨hms, hlen⟩
    · cases hm
    · subst hms
      have hl : 1 < (exportAbs q mpq parts).length := by rw [length_exportAbs]; exact hlen
      refine ⟨fixEot (mergeAbs (exportAbs q mpq parts)), ?_, ?_⟩
      · simp [savedAbs, hl]
      · intro κ
        rw [proj_fixEot, proj_mergeAbs]
        exact sortBy_flatMap_proj_exportAbs q mpq parts κ

-- ------------------------------------------------------------------ all notes of the performance

theorem perm_of_filter_key {γ : Type} [DecidableEq γ] (key : γ → Nat) (X Y : List γ)
    (h : ∀ κ, (X.filter (fun x => decide (key x = κ))).Perm (Y.filter (fun x => decide (key x = κ)))) :
    X.Perm Y := by
  rw [List.perm_iff_count]
  intro a
  have := (h (key a)).count_eq a
  rw [List.count_filter (by simp), List.count_filter (by simp)] at this
  exact this

/-- splitting a list by the value of `f` over a duplicate-free list of values that covers it -/
theorem flatMap_filter_perm {γ : Type} (f : γ → Nat) (X : List γ) :
    ∀ (l : List Nat), l.Nodup → (∀ x ∈ X, f x ∈ l) →
      (l.flatMap fun t => X.filter (fun x => decide (f x = t))).Perm X := by
  induction X with
  | nil =>
    intro l _ _
    have : (l.flatMap fun t => ([] : List γ).filter (fun x => decide (f x = t))) = [] := by
      rw [List.flatMap_eq_nil_iff]; intro _ _; rfl
    rw [this]
  | cons x X ih =>
    intro l hl hc
    have hx : f x ∈ l := hc x (List.mem_cons_self)
    obtain ⟨l1, l2, rfl⟩ := List.append_of_mem hx
    have hnd := List.nodup_append.mp hl
    have h1 : f x ∉ l1 := fun hh => hnd.2.2 _ hh _ (List.mem_cons_self) rfl
    have h2 : f x ∉ l2 := (List.nodup_cons.mp hnd.2.1).1
    have e1 : ∀ l' : List Nat, f x ∉ l' →
        (l'.flatMap fun t => (x :: X).filter (fun y => decide (f y = t)))
          = l'.flatMap fun t => X.filter (fun y => decide (f y = t)) := by
      intro l' hl'
      refine List.flatMap_congr ?_
      intro t ht
      rw [List.filter_cons_of_neg]
      simp only [decide_eq_true_eq]
      rintro rfl
      exact hl' ht
    have ihh := ih (l1 ++ f x :: l2) hl (fun y hy => hc y (List.mem_cons_of_mem _ hy))
    rw [List.flatMap_append, List.flatMap_cons] at ihh ⊢
    rw [e1 l1 h1, e1 l2 h2, List.filter_cons_of_pos (by simp)]
    refine List.Perm.trans ?_ (List.Perm.cons x ihh)
    exact List.perm_middle

-- ------------------------------------------------------------------ every note is on a used track

theorem subset_foldl_insertPart (q : Rat → Int) (parts : List PPart) (acc : List Ins) :
    ∀ i ∈ acc, i ∈ parts.foldl (insertPart q) acc := by
  induction parts generalizing acc with
  | nil => intro i hi; exact hi
  | cons p parts ih =>
    intro i hi
    rw [List.foldl_cons]
    refine ih _ i ?_
    unfold insertPart
    simp only [List.mem_append]
    exact Or.inl (Or.inl hi)

theorem mem_insertAll_of_partEvents (q : Rat → Int) (parts : List PPart) (p : PPart) (hp : p ∈ parts)
    (i : Ins) (hi : i ∈ partEvents q p) : i ∈ insertAll q parts := by
  unfold insertAll
  generalize ([] : List Ins) = acc
  induction parts generalizing acc with
  | nil => cases hp
  | cons p' parts ih =>
    rw [List.foldl_cons]
    rcases List.mem_cons.mp hp with rfl | hp
    · refine subset_foldl_insertPart q parts _ i ?_
      unfold insertPart
      simp only [List.mem_append]
      exact Or.inl (Or.inr hi)
    · exact ih hp _

theorem note_track_used (q : Rat → Int) (parts : List PPart) (p : PPart) (hp : p ∈ parts)
    (n : PNote) (hn : n ∈ p.notes) : n.track ∈ usedTracks q parts := by
  unfold usedTracks
  rw [mem_uniqueSorted]
  refine List.mem_map.mpr ⟨(n.track, q n.on, Ev.noteOn n.ch n.pitch n.vel), ?_, rfl⟩
  refine mem_insertAll_of_partEvents q parts p hp _ ?_
  unfold partEvents
  simp only [List.mem_append, List.mem_flatMap]
  refine Or.inl (Or.inr ⟨n, (mem_sortBy _ _ _).mpr hn, ?_⟩)
  simp [noteIns]

theorem mem_mergedKeyNotes (q : Rat → Int) (parts : List PPart) (κ : Nat) (n : PNote)
    (hn : n ∈ mergedKeyNotes q parts κ) : ∃ p ∈ parts, n ∈ p.notes := by
  unfold mergedKeyNotes keyNotes at hn
  obtain ⟨tr, _, hn⟩ := List.mem_flatMap.mp hn
  obtain ⟨p, hp, hn⟩ := List.mem_flatMap.mp hn
  exact ⟨p, hp, (mem_sortBy _ _ _).mp (List.mem_filter.mp hn).1⟩

/-- the notes of hash `κ` of all tracks are the notes of hash `κ` of the performance -/
theorem mergedKeyNotes_perm (q : Rat → Int) (parts : List PPart) (κ : Nat) :
    (mergedKeyNotes q parts κ).Perm
      ((parts.flatMap (·.notes)).filter (fun n => decide (noteHash n.ch n.pitch = κ))) := by
  let Z := parts.flatMap fun p => (sortBy noteLe p.notes).filter (fun n => decide (noteHash n.ch n.pitch = κ))
  have hZ : Z.Perm ((parts.flatMap (·.notes)).filter (fun n => decide (noteHash n.ch n.pitch = κ))) := by
    show (parts.flatMap _).Perm _
    rw [List.filter_flatMap]
    refine flatMap_perm_of_forall₂ _ _ _ _ (List.forall₂_same.mpr fun p _ => ?_)
    exact (perm_sortBy noteLe p.notes).filter _
  have hk : ∀ tr, keyNotes parts tr κ = Z.filter (fun n => decide (n.track = tr)) := by
    intro tr
    show _ = (parts.flatMap _).filter _
    unfold keyNotes
    rw [List.filter_flatMap]
    refine List.flatMap_congr ?_
    intro p _
    rw [List.filter_filter]
  unfold mergedKeyNotes
  simp only [hk]
  refine (flatMap_filter_perm (fun n : PNote => n.track) Z _ (nodup_uniqueSorted _) ?_).trans hZ
  intro n hn
  obtain ⟨p, hp, hn⟩ := List.mem_flatMap.mp hn
  exact note_track_used q parts p hp n ((mem_sortBy _ _ _).mp (List.mem_filter.mp hn).1)

theorem pairwise_mem_ne {γ : Type} (R : γ → γ → Prop) (hsym : ∀ a b, R a b → R b a) (l : List γ)
    (h : l.Pairwise R) : ∀ a ∈ l, ∀ b ∈ l, a ≠ b → R a b := by
  induction l with
  | nil => intro a ha; cases ha
  | cons x l ih =>
    rw [List.pairwise_cons] at h
    intro a ha b hb hne
    rcases List.mem_cons.mp ha with ha' | ha' <;> rcases List.mem_cons.mp hb with hb' | hb'
    · exact absurd (ha'.trans hb'.symm) hne
    · rw [ha']; exact h.1 b hb'
    · rw [hb']; exact hsym _ _ (h.1 a ha')
    · exact ih h.2 a ha' b hb' hne

-- ------------------------------------------------------------------ default programs, precisely

/-- every message of the default program insertion is a `program_change 0` for a channel the part (which
    has no programs) uses on that track -/
theorem defaultPrograms_mem (acc : List Ins) (p : PPart) :
    ∀ i ∈ defaultPrograms acc p, p.programs = [] ∧ ∃ ch, (ch, i.1) ∈ chanTracks p ∧ i.2.2 = Ev.program ch 0 := by
  intro i hi
  unfold defaultPrograms at hi
  split at hi
  · rename_i hnil
    have hnil' : p.programs = [] := by simpa using hnil
    split at hi
    · simp at hi
    · simp only [List.mem_flatMap, List.mem_map] at hi
      obtain ⟨tr, _, ch, hch, rfl⟩ := hi
      rw [mem_uniqueSorted] at hch
      obtain ⟨ct, hct, rfl⟩ := List.mem_map.mp hch
      have hct' := List.mem_filter.mp hct
      have ht : ct.2 = tr := by simpa using hct'.2
      refine ⟨hnil', ct.1, ?_, rfl⟩
      have : (ct.1, tr) = ct := by rw [← ht]
      rw [this]
      exact hct'.1
  · simp at hi

/-- what a default program is: program 0 on a channel that a part without programs uses on track `tr` -/
def IsDefaultProg (parts : List PPart) (tr : Nat) (x : Int × Nat × Nat) : Prop :=
  x.2.1 = 0 ∧ ∃ p ∈ parts, p.programs = [] ∧ (x.2.2, tr) ∈ chanTracks p

theorem evI_prog_foldl_strong (q : Rat → Int) (tr : Nat) (parts : List PPart) (acc : List Ins) :
    ∃ d : List (Int × Nat × Nat), (∀ x ∈ d, IsDefaultProg parts tr x) ∧
      (evI gProg tr (parts.foldl (insertPart q) acc)).Perm
        (evI gProg tr acc ++ parts.flatMap (fun p => evI gProg tr (partEvents q p)) ++ d) := by
  induction parts generalizing acc with
  | nil => exact ⟨[], by simp, by simp⟩
  | cons p parts ih =>
    obtain ⟨d, hd, hp⟩ := ih (insertPart q acc p)
    refine ⟨evI gProg tr (defaultPrograms (acc ++ partEvents q p) p) ++ d, ?_, ?_⟩
    · intro x hx
      rcases List.mem_append.mp hx with hx | hx
      · unfold evI sel at hx
        obtain ⟨m, hm, hmx⟩ := List.mem_filterMap.mp hx
        obtain ⟨i, hi, rfl⟩ := List.mem_map.mp hm
        have hi' := List.mem_filter.mp hi
        have htr : i.1 = tr := by simpa using hi'.2
        obtain ⟨hnil, ch, hch, he⟩ := defaultPrograms_mem _ p i hi'.1
        simp [he, gProg] at hmx
        rw [← hmx]
        exact ⟨rfl, p, List.mem_cons_self, hnil, by rw [← htr]; exact hch⟩
      · obtain ⟨h0, p', hp', h1, h2⟩ := hd x hx
        exact ⟨h0, p', List.mem_cons_of_mem _ hp', h1, h2⟩
    · rw [List.foldl_cons, List.flatMap_cons]
      refine hp.trans ?_
      unfold insertPart
      simp only [evI_append, List.append_assoc]
      refine List.Perm.append_left _ (List.Perm.append_left _ ?_)
      rw [← List.append_assoc, ← List.append_assoc]
      exact List.Perm.append_right _ List.perm_append_comm

/-- the programs of file track j: those of the performance on the j-th used track number plus default
    programs -/
theorem prog_exportAbs_strong (q : Rat → Int) (mpq : Nat) (parts : List PPart) :
    List.Forall₂ (fun tr t => ∃ d : List (Int × Nat × Nat), (∀ x ∈ d, IsDefaultProg parts tr x) ∧
        (sel gProg t).Perm (perfPrograms q parts tr ++ d))
      (usedTracks q parts) (exportAbs q mpq parts) := by
  have key : ∀ tr, ∃ d : List (Int × Nat × Nat), (∀ x ∈ d, IsDefaultProg parts tr x) ∧
      (sel gProg (trackAbs (insertAll q parts) tr)).Perm (perfPrograms q parts tr ++ d) := by
    intro tr
    obtain ⟨d, hd, hp⟩ := evI_prog_foldl_strong q tr parts []
    refine ⟨d, hd, (sel_trackAbs gProg _ tr).trans ?_⟩
    have : (fun p => evI gProg tr (partEvents q p))
        = fun p => (p.programs.filter (fun c => decide (c.track = tr))).map fun c => (q c.time, c.prog, c.ch) := by
      funext p; exact evI_prog_part q tr p
    rw [evI_nil, List.nil_append, this] at hp
    exact hp
  refine forall₂_exportAbs _ q mpq parts ?_ key
  intro tr
  rw [sel_cons_none gProg _ _ (by rfl)]
  exact key tr

/-- gluing per-track statements "up to extra entries" into one about the whole file -/
theorem flatMap_perm_extra {γ δ ε : Type} (f : γ → List ε) (g : δ → List ε) (P : γ → ε → Prop) :
    ∀ (l : List γ) (l' : List δ),
      List.Forall₂ (fun a b => ∃ d : List ε, (∀ x ∈ d, P a x) ∧ (g b).Perm (f a ++ d)) l l' →
      ∃ D : List ε, (∀ x ∈ D, ∃ a ∈ l, P a x) ∧ (l'.flatMap g).Perm (l.flatMap f ++ D)
  | _, _, .nil => ⟨[], by simp, by simp⟩
  | _, _, .cons (a := a) (l₁ := l) h hs => by
    obtain ⟨d, hd, hp⟩ := h
    obtain ⟨D, hD, hP⟩ := flatMap_perm_extra f g P _ _ hs
    refine ⟨d ++ D, ?_, ?_⟩
    · intro x hx
      rcases List.mem_append.mp hx with hx | hx
      · exact ⟨a, List.mem_cons_self, hd x hx⟩
      · obtain ⟨a', ha', hx'⟩ := hD x hx
        exact ⟨a', List.mem_cons_of_mem _ ha', hx'⟩
    · simp only [List.flatMap_cons]
      refine (hp.append hP).trans ?_
      -- (f a ++ d) ++ (F ++ D) ~ (f a ++ F) ++ (d ++ D)
      rw [List.append_assoc, List.append_assoc]
      refine List.Perm.append_left _ ?_
      rw [← List.append_assoc, ← List.append_assoc]
      exact List.Perm.append_right _ List.perm_append_comm

end C06Merged
