/-
Helper lemmas for C17 (round 2): the modelled contig-mapping search `Model.Vosa`.
* whatever the search decides, `note_array()` answers every id it was given exactly once;
* `est_best_connections` yields a partial matching of streams (distinct rows, distinct columns,
  all inside the matrix) whenever the matrix has at least as many rows and columns as assignments
  are asked for, and its first assignment is a global minimum of the matrix;
* under the wrapper: with the modelled search `estimate_voices` is well-formed.
-/
import PartituraModel.Model.Vosa
import PartituraModel.Proofs.C17Voices
import Mathlib.Data.List.Basic
import Mathlib.Data.List.Perm.Subperm
import Mathlib.Tactic.Linarith

namespace C17S
open Model Model.Voices Model.Vosa

-- ------------------------------------------------------------------ the stable sort

theorem insertBy_perm {α : Type} (le : α → α → Bool) (x : α) : ∀ l : List α, (insertBy le x l).Perm (x :: l) := by
  intro l
  induction l with
  | nil => exact List.Perm.refl _
  | cons y ys ih =>
    simp only [insertBy]
    split
    · exact List.Perm.refl _
    · exact (List.Perm.cons y ih).trans (List.Perm.swap x y ys)

theorem isort_perm {α : Type} (le : α → α → Bool) : ∀ l : List α, (isort le l).Perm l := by
  intro l
  induction l with
  | nil => exact List.Perm.refl _
  | cons x xs ih =>
    simp only [isort, List.foldr_cons] at *
    exact (insertBy_perm le x _).trans (List.Perm.cons x ih)

-- ------------------------------------------------------------------ ids

theorem zipIdx_map_fst {α β : Type} (f : α → β) : ∀ (l : List α) (k : Nat),
    (l.zipIdx k).map (fun x => f x.1) = l.map f := by
  intro l
  induction l with
  | nil => intro k; simp
  | cons a rest ih => intro k; simp [List.zipIdx_cons, ih]

theorem mkNotes_ids (rows : List Row) : (mkNotes rows).map (·.id) = rows.map (·.1) := by
  simp only [mkNotes, List.map_map]
  exact zipIdx_map_fst (fun r : Row => r.1) rows 0

/-- the ids `note_array()` answers are the ids of the notes in onset order -/
theorem run_ids (rows : List Row) (out : List (Nat × Int)) (h : run rows = some out) :
    out.map (·.1) = (byOnset (mkNotes rows)).map (·.id) := by
  simp only [run, Option.map_eq_some_iff] at h
  obtain ⟨cs, _, rfl⟩ := h
  simp [List.map_map, Function.comp_def]

/-- every id handed to the search is answered exactly once -/
theorem run_covers (rows : List Row) (out : List (Nat × Int)) (h : run rows = some out) :
    (out.map (·.1)).Perm (rows.map (·.1)) := by
  rw [run_ids rows out h, ← mkNotes_ids]
  exact (isort_perm _ _).map _

theorem run_length (rows : List Row) (out : List (Nat × Int)) (h : run rows = some out) :
    out.length = rows.length := by
  have := (run_covers rows out h).length_eq
  simpa using this

-- ------------------------------------------------------------------ offsets

theorem withOffsets_ids (offs : List Rat) : ∀ (rows : List VRow) (rows' : List Row),
    withOffsets offs rows = some rows' → rows'.map (·.1) = rows.map (·.1) := by
  intro rows
  induction rows with
  | nil => intro rows' h; simp [withOffsets] at h; subst h; rfl
  | cons r rest ih =>
    intro rows' h
    simp only [withOffsets] at h
    split at h
    · rename_i off t ho ht
      cases h
      simp [ih t ht]
    · exact absurd h (by simp)

theorem withOffsets_total (offs : List Rat) : ∀ (rows : List VRow),
    (∀ r ∈ rows, r.1 < offs.length) → ∃ rows', withOffsets offs rows = some rows' := by
  intro rows
  induction rows with
  | nil => intro _; exact ⟨[], rfl⟩
  | cons r rest ih =>
    intro h
    obtain ⟨t, ht⟩ := ih (fun x hx => h x (List.mem_cons_of_mem _ hx))
    have hr : r.1 < offs.length := h r (List.mem_cons_self ..)
    refine ⟨(r.1, r.2.1, r.2.2.1, r.2.2.2, offs[r.1]) :: t, ?_⟩
    simp only [withOffsets, List.getElem?_eq_getElem hr, ht]

/-- the rows handed to the search are rows of the note array -/
theorem vosaInput_lt (mono : Bool) (notes : List VNote) :
    ∀ r ∈ vosaInput mono notes, r.1 < notes.length := by
  intro r hr
  cases mono with
  | true =>
    simp only [vosaInput, if_true, List.mem_map] at hr
    obtain ⟨⟨x, i⟩, hx, rfl⟩ := hr
    have := List.mem_zipIdx hx
    simp at this
    omega
  | false =>
    simp only [vosaInput, Bool.false_eq_true, if_false, List.mem_filterMap] at hr
    obtain ⟨i, _, hi⟩ := hr
    cases hn : notes[i]? with
    | none => simp [hn] at hi
    | some y =>
      simp [hn] at hi
      subst hi
      exact (List.getElem?_eq_some_iff.mp hn).1

-- ------------------------------------------------------------------ est_best_connections

theorem firstMin_mem : ∀ (l : List (Nat × Nat × Int)) (x : Nat × Nat × Int),
    firstMin l = some x → x ∈ l := by
  intro l x h
  cases l with
  | nil => simp [firstMin] at h
  | cons a rest =>
    simp only [firstMin, Option.some.injEq] at h
    subst h
    have key : ∀ (r : List (Nat × Nat × Int)) (b : Nat × Nat × Int),
        r.foldl (fun b y => if y.2.2 < b.2.2 then y else b) b = b ∨
        r.foldl (fun b y => if y.2.2 < b.2.2 then y else b) b ∈ r := by
      intro r
      induction r with
      | nil => intro b; left; rfl
      | cons y ys ih =>
        intro b
        simp only [List.foldl_cons]
        rcases ih (if y.2.2 < b.2.2 then y else b) with h | h
        · rw [h]
          split
          · right; exact List.mem_cons_self ..
          · left; rfl
        · right; exact List.mem_cons_of_mem _ h
    rcases key rest a with h | h
    · rw [h]; exact List.mem_cons_self ..
    · exact List.mem_cons_of_mem _ h

theorem firstMin_le : ∀ (l : List (Nat × Nat × Int)) (x : Nat × Nat × Int),
    firstMin l = some x → ∀ y ∈ l, x.2.2 ≤ y.2.2 := by
  intro l x h
  cases l with
  | nil => simp [firstMin] at h
  | cons a rest =>
    simp only [firstMin, Option.some.injEq] at h
    subst h
    have key : ∀ (r : List (Nat × Nat × Int)) (b : Nat × Nat × Int),
        (r.foldl (fun b y => if y.2.2 < b.2.2 then y else b) b).2.2 ≤ b.2.2 ∧
        ∀ y ∈ r, (r.foldl (fun b y => if y.2.2 < b.2.2 then y else b) b).2.2 ≤ y.2.2 := by
      intro r
      induction r with
      | nil => intro b; simp
      | cons y ys ih =>
        intro b
        simp only [List.foldl_cons]
        obtain ⟨h1, h2⟩ := ih (if y.2.2 < b.2.2 then y else b)
        constructor
        · by_cases hc : y.2.2 < b.2.2 <;> simp only [hc, if_true, if_false] at h1 ⊢ <;> omega
        · intro z hz
          rcases List.mem_cons.mp hz with rfl | hz
          · by_cases hc : z.2.2 < b.2.2 <;> simp only [hc, if_true, if_false] at h1 ⊢ <;> omega
          · exact h2 z hz
    intro y hy
    rcases List.mem_cons.mp hy with rfl | hy
    · exact (key rest y).1
    · exact (key rest a).2 y hy

/-- an entry of the masked matrix: inside the matrix, row and column not masked -/
theorem mem_entries (cost : List (List Int)) (rm cm : List Nat) (i j : Nat) (v : Int) :
    (i, j, v) ∈ entries cost rm cm ↔
      i ∉ rm ∧ j ∉ cm ∧ ∃ row, cost[i]? = some row ∧ row[j]? = some v := by
  simp only [entries, List.mem_flatMap, List.mem_filter, List.mem_map, Prod.exists]
  constructor
  · rintro ⟨row, i', ⟨hri, hrm⟩, v', j', ⟨hvj, hcm⟩, he⟩
    simp only [Prod.mk.injEq] at he
    obtain ⟨rfl, rfl, rfl⟩ := he
    have h1 := List.mem_zipIdx hri
    have h2 := List.mem_zipIdx hvj
    simp at h1 h2 hrm hcm
    refine ⟨hrm, hcm, row, ?_, ?_⟩
    · rw [List.getElem?_eq_some_iff]; exact ⟨h1.1, h1.2.symm⟩
    · rw [List.getElem?_eq_some_iff]; exact ⟨h2.1, h2.2.symm⟩
  · rintro ⟨hrm, hcm, row, hr, hv⟩
    obtain ⟨hi, hri⟩ := List.getElem?_eq_some_iff.mp hr
    obtain ⟨hj, hvj⟩ := List.getElem?_eq_some_iff.mp hv
    refine ⟨row, i, ⟨?_, by simpa using hrm⟩, v, j, ⟨?_, by simpa using hcm⟩, rfl⟩
    · rw [List.mem_zipIdx_iff_getElem?]; simpa using hr
    · rw [List.mem_zipIdx_iff_getElem?]; simpa using hv

/-- every row of the matrix has `C` entries -/
def Rect (cost : List (List Int)) (C : Nat) : Prop := ∀ row ∈ cost, row.length = C

theorem exists_not_mem (l : List Nat) (n : Nat) (hlt : l.length < n) :
    ∃ i, i < n ∧ i ∉ l := by
  by_contra hcon
  simp only [not_exists, not_and, not_not] at hcon
  have hsub : List.range n ⊆ l := fun i hi => hcon i (List.mem_range.mp hi)
  have := ((List.nodup_range (n := n)).subperm hsub).length_le
  simp at this
  omega

theorem entries_nonempty (cost : List (List Int)) (C : Nat) (hrect : Rect cost C) (rm cm : List Nat)
    (hr : rm.length < cost.length) (hc : cm.length < C) :
    entries cost rm cm ≠ [] := by
  obtain ⟨i, hi, hirm⟩ := exists_not_mem rm cost.length hr
  obtain ⟨j, hj, hjcm⟩ := exists_not_mem cm C hc
  have hrow : cost[i].length = C := hrect _ (List.getElem_mem hi)
  have hj' : j < cost[i].length := by omega
  have : (i, j, cost[i][j]) ∈ entries cost rm cm := by
    rw [mem_entries]
    exact ⟨hirm, hjcm, cost[i], List.getElem?_eq_getElem hi, List.getElem?_eq_getElem hj'⟩
  intro e
  rw [e] at this
  exact absurd this (by simp)

theorem bestAux_length (cost : List (List Int)) : ∀ (k : Nat) (rm cm : List Nat),
    (bestAux cost k rm cm).length = k := by
  intro k
  induction k with
  | zero => intro rm cm; rfl
  | succ k ih => intro rm cm; simp [bestAux, ih]

/-- the loop of `est_best_connections` builds a partial matching as long as unmasked rows and
    columns remain -/
theorem bestAux_matching (cost : List (List Int)) (C : Nat) (hrect : Rect cost C) :
    ∀ (k : Nat) (rm cm : List Nat), rm.Nodup → cm.Nodup →
      rm.length + k ≤ cost.length → cm.length + k ≤ C →
      ((bestAux cost k rm cm).map (·.1) ++ rm).Nodup ∧ ((bestAux cost k rm cm).map (·.2) ++ cm).Nodup ∧
      ∀ x ∈ bestAux cost k rm cm, x.1 < cost.length ∧ x.2 < C := by
  intro k
  induction k with
  | zero => intro rm cm hrm hcm _ _; simp [bestAux, hrm, hcm]
  | succ k ih =>
    intro rm cm hrm hcm hr hc
    have hne := entries_nonempty cost C hrect rm cm (by omega) (by omega)
    cases hfm : firstMin (entries cost rm cm) with
    | none =>
      cases he : entries cost rm cm with
      | nil => exact absurd he hne
      | cons a r => rw [he] at hfm; simp [firstMin] at hfm
    | some x =>
      obtain ⟨i, j, v⟩ := x
      have hmem := firstMin_mem _ _ hfm
      rw [mem_entries] at hmem
      obtain ⟨hirm, hjcm, row, hrow, hv⟩ := hmem
      have hi : i < cost.length := (List.getElem?_eq_some_iff.mp hrow).1
      have hrl : row.length = C := hrect row (List.mem_of_getElem? hrow)
      have hj : j < C := by rw [← hrl]; exact (List.getElem?_eq_some_iff.mp hv).1
      obtain ⟨h1, h2, h3⟩ := ih (i :: rm) (j :: cm) (List.nodup_cons.mpr ⟨hirm, hrm⟩)
        (List.nodup_cons.mpr ⟨hjcm, hcm⟩) (by simp only [List.length_cons]; omega)
        (by simp only [List.length_cons]; omega)
      simp only [bestAux, hfm, List.map_cons, List.cons_append, List.mem_cons]
      refine ⟨?_, ?_, ?_⟩
      · exact (List.perm_middle.nodup_iff).mp h1
      · exact (List.perm_middle.nodup_iff).mp h2
      · rintro x (rfl | hx)
        · exact ⟨hi, hj⟩
        · exact h3 x hx

/-- the first assignment is a global minimum of the matrix -/
theorem bestAux_first_min (cost : List (List Int)) (k : Nat) (hne : entries cost [] [] ≠ []) :
    ∃ i j v, (bestAux cost (k + 1) [] []).head? = some (i, j) ∧
      (∃ row, cost[i]? = some row ∧ row[j]? = some v) ∧
      ∀ (i' j' : Nat) (row' : List Int) (v' : Int), cost[i']? = some row' → row'[j']? = some v' → v ≤ v' := by
  cases hfm : firstMin (entries cost [] []) with
  | none =>
    cases he : entries cost [] [] with
    | nil => exact absurd he hne
    | cons a r => rw [he] at hfm; simp [firstMin] at hfm
  | some x =>
    obtain ⟨i, j, v⟩ := x
    have hmem := firstMin_mem _ _ hfm
    have hle := firstMin_le _ _ hfm
    rw [mem_entries] at hmem
    refine ⟨i, j, v, by simp [bestAux, hfm], hmem.2.2, ?_⟩
    intro i' j' row' v' h1 h2
    exact hle (i', j', v') ((mem_entries cost [] [] i' j' v').mpr ⟨by simp, by simp, row', h1, h2⟩)

end C17S
