/-
C09 helper lemmas, part 1: every enumerated path is a walk in the segment graph; fuel monotonicity.
-/
import PartituraModel.Model.Unfold
import PartituraModel.Model.UnfoldFam

namespace C09
open Model.Unfold

/-- `d` is a destination the code's segment table allows from segment `a`
(either immediately or after a leap, when the awaiting destinations are released) -/
def Edge (g : List Seg) (a : Nat) (d : Dest) : Prop :=
  ∃ s, g[a]? = some s ∧ (d ∈ s.to ∨ d ∈ s.await)

/-- consecutive elements are joined by edges -/
def Walk (g : List Seg) : List Nat → Prop
  | [] => True
  | [_] => True
  | a :: b :: rest => Edge g a (.seg b) ∧ Walk g (b :: rest)

theorem walk_snoc (g : List Seg) (l : List Nat) (a b : Nat)
    (h : Walk g (l ++ [a])) (e : Edge g a (.seg b)) : Walk g (l ++ [a] ++ [b]) := by
  induction l with
  | nil => exact ⟨e, trivial⟩
  | cons x xs ih =>
    cases xs with
    | nil =>
      simp only [List.cons_append, List.nil_append, Walk] at h ⊢
      exact ⟨h.1, e, trivial⟩
    | cons y ys =>
      simp only [List.cons_append, Walk] at h ⊢
      exact ⟨h.1, ih h.2⟩

/-- a path state's own segment table only ever offers destinations of the original table -/
def SegsOK (g segs : List Seg) : Prop :=
  ∀ (i : Nat) (s : Seg), segs[i]? = some s →
    ∃ s0 : Seg, g[i]? = some s0 ∧ s.await = s0.await ∧ ∀ d ∈ s.to, d ∈ s0.to ∨ d ∈ s0.await

def Inv (g : List Seg) (st : PState) : Prop :=
  SegsOK g st.segs ∧ Walk g st.path ∧ st.path.head? = some 0

theorem rewriteSegs_get (segs : List Seg) (k i : Nat) :
    (rewriteSegs k segs)[i]? = (segs[i]?).map (rewriteSeg (k + i)) := by
  induction segs generalizing k i with
  | nil => simp [rewriteSegs]
  | cons s rest ih =>
    cases i with
    | zero => simp [rewriteSegs]
    | succ i =>
      simp only [rewriteSegs, List.getElem?_cons_succ]
      rw [ih]
      congr 2
      omega

theorem segsOK_rewrite (g segs : List Seg) (h : SegsOK g segs) : SegsOK g (rewriteSegs 0 segs) := by
  intro i s hs
  rw [rewriteSegs_get] at hs
  cases hsi : segs[i]? with
  | none => simp [hsi] at hs
  | some s1 =>
    simp only [hsi, Option.map_some, Option.some.injEq] at hs
    obtain ⟨s0, h0, haw, hto⟩ := h i s1 hsi
    refine ⟨s0, h0, ?_, ?_⟩
    · rw [← hs]; unfold rewriteSeg; split <;> simp [haw]
    · intro d hd
      rw [← hs] at hd
      unfold rewriteSeg at hd
      split at hd
      · exact hto d hd
      · simp only [List.mem_append, List.mem_filter] at hd
        rcases hd with hd | hd
        · exact hto d hd.1
        · right; rw [← haw]; exact hd

theorem path_jump (st : PState) (j : Nat) :
    ((st.cur :: st.prev).reverse ++ [j]) = (j :: st.cur :: st.prev).reverse := by
  simp

theorem mem_of_map_single {α : Type} (o : Option α) (ds : List α) (P : α → Prop)
    (ho : ∀ x, o = some x → P x) (h : (o.map fun d => [d]) = some ds) : ∀ d ∈ ds, P d := by
  cases o with
  | none => simp at h
  | some x =>
    simp only [Option.map_some, Option.some.injEq] at h
    subst h
    intro d hd
    simp only [List.mem_singleton] at hd
    subst hd
    exact ho _ rfl

/-- every destination offered from the current segment is in that segment's `to` list -/
theorem dests_sub (st : PState) (ds : List Dest) (h : st.dests = some ds) :
    ∃ s, st.segs[st.cur]? = some s ∧ ∀ d ∈ ds, d ∈ s.to := by
  unfold PState.dests at h
  cases hs : st.segs[st.cur]? with
  | none => simp [hs] at h
  | some s =>
    refine ⟨s, rfl, ?_⟩
    simp only [hs] at h
    cases hli : lastIndex s.to (st.used st.cur) with
    | none => simp [hli] at h
    | some li =>
      simp only [hli] at h
      have hlast : ∀ ds, (s.to.getLast?.map fun d => [d]) = some ds → ∀ d ∈ ds, d ∈ s.to :=
        fun ds h => mem_of_map_single _ ds (· ∈ s.to) (fun x hx => List.mem_of_getLast? hx) h
      have hhead : ∀ ds, (s.to.head?.map fun d => [d]) = some ds → ∀ d ∈ ds, d ∈ s.to :=
        fun ds h => mem_of_map_single _ ds (· ∈ s.to) (fun x hx => List.mem_of_head? hx) h
      cases hnr : st.noRepeats with
      | true =>
        simp only [hnr, if_true] at h
        exact hlast ds h
      | false =>
        simp only [hnr, Bool.false_eq_true, if_false] at h
        cases hall : (s.forceSeq || st.allRepeats) with
        | true =>
          simp only [hall, if_true] at h
          cases li with
          | none => exact hhead ds h
          | some k =>
            simp only at h
            by_cases hk : k + 1 < s.to.length
            · simp only [hk, if_true] at h
              exact mem_of_map_single _ ds (· ∈ s.to) (fun x hx => List.mem_of_getElem? hx) h
            · simp only [hk, if_false] at h
              exact hhead ds h
        | false =>
          simp only [hall, Bool.false_eq_true, if_false] at h
          cases li with
          | none =>
            simp only [Option.some.injEq] at h; subst h; exact fun d hd => hd
          | some k =>
            simp only at h
            by_cases hk : k + 1 < s.to.length
            · simp only [hk, if_true, Option.some.injEq] at h
              subst h
              exact fun d hd => List.mem_of_mem_drop hd
            · simp only [hk, if_false, Option.some.injEq] at h
              subst h; exact fun d hd => hd

theorem jump_path (il : Bool) (st st' : PState) (j : Nat) (h : st.jump il j = some st') :
    st'.path = st.path ++ [j] := by
  unfold PState.jump at h
  split at h
  · split at h
    · simp only [Option.some.injEq] at h
      subst h
      split <;> split <;> simp [PState.path]
    · simp only [Option.some.injEq] at h
      subst h
      simp [PState.path]
  · simp at h

theorem jump_segs (il : Bool) (st st' : PState) (j : Nat) (h : st.jump il j = some st') :
    st'.segs = st.segs ∨ st'.segs = rewriteSegs 0 st.segs := by
  unfold PState.jump at h
  split at h
  · split at h
    · simp only [Option.some.injEq] at h
      subst h
      split <;> split <;> simp
    · simp only [Option.some.injEq] at h
      subst h
      simp
  · simp at h

theorem inv_jump (g : List Seg) (il : Bool) (st st' : PState) (j : Nat) (hinv : Inv g st)
    (hd : ∃ s, st.segs[st.cur]? = some s ∧ Dest.seg j ∈ s.to)
    (h : st.jump il j = some st') : Inv g st' := by
  obtain ⟨hsegs, hwalk, hhead⟩ := hinv
  obtain ⟨s, hs, hj⟩ := hd
  obtain ⟨s0, h0, _, hto⟩ := hsegs _ s hs
  have hedge : Edge g st.cur (.seg j) := ⟨s0, h0, hto _ hj⟩
  have hp := jump_path il st st' j h
  refine ⟨?_, ?_, ?_⟩
  · rcases jump_segs il st st' j h with e | e
    · rw [e]; exact hsegs
    · rw [e]; exact segsOK_rewrite g _ hsegs
  · rw [hp]
    have : st.path = st.prev.reverse ++ [st.cur] := by simp [PState.path]
    rw [this] at hwalk ⊢
    exact walk_snoc g _ _ _ hwalk hedge
  · rw [hp]
    have : st.path = st.prev.reverse ++ [st.cur] := by simp [PState.path]
    rw [this] at hhead ⊢
    cases hr : st.prev.reverse with
    | nil => simp [hr] at hhead ⊢; exact hhead
    | cons x xs => simp [hr] at hhead ⊢; exact hhead

/-- what the theorem says about one finished path -/
def GoodPath (g : List Seg) (p : List Nat) : Prop :=
  p.head? = some 0 ∧ Walk g p ∧ ∃ l, p.getLast? = some l ∧ Edge g l .fin

theorem stepList_good (g : List Seg) (il : Bool) (rec : PState → Option (List (List Nat)))
    (hrec : ∀ st ps, Inv g st → rec st = some ps → ∀ p ∈ ps, GoodPath g p)
    (st : PState) (hinv : Inv g st) (s : Seg) (hs : st.segs[st.cur]? = some s) :
    ∀ (ds : List Dest) (ps : List (List Nat)), (∀ d ∈ ds, d ∈ s.to) →
      stepList rec il st ds = some ps → ∀ p ∈ ps, GoodPath g p := by
  intro ds
  induction ds with
  | nil =>
    intro ps _ h p hp
    simp only [stepList, Option.some.injEq] at h
    subst h
    simp at hp
  | cons d ds ih =>
    intro ps hsub h p hp
    cases d with
    | fin =>
      simp only [stepList] at h
      cases hr : stepList rec il st ds with
      | none => simp [hr] at h
      | some r =>
        simp only [hr, Option.map_some, Option.some.injEq] at h
        subst h
        simp only [List.mem_cons] at hp
        rcases hp with hp | hp
        · subst hp
          obtain ⟨hsegs, hwalk, hhead⟩ := hinv
          refine ⟨hhead, hwalk, st.cur, ?_, ?_⟩
          · simp [PState.path]
          · obtain ⟨s0, h0, _, hto⟩ := hsegs _ s hs
            exact ⟨s0, h0, hto _ (hsub _ (List.mem_cons_self))⟩
        · exact ih r (fun d hd => hsub d (List.mem_cons_of_mem _ hd)) hr p hp
    | seg j =>
      simp only [stepList] at h
      cases hj : st.jump il j with
      | none => simp [hj] at h
      | some st' =>
        simp only [hj] at h
        cases ha : rec st' with
        | none => simp [ha] at h
        | some a =>
          cases hb : stepList rec il st ds with
          | none => simp [ha, hb] at h
          | some b =>
            simp only [ha, hb, Option.some.injEq] at h
            subst h
            simp only [List.mem_append] at hp
            rcases hp with hp | hp
            · have hinv' : Inv g st' :=
                inv_jump g il st st' j hinv ⟨s, hs, hsub _ (List.mem_cons_self)⟩ hj
              exact hrec st' a hinv' ha p hp
            · exact ih b (fun d hd => hsub d (List.mem_cons_of_mem _ hd)) hb p hp

theorem unfoldFrom_good (g : List Seg) (il : Bool) :
    ∀ (f : Nat) (st : PState) (ps : List (List Nat)), Inv g st →
      unfoldFrom il f st = some ps → ∀ p ∈ ps, GoodPath g p := by
  intro f
  induction f with
  | zero => intro st ps _ h; simp [unfoldFrom] at h
  | succ f ih =>
    intro st ps hinv h p hp
    simp only [unfoldFrom] at h
    cases hd : st.dests with
    | none => simp [hd] at h
    | some ds =>
      simp only [hd] at h
      obtain ⟨s, hs, hsub⟩ := dests_sub st ds hd
      exact stepList_good g il (unfoldFrom il f) ih st hinv s hs ds ps hsub h p hp

theorem inv_init (g : List Seg) (nr ar : Bool) : Inv g (initState g nr ar) := by
  refine ⟨?_, ?_, ?_⟩
  · intro i s hs
    exact ⟨s, hs, rfl, fun d hd => Or.inl hd⟩
  · simp [initState, PState.path, Walk]
  · simp [initState, PState.path]

/-! fuel monotonicity: a result never depends on how much fuel was left over -/

theorem stepList_mono (il : Bool) (r1 r2 : PState → Option (List (List Nat)))
    (h12 : ∀ st ps, r1 st = some ps → r2 st = some ps) (st : PState) :
    ∀ (ds : List Dest) (ps : List (List Nat)), stepList r1 il st ds = some ps → stepList r2 il st ds = some ps := by
  intro ds
  induction ds with
  | nil => intro ps h; simpa [stepList] using h
  | cons d ds ih =>
    intro ps h
    cases d with
    | fin =>
      simp only [stepList] at h ⊢
      cases hr : stepList r1 il st ds with
      | none => simp [hr] at h
      | some r => rw [ih r hr]; simpa [hr] using h
    | seg j =>
      simp only [stepList] at h ⊢
      cases hj : st.jump il j with
      | none => simp [hj] at h
      | some st' =>
        simp only [hj] at h ⊢
        cases ha : r1 st' with
        | none => simp [ha] at h
        | some a =>
          cases hb : stepList r1 il st ds with
          | none => simp [ha, hb] at h
          | some b =>
            rw [h12 st' a ha, ih b hb]
            simpa [ha, hb] using h

theorem unfoldFrom_mono (il : Bool) :
    ∀ (f : Nat) (st : PState) (ps : List (List Nat)),
      unfoldFrom il f st = some ps → unfoldFrom il (f + 1) st = some ps := by
  intro f
  induction f with
  | zero => intro st ps h; simp [unfoldFrom] at h
  | succ f ih =>
    intro st ps h
    rw [unfoldFrom] at h ⊢
    cases hd : st.dests with
    | none => simp [hd] at h
    | some ds =>
      simp only [hd] at h ⊢
      exact stepList_mono il _ _ ih st ds ps h

theorem unfoldFrom_mono_add (il : Bool) (f k : Nat) (st : PState) (ps : List (List Nat))
    (h : unfoldFrom il f st = some ps) : unfoldFrom il (f + k) st = some ps := by
  induction k with
  | zero => exact h
  | succ k ih => exact unfoldFrom_mono il _ st ps ih

end C09
