/-
C04 — grouping lemmas: collecting the elements of a list key after key, the keys in order of first
appearance (Python dicts keyed by note key / channel / part number), is a permutation of the list.
-/
import Mathlib.Data.List.Perm.Basic
import PartituraModel.Model.ScoreMidi

namespace C04G
open Model Model.ScoreMidi Model.MidiPair

variable {α κ : Type}

theorem filter_disjoint_perm (p q : α → Bool) (l : List α) (h : ∀ x ∈ l, ¬ (p x = true ∧ q x = true)) :
    (l.filter p ++ l.filter q).Perm (l.filter (fun x => p x || q x)) := by
  induction l with
  | nil => simp
  | cons x xs ih =>
    have ih' := ih (fun y hy => h y (List.mem_cons_of_mem _ hy))
    have hx := h x List.mem_cons_self
    cases hp : p x <;> cases hq : q x
    · simpa [List.filter_cons, hp, hq] using ih'
    · simp only [List.filter_cons, hp, hq, Bool.false_eq_true, ↓reduceIte, Bool.or_true]
      exact (List.perm_middle).trans (ih'.cons x)
    · simpa [List.filter_cons, hp, hq] using ih'
    · exact absurd ⟨hp, hq⟩ hx

/-- the elements of `l` collected key after key (keys without repeats) are the elements whose key is listed -/
theorem group_perm [DecidableEq κ] (f : α → κ) (ks : List κ) (hnd : ks.Nodup) (l : List α) :
    (ks.flatMap fun k => l.filter (fun x => f x = k)).Perm (l.filter (fun x => decide (f x ∈ ks))) := by
  induction ks with
  | nil => simp
  | cons k ks ih =>
    obtain ⟨hk, hnd'⟩ := List.nodup_cons.mp hnd
    rw [List.flatMap_cons]
    refine ((ih hnd').append_left _).trans ?_
    have := filter_disjoint_perm (fun x => decide (f x = k)) (fun x => decide (f x ∈ ks)) l (by
      intro x _ ⟨h1, h2⟩
      simp only [decide_eq_true_eq] at h1 h2
      exact hk (h1 ▸ h2))
    refine this.trans ?_
    apply List.Perm.of_eq
    apply List.filter_congr
    intro x _
    simp [List.mem_cons]

/-- when every key is listed: a permutation of the whole list -/
theorem group_perm_all [DecidableEq κ] (f : α → κ) (ks : List κ) (hnd : ks.Nodup) (l : List α)
    (hall : ∀ x ∈ l, f x ∈ ks) :
    (ks.flatMap fun k => l.filter (fun x => f x = k)).Perm l := by
  refine (group_perm f ks hnd l).trans (List.Perm.of_eq ?_)
  rw [List.filter_eq_self]
  intro x hx
  simpa using hall x hx

-- ------------------------------------------------------------------ firstSeen

theorem firstSeen_aux [DecidableEq κ] (l acc : List κ) (hacc : acc.Nodup) :
    (l.foldl (fun acc x => if acc.contains x then acc else acc ++ [x]) acc).Nodup ∧
    ∀ x, x ∈ l.foldl (fun acc x => if acc.contains x then acc else acc ++ [x]) acc ↔ x ∈ acc ∨ x ∈ l := by
  induction l generalizing acc with
  | nil => simp [hacc]
  | cons y ys ih =>
    rw [List.foldl_cons]
    by_cases hy : acc.contains y = true
    · rw [if_pos hy]
      obtain ⟨h1, h2⟩ := ih acc hacc
      refine ⟨h1, fun x => ?_⟩
      rw [h2 x]
      have : y ∈ acc := by simpa using hy
      constructor
      · rintro (h | h)
        · exact Or.inl h
        · exact Or.inr (List.mem_cons_of_mem _ h)
      · rintro (h | h)
        · exact Or.inl h
        · rcases List.mem_cons.mp h with rfl | h
          · exact Or.inl this
          · exact Or.inr h
    · rw [if_neg hy]
      have hy' : y ∉ acc := by simpa using hy
      have hnd : (acc ++ [y]).Nodup := by
        rw [List.nodup_append]
        refine ⟨hacc, by simp, ?_⟩
        intro a ha b hb
        simp only [List.mem_singleton] at hb
        subst hb
        exact fun e => hy' (e ▸ ha)
      obtain ⟨h1, h2⟩ := ih (acc ++ [y]) hnd
      refine ⟨h1, fun x => ?_⟩
      rw [h2 x]
      simp only [List.mem_append, List.mem_cons]
      tauto

theorem firstSeen_nodup [DecidableEq κ] (l : List κ) : (firstSeen l).Nodup := (firstSeen_aux l [] List.nodup_nil).1

theorem mem_firstSeen [DecidableEq κ] (l : List κ) (x : κ) : x ∈ firstSeen l ↔ x ∈ l := by
  have := (firstSeen_aux l [] List.nodup_nil).2 x
  simpa [firstSeen] using this

/-- Python: `for k in d: for x in d[k]` after `d[key(x)].append(x)` for the elements of `l` -/
theorem firstSeen_group_perm [DecidableEq κ] (f : α → κ) (l : List α) :
    ((firstSeen (l.map f)).flatMap fun k => l.filter (fun x => f x = k)).Perm l :=
  group_perm_all f _ (firstSeen_nodup _) l (fun x hx => (mem_firstSeen _ _).mpr (List.mem_map.mpr ⟨x, hx, rfl⟩))

theorem channelsOf_eq (ns : List NoteRec) : channelsOf ns = firstSeen (ns.map (·.ch)) := by
  unfold channelsOf firstSeen
  rw [List.foldl_map]

end C04G
