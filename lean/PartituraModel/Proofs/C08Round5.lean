/-
C08 (round 5) — helper lemmas: the bar names of the reader (`barNames`: sorted, duplicates dropped).
-/
import PartituraModel.Model.MatchTime
import PartituraModel.Proofs.C08Sort
import Mathlib.Tactic.Linarith

namespace C08R
open Model Model.MatchTime

theorem mem_dedup : ∀ (l : List Int) (x : Int), x ∈ barNames.dedupSortedInt l ↔ x ∈ l
  | [], x => by simp [barNames.dedupSortedInt]
  | [a], x => by simp [barNames.dedupSortedInt]
  | a :: b :: rest, x => by
    unfold barNames.dedupSortedInt
    have ih := mem_dedup (b :: rest) x
    split
    · rename_i hab
      rw [ih]
      subst hab
      simp
    · simp only [List.mem_cons] at ih ⊢
      rw [ih]

theorem dedup_pairwise : ∀ (l : List Int), l.Pairwise (· ≤ ·) → (barNames.dedupSortedInt l).Pairwise (· < ·)
  | [], _ => by simp [barNames.dedupSortedInt]
  | [a], _ => by simp [barNames.dedupSortedInt]
  | a :: b :: rest, h => by
    unfold barNames.dedupSortedInt
    have htail : (b :: rest).Pairwise (· ≤ ·) := (List.pairwise_cons.mp h).2
    have ih := dedup_pairwise (b :: rest) htail
    split
    · exact ih
    · rename_i hab
      rw [List.pairwise_cons]
      refine ⟨?_, ih⟩
      intro x hx
      rw [mem_dedup] at hx
      have hab' : a ≤ b := (List.pairwise_cons.mp h).1 b (by simp)
      have hbx : b ≤ x := by
        rcases List.mem_cons.mp hx with rfl | hx'
        · exact le_refl _
        · exact (List.pairwise_cons.mp htail).1 x hx'
      omega

/-- the reader's bar names: strictly increasing, and exactly the measure numbers that occur on the snotes -/
theorem barNames_spec (ns : List (Nat × SNote)) :
    (barNames ns).Pairwise (· < ·) ∧ ∀ x, x ∈ barNames ns ↔ ∃ n ∈ ns, n.2.measure = x := by
  unfold barNames
  constructor
  · apply dedup_pairwise
    have := C08S.sortBy_pairwise (fun a b : Int => decide (a ≤ b)) (by intro a b; simp; omega)
      (by intro a b c h1 h2; simp at h1 h2 ⊢; omega) (ns.map (·.2.measure))
    exact this.imp (by intro a b h; simpa using h)
  · intro x
    rw [mem_dedup, C08S.mem_sortBy, List.mem_map]

end C08R
