/-
C13 — `storeF32` (binary64 division result stored in a binary32 column): error bound and exactness.
-/
import PartituraModel.Proofs.C13Float

open Model Model.PianoRoll Round

namespace C13Float

theorem ifabs (r : ℚ) : (if r < 0 then -r else r) = |r| := by
  split
  · rename_i h; exact (abs_of_neg h).symm
  · rename_i h; exact (abs_of_nonneg (not_lt.mp h)).symm

theorem f64?_eq (q : ℚ) : f64? q = if pow2 1024 ≤ |roundBin 53 (-1074) q| then none else some (roundBin 53 (-1074) q) := by
  unfold f64?; simp only [ifabs]

theorem f32?_eq (q : ℚ) : f32? q = if pow2 128 ≤ |roundBin 24 (-149) q| then none else some (roundBin 24 (-149) q) := by
  unfold f32?; simp only [ifabs]

/-- **exactness of the stored value**: a number `m * 2^k` with `|m| < 2^24`, `-149 ≤ k ≤ 103` survives the binary64
    computation and the binary32 storage unchanged -/
theorem storeF32_exact (m : Int) (k : Int) (hm : m.natAbs < 2 ^ 24) (hk : -149 ≤ k) (hk2 : k ≤ 103) :
    storeF32 ((m : ℚ) * pow2 k) = some ((m : ℚ) * pow2 k) := by
  have hsmall : |(m : ℚ) * pow2 k| < pow2 128 := by
    rw [abs_mul, abs_of_pos (pow2_pos k)]
    have h1 : |(m : ℚ)| < pow2 24 := by
      have : pow2 24 = ((2 ^ 24 : ℕ) : ℚ) := pow2_nat 24
      rw [this, ← Int.cast_abs, Int.abs_eq_natAbs]
      exact_mod_cast hm
    have h2 : pow2 k ≤ pow2 103 := pow2_mono hk2
    have : pow2 128 = pow2 24 * pow2 104 := by rw [← pow2_add]; norm_num
    rw [this]
    have h3 : pow2 103 < pow2 104 := pow2_lt (by norm_num)
    have hp := pow2_pos k
    calc |(m : ℚ)| * pow2 k ≤ |(m : ℚ)| * pow2 103 := mul_le_mul_of_nonneg_left h2 (abs_nonneg _)
      _ ≤ pow2 24 * pow2 103 := mul_le_mul_of_nonneg_right (le_of_lt h1) (le_of_lt (pow2_pos _))
      _ < pow2 24 * pow2 104 := mul_lt_mul_of_pos_left h3 (pow2_pos _)
  have e64 : roundBin 53 (-1074) ((m : ℚ) * pow2 k) = (m : ℚ) * pow2 k :=
    roundBin_exact 53 (-1074) m k (lt_trans hm (by norm_num)) (by omega)
  have e32 : roundBin 24 (-149) ((m : ℚ) * pow2 k) = (m : ℚ) * pow2 k :=
    roundBin_exact 24 (-149) m k hm hk
  unfold storeF32
  rw [f64?_eq, e64, if_neg (not_le.mpr (lt_trans hsmall (pow2_lt (by norm_num))))]
  simp only [Option.bind_some]
  rw [f32?_eq, e32, if_neg (not_le.mpr hsmall)]

theorem storeF32_zero : storeF32 0 = some 0 := by
  have := storeF32_exact 0 0 (by norm_num) (by norm_num) (by norm_num)
  simpa using this

/-- **error of the stored value**: for `2^-125 ≤ |q| ≤ 2^127` the value stored is within `|q| * 2^-23` of `q`
    (`2^-53` from the binary64 division, `2^-24` from the binary32 storage) and does not overflow -/
theorem storeF32_close (q : ℚ) (h1 : pow2 (-125) ≤ |q|) (h2 : |q| ≤ pow2 127) :
    ∃ x, storeF32 q = some x ∧ |x - q| ≤ |q| * pow2 (-23) := by
  have hq0 : 0 < |q| := lt_of_lt_of_le (pow2_pos _) h1
  set y := roundBin 53 (-1074) q with hy
  have hy1 : |y - q| ≤ |q| * pow2 (-53) := by
    apply roundBin_rel
    refine le_trans (pow2_mono ?_) h1
    norm_num
  have hyabs_le : |y| ≤ |q| * (1 + pow2 (-53)) := by
    have : |y| ≤ |y - q| + |q| := by
      have := abs_add_le (y - q) q
      simpa using this
    linarith
  have hyabs_ge : |q| * (1 - pow2 (-53)) ≤ |y| := by
    have : |q| ≤ |q - y| + |y| := by
      have := abs_add_le (q - y) y
      simpa using this
    rw [abs_sub_comm] at this
    linarith
  -- numeric facts
  have n53 : pow2 (-53) ≤ 1 / 2 := by rw [pow2_eq]; norm_num
  have n24 : pow2 (-24) ≤ 1 / 2 := by rw [pow2_eq]; norm_num
  have n53pos := pow2_pos (-53)
  have n24pos := pow2_pos (-24)
  have hy_lt : |y| < pow2 1024 := by
    have : |q| * (1 + pow2 (-53)) ≤ pow2 127 * 2 := by
      have : 1 + pow2 (-53) ≤ 2 := by linarith
      exact mul_le_mul h2 this (by linarith) (le_of_lt (pow2_pos _))
    have h128 : pow2 127 * 2 = pow2 128 := (pow2_succ 127).symm
    have : |y| ≤ pow2 128 := by linarith
    exact lt_of_le_of_lt this (pow2_lt (by norm_num))
  have hy_norm : pow2 (-149 + ((24 : ℕ) : ℤ) - 1) ≤ |y| := by
    have e : (-149 + ((24 : ℕ) : ℤ) - 1) = -126 := by norm_num
    rw [e]
    have : pow2 (-126) * 2 = pow2 (-125) := (pow2_succ (-126)).symm
    have h3 : pow2 (-125) * (1 - pow2 (-53)) ≤ |q| * (1 - pow2 (-53)) :=
      mul_le_mul_of_nonneg_right h1 (by linarith)
    have h4 : pow2 (-126) ≤ pow2 (-125) * (1 - pow2 (-53)) := by
      rw [← this]
      have := pow2_pos (-126)
      nlinarith
    linarith
  set x := roundBin 24 (-149) y with hx
  have hx1 : |x - y| ≤ |y| * pow2 (-24) := roundBin_rel 24 (-149) y hy_norm
  have hx_lt : |x| < pow2 128 := by
    have h5 : |x| ≤ |x - y| + |y| := by
      have := abs_add_le (x - y) y
      simpa using this
    have h6 : |x| ≤ |y| * (1 + pow2 (-24)) := by linarith
    have h7 : |y| * (1 + pow2 (-24)) ≤ |q| * (1 + pow2 (-53)) * (1 + pow2 (-24)) :=
      mul_le_mul_of_nonneg_right hyabs_le (by linarith)
    have h8 : (1 + pow2 (-53)) * (1 + pow2 (-24)) < 2 := by
      rw [pow2_eq, pow2_eq]; norm_num
    have h9 : |q| * (1 + pow2 (-53)) * (1 + pow2 (-24)) < pow2 127 * 2 := by
      rw [mul_assoc]
      exact mul_lt_mul' h2 h8 (by positivity) (pow2_pos _)
    have h128 : pow2 127 * 2 = pow2 128 := (pow2_succ 127).symm
    linarith
  refine ⟨x, ?_, ?_⟩
  · unfold storeF32
    rw [f64?_eq, ← hy, if_neg (not_le.mpr hy_lt)]
    simp only [Option.bind_some]
    rw [f32?_eq, ← hx, if_neg (not_le.mpr hx_lt)]
  · have h5 : |x - q| ≤ |x - y| + |y - q| := by
      have := abs_add_le (x - y) (y - q)
      simpa using this
    have h6 : |y| * pow2 (-24) ≤ |q| * (1 + pow2 (-53)) * pow2 (-24) :=
      mul_le_mul_of_nonneg_right hyabs_le (le_of_lt n24pos)
    have h7 : (1 + pow2 (-53)) * pow2 (-24) + pow2 (-53) ≤ pow2 (-23) := by
      rw [pow2_eq, pow2_eq, pow2_eq]; norm_num
    have h8 : |q| * ((1 + pow2 (-53)) * pow2 (-24) + pow2 (-53)) ≤ |q| * pow2 (-23) :=
      mul_le_mul_of_nonneg_left h7 (le_of_lt hq0)
    nlinarith

end C13Float
