/-
C08 (round 5) — helper lemmas for the score attributes of an snote line (Model/MatchAttr.lean).
-/
import PartituraModel.Model.MatchAttr
import PartituraModel.Proofs.C07Codec

namespace C08A
open Model Model.MatchCodec Model.MatchAttr

/-- an attribute the voice / staff / tie readers pass over -/
def Quiet (a : Str) : Prop :=
  a ≠ sS ∧ sStaff.isPrefixOf a = false ∧ vnumberMatch a = false ∧ digitPrefix a = false ∧ a ≠ sStac ∧ a ≠ sTied

/-- a name a score note may carry as an articulation / ornament without being mistaken for something else -/
def plain (a : Str) : Bool :=
  a != sS && !sStaff.isPrefixOf a && !vnumberMatch a && !digitPrefix a && a != sStac && a != sTied && a != sGrace

theorem plain_quiet {a : Str} (h : plain a = true) : Quiet a ∧ a ≠ sGrace := by
  unfold plain at h
  simp only [Bool.and_eq_true, bne_iff_ne, ne_eq, Bool.not_eq_true'] at h
  obtain ⟨⟨⟨⟨⟨⟨h1, h2⟩, h3⟩, h4⟩, h5⟩, h6⟩, h7⟩ := h
  exact ⟨⟨h1, h2, h3, h4, h5, h6⟩, h7⟩

theorem showNatS_head (k : Nat) : ∃ c r, showNatS k = c :: r ∧ c.isDigit = true := by
  cases h : showNatS k with
  | nil => exact absurd h (C07Codec.showNatS_ne_nil k)
  | cons c r => exact ⟨c, r, rfl, C07Codec.showNatS_isDigit k c (by rw [h]; simp)⟩

theorem pyInt_showNatS (k : Nat) : pyInt (showNatS k) = some k := by
  unfold pyInt
  rw [C07Codec.allDigits_showNatS, C07Codec.digitsVal_showNatS]
  rfl

/-- anything that starts with `f` (fermata, fingering<k>) is quiet and is none of the names the reader looks for -/
theorem quiet_f (r : Str) : Quiet ('f' :: r) ∧ ('f' :: r) ≠ sStaccato ∧ ('f' :: r) ≠ sAccent ∧ ('f' :: r) ≠ sGrace := by
  refine ⟨⟨?_, ?_, ?_, ?_, ?_, ?_⟩, ?_, ?_, ?_⟩ <;>
    simp [sS, sStaff, vnumberMatch, digitPrefix, sStac, sTied, sStaccato, sAccent, sGrace, List.isPrefixOf]

theorem quiet_grace : Quiet sGrace ∧ sGrace ≠ sStaccato ∧ sGrace ≠ sAccent := by
  refine ⟨⟨?_, ?_, ?_, ?_, ?_, ?_⟩, ?_, ?_⟩ <;> decide

theorem quiet_diff : Quiet sDiff ∧ sDiff ≠ sStaccato ∧ sDiff ≠ sAccent ∧ sDiff ≠ sGrace := by
  refine ⟨⟨?_, ?_, ?_, ?_, ?_, ?_⟩, ?_, ?_, ?_⟩ <;> decide

theorem quiet_overlap : Quiet sOverlap ∧ sOverlap ≠ sStaccato ∧ sOverlap ≠ sAccent ∧ sOverlap ≠ sGrace := by
  refine ⟨⟨?_, ?_, ?_, ?_, ?_, ?_⟩, ?_, ?_, ?_⟩ <;> decide

/-- the marks: quiet, never `staccato` / `accent`, and `grace` only for a grace note -/
theorem marks_spec (n : ScoreNote) : ∀ a ∈ marks n,
    Quiet a ∧ a ≠ sStaccato ∧ a ≠ sAccent ∧ (a = sGrace → n.grace = true) := by
  intro a ha
  unfold marks at ha
  simp only [List.mem_append, List.mem_map] at ha
  rcases ha with h | ⟨f, _, rfl⟩ | h | h | h
  · split at h
    · simp only [List.mem_singleton] at h; subst h
      obtain ⟨q, h1, h2, h3⟩ := quiet_f ['e', 'r', 'm', 'a', 't', 'a']
      exact ⟨q, h1, h2, fun e => absurd e h3⟩
    · simp at h
  · obtain ⟨q, h1, h2, h3⟩ := quiet_f (['i', 'n', 'g', 'e', 'r', 'i', 'n', 'g'] ++ showNatS f)
    exact ⟨q, h1, h2, fun e => absurd e h3⟩
  · split at h
    · rename_i hg
      simp only [List.mem_singleton] at h; subst h
      exact ⟨quiet_grace.1, quiet_grace.2.1, quiet_grace.2.2, fun _ => hg⟩
    · simp at h
  · split at h
    · simp only [List.mem_singleton] at h; subst h
      obtain ⟨q, h1, h2, h3⟩ := quiet_diff
      exact ⟨q, h1, h2, fun e => absurd e h3⟩
    · simp at h
  · split at h
    · simp only [List.mem_singleton] at h; subst h
      obtain ⟨q, h1, h2, h3⟩ := quiet_overlap
      exact ⟨q, h1, h2, fun e => absurd e h3⟩
    · simp at h

theorem grace_mem_marks (n : ScoreNote) (h : n.grace = true) : sGrace ∈ marks n := by
  unfold marks
  simp [h]

/-- the voice attribute `v<k>` -/
theorem vattr_spec (k : Nat) :
    (sV ++ showNatS k) ≠ sS ∧ sStaff.isPrefixOf (sV ++ showNatS k) = false ∧ vnumberMatch (sV ++ showNatS k) = true
    ∧ sV.isPrefixOf (sV ++ showNatS k) = true
    ∧ (sV ++ showNatS k) ≠ sStaccato ∧ (sV ++ showNatS k) ≠ sStac ∧ (sV ++ showNatS k) ≠ sAccent
    ∧ (sV ++ showNatS k) ≠ sTied ∧ (sV ++ showNatS k) ≠ sGrace
    ∧ pyInt ((sV ++ showNatS k).drop 1) = some k := by
  obtain ⟨c, r, hc, hd⟩ := showNatS_head k
  refine ⟨?_, ?_, ?_, ?_, ?_, ?_, ?_, ?_, ?_, ?_⟩
  all_goals try (simp [sV, sS, sStaff, sStaccato, sStac, sAccent, sGrace, List.isPrefixOf]; done)
  · simp [sV, vnumberMatch, hc, digitPrefix, hd]
  · simp [sV, sTied]
  · simp only [sV, List.singleton_append, List.drop_succ_cons, List.drop_zero]
    exact pyInt_showNatS k

/-- the staff attribute `staff<k>` -/
theorem sattr_spec (k : Nat) :
    (sStaff ++ showNatS k) ≠ sS ∧ sStaff.isPrefixOf (sStaff ++ showNatS k) = true
    ∧ vnumberMatch (sStaff ++ showNatS k) = false ∧ sV.isPrefixOf (sStaff ++ showNatS k) = false
    ∧ digitPrefix (sStaff ++ showNatS k) = false
    ∧ (sStaff ++ showNatS k) ≠ sStaccato ∧ (sStaff ++ showNatS k) ≠ sStac ∧ (sStaff ++ showNatS k) ≠ sAccent
    ∧ (sStaff ++ showNatS k) ≠ sTied ∧ (sStaff ++ showNatS k) ≠ sGrace
    ∧ pyInt ((sStaff ++ showNatS k).drop 5) = some k := by
  refine ⟨?_, ?_, ?_, ?_, ?_, ?_, ?_, ?_, ?_, ?_, ?_⟩
  all_goals try (simp [sV, sS, sStaff, sStaccato, sStac, sAccent, sGrace, vnumberMatch, digitPrefix, List.isPrefixOf]; done)
  · simp [sStaff, sTied]
  · simp only [sStaff, List.cons_append, List.nil_append, List.drop_succ_cons, List.drop_zero]
    exact pyInt_showNatS k

end C08A
