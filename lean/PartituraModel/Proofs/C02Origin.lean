/-
C02 helper lemmas (round 2): the elapsed sum does not depend on redundant key points
(first / last time points of the part), sorted key lists are determined by their members.
-/
import PartituraModel.Model.TimeMapHist
import PartituraModel.Proofs.C02Exact
import PartituraModel.Proofs.C02Args

namespace C02Proofs
open Model.TimeMap

theorem overlap_split {a b u w v : Rat} (h1 : u ≤ w) (h2 : w ≤ v) :
    overlap a b u v = overlap a b u w + overlap a b w v := by
  unfold overlap
  rcases le_total b w with hbw | hwb
  · -- nothing of [a, b] lies right of w
    have e1 : min b v = b := min_eq_left (le_trans hbw h2)
    have e2 : min b w = b := min_eq_left hbw
    have e3 : max 0 (b - max a w) = 0 := max_eq_left (by have := le_max_right a w; linarith)
    rw [e1, e2, e3]; ring
  · rcases le_total a w with haw | hwa
    · have e2 : min b w = w := min_eq_right hwb
      have e4 : max a w = w := max_eq_right haw
      have hm : max a u ≤ w := max_le haw h1
      have hv : w ≤ min b v := le_min hwb h2
      rw [e2, e4, max_eq_right (by linarith : (0 : Rat) ≤ w - max a u),
        max_eq_right (by linarith : (0 : Rat) ≤ min b v - w), max_eq_right (by linarith : (0 : Rat) ≤ min b v - max a u)]
      ring
    · -- nothing of [a, b] lies left of w
      have e4 : max a w = a := max_eq_left hwa
      have e5 : max a u = a := max_eq_left (le_trans h1 hwa)
      have e3 : max 0 (min b w - a) = 0 := max_eq_left (by have := min_le_right b w; linarith)
      rw [e4, e5, e3]; ring

-- ------------------------------------------------------------------ sorted lists

theorem insertKey_of_mem (t : Int) : ∀ l : List Int, l.Pairwise (· < ·) → t ∈ l → insertKey t l = l
  | [], _, h => by simp at h
  | a :: as, hp, h => by
    unfold insertKey
    have hp' := List.pairwise_cons.mp hp
    rcases List.mem_cons.mp h with h | h
    · subst h; simp
    · have : a < t := hp'.1 t h
      rw [if_neg (by omega), if_neg (by omega), insertKey_of_mem t as hp'.2 h]

theorem sorted_ext : ∀ (l1 l2 : List Int), l1.Pairwise (· < ·) → l2.Pairwise (· < ·) →
    (∀ x, x ∈ l1 ↔ x ∈ l2) → l1 = l2
  | [], [], _, _, _ => rfl
  | [], b :: bs, _, _, h => by have := (h b).mpr List.mem_cons_self; simp at this
  | a :: as, [], _, _, h => by have := (h a).mp List.mem_cons_self; simp at this
  | a :: as, b :: bs, h1, h2, h => by
    have p1 := List.pairwise_cons.mp h1
    have p2 := List.pairwise_cons.mp h2
    have hab : a = b := by
      have m1 := (h a).mp List.mem_cons_self
      have m2 := (h b).mpr List.mem_cons_self
      rcases List.mem_cons.mp m1 with e | e
      · exact e
      · rcases List.mem_cons.mp m2 with e' | e'
        · exact e'.symm
        · have := p2.1 a e
          have := p1.1 b e'
          omega
    subst hab
    congr 1
    apply sorted_ext as bs p1.2 p2.2
    intro x
    constructor
    · intro hx
      have := (h x).mp (List.mem_cons_of_mem _ hx)
      rcases List.mem_cons.mp this with e | e
      · have := p1.1 x hx; omega
      · exact e
    · intro hx
      have := (h x).mpr (List.mem_cons_of_mem _ hx)
      rcases List.mem_cons.mp this with e | e
      · have := p2.1 x hx; omega
      · exact e

-- ------------------------------------------------------------------ inserting a redundant key point

/-- a key time at which neither a quarter duration nor a beat factor is assigned, inserted after key
point `kp`, does not change the elapsed sum (as long as the interval ends inside the old key range, or the
new key does) -/
theorem elapsed_insert_aux (qd fs : List (Int × Rat)) (t : Int)
    (hq : lastAssoc qd t = none) (hf : lastAssoc fs t = none) :
    ∀ (rest : List Int) (kp : KP) (a b : Rat), kp.t < t → (kp.t :: rest).Pairwise (· < ·) →
      (b ≤ ((lastOf (kp.t :: rest) : Int) : Rat) ∨ t ≤ lastOf (kp.t :: rest)) →
      elapsed (kp :: carry qd fs (insertKey t rest) kp.divs kp.fac) a b =
        elapsed (kp :: carry qd fs rest kp.divs kp.fac) a b
  | [], kp, a, b, hkt, _, hr => by
    have hb : b ≤ (kp.t : Rat) := by
      rcases hr with hr | hr
      · simpa [lastOf] using hr
      · simp only [lastOf] at hr; omega
    have hkt' : (kp.t : Rat) ≤ (t : Rat) := by exact_mod_cast hkt.le
    simp only [insertKey, carry, elapsed]
    rw [overlap_of_le_left hb hkt']
    ring
  | k2 :: rest2, kp, a, b, hkt, hp, hr => by
    have hp' := List.pairwise_cons.mp hp
    have hk2 : kp.t < k2 := hp'.1 k2 List.mem_cons_self
    unfold insertKey
    by_cases h1 : t < k2
    · rw [if_pos h1]
      simp only [carry, elapsed, hq, hf]
      have e1 : ((kp.t : Int) : Rat) ≤ (t : Rat) := by exact_mod_cast hkt.le
      have e2 : ((t : Int) : Rat) ≤ (k2 : Rat) := by exact_mod_cast h1.le
      rw [overlap_split (a := a) (b := b) e1 e2]
      ring
    · rw [if_neg h1]
      by_cases h2 : t = k2
      · rw [if_pos h2]
      · rw [if_neg h2]
        have hr' : b ≤ ((lastOf (k2 :: rest2) : Int) : Rat) ∨ t ≤ lastOf (k2 :: rest2) := by
          simpa [lastOf] using hr
        simp only [carry, elapsed]
        congr 1
        exact elapsed_insert_aux qd fs t hq hf rest2 _ a b (by simp only; omega) hp'.2 hr'

theorem elapsed_insert_tail (qd fs : List (Int × Rat)) (t : Int)
    (hq : lastAssoc qd t = none) (hf : lastAssoc fs t = none)
    (rest : List Int) (k : Int) (cd cb a b : Rat) (hkt : k < t) (hp : (k :: rest).Pairwise (· < ·))
    (hr : b ≤ ((lastOf (k :: rest) : Int) : Rat) ∨ t ≤ lastOf (k :: rest)) :
    elapsed (carry qd fs (k :: insertKey t rest) cd cb) a b = elapsed (carry qd fs (k :: rest) cd cb) a b := by
  simp only [carry]
  exact elapsed_insert_aux qd fs t hq hf rest
    ⟨k, match lastAssoc qd k with | some q => q | none => cd,
        match lastAssoc fs k with | some f => f | none => cb⟩ a b hkt hp hr

theorem head?_insertKey_of_lt (t k : Int) (rest : List Int) (h : k < t) :
    insertKey t (k :: rest) = k :: insertKey t rest := by
  simp only [insertKey, if_neg (by omega : ¬ t < k), if_neg (by omega : ¬ t = k)]

/-- inserting any key time that is already present, or is unassigned and not before the head -/
theorem elapsed_insertKey (qd fs : List (Int × Rat)) (keys : List Int) (t0 t : Int)
    (hp : keys.Pairwise (· < ·)) (hh : keys.head? = some t0) (ht0 : t0 ≤ t)
    (hun : t ∉ keys → lastAssoc qd t = none ∧ lastAssoc fs t = none) (a b : Rat)
    (hr : b ≤ ((lastOf keys : Int) : Rat) ∨ t ≤ lastOf keys) :
    elapsed (carry qd fs (insertKey t keys) 1 1) a b = elapsed (carry qd fs keys 1 1) a b ∧
    (insertKey t keys).head? = some t0 ∧ (insertKey t keys).Pairwise (· < ·) := by
  by_cases hm : t ∈ keys
  · rw [insertKey_of_mem t keys hp hm]; exact ⟨rfl, hh, hp⟩
  · obtain ⟨hq, hf⟩ := hun hm
    cases keys with
    | nil => simp at hh
    | cons k rest =>
      simp only [List.head?_cons, Option.some.injEq] at hh
      subst hh
      have hlt : k < t := by
        rcases lt_or_eq_of_le ht0 with h | h
        · exact h
        · exact absurd (by rw [← h]; exact List.mem_cons_self) hm
      rw [head?_insertKey_of_lt t k rest hlt]
      refine ⟨elapsed_insert_tail qd fs t hq hf rest k 1 1 a b hlt hp hr, rfl, ?_⟩
      rw [← head?_insertKey_of_lt t k rest hlt]
      exact pairwise_insertKey t _ hp

end C02Proofs
