/-
Helper lemmas for C17 (binary64 steps of ps13): the binary64 evaluation of compute_morphetic_pitch and of
p2pn's quotient agrees with the exact one on the whole MIDI range (kernel-evaluated tables), lifted to
stage 1 and to ps13.
-/
import PartituraModel.Model.C17Float
import PartituraModel.Proofs.C17Key
import PartituraModel.Proofs.C17Ps13
import PartituraModel.Proofs.C17Acc

namespace C17F
open Model Model.Ps13 Model.C17Float

/-- `Ps13.morpheticPitch c m` for the 12 chromas and 7 morphs (octave 0), as numbers -/
def octTab : List (List Int) :=
  [[0, 1, 2, 3, -3, -2, -1], [0, 1, 2, 3, 4, -2, -1], [0, 1, 2, 3, 4, -2, -1], [0, 1, 2, 3, 4, 5, -1],
   [0, 1, 2, 3, 4, 5, -1], [0, 1, 2, 3, 4, 5, 6], [0, 1, 2, 3, 4, 5, 6], [7, 1, 2, 3, 4, 5, 6],
   [7, 8, 2, 3, 4, 5, 6], [7, 8, 2, 3, 4, 5, 6], [7, 8, 9, 3, 4, 5, 6], [7, 8, 9, 3, 4, 5, 6]]

def tabAt (c m : Nat) : Int := (octTab.getD c []).getD m 0

/-- WHOLE table (12 chromas x 7 morphs): the exact model, evaluated by the kernel -/
theorem exact_table : ((List.range 12).all fun c => (List.range 7).all fun m =>
    morpheticPitch (c : Int) (m : Int) == tabAt c m) = true := by
  decide +kernel

/-- WHOLE table (chromatic pitches -21 .. 106, i.e. MIDI 0 .. 127, x 7 morphs): the binary64 evaluation, operation by
    operation, evaluated by the kernel: the octave-0 value plus 7 per octave -/
theorem float_table : ((List.range 128).all fun c => (List.range 7).all fun m =>
    morpheticPitchF ((c : Int) - 21) (m : Int) ==
      tabAt (((c : Int) - 21) % 12).toNat m + 7 * (((c : Int) - 21) / 12)) = true := by
  decide +kernel

/-- WHOLE table: `np.floor(m_pitch / 7.0)` is the integer floor division for every morphetic pitch -42 .. 97 -/
theorem morphOctave_table' : ((List.range 140).all fun k =>
    morphOctave ((k : Int) - 42) == ((k : Int) - 42) / 7) = true := by
  decide +kernel

theorem morphOctave_table (k : Nat) (hk : k < 140) : morphOctave ((k : Int) - 42) = ((k : Int) - 42) / 7 := by
  have := morphOctave_table'
  rw [List.all_eq_true] at this
  simpa using this k (List.mem_range.mpr hk)

theorem morpheticPitchF_eq (cp : Int) (m : Nat) (h0 : -21 ≤ cp) (h1 : cp ≤ 106) (hm : m < 7) :
    morpheticPitchF cp (m : Int) = morpheticPitch cp (m : Int) := by
  have hf := float_table
  have he := exact_table
  rw [List.all_eq_true] at hf he
  have hf1 := hf (cp + 21).toNat (List.mem_range.mpr (by omega))
  have he1 := he (cp % 12).toNat (List.mem_range.mpr (by omega))
  rw [List.all_eq_true] at hf1 he1
  have hf2 := hf1 m (List.mem_range.mpr hm)
  have he2 := he1 m (List.mem_range.mpr hm)
  have e : (((cp + 21).toNat : Nat) : Int) - 21 = cp := by omega
  have e' : (((cp % 12).toNat : Nat) : Int) = cp % 12 := by omega
  rw [beq_iff_eq, e] at hf2
  rw [beq_iff_eq, e'] at he2
  rw [hf2, C17P.morpheticPitch_shift cp m, he2]

/-- the morphetic pitch is within an octave of the chromatic one: morph + 7·(⌊cp/12⌋ + {0, 1, -1}) -/
theorem morpheticPitch_range (cp : Int) (m : Nat) (h0 : -21 ≤ cp) (h1 : cp ≤ 106) (hm : m < 7) :
    -42 ≤ morpheticPitch cp (m : Int) ∧ morpheticPitch cp (m : Int) ≤ 97 := by
  unfold morpheticPitch morpheticPitchOf
  dsimp only
  generalize argBestNE _ _ _ = k
  have : -2 ≤ cp / 12 ∧ cp / 12 ≤ 8 := by omega
  constructor <;> (split <;> [skip; split]) <;> omega

theorem p2pnF_eq (c mp : Int) (h0 : -42 ≤ mp) (h1 : mp ≤ 97) : p2pnF c mp = p2pn c mp := by
  have := morphOctave_table (mp + 42).toNat (by omega)
  have e : (((mp + 42).toNat : Nat) : Int) - 42 = mp := by omega
  simp only [e] at this
  simp only [p2pnF, p2pn, this]

theorem morphOf_lt (c0 cj : Int) (v : CVec) : morphOf c0 cj v < 7 := by
  unfold morphOf argBestNE
  have := C17K.argBestAux_lt (fun a b : Int => decide (a > b)) ((List.range' 1 6).map (strength c0 cj v)) 1 0
    (strength c0 cj v 0) (by omega)
  simpa using this

theorem mem_morphArray (c0 : Nat) (ch : List Nat) (vecs : List CVec) (m : Nat) (h : m ∈ morphArray c0 ch vecs) :
    m < 7 := by
  unfold morphArray at h
  rw [List.mem_iff_getElem] at h
  obtain ⟨i, hi, rfl⟩ := h
  simp only [List.getElem_zipWith]
  exact morphOf_lt _ _ _

/-- pointwise agreement of two `zipWith`s on the pairs that occur -/
theorem zipWith_congr_mem {α β γ : Type} (f g : α → β → γ) : ∀ (l : List α) (r : List β),
    (∀ a ∈ l, ∀ b ∈ r, f a b = g a b) → List.zipWith f l r = List.zipWith g l r
  | [], _, _ => by simp
  | _ :: _, [], _ => by simp
  | a :: l, b :: r, h => by
    simp only [List.zipWith_cons_cons]
    rw [h a (by simp) b (by simp), zipWith_congr_mem f g l r (fun a' ha b' hb => h a' (by simp [ha]) b' (by simp [hb]))]

/-- stage 1 with the binary64 steps IS stage 1 over exact rationals when every pitch is a MIDI pitch -/
theorem stage1F_eq (a b : Nat) (sorted : List Row) (hr : ∀ r ∈ sorted, 0 ≤ r.2 ∧ r.2 ≤ 127) :
    stage1F a b sorted = stage1 a b sorted := by
  unfold stage1F stage1
  apply zipWith_congr_mem
  intro c hc m hm
  have hm7 := mem_morphArray _ _ _ m hm
  simp only [List.mem_map] at hc
  obtain ⟨r, hrm, rfl⟩ := hc
  have := hr r hrm
  rw [morpheticPitchF_eq _ m (by omega) (by omega) hm7]
  obtain ⟨l, u⟩ := morpheticPitch_range (r.2 - 21) m (by omega) (by omega) hm7
  exact p2pnF_eq _ _ l u

theorem ps13F_eq (a b : Nat) (notes : List Row) (hr : ∀ r ∈ notes, 0 ≤ r.2 ∧ r.2 ≤ 127) :
    ps13F a b notes = ps13 a b notes := by
  unfold ps13F ps13
  split
  · rfl
  · dsimp only
    rw [stage1F_eq]
    intro r hrm
    exact hr r ((C17P.sortedRows_perm notes).mem_iff.mp hrm)

end C17F
