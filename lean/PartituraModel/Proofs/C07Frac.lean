/-
C07 — fractional symbolic durations with additive components (`1/4+1/8/3+3`): the string round trip and
the formatting fixpoint; time signatures; quoted pre-1.0 strings; tempo indication; integer lists.
-/
import PartituraModel.Model.MatchCodec
import PartituraModel.Proofs.C07Codec

open Model.MatchCodec

namespace C07Codec

-- ---------------------------------------------------------------- splitting

theorem mem_splitOn (sep c : Char) (hc : c ≠ sep) : ∀ (s : List Char), c ∈ s → ∃ p ∈ splitOn sep s, c ∈ p := by
  intro s
  induction s with
  | nil => intro h; simp at h
  | cons d s ih =>
    intro h
    unfold splitOn
    by_cases hd : d = sep
    · simp only [hd, if_true]
      have hcs : c ∈ s := by
        rcases List.mem_cons.mp h with e | h'
        · exact absurd (e.trans hd) hc
        · exact h'
      obtain ⟨p, hp, hcp⟩ := ih hcs
      exact ⟨p, by simp [hp], hcp⟩
    · simp only [hd, if_false]
      rcases List.mem_cons.mp h with e | h'
      · subst e
        cases hs : splitOn sep s with
        | nil => exact ⟨[c], by simp, by simp⟩
        | cons x xs => exact ⟨c :: x, by simp, by simp⟩
      · obtain ⟨p, hp, hcp⟩ := ih h'
        cases hs : splitOn sep s with
        | nil => rw [hs] at hp; simp at hp
        | cons x xs =>
          rw [hs] at hp
          rcases List.mem_cons.mp hp with e | hp'
          · subst e; exact ⟨d :: p, by simp, by simp [hcp]⟩
          · exact ⟨p, by simp [hp'], hcp⟩

theorem allDigits_false_of_mem (p : List Char) (c : Char) (hc : c.isDigit = false) (h : c ∈ p) : allDigits p = false := by
  unfold allDigits
  have : p.all Char.isDigit = false := by
    rw [List.all_eq_false]
    exact ⟨c, h, by simp [hc]⟩
  simp [this]

/-- a text that contains `+` is not a simple duration -/
theorem fracSimple_none_of_plus (s : List Char) (h : '+' ∈ s) : fracSimple s = none := by
  obtain ⟨p, hp, hcp⟩ := mem_splitOn '/' '+' (by decide) s h
  have hf := allDigits_false_of_mem p '+' (by decide) hcp
  unfold fracSimple
  split
  · rename_i n hn
    rw [hn] at hp
    simp only [List.mem_singleton] at hp
    subst hp
    simp [hf]
  · rename_i n d hn
    rw [hn] at hp
    simp only [List.mem_cons, List.not_mem_nil, or_false] at hp
    rcases hp with e | e <;> subst e <;> simp [hf]
  · rename_i n d t hn
    rw [hn] at hp
    simp only [List.mem_cons, List.not_mem_nil, or_false] at hp
    rcases hp with e | e | e <;> subst e <;> simp [hf]
  · rfl

theorem fracStr1_chars (n d : Nat) (t : Option Nat) : ∀ c ∈ fracStr1 n d t, c.isDigit = true ∨ c = '/' := by
  intro c hc
  unfold fracStr1 at hc
  cases t with
  | none =>
    simp only at hc
    split at hc
    · exact Or.inl (showNatS_isDigit n c hc)
    · simp only [List.mem_append, List.mem_cons] at hc
      rcases hc with h | h | h
      · exact Or.inl (showNatS_isDigit n c h)
      · exact Or.inr h
      · exact Or.inl (showNatS_isDigit d c h)
  | some t =>
    simp only [List.mem_append, List.mem_cons] at hc
    rcases hc with (h | h | h) | h | h
    · exact Or.inl (showNatS_isDigit n c h)
    · exact Or.inr h
    · exact Or.inl (showNatS_isDigit d c h)
    · exact Or.inr h
    · exact Or.inl (showNatS_isDigit t c h)

theorem fracStr1_no_plus (n d : Nat) (t : Option Nat) : ∀ c ∈ fracStr1 n d t, c ≠ '+' := by
  intro c hc e
  subst e
  rcases fracStr1_chars n d t '+' hc with h | h
  · exact absurd h (by decide)
  · exact absurd h (by decide)

theorem fracStr1_ne_nil (n d : Nat) (t : Option Nat) : fracStr1 n d t ≠ [] := by
  unfold fracStr1
  cases t with
  | none =>
    simp only
    split
    · exact showNatS_ne_nil n
    · intro h
      have := congrArg List.length h
      simp at this
  | some t =>
    intro h
    have := congrArg List.length h
    simp at this

-- ---------------------------------------------------------------- additive durations

abbrev Comp := Nat × Nat × Option Nat

def compStr (c : Comp) : List Char := fracStr1 c.1 c.2.1 c.2.2
def compFrac (c : Comp) : Frac := { num := c.1, den := c.2.1, tdiv := c.2.2, add := none }

/-- a component as the class keeps it: non-zero numerator, numbers within the bound, non-zero denominator -/
def CompOK (c : Comp) : Prop := c.1 ≠ 0 ∧ c.1 ≤ BOUND ∧ c.2.1 ≤ BOUND ∧ (compFrac c).fullDen ≠ 0

/-- the interpreter of one `+`-separated part (the local function `one` of `fracFromString`) -/
def oneF (x : List Char) : Except DecErr Frac :=
  match fracSimple x with
  | none => .error .value
  | some (n, d, t) => match Frac.mk? n d t with
    | some f => .ok f
    | none => .error .unmodelled

theorem fracFromString_eq (s : List Char) : fracFromString s =
    match fracSimple s with
    | some (n, d, t) => (match Frac.mk? n d t with | some f => .ok f | none => .error .unmodelled)
    | none =>
      if (splitOn '+' s).length > 1 then do
        let ps ← (splitOn '+' s).mapM oneF
        if ps.any (fun p => p.fullDen = 0) then .error .value else fracSum ps
      else .error .value := rfl

theorem oneF_compStr (c : Comp) (h : CompOK c) : oneF (compStr c) = .ok (compFrac c) := by
  obtain ⟨n, d, t⟩ := c
  obtain ⟨_, hn, hd, _⟩ := h
  simp only at hn hd
  unfold oneF compStr
  simp only
  rw [fracSimple_str1 n d t (fun _ _ => trivial)]
  unfold BOUND at hn hd
  have h1 : ¬ (1024 < n) := by omega
  have h2 : ¬ (1024 < d) := by omega
  by_cases h : t = none ∧ d = 1
  · obtain ⟨rfl, rfl⟩ := h
    simp [Frac.mk?, BOUND, h1, compFrac]
  · simp only [h, if_false]
    simp [Frac.mk?, BOUND, h1, h2, compFrac]

theorem mapM_oneF (cs : List Comp) (h : ∀ c ∈ cs, CompOK c) :
    (cs.map compStr).mapM oneF = .ok (cs.map compFrac) := by
  induction cs with
  | nil => rfl
  | cons c cs ih =>
    simp only [List.map_cons, List.mapM_cons, oneF_compStr c (h c (by simp)),
      ih (fun d hd => h d (by simp [hd])), bind, Except.bind, pure, Except.pure]

theorem plus_mem_join (cs : List Comp) (h2 : 2 ≤ cs.length) : '+' ∈ joinWith ['+'] (cs.map compStr) := by
  cases cs with
  | nil => simp at h2
  | cons a cs =>
    cases cs with
    | nil => simp at h2
    | cons b cs => simp [joinWith]

/-- the text of an additive duration -/
def compsStr (cs : List Comp) : List Char := joinWith ['+'] (cs.map compStr)

/-- **reading an additive duration**: the text `c₁+c₂+…` (two or more well-formed components) is read as the
    left-to-right sum of the components -/
theorem fracFromString_compsStr (cs : List Comp) (h2 : 2 ≤ cs.length) (hc : ∀ c ∈ cs, CompOK c) :
    fracFromString (compsStr cs) = fracSum (cs.map compFrac) := by
  rw [fracFromString_eq]
  unfold compsStr
  rw [fracSimple_none_of_plus _ (plus_mem_join cs h2)]
  simp only
  have hsplit : splitOn '+' (joinWith ['+'] (cs.map compStr)) = cs.map compStr := by
    apply splitOn_joinWith
    · intro e
      rw [List.map_eq_nil_iff] at e
      subst e
      simp at h2
    · intro x hx c hcx
      simp only [List.mem_map] at hx
      obtain ⟨cc, _, rfl⟩ := hx
      exact fracStr1_no_plus _ _ _ c hcx
  rw [hsplit]
  have hlen : (cs.map compStr).length > 1 := by simp; omega
  simp only [hlen, if_true, mapM_oneF cs hc, bind, Except.bind]
  have hany : (cs.map compFrac).any (fun p => p.fullDen = 0) = false := by
    rw [List.any_eq_false]
    intro p hp
    simp only [List.mem_map] at hp
    obtain ⟨c, hcm, rfl⟩ := hp
    simpa using (hc c hcm).2.2.2
  simp only [hany, Bool.false_eq_true, if_false]

def nz (c : Comp) : Bool := c.1 != 0

theorem add?_comps (a b r : Frac) (h : Frac.add? a b = some r) :
    r.add = some ((a.comps ++ b.comps).filter nz) ∧ r.comps = (a.comps ++ b.comps).filter nz := by
  unfold Frac.add? at h
  simp only at h
  split at h
  · simp at h
  · split at h
    · simp at h
    · injection h with h
      subst h
      exact ⟨rfl, rfl⟩

def stepF (acc p : Frac) : Except DecErr Frac :=
  match Frac.add? acc p with
  | some r => .ok r
  | none => .error .unmodelled

theorem fracSum_eq (ps : List Frac) : fracSum ps = ps.foldlM stepF { num := 0, den := 1, tdiv := none, add := none } := rfl

/-- the sum keeps all non-zero components of the accumulator and of the parts, in order -/
theorem foldlM_comps : ∀ (ps : List Frac) (acc r : Frac), ps ≠ [] → ps.foldlM stepF acc = .ok r →
    r.add = some ((acc.comps ++ ps.flatMap Frac.comps).filter nz) := by
  intro ps
  induction ps with
  | nil => intro _ _ h; exact absurd rfl h
  | cons p ps ih =>
    intro acc r _ h
    simp only [List.foldlM_cons, bind, Except.bind] at h
    unfold stepF at h
    cases ha : Frac.add? acc p with
    | none => simp [ha] at h
    | some r1 =>
      simp only [ha] at h
      obtain ⟨h1, h2⟩ := add?_comps acc p r1 ha
      cases ps with
      | nil =>
        simp only [List.foldlM_nil, pure, Except.pure] at h
        injection h with h
        subst h
        simp [h1]
      | cons q qs =>
        have := ih r1 r (by simp) h
        rw [this, h2]
        simp only [List.flatMap_cons, List.filter_append, List.filter_filter, Bool.and_self, List.append_assoc]

theorem comps_compFrac (c : Comp) : (compFrac c).comps = [c] := rfl

theorem flatMap_comps (cs : List Comp) : (cs.map compFrac).flatMap Frac.comps = cs := by
  induction cs with
  | nil => rfl
  | cons c cs ih => simp [List.flatMap_cons, comps_compFrac, ih]

/-- the object read from `c₁+c₂+…` carries exactly these components -/
theorem fracSum_add (cs : List Comp) (h2 : 2 ≤ cs.length) (hc : ∀ c ∈ cs, CompOK c) (f : Frac)
    (h : fracSum (cs.map compFrac) = .ok f) : f.add = some cs := by
  rw [fracSum_eq] at h
  have hne : cs.map compFrac ≠ [] := by
    intro e
    rw [List.map_eq_nil_iff] at e
    subst e
    simp at h2
  have := foldlM_comps _ _ f hne h
  rw [this, flatMap_comps]
  have h0 : ({ num := 0, den := 1, tdiv := none, add := none } : Frac).comps = [(0, 1, none)] := rfl
  rw [h0]
  have hall : cs.filter nz = cs := by
    rw [List.filter_eq_self]
    intro c hcm
    have := (hc c hcm).1
    simpa [nz] using this
  simp [hall, nz]

/-- a duration as the class builds it: simple within the bound, or the sum of two or more well-formed
    components -/
def FracWF (f : Frac) : Prop :=
  match f.add with
  | none => f.num ≤ BOUND ∧ f.den ≤ BOUND
  | some cs => 2 ≤ cs.length ∧ (∀ c ∈ cs, CompOK c) ∧ fracSum (cs.map compFrac) = .ok f

/-- **string round trip of every duration** (simple, with tuple divisor, with additive components) -/
theorem fracFromString_toStr_full (f : Frac) (h : FracWF f) : fracFromString f.toStr = .ok f := by
  unfold FracWF at h
  cases ha : f.add with
  | none =>
    rw [ha] at h
    exact fracFromString_toStr f ha h.1 h.2
  | some cs =>
    rw [ha] at h
    simp only at h
    obtain ⟨h2, hc, hs⟩ := h
    have : f.toStr = compsStr cs := by
      unfold Frac.toStr compsStr
      rw [ha]
      rfl
    rw [this, fracFromString_compsStr cs h2 hc, hs]

-- ---------------------------------------------------------------- the fixpoint (from the parsing side)

theorem mapM_oneF_comps : ∀ (parts : List (List Char)) (ps : List Frac), parts.mapM oneF = .ok ps →
    ∀ p ∈ ps, p.add = none ∧ p.num ≤ BOUND ∧ p.den ≤ BOUND := by
  intro parts
  induction parts with
  | nil =>
    intro ps h p hp
    simp only [List.mapM_nil, pure, Except.pure] at h
    injection h with h
    subst h
    simp at hp
  | cons x xs ih =>
    intro ps h p hp
    simp only [List.mapM_cons, bind, Except.bind] at h
    cases h1 : oneF x with
    | error e => simp [h1] at h
    | ok f =>
      simp only [h1] at h
      cases h2 : xs.mapM oneF with
      | error e => simp [h2] at h
      | ok fs =>
        simp only [h2, pure, Except.pure] at h
        injection h with h
        subst h
        rcases List.mem_cons.mp hp with e | hp'
        · subst e
          unfold oneF at h1
          split at h1
          · simp at h1
          · rename_i n d t _
            cases hmk : Frac.mk? n d t with
            | none => simp [hmk] at h1
            | some g =>
              simp only [hmk, Except.ok.injEq] at h1
              subst h1
              unfold Frac.mk? at hmk
              split at hmk
              · simp at hmk
              · rename_i hb
                injection hmk with hmk
                subst hmk
                simp only [not_or, Nat.not_lt] at hb
                exact ⟨rfl, hb.1, hb.2⟩
        · exact ih fs h2 p hp'

theorem comps_map (ps : List Frac) (h : ∀ p ∈ ps, p.add = none) :
    (ps.map fun p => ((p.num, p.den, p.tdiv) : Comp)).map compFrac = ps := by
  induction ps with
  | nil => rfl
  | cons p ps ih =>
    simp only [List.map_cons]
    rw [ih (fun q hq => h q (by simp [hq]))]
    congr 1
    have := h p (by simp)
    obtain ⟨n, d, t, a⟩ := p
    simp only at this
    subst this
    rfl

/-- **formatting fixpoint of durations**: whatever text was read as the duration `f` - provided no
    `+`-separated part was a zero duration (those are dropped from the components, so the object changes
    while its text and value are kept) - the text written for `f` is read as `f` again -/
theorem frac_fixpoint (s : List Char) (f : Frac) (h : fracFromString s = .ok f)
    (hz : ∀ ps, (splitOn '+' s).mapM oneF = .ok ps → ∀ p ∈ ps, p.num ≠ 0) : FracWF f := by
  rw [fracFromString_eq] at h
  split at h
  · rename_i n d t _
    cases hmk : Frac.mk? n d t with
    | none => simp [hmk] at h
    | some g =>
      simp only [hmk, Except.ok.injEq] at h
      subst h
      unfold Frac.mk? at hmk
      split at hmk
      · simp at hmk
      · rename_i hb
        injection hmk with hmk
        subst hmk
        simp only [not_or, Nat.not_lt] at hb
        exact hb
  · split at h
    · rename_i hlen
      cases hm : (splitOn '+' s).mapM oneF with
      | error e => simp [hm, bind, Except.bind] at h
      | ok ps =>
        simp only [hm, bind, Except.bind] at h
        split at h
        · simp at h
        · rename_i hany
          have hprops := mapM_oneF_comps _ ps hm
          have hnz := hz ps hm
          let cs : List Comp := ps.map fun p => (p.num, p.den, p.tdiv)
          have hcs : cs.map compFrac = ps := comps_map ps (fun p hp => (hprops p hp).1)
          have hlen2 : 2 ≤ cs.length := by
            have : ps.length = (splitOn '+' s).length := by
              -- mapM keeps the length
              have key : ∀ (xs : List (List Char)) (ys : List Frac), xs.mapM oneF = .ok ys → ys.length = xs.length := by
                intro xs
                induction xs with
                | nil => intro ys h; simp only [List.mapM_nil, pure, Except.pure] at h; injection h with h; subst h; rfl
                | cons x xs ih =>
                  intro ys h
                  simp only [List.mapM_cons, bind, Except.bind] at h
                  cases h1 : oneF x with
                  | error e => simp [h1] at h
                  | ok f' =>
                    simp only [h1] at h
                    cases h2 : xs.mapM oneF with
                    | error e => simp [h2] at h
                    | ok fs =>
                      simp only [h2, pure, Except.pure] at h
                      injection h with h
                      subst h
                      simp [ih fs h2]
              exact key _ _ hm
            simp only [cs, List.length_map]
            omega
          have hok : ∀ c ∈ cs, CompOK c := by
            intro c hc
            simp only [cs, List.mem_map] at hc
            obtain ⟨p, hp, rfl⟩ := hc
            refine ⟨hnz p hp, (hprops p hp).2.1, (hprops p hp).2.2, ?_⟩
            have : ps.any (fun p => p.fullDen = 0) = false := by simpa using hany
            rw [List.any_eq_false] at this
            have h0 := this p hp
            have hadd := (hprops p hp).1
            simp only [decide_eq_true_eq] at h0
            unfold compFrac Frac.fullDen
            unfold Frac.fullDen at h0
            exact h0
          have hsum : fracSum (cs.map compFrac) = .ok f := by rw [hcs]; exact h
          have hadd := fracSum_add cs hlen2 hok f hsum
          unfold FracWF
          rw [hadd]
          exact ⟨hlen2, hok, hsum⟩
    · simp at h

-- ---------------------------------------------------------------- quoted strings, tempo, integer lists

theorem lastIndexOf_snoc' (c : Char) (a : List Char) : lastIndexOf c (a ++ [c]) = some a.length :=
  lastIndexOf_snoc c a

/-- `interpret_as_string_old(format_string_old(s)) = s` for a non-empty text without blanks at its ends -/
theorem decStrOld_encQuoted (s : List Char) (hs : strip s = s) (hne : s ≠ []) : decStrOld (encQuoted s) = s := by
  unfold encQuoted decStrOld
  rw [hs]
  simp only [lastIndexOf_snoc, List.take_left']
  have : 1 ≤ s.length := by
    cases s with
    | nil => exact absurd rfl hne
    | cons c r => simp
  simp [this, hs]

theorem splitOn_single (s : List Char) (h : ∀ c ∈ s, c ≠ ',') : splitOn ',' s = [s] := splitOn_no_sep ',' s h

/-- a tempo indication (one text without comma, not starting with `[`, no blanks at its ends, not empty) -/
theorem decTempo_id (s : List Char) (hs : strip s = s) (hne : s ≠ []) (hc : ∀ c ∈ s, c ≠ ',')
    (hb : s.head? ≠ some '[') : decTempo s = some s := by
  unfold decTempo decList
  have hbody : listBodyOf s = s := by
    unfold listBodyOf
    split
    · rename_i r; simp at hb
    · rfl
  simp only [hbody, hs]
  have : s.isEmpty = false := by
    cases s with
    | nil => exact absurd rfl hne
    | cons c r => rfl
  simp [this, splitOn_single s hc, hs]

theorem showIntS_word (i : Int) : ∀ c ∈ showIntS i, c ≠ ',' ∧ isWs c = false := by
  intro c hc
  unfold showIntS at hc
  split at hc
  · simp only [List.mem_cons] at hc
    rcases hc with rfl | hc
    · exact ⟨by decide, by decide⟩
    · have := showNatS_isDigit _ c hc
      exact ⟨by intro e; subst e; exact absurd this (by decide), isDigit_not_ws c this⟩
  · have := showNatS_isDigit _ c hc
    exact ⟨by intro e; subst e; exact absurd this (by decide), isDigit_not_ws c this⟩

theorem showIntS_ne_nil (i : Int) : showIntS i ≠ [] := by
  unfold showIntS
  split
  · simp
  · exact showNatS_ne_nil _

theorem mapM_parseInt (l : List Int) : (l.map showIntS).mapM parseInt = some l := by
  induction l with
  | nil => rfl
  | cons i l ih => simp [List.mapM_cons, parseInt_showIntS, ih]

theorem words_ints (l : List Int) : Words (l.map showIntS) := by
  intro x hx c hc
  simp only [List.mem_map] at hx
  obtain ⟨i, _, rfl⟩ := hx
  exact showIntS_word i c hc

theorem ints_ne (l : List Int) : l.map showIntS ≠ [[]] := by
  intro e
  cases l with
  | nil => simp at e
  | cons i l =>
    simp only [List.map_cons, List.cons.injEq] at e
    exact showIntS_ne_nil i e.1

/-- lists of integers (`beatSubDivision` of 1.0.0, the onsets of a `ptime` line) -/
theorem decListInt_encList (l : List Int) : decListInt (encList (l.map showIntS)) = some l := by
  unfold decListInt
  rw [decList_encList _ (words_ints l) (ints_ne l)]
  exact mapM_parseInt l

theorem decListInt_encListBody (l : List Int) : decListInt (encListBody (l.map showIntS)) = some l := by
  unfold decListInt
  rw [decList_encListBody _ (words_ints l) (ints_ne l) (by
    intro x hx
    cases l with
    | nil => simp at hx
    | cons i l =>
      simp only [List.map_cons, List.head?_cons, Option.some.injEq] at hx
      subst hx
      unfold showIntS
      split
      · simp
      · intro e
        cases hsn : showNatS i.toNat with
        | nil => exact showNatS_ne_nil _ hsn
        | cons c r =>
          rw [hsn] at e
          simp only [List.head?_cons, Option.some.injEq] at e
          have := showNatS_isDigit i.toNat c (by rw [hsn]; simp)
          rw [e] at this
          exact absurd this (by decide))]
  exact mapM_parseInt l

-- ---------------------------------------------------------------- time signatures

/-- `MatchTimeSignature.from_string(str(ts))` for `n/d` within the bound -/
theorem decTsig_encTsig (n d : Nat) (hn : n ≤ BOUND) (hd : d ≤ BOUND) :
    decTsig (encTsig ⟨n, d, []⟩) = .ok ⟨n, d, []⟩ := by
  unfold decTsig encTsig
  simp only
  have hws : ∀ c ∈ showNatS n ++ '/' :: showNatS d, isWs c = false := by
    intro c hc
    simp only [List.mem_append, List.mem_cons] at hc
    rcases hc with h | rfl | h
    · exact isDigit_not_ws c (showNatS_isDigit n c h)
    · decide
    · exact isDigit_not_ws c (showNatS_isDigit d c h)
  have hcomma : ∀ c ∈ showNatS n ++ '/' :: showNatS d, c ≠ ',' := by
    intro c hc
    simp only [List.mem_append, List.mem_cons] at hc
    rcases hc with h | rfl | h
    · exact showNatS_no ',' (by decide) n c h
    · decide
    · exact showNatS_no ',' (by decide) d c h
  rw [strip_id _ hws]
  have hbody : listBodyOf (showNatS n ++ '/' :: showNatS d) = showNatS n ++ '/' :: showNatS d := by
    unfold listBodyOf
    split
    · rename_i r heq
      cases hsn : showNatS n with
      | nil => exact absurd hsn (showNatS_ne_nil n)
      | cons c cs =>
        rw [hsn] at heq
        simp only [List.cons_append, List.cons.injEq] at heq
        have := showNatS_isDigit n c (by rw [hsn]; simp)
        rw [heq.1] at this
        exact absurd this (by decide)
    · rfl
  have hne : (showNatS n ++ '/' :: showNatS d).isEmpty = false := by
    cases hsn : showNatS n with
    | nil => exact absurd hsn (showNatS_ne_nil n)
    | cons c cs => rfl
  have hdl : decList (showNatS n ++ '/' :: showNatS d) = [showNatS n ++ '/' :: showNatS d] := by
    unfold decList
    simp only [hbody, strip_id _ hws, hne, Bool.false_eq_true, if_false, splitOn_no_sep ',' _ hcomma,
      List.map_cons, List.map_nil]
  rw [hdl]
  have hfs : fracFromString (showNatS n ++ '/' :: showNatS d) = .ok ⟨n, d, none, none⟩ := by
    rw [fracFromString_eq, fracSimple_2]
    unfold BOUND at hn hd
    have h1 : ¬ (1024 < n) := by omega
    have h2 : ¬ (1024 < d) := by omega
    simp [Frac.mk?, BOUND, h1, h2]
  simp only [List.mapM_cons, List.mapM_nil, hfs, bind, Except.bind, pure, Except.pure]

theorem joinWith_chars (sep : Char) (P : Char → Prop) (hsep : P sep) : ∀ (items : List (List Char)),
    (∀ x ∈ items, ∀ c ∈ x, P c) → ∀ c ∈ joinWith [sep] items, P c := by
  intro items
  induction items with
  | nil => intro _ c hc; simp [joinWith] at hc
  | cons x xs ih =>
    intro h c hc
    cases xs with
    | nil => simp only [joinWith] at hc; exact h x (by simp) c hc
    | cons y ys =>
      simp only [joinWith, List.append_assoc, List.singleton_append, List.mem_append, List.mem_cons] at hc
      rcases hc with hc | rfl | hc
      · exact h x (by simp) c hc
      · exact hsep
      · exact ih (fun z hz => h z (by simp [hz])) c hc

/-- the characters of a duration text: digits, `/`, `+` -/
theorem toStr_chars (f : Frac) : ∀ c ∈ f.toStr, c.isDigit = true ∨ c = '/' ∨ c = '+' := by
  intro c hc
  unfold Frac.toStr at hc
  split at hc
  · rcases fracStr1_chars _ _ _ c hc with h | h
    · exact Or.inl h
    · exact Or.inr (Or.inl h)
  · rename_i comps _
    refine joinWith_chars '+' (fun c => c.isDigit = true ∨ c = '/' ∨ c = '+') (Or.inr (Or.inr rfl)) _ ?_ c hc
    intro x hx d hd
    simp only [List.mem_map] at hx
    obtain ⟨cc, _, rfl⟩ := hx
    rcases fracStr1_chars _ _ _ d hd with h | h
    · exact Or.inl h
    · exact Or.inr (Or.inl h)

theorem toStr_word (f : Frac) : ∀ c ∈ f.toStr, c ≠ ',' ∧ isWs c = false := by
  intro c hc
  rcases toStr_chars f c hc with h | h | h
  · exact ⟨by intro e; subst e; exact absurd h (by decide), isDigit_not_ws c h⟩
  · subst h; exact ⟨by decide, by decide⟩
  · subst h; exact ⟨by decide, by decide⟩

theorem mapM_fracFromString (fs : List Frac) (h : ∀ f ∈ fs, FracWF f) :
    (fs.map Frac.toStr).mapM fracFromString = .ok fs := by
  induction fs with
  | nil => rfl
  | cons f fs ih =>
    simp only [List.map_cons, List.mapM_cons, fracFromString_toStr_full f (h f (by simp)),
      ih (fun g hg => h g (by simp [hg])), bind, Except.bind, pure, Except.pure]

/-- the list form of a time signature (`[6/8]`, `[2/4,3/4]` of 0.4.0 / 0.5.0) -/
theorem decTsig_encTsigList (t : TimeSig) (hn : t.num ≤ BOUND) (hd : t.den ≤ BOUND) (ho : ∀ f ∈ t.others, FracWF f) :
    decTsig (encTsigList t) = .ok t := by
  obtain ⟨n, d, others⟩ := t
  simp only at hn hd ho
  unfold decTsig encTsigList
  simp only
  have hfirst : ∀ c ∈ encTsig ⟨n, d, others⟩, c ≠ ',' ∧ isWs c = false := by
    intro c hc
    unfold encTsig at hc
    simp only [List.mem_append, List.mem_cons] at hc
    rcases hc with h | rfl | h
    · exact ⟨showNatS_no ',' (by decide) n c h, isDigit_not_ws c (showNatS_isDigit n c h)⟩
    · exact ⟨by decide, by decide⟩
    · exact ⟨showNatS_no ',' (by decide) d c h, isDigit_not_ws c (showNatS_isDigit d c h)⟩
  have hw : Words (encTsig ⟨n, d, others⟩ :: others.map Frac.toStr) := by
    intro x hx c hc
    rcases List.mem_cons.mp hx with e | hx'
    · subst e; exact hfirst c hc
    · simp only [List.mem_map] at hx'
      obtain ⟨f, _, rfl⟩ := hx'
      exact toStr_word f c hc
  have hne : (encTsig ⟨n, d, others⟩ :: others.map Frac.toStr) ≠ [[]] := by
    intro e
    simp only [List.cons.injEq] at e
    have := e.1
    unfold encTsig at this
    have hl := congrArg List.length this
    simp at hl
  have hws : ∀ c ∈ encList (encTsig ⟨n, d, others⟩ :: others.map Frac.toStr), isWs c = false := by
    intro c hc
    unfold encList encListBody at hc
    simp only [List.mem_cons, List.mem_append, List.not_mem_nil, or_false] at hc
    rcases hc with rfl | hc | rfl
    · decide
    · exact joinWith_no_ws _ (fun x hx c hc => (hw x hx c hc).2) c hc
    · decide
  rw [strip_id _ hws, decList_encList _ hw hne]
  have hfs : fracFromString (encTsig ⟨n, d, others⟩) = .ok ⟨n, d, none, none⟩ := by
    unfold encTsig
    rw [fracFromString_eq, fracSimple_2]
    unfold BOUND at hn hd
    have h1 : ¬ (1024 < n) := by omega
    have h2 : ¬ (1024 < d) := by omega
    simp [Frac.mk?, BOUND, h1, h2]
  simp only [List.mapM_cons, hfs, mapM_fracFromString others ho, bind, Except.bind, pure, Except.pure]

-- ---------------------------------------------------------------- the value of a sum

theorem foldlM_value : ∀ (ps : List Frac) (acc r : Frac), ps.foldlM stepF acc = .ok r →
    r.value = acc.value + (ps.map Frac.value).foldr (· + ·) 0 := by
  intro ps
  induction ps with
  | nil =>
    intro acc r h
    simp only [List.foldlM_nil, pure, Except.pure] at h
    injection h with h
    subst h
    simp
  | cons p ps ih =>
    intro acc r h
    simp only [List.foldlM_cons, bind, Except.bind] at h
    unfold stepF at h
    cases ha : Frac.add? acc p with
    | none => simp [ha] at h
    | some r1 =>
      simp only [ha] at h
      rw [ih r1 r h, frac_add_value acc p r1 ha]
      simp only [List.map_cons, List.foldr_cons]
      ring

end C07Codec
