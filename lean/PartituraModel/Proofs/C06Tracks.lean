/-
C06 helper lemmas (round 2): `Performance.sanitize_track_numbers` — the sorted duplicate-free key list and
the position of a key in it; the special shape the MIDI loader produces (one track number per part).
-/
import PartituraModel.Model.PerfMidi
import PartituraModel.Proofs.C06Stable

namespace C06Tracks
open Model Model.PerfMidi C06Sort C06Stable

/-- lexicographic order of (part index, track number) -/
def LexLt (a b : Nat × Int) : Prop := a.1 < b.1 ∨ (a.1 = b.1 ∧ a.2 < b.2)

instance (a b : Nat × Int) : Decidable (LexLt a b) := by unfold LexLt; infer_instance

theorem pairLe_iff (a b : Nat × Int) : pairLe a b = true ↔ (a.1 < b.1 ∨ (a.1 = b.1 ∧ a.2 ≤ b.2)) := by
  simp [pairLe]

theorem pairLe_total (a b : Nat × Int) : pairLe a b = true ∨ pairLe b a = true := by
  rw [pairLe_iff, pairLe_iff]; omega

theorem pairLe_trans (a b c : Nat × Int) (h1 : pairLe a b = true) (h2 : pairLe b c = true) :
    pairLe a c = true := by
  rw [pairLe_iff] at *; omega

theorem pairLe_antisymm (a b : Nat × Int) (h1 : pairLe a b = true) (h2 : pairLe b a = true) : a = b := by
  rw [pairLe_iff] at *
  obtain ⟨a1, a2⟩ := a
  obtain ⟨b1, b2⟩ := b
  simp only [Prod.mk.injEq] at *
  omega

theorem lexLt_of_le_ne (a b : Nat × Int) (h : pairLe a b = true) (hne : a ≠ b) : LexLt a b := by
  rw [pairLe_iff] at h
  unfold LexLt
  obtain ⟨a1, a2⟩ := a
  obtain ⟨b1, b2⟩ := b
  simp only [ne_eq, Prod.mk.injEq] at *
  omega

theorem lexLt_irrefl (a : Nat × Int) : ¬ LexLt a a := by unfold LexLt; omega

theorem lexLt_asymm (a b : Nat × Int) (h : LexLt a b) : ¬ LexLt b a := by unfold LexLt at *; omega

-- ------------------------------------------------------------------ dedupAdj

theorem mem_dedupAdj (l : List (Nat × Int)) (x : Nat × Int) : x ∈ dedupAdj l ↔ x ∈ l := by
  induction l using dedupAdj.induct with
  | case1 => simp [dedupAdj]
  | case2 a => simp [dedupAdj]
  | case3 b l ih =>
    rw [dedupAdj, if_pos rfl, ih]
    simp
  | case4 a b l hab ih =>
    rw [dedupAdj, if_neg hab, List.mem_cons, ih]
    simp

theorem strict_dedupAdj (l : List (Nat × Int)) (h : l.Pairwise (fun x y => pairLe x y = true)) :
    (dedupAdj l).Pairwise LexLt := by
  induction l using dedupAdj.induct with
  | case1 => simp [dedupAdj]
  | case2 a => simp [dedupAdj]
  | case3 b l ih =>
    rw [dedupAdj, if_pos rfl]
    exact ih (List.pairwise_cons.mp h).2
  | case4 a b l hab ih =>
    rw [dedupAdj, if_neg hab, List.pairwise_cons]
    rw [List.pairwise_cons] at h
    refine ⟨?_, ih h.2⟩
    intro x hx
    rw [mem_dedupAdj] at hx
    refine lexLt_of_le_ne a x (h.1 x hx) ?_
    rintro rfl
    -- a ≤ b ≤ a
    have h1 := h.1 b List.mem_cons_self
    rcases List.mem_cons.mp hx with hx | hx
    · exact hab hx
    · have h2 := (List.pairwise_cons.mp h.2).1 a hx
      exact hab (pairLe_antisymm a b h1 h2)

theorem mem_sanitizeKeys (l : List (Nat × Int)) (x : Nat × Int) : x ∈ sanitizeKeys l ↔ x ∈ l := by
  unfold sanitizeKeys
  rw [mem_dedupAdj, mem_sortBy]

theorem strict_sanitizeKeys (l : List (Nat × Int)) : (sanitizeKeys l).Pairwise LexLt :=
  strict_dedupAdj _ (sorted_sortBy pairLe pairLe_total pairLe_trans l)

-- ------------------------------------------------------------------ indexOfKey

theorem indexOfKey_some (k : Nat × Int) (l : List (Nat × Int)) (i : Nat) (h : indexOfKey k l = some i) :
    l[i]? = some k := by
  induction l generalizing i with
  | nil => simp [indexOfKey] at h
  | cons a l ih =>
    unfold indexOfKey at h
    split at h
    · rename_i hak
      cases h
      simp [hak]
    · cases hi : indexOfKey k l with
      | none => simp [hi] at h
      | some j =>
        simp [hi] at h
        subst h
        simpa using ih j hi

theorem indexOfKey_of_mem (k : Nat × Int) (l : List (Nat × Int)) (h : k ∈ l) : ∃ i, indexOfKey k l = some i := by
  induction l with
  | nil => cases h
  | cons a l ih =>
    unfold indexOfKey
    split
    · exact ⟨0, rfl⟩
    · rename_i hak
      rcases List.mem_cons.mp h with rfl | h
      · exact absurd rfl hak
      · obtain ⟨i, hi⟩ := ih h
        exact ⟨i + 1, by simp [hi]⟩

theorem mem_of_indexOfKey (k : Nat × Int) (l : List (Nat × Int)) (i : Nat) (h : indexOfKey k l = some i) : k ∈ l :=
  List.mem_of_getElem? (indexOfKey_some k l i h)

/-- positions in a strictly increasing key list follow the order of the keys -/
theorem indexOfKey_lt (l : List (Nat × Int)) (hs : l.Pairwise LexLt) (a b : Nat × Int) (i j : Nat)
    (ha : indexOfKey a l = some i) (hb : indexOfKey b l = some j) : i < j ↔ LexLt a b := by
  induction l generalizing i j with
  | nil => simp [indexOfKey] at ha
  | cons c l ih =>
    rw [List.pairwise_cons] at hs
    unfold indexOfKey at ha hb
    by_cases hca : c = a <;> by_cases hcb : c = b
    · subst hca; subst hcb
      simp at ha hb
      subst ha; subst hb
      simp [lexLt_irrefl]
    · subst hca
      rw [if_pos rfl] at ha
      rw [if_neg hcb] at hb
      cases ha
      cases hj : indexOfKey b l with
      | none => simp [hj] at hb
      | some j' =>
        simp [hj] at hb
        subst hb
        have := hs.1 b (mem_of_indexOfKey b l j' hj)
        simp [this]
    · subst hcb
      rw [if_neg hca] at ha
      rw [if_pos rfl] at hb
      cases hb
      cases hi : indexOfKey a l with
      | none => simp [hi] at ha
      | some i' =>
        simp [hi] at ha
        subst ha
        have := lexLt_asymm _ _ (hs.1 a (mem_of_indexOfKey a l i' hi))
        simp [this]
    · rw [if_neg hca] at ha
      rw [if_neg hcb] at hb
      cases hi : indexOfKey a l with
      | none => simp [hi] at ha
      | some i' =>
        cases hj : indexOfKey b l with
        | none => simp [hj] at hb
        | some j' =>
          simp [hi] at ha
          simp [hj] at hb
          subst ha; subst hb
          rw [← ih hs.2 i' j' hi hj]
          omega

-- ------------------------------------------------------------------ the loader's shape

theorem sortBy_of_sorted {α : Type} (le : α → α → Bool) (l : List α)
    (h : l.Pairwise (fun x y => le x y = true)) : sortBy le l = l := by
  induction l with
  | nil => rfl
  | cons a l ih =>
    rw [List.pairwise_cons] at h
    show insertBy le a (sortBy le l) = a :: l
    rw [ih h.2]
    exact insertBy_of_le_all le a l h.1

/-- the (part index, track) pairs of parts that carry one track number each: part `k + j` has `c_j + 1`
    entries, all with track `t_j` -/
def pairsFrom : Nat → List (Int × Nat) → List (Nat × Int)
  | _, [] => []
  | k, (t, c) :: ts => List.replicate (c + 1) (k, t) ++ pairsFrom (k + 1) ts

def keysFrom : Nat → List (Int × Nat) → List (Nat × Int)
  | _, [] => []
  | k, (t, _) :: ts => (k, t) :: keysFrom (k + 1) ts

theorem pairsFrom_ge (k : Nat) (ts : List (Int × Nat)) : ∀ x ∈ pairsFrom k ts, k ≤ x.1 := by
  induction ts generalizing k with
  | nil => intro x hx; cases hx
  | cons tc ts ih =>
    obtain ⟨t, c⟩ := tc
    intro x hx
    unfold pairsFrom at hx
    rcases List.mem_append.mp hx with hx | hx
    · rw [(List.mem_replicate.mp hx).2]
    · have := ih (k + 1) x hx
      omega

theorem pairsFrom_sorted (k : Nat) (ts : List (Int × Nat)) :
    (pairsFrom k ts).Pairwise (fun x y => pairLe x y = true) := by
  induction ts generalizing k with
  | nil => exact List.Pairwise.nil
  | cons tc ts ih =>
    obtain ⟨t, c⟩ := tc
    unfold pairsFrom
    rw [List.pairwise_append]
    refine ⟨?_, ih (k + 1), ?_⟩
    · rw [List.pairwise_replicate]
      right
      rw [pairLe_iff]
      omega
    · intro x hx y hy
      rw [(List.mem_replicate.mp hx).2, pairLe_iff]
      have := pairsFrom_ge (k + 1) ts y hy
      left
      show k < y.1
      omega

theorem dedupAdj_replicate (x : Nat × Int) (c : Nat) (rest : List (Nat × Int)) :
    dedupAdj (List.replicate (c + 1) x ++ rest) = dedupAdj (x :: rest) := by
  induction c with
  | zero => rfl
  | succ c ih =>
    have : List.replicate (c + 1 + 1) x ++ rest = x :: x :: (List.replicate c x ++ rest) := by
      simp [List.replicate_succ]
    rw [this, dedupAdj, if_pos rfl]
    have : x :: (List.replicate c x ++ rest) = List.replicate (c + 1) x ++ rest := by
      simp [List.replicate_succ]
    rw [this, ih]

theorem dedupAdj_pairsFrom (k : Nat) (ts : List (Int × Nat)) : dedupAdj (pairsFrom k ts) = keysFrom k ts := by
  induction ts generalizing k with
  | nil => rfl
  | cons tc ts ih =>
    obtain ⟨t, c⟩ := tc
    unfold pairsFrom keysFrom
    rw [dedupAdj_replicate, ← ih (k + 1)]
    cases ts with
    | nil => rfl
    | cons tc' ts' =>
      obtain ⟨t', c'⟩ := tc'
      have e : pairsFrom (k + 1) ((t', c') :: ts')
          = (k + 1, t') :: (List.replicate c' (k + 1, t') ++ pairsFrom (k + 1 + 1) ts') := by
        simp [pairsFrom, List.replicate_succ]
      rw [e, dedupAdj, if_neg (by simp)]

theorem indexOfKey_keysFrom (k : Nat) (ts : List (Int × Nat)) (j : Nat) (tc : Int × Nat)
    (h : ts[j]? = some tc) : indexOfKey (k + j, tc.1) (keysFrom k ts) = some j := by
  induction ts generalizing k j with
  | nil => simp at h
  | cons tc0 ts ih =>
    obtain ⟨t0, c0⟩ := tc0
    unfold keysFrom indexOfKey
    cases j with
    | zero =>
      simp at h
      subst h
      simp
    | succ j =>
      simp at h
      have hne : ¬ ((k, t0) : Nat × Int) = (k + (j + 1), tc.1) := by simp
      rw [if_neg hne]
      have := ih (k + 1) j h
      rw [show k + 1 + j = k + (j + 1) by omega] at this
      rw [this]
      rfl

theorem pairs_map_replicate (ts : List (Int × Nat)) (k : Nat) :
    ((ts.map fun tc => List.replicate (tc.2 + 1) tc.1).zipIdx k).flatMap (fun p => p.1.map fun t => (p.2, t))
      = pairsFrom k ts := by
  induction ts generalizing k with
  | nil => rfl
  | cons tc ts ih =>
    obtain ⟨t, c⟩ := tc
    simp only [List.map_cons, List.zipIdx_cons, List.flatMap_cons, List.map_replicate, pairsFrom]
    rw [ih (k + 1)]

end C06Tracks
