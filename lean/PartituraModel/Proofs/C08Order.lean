/-
Helper lemmas for C08, order of the written note lines: `keyLe` is a total preorder; the linear interpolation
`interpLin` passes through its knots and is monotone when the knots are.
-/
import PartituraModel.Model.MatchTime
import PartituraModel.Proofs.C08Sort
import Mathlib.Tactic.Linarith
import Mathlib.Tactic.FieldSimp
import Mathlib.Tactic.Ring

namespace C08O
open Model Model.MatchTime

theorem keyLe_total (a b : LineKey) : keyLe a b = true ∨ keyLe b a = true := by
  obtain ⟨a1, a2⟩ := a
  obtain ⟨b1, b2⟩ := b
  cases a1 <;> cases b1 <;> simp only [keyLe, Bool.or_eq_true, Bool.and_eq_true, decide_eq_true_eq]
  · omega
  · right; trivial
  · left; trivial
  · rename_i x y
    rcases lt_trichotomy x y with h | h | h
    · left; left; exact h
    · rcases le_total a2 b2 with h2 | h2
      · left; right; exact ⟨h, h2⟩
      · right; right; exact ⟨h.symm, h2⟩
    · right; left; exact h

theorem keyLe_trans (a b c : LineKey) (h1 : keyLe a b = true) (h2 : keyLe b c = true) : keyLe a c = true := by
  obtain ⟨a1, a2⟩ := a
  obtain ⟨b1, b2⟩ := b
  obtain ⟨c1, c2⟩ := c
  cases a1 <;> cases b1 <;> cases c1 <;>
    simp only [keyLe, Bool.or_eq_true, Bool.and_eq_true, decide_eq_true_eq, Bool.false_eq_true] at h1 h2 ⊢
  · omega
  · rename_i x y z
    rcases h1 with h1 | ⟨h1, h1'⟩ <;> rcases h2 with h2 | ⟨h2, h2'⟩
    · left; linarith
    · left; linarith
    · left; linarith
    · right; exact ⟨h1.trans h2, by omega⟩

/-! ### linear interpolation -/

/-- the line through two knots -/
def lineAt (a ya b yb x : Rat) : Rat := (yb - ya) / (b - a) * (x - a) + ya

theorem go_nil (p q : Rat × Rat) (x : Rat) :
    interpLin.go x p q [] = lineAt p.1 p.2 q.1 q.2 x := by
  obtain ⟨a, ya⟩ := p; obtain ⟨b, yb⟩ := q; rfl

theorem go_cons (p q k : Rat × Rat) (more : List (Rat × Rat)) (x : Rat) :
    interpLin.go x p q (k :: more) = if x ≤ q.1 then lineAt p.1 p.2 q.1 q.2 x else interpLin.go x q k more := by
  obtain ⟨a, ya⟩ := p; obtain ⟨b, yb⟩ := q; rfl

theorem lineAt_left (a ya b yb : Rat) : lineAt a ya b yb a = ya := by
  unfold lineAt; simp

theorem lineAt_right (a ya b yb : Rat) (h : a < b) : lineAt a ya b yb b = yb := by
  unfold lineAt
  have : b - a ≠ 0 := by linarith
  field_simp
  ring

theorem lineAt_mono (a ya b yb : Rat) (h : a < b) (hy : ya ≤ yb) (x x' : Rat) (hx : x ≤ x') :
    lineAt a ya b yb x ≤ lineAt a ya b yb x' := by
  unfold lineAt
  have hs : 0 ≤ (yb - ya) / (b - a) := div_nonneg (by linarith) (by linarith)
  nlinarith

/-- knots with strictly increasing performed times and non-decreasing score times -/
def KnotsSorted (l : List (Rat × Rat)) : Prop := l.Pairwise (fun p q => p.1 < q.1 ∧ p.2 ≤ q.2)

theorem go_at_first (p q : Rat × Rat) (rest : List (Rat × Rat)) (h : p.1 < q.1) :
    interpLin.go p.1 p q rest = p.2 := by
  cases rest with
  | nil => rw [go_nil, lineAt_left]
  | cons k more => rw [go_cons, if_pos (le_of_lt h), lineAt_left]

theorem go_at_mem : ∀ (rest : List (Rat × Rat)) (p q : Rat × Rat), KnotsSorted (p :: q :: rest) →
    ∀ k ∈ q :: rest, interpLin.go k.1 p q rest = k.2 := by
  intro rest
  induction rest with
  | nil =>
    intro p q hs k hk
    simp only [List.mem_singleton] at hk
    subst hk
    have hlt : p.1 < k.1 := ((List.pairwise_cons.mp hs).1 k (by simp)).1
    rw [go_nil, lineAt_right _ _ _ _ hlt]
  | cons r more ih =>
    intro p q hs k hk
    have hp := List.pairwise_cons.mp hs
    have hlt : p.1 < q.1 := (hp.1 q (by simp)).1
    rw [go_cons]
    rcases List.mem_cons.mp hk with rfl | hk'
    · rw [if_pos (le_refl _), lineAt_right _ _ _ _ hlt]
    · have hq := List.pairwise_cons.mp hp.2
      have : q.1 < k.1 := (hq.1 k hk').1
      rw [if_neg (not_le.mpr this)]
      exact ih q r hp.2 k hk'

theorem go_ge_first : ∀ (rest : List (Rat × Rat)) (p q : Rat × Rat), KnotsSorted (p :: q :: rest) →
    ∀ x : Rat, p.1 ≤ x → p.2 ≤ interpLin.go x p q rest := by
  intro rest
  induction rest with
  | nil =>
    intro p q hs x hx
    have h := (List.pairwise_cons.mp hs).1 q (by simp)
    rw [go_nil]
    have := lineAt_mono p.1 p.2 q.1 q.2 h.1 h.2 _ _ hx
    rwa [lineAt_left] at this
  | cons r more ih =>
    intro p q hs x hx
    have hp := List.pairwise_cons.mp hs
    have h := hp.1 q (by simp)
    rw [go_cons]
    split
    · conv_lhs => rw [← lineAt_left p.1 p.2 q.1 q.2]
      exact lineAt_mono _ _ _ _ h.1 h.2 _ _ hx
    · rename_i hc
      exact h.2.trans (ih q r hp.2 x (le_of_lt (not_le.mp hc)))

theorem go_mono : ∀ (rest : List (Rat × Rat)) (p q : Rat × Rat), KnotsSorted (p :: q :: rest) →
    ∀ x x' : Rat, x ≤ x' → interpLin.go x p q rest ≤ interpLin.go x' p q rest := by
  intro rest
  induction rest with
  | nil =>
    intro p q hs x x' hx
    have h := (List.pairwise_cons.mp hs).1 q (by simp)
    rw [go_nil, go_nil]
    exact lineAt_mono _ _ _ _ h.1 h.2 _ _ hx
  | cons r more ih =>
    intro p q hs x x' hx
    have hp := List.pairwise_cons.mp hs
    have h := hp.1 q (by simp)
    rw [go_cons, go_cons]
    by_cases h1 : x ≤ q.1
    · rw [if_pos h1]
      by_cases h2 : x' ≤ q.1
      · rw [if_pos h2]
        exact lineAt_mono _ _ _ _ h.1 h.2 _ _ hx
      · rw [if_neg h2]
        have a : lineAt p.1 p.2 q.1 q.2 x ≤ q.2 := by
          conv_rhs => rw [← lineAt_right p.1 p.2 q.1 q.2 h.1]
          exact lineAt_mono _ _ _ _ h.1 h.2 _ _ h1
        exact a.trans (go_ge_first more q r hp.2 x' (le_of_lt (not_le.mp h2)))
    · rw [if_neg h1]
      have h2 : ¬ x' ≤ q.1 := fun hc => h1 (hx.trans hc)
      rw [if_neg h2]
      exact ih q r hp.2 x x' hx

end C08O
