/-
C07 — `importmatch.parse_matchline`: a STRUCTURAL reason why a written line of kind k is rejected by every
parser that `FROM_MATCHLINE_METHODS` tries before k's own.

The written line is the rendering of a symbolic text (literal characters known, field texts unknown; the
components of a composite line are numbered so that `NoteName` of the score note and of the performed note
are different fields).  An earlier parser k' rejects it when

* one of its component patterns `lit H :: q'` matches at NO offset of the line: `neOK` of
  Proofs/C07Early.lean over the whole symbolic text (clash of known characters, missing `(` inside field
  texts, comma count where `note(` stands inside `snote(`), or
* one of its identifier literals (`-deletion.`, `insertion-`, …) occurs nowhere: `identGo` cuts the symbolic
  text at the literal characters that are not characters of the identifier; every piece must be a run of
  known characters that does not contain the identifier, or one single field text.

The conditions on the field texts: no `(`; no `,` / `)` in the fields the comma count walks over; no field
text contains one of the identifiers used.
-/
import PartituraModel.Model.MatchLine
import PartituraModel.Proofs.C07Early

namespace Model.Template
open Model Model.MatchCodec Model.MatchLine

-- ---------------------------------------------------------------- search fails at every offset

theorem search_none_of (q : List Seg) : ∀ (s : List Char),
    (∀ k, k ≤ s.length → matchSegs q (s.drop k) = none) → search q s = none := by
  intro s
  induction s with
  | nil => intro h; simpa [search] using h 0 (Nat.le_refl _)
  | cons c s ih =>
    intro h
    have h0 := h 0 (Nat.zero_le _)
    simp only [List.drop_zero] at h0
    simp only [search, h0]
    apply ih
    intro k hk
    have := h (k + 1) (by simp; omega)
    simpa using this

/-- the structural check of a whole symbolic line against the pattern of template `b` -/
def rejectTpl (b : Template) (syms : List Sym) : Option (List String) :=
  if b.unmodelled.isSome then some [] else
  match b.pat with
  | .lit H :: q' => if H.isEmpty then none else neOK H q' closer marker syms
  | _ => none

theorem rejectTpl_sound (b : Template) (syms : List Sym) (names : List String) (v : String → List Char)
    (h : rejectTpl b syms = some names) (hm : ∀ n ∈ symFields syms, marker ∉ v n)
    (hclean : ∀ n ∈ names, CleanText closer (v n)) : ∃ e, parseT b (renderS v syms) = .error e := by
  unfold rejectTpl at h
  unfold parseT
  by_cases hu : b.unmodelled.isSome = true
  · simp only [hu, if_true]; exact ⟨_, rfl⟩
  · have hu' : b.unmodelled.isSome = false := by simpa using hu
    simp only [hu', Bool.false_eq_true, if_false] at h ⊢
    split at h
    · rename_i H q' hpat
      split at h
      · simp at h
      · rename_i hne
        have hH : H ≠ [] := by intro e; subst e; simp at hne
        have hs : search b.pat (renderS v syms) = none := by
          rw [hpat]
          apply search_none_of
          intro k hk
          by_cases hlt : k < (renderS v syms).length
          · have := neOK_sound H q' closer marker v [] hH syms names h hm hclean k hlt
            simpa using this
          · have hk' : k = (renderS v syms).length := by omega
            subst hk'
            simp only [List.drop_length, matchSegs]
            cases H with
            | nil => exact absurd rfl hH
            | cons p P => simp [litMatch]
        rw [hs]
        exact ⟨_, rfl⟩
    · simp at h

-- ---------------------------------------------------------------- an identifier literal occurs nowhere

theorem isPrefixOf_sep (c : Char) : ∀ (i a b : List Char), c ∉ i → i.isPrefixOf (a ++ c :: b) = i.isPrefixOf a := by
  intro i
  induction i with
  | nil => intro a b _; simp
  | cons x i ih =>
    intro a b hc
    have hx : x ≠ c := fun e => hc (by simp [e])
    have hci : c ∉ i := fun e => hc (by simp [e])
    cases a with
    | nil => simp [List.isPrefixOf, hx]
    | cons y a =>
      simp only [List.cons_append, List.isPrefixOf]
      rw [ih a b hci]

theorem findLit_sep (i : List Char) (hi : i ≠ []) (c : Char) (hc : c ∉ i) : ∀ (a b : List Char),
    findLit i (a ++ c :: b) = (findLit i a || findLit i b) := by
  intro a
  induction a with
  | nil =>
    intro b
    cases i with
    | nil => exact absurd rfl hi
    | cons x i =>
      have hx : x ≠ c := fun e => hc (by simp [e])
      simp [findLit, List.isPrefixOf, hx]
  | cons y a ih =>
    intro b
    have h0 := isPrefixOf_sep c i (y :: a) b hc
    simp only [List.cons_append] at h0
    simp only [List.cons_append, findLit, h0, ih b, Bool.or_assoc]

/-- cut the symbolic text at the literal characters outside the identifier `i`; `run` = the known characters
    of the current piece, `af` = the current piece is a field text -/
def identGo (i : List Char) : List Sym → List Char → Bool → Bool
  | [], run, _ => !findLit i run
  | .ch c :: r, run, af =>
    if i.contains c then (if af then false else identGo i r (run ++ [c]) false)
    else (!findLit i run) && identGo i r [] false
  | .fld _ :: r, run, af => if run.isEmpty && !af then identGo i r [] true else false

theorem identGo_sound (i : List Char) (hi : i ≠ []) (v : String → List Char) : ∀ (syms : List Sym),
    (∀ n ∈ symFields syms, findLit i (v n) = false) →
    (∀ run, identGo i syms run false = true → findLit i (run ++ renderS v syms) = false) ∧
    (∀ x, identGo i syms [] true = true → findLit i x = false → findLit i (x ++ renderS v syms) = false) := by
  intro syms
  induction syms with
  | nil =>
    intro _
    refine ⟨?_, ?_⟩
    · intro run h
      simpa [identGo, renderS] using h
    · intro x _ hx
      simpa [renderS] using hx
  | cons s r ih =>
    intro hf
    cases s with
    | ch c =>
      have ih' := ih (fun n hn => hf n (by simpa [symFields] using hn))
      by_cases hc : i.contains c = true
      · refine ⟨?_, ?_⟩
        · intro run h
          simp only [identGo, hc, if_true, Bool.false_eq_true, if_false] at h
          have := ih'.1 (run ++ [c]) h
          simpa [renderS] using this
        · intro x h _
          simp only [identGo, hc, if_true] at h
          exact absurd h (by simp)
      · have hci : c ∉ i := by simpa using hc
        have hcf : i.contains c = false := by simpa using hc
        refine ⟨?_, ?_⟩
        · intro run h
          simp only [identGo, hcf, Bool.false_eq_true, if_false, Bool.and_eq_true, Bool.not_eq_true'] at h
          have h2 := ih'.1 [] h.2
          simp only [List.nil_append] at h2
          simp only [renderS, findLit_sep i hi c hci, h.1, h2, Bool.or_self]
        · intro x h hx
          simp only [identGo, hcf, Bool.false_eq_true, if_false, Bool.and_eq_true, Bool.not_eq_true'] at h
          have h2 := ih'.1 [] h.2
          simp only [List.nil_append] at h2
          simp only [renderS, findLit_sep i hi c hci, hx, h2, Bool.or_self]
    | fld n =>
      have ih' := ih (fun m hm => hf m (by simp only [symFields, List.mem_cons]; exact Or.inr hm))
      have hn := hf n (by simp [symFields])
      refine ⟨?_, ?_⟩
      · intro run h
        simp only [identGo] at h
        split at h
        · rename_i hcond
          simp only [Bool.and_eq_true, List.isEmpty_iff, Bool.not_eq_true'] at hcond
          rw [hcond.1]
          simp only [List.nil_append, renderS]
          exact ih'.2 (v n) h hn
        · simp at h
      · intro x h _
        simp [identGo] at h

/-- the first identifier that provably occurs nowhere in the symbolic line -/
def rejectIdents (syms : List Sym) : List String → Option String
  | [] => none
  | i :: is => if !i.toList.isEmpty && identGo i.toList syms [] false then some i else rejectIdents syms is

theorem rejectIdents_sound (syms : List Sym) (v : String → List Char) : ∀ (ids : List String) (i : String),
    rejectIdents syms ids = some i → (∀ n ∈ symFields syms, findLit i.toList (v n) = false) →
    i ∈ ids ∧ findLit i.toList (renderS v syms) = false := by
  intro ids
  induction ids with
  | nil => intro i h; simp [rejectIdents] at h
  | cons j is ih =>
    intro i h hf
    simp only [rejectIdents] at h
    split at h
    · rename_i hcond
      injection h with h
      subst h
      simp only [Bool.and_eq_true, Bool.not_eq_true', List.isEmpty_eq_false_iff] at hcond
      have := (identGo_sound j.toList hcond.1 v syms hf).1 [] hcond.2
      exact ⟨by simp, by simpa using this⟩
    · obtain ⟨h1, h2⟩ := ih i h hf
      exact ⟨by simp [h1], h2⟩

-- ---------------------------------------------------------------- a whole parser rejects the line

/-- the first component template of a composite parser whose pattern matches nowhere -/
def rejectParts (ts : List Template) (syms : List Sym) : List CPart → Option (List String)
  | [] => none
  | .lit _ :: ps => rejectParts ts syms ps
  | .tpl n :: ps =>
    match findTpl ts n with
    | none => some []
    | some b =>
      match rejectTpl b syms with
      | some names => some names
      | none => rejectParts ts syms ps

theorem rejectParts_sound (ts : List Template) (syms : List Sym) (v : String → List Char)
    (hm : ∀ n ∈ symFields syms, marker ∉ v n) : ∀ (ps : List CPart) (names : List String),
    rejectParts ts syms ps = some names → (∀ n ∈ names, CleanText closer (v n)) →
    ∃ e, parseParts ts (renderS v syms) ps = .error e := by
  intro ps
  induction ps with
  | nil => intro names h; simp [rejectParts] at h
  | cons p ps ih =>
    intro names h hclean
    cases p with
    | lit s =>
      simp only [rejectParts] at h
      simp only [parseParts]
      exact ih names h hclean
    | tpl n =>
      simp only [rejectParts] at h
      simp only [parseParts]
      cases hf : findTpl ts n with
      | none => exact ⟨_, rfl⟩
      | some b =>
        simp only [hf] at h
        simp only
        cases hr : rejectTpl b syms with
        | some nm =>
          simp only [hr, Option.some.injEq] at h
          subst h
          obtain ⟨e, he⟩ := rejectTpl_sound b syms nm v hr hm hclean
          exact ⟨e, by simp [he, bind, Except.bind]⟩
        | none =>
          simp only [hr] at h
          obtain ⟨e, he⟩ := ih names h hclean
          cases hp : parseT b (renderS v syms) with
          | error e' => exact ⟨e', by simp [bind, Except.bind]⟩
          | ok vs => exact ⟨e, by simp [he, bind, Except.bind]⟩

/-- why the parser `name'` rejects the symbolic line: (fields that must hold no `,` `)`, identifiers no
    field text may contain); `none` = cannot tell -/
def rejectKind (ts : List Template) (cs : List Composite) (name' : String) (syms : List Sym) :
    Option (List String × List String) :=
  match findTpl ts name' with
  | some b => (rejectTpl b syms).map fun names => (names, [])
  | none =>
    match findComp cs name' with
    | none => some ([], [])
    | some c =>
      match rejectParts ts syms c.parts with
      | some names => some (names, [])
      | none => (rejectIdents syms c.idents).map fun i => ([], [i])

theorem rejectKind_sound (ts : List Template) (cs : List Composite) (name' : String) (syms : List Sym)
    (v : String → List Char) (names ids : List String) (h : rejectKind ts cs name' syms = some (names, ids))
    (hm : ∀ n ∈ symFields syms, marker ∉ v n) (hclean : ∀ n ∈ names, CleanText closer (v n))
    (hid : ∀ i ∈ ids, ∀ n ∈ symFields syms, findLit i.toList (v n) = false) :
    ∃ e, parseLine ts cs name' (renderS v syms) = .error e := by
  unfold rejectKind at h
  unfold parseLine
  cases hf : findTpl ts name' with
  | some b =>
    simp only [hf, Option.map_eq_some_iff, Prod.mk.injEq] at h
    obtain ⟨nm, hr, hn, _⟩ := h
    subst hn
    exact rejectTpl_sound b syms nm v hr hm hclean
  | none =>
    simp only [hf] at h
    simp only
    cases hc : findComp cs name' with
    | none => exact ⟨_, rfl⟩
    | some c =>
      simp only [hc] at h
      simp only
      unfold parseC
      split
      · exact ⟨_, rfl⟩
      · cases hp : rejectParts ts syms c.parts with
        | some nm =>
          simp only [hp, Option.some.injEq, Prod.mk.injEq] at h
          obtain ⟨hn, _⟩ := h
          subst hn
          exact rejectParts_sound ts syms v hm c.parts nm hp hclean
        | none =>
          rename_i hall
          simp only [hp, Option.map_eq_some_iff, Prod.mk.injEq] at h
          obtain ⟨i, hi, _, hids⟩ := h
          subst hids
          obtain ⟨hmem, hno⟩ := rejectIdents_sound syms v c.idents i hi (hid i (by simp))
          exfalso
          simp only [Bool.not_eq_true', Bool.not_eq_false'] at hall
          have hall' : (c.idents.all fun i => findLit i.toList (renderS v syms)) = true := by
            simpa using hall
          rw [List.all_eq_true] at hall'
          have := hall' i hmem
          rw [hno] at this
          exact absurd this (by simp)

-- ---------------------------------------------------------------- the ordered dispatch

/-- the conditions under which every parser of `earlier` rejects the symbolic line -/
def dispatchConds (ts : List Template) (cs : List Composite) (ver : Nat × Nat × Nat) (syms : List Sym) :
    List String → Option (List String × List String)
  | [] => some ([], [])
  | k' :: rest =>
    match rejectKind ts cs (verName ver ++ "/" ++ k') syms, dispatchConds ts cs ver syms rest with
    | some a, some b => some (a.1 ++ b.1, a.2 ++ b.2)
    | _, _ => none

theorem dispatch_skip (ts : List Template) (cs : List Composite) (ver : Nat × Nat × Nat) (line : Str) :
    ∀ (pre : List String) (rest : List String),
    (∀ k' ∈ pre, ∃ e, parseLine ts cs (verName ver ++ "/" ++ k') line = .error e) →
    dispatch ts cs (pre ++ rest) ver line = dispatch ts cs rest ver line := by
  intro pre
  induction pre with
  | nil => intro rest _; rfl
  | cons k pre ih =>
    intro rest h
    obtain ⟨e, he⟩ := h k (by simp)
    simp only [List.cons_append, dispatch, he]
    exact ih rest (fun k' hk' => h k' (by simp [hk']))

theorem dispatchConds_sound (ts : List Template) (cs : List Composite) (ver : Nat × Nat × Nat) (syms : List Sym)
    (v : String → List Char) (hm : ∀ n ∈ symFields syms, marker ∉ v n) : ∀ (pre : List String) (names ids : List String),
    dispatchConds ts cs ver syms pre = some (names, ids) → (∀ n ∈ names, CleanText closer (v n)) →
    (∀ i ∈ ids, ∀ n ∈ symFields syms, findLit i.toList (v n) = false) →
    ∀ k' ∈ pre, ∃ e, parseLine ts cs (verName ver ++ "/" ++ k') (renderS v syms) = .error e := by
  intro pre
  induction pre with
  | nil => intro _ _ _ _ _ k' hk'; simp at hk'
  | cons k pre ih =>
    intro names ids h hclean hid k' hk'
    simp only [dispatchConds] at h
    cases hr : rejectKind ts cs (verName ver ++ "/" ++ k) syms with
    | none => simp [hr] at h
    | some a =>
      cases hd : dispatchConds ts cs ver syms pre with
      | none => simp [hr, hd] at h
      | some b =>
        simp only [hr, hd, Option.some.injEq, Prod.mk.injEq] at h
        obtain ⟨hn, hi⟩ := h
        subst hn
        subst hi
        rcases List.mem_cons.mp hk' with e | hk''
        · subst e
          exact rejectKind_sound ts cs _ syms v a.1 a.2 (by rw [hr]) hm
            (fun n hn => hclean n (by simp [hn])) (fun i hi => hid i (by simp [hi]))
        · exact ih b.1 b.2 (by rw [hd]) (fun n hn => hclean n (by simp [hn]))
            (fun i hi => hid i (by simp [hi])) k' hk''

/-- **ordered dispatch of a written line**: the line is the rendering of the symbolic text `syms`; the
    parsers `pre` tried before `k` all pass the structural rejection check; then `parse_matchline` returns
    what `k`'s own parser returns -/
theorem dispatch_struct (ts : List Template) (cs : List Composite) (ver : Nat × Nat × Nat) (syms : List Sym)
    (v : String → List Char) (pre post : List String) (k : String) (names ids : List String) (vals : List Val)
    (hc : dispatchConds ts cs ver syms pre = some (names, ids))
    (hm : ∀ n ∈ symFields syms, marker ∉ v n) (hclean : ∀ n ∈ names, CleanText closer (v n))
    (hid : ∀ i ∈ ids, ∀ n ∈ symFields syms, findLit i.toList (v n) = false)
    (hp : parseLine ts cs (verName ver ++ "/" ++ k) (renderS v syms) = .ok vals) :
    dispatch ts cs (pre ++ k :: post) ver (renderS v syms) = some (k, vals) := by
  rw [dispatch_skip ts cs ver _ pre (k :: post)
    (dispatchConds_sound ts cs ver syms v hm pre names ids hc hclean hid)]
  simp only [dispatch, hp]

-- ---------------------------------------------------------------- the symbolic text of a written line

/-- the fields of the first / second component of a composite line are named `a:Name` / `b:Name` -/
def tagName (j : Nat) (n : String) : String := String.ofList ((if j = 0 then 'a' else 'b') :: ':' :: n.toList)

def tagSym (j : Nat) : Sym → Sym
  | .ch c => .ch c
  | .fld n => .fld (tagName j n)

theorem renderS_tag (v : String → List Char) (j : Nat) : ∀ (syms : List Sym),
    renderS v (syms.map (tagSym j)) = renderS (fun n => v (tagName j n)) syms := by
  intro syms
  induction syms with
  | nil => rfl
  | cons s r ih => cases s <;> simp [tagSym, renderS, ih]

/-- the field texts of a composite line: those of its first and of its second component -/
def pairVal (vA vB : String → List Char) : String → List Char := fun s =>
  match s.toList with
  | 'a' :: ':' :: r => vA (String.ofList r)
  | 'b' :: ':' :: r => vB (String.ofList r)
  | _ => []

theorem pairVal_a (vA vB : String → List Char) (n : String) : pairVal vA vB (tagName 0 n) = vA n := by
  simp [pairVal, tagName]

theorem pairVal_b (vA vB : String → List Char) (n : String) : pairVal vA vB (tagName 1 n) = vB n := by
  simp [pairVal, tagName]

/-- the symbolic text of the parts of a composite line, components numbered from `j` -/
def partsSyms (ts : List Template) : List CPart → Nat → Option (List Sym)
  | [], _ => some []
  | .lit s :: ps, j => (partsSyms ts ps j).map (s.toList.map Sym.ch ++ ·)
  | .tpl n :: ps, j =>
    match findTpl ts n, partsSyms ts ps (j + 1) with
    | some t, some r => some ((flat t.out).map (tagSym j) ++ r)
    | _, _ => none

/-- the symbolic text of a line kind: the out_pattern of its template, or of the parts of its composite -/
def lineSyms (ts : List Template) (cs : List Composite) (name : String) : Option (List Sym) :=
  match findTpl ts name with
  | some t => some (flat t.out)
  | none =>
    match findComp cs name with
    | some c => partsSyms ts c.parts 0
    | none => none

/-- component - literal - component (`snote(…)-note(…).`) -/
theorem partsSyms_pair (ts : List Template) (x y sep : String) (a b : Template) (vA vB : String → List Char)
    (hfa : findTpl ts x = some a) (hfb : findTpl ts y = some b) :
    ∃ syms, partsSyms ts [.tpl x, .lit sep, .tpl y] 0 = some syms ∧
      renderS (pairVal vA vB) syms = render a.out vA ++ (sep.toList ++ render b.out vB) := by
  refine ⟨_, by simp only [partsSyms, hfa, hfb, Option.map_some]; rfl, ?_⟩
  simp only [renderS_append, renderS_tag, renderS_chars, pairVal_a, Nat.zero_add, pairVal_b, renderS_flat, renderS, List.append_nil]

/-- component - component (`ornament(…)-note(…).`) -/
theorem partsSyms_pair0 (ts : List Template) (x y : String) (a b : Template) (vA vB : String → List Char)
    (hfa : findTpl ts x = some a) (hfb : findTpl ts y = some b) :
    ∃ syms, partsSyms ts [.tpl x, .tpl y] 0 = some syms ∧
      renderS (pairVal vA vB) syms = render a.out vA ++ render b.out vB := by
  refine ⟨_, by simp only [partsSyms, hfa, hfb]; rfl, ?_⟩
  simp only [renderS_append, renderS_tag, pairVal_a, Nat.zero_add, pairVal_b, renderS_flat, renderS, List.append_nil]

/-- component - literal (`snote(…)-deletion.`) -/
theorem partsSyms_suffix (ts : List Template) (x lit : String) (a : Template) (vA vB : String → List Char)
    (hfa : findTpl ts x = some a) :
    ∃ syms, partsSyms ts [.tpl x, .lit lit] 0 = some syms ∧
      renderS (pairVal vA vB) syms = render a.out vA ++ lit.toList := by
  refine ⟨_, by simp only [partsSyms, hfa, Option.map_some]; rfl, ?_⟩
  simp only [renderS_append, renderS_tag, renderS_chars, pairVal_a, renderS_flat, renderS, List.append_nil]

/-- literal - component (`insertion-note(…).`) -/
theorem partsSyms_prefix (ts : List Template) (y lit : String) (b : Template) (vA vB : String → List Char)
    (hfb : findTpl ts y = some b) :
    ∃ syms, partsSyms ts [.lit lit, .tpl y] 0 = some syms ∧
      renderS (pairVal vA vB) syms = lit.toList ++ render b.out vA := by
  refine ⟨_, by simp only [partsSyms, hfb, Option.map_some]; rfl, ?_⟩
  simp only [renderS_append, renderS_tag, renderS_chars, pairVal_a, renderS_flat, renderS, List.append_nil]

end Model.Template
