/-
C15 helper lemmas, part 4: the sounding rows (onset, tied duration, pitch) of the merged part are the
rescaled rows of the inputs.
-/
import PartituraModel.Proofs.C15Result

namespace C15
open Model.Merge

/-- every Python object occurs once: the oids of all elements of all parts are pairwise different -/
def OidsDistinct (ps : List APart) : Prop := ((ps.flatMap (·.elems)).map (·.oid)).Nodup

/-- the notes a note is tied to are notes of the same part -/
def TiesClosed (ps : List APart) : Prop :=
  ∀ p ∈ ps, ∀ e ∈ p.elems, ∀ k ∈ e.chain, ∃ e2 ∈ p.elems, e2.oid = k ∧ isGeneric e2.cls = true

-- ---------------------------------------------------------------- lookups by oid

theorem findOid_of_mem {l : List Elem} (hnd : (l.map (·.oid)).Nodup) {x : Elem} (hx : x ∈ l) :
    findOid l x.oid = some x := by
  induction l with
  | nil => cases hx
  | cons y ys ih =>
    simp only [List.map_cons, List.nodup_cons] at hnd
    simp only [findOid, List.find?_cons]
    rcases List.mem_cons.mp hx with rfl | hx
    · simp
    · have hne : (y.oid == x.oid) = false := by
        rw [beq_eq_false_iff_ne]
        intro heq
        exact hnd.1 (heq ▸ List.mem_map.mpr ⟨x, hx, rfl⟩)
      rw [hne]
      exact ih hnd.2 hx

theorem findOid_none {l : List Elem} {k : Nat} (h : ∀ x ∈ l, x.oid ≠ k) : findOid l k = none := by
  simp only [findOid, List.find?_eq_none]
  intro x hx; simpa using h x hx

theorem findOid_perm {l l' : List Elem} (hp : l.Perm l') (hnd : (l.map (·.oid)).Nodup) (k : Nat) :
    findOid l k = findOid l' k := by
  have hnd' : (l'.map (·.oid)).Nodup := (hp.map _).nodup_iff.mp hnd
  by_cases h : ∃ x ∈ l, x.oid = k
  · obtain ⟨x, hx, rfl⟩ := h
    rw [findOid_of_mem hnd hx, findOid_of_mem hnd' (hp.mem_iff.mp hx)]
  · have h1 : ∀ x ∈ l, x.oid ≠ k := fun x hx he => h ⟨x, hx, he⟩
    have h2 : ∀ x ∈ l', x.oid ≠ k := fun x hx he => h ⟨x, hp.mem_iff.mpr hx, he⟩
    rw [findOid_none h1, findOid_none h2]

-- ---------------------------------------------------------------- rows over an explicit store

/-- the notes the note array lists: `Note` instances that do not continue a tie -/
def isHead (e : Elem) : Bool := isNote e.cls && !e.tiePrev

/-- rows of the elements `l`, tied durations looked up in the store `S` -/
def rowsIn (S l : List Elem) : List Row := (l.filter isHead).map (rowOf S)

theorem rows_eq (es : List Elem) : rows es = rowsIn es es := rfl

theorem rowsIn_append (S l1 l2 : List Elem) : rowsIn S (l1 ++ l2) = rowsIn S l1 ++ rowsIn S l2 := by
  simp [rowsIn]

theorem rowsIn_perm (S : List Elem) {l l' : List Elem} (h : l.Perm l') : (rowsIn S l).Perm (rowsIn S l') :=
  (h.filter _).map _

theorem durTied_congr {S S' : List Elem} (h : ∀ k, findOid S k = findOid S' k) (e : Elem) :
    durTied S e = durTied S' e := by
  simp only [durTied, h]

theorem rowsIn_congr {S S' : List Elem} (h : ∀ k, findOid S k = findOid S' k) (l : List Elem) :
    rowsIn S l = rowsIn S' l := by
  simp only [rowsIn]
  congr 1
  funext e
  simp only [rowOf, durTied_congr h]

-- ---------------------------------------------------------------- scaling of durations

theorem durOf_scaled {x e : Elem} {k : Nat} (hs : x.start = e.start * k) (ht : x.stop = e.stop.map (· * k)) :
    durOf x = (durOf e).map (· * (k : Int)) := by
  simp only [durOf, hs, ht]
  cases e.stop with
  | none => rfl
  | some s =>
    simp only [Option.map_some, Option.some.injEq]
    push_cast; ring

/-- one step of the fold of `durTied` -/
def tieStep (S : List Elem) (k : Nat) (acc : Option Int) : Option Int :=
  match acc, (findOid S k).bind durOf with
  | some a, some d => some (d + a)
  | _, _ => none

theorem durTied_eq (S : List Elem) (e : Elem) : durTied S e = e.chain.foldr (tieStep S) (durOf e) := rfl

theorem foldr_scaled (S P : List Elem) (k : Nat) (ch : List Nat) (init : Option Int)
    (hch : ∀ kk ∈ ch, (findOid S kk).bind durOf = ((findOid P kk).bind durOf).map (· * (k : Int))) :
    ch.foldr (tieStep S) (init.map (· * (k : Int))) = (ch.foldr (tieStep P) init).map (· * (k : Int)) := by
  induction ch with
  | nil => rfl
  | cons c cs ih =>
    simp only [List.foldr_cons]
    rw [ih (fun kk hkk => hch kk (List.mem_cons_of_mem _ hkk))]
    simp only [tieStep, hch c (List.mem_cons_self)]
    cases cs.foldr (tieStep P) init <;> cases (findOid P c).bind durOf <;>
      simp [Int.add_mul]

/-- the store `S` holds, for every GenericNote of `p`, an element with the same oid at `k` times its times -/
def Holds (S : List Elem) (p : APart) (k : Nat) : Prop :=
  ∀ e2 ∈ p.elems, isGeneric e2.cls = true →
    ∃ x, findOid S e2.oid = some x ∧ x.start = e2.start * k ∧ x.stop = e2.stop.map (· * k)

theorem durTied_scaled {S : List Elem} {p : APart} {k : Nat} (hS : Holds S p k)
    (hnd : (p.elems.map (·.oid)).Nodup)
    (hcl : ∀ e ∈ p.elems, ∀ kk ∈ e.chain, ∃ e2 ∈ p.elems, e2.oid = kk ∧ isGeneric e2.cls = true)
    (m : Mode) (c : Ctx) (hc : c.mult = k) {e : Elem} (he : e ∈ p.elems) :
    durTied S (xform m c e) = (durTied p.elems e).map (· * (k : Int)) := by
  rw [durTied_eq, durTied_eq, xform_chain]
  have h0 : durOf (xform m c e) = (durOf e).map (· * (k : Int)) :=
    durOf_scaled (by rw [xform_start, hc]) (by rw [xform_stop, hc])
  rw [h0]
  apply foldr_scaled
  intro kk hkk
  obtain ⟨e2, he2, rfl, hg⟩ := hcl e he kk hkk
  obtain ⟨x, hx, hs, ht⟩ := hS e2 he2 hg
  rw [hx, findOid_of_mem hnd he2]
  simp only [Option.bind_some]
  exact durOf_scaled hs ht

-- ---------------------------------------------------------------- one part

theorem isGeneric_of_isNote : ∀ c ∈ List.range Gen.numClasses, isNote c = true → isGeneric c = true := by
  decide

theorem mroTab_length : Gen.mroTab.length = Gen.numClasses := by decide

theorem lt_of_isSub {c d : Nat} (h : isSub c d = true) : c ∈ List.range Gen.numClasses := by
  rw [List.mem_range]
  by_contra hge
  have : Gen.mroTab.getD c [] = [] := by
    rw [List.getD_eq_getElem?_getD, List.getElem?_eq_none (by rw [mroTab_length]; omega)]; rfl
  unfold isSub at h
  rw [this] at h
  simp at h

theorem keep_of_head (m : Mode) (first : Bool) {e : Elem} (h : isHead e = true) : keep m first e = true := by
  simp only [isHead, Bool.and_eq_true] at h
  have hr := lt_of_isSub h.1
  have hg := isGeneric_of_isNote _ hr h.1
  have hd := notes_never_discarded_aux _ hr hg
  cases m <;> simp [keep, hd.1, hd.2.1, hd.2.2]
where
  notes_never_discarded_aux : ∀ c ∈ List.range Gen.numClasses, isGeneric c = true →
      discard .voice c = false ∧ discard .staff c = false ∧ discard .auto c = false := by decide

theorem isHead_xform (m : Mode) (c : Ctx) (e : Elem) : isHead (xform m c e) = isHead e := by
  simp only [isHead, xform_cls, xform_tiePrev]

theorem heads_partOut (m : Mode) (c : Ctx) (p : APart) :
    (partOut m c p).filter isHead = (p.elems.filter isHead).map (xform m c) := by
  simp only [partOut, List.filter_map, List.filter_filter]
  congr 1
  apply List.filter_congr
  intro e _
  simp only [Function.comp, isHead_xform]
  cases h : isHead e with
  | false => simp
  | true => simp [keep_of_head m c.first h]

theorem sound_scaled {S : List Elem} {p : APart} {k : Nat} (hS : Holds S p k)
    (hnd : (p.elems.map (·.oid)).Nodup)
    (hcl : ∀ e ∈ p.elems, ∀ kk ∈ e.chain, ∃ e2 ∈ p.elems, e2.oid = kk ∧ isGeneric e2.cls = true)
    (m : Mode) (c : Ctx) (hc : c.mult = k) {e : Elem} (he : e ∈ p.elems) :
    (rowOf S (xform m c e)).sound = scaleSound k (rowOf p.elems e).sound := by
  simp only [Row.sound, rowOf, scaleSound, xform_start, xform_pitch, hc,
    durTied_scaled hS hnd hcl m c hc he]

theorem rows_partOut {S : List Elem} {p : APart} {k : Nat} (hS : Holds S p k)
    (hnd : (p.elems.map (·.oid)).Nodup)
    (hcl : ∀ e ∈ p.elems, ∀ kk ∈ e.chain, ∃ e2 ∈ p.elems, e2.oid = kk ∧ isGeneric e2.cls = true)
    (m : Mode) (c : Ctx) (hc : c.mult = k) :
    (rowsIn S (partOut m c p)).map Row.sound = (rows p.elems).map fun r => scaleSound k r.sound := by
  rw [rowsIn, heads_partOut, rows_eq, rowsIn]
  simp only [List.map_map]
  apply List.map_congr_left
  intro e he
  exact sound_scaled hS hnd hcl m c hc (List.mem_filter.mp he).1

-- ---------------------------------------------------------------- all parts

theorem rows_mergeFrom (S : List Elem) (m : Mode) (L : Nat) (first : Bool) (vo so np : Nat) (qs : List APart)
    (hq : ∀ p ∈ qs, Holds S p (L / p.divs) ∧ (p.elems.map (·.oid)).Nodup ∧
      ∀ e ∈ p.elems, ∀ kk ∈ e.chain, ∃ e2 ∈ p.elems, e2.oid = kk ∧ isGeneric e2.cls = true) :
    (rowsIn S (mergeFrom m L first vo so np qs)).map Row.sound
      = qs.flatMap fun p => (rows p.elems).map fun r => scaleSound (L / p.divs) r.sound := by
  induction qs generalizing first vo so np with
  | nil => rfl
  | cons p qs ih =>
    obtain ⟨hS, hnd, hcl⟩ := hq p (List.mem_cons_self)
    simp only [mergeFrom, rowsIn_append, List.map_append, List.flatMap_cons]
    rw [rows_partOut hS hnd hcl m _ (by simp [ctxOf]),
      ih _ _ _ _ (fun r hr => hq r (List.mem_cons_of_mem _ hr))]

theorem oids_sublist (m : Mode) (L : Nat) (first : Bool) (vo so np : Nat) (qs : List APart) :
    ((mergeFrom m L first vo so np qs).map (·.oid)).Sublist ((qs.flatMap (·.elems)).map (·.oid)) := by
  induction qs generalizing first vo so np with
  | nil => simp [mergeFrom]
  | cons p qs ih =>
    simp only [mergeFrom, List.map_append, List.flatMap_cons]
    apply List.Sublist.append
    · simp only [partOut, List.map_map]
      have : ((fun e : Elem => e.oid) ∘ xform m (ctxOf L first vo so np p)) = fun e => e.oid := by
        funext e; exact xform_oid _ _ _
      rw [this]
      exact (List.filter_sublist).map _
    · exact ih _ _ _ _

theorem nodup_part {ps : List APart} (h : OidsDistinct ps) {p : APart} (hp : p ∈ ps) :
    (p.elems.map (·.oid)).Nodup := by
  induction ps with
  | nil => cases hp
  | cons q qs ih =>
    simp only [OidsDistinct, List.flatMap_cons, List.map_append] at h
    rcases List.mem_cons.mp hp with rfl | hp
    · exact (List.nodup_append.mp h).1
    · exact ih (List.nodup_append.mp h).2.1 hp

theorem sounding_raw (m : Mode) (L : Nat) (ps : List APart) (hid : OidsDistinct ps) (hties : TiesClosed ps) :
    (rowsIn (mergeFrom m L true 0 0 0 ps) (mergeFrom m L true 0 0 0 ps)).map Row.sound
      = ps.flatMap fun p => (rows p.elems).map fun r => scaleSound (L / p.divs) r.sound := by
  have hraw : ((mergeFrom m L true 0 0 0 ps).map (·.oid)).Nodup := hid.sublist (oids_sublist m L true 0 0 0 ps)
  apply rows_mergeFrom
  intro p hp
  refine ⟨?_, nodup_part hid hp, hties p hp⟩
  intro e2 he2 hg
  obtain ⟨i, hi⟩ := List.getElem?_of_mem hp
  have hr := lt_of_isSub (by simpa [isGeneric] using hg : isSub e2.cls (classId "GenericNote") = true)
  have hd := keep_of_generic m (i == 0) hr hg
  have hmem : image m L ps i p e2 ∈ mergeFrom m L true 0 0 0 ps :=
    mem_merged.mpr ⟨i, p, e2, hi, he2, hd, rfl⟩
  refine ⟨image m L ps i p e2, ?_, ?_, ?_⟩
  · have := findOid_of_mem hraw hmem
    rwa [image, xform_oid] at this
  · simp [image, xform_start]
  · simp [image, xform_stop]
where
  keep_of_generic (m : Mode) (first : Bool) {e : Elem} (hr : e.cls ∈ List.range Gen.numClasses)
      (hg : isGeneric e.cls = true) : keep m first e = true := by
    have hd := keep_of_head.notes_never_discarded_aux _ hr hg
    cases m <;> simp [keep, hd.1, hd.2.1, hd.2.2]

end C15
