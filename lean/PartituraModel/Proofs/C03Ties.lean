/-
C03 helper lemmas: the importer's pairing of ties by pitch (Model/RangeNumbers.lean `readTies`, with
fixes/C03-12) recovers the tie links of the score.
-/
import PartituraModel.Model.RangeNumbers
import Mathlib.Data.List.Nodup
import Mathlib.Data.List.Perm.Basic

namespace C03.Ties
open Model.Ranges

/-- `A` comes before `B` in the document -/
def Before (A B : TieNote) (ns : List TieNote) : Prop := ∃ l1 l2 l3, ns = l1 ++ A :: l2 ++ B :: l3

/-- the entry of an open tied note -/
def entry (A : TieNote) : Int × Nat × Nat := (A.pitch, A.note, A.stop)

/-- the open tied notes together with the notes still to come that carry a start -/
def pool (o : OpenTies) (ns : List TieNote) : List (Int × Nat × Nat) := o ++ (ns.filter (·.hasStart)).map entry

/-- What is known when the notes `n :: rest` are still to come, the notes in `o` are open and the links `L` are
    still to be made; `stopDone` says that the stop of `n` has been dealt with already. -/
structure Inv (stopDone : Bool) (o : OpenTies) (L : List (Nat × Nat)) (n : TieNote) (rest : List TieNote) : Prop where
  /-- identities are distinct, also against the open notes -/
  ids : ((o.map (·.2.1)) ++ (n :: rest).map (·.note)).Nodup
  /-- the links to be made end at the notes that carry a stop, in document order -/
  stops : L.map (·.2) = ((if stopDone then rest else n :: rest).filter (·.hasStop)).map (·.note)
  /-- no note is continued twice -/
  once : (L.map (·.1)).Nodup
  /-- the first note of a link is open already, or comes before the second one and carries a start; it has the
      pitch of the second one and ends where that starts -/
  link : ∀ ab ∈ L, ∃ B ∈ n :: rest, B.note = ab.2 ∧
    ((B.pitch, ab.1, B.start) ∈ o ∨
      ∃ A, A.note = ab.1 ∧ A.hasStart = true ∧ A.pitch = B.pitch ∧ A.stop = B.start ∧ Before A B (n :: rest))
  /-- among the open notes and the notes that carry a start, no two of one pitch end at the same time -/
  apart : ∀ e ∈ pool o (n :: rest), ∀ e' ∈ pool o (n :: rest), e.1 = e'.1 → e.2.2 = e'.2.2 → e = e'

theorem removeFirst_sublist (x : Int × Nat × Nat) (o : OpenTies) : (removeFirst x o).Sublist o := by
  induction o with
  | nil => exact List.Sublist.refl _
  | cons y ys ih =>
    unfold removeFirst
    by_cases hy : y = x
    · simp only [hy, if_true]; exact List.sublist_cons_self _ _
    · simp only [hy, if_false]; exact ih.cons_cons _

theorem mem_removeFirst_of_ne {x y : Int × Nat × Nat} {o : OpenTies} (h : y ∈ o) (hne : y ≠ x) :
    y ∈ removeFirst x o := by
  induction o with
  | nil => cases h
  | cons z zs ih =>
    unfold removeFirst
    by_cases hz : z = x
    · simp only [hz, if_true]
      rcases List.mem_cons.mp h with h | h
      · exact absurd (h.trans hz) hne
      · exact h
    · simp only [hz, if_false]
      rcases List.mem_cons.mp h with h | h
      · subst h; exact List.mem_cons_self ..
      · exact List.mem_cons_of_mem _ (ih h)

/-- picking the open note that ends where the stopping note starts finds the right one -/
theorem pickTie_spec {o : OpenTies} {pitch : Int} {a pos : Nat} (hm : (pitch, a, pos) ∈ o)
    (hun : ∀ e ∈ o, e.1 = pitch → e.2.2 = pos → e = (pitch, a, pos)) :
    pickTie pitch pos o = some (pitch, a, pos) := by
  unfold pickTie
  simp only
  have hc : (pitch, a, pos) ∈ o.filter fun e => e.1 == pitch := List.mem_filter.mpr ⟨hm, by simp⟩
  cases hf : (o.filter fun e => e.1 == pitch).find? (fun e => e.2.2 == pos) with
  | none =>
    rw [List.find?_eq_none] at hf
    exact absurd (by simp) (hf _ hc)
  | some e =>
    have he := List.find?_some hf
    have hem := List.mem_of_find?_eq_some hf
    obtain ⟨heo, hep⟩ := List.mem_filter.mp hem
    simp only [Option.some.injEq]
    exact hun e heo (by simpa using hep) (by simpa using he)

theorem note_notin_rest {so : Bool} {o : OpenTies} {L : List (Nat × Nat)} {n : TieNote} {rest : List TieNote}
    (h : Inv so o L n rest) : n.note ∉ rest.map (·.note) ∧ n.note ∉ o.map (·.2.1) := by
  have h1 := (List.nodup_append.mp h.ids).2.1
  simp only [List.map_cons, List.nodup_cons] at h1
  refine ⟨h1.1, ?_⟩
  intro hc
  exact (List.nodup_append.mp h.ids).2.2 _ hc n.note (by simp) rfl

/-- nothing comes before the first note -/
theorem not_before_head {A n : TieNote} {rest : List TieNote} (hn : n.note ∉ rest.map (·.note))
    (h : Before A n (n :: rest)) : False := by
  obtain ⟨l1, l2, l3, hbef⟩ := h
  apply hn
  cases l1 with
  | nil =>
    simp only [List.nil_append, List.cons_append, List.cons.injEq] at hbef
    rw [hbef.2]; simp
  | cons x xs =>
    simp only [List.cons_append, List.cons.injEq] at hbef
    rw [hbef.2]; simp

/-- the stop of the first note: the next link is made with the right open note -/
theorem stop_phase {o : OpenTies} {L : List (Nat × Nat)} {n : TieNote} {rest : List TieNote}
    (h : Inv false o L n rest) (hs : n.hasStop = true) :
    ∃ a L', L = (a, n.note) :: L' ∧ pickTie n.pitch n.start o = some (n.pitch, a, n.start) ∧
      Inv true (removeFirst (n.pitch, a, n.start) o) L' n rest := by
  obtain ⟨hnr, hno⟩ := note_notin_rest h
  have hst := h.stops
  simp only [Bool.false_eq_true, if_false, List.filter_cons, hs, if_true, List.map_cons] at hst
  obtain ⟨ab, L', hL⟩ : ∃ ab L', L = ab :: L' := by
    cases L with
    | nil => simp at hst
    | cons ab L' => exact ⟨ab, L', rfl⟩
  subst hL
  simp only [List.map_cons, List.cons.injEq] at hst
  obtain ⟨hab2, hst'⟩ := hst
  obtain ⟨a, b⟩ := ab
  simp only at hab2
  subst hab2
  -- the first note of the link is open
  obtain ⟨B, hB, hBn, hlink⟩ := h.link (a, n.note) (List.mem_cons_self ..)
  have hBeq : B = n := by
    rcases List.mem_cons.mp hB with h' | h'
    · exact h'
    · exact absurd (List.mem_map.mpr ⟨B, h', hBn⟩) hnr
  subst hBeq
  have hopen : (B.pitch, a, B.start) ∈ o := by
    rcases hlink with h' | ⟨A, _, _, _, _, hbef⟩
    · exact h'
    · exact (not_before_head hnr hbef).elim
  have hun : ∀ e ∈ o, e.1 = B.pitch → e.2.2 = B.start → e = (B.pitch, a, B.start) := by
    intro e he hp hstop
    exact h.apart e (List.mem_append_left _ he) _ (List.mem_append_left _ hopen) hp hstop
  refine ⟨a, L', rfl, pickTie_spec hopen hun, ?_⟩
  have hsub := removeFirst_sublist (B.pitch, a, B.start) o
  have honce := h.once
  simp only [List.map_cons, List.nodup_cons] at honce
  refine ⟨?_, by simpa using hst', honce.2, ?_, ?_⟩
  · exact h.ids.sublist ((hsub.map _).append_right _)
  · intro ab' hab'
    obtain ⟨B', hB', hBn', hlink'⟩ := h.link ab' (List.mem_cons_of_mem _ hab')
    refine ⟨B', hB', hBn', ?_⟩
    rcases hlink' with h' | h'
    · left
      apply mem_removeFirst_of_ne h'
      intro heq
      simp only [Prod.mk.injEq] at heq
      exact honce.1 (heq.2.1 ▸ List.mem_map.mpr ⟨ab', hab', rfl⟩)
    · exact Or.inr h'
  · intro e he e' he'
    have hmono : ∀ x ∈ pool (removeFirst (B.pitch, a, B.start) o) (B :: rest), x ∈ pool o (B :: rest) := by
      intro x hx
      rcases List.mem_append.mp hx with hx | hx
      · exact List.mem_append_left _ (hsub.subset hx)
      · exact List.mem_append_right _ hx
    exact h.apart e (hmono e he) e' (hmono e' he')

/-- the start of the first note: it becomes an open note -/
theorem start_phase {o : OpenTies} {L : List (Nat × Nat)} {n : TieNote} {rest : List TieNote}
    (h : Inv true o L n rest) :
    ∀ m rest', rest = m :: rest' → Inv false (if n.hasStart then o ++ [entry n] else o) L m rest' := by
  intro m rest' hrest
  subst hrest
  obtain ⟨hnr, hno⟩ := note_notin_rest h
  have hstops := h.stops
  simp only [if_true] at hstops
  refine ⟨?_, by simpa using hstops, h.once, ?_, ?_⟩
  · -- identities
    have hids := h.ids
    by_cases hst : n.hasStart = true
    · simp only [hst, if_true, List.map_append, List.map_cons, List.map_nil, entry]
      have : ((o.map (·.2.1)) ++ (n :: m :: rest').map (·.note)).Perm
          ((o.map (·.2.1) ++ [n.note]) ++ (m :: rest').map (·.note)) := by
        simp
      exact this.nodup_iff.mp hids
    · simp only [hst, Bool.false_eq_true, if_false]
      refine hids.sublist ?_
      exact List.Sublist.append_left (List.sublist_cons_self _ _) _
  · -- links
    intro ab hab
    obtain ⟨B, hB, hBn, hlink⟩ := h.link ab hab
    have hBrest : B ∈ m :: rest' := by
      rcases List.mem_cons.mp hB with h' | h'
      · exfalso
        subst h'
        have : ab.2 ∈ (m :: rest').map (·.note) := by
          have : ab.2 ∈ L.map (·.2) := List.mem_map.mpr ⟨ab, hab, rfl⟩
          rw [hstops] at this
          obtain ⟨x, hx, hxe⟩ := List.mem_map.mp this
          exact List.mem_map.mpr ⟨x, (List.mem_filter.mp hx).1, hxe⟩
        rw [← hBn] at this
        exact hnr this
      · exact h'
    refine ⟨B, hBrest, hBn, ?_⟩
    rcases hlink with h' | ⟨A, hA1, hA2, hA3, hA4, l1, l2, l3, hbef⟩
    · left
      by_cases hst : n.hasStart = true
      · simp only [hst, if_true]; exact List.mem_append_left _ h'
      · simp only [hst, Bool.false_eq_true, if_false]; exact h'
    · cases l1 with
      | nil =>
        -- the first note of the link is `n` itself
        simp only [List.nil_append, List.cons_append, List.cons.injEq] at hbef
        obtain ⟨hAn, _⟩ := hbef
        subst hAn
        left
        simp only [hA2, if_true]
        apply List.mem_append_right
        simp [entry, hA1, hA3, hA4]
      | cons x xs =>
        simp only [List.cons_append, List.cons.injEq] at hbef
        exact Or.inr ⟨A, hA1, hA2, hA3, hA4, xs, l2, l3, hbef.2⟩
  · -- the pool has the same members as before
    have hmono : ∀ x ∈ pool (if n.hasStart then o ++ [entry n] else o) (m :: rest'), x ∈ pool o (n :: m :: rest') := by
      intro x hx
      unfold pool at hx ⊢
      have hsplit : (n :: m :: rest').filter (·.hasStart) =
          (if n.hasStart then [n] else []) ++ (m :: rest').filter (·.hasStart) := by
        rw [List.filter_cons]; split <;> simp
      rw [hsplit, List.map_append]
      by_cases hst : n.hasStart = true
      · simp only [hst, if_true, List.append_assoc] at hx
        simp only [hst, if_true, List.map_cons, List.map_nil]
        exact hx
      · simp only [hst, Bool.false_eq_true, if_false] at hx
        simp only [hst, Bool.false_eq_true, if_false, List.map_nil, List.nil_append]
        exact hx
    intro e he e' he'
    exact h.apart e (hmono e he) e' (hmono e' he')

/-- dropping the stop obligation of a note that carries no stop -/
theorem skip_stop {o : OpenTies} {L : List (Nat × Nat)} {n : TieNote} {rest : List TieNote}
    (h : Inv false o L n rest) (hs : n.hasStop = false) : Inv true o L n rest :=
  ⟨h.ids, by have := h.stops; simpa [List.filter_cons, hs] using this, h.once, h.link, h.apart⟩

theorem readTies_spec : ∀ (rest : List TieNote) (n : TieNote) (o : OpenTies) (L acc : List (Nat × Nat)),
    Inv false o L n rest → ((n :: rest).foldl tieStep (o, acc)).2 = acc ++ L := by
  intro rest
  induction rest with
  | nil =>
    intro n o L acc h
    simp only [List.foldl_cons, List.foldl_nil]
    by_cases hs : n.hasStop = true
    · obtain ⟨a, L', hL, hpick, h'⟩ := stop_phase h hs
      have hL' : L' = [] := by have := h'.stops; simpa using this
      subst hL; subst hL'
      simp only [tieStep, hs, if_true, hpick]
    · have hs' : n.hasStop = false := by simpa using hs
      have h' := skip_stop h hs'
      have hL : L = [] := by have := h'.stops; simpa using this
      subst hL
      simp only [tieStep, hs', Bool.false_eq_true, if_false]
      simp
  | cons m rest' ih =>
    intro n o L acc h
    rw [List.foldl_cons]
    by_cases hs : n.hasStop = true
    · obtain ⟨a, L', hL, hpick, h'⟩ := stop_phase h hs
      subst hL
      have h'' := start_phase h' m rest' rfl
      have hstep : tieStep (o, acc) n =
          ((if n.hasStart then removeFirst (n.pitch, a, n.start) o ++ [entry n] else removeFirst (n.pitch, a, n.start) o),
            acc ++ [(a, n.note)]) := by
        simp only [tieStep, hs, if_true, hpick, entry]
      rw [hstep, ih m _ L' _ h'']
      simp
    · have hs' : n.hasStop = false := by simpa using hs
      have h' := skip_stop h hs'
      have h'' := start_phase h' m rest' rfl
      have hstep : tieStep (o, acc) n = ((if n.hasStart then o ++ [entry n] else o), acc) := by
        simp only [tieStep, hs', Bool.false_eq_true, if_false, entry]
      rw [hstep, ih m _ L _ h'']

end C03.Ties
