/-
C03 helper lemmas: the importer's pairing of ties by pitch (Model/RangeNumbers.lean `readTies`, with
fixes/C03-12) recovers the tie links of the score.
-/
import PartituraModel.Model.RangeNumbers
import Mathlib.Data.List.Nodup
import Mathlib.Tactic.Linarith

namespace C03.Ties
open Model.Ranges

/-- `A` comes before `B` in the document -/
def Before (A B : TieNote) (ns : List TieNote) : Prop := ∃ l1 l2 l3, ns = l1 ++ A :: l2 ++ B :: l3

/-- the entry of an open tied note -/
def entry (A : TieNote) : Int × Nat × Nat := (A.pitch, A.note, A.stop)

/-- what is known about the notes still to come (`ns`), the open tied notes (`o`) and the links still to be
    made (`L`) -/
structure Inv (o : OpenTies) (L : List (Nat × Nat)) (ns : List TieNote) : Prop where
  /-- identities are distinct, also against the open notes -/
  ids : ((o.map (·.2.1)) ++ ns.map (·.note)).Nodup
  /-- the links to be made end at the notes that carry a stop, in document order -/
  stops : L.map (·.2) = (ns.filter (·.hasStop)).map (·.note)
  /-- no note is continued twice -/
  once : (L.map (·.1)).Nodup
  /-- the first note of a link is open already, or comes before the second one and carries a start; it has the
      pitch of the second one and ends where that starts -/
  link : ∀ ab ∈ L, ∃ B ∈ ns, B.note = ab.2 ∧
    ((B.pitch, ab.1, B.start) ∈ o ∨
      ∃ A, A.note = ab.1 ∧ A.hasStart = true ∧ A.pitch = B.pitch ∧ A.stop = B.start ∧ Before A B ns)
  /-- among the open notes and the notes that carry a start, no two of one pitch end at the same time -/
  apart : (o ++ (ns.filter (·.hasStart)).map entry).Pairwise fun e e' => e.1 = e'.1 → e.2.2 ≠ e'.2.2

theorem removeFirst_perm {x : Int × Nat × Nat} {o : OpenTies} (h : x ∈ o) : (x :: removeFirst x o).Perm o := by
  induction o with
  | nil => cases h
  | cons y ys ih =>
    unfold removeFirst
    by_cases hy : y = x
    · subst hy; simp
    · simp only [hy, if_false]
      rcases List.mem_cons.mp h with h | h
      · exact absurd h.symm hy
      · exact (List.Perm.swap y x _).trans ((ih h).cons y)

theorem removeFirst_sublist (x : Int × Nat × Nat) (o : OpenTies) : (removeFirst x o).Sublist o := by
  induction o with
  | nil => exact List.Sublist.refl _
  | cons y ys ih =>
    unfold removeFirst
    by_cases hy : y = x
    · simp only [hy, if_true]; exact List.sublist_cons_self _ _
    · simp only [hy, if_false]; exact ih.cons_cons _

theorem mem_removeFirst_of_ne {x y : Int × Nat × Nat} {o : OpenTies} (h : y ∈ o) (hne : y ≠ x) :
    y ∈ removeFirst x o := by
  induction o with
  | nil => cases h
  | cons z zs ih =>
    unfold removeFirst
    by_cases hz : z = x
    · simp only [hz, if_true]
      rcases List.mem_cons.mp h with h | h
      · exact absurd (h.trans hz) hne
      · exact h
    · simp only [hz, if_false]
      rcases List.mem_cons.mp h with h | h
      · subst h; exact List.mem_cons_self ..
      · exact List.mem_cons_of_mem _ (ih h)

/-- picking the open note that ends where the stopping note starts finds the right one -/
theorem pickTie_spec {o : OpenTies} {pitch : Int} {a pos : Nat} (hm : (pitch, a, pos) ∈ o)
    (hun : ∀ e ∈ o, e.1 = pitch → e.2.2 = pos → e = (pitch, a, pos)) :
    pickTie pitch pos o = some (pitch, a, pos) := by
  unfold pickTie
  simp only
  have hc : (pitch, a, pos) ∈ o.filter fun e => e.1 == pitch := List.mem_filter.mpr ⟨hm, by simp⟩
  cases hf : (o.filter fun e => e.1 == pitch).find? (fun e => e.2.2 == pos) with
  | none =>
    rw [List.find?_eq_none] at hf
    exact absurd (by simp) (hf _ hc)
  | some e =>
    have he := List.find?_some hf
    have hem := List.mem_of_find?_eq_some hf
    obtain ⟨heo, hep⟩ := List.mem_filter.mp hem
    simp only [Option.some.injEq]
    exact hun e heo (by simpa using hep) (by simpa using he)

theorem readTies_spec : ∀ (ns : List TieNote) (o : OpenTies) (L acc : List (Nat × Nat)), Inv o L ns →
    (ns.foldl tieStep (o, acc)).2 = acc ++ L := by
  intro ns
  induction ns with
  | nil =>
    intro o L acc h
    have : L = [] := by
      have := h.stops
      simpa using this
    simp [this]
  | cons n rest ih =>
    intro o L acc h
    simp only [List.foldl_cons]
    -- identities
    have hids := h.ids
    have hn_notin_o : n.note ∉ o.map (·.2.1) := by
      intro hc
      have := (List.nodup_append.mp hids).2.2 _ hc n.note (by simp)
      exact this rfl
    have hn_notin_rest : n.note ∉ rest.map (·.note) := by
      have := (List.nodup_append.mp hids).2.1
      simp only [List.map_cons, List.nodup_cons] at this
      exact this.1
    by_cases hs : n.hasStop = true
    · -- the next link ends here
      have hst := h.stops
      simp only [List.filter_cons, hs, if_true, List.map_cons] at hst
      obtain ⟨ab, L', hL⟩ : ∃ ab L', L = ab :: L' := by
        cases L with
        | nil => simp at hst
        | cons ab L' => exact ⟨ab, L', rfl⟩
      subst hL
      simp only [List.map_cons, List.cons.injEq] at hst
      obtain ⟨hab2, hst'⟩ := hst
      -- its first note is open
      obtain ⟨B, hB, hBn, hlink⟩ := h.link ab (List.mem_cons_self ..)
      have hBeq : B = n := by
        rcases List.mem_cons.mp hB with h' | h'
        · exact h'
        · exact absurd (List.mem_map.mpr ⟨B, h', by rw [hBn, hab2]⟩) hn_notin_rest
      subst hBeq
      have hopen : (B.pitch, ab.1, B.start) ∈ o := by
        rcases hlink with h' | ⟨A, _, _, _, _, l1, l2, l3, hbef⟩
        · exact h'
        · -- nothing comes before the first note
          exfalso
          cases l1 with
          | nil =>
            simp only [List.nil_append, List.cons_append, List.cons.injEq] at hbef
            obtain ⟨hAB, hrest⟩ := hbef
            apply hn_notin_rest
            rw [hrest]
            simp
          | cons x xs =>
            simp only [List.cons_append, List.cons.injEq] at hbef
            obtain ⟨hx, hrest⟩ := hbef
            apply hn_notin_rest
            rw [hrest]
            simp
      have hapart_o : o.Pairwise fun e e' => e.1 = e'.1 → e.2.2 ≠ e'.2.2 :=
        (List.pairwise_append.mp h.apart).1
      have hid_o : (o.map (·.2.1)).Nodup := (List.nodup_append.mp hids).1
      have hun : ∀ e ∈ o, e.1 = B.pitch → e.2.2 = B.start → e = (B.pitch, ab.1, B.start) := by
        intro e he hp hstop
        by_contra hne
        -- two different open entries of one pitch ending together
        have := List.Pairwise.forall_of_forall (R := fun e e' => e.1 = e'.1 → e.2.2 ≠ e'.2.2)
          (fun x y hxy hp' hq => hxy hp'.symm hq.symm) (fun x _ hp' => by simp at hp') hapart_o
        sorry
      sorry
    · sorry

end C03.Ties
