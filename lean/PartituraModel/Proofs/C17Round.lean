/-
Helper lemmas for C17 (binary64 rounding of Model/C17Float.lean): the leading-bit search, round-half-even of a
quotient, and `roundPos` — the result has a 53-bit significand and lies within half a unit in the last place of the
rational it rounds, ties going to the even significand.
-/
import PartituraModel.Model.C17Float
import Mathlib.Tactic.Linarith
import Mathlib.Tactic.Ring
import Mathlib.Tactic.Positivity
import Mathlib.Tactic.NormNum
import Mathlib.Tactic.FieldSimp
import Mathlib.Algebra.Order.Field.Rat

namespace C17R
open Model Model.C17Float

-- ------------------------------------------------------------------ leading bit

theorem lgStep_eq (k w acc : Nat) (cont : Nat → Nat → Nat) :
    lgStep k w acc cont = if w >>> k = 0 then cont w acc else cont (w >>> k) (acc + k) := by
  unfold lgStep
  cases h : w >>> k with
  | zero => simp
  | succ m => simp

/-- one halving step keeps `orig / 2^acc = w`, `w ≥ 1`, and brings `w` below `2^k` when it was below `2^(2k)` -/
theorem lgStep_spec (k w acc orig : Nat) (cont : Nat → Nat → Nat) (hw1 : 1 ≤ w) (hw : w < 2 ^ (2 * k))
    (hinv : orig / 2 ^ acc = w) :
    ∃ w' acc', lgStep k w acc cont = cont w' acc' ∧ 1 ≤ w' ∧ w' < 2 ^ k ∧ orig / 2 ^ acc' = w' := by
  rw [lgStep_eq]
  by_cases h : w >>> k = 0
  · refine ⟨w, acc, by simp [h], hw1, ?_, hinv⟩
    rw [Nat.shiftRight_eq_div_pow] at h
    exact (Nat.div_eq_zero_iff.mp h).resolve_left (by positivity)
  · refine ⟨w >>> k, acc + k, by simp [h], Nat.pos_of_ne_zero h, ?_, ?_⟩
    · rw [Nat.shiftRight_eq_div_pow]
      apply Nat.div_lt_of_lt_mul
      calc w < 2 ^ (2 * k) := hw
        _ = 2 ^ k * 2 ^ k := by rw [← pow_add]; congr 1; omega
    · rw [Nat.shiftRight_eq_div_pow, ← hinv, Nat.div_div_eq_div_mul, pow_add]

/-- `lg w` is the position of the leading bit -/
theorem lg_spec (w : Nat) (h1 : 1 ≤ w) : 2 ^ lg w ≤ w ∧ w < 2 ^ (lg w + 1) := by
  unfold lg
  split
  · exact ⟨Nat.log2_self_le (by omega), Nat.lt_log2_self⟩
  · rename_i hbig
    have hbig : w < 2 ^ (2 * 256) := by simpa using hbig
    obtain ⟨w1, a1, e1, p1, q1, i1⟩ := lgStep_spec 256 w 0 w _ h1 hbig (by simp)
    rw [e1]
    obtain ⟨w2, a2, e2, p2, q2, i2⟩ := lgStep_spec 128 w1 a1 w _ p1 (by simpa using q1) i1
    rw [e2]
    obtain ⟨w3, a3, e3, p3, q3, i3⟩ := lgStep_spec 64 w2 a2 w _ p2 (by simpa using q2) i2
    rw [e3]
    obtain ⟨w4, a4, e4, p4, q4, i4⟩ := lgStep_spec 32 w3 a3 w _ p3 (by simpa using q3) i3
    rw [e4]
    obtain ⟨w5, a5, e5, p5, q5, i5⟩ := lgStep_spec 16 w4 a4 w _ p4 (by simpa using q4) i4
    rw [e5]
    obtain ⟨w6, a6, e6, p6, q6, i6⟩ := lgStep_spec 8 w5 a5 w _ p5 (by simpa using q5) i5
    rw [e6]
    obtain ⟨w7, a7, e7, p7, q7, i7⟩ := lgStep_spec 4 w6 a6 w _ p6 (by simpa using q6) i6
    rw [e7]
    obtain ⟨w8, a8, e8, p8, q8, i8⟩ := lgStep_spec 2 w7 a7 w _ p7 (by simpa using q7) i7
    rw [e8]
    obtain ⟨w9, a9, e9, p9, q9, i9⟩ := lgStep_spec 1 w8 a8 w _ p8 (by simpa using q8) i8
    rw [e9]
    have hw9 : w9 = 1 := by omega
    rw [hw9] at i9
    have hpos : 0 < 2 ^ a9 := by positivity
    constructor
    · have := Nat.div_mul_le_self w (2 ^ a9)
      rw [i9] at this; omega
    · have := Nat.lt_succ_iff.mpr (le_refl (w / 2 ^ a9))
      have h2 : w < (w / 2 ^ a9 + 1) * 2 ^ a9 := by
        have := Nat.div_add_mod w (2 ^ a9)
        have := Nat.mod_lt w hpos
        nlinarith
      rw [i9] at h2
      rw [pow_succ]; omega

-- ------------------------------------------------------------------ round half to even of a quotient

/-- the significand `mkRound` picks -/
def rhe (N D : Nat) : Nat :=
  if 2 * (N % D) < D then N / D else if D < 2 * (N % D) then N / D + 1 else if (N / D) % 2 = 0 then N / D else N / D + 1

theorem mkRound_eq (N D : Nat) (e : Int) : mkRound N D e = ⟨(rhe N D : Nat), e⟩ := by
  simp only [mkRound, force_eq, rhe]

/-- `rhe N D` is a nearest integer to `N / D`, the even one on a tie -/
theorem rhe_spec (N D : Nat) (hD : 0 < D) :
    2 * |((rhe N D : Nat) : Int) * D - N| ≤ D ∧
    (2 * |((rhe N D : Nat) : Int) * D - N| = (D : Int) → rhe N D % 2 = 0) := by
  have hdm := Nat.div_add_mod N D
  have hr := Nat.mod_lt N hD
  generalize hq : N / D = q at *
  generalize hrr : N % D = r at *
  have hN : (N : Int) = D * q + r := by exact_mod_cast hdm.symm
  unfold rhe
  rw [hq, hrr]
  split
  · rename_i h1
    have e : ((q : Nat) : Int) * D - N = -(r : Int) := by rw [hN]; ring
    rw [e, abs_neg, abs_of_nonneg (by positivity)]
    constructor
    · exact_mod_cast (by omega : 2 * r ≤ D)
    · intro h; exfalso; have : 2 * r = D := by exact_mod_cast h
      omega
  · split
    · rename_i h1 h2
      have e : (((q + 1 : Nat) : Nat) : Int) * D - N = (D : Int) - r := by rw [hN]; push_cast; ring
      rw [e, abs_of_nonneg (by have : (r : Int) < D := by exact_mod_cast hr
                               linarith)]
      constructor
      · have : (D : Int) ≤ 2 * r := by exact_mod_cast (by omega : D ≤ 2 * r)
        linarith
      · intro h; exfalso
        have : 2 * ((D : Int) - r) = D := h
        have : (D : Int) = 2 * r := by linarith
        have : D = 2 * r := by exact_mod_cast this
        omega
    · rename_i h1 h2
      have htie : D = 2 * r := by omega
      split
      · rename_i h3
        have e : ((q : Nat) : Int) * D - N = -(r : Int) := by rw [hN]; ring
        rw [e, abs_neg, abs_of_nonneg (by positivity)]
        exact ⟨by exact_mod_cast (by omega : 2 * r ≤ D), fun _ => h3⟩
      · rename_i h3
        have e : (((q + 1 : Nat) : Nat) : Int) * D - N = (D : Int) - r := by rw [hN]; push_cast; ring
        rw [e, abs_of_nonneg (by have : (r : Int) < D := by exact_mod_cast hr
                                 linarith)]
        refine ⟨?_, fun _ => by omega⟩
        have : (D : Int) = 2 * r := by exact_mod_cast htie
        linarith

/-- a quotient in `[2^52, 2^53)` rounds to a significand in `[2^52, 2^53]` -/
theorem rhe_range (N D : Nat) (hD : 0 < D) (hlo : 2 ^ 52 * D ≤ N) (hhi : N < 2 ^ 53 * D) :
    2 ^ 52 ≤ rhe N D ∧ rhe N D ≤ 2 ^ 53 := by
  have h1 : 2 ^ 52 ≤ N / D := (Nat.le_div_iff_mul_le hD).mpr hlo
  have h2 : N / D < 2 ^ 53 := (Nat.div_lt_iff_lt_mul hD).mpr hhi
  unfold rhe
  split
  · omega
  · split
    · omega
    · split <;> omega

-- ------------------------------------------------------------------ the binade

/-- the scaled quotient `N / D = (n / d) / 2^e` that `roundPos` rounds -/
def scaledN (n : Nat) (e : Int) : Nat := if e < 0 then n * 2 ^ (-e).toNat else n
def scaledD (d : Nat) (e : Int) : Nat := if e < 0 then d else d * 2 ^ e.toNat

/-- the exponent `roundPos` picks -/
def expOf (n d s : Nat) : Int := (lg (n * 2 ^ s / d) : Int) - ((s : Int) + 52)

theorem roundPos_eq (n d s : Nat) :
    roundPos n d s = ⟨(rhe (scaledN n (expOf n d s)) (scaledD d (expOf n d s)) : Nat), expOf n d s⟩ := by
  unfold roundPos
  simp only [force_eq]
  unfold expOf scaledN scaledD
  split
  · rename_i h
    have he : ¬ ((lg (n * 2 ^ s / d) : Int) - ((s : Int) + 52) < 0) := by omega
    rw [mkRound_eq, if_neg he, if_neg he]
    have e1 : Int.ofNat (lg (n * 2 ^ s / d) - (s + 52)) = (lg (n * 2 ^ s / d) : Int) - ((s : Int) + 52) := by
      simp only [Int.ofNat_eq_natCast]; omega
    have e2 : ((lg (n * 2 ^ s / d) : Int) - ((s : Int) + 52)).toNat = lg (n * 2 ^ s / d) - (s + 52) := by omega
    rw [e1, e2]
  · rename_i h
    have he : (lg (n * 2 ^ s / d) : Int) - ((s : Int) + 52) < 0 := by omega
    rw [mkRound_eq, if_pos he, if_pos he]
    have e1 : Int.negSucc (s + 52 - lg (n * 2 ^ s / d) - 1) = (lg (n * 2 ^ s / d) : Int) - ((s : Int) + 52) := by
      rw [Int.negSucc_eq]; omega
    have e2 : (-((lg (n * 2 ^ s / d) : Int) - ((s : Int) + 52))).toNat = s + 52 - lg (n * 2 ^ s / d) := by omega
    rw [e1, e2]

/-- the scaled quotient lies in `[2^52, 2^53)`: the exponent is the right one -/
theorem binade (n d s : Nat) (hn : 0 < n) (hd : 0 < d) (hs : d < 2 ^ s) :
    0 < scaledD d (expOf n d s) ∧
    2 ^ 52 * scaledD d (expOf n d s) ≤ scaledN n (expOf n d s) ∧
    scaledN n (expOf n d s) < 2 ^ 53 * scaledD d (expOf n d s) := by
  have hw1 : 1 ≤ n * 2 ^ s / d := by
    apply (Nat.le_div_iff_mul_le hd).mpr
    have : 2 ^ s ≤ n * 2 ^ s := Nat.le_mul_of_pos_left _ hn
    omega
  obtain ⟨hl, hu⟩ := lg_spec _ hw1
  generalize hL : lg (n * 2 ^ s / d) = L at *
  -- 2^L d ≤ n 2^s < 2^(L+1) d
  have hlo : 2 ^ L * d ≤ n * 2 ^ s := by
    calc 2 ^ L * d ≤ (n * 2 ^ s / d) * d := Nat.mul_le_mul_right d hl
      _ ≤ n * 2 ^ s := Nat.div_mul_le_self _ _
  have hhi : n * 2 ^ s < 2 ^ (L + 1) * d := by
    have := Nat.lt_succ_iff.mpr (le_refl (n * 2 ^ s / d))
    have h2 : n * 2 ^ s < (n * 2 ^ s / d + 1) * d := by
      have := Nat.div_add_mod (n * 2 ^ s) d
      have := Nat.mod_lt (n * 2 ^ s) hd
      nlinarith
    calc n * 2 ^ s < (n * 2 ^ s / d + 1) * d := h2
      _ ≤ 2 ^ (L + 1) * d := Nat.mul_le_mul_right d (by omega)
  unfold expOf scaledN scaledD
  rw [hL]
  have hs2 : 0 < 2 ^ s := by positivity
  by_cases hc : ((L : Int) - ((s : Int) + 52) < 0)
  · rw [if_pos hc, if_pos hc]
    have ek : (-((L : Int) - ((s : Int) + 52))).toNat = s + 52 - L := by omega
    rw [ek]
    have hk : s + 52 - L + L = s + 52 := by omega
    have hL2 : 0 < 2 ^ L := by positivity
    refine ⟨hd, ?_, ?_⟩
    · -- 2^52 d ≤ n 2^k  ⟸ (times 2^L)  2^(52+L) d ≤ n 2^(s+52)
      apply Nat.le_of_mul_le_mul_right _ hL2
      calc 2 ^ 52 * d * 2 ^ L = 2 ^ 52 * (2 ^ L * d) := by ring
        _ ≤ 2 ^ 52 * (n * 2 ^ s) := Nat.mul_le_mul_left _ hlo
        _ = n * 2 ^ (s + 52) := by rw [pow_add]; ring
        _ = n * 2 ^ (s + 52 - L) * 2 ^ L := by rw [mul_assoc, ← pow_add, hk]
    · apply Nat.lt_of_mul_lt_mul_right (a := 2 ^ L)
      calc n * 2 ^ (s + 52 - L) * 2 ^ L = n * 2 ^ (s + 52) := by rw [mul_assoc, ← pow_add, hk]
        _ = 2 ^ 52 * (n * 2 ^ s) := by rw [pow_add]; ring
        _ < 2 ^ 52 * (2 ^ (L + 1) * d) := Nat.mul_lt_mul_of_pos_left hhi (by positivity)
        _ = 2 ^ 53 * d * 2 ^ L := by rw [pow_succ]; ring
  · rw [if_neg hc, if_neg hc]
    have ek : ((L : Int) - ((s : Int) + 52)).toNat = L - (s + 52) := by omega
    rw [ek]
    have hk : L - (s + 52) + (s + 52) = L := by omega
    refine ⟨by positivity, ?_, ?_⟩
    · apply Nat.le_of_mul_le_mul_right _ hs2
      calc 2 ^ 52 * (d * 2 ^ (L - (s + 52))) * 2 ^ s = 2 ^ (L - (s + 52) + (s + 52)) * d := by
            rw [pow_add, pow_add]; ring
        _ = 2 ^ L * d := by rw [hk]
        _ ≤ n * 2 ^ s := hlo
    · apply Nat.lt_of_mul_lt_mul_right (a := 2 ^ s)
      calc n * 2 ^ s < 2 ^ (L + 1) * d := hhi
        _ = 2 ^ (L - (s + 52) + (s + 52) + 1) * d := by rw [hk]
        _ = 2 ^ 53 * (d * 2 ^ (L - (s + 52))) * 2 ^ s := by rw [pow_succ, pow_add, pow_add]; ring

-- ------------------------------------------------------------------ in terms of the rational that is rounded

theorem pow2_pos (e : Int) : 0 < pow2 e := by
  unfold pow2
  split
  · exact_mod_cast (by positivity : 0 < 2 ^ e.toNat)
  · apply div_pos one_pos
    exact_mod_cast (by positivity : 0 < 2 ^ (-e).toNat)

theorem scaled_ratio (n d : Nat) (e : Int) (hd : 0 < d) :
    ((scaledN n e : Nat) : Rat) / ((scaledD d e : Nat) : Rat) = ((n : Rat) / d) / pow2 e := by
  have hd' : (d : Rat) ≠ 0 := by exact_mod_cast hd.ne'
  unfold scaledN scaledD pow2
  by_cases h : e < 0
  · rw [if_pos h, if_pos h, if_neg (by omega)]
    have hp : (((2 ^ (-e).toNat : Nat)) : Rat) ≠ 0 := by exact_mod_cast (by positivity : (2 ^ (-e).toNat) ≠ 0)
    push_cast
    field_simp
  · rw [if_neg h, if_neg h, if_pos (by omega)]
    have hp : (((2 ^ e.toNat : Nat)) : Rat) ≠ 0 := by exact_mod_cast (by positivity : (2 ^ e.toNat) ≠ 0)
    push_cast
    field_simp

/-- `roundPos n d s` (for `n, d > 0`, `2^s > d`): a 53-bit significand, within half a unit in the last place of `n / d`,
    and an even significand whenever `n / d` lies exactly halfway between two neighbours -/
theorem roundPos_nearest (n d s : Nat) (hn : 0 < n) (hd : 0 < d) (hs : d < 2 ^ s) :
    (2 : Int) ^ 52 ≤ (roundPos n d s).m ∧ (roundPos n d s).m ≤ 2 ^ 53 ∧
    2 * |(roundPos n d s).toRat - (n : Rat) / d| ≤ pow2 (roundPos n d s).e ∧
    (2 * |(roundPos n d s).toRat - (n : Rat) / d| = pow2 (roundPos n d s).e → (roundPos n d s).m % 2 = 0) := by
  rw [roundPos_eq]
  obtain ⟨hD, hlo, hhi⟩ := binade n d s hn hd hs
  generalize expOf n d s = e at *
  generalize hN : scaledN n e = N at *
  generalize hDD : scaledD d e = D at *
  obtain ⟨r1, r2⟩ := rhe_range N D hD hlo hhi
  obtain ⟨s1, s2⟩ := rhe_spec N D hD
  generalize rhe N D = m at *
  have hratio := scaled_ratio n d e hd
  rw [hN, hDD] at hratio
  have hp := pow2_pos e
  have hDq : (0 : Rat) < D := by exact_mod_cast hD
  -- the error, as a multiple of the unit in the last place
  have herr : (Dy.toRat ⟨(m : Int), e⟩) - (n : Rat) / d = pow2 e * ((((m : Int) * D - N : Int) : Rat) / D) := by
    have : (n : Rat) / d = ((N : Rat) / D) * pow2 e := by rw [hratio]; field_simp
    rw [this]
    simp only [Dy.toRat]
    push_cast
    field_simp
  have habs : 2 * |(Dy.toRat ⟨(m : Int), e⟩) - (n : Rat) / d| = pow2 e * (((2 * |(m : Int) * D - N| : Int) : Rat) / D) := by
    rw [herr, abs_mul, abs_of_pos hp, abs_div, abs_of_pos hDq]
    push_cast
    ring
  refine ⟨by show (2 : Int) ^ 52 ≤ ((m : Nat) : Int); exact_mod_cast r1,
    by show ((m : Nat) : Int) ≤ 2 ^ 53; exact_mod_cast r2, ?_, ?_⟩
  · rw [habs]
    have : (((2 * |(m : Int) * D - N| : Int) : Rat) / D) ≤ 1 := by
      rw [div_le_one hDq]; exact_mod_cast s1
    calc pow2 e * (((2 * |(m : Int) * D - N| : Int) : Rat) / D) ≤ pow2 e * 1 := by
          exact mul_le_mul_of_nonneg_left this hp.le
      _ = pow2 e := mul_one _
  · intro h
    rw [habs] at h
    have h1 : (((2 * |(m : Int) * D - N| : Int) : Rat) / D) = 1 := by
      have := mul_left_cancel₀ hp.ne' (h.trans (mul_one _).symm)
      exact this
    rw [div_eq_one_iff_eq hDq.ne'] at h1
    have h2 : 2 * |(m : Int) * D - N| = (D : Int) := by exact_mod_cast h1
    have := s2 h2
    show ((m : Nat) : Int) % 2 = 0
    omega

end C17R
