/-
C11 — helper lemmas about the duration tables and the estimator (Model/Durations.lean).
-/
import PartituraModel.Model.Durations
import PartituraModel.Proofs.Round
import Mathlib.Tactic.Linarith
import Mathlib.Tactic.FieldSimp
import Mathlib.Tactic.Ring
import Mathlib.Tactic.Push
import Mathlib.Algebra.Order.Ring.Abs
import Mathlib.Algebra.Order.Field.Rat
import Mathlib.Algebra.Order.Field.Basic

namespace C11Dur
open Model Model.Dur Gen

/-! ### whole-table facts (kernel decision over the regenerated tables) -/

/-- row-wise: `SYM_DURS[i]` denotes `DURS[i]` quarters, which is a multiple of 1/512 -/
def durRowOK (p : Rat × SymDur) : Bool :=
  decide (symbolicToNumeric p.2 1 = some p.1) && decide ((p.1 * 512).den = 1) && decide (0 < p.1)

theorem dur_rows : DURS.length = SYM_DURS.length ∧ (DURS.zip SYM_DURS).all durRowOK = true := by
  decide +kernel

def straightRowOK (p : Rat × SymDur) : Bool :=
  decide (lookup p.2.1 LABEL_DURS = some p.1) && decide ((p.1 * 64).den = 1) && decide (0 < p.1)

theorem straight_rows : STRAIGHT_DURS.length = SYM_STRAIGHT_DURS.length ∧
    (STRAIGHT_DURS.zip SYM_STRAIGHT_DURS).all straightRowOK = true := by
  decide +kernel

/-! ### arithmetic helpers -/

theorem absR_eq (x : Rat) : absR x = |x| := by
  unfold absR; split
  · rw [abs_of_neg ‹_›]
  · rw [abs_of_nonneg (not_lt.mp ‹_›)]

theorem numeric_scale (sd : SymDur) (d v : Rat) (h : symbolicToNumeric sd 1 = some d) :
    symbolicToNumeric sd v = some (v * d) := by
  obtain ⟨ty, dots, a, n⟩ := sd
  unfold symbolicToNumeric at h ⊢
  simp only at h ⊢
  split at h
  · rename_i d' m h1 h2
    simp only [Option.some.injEq] at h ⊢
    rw [← h]; ring
  · simp at h

theorem int_small_zero (z : Int) (h : |(z : Rat)| < 1) : z = 0 := by
  rw [abs_lt] at h
  have h1 : (-1 : Int) < z := by exact_mod_cast h.1
  have h2 : z < (1 : Int) := by exact_mod_cast h.2
  omega

theorem zero_of_scaled_small (x : Rat) (N : Rat) (hN : 0 < N) (hx : (x * N).den = 1) (h : |x| * N < 1) : x = 0 := by
  have h1 : ((x * N).num : Rat) = x * N := Rat.coe_int_num_of_den_eq_one hx
  have h2 : |((x * N).num : Rat)| < 1 := by
    rw [h1, abs_mul, abs_of_pos hN]; exact h
  have h3 := int_small_zero _ h2
  rw [h3] at h1
  have : x * N = 0 := by rw [← h1]; simp
  rcases mul_eq_zero.mp this with h | h
  · exact h
  · linarith

/-! ### the table branch -/

theorem dur_row (i : Nat) (d : Rat) (sd : SymDur) (hd : DURS[i]? = some d) (hs : SYM_DURS[i]? = some sd) :
    symbolicToNumeric sd 1 = some d ∧ (d * 512).den = 1 ∧ 0 < d := by
  have hz : (DURS.zip SYM_DURS)[i]? = some (d, sd) := by
    rw [List.getElem?_zip_eq_some]; exact ⟨hd, hs⟩
  have hm := List.mem_of_getElem? hz
  have := (List.all_eq_true.mp dur_rows.2) _ hm
  simpa [durRowOK, and_assoc] using this

theorem straight_row (k : Nat) (s : Rat) (ss : SymDur) (hd : STRAIGHT_DURS[k]? = some s)
    (hs : SYM_STRAIGHT_DURS[k]? = some ss) :
    lookup ss.1 LABEL_DURS = some s ∧ (s * 64).den = 1 ∧ 0 < s := by
  have hz : (STRAIGHT_DURS.zip SYM_STRAIGHT_DURS)[k]? = some (s, ss) := by
    rw [List.getElem?_zip_eq_some]; exact ⟨hd, hs⟩
  have hm := List.mem_of_getElem? hz
  have := (List.all_eq_true.mp straight_rows.2) _ hm
  simpa [straightRowOK, and_assoc] using this

/-- scaling a den-1 fact: if `(d*512).den = 1` then `((dur - d*div) * 512).den = 1` for naturals -/
theorem den_one_comb (d : Rat) (N : Nat) (a b : Int) (h : (d * N).den = 1) : ((a - d * b) * N).den = 1 := by
  have h1 : ((d * N).num : Rat) = d * N := Rat.coe_int_num_of_den_eq_one h
  have : (a - d * b) * N = ((a * N - (d * N).num * b : Int) : Rat) := by
    push_cast; rw [h1]; ring
  rw [this]; exact Rat.den_intCast _

theorem table_back (dur div : Nat) (hdiv : 0 < div) (i : Nat) (d : Rat) (sd : SymDur)
    (hd : DURS[i]? = some d) (hs : SYM_DURS[i]? = some sd)
    (hclose : absR ((dur : Rat) / div - d) < eps / div) :
    symbolicToNumeric sd div = some (dur : Rat) := by
  obtain ⟨hnum, hden, _⟩ := dur_row i d sd hd hs
  rw [numeric_scale sd d div hnum]
  have hdivq : (0 : Rat) < div := by exact_mod_cast hdiv
  rw [absR_eq] at hclose
  have e1 : (dur : Rat) / div - d = ((dur : Rat) - d * div) / div := by field_simp
  rw [e1, abs_div, abs_of_pos hdivq, div_lt_div_iff_of_pos_right hdivq] at hclose
  have hz : (dur : Rat) - d * div = 0 := by
    apply zero_of_scaled_small _ 512 (by norm_num)
    · have := den_one_comb d 512 (dur : Int) (div : Int) (by simpa using hden)
      simpa using this
    · unfold eps Gen.C11.estimateEps at hclose; linarith
  congr 1; linarith

/-! ### the tuplet branch -/

theorem tupletLoop_spec (s qdur tol : Rat) : ∀ (fuel start n : Nat) (a : Int),
    tupletLoop s qdur tol fuel start = some (n, a) →
    start ≤ n ∧ a = roundHalfEven ((n : Rat) * s / qdur) ∧ absR ((n : Rat) * s / qdur - (a : Rat)) ≤ tol := by
  intro fuel
  induction fuel with
  | zero => intro start n a h; simp [tupletLoop] at h
  | succ f ih =>
    intro start n a h
    unfold tupletLoop at h
    simp only at h
    split at h
    · obtain ⟨h1, h2, h3⟩ := ih _ _ _ h
      exact ⟨by omega, h2, h3⟩
    · rename_i hc
      simp only [Option.some.injEq, Prod.mk.injEq] at h
      obtain ⟨rfl, rfl⟩ := h
      exact ⟨le_refl _, rfl, not_lt.mp hc⟩

theorem tuplet_back (dur div : Nat) (hdiv : 0 < div) (hdur : 0 < dur) (hq : ¬ ((dur : Rat) / div > 4))
    (sd : SymDur) (h : tupletGuess (dur : Rat) ((dur : Rat) / div) (eps / div) = some (.single sd)) :
    symbolicToNumeric sd div = some (dur : Rat) := by
  unfold tupletGuess at h
  rw [show Gen.C11.tupletFirstNormal = 2 from rfl] at h
  simp only at h
  split at h
  · rename_i s ss hs hss
    obtain ⟨hlab, hden, hspos⟩ := straight_row _ s ss hs hss
    split at h
    · rename_i n a hloop
      split at h
      · simp at h
      · rename_i ha
        simp only [Option.some.injEq, Est.single.injEq] at h
        subst h
        obtain ⟨hn2, _, hclose⟩ := tupletLoop_spec _ _ _ _ _ _ _ hloop
        have hdivq : (0 : Rat) < div := by exact_mod_cast hdiv
        have hdurq : (0 : Rat) < dur := by exact_mod_cast hdur
        have hnq : (2 : Rat) ≤ n := by exact_mod_cast hn2
        rw [absR_eq] at hclose
        have e1 : (n : Rat) * s / ((dur : Rat) / div) - (a : Rat) = ((n : Rat) * s * div - a * dur) / dur := by
          field_simp
        rw [e1, abs_div, abs_of_pos hdurq, div_le_iff₀ hdurq] at hclose
        have hq' : (dur : Rat) / div ≤ 4 := not_lt.mp hq
        rw [div_le_iff₀ hdivq] at hq'
        -- |x| ≤ eps/div * dur ≤ 4 eps
        have hx : |(n : Rat) * s * div - a * dur| ≤ 4 / 1000 := by
          have : eps / (div : Rat) * dur ≤ 4 / 1000 := by
            unfold eps Gen.C11.estimateEps
            rw [div_mul_eq_mul_div, div_le_iff₀ hdivq]
            linarith
          linarith
        have hz : (n : Rat) * s * div - a * dur = 0 := by
          apply zero_of_scaled_small _ 64 (by norm_num)
          · have h1 : ((s * 64).num : Rat) = s * 64 := Rat.coe_int_num_of_den_eq_one hden
            have : ((n : Rat) * s * div - a * dur) * 64 = (((n : Int) * (s * 64).num * (div : Int) - a * (dur : Int) * 64 : Int) : Rat) := by
              push_cast; rw [h1]; ring
            rw [this]; exact Rat.den_intCast _
          · linarith
        -- a > 0
        have hapos : (0 : Rat) < a := by
          have : (0 : Rat) < (n : Rat) * s * div := by positivity
          have h2 : (0 : Rat) < a * dur := by linarith
          by_contra hc
          have : (a : Rat) ≤ 0 := not_lt.mp hc
          nlinarith
        have hai : 0 < a := by exact_mod_cast hapos
        have hatn : ((a.toNat : Nat) : Rat) = (a : Rat) := by
          have : ((a.toNat : Nat) : Int) = a := Int.toNat_of_nonneg (le_of_lt hai)
          exact_mod_cast this
        unfold symbolicToNumeric
        simp only [hlab]
        have hdm : DOT_MULTIPLIERS[0]? = some 1 := by decide
        simp only [hdm, Option.getD_some, hatn]
        have hn0 : ¬ ((n : Rat) = 0) := by linarith
        have ha0 : ¬ ((a : Rat) = 0) := ne_of_gt hapos
        simp only [hn0, ha0, if_false, Option.some.injEq]
        field_simp
        linarith
    · simp at h
  · simp at h

/-! ### assembling -/

theorem rest_back (dur div : Nat) (hdiv : 0 < div) (hdur : 0 < dur) (c : Bool) (sd : SymDur)
    (h : estimateRest (dur : Rat) ((dur : Rat) / div) (eps / div) c = some (.single sd)) :
    symbolicToNumeric sd div = some (dur : Rat) := by
  unfold estimateRest at h
  rw [show Gen.C11.tupletMaxQuarters = (4 : Rat) from rfl] at h
  simp only at h
  split at h
  · split at h
    · cases c <;> simp at h
    · split at h
      · simp at h
      · rename_i hq
        exact tuplet_back dur div hdiv hdur hq sd h
  · simp at h

theorem estimate_back' (dur div : Nat) (c : Bool) (sd : SymDur)
    (h : estimate (dur : Rat) div c = some (.single sd)) : symbolicToNumeric sd div = some (dur : Rat) := by
  unfold estimate at h
  split at h
  · simp at h
  · rename_i hdiv0
    have hdiv : 0 < div := Nat.pos_of_ne_zero hdiv0
    have hdivq : (0 : Rat) < div := by exact_mod_cast hdiv
    split at h
    · simp at h
    · simp only at h
      split at h
      · simp at h
      · rename_i hq0
        have hdur : 0 < dur := by
          rcases Nat.eq_zero_or_pos dur with h0 | h0
          · exfalso; apply hq0; rw [h0]; simp
          · exact h0
        split at h
        · rename_i d sd' hd hs
          split at h
          · rename_i hclose
            simp only [Option.some.injEq, Est.single.injEq] at h
            subst h
            exact table_back dur div hdiv _ d sd' hd hs hclose
          · exact rest_back dur div hdiv hdur c sd h
        · simp at h

/-! ### the estimator always answers on integers (fuel adequacy) -/

theorem searchsorted_le_length (a : List Rat) (v : Rat) : searchsortedLeft a v ≤ a.length := by
  unfold searchsortedLeft
  exact (List.takeWhile_sublist _).length_le

theorem findNearest_lt (a : List Rat) (v : Rat) (h : 0 < a.length) : findNearest a v < a.length := by
  unfold findNearest
  simp only
  have hle := searchsorted_le_length a v
  split
  · exact h
  · rename_i h0
    split
    · rename_i lo hi h1 h2
      have : searchsortedLeft a v < a.length := (List.getElem?_eq_some_iff.mp h2).1
      split <;> omega
    · omega

/-- if `a[j]` is not below `v`, the left insertion point of `v` is at most `j` -/
theorem searchsorted_le_of (a : List Rat) (v : Rat) : ∀ (j : Nat) (x : Rat), a[j]? = some x → ¬ (x < v) →
    searchsortedLeft a v ≤ j := by
  induction a with
  | nil => intro j x h; simp at h
  | cons b bs ih =>
    intro j x h hx
    unfold searchsortedLeft
    rw [List.takeWhile_cons]
    split
    · rename_i hb
      cases j with
      | zero =>
        simp only [List.getElem?_cons_zero, Option.some.injEq] at h
        subst h; simp at hb; exact absurd hb hx
      | succ j' =>
        simp only [List.getElem?_cons_succ] at h
        have := ih j' x h hx
        unfold searchsortedLeft at this
        simp only [List.length_cons]; omega
    · simp

theorem tupletLoop_total (s qdur tol : Rat) (N : Nat)
    (hstop : ¬ (absR ((N : Rat) * s / qdur - ((roundHalfEven ((N : Rat) * s / qdur) : Int) : Rat)) > tol)) :
    ∀ (fuel start : Nat), start ≤ N → N < start + fuel → ∃ r, tupletLoop s qdur tol fuel start = some r := by
  intro fuel
  induction fuel with
  | zero => intro start h1 h2; omega
  | succ f ih =>
    intro start h1 h2
    unfold tupletLoop
    simp only
    split
    · rename_i hc
      have hne : start ≠ N := by
        intro he; subst he; exact hstop hc
      exact ih (start + 1) (by omega) (by omega)
    · exact ⟨_, rfl⟩

theorem tupletFuel_nat (dur : Nat) : tupletFuel (dur : Rat) = 64 * dur + 2 := by
  unfold tupletFuel
  have : ((dur : Nat) : Rat) = ((dur : Int) : Rat) := by simp
  rw [this, Rat.ceil_intCast]
  simp

theorem tupletGuess_total (dur div : Nat) (hdiv : 0 < div) (hdur : 0 < dur) (hq : ¬ ((dur : Rat) / div > 4)) :
    ∃ sd, tupletGuess (dur : Rat) ((dur : Rat) / div) (eps / div) = some (.single sd) := by
  have hdivq : (0 : Rat) < div := by exact_mod_cast hdiv
  have hdurq : (0 : Rat) < dur := by exact_mod_cast hdur
  have hk : searchsortedLeft STRAIGHT_DURS ((dur : Rat) / div) ≤ 8 :=
    searchsorted_le_of STRAIGHT_DURS _ 8 4 (by decide) (by intro h; exact hq h)
  have hl1 : STRAIGHT_DURS.length = 11 := by decide
  have hl2 : SYM_STRAIGHT_DURS.length = 11 := by decide
  obtain ⟨s, hs⟩ : ∃ s, STRAIGHT_DURS[searchsortedLeft STRAIGHT_DURS ((dur : Rat) / div)]? = some s :=
    ⟨_, List.getElem?_eq_getElem (by omega)⟩
  obtain ⟨ss, hss⟩ : ∃ ss, SYM_STRAIGHT_DURS[searchsortedLeft STRAIGHT_DURS ((dur : Rat) / div)]? = some ss :=
    ⟨_, List.getElem?_eq_getElem (by omega)⟩
  obtain ⟨_, hden, hspos⟩ := straight_row _ s ss hs hss
  have htol : (0 : Rat) < eps / div := by unfold eps Gen.C11.estimateEps; positivity
  -- the loop stops at 64·dur at the latest
  have hstop : ¬ (absR (((64 * dur : Nat) : Rat) * s / ((dur : Rat) / div) -
      ((roundHalfEven (((64 * dur : Nat) : Rat) * s / ((dur : Rat) / div)) : Int) : Rat)) > eps / div) := by
    have h1 : ((s * 64).num : Rat) = s * 64 := Rat.coe_int_num_of_den_eq_one hden
    have e : ((64 * dur : Nat) : Rat) * s / ((dur : Rat) / div) = (((s * 64).num * (div : Int) : Int) : Rat) := by
      push_cast; rw [h1]; field_simp
    rw [e, Round.roundHalfEven_int, sub_self, absR_eq, abs_zero]
    exact not_lt.mpr (le_of_lt htol)
  obtain ⟨⟨n, a⟩, hr⟩ := tupletLoop_total s _ _ (64 * dur) hstop (tupletFuel (dur : Rat)) 2 (by omega)
    (by rw [tupletFuel_nat]; omega)
  obtain ⟨hn2, ha, _⟩ := tupletLoop_spec _ _ _ _ _ _ _ hr
  have hapos : ¬ (a < 0) := by
    have hr0 : (0 : Rat) ≤ (n : Rat) * s / ((dur : Rat) / div) := by positivity
    have := Round.roundHalfEven_mono hr0
    have h0 : roundHalfEven (0 : Rat) = 0 := by
      have := Round.roundHalfEven_int 0; simpa using this
    rw [h0] at this
    omega
  refine ⟨(ss.1, 0, some a.toNat, some n), ?_⟩
  unfold tupletGuess
  rw [show Gen.C11.tupletFirstNormal = 2 from rfl]
  simp only [hs, hss, hr, hapos, if_false]

theorem estimateRest_total (dur div : Nat) (hdiv : 0 < div) (hdur : 0 < dur) (c : Bool) :
    ∃ e, estimateRest (dur : Rat) ((dur : Rat) / div) (eps / div) c = some e := by
  unfold estimateRest
  rw [show Gen.C11.tupletMaxQuarters = (4 : Rat) from rfl]
  simp only
  have hl1 : 0 < COMPOSITE_DURS.length := by decide
  have hl2 : COMPOSITE_DURS.length = SYM_COMPOSITE_DURS.length := by decide
  have hj := findNearest_lt COMPOSITE_DURS ((dur : Rat) / div) hl1
  rw [List.getElem?_eq_getElem hj, List.getElem?_eq_getElem (by omega)]
  simp only
  split
  · exact ⟨_, rfl⟩
  · split
    · exact ⟨_, rfl⟩
    · rename_i hq
      obtain ⟨sd, h⟩ := tupletGuess_total dur div hdiv hdur hq
      exact ⟨_, h⟩

theorem estimate_total' (dur div : Nat) (hdiv : 0 < div) (c : Bool) : ∃ e, estimate (dur : Rat) div c = some e := by
  unfold estimate
  have hdiv0 : ¬ (div = 0) := by omega
  have hneg : ¬ ((dur : Rat) < 0) := by
    have : (0 : Rat) ≤ dur := by exact_mod_cast Nat.zero_le dur
    exact not_lt.mpr this
  simp only [hdiv0, hneg, if_false]
  split
  · exact ⟨_, rfl⟩
  · rename_i hq0
    have hdur : 0 < dur := by
      rcases Nat.eq_zero_or_pos dur with h0 | h0
      · exfalso; apply hq0; rw [h0]; simp
      · exact h0
    have hl1 : 0 < DURS.length := by decide
    have hi := findNearest_lt DURS ((dur : Rat) / div) hl1
    rw [List.getElem?_eq_getElem hi, List.getElem?_eq_getElem (by rw [← dur_rows.1]; exact hi)]
    simp only
    split
    · exact ⟨_, rfl⟩
    · exact estimateRest_total dur div hdiv hdur c

/-! ### shape of the answer without composite durations -/

theorem estimate_false_shape (dur : Rat) (div : Nat) (e : Est) (h : estimate dur div false = some e) :
    e = .empty ∨ ∃ sd, e = .single sd := by
  unfold estimate at h
  split at h
  · simp at h
  · split at h
    · simp at h
    · simp only at h
      split at h
      · left; simpa using h.symm
      · split at h
        · split at h
          · right; exact ⟨_, by simpa using h.symm⟩
          · unfold estimateRest at h
            rw [show Gen.C11.tupletMaxQuarters = (4 : Rat) from rfl] at h
            simp only at h
            split at h
            · split at h
              · left; simpa using h.symm
              · split at h
                · left; simpa using h.symm
                · unfold tupletGuess at h
                  rw [show Gen.C11.tupletFirstNormal = 2 from rfl] at h
                  simp only at h
                  split at h
                  · split at h
                    · split at h
                      · simp at h
                      · right; exact ⟨_, by simpa using h.symm⟩
                    · simp at h
                  · simp at h
            · simp at h
        · simp at h

theorem estimate_truthy_single (dur : Rat) (div : Nat) (e : Est) (h : estimate dur div false = some e)
    (ht : e.truthy = true) : ∃ sd, e = .single sd := by
  rcases estimate_false_shape dur div e h with h1 | h1
  · subst h1; simp [Est.truthy] at ht
  · exact h1

/-! ### composite answers (`return_com_durations=True`) -/


/-- exact value of a composite row: the sum of its members at one division per quarter -/
def compRowOK (p : Rat × List SymDur) : Bool :=
  match numericSum p.2 1 with
  | some c => decide (absR (c - p.1) ≤ 1 / 1125899906842624) && decide ((c * 24).den = 1)
  | none => false

theorem comp_rows : COMPOSITE_DURS.length = SYM_COMPOSITE_DURS.length ∧
    (COMPOSITE_DURS.zip SYM_COMPOSITE_DURS).all compRowOK = true := by
  decide +kernel

theorem numericSum_scale : ∀ (l : List SymDur) (c v : Rat), numericSum l 1 = some c → numericSum l v = some (v * c) := by
  intro l
  induction l with
  | nil => intro c v h; simp [numericSum] at h ⊢; rw [← h]; simp
  | cons sd rest ih =>
    intro c v h
    unfold numericSum at h ⊢
    simp only [List.foldr_cons] at h ⊢
    cases h1 : symbolicToNumeric sd 1 with
    | none => rw [h1] at h; simp at h
    | some x =>
      cases h2 : numericSum rest 1 with
      | none => unfold numericSum at h2; rw [h1, h2] at h; simp at h
      | some y =>
        have h2' := h2
        unfold numericSum at h2'
        rw [h1, h2'] at h
        simp only [Option.some.injEq] at h
        have i1 := numeric_scale sd x v h1
        have i2 := ih y v h2
        unfold numericSum at i2
        rw [i1, i2]
        simp only [Option.some.injEq]
        rw [← h]; ring


theorem comp_row (j : Nat) (cf : Rat) (sc : List SymDur) (hd : COMPOSITE_DURS[j]? = some cf)
    (hs : SYM_COMPOSITE_DURS[j]? = some sc) :
    ∃ c, numericSum sc 1 = some c ∧ |c - cf| ≤ 1 / 1125899906842624 ∧ (c * 24).den = 1 := by
  have hz : (COMPOSITE_DURS.zip SYM_COMPOSITE_DURS)[j]? = some (cf, sc) := by
    rw [List.getElem?_zip_eq_some]; exact ⟨hd, hs⟩
  have hm := List.mem_of_getElem? hz
  have := (List.all_eq_true.mp comp_rows.2) _ hm
  unfold compRowOK at this
  simp only at this
  split at this
  · rename_i c hc
    simp only [Bool.and_eq_true, decide_eq_true_eq] at this
    exact ⟨c, hc, by rw [← absR_eq]; exact this.1, this.2⟩
  · simp at this

/-- with `return_com_durations=True`: the tied values of a composite answer add up to the duration
    (for every divisions value up to 2⁴⁰; the composite table holds binary64 values) -/
theorem composite_back (dur div : Nat) (hdiv : 0 < div) (hbig : div ≤ 1099511627776) (c : Bool) (l : List SymDur)
    (h : estimate (dur : Rat) div c = some (.composite l)) : numericSum l div = some (dur : Rat) := by
  have hdivq : (0 : Rat) < div := by exact_mod_cast hdiv
  unfold estimate at h
  have hdiv0 : ¬ (div = 0) := by omega
  simp only [hdiv0, if_false] at h
  split at h
  · simp at h
  · split at h
    · simp at h
    · split at h
      · split at h
        · simp at h
        · unfold estimateRest at h
          rw [show Gen.C11.tupletMaxQuarters = (4 : Rat) from rfl] at h
          simp only at h
          split at h
          · rename_i cf sc hcf hsc
            split at h
            · rename_i hclose
              cases c with
              | false => simp at h
              | true =>
                simp only [if_true, Option.some.injEq, Est.composite.injEq] at h
                subst h
                obtain ⟨ce, hnum, hnear, hden⟩ := comp_row _ cf sc hcf hsc
                rw [numericSum_scale sc ce div hnum]
                rw [absR_eq] at hclose
                have e1 : (dur : Rat) / div - cf = ((dur : Rat) - cf * div) / div := by field_simp
                rw [e1, abs_div, abs_of_pos hdivq, div_lt_div_iff_of_pos_right hdivq] at hclose
                have hbq : (div : Rat) ≤ 1099511627776 := by exact_mod_cast hbig
                have hz : (dur : Rat) - ce * div = 0 := by
                  apply zero_of_scaled_small _ 24 (by norm_num)
                  · have := den_one_comb ce 24 (dur : Int) (div : Int) (by simpa using hden)
                    simpa using this
                  · have t1 : |(dur : Rat) - ce * div| ≤ |(dur : Rat) - cf * div| + |ce - cf| * div := by
                      have : (dur : Rat) - ce * div = ((dur : Rat) - cf * div) - (ce - cf) * div := by ring
                      rw [this]
                      calc |((dur : Rat) - cf * div) - (ce - cf) * div|
                          ≤ |(dur : Rat) - cf * div| + |(ce - cf) * div| := abs_sub _ _
                        _ = |(dur : Rat) - cf * div| + |ce - cf| * div := by rw [abs_mul, abs_of_pos hdivq]
                    have t2 : |ce - cf| * (div : Rat) ≤ 1 / 1125899906842624 * 1099511627776 :=
                      mul_le_mul hnear hbq (le_of_lt hdivq) (by norm_num)
                    unfold eps Gen.C11.estimateEps at hclose
                    norm_num at t2
                    linarith
                congr 1; linarith
            · split at h
              · simp at h
              · unfold tupletGuess at h
                rw [show Gen.C11.tupletFirstNormal = 2 from rfl] at h
                simp only at h
                split at h
                · split at h
                  · split at h <;> simp at h
                  · simp at h
                · simp at h
          · simp at h
      · simp at h

end C11Dur
