/-
C02 helper lemmas, part 3: from a well-formed `Part` to a well-formed knot list.
-/
import PartituraModel.Proofs.C02Keys

namespace C02Proofs
open Model.TimeMap

/-- the (decidable) side conditions under which the maps are strictly increasing:
    at least two time points, positive divisions, positive signature numbers -/
def WF (p : Part) (m : Mode) : Prop :=
  2 ≤ p.npoints ∧ p.first < p.last ∧ (∀ e ∈ p.qd, 0 < e.2) ∧
  (m ≠ .quarter → ∀ s ∈ p.ts, 0 < s.beats ∧ 0 < s.beatType ∧ (m = .musical → 0 < s.mb))

instance (p : Part) (m : Mode) : Decidable (WF p m) := by
  unfold WF; infer_instance

theorem first_mem_keyTimes (p : Part) (m : Mode) : p.first ∈ keyTimes p m := by
  unfold keyTimes; rw [mem_sortedKeys]; simp

theorem last_mem_keyTimes (p : Part) (m : Mode) : p.last ∈ keyTimes p m := by
  unfold keyTimes; rw [mem_sortedKeys]; simp

theorem keyTimes_pairwise (p : Part) (m : Mode) : (keyTimes p m).Pairwise (· < ·) :=
  pairwise_sortedKeys _

theorem two_le_length_of_mem {l : List Int} {a b : Int} (ha : a ∈ l) (hb : b ∈ l) (hab : a ≠ b) :
    2 ≤ l.length := by
  match l, ha, hb with
  | [x], ha, hb =>
    simp only [List.mem_singleton] at ha hb
    exact absurd (ha.trans hb.symm) hab
  | _ :: _ :: _, _, _ => simp

theorem keypoints_times (p : Part) (m : Mode) : (keypoints p m).map (·.t) = keyTimes p m :=
  carry_times _ _ _ _ _

theorem keypoints_length (p : Part) (m : Mode) : (keypoints p m).length = (keyTimes p m).length := by
  rw [← keypoints_times, List.length_map]

theorem qdAssign_pos (qd : List (Int × Nat)) (h : ∀ e ∈ qd, 0 < e.2) : ∀ e ∈ qdAssign qd, (0 : Rat) < e.2 := by
  intro e he
  unfold qdAssign at he
  obtain ⟨a, ha, rfl⟩ := List.mem_map.mp he
  show (0 : Rat) < ((a.2 : Nat) : Rat)
  exact_mod_cast h a ha

theorem factorOf_pos (m : Mode) (s : TSig) (hb : 0 < s.beats) (ht : 0 < s.beatType) (hm : m = .musical → 0 < s.mb) :
    0 < factorOf m s := by
  have hb' : (0 : Rat) < s.beats := by exact_mod_cast hb
  have ht' : (0 : Rat) < s.beatType := by exact_mod_cast ht
  cases m with
  | quarter => simp [factorOf]
  | notated => simp only [factorOf]; exact div_pos ht' (by norm_num)
  | musical =>
    have hm' : (0 : Rat) < s.mb := by exact_mod_cast hm rfl
    simp only [factorOf]
    exact mul_pos (div_pos ht' (by norm_num)) (div_pos hm' hb')

theorem facAssign_pos (m : Mode) (ts : List TSig)
    (h : m ≠ .quarter → ∀ s ∈ ts, 0 < s.beats ∧ 0 < s.beatType ∧ (m = .musical → 0 < s.mb)) :
    ∀ e ∈ facAssign m ts, (0 : Rat) < e.2 := by
  intro e he
  cases m with
  | quarter => simp [facAssign] at he
  | notated =>
    simp only [facAssign] at he
    obtain ⟨s, hs, rfl⟩ := List.mem_map.mp he
    obtain ⟨h1, h2, h3⟩ := h (by decide) s hs
    exact factorOf_pos _ s h1 h2 h3
  | musical =>
    simp only [facAssign] at he
    obtain ⟨s, hs, rfl⟩ := List.mem_map.mp he
    obtain ⟨h1, h2, h3⟩ := h (by decide) s hs
    exact factorOf_pos _ s h1 h2 h3

theorem keypoints_ok (p : Part) (m : Mode) (h : WF p m) :
    KPsOK (keypoints p m) ∧ 2 ≤ (keypoints p m).length := by
  obtain ⟨_, hfl, hq, hts⟩ := h
  refine ⟨⟨?_, ?_⟩, ?_⟩
  · rw [keypoints_times]; exact keyTimes_pairwise p m
  · intro k hk
    constructor
    · have : (k.t, k.divs) ∈ carry1 (qdAssign p.qd) (keyTimes p m) 1 := by
        rw [← carry_divs (qdAssign p.qd) (facAssign m p.ts) (keyTimes p m) 1 1]
        exact List.mem_map.mpr ⟨k, hk, rfl⟩
      exact carry1_pos _ (qdAssign_pos p.qd hq) _ 1 (by norm_num) _ this
    · have : (k.t, k.fac) ∈ carry1 (facAssign m p.ts) (keyTimes p m) 1 := by
        rw [← carry_fac (qdAssign p.qd) (facAssign m p.ts) (keyTimes p m) 1 1]
        exact List.mem_map.mpr ⟨k, hk, rfl⟩
      exact carry1_pos _ (facAssign_pos m p.ts hts) _ 1 (by norm_num) _ this
  · rw [keypoints_length]
    exact two_le_length_of_mem (first_mem_keyTimes p m) (last_mem_keyTimes p m) (by omega)

theorem knots0_ok (p : Part) (m : Mode) (h : WF p m) : KnotsOK (knots (keypoints p m) 0) :=
  knots_ok _ 0 (keypoints_ok p m h).1 (keypoints_ok p m h).2

theorem finalKnots_ok (p : Part) (m : Mode) (h : WF p m) : KnotsOK (finalKnots p m) :=
  knotsOK_shift _ _ (knots0_ok p m h)

-- ------------------------------------------------------------------ abscissae of the knots

theorem knots_xs : ∀ (kps : List KP) (y : Rat), (knots kps y).map (·.1) = kps.map (fun k => (k.t : Rat))
  | [], _ => rfl
  | [_], _ => rfl
  | k :: k' :: rest, y => by
    simp only [knots, List.map_cons]
    rw [knots_xs (k' :: rest)]
    rfl

theorem shiftBy_xs (s : Rat) (ks : List (Rat × Rat)) : (shiftBy s ks).map (·.1) = ks.map (·.1) := by
  unfold shiftBy
  rw [List.map_map]
  rfl

theorem chain_mem_range : ∀ (rest : List (Rat × Rat)) (x0 y0 x : Rat),
    Chain x0 y0 rest → x ∈ rest.map (·.1) → x0 < x ∧ x ≤ lastX x0 rest
  | [], _, _, _, _, h => by simp at h
  | (x1, y1) :: rest, x0, y0, x, hc, h => by
    simp only [List.map_cons, List.mem_cons] at h
    simp only [lastX]
    rcases h with h | h
    · subst h
      exact ⟨hc.1, le_lastX rest _ y1 hc.2.2⟩
    · have := chain_mem_range rest x1 y1 x hc.2.2 h
      exact ⟨lt_trans hc.1 this.1, this.2⟩

theorem knot_mem_range (ks : List (Rat × Rat)) (hk : KnotsOK ks) (x : Rat) (h : x ∈ ks.map (·.1)) :
    firstX ks ≤ x ∧ x ≤ endX ks := by
  match ks, hk with
  | (x0, y0) :: rest, hk =>
    simp only [List.map_cons, List.mem_cons] at h
    show x0 ≤ x ∧ x ≤ lastX x0 rest
    rcases h with h | h
    · subst h; exact ⟨le_refl _, le_lastX rest _ y0 hk.2⟩
    · have := chain_mem_range rest x0 y0 x hk.2 h
      exact ⟨this.1.le, this.2⟩

theorem finalKnots_xs (p : Part) (m : Mode) :
    (finalKnots p m).map (·.1) = (keyTimes p m).map (fun (t : Int) => (t : Rat)) := by
  unfold finalKnots
  simp only
  rw [shiftBy_xs, knots_xs, ← keypoints_times, List.map_map]
  rfl

/-- first key time as the abscissa of the first knot -/
theorem firstX_finalKnots (p : Part) (m : Mode) (t : Int) (h : (keyTimes p m).head? = some t) :
    firstX (finalKnots p m) = (t : Rat) := by
  have hx := finalKnots_xs p m
  cases hk : keyTimes p m with
  | nil => rw [hk] at h; simp at h
  | cons a as =>
    rw [hk] at h hx
    simp only [List.head?_cons, Option.some.injEq] at h
    subst h
    cases hf : finalKnots p m with
    | nil => rw [hf] at hx; simp at hx
    | cons q rest =>
      rw [hf] at hx
      simp only [List.map_cons, List.cons.injEq] at hx
      obtain ⟨q1, q2⟩ := q
      exact hx.1

theorem firstX_knots0 (p : Part) (m : Mode) (t : Int) (h : (keyTimes p m).head? = some t) :
    firstX (knots (keypoints p m) 0) = (t : Rat) ∧ firstY (knots (keypoints p m) 0) = 0 := by
  have hx := keypoints_times p m
  cases hk : keyTimes p m with
  | nil => rw [hk] at h; simp at h
  | cons a as =>
    rw [hk] at h hx
    simp only [List.head?_cons, Option.some.injEq] at h
    subst h
    cases hf : keypoints p m with
    | nil => rw [hf] at hx; simp at hx
    | cons q rest =>
      rw [hf] at hx
      simp only [List.map_cons, List.cons.injEq] at hx
      rw [knots_eq]
      exact ⟨by show ((q.t : Int) : Rat) = _; rw [hx.1], rfl⟩

/-- in a strictly increasing list the head is the least element -/
theorem head_le_of_pairwise : ∀ (l : List Int) (a : Int), l.Pairwise (· < ·) → l.head? = some a →
    ∀ x ∈ l, a ≤ x
  | [], _, _, h => by simp at h
  | b :: rest, a, hp, h => by
    simp only [List.head?_cons, Option.some.injEq] at h
    subst h
    intro x hx
    rcases List.mem_cons.mp hx with hx | hx
    · omega
    · exact (List.pairwise_cons.mp hp |>.1 x hx).le

-- ------------------------------------------------------------------ adjacent knots, one stretch

theorem chain_adjacent : ∀ (l : List (Rat × Rat)) (a b u yu v yv : Rat) (post : List (Rat × Rat)),
    Chain a b (l ++ (u, yu) :: (v, yv) :: post) → u < v ∧ yu < yv
  | [], _, _, _, _, _, _, _, h => ⟨h.2.2.1, h.2.2.2.1⟩
  | (q1, q2) :: l, _, _, u, yu, v, yv, post, h => chain_adjacent l q1 q2 u yu v yv post h.2.2

theorem knotsOK_adjacent (pre : List (Rat × Rat)) (u yu v yv : Rat) (post : List (Rat × Rat))
    (hk : KnotsOK (pre ++ (u, yu) :: (v, yv) :: post)) : u < v ∧ yu < yv := by
  cases pre with
  | nil => exact ⟨hk.2.1, hk.2.2.1⟩
  | cons q pre' =>
    obtain ⟨q1, q2⟩ := q
    exact chain_adjacent pre' q1 q2 u yu v yv post hk.2

/-- on one segment of the (shifted) knots the map is linear with the segment's slope -/
theorem stretch_knots (s : Rat) (pre : List (Rat × Rat)) (u yu v yv : Rat) (post : List (Rat × Rat))
    (hok : KnotsOK (pre ++ (u, yu) :: (v, yv) :: post)) (a b : Rat)
    (ha : u ≤ a) (hab : a ≤ b) (hb : b ≤ v) :
    ∃ ya yb, interp (shiftBy s (pre ++ (u, yu) :: (v, yv) :: post)) a = some ya
      ∧ interp (shiftBy s (pre ++ (u, yu) :: (v, yv) :: post)) b = some yb
      ∧ yb - ya = (b - a) * ((yv - yu) / (v - u)) := by
  have e1 := interp_segment pre u yu v yv post a hok ha (le_trans hab hb)
  have e2 := interp_segment pre u yu v yv post b hok (le_trans ha hab) hb
  refine ⟨(yv - yu) / (v - u) * (a - u) + yu - s, (yv - yu) / (v - u) * (b - u) + yu - s, ?_, ?_, ?_⟩
  · rw [interp_shift s _ hok, e1]; rfl
  · rw [interp_shift s _ hok, e2]; rfl
  · ring

-- ------------------------------------------------------------------ values in force at the key points

theorem keyTimes_contains_qd (p : Part) (m : Mode) (s : Int) (h : lastAssoc (qdAssign p.qd) s ≠ none) :
    s ∈ keyTimes p m := by
  have := lastAssoc_key_mem _ s h
  unfold keyTimes
  rw [mem_sortedKeys]
  simp only [List.mem_cons, List.mem_append]
  exact Or.inr (Or.inr (Or.inl this))

theorem keyTimes_contains_ts (p : Part) (m : Mode) (s : Int) (h : lastAssoc (facAssign m p.ts) s ≠ none) :
    s ∈ keyTimes p m := by
  have := lastAssoc_key_mem _ s h
  unfold keyTimes
  rw [mem_sortedKeys]
  simp only [List.mem_cons, List.mem_append]
  exact Or.inr (Or.inr (Or.inr this))

theorem carried_inforce (assign : List (Int × Rat)) (keys : List Int) (hp : keys.Pairwise (· < ·))
    (hall : ∀ s, lastAssoc assign s ≠ none → s ∈ keys) :
    ∀ e ∈ carry1 assign keys 1, InForce assign 1 e.1 e.2 := by
  cases hk : keys with
  | nil => simp [carry1]
  | cons t0 rest =>
    rw [← hk]
    have hmin : ∀ x ∈ keys, t0 ≤ x := head_le_of_pairwise keys t0 hp (by rw [hk]; rfl)
    refine carry1_inforce assign 1 keys 1 t0 hp hmin (fun s _ hne => hall s hne) ?_
    refine Or.inr ⟨rfl, ?_⟩
    intro s' hs'
    by_contra hne
    have := hmin s' (hall s' hne)
    omega

-- ------------------------------------------------------------------ quarter_duration_map

theorem prevValue_before (cur : Nat) (t : Rat) : ∀ rest : List (Int × Nat),
    (∀ x ∈ rest, t < (x.1 : Rat)) → prevValue cur rest t = cur
  | [], _ => rfl
  | (t0, q) :: rest, h => by
    have : ¬ (t0 : Rat) ≤ t := not_le.mpr (h (t0, q) List.mem_cons_self)
    simp only [prevValue, if_neg this]

theorem prevValue_spec (t : Rat) (e : Int × Nat) (post : List (Int × Nat)) (he : (e.1 : Rat) ≤ t)
    (hpost : ∀ x ∈ post, t < (x.1 : Rat)) : ∀ (pre : List (Int × Nat)) (cur : Nat),
    (∀ x ∈ pre, (x.1 : Rat) ≤ t) → prevValue cur (pre ++ e :: post) t = e.2
  | [], cur, _ => by
    obtain ⟨e1, e2⟩ := e
    simp only [List.nil_append, prevValue, if_pos he]
    exact prevValue_before e2 t post hpost
  | (x1, x2) :: pre, cur, h => by
    have hx : (x1 : Rat) ≤ t := h (x1, x2) List.mem_cons_self
    simp only [List.cons_append, prevValue, if_pos hx]
    exact prevValue_spec t e post he hpost pre x2 (fun x hx' => h x (List.mem_cons_of_mem _ hx'))

theorem actualDur_some (ks : List (Rat × Rat)) (s e : Int) (a : Rat) (h : actualDur ks (s, e) = some a) :
    ∃ v0 v1, interp ks (s : Rat) = some v0 ∧ interp ks (e : Rat) = some v1 ∧ a = v1 - v0 := by
  unfold actualDur at h
  simp only at h
  cases h0 : interp ks (s : Rat) with
  | none => rw [h0] at h; cases h
  | some v0 =>
    cases h1 : interp ks (e : Rat) with
    | none => rw [h0, h1] at h; cases h
    | some v1 =>
      rw [h0, h1] at h
      injection h with h
      exact ⟨v0, v1, rfl, rfl, h.symm⟩

end C02Proofs
