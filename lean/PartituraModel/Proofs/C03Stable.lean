/-
C03 — `remove_voice_polyphony` is stable: the voices it produces are left alone by a second pass (the part of the byte
fixpoint that concerns the voice numbers of a re-exported score).
-/
import PartituraModel.Proofs.C03Voices

namespace C03.Stable
open Model.Xml C03.Sort C03.Voices

/-! ### a monophonic voice has no movers -/

theorem movers1_nil (ns : List NoteIn) (h : Monophonic ns) : movers1 ns = [] := by
  unfold movers1
  rw [List.filter_eq_nil_iff]
  intro n hn
  have hn' := List.mem_filter.mp (mem_isortBy.mp hn)
  have hg : n.grace = false := by simpa using hn'.2
  have hmem : n.dur ∈ (ns.filter fun m => !m.grace && m.onset == n.onset).map (·.dur) :=
    List.mem_map.mpr ⟨n, List.mem_filter.mpr ⟨hn'.1, by simp [hg]⟩, rfl⟩
  obtain ⟨d, hd, _, _⟩ := min?_some_of_mem hmem
  have hdm : d ∈ (ns.filter fun m => !m.grace && m.onset == n.onset).map (·.dur) := (List.min?_eq_some_iff.mp hd).1
  obtain ⟨m, hm, rfl⟩ := List.mem_map.mp hdm
  obtain ⟨hmns, hmc⟩ := List.mem_filter.mp hm
  have hmc' : m.grace = false ∧ m.onset = n.onset := by simpa using hmc
  have : m.dur = n.dur := h.1 m hmns n hn'.1 hmc'.1 hg hmc'.2
  have hcd : chordDur ns n.onset = some m.dur := hd
  simp [hcd, this]

theorem removeAll_nil (ns : List NoteIn) : removeAll ns [] = ns := by
  unfold removeAll
  simp

theorem movers2_nil (ns : List NoteIn) (h : Monophonic ns) : movers2 ns = [] := by
  unfold movers2
  rw [List.filter_eq_nil_iff]
  intro n hn
  have hn' : n ∈ ns := mem_isortBy.mp hn
  cases ho : nextOnset ns n.onset with
  | none => simp
  | some o2 =>
    have hom : o2 ∈ (ns.filter fun m => decide (n.onset < m.onset)).map (·.onset) := (List.min?_eq_some_iff.mp ho).1
    obtain ⟨b, hb, rfl⟩ := List.mem_map.mp hom
    obtain ⟨hbns, hbc⟩ := List.mem_filter.mp hb
    have hlt : n.onset < b.onset := by simpa using hbc
    have := h.2 n hn' b hbns hlt
    simp only [decide_eq_true_eq]
    omega

/-- `remove_voice_polyphony_single` on a voice MusicXML can hold: nothing moves, `voice_spans` and `extraneous` stay -/
theorem removeSingle_stable (ns : List NoteIn) (h : Monophonic ns) (spans : List Span) (ex : List (Nat × List NoteIn)) :
    removeSingle ns spans ex = (ns, spans, ex) := by
  unfold removeSingle
  simp only [movers1_nil ns h, removeAll_nil, movers2_nil ns h, assignMovers]

theorem removeLoop_stable (p : List (Nat × List NoteIn)) (h : ∀ vn ∈ p, Monophonic vn.2) (spans : List Span)
    (ex : List (Nat × List NoteIn)) : removeLoop spans ex p = (p, spans, ex) := by
  induction p generalizing spans ex with
  | nil => rfl
  | cons vn rest ih =>
    obtain ⟨v, ns⟩ := vn
    rw [removeLoop_cons, removeSingle_stable ns (h (v, ns) (by simp))]
    simp only [ih (fun vn hvn => h vn (List.mem_cons_of_mem _ hvn))]

/-- only timing and grace-ness matter: notes whose (onset, duration, grace) come from a monophonic voice are monophonic -/
theorem monophonic_of_timing (ms ns : List NoteIn) (h : Monophonic ms)
    (hsub : ∀ n ∈ ns, ∃ m ∈ ms, n.onset = m.onset ∧ n.dur = m.dur ∧ n.grace = m.grace) : Monophonic ns := by
  constructor
  · intro a ha b hb hga hgb hon
    obtain ⟨ma, hma, ha1, ha2, ha3⟩ := hsub a ha
    obtain ⟨mb, hmb, hb1, hb2, hb3⟩ := hsub b hb
    have := h.1 ma hma mb hmb (by rw [← ha3]; exact hga) (by rw [← hb3]; exact hgb) (by omega)
    omega
  · intro a ha b hb hlt
    obtain ⟨ma, hma, ha1, ha2, ha3⟩ := hsub a ha
    obtain ⟨mb, hmb, hb1, hb2, hb3⟩ := hsub b hb
    have := h.2 ma hma mb hmb (by omega)
    omega

/-! ### the new voices are monophonic too -/

theorem nonOverlap_symm {a b : NoteIn} (h : NonOverlap a b) : NonOverlap b a := fun hc => h ⟨hc.2, hc.1⟩

theorem pairwise_all (l : List NoteIn) (hp : l.Pairwise NonOverlap) : ∀ a ∈ l, ∀ b ∈ l, a ≠ b → NonOverlap a b := by
  induction l with
  | nil => intro a ha; cases ha
  | cons x xs ih =>
    obtain ⟨hx, hxs⟩ := List.pairwise_cons.mp hp
    intro a ha b hb hab
    rcases List.mem_cons.mp ha with ha' | ha' <;> rcases List.mem_cons.mp hb with hb' | hb'
    · exact absurd (ha'.trans hb'.symm) hab
    · rw [ha']; exact hx b hb'
    · rw [hb']; exact nonOverlap_symm (hx a ha')
    · exact ih hxs a ha' b hb' hab

/-- sounding notes that pairwise do not overlap form a voice MusicXML can hold -/
theorem monophonic_of_apart (ns : List NoteIn) (hp : ns.Pairwise NonOverlap) (hs : ∀ n ∈ ns, 0 < n.dur) : Monophonic ns := by
  have hall : ∀ a ∈ ns, ∀ b ∈ ns, a ≠ b → NonOverlap a b := pairwise_all ns hp
  constructor
  · intro a ha b hb _ _ hon
    by_cases hab : a = b
    · rw [hab]
    · exact absurd ⟨by have := hs b hb; omega, by have := hs a ha; omega⟩ (hall a ha b hb hab)
  · intro a ha b hb hlt
    have hab : a ≠ b := fun h => by rw [h] at hlt; omega
    have := hall a ha b hb hab
    unfold NonOverlap at this
    have hb0 := hs b hb
    omega

/-- what is moved sounds: members of `extraneous` have a positive duration -/
def Sounding (ex : List (Nat × List NoteIn)) : Prop := ∀ vn ∈ ex, ∀ n ∈ vn.2, 0 < n.dur

theorem sounding_addTo {ex : List (Nat × List NoteIn)} (h : Sounding ex) (v : Nat) (n : NoteIn) (hn : 0 < n.dur) :
    Sounding (addTo ex v n) := by
  intro vn hvn m hm
  rcases mem_addTo hvn with hvn | ⟨_, ⟨ms, hms, e⟩ | e⟩
  · exact h vn hvn m hm
  · rw [e] at hm
    rcases List.mem_append.mp hm with hm | hm
    · exact h _ hms m hm
    · simp at hm; subst hm; exact hn
  · rw [e] at hm; simp at hm; subst hm; exact hn

theorem sounding_assignMovers (ms : List NoteIn) (hms : ∀ n ∈ ms, 0 < n.dur) {spans : List Span}
    {ex : List (Nat × List NoteIn)} (h : Sounding ex) : Sounding (assignMovers spans ex ms).2 := by
  induction ms generalizing spans ex with
  | nil => exact h
  | cons n rest ih =>
    exact ih (fun m hm => hms m (List.mem_cons_of_mem _ hm)) (sounding_addTo h _ n (hms n (by simp)))

theorem movers1_sounding (ns : List NoteIn) : ∀ n ∈ movers1 ns, 0 < n.dur := by
  intro n hn
  unfold movers1 at hn
  have := (List.mem_filter.mp hn).2
  split at this
  · rename_i d _
    have : d < n.dur := by simpa using this
    omega
  · cases this

theorem movers2_sounding (ns : List NoteIn) : ∀ n ∈ movers2 ns, 0 < n.dur := by
  intro n hn
  unfold movers2 at hn
  have := (List.mem_filter.mp hn).2
  split at this
  · rename_i o2 ho
    have hom : o2 ∈ (ns.filter fun m => decide (n.onset < m.onset)).map (·.onset) := (List.min?_eq_some_iff.mp ho).1
    obtain ⟨b, hb, rfl⟩ := List.mem_map.mp hom
    have hlt : n.onset < b.onset := by simpa using (List.mem_filter.mp hb).2
    have : b.onset < n.onset + n.dur := by simpa using this
    omega
  · cases this

theorem sounding_removeSingle (ns : List NoteIn) {spans : List Span} {ex : List (Nat × List NoteIn)} (h : Sounding ex) :
    Sounding (removeSingle ns spans ex).2.2 := by
  rw [removeSingle_ex]
  exact sounding_assignMovers _ (movers2_sounding _) (sounding_assignMovers _ (movers1_sounding _) h)

theorem sounding_removeLoop (p : List (Nat × List NoteIn)) {spans : List Span} {ex : List (Nat × List NoteIn)}
    (h : Sounding ex) : Sounding (removeLoop spans ex p).2.2 := by
  induction p generalizing spans ex with
  | nil => exact h
  | cons vn rest ih =>
    obtain ⟨v, ns⟩ := vn
    rw [removeLoop_cons]
    exact ih (sounding_removeSingle ns h)

/-- every voice `remove_voice_polyphony` produces is one MusicXML can hold -/
theorem assignVoices_monophonic (notes : List NoteIn) (hnd : (notes.map (·.idx)).Nodup) :
    ∀ vn ∈ assignVoices notes, Monophonic vn.2 := by
  intro vn hvn
  rw [assignVoices_eq, List.mem_append] at hvn
  rcases hvn with hvn | hvn
  · have hp := partition_perm notes
    have hnd' : ∀ vn ∈ partitionVoices notes, (vn.2.map (·.idx)).Nodup := nodup_of_flat ((hp.map _).nodup_iff.mpr hnd)
    exact (kept_voices _ _ [] hnd' vn hvn).1
  · have hs : Sounding (removeLoop [Span.all (maxVoice (partitionVoices notes))] [] (partitionVoices notes)).2.2 :=
      sounding_removeLoop _ (fun vn h => by cases h)
    exact monophonic_of_apart vn.2 (new_voices_fresh notes vn hvn).2 (hs vn hvn)

end C03.Stable
