/-
C06 helper lemmas: what the written file holds, track by track and as a whole, under merging on either side.
-/
import PartituraModel.Model.PerfMidi
import PartituraModel.Proofs.C06Lists
import Mathlib.Data.List.Forall2

namespace C06Export
open Model Model.PerfMidi C06Sort C06Lists

variable {β : Type}

/-- the track numbers that receive a message, in increasing order: the j-th becomes file track j -/
def usedTracks (q : Rat → Int) (parts : List PPart) : List Nat :=
  uniqueSorted ((insertAll q parts).map (·.1))

-- the events of the performance with track number `tr`, with their ticks
def perfControls (q : Rat → Int) (parts : List PPart) (tr : Nat) : List (Int × Nat × Nat × Nat) :=
  parts.flatMap fun p => (p.controls.filter (fun c => decide (c.track = tr))).map fun c => (q c.time, c.num, c.val, c.ch)

def perfPrograms (q : Rat → Int) (parts : List PPart) (tr : Nat) : List (Int × Nat × Nat) :=
  parts.flatMap fun p => (p.programs.filter (fun c => decide (c.track = tr))).map fun c => (q c.time, c.prog, c.ch)

def perfTimeSigs (q : Rat → Int) (parts : List PPart) (tr : Nat) : List (Int × Nat × Nat) :=
  parts.flatMap fun p => (p.timeSigs.filter (fun c => decide (c.track = tr))).map fun c => (q c.time, c.num, c.den)

def perfKeySigs (q : Rat → Int) (parts : List PPart) (tr : Nat) : List (Int × Int × Bool) :=
  parts.flatMap fun p => (p.keySigs.filter (fun c => decide (c.track = tr))).map fun c => (q c.time, c.fifths, c.minor)

/-- entries of `meta_other` other than `end_of_track` -/
def perfMetas (q : Rat → Int) (parts : List PPart) (tr : Nat) : List (Int × Nat) :=
  parts.flatMap fun p => (p.metaOther.filter (fun c => decide (c.track = tr))).filterMap fun c => c.id.map fun i => (q c.time, i)

theorem filterMap_if {γ δ : Type} (l : List γ) (p : γ → Prop) [DecidablePred p] (f : γ → δ) :
    l.filterMap (fun c => if p c then some (f c) else none) = (l.filter (fun c => decide (p c))).map f := by
  induction l with
  | nil => rfl
  | cons c l ih =>
    by_cases h : p c <;> simp [h, ih]

theorem filterMap_if' {γ δ : Type} (l : List γ) (p : γ → Prop) [DecidablePred p] (f : γ → Option δ) :
    l.filterMap (fun c => if p c then f c else none) = (l.filter (fun c => decide (p c))).filterMap f := by
  induction l with
  | nil => rfl
  | cons c l ih =>
    by_cases h : p c
    · rw [List.filter_cons_of_pos (by simpa using h)]
      simp only [List.filterMap_cons, h, if_true]
      rw [ih]
    · rw [List.filter_cons_of_neg (by simpa using h)]
      simp only [List.filterMap_cons, h, if_false]
      exact ih

theorem evI_ctl_part (q : Rat → Int) (tr : Nat) (p : PPart) :
    evI gCtl tr (partEvents q p)
      = (p.controls.filter (fun c => decide (c.track = tr))).map fun c => (q c.time, c.num, c.val, c.ch) := by
  unfold partEvents
  simp only [evI_append]
  rw [evI_map_none gCtl tr p.metaOther _ (by intro c; cases h : c.id <;> simp [PMetaO.ev, h, gCtl]),
      evI_map_none gCtl tr p.keySigs _ (by intro c; rfl),
      evI_map_none gCtl tr p.timeSigs _ (by intro c; rfl),
      evI_map_none gCtl tr p.programs _ (by intro c; rfl),
      evI_notes_none gCtl (by intros; rfl) (by intros; rfl), evI_map]
  simp only [List.nil_append, List.append_nil, gCtl, Option.map_some]
  exact filterMap_if _ _ _

theorem evI_time_part (q : Rat → Int) (tr : Nat) (p : PPart) :
    evI gTime tr (partEvents q p)
      = (p.timeSigs.filter (fun c => decide (c.track = tr))).map fun c => (q c.time, c.num, c.den) := by
  unfold partEvents
  simp only [evI_append]
  rw [evI_map_none gTime tr p.metaOther _ (by intro c; cases h : c.id <;> simp [PMetaO.ev, h, gTime]),
      evI_map_none gTime tr p.keySigs _ (by intro c; rfl),
      evI_map_none gTime tr p.controls _ (by intro c; rfl),
      evI_map_none gTime tr p.programs _ (by intro c; rfl),
      evI_notes_none gTime (by intros; rfl) (by intros; rfl), evI_map]
  simp only [List.nil_append, List.append_nil, gTime, Option.map_some]
  exact filterMap_if _ _ _

theorem evI_key_part (q : Rat → Int) (tr : Nat) (p : PPart) :
    evI gKey tr (partEvents q p)
      = (p.keySigs.filter (fun c => decide (c.track = tr))).map fun c => (q c.time, c.fifths, c.minor) := by
  unfold partEvents
  simp only [evI_append]
  rw [evI_map_none gKey tr p.metaOther _ (by intro c; cases h : c.id <;> simp [PMetaO.ev, h, gKey]),
      evI_map_none gKey tr p.timeSigs _ (by intro c; rfl),
      evI_map_none gKey tr p.controls _ (by intro c; rfl),
      evI_map_none gKey tr p.programs _ (by intro c; rfl),
      evI_notes_none gKey (by intros; rfl) (by intros; rfl), evI_map]
  simp only [List.nil_append, List.append_nil, gKey, Option.map_some]
  exact filterMap_if _ _ _

theorem evI_prog_part (q : Rat → Int) (tr : Nat) (p : PPart) :
    evI gProg tr (partEvents q p)
      = (p.programs.filter (fun c => decide (c.track = tr))).map fun c => (q c.time, c.prog, c.ch) := by
  unfold partEvents
  simp only [evI_append]
  rw [evI_map_none gProg tr p.metaOther _ (by intro c; cases h : c.id <;> simp [PMetaO.ev, h, gProg]),
      evI_map_none gProg tr p.keySigs _ (by intro c; rfl),
      evI_map_none gProg tr p.timeSigs _ (by intro c; rfl),
      evI_map_none gProg tr p.controls _ (by intro c; rfl),
      evI_notes_none gProg (by intros; rfl) (by intros; rfl), evI_map]
  simp only [List.nil_append, List.append_nil, gProg, Option.map_some]
  exact filterMap_if _ _ _

theorem evI_meta_part (q : Rat → Int) (tr : Nat) (p : PPart) :
    evI gMeta tr (partEvents q p)
      = (p.metaOther.filter (fun c => decide (c.track = tr))).filterMap fun c => c.id.map fun i => (q c.time, i) := by
  unfold partEvents
  simp only [evI_append]
  rw [evI_map_none gMeta tr p.keySigs _ (by intro c; rfl),
      evI_map_none gMeta tr p.timeSigs _ (by intro c; rfl),
      evI_map_none gMeta tr p.controls _ (by intro c; rfl),
      evI_map_none gMeta tr p.programs _ (by intro c; rfl),
      evI_notes_none gMeta (by intros; rfl) (by intros; rfl), evI_map]
  simp only [List.append_nil]
  rw [filterMap_if']
  congr 1
  funext c
  cases h : c.id <;> simp [PMetaO.ev, h, gMeta]

theorem evI_tempo_part (q : Rat → Int) (tr : Nat) (p : PPart) : evI gTempo tr (partEvents q p) = [] := by
  unfold partEvents
  simp only [evI_append]
  rw [evI_map_none gTempo tr p.metaOther _ (by intro c; cases h : c.id <;> simp [PMetaO.ev, h, gTempo]),
      evI_map_none gTempo tr p.keySigs _ (by intro c; rfl),
      evI_map_none gTempo tr p.timeSigs _ (by intro c; rfl),
      evI_map_none gTempo tr p.controls _ (by intro c; rfl),
      evI_map_none gTempo tr p.programs _ (by intro c; rfl),
      evI_notes_none gTempo (by intros; rfl) (by intros; rfl)]
  rfl

-- ------------------------------------------------------------------ the tracks of the file

/-- file track j holds, for a selector that ignores tempo and program messages, exactly what the
    performance has on the j-th smallest used track number -/
theorem sel_exportAbs (g : Ev → Option β) (hprog : ∀ ch pr, g (Ev.program ch pr) = none)
    (htempo : ∀ m, g (Ev.tempo m) = none) (q : Rat → Int) (mpq : Nat) (parts : List PPart) :
    List.Forall₂ (fun tr t => (sel g t).Perm (parts.flatMap fun p => evI g tr (partEvents q p)))
      (usedTracks q parts) (exportAbs q mpq parts) := by
  have key : ∀ tr, (sel g (trackAbs (insertAll q parts) tr)).Perm
      (parts.flatMap fun p => evI g tr (partEvents q p)) := by
    intro tr
    rw [← evI_insertAll g hprog]
    exact sel_trackAbs g _ tr
  unfold exportAbs usedTracks
  dsimp only
  generalize uniqueSorted ((insertAll q parts).map (·.1)) = ks
  cases ks with
  | nil => exact List.Forall₂.nil
  | cons t0 ts =>
    refine List.Forall₂.cons ?_ ?_
    · rw [sel_cons_none g _ _ (htempo mpq)]
      exact key t0
    · rw [List.forall₂_map_right_iff]
      exact List.forall₂_same.mpr fun tr _ => key tr

/-- the same for programs, up to inserted `program_change 0` -/
theorem prog_exportAbs (q : Rat → Int) (mpq : Nat) (parts : List PPart) :
    List.Forall₂ (fun tr t => ∃ d : List (Int × Nat × Nat), (∀ x ∈ d, x.2.1 = 0) ∧
        (sel gProg t).Perm (perfPrograms q parts tr ++ d))
      (usedTracks q parts) (exportAbs q mpq parts) := by
  have key : ∀ tr, ∃ d : List (Int × Nat × Nat), (∀ x ∈ d, x.2.1 = 0) ∧
      (sel gProg (trackAbs (insertAll q parts) tr)).Perm (perfPrograms q parts tr ++ d) := by
    intro tr
    obtain ⟨d, hd, hp⟩ := evI_prog_foldl q tr parts []
    refine ⟨d, hd, (sel_trackAbs gProg _ tr).trans ?_⟩
    have : (fun p => evI gProg tr (partEvents q p))
        = fun p => (p.programs.filter (fun c => decide (c.track = tr))).map fun c => (q c.time, c.prog, c.ch) := by
      funext p; exact evI_prog_part q tr p
    rw [evI_nil, List.nil_append, this] at hp
    exact hp
  unfold exportAbs usedTracks
  dsimp only
  generalize uniqueSorted ((insertAll q parts).map (·.1)) = ks
  cases ks with
  | nil => exact List.Forall₂.nil
  | cons t0 ts =>
    refine List.Forall₂.cons ?_ ?_
    · rw [sel_cons_none gProg _ _ (by rfl)]
      exact key t0
    · rw [List.forall₂_map_right_iff]
      exact List.forall₂_same.mpr fun tr _ => key tr

/-- a statement about every file track: the first holds `set_tempo` and then the bucket-sorted messages of
    the smallest used track number, the others the bucket-sorted messages of theirs -/
theorem forall₂_exportAbs (P : Nat → Track → Prop) (q : Rat → Int) (mpq : Nat) (parts : List PPart)
    (h0 : ∀ tr, P tr ((0, Ev.tempo mpq) :: trackAbs (insertAll q parts) tr))
    (h : ∀ tr, P tr (trackAbs (insertAll q parts) tr)) :
    List.Forall₂ P (usedTracks q parts) (exportAbs q mpq parts) := by
  unfold exportAbs usedTracks
  dsimp only
  generalize uniqueSorted ((insertAll q parts).map (·.1)) = ks
  cases ks with
  | nil => exact List.Forall₂.nil
  | cons t0 ts =>
    refine List.Forall₂.cons (h0 t0) ?_
    rw [List.forall₂_map_right_iff]
    exact List.forall₂_same.mpr fun tr _ => h tr

-- ------------------------------------------------------------------ saving and loading back

theorem map_toAbs_toDelta (ts : List Track) : (ts.map toDelta).map toAbs = ts := by
  rw [List.map_map]
  have : toAbs ∘ toDelta = id := by funext l; exact toAbs_toDelta l
  rw [this, List.map_id]

/-- without merging, the loader sees the exporter's tracks with an `end_of_track` at the end of each -/
theorem loaderTracks_saved (q : Rat → Int) (mpq : Nat) (parts : List PPart) :
    loaderTracks false ((savedAbs q mpq false parts).map toDelta) = (exportAbs q mpq parts).map fixEot := by
  simp [loaderTracks, savedAbs, toAbs_toDelta]

theorem flatMap_sel_fixEot (g : Ev → Option β) (h : g Ev.eot = none) (ts : List Track) :
    (ts.map fixEot).flatMap (sel g) = ts.flatMap (sel g) := by
  induction ts with
  | nil => rfl
  | cons t ts ih => simp only [List.map_cons, List.flatMap_cons, ih, sel_fixEot g h]

/-- with or without merging on either side, the loader sees the same multiset of selected messages as the
    exporter's tracks hold -/
theorem sel_file (g : Ev → Option β) (h : g Ev.eot = none) (q : Rat → Int) (mpq : Nat) (ms ml : Bool)
    (parts : List PPart) :
    ((loaderTracks ml ((savedAbs q mpq ms parts).map toDelta)).flatMap (sel g)).Perm
      ((exportAbs q mpq parts).flatMap (sel g)) := by
  have hsave : ((savedAbs q mpq ms parts).flatMap (sel g)).Perm ((exportAbs q mpq parts).flatMap (sel g)) := by
    unfold savedAbs
    simp only
    rw [flatMap_sel_fixEot g h]
    split
    · simp only [List.flatMap_cons, List.flatMap_nil, List.append_nil]
      exact sel_mergeAbs g h _
    · exact List.Perm.refl _
  unfold loaderTracks
  rw [map_toAbs_toDelta]
  cases ml with
  | false => simpa using hsave
  | true =>
    simp only [if_true, List.flatMap_cons, List.flatMap_nil, List.append_nil]
    exact (sel_mergeAbs g h _).trans hsave

/-- whole file, any merging: what a selector reads is what the performance has on the used tracks -/
theorem sel_file_perf (g : Ev → Option β) (heot : g Ev.eot = none) (hprog : ∀ ch pr, g (Ev.program ch pr) = none)
    (htempo : ∀ m, g (Ev.tempo m) = none) (q : Rat → Int) (mpq : Nat) (ms ml : Bool) (parts : List PPart) :
    ((loaderTracks ml ((savedAbs q mpq ms parts).map toDelta)).flatMap (sel g)).Perm
      ((usedTracks q parts).flatMap fun tr => parts.flatMap fun p => evI g tr (partEvents q p)) := by
  refine (sel_file g heot q mpq ms ml parts).trans ?_
  refine (flatMap_perm_of_forall₂ _ _ _ _ ?_).symm
  exact (sel_exportAbs g hprog htempo q mpq parts).imp (fun _ _ h => h.symm)

/-- the only tempo event of the written file is the exporter's own, at tick 0 -/
theorem tempos_exportAbs (q : Rat → Int) (mpq : Nat) (parts : List PPart) (hne : usedTracks q parts ≠ []) :
    (exportAbs q mpq parts).flatMap (sel gTempo) = [(0, mpq)] := by
  have key : ∀ tr, sel gTempo (trackAbs (insertAll q parts) tr) = [] := by
    intro tr
    have h1 := sel_trackAbs gTempo (insertAll q parts) tr
    rw [evI_insertAll gTempo (by intros; rfl)] at h1
    have h2 : (parts.flatMap fun p => evI gTempo tr (partEvents q p)) = [] := by
      rw [List.flatMap_eq_nil_iff]
      intro p _
      exact evI_tempo_part q tr p
    rw [h2] at h1
    exact List.Perm.eq_nil h1
  unfold usedTracks at hne
  unfold exportAbs
  dsimp only
  generalize uniqueSorted ((insertAll q parts).map (·.1)) = ks at hne
  cases ks with
  | nil => exact absurd rfl hne
  | cons t0 ts =>
    have h0 : sel gTempo ((0, Ev.tempo mpq) :: trackAbs (insertAll q parts) t0) = [(0, mpq)] := by
      have e : sel gTempo ((0, Ev.tempo mpq) :: trackAbs (insertAll q parts) t0)
          = (0, mpq) :: sel gTempo (trackAbs (insertAll q parts) t0) := by
        simp [sel, gTempo]
      rw [e, key t0]
    have h1 : (ts.map (trackAbs (insertAll q parts))).flatMap (sel gTempo) = [] := by
      rw [List.flatMap_eq_nil_iff]
      intro t ht
      obtain ⟨tr, _, rfl⟩ := List.mem_map.mp ht
      exact key tr
    rw [List.flatMap_cons, h0, h1, List.append_nil]

end C06Export
