/-
Helper lemmas for Props/C10Notes.lean (round 5): the stable sorts and the loop of Model/StepMapNotes.lean.
-/
import PartituraModel.Model.StepMapNotes
import PartituraModel.Proofs.C10Part

namespace C10
open Model Model.StepMap

/-! ### the stable sort by an integer key -/

theorem mem_insertBy {α : Type} (key : α → Int) (a x : α) : ∀ l : List α, x ∈ insertBy key a l ↔ x = a ∨ x ∈ l
  | [] => by simp [insertBy]
  | b :: l => by
    unfold insertBy
    by_cases h : key a ≤ key b
    · simp [h]
    · simp only [h, if_false, List.mem_cons, mem_insertBy key a x l]
      constructor
      · rintro (h1 | h2 | h3)
        · exact Or.inr (Or.inl h1)
        · exact Or.inl h2
        · exact Or.inr (Or.inr h3)
      · rintro (h1 | h2 | h3)
        · exact Or.inr (Or.inl h1)
        · exact Or.inl h2
        · exact Or.inr (Or.inr h3)

theorem insertBy_perm {α : Type} (key : α → Int) (a : α) : ∀ l : List α, (insertBy key a l).Perm (a :: l)
  | [] => List.Perm.refl _
  | b :: l => by
    unfold insertBy
    by_cases h : key a ≤ key b
    · simp [h]
    · simp only [h, if_false]
      exact ((insertBy_perm key a l).cons b).trans (List.Perm.swap a b l)

theorem sortBy_perm {α : Type} (key : α → Int) : ∀ l : List α, (sortBy key l).Perm l
  | [] => List.Perm.refl _
  | a :: l => (insertBy_perm key a (sortBy key l)).trans ((sortBy_perm key l).cons a)

theorem mem_sortBy {α : Type} (key : α → Int) (x : α) (l : List α) : x ∈ sortBy key l ↔ x ∈ l :=
  (sortBy_perm key l).mem_iff

/-- sorted by the first key, rows of equal first key sorted by the second -/
def LexLE {α : Type} (k1 k2 : α → Int) (a b : α) : Prop := k1 a < k1 b ∨ (k1 a = k1 b ∧ k2 a ≤ k2 b)

theorem LexLE.key_le {α : Type} {k1 k2 : α → Int} {a b : α} (h : LexLE k1 k2 a b) : k1 a ≤ k1 b := by
  rcases h with h | ⟨h, _⟩ <;> omega

/-- inserting an element that is not above anything in the second key keeps the lexicographic order: the new
    element goes BEFORE the rows of equal first key (stability) -/
theorem insertBy_lex {α : Type} (k1 k2 : α → Int) (a : α) :
    ∀ s : List α, s.Pairwise (LexLE k1 k2) → (∀ b ∈ s, k2 a ≤ k2 b) → (insertBy k1 a s).Pairwise (LexLE k1 k2)
  | [], _, _ => by simp [insertBy]
  | b :: s, hp, hk => by
    have hp' := List.pairwise_cons.mp hp
    unfold insertBy
    by_cases h : k1 a ≤ k1 b
    · simp only [h, if_true]
      refine List.pairwise_cons.mpr ⟨?_, hp⟩
      intro x hx
      have hkx := hk x hx
      rcases List.mem_cons.mp hx with rfl | hx'
      · by_cases he : k1 a = k1 x
        · exact Or.inr ⟨he, hkx⟩
        · exact Or.inl (by omega)
      · have := (hp'.1 x hx').key_le
        by_cases he : k1 a = k1 x
        · exact Or.inr ⟨he, hkx⟩
        · exact Or.inl (by omega)
    · simp only [h, if_false]
      refine List.pairwise_cons.mpr ⟨?_, insertBy_lex k1 k2 a s hp'.2 (fun x hx => hk x (List.mem_cons_of_mem _ hx))⟩
      intro x hx
      rcases (mem_insertBy k1 a x s).mp hx with rfl | hx'
      · exact Or.inl (by omega)
      · exact hp'.1 x hx'

/-- a stable sort by the second key followed by a stable sort by the first key sorts lexicographically -/
theorem sortBy_lex {α : Type} (k1 k2 : α → Int) :
    ∀ l : List α, l.Pairwise (fun a b => k2 a ≤ k2 b) → (sortBy k1 l).Pairwise (LexLE k1 k2)
  | [], _ => by simp [sortBy]
  | a :: l, hp => by
    have hp' := List.pairwise_cons.mp hp
    unfold sortBy
    exact insertBy_lex k1 k2 a _ (sortBy_lex k1 k2 l hp'.2) (fun b hb => hp'.1 b ((mem_sortBy k1 b l).mp hb))

theorem insertBy_sorted {α : Type} (key : α → Int) (a : α) :
    ∀ s : List α, s.Pairwise (fun x y => key x ≤ key y) → (insertBy key a s).Pairwise (fun x y => key x ≤ key y)
  | [], _ => by simp [insertBy]
  | b :: s, hp => by
    have hp' := List.pairwise_cons.mp hp
    unfold insertBy
    by_cases h : key a ≤ key b
    · simp only [h, if_true]
      refine List.pairwise_cons.mpr ⟨?_, hp⟩
      intro x hx
      rcases List.mem_cons.mp hx with rfl | hx'
      · exact h
      · have := hp'.1 x hx'
        omega
    · simp only [h, if_false]
      refine List.pairwise_cons.mpr ⟨?_, insertBy_sorted key a s hp'.2⟩
      intro x hx
      rcases (mem_insertBy key a x s).mp hx with rfl | hx'
      · omega
      · exact hp'.1 x hx'

theorem sortBy_sorted {α : Type} (key : α → Int) :
    ∀ l : List α, (sortBy key l).Pairwise (fun x y => key x ≤ key y)
  | [] => by simp [sortBy]
  | a :: l => by
    unfold sortBy
    exact insertBy_sorted key a _ (sortBy_sorted key l)

/-- a list that is already in order is left as it is (what makes `Part.notes_tied`, which is in time order, hide
    a confusion between the list order and the row order) -/
theorem sortBy_of_sorted {α : Type} (key : α → Int) :
    ∀ l : List α, l.Pairwise (fun x y => key x ≤ key y) → sortBy key l = l
  | [], _ => rfl
  | a :: l, hp => by
    have hp' := List.pairwise_cons.mp hp
    unfold sortBy
    rw [sortBy_of_sorted key l hp'.2]
    cases l with
    | nil => rfl
    | cons b l' =>
      have := hp'.1 b (List.mem_cons_self ..)
      simp [insertBy, this]

/-! ### the loop -/

theorem loopRows_cons (M : NoteMaps) (n : NoteIn) (rest : List NoteIn) (rows : List ColRow)
    (h : loopRows M (n :: rest) = some rows) :
    ∃ r rs, mkColRow M n = some r ∧ loopRows M rest = some rs ∧ rows = r :: rs := by
  unfold loopRows at h
  cases h1 : mkColRow M n with
  | none => rw [h1] at h; simp at h
  | some r =>
    cases h2 : loopRows M rest with
    | none => rw [h1, h2] at h; simp at h
    | some rs =>
      rw [h1, h2] at h
      exact ⟨r, rs, rfl, rfl, by simpa using h.symm⟩

/-- the loop produces one row per note, in the order of the list, each by the loop body on that note -/
theorem loopRows_forall₂ (M : NoteMaps) :
    ∀ (notes : List NoteIn) (rows : List ColRow), loopRows M notes = some rows →
      List.Forall₂ (fun n r => mkColRow M n = some r) notes rows
  | [], rows, h => by
    simp only [loopRows, Option.some.injEq] at h
    subst h
    exact List.Forall₂.nil
  | n :: rest, rows, h => by
    obtain ⟨r, rs, h1, h2, rfl⟩ := loopRows_cons M n rest rows h
    exact List.Forall₂.cons h1 (loopRows_forall₂ M rest rs h2)

/-- the rows of the loop, read back as notes, are the list handed in -/
theorem loopRows_map_note (M : NoteMaps) :
    ∀ (notes : List NoteIn) (rows : List ColRow), loopRows M notes = some rows → rows.map ColRow.note = notes
  | [], rows, h => by
    simp only [loopRows, Option.some.injEq] at h
    subst h; rfl
  | n :: rest, rows, h => by
    obtain ⟨r, rs, h1, h2, rfl⟩ := loopRows_cons M n rest rows h
    unfold mkColRow at h1
    cases c1 : cellsOf M.ks n.onset with
    | none => rw [c1] at h1; simp at h1
    | some ks =>
      cases c2 : cellsOf M.ts n.onset with
      | none => rw [c1, c2] at h1; simp at h1
      | some ts =>
        cases c3 : cellsOf M.mp n.onset with
        | none => rw [c1, c2, c3] at h1; simp at h1
        | some mp =>
          rw [c1, c2, c3] at h1
          simp only [Option.bind_eq_bind, Option.bind_some, Option.pure_def, Option.some.injEq] at h1
          subst h1
          rw [List.map_cons, loopRows_map_note M rest rs h2]
          rfl

theorem loopRows_mem (M : NoteMaps) (notes : List NoteIn) (rows : List ColRow) (h : loopRows M notes = some rows)
    (r : ColRow) (hr : r ∈ rows) : ∃ n ∈ notes, mkColRow M n = some r := by
  have hf := loopRows_forall₂ M notes rows h
  clear h
  induction hf with
  | nil => simp at hr
  | cons hab _ ih =>
    rcases List.mem_cons.mp hr with rfl | hr'
    · exact ⟨_, List.mem_cons_self .., hab⟩
    · obtain ⟨n, hn, hm⟩ := ih hr'
      exact ⟨n, List.mem_cons_of_mem _ hn, hm⟩

theorem loopRows_none_iff (M : NoteMaps) :
    ∀ notes : List NoteIn, loopRows M notes = none ↔ ∃ n ∈ notes, mkColRow M n = none
  | [] => by simp [loopRows]
  | n :: rest => by
    have ih := loopRows_none_iff M rest
    unfold loopRows
    cases h1 : mkColRow M n with
    | none => simp [h1]
    | some r =>
      cases h2 : loopRows M rest with
      | none =>
        obtain ⟨m, hm, hm'⟩ := ih.mp h2
        simp only [List.mem_cons, true_iff]
        exact ⟨m, Or.inr hm, hm'⟩
      | some rs =>
        simp only [List.mem_cons, reduceCtorEq, false_iff, not_exists, not_and]
        rintro m (rfl | hm) hm'
        · rw [h1] at hm'; exact absurd hm' (by simp)
        · have : loopRows M rest = none := ih.mpr ⟨m, hm, hm'⟩
          rw [h2] at this; exact absurd this (by simp)

/-- what the loop body stores, spelled out -/
theorem mkColRow_some (M : NoteMaps) (n : NoteIn) (r : ColRow) (h : mkColRow M n = some r) :
    r.idx = n.idx ∧ r.onset = n.onset ∧ r.pitch = n.pitch ∧
    cellsOf M.ks n.onset = some r.ks ∧
    (cellsOf M.ts n.onset).map (·.map fun v => ((v.1 : Int), (v.2.1 : Int), (v.2.2 : Int))) = some r.ts ∧
    (cellsOf M.mp n.onset).map (·.map metricalCells) = some r.mp := by
  unfold mkColRow at h
  cases h1 : cellsOf M.ks n.onset with
  | none => rw [h1] at h; simp at h
  | some ks =>
    cases h2 : cellsOf M.ts n.onset with
    | none => rw [h1, h2] at h; simp at h
    | some ts =>
      cases h3 : cellsOf M.mp n.onset with
      | none => rw [h1, h2, h3] at h; simp at h
      | some mp =>
        rw [h1, h2, h3] at h
        simp only [Option.bind_eq_bind, Option.bind_some, Option.pure_def, Option.some.injEq] at h
        subst h
        exact ⟨rfl, rfl, rfl, rfl, rfl, rfl⟩

theorem mkColRow_eq_none (M : NoteMaps) (n : NoteIn) :
    mkColRow M n = none ↔
      cellsOf M.ks n.onset = none ∨ cellsOf M.ts n.onset = none ∨ cellsOf M.mp n.onset = none := by
  unfold mkColRow
  cases h1 : cellsOf M.ks n.onset <;> cases h2 : cellsOf M.ts n.onset <;> cases h3 : cellsOf M.mp n.onset <;> simp

theorem cellsOf_eq_none {β : Type} (m : Option (Int → Option β)) (t : Int) :
    cellsOf m t = none ↔ ∃ f, m = some f ∧ f t = none := by
  unfold cellsOf
  cases m with
  | none => simp
  | some f => simp

theorem cellsOf_map_some {β γ : Type} (g : β → γ) (f : Int → Option β) (t : Int) (c : Option γ)
    (h : (cellsOf (some f) t).map (·.map g) = some c) : (f t).map g = c := by
  unfold cellsOf at h
  cases hv : f t with
  | none => simp [hv] at h
  | some v => simpa [hv] using h

theorem cellsOf_map_none {β γ : Type} (g : β → γ) (t : Int) (c : Option γ)
    (h : (cellsOf (none : Option (Int → Option β)) t).map (·.map g) = some c) : c = none := by
  simpa [cellsOf] using h.symm

/-- the loop body depends on the note only through its own fields: re-running it on the row's own
    (object, onset, pitch) gives the row back -/
theorem mkColRow_self (M : NoteMaps) (n : NoteIn) (r : ColRow) (h : mkColRow M n = some r) :
    mkColRow M ⟨r.idx, r.onset, r.pitch⟩ = some r := by
  obtain ⟨h1, h2, h3, _⟩ := mkColRow_some M n r h
  have : (⟨r.idx, r.onset, r.pitch⟩ : NoteIn) = n := by
    cases n; simp_all
  rw [this]; exact h

/-! ### the array -/

/-- the rows of the array are the rows of the loop, permuted by the two sorts -/
theorem noteArrayCols_some (M : NoteMaps) (notes : List NoteIn) (rows : List ColRow)
    (h : noteArrayCols M notes = some rows) :
    ∃ rows0, loopRows M notes = some rows0 ∧ rows = sortRows rows0 ∧ rows.Perm rows0 := by
  unfold noteArrayCols at h
  cases h0 : loopRows M notes with
  | none => rw [h0] at h; simp at h
  | some rows0 =>
    rw [h0] at h
    simp only [Option.map_some, Option.some.injEq] at h
    exact ⟨rows0, rfl, h.symm, h ▸ (sortBy_perm _ _).trans (sortBy_perm _ _)⟩

theorem noteArrayOfPart_some (p : PartD) (kss : List (Int × Int × Mode)) (fl : NAFlags) (notes : List NoteIn)
    (rows : List ColRow) (h : noteArrayOfPart p kss fl notes = some rows) :
    (fl.mp = true → raisesP p = false) ∧
    noteArrayCols { ks := if fl.ks then some (ksMap p.span kss) else none
                    ts := if fl.ts then some (tsMapE p.span p.ts) else none
                    mp := if fl.mp then some (metricalMapP p) else none } notes = some rows := by
  unfold noteArrayOfPart partMaps at h
  by_cases hc : (fl.mp && raisesP p) = true
  · rw [if_pos hc] at h; simp at h
  · rw [if_neg hc] at h
    refine ⟨?_, by simpa using h⟩
    intro hmp
    cases hr : raisesP p with
    | false => rfl
    | true => rw [hmp, hr] at hc; simp at hc

/-! ### the maps never answer NaN on the timeline -/

theorem ksMap_isSome (f l x : Int) (hx : f ≤ x) (kss : List (Int × Int × Mode)) :
    (ksMap (some (f, l)) kss x).isSome := by
  by_cases h : kss = []
  · subst h
    rw [ksMap_default (some (f, l)) x hx]; rfl
  · rw [ksMap_eq_lookupPrev f l x kss h hx]
    apply lookupPrev_isSome
    cases kss with
    | nil => exact absurd rfl h
    | cons a b => simp [ksRows]

theorem tsMapE_isSome (f l x : Int) (hx : f ≤ x) (ts : List TimeMap.TSig) :
    (tsMapE (some (f, l)) ts x).isSome := by
  by_cases h : ts = []
  · subst h
    rw [tsMapE_default (some (f, l)) x hx]; rfl
  · rw [tsMapE_eq_lookupPrev f l x ts h hx]
    apply lookupPrev_isSome
    cases ts with
    | nil => exact absurd rfl h
    | cons a b => simp [tsRowsE]

end C10
