/-
C07 — helper lemmas for the codec theorems: decimal digits, `strip`, `int()`, exact duration addition.
-/
import PartituraModel.Model.MatchCodec
import Mathlib.Tactic.IntervalCases
import Mathlib.Tactic.FieldSimp
import Mathlib.Tactic.Ring
import Mathlib.Tactic.Push

open Model.MatchCodec

namespace C07Codec

def dstepR (c : Char) (acc : Nat) : Nat := 10 * acc + (c.toNat - 48)

theorem digitsVal_reverse (l : List Char) : digitsVal l.reverse = l.foldr dstepR 0 := by
  unfold digitsVal
  rw [List.foldl_reverse]
  rfl

theorem digitC_val (d : Nat) (h : d < 10) : (digitC d).toNat - 48 = d := by
  interval_cases d <;> decide

theorem digitC_isDigit (d : Nat) (h : d < 10) : (digitC d).isDigit = true := by
  interval_cases d <;> decide

theorem foldr_digitsRev (fuel : Nat) : ∀ n, n < fuel → (digitsRev fuel n).foldr dstepR 0 = n := by
  induction fuel with
  | zero => intro n h; omega
  | succ f ih =>
    intro n h
    unfold digitsRev
    split
    · rename_i h10
      simp [dstepR, digitC_val n h10]
    · rename_i h10
      simp only [List.foldr_cons, dstepR, digitC_val (n % 10) (by omega)]
      rw [ih (n / 10) (by omega)]
      omega

theorem digitsVal_showNatS (n : Nat) : digitsVal (showNatS n) = n := by
  unfold showNatS
  rw [digitsVal_reverse, foldr_digitsRev _ _ (by omega)]

theorem all_digitsRev (fuel n : Nat) : ∀ c ∈ digitsRev fuel n, c.isDigit = true := by
  induction fuel generalizing n with
  | zero => intro c h; simp [digitsRev] at h
  | succ f ih =>
    intro c h
    unfold digitsRev at h
    split at h
    · rename_i h10
      simp only [List.mem_singleton] at h
      subst h; exact digitC_isDigit n h10
    · simp only [List.mem_cons] at h
      rcases h with rfl | h
      · exact digitC_isDigit _ (by omega)
      · exact ih _ c h

theorem digitsRev_ne_nil (fuel n : Nat) (h : 0 < fuel) : digitsRev fuel n ≠ [] := by
  cases fuel with
  | zero => omega
  | succ f => unfold digitsRev; split <;> simp

theorem showNatS_isDigit (n : Nat) : ∀ c ∈ showNatS n, c.isDigit = true := by
  intro c h
  unfold showNatS at h
  rw [List.mem_reverse] at h
  exact all_digitsRev _ _ c h

theorem showNatS_ne_nil (n : Nat) : showNatS n ≠ [] := by
  unfold showNatS
  simp only [ne_eq, List.reverse_eq_nil_iff]
  exact digitsRev_ne_nil _ _ (by omega)

theorem allDigits_showNatS (n : Nat) : allDigits (showNatS n) = true := by
  unfold allDigits
  rw [Bool.and_eq_true]
  constructor
  · cases h : showNatS n with
    | nil => exact absurd h (showNatS_ne_nil n)
    | cons c r => rfl
  · rw [List.all_eq_true]; exact showNatS_isDigit n

theorem isDigit_not_ws (c : Char) (h : c.isDigit = true) : isWs c = false := by
  unfold Char.isDigit at h
  simp only [Bool.and_eq_true, decide_eq_true_eq] at h
  have h1 : c.val ≥ 48 := h.1
  unfold isWs
  have : c ≠ ' ' ∧ c ≠ '\t' ∧ c ≠ '\n' ∧ c ≠ '\r' ∧ c ≠ '\x0b' ∧ c ≠ '\x0c' := by
    refine ⟨?_, ?_, ?_, ?_, ?_, ?_⟩ <;> (intro e; subst e; revert h1; decide)
  simp [this.1, this.2.1, this.2.2.1, this.2.2.2.1, this.2.2.2.2.1, this.2.2.2.2.2]

theorem dropWhile_of_head (c : Char) (r : List Char) (h : isWs c = false) :
    (c :: r).dropWhile isWs = c :: r := by
  simp [h]

/-- a string without blanks is its own `strip()` -/
theorem strip_id (s : List Char) (h : ∀ c ∈ s, isWs c = false) : strip s = s := by
  unfold strip
  have h1 : s.dropWhile isWs = s := by
    cases s with
    | nil => rfl
    | cons c r => exact dropWhile_of_head c r (h c (by simp))
  rw [h1]
  have h2 : s.reverse.dropWhile isWs = s.reverse := by
    cases hr : s.reverse with
    | nil => rfl
    | cons c r =>
      apply dropWhile_of_head
      apply h
      have : c ∈ s.reverse := by rw [hr]; simp
      simpa using this
  rw [h2, List.reverse_reverse]

theorem strip_showNatS (n : Nat) : strip (showNatS n) = showNatS n :=
  strip_id _ (fun c hc => isDigit_not_ws c (showNatS_isDigit n c hc))

/-- `int(format_int(i)) = i` for every integer -/
theorem parseInt_showIntS (i : Int) : parseInt (showIntS i) = some i := by
  unfold showIntS
  split
  · rename_i hneg
    have hs : strip ('-' :: showNatS (-i).toNat) = '-' :: showNatS (-i).toNat := by
      apply strip_id
      intro c hc
      simp only [List.mem_cons] at hc
      rcases hc with rfl | hc
      · decide
      · exact isDigit_not_ws c (showNatS_isDigit _ c hc)
    unfold parseInt
    simp only [hs, allDigits_showNatS, if_true, digitsVal_showNatS]
    congr 1
    omega
  · rename_i hpos
    unfold parseInt
    simp only [strip_showNatS]
    have hall := showNatS_isDigit i.toNat
    have hd := allDigits_showNatS i.toNat
    have hv := digitsVal_showNatS i.toNat
    cases hn : showNatS i.toNat with
    | nil => exact absurd hn (showNatS_ne_nil _)
    | cons c r =>
      rw [hn] at hall hd hv
      have hc := hall c (by simp)
      have hc1 : c ≠ '-' := by intro e; subst e; exact absurd hc (by decide)
      have hc2 : c ≠ '+' := by intro e; subst e; exact absurd hc (by decide)
      split
      · rename_i r' heq; injection heq with e1 e2; exact absurd e1 hc1
      · rename_i r' heq; injection heq with e1 e2; exact absurd e1 hc2
      · rename_i r' _ _ 
        simp only [hd, if_true, hv]
        congr 1
        omega


theorem fullDen_mk (n d : Nat) (ac : Option (List (Nat × Nat × Option Nat))) :
    ({ num := n, den := d, tdiv := none, add := ac } : Frac).fullDen = d := by simp [Frac.fullDen]

theorem frac_add_value (a b c : Frac) (h : Frac.add? a b = some c) : c.value = a.value + b.value := by
  unfold Frac.add? at h
  simp only at h
  split at h
  · simp at h
  · rename_i hz
    split at h
    · simp at h
    · rename_i hb
      injection h with h
      subst h
      have hda : a.fullDen ≠ 0 := fun e => hz (Or.inl e)
      have hdb : b.fullDen ≠ 0 := fun e => hz (Or.inr e)
      obtain ⟨k1, hk1⟩ := Nat.dvd_lcm_left a.fullDen b.fullDen
      obtain ⟨k2, hk2⟩ := Nat.dvd_lcm_right a.fullDen b.fullDen
      have e1 : Nat.lcm a.fullDen b.fullDen / a.fullDen = k1 := by
        rw [hk1]; exact Nat.mul_div_cancel_left k1 (Nat.pos_of_ne_zero hda)
      have e2 : Nat.lcm a.fullDen b.fullDen / b.fullDen = k2 := by
        rw [hk2]; exact Nat.mul_div_cancel_left k2 (Nat.pos_of_ne_zero hdb)
      have hl : Nat.lcm a.fullDen b.fullDen ≠ 0 := Nat.lcm_ne_zero hda hdb
      simp only [Frac.value, e1, e2]
      simp only [fullDen_mk]
      have hA : (a.fullDen : Rat) ≠ 0 := by exact_mod_cast hda
      have hB : (b.fullDen : Rat) ≠ 0 := by exact_mod_cast hdb
      have hL : ((Nat.lcm a.fullDen b.fullDen : Nat) : Rat) ≠ 0 := by exact_mod_cast hl
      have c1 : ((Nat.lcm a.fullDen b.fullDen : Nat) : Rat) = a.fullDen * k1 := by exact_mod_cast hk1
      have c2 : ((Nat.lcm a.fullDen b.fullDen : Nat) : Rat) = b.fullDen * k2 := by exact_mod_cast hk2
      have hk1' : (k1 : Rat) ≠ 0 := by
        intro e; apply hL; rw [c1, e]; ring
      have hk2' : (k2 : Rat) ≠ 0 := by
        intro e; apply hL; rw [c2, e]; ring
      push_cast
      rw [div_add_div _ _ hA hB, div_eq_div_iff hL (mul_ne_zero hA hB)]
      have : (a.fullDen : Rat) * k1 = b.fullDen * k2 := by rw [← c1, ← c2]
      rw [c1]
      have h3 : (k2 : Rat) * b.fullDen = a.fullDen * k1 := by rw [this]; ring
      calc ((k1 : Rat) * a.num + k2 * b.num) * (a.fullDen * b.fullDen)
          = a.num * b.fullDen * (a.fullDen * k1) + a.fullDen * b.num * (k2 * b.fullDen) * 1 := by ring
        _ = (a.num * b.fullDen + a.fullDen * b.num) * (a.fullDen * k1) := by rw [h3]; ring

theorem takeWhile_append_stop (p : Char → Bool) (ds : List Char) (x : Char) (r : List Char)
    (h : ∀ c ∈ ds, p c = true) (hx : p x = false) : (ds ++ x :: r).takeWhile p = ds := by
  induction ds with
  | nil => simp [hx]
  | cons c cs ih =>
    simp only [List.cons_append, List.takeWhile_cons, h c (by simp), if_true]
    rw [ih (fun d hd => h d (by simp [hd]))]

theorem dropWhile_append_stop (p : Char → Bool) (ds : List Char) (x : Char) (r : List Char)
    (h : ∀ c ∈ ds, p c = true) (hx : p x = false) : (ds ++ x :: r).dropWhile p = x :: r := by
  induction ds with
  | nil => simp [hx]
  | cons c cs ih =>
    simp only [List.cons_append, List.dropWhile_cons, h c (by simp), if_true]
    exact ih (fun d hd => h d (by simp [hd]))

theorem takeWhile_all (p : Char → Bool) (ds : List Char) (h : ∀ c ∈ ds, p c = true) : ds.takeWhile p = ds := by
  induction ds with
  | nil => rfl
  | cons c cs ih => simp only [List.takeWhile_cons, h c (by simp), if_true]; rw [ih (fun d hd => h d (by simp [hd]))]

theorem dropWhile_all (p : Char → Bool) (ds : List Char) (h : ∀ c ∈ ds, p c = true) : ds.dropWhile p = [] := by
  induction ds with
  | nil => rfl
  | cons c cs ih => simp only [List.dropWhile_cons, h c (by simp), if_true]; exact ih (fun d hd => h d (by simp [hd]))

def dstep (n : Nat) (c : Char) : Nat := 10 * n + (c.toNat - 48)

theorem foldl_dstep_append (b : List Char) : ∀ (init : Nat),
    b.foldl dstep init = init * 10 ^ b.length + b.foldl dstep 0 := by
  induction b with
  | nil => intro i; simp
  | cons c cs ih =>
    intro i
    simp only [List.foldl_cons, List.length_cons]
    rw [ih (dstep i c), ih (dstep 0 c)]
    simp only [dstep]
    ring

theorem digitsVal_append (a b : List Char) : digitsVal (a ++ b) = digitsVal a * 10 ^ b.length + digitsVal b := by
  unfold digitsVal
  rw [List.foldl_append]
  exact foldl_dstep_append b _

theorem digitsVal_replicate_zero (k : Nat) (s : List Char) : digitsVal (List.replicate k '0' ++ s) = digitsVal s := by
  induction k with
  | zero => rfl
  | succ k ih =>
    rw [List.replicate_succ, List.cons_append]
    unfold digitsVal at *
    simp only [List.foldl_cons]
    have : 10 * 0 + ('0'.toNat - 48) = 0 := by decide
    rw [this]; exact ih

theorem length_digitsRev_le (fuel : Nat) : ∀ (m k : Nat), 1 ≤ k → m < 10 ^ k → (digitsRev fuel m).length ≤ k := by
  induction fuel with
  | zero => intro m k hk _; simp [digitsRev]
  | succ f ih =>
    intro m k hk hm
    unfold digitsRev
    split
    · simpa using hk
    · rename_i h10
      simp only [List.length_cons]
      have hk2 : 2 ≤ k := by
        by_contra hlt
        have : k = 1 := by omega
        subst this; omega
      have : m / 10 < 10 ^ (k - 1) := by
        have e : 10 ^ k = 10 * 10 ^ (k - 1) := by
          rw [← Nat.pow_succ']; congr 1; omega
        rw [e] at hm
        omega
      have := ih (m / 10) (k - 1) (by omega) this
      omega

theorem length_showNatS_le (m k : Nat) (hk : 1 ≤ k) (hm : m < 10 ^ k) : (showNatS m).length ≤ k := by
  unfold showNatS
  rw [List.length_reverse]
  exact length_digitsRev_le _ m k hk hm

theorem padZeros_length (k m : Nat) (hk : 1 ≤ k) (hm : m < 10 ^ k) : (padZeros k (showNatS m)).length = k := by
  unfold padZeros
  have := length_showNatS_le m k hk hm
  simp only [List.length_append, List.length_replicate]
  omega

theorem padZeros_val (k m : Nat) : digitsVal (padZeros k (showNatS m)) = m := by
  unfold padZeros
  rw [digitsVal_replicate_zero, digitsVal_showNatS]

theorem padZeros_isDigit (k m : Nat) : ∀ c ∈ padZeros k (showNatS m), c.isDigit = true := by
  intro c hc
  unfold padZeros at hc
  rw [List.mem_append] at hc
  rcases hc with hc | hc
  · rw [List.mem_replicate] at hc; rw [hc.2]; decide
  · exact showNatS_isDigit m c hc

/-- the unsigned body of a fixed-point numeral -/
def fixedBody (k n : Nat) : List Char := showNatS (n / pow10 k) ++ '.' :: padZeros k (showNatS (n % pow10 k))

theorem printFixed_eq (k : Nat) (neg : Bool) (n : Nat) (hk : 1 ≤ k) :
    printFixed k neg n = (if neg then ['-'] else []) ++ fixedBody k n := by
  unfold printFixed fixedBody
  have : ¬ k = 0 := by omega
  simp [this]

theorem fixedBody_no_ws (k n : Nat) : ∀ c ∈ fixedBody k n, isWs c = false := by
  intro c hc
  unfold fixedBody at hc
  simp only [List.mem_append, List.mem_cons] at hc
  rcases hc with hc | rfl | hc
  · exact isDigit_not_ws c (showNatS_isDigit _ c hc)
  · decide
  · exact isDigit_not_ws c (padZeros_isDigit _ _ c hc)

/-- reading the digits of a fixed-point numeral with `k ≥ 1` decimals gives back `n / 10^k` -/
theorem parseDecimal_printFixed (k : Nat) (neg : Bool) (n : Nat) (hk : 1 ≤ k) :
    parseDecimal (printFixed k neg n) = some (if neg then -((n : Rat) / (pow10 k : Rat)) else (n : Rat) / (pow10 k : Rat)) := by
  rw [printFixed_eq k neg n hk]
  have hm : n % pow10 k < 10 ^ k := Nat.mod_lt _ (by unfold pow10; positivity)
  have hdig := showNatS_isDigit (n / pow10 k)
  have hdot : Char.isDigit '.' = false := by decide
  have htw : (fixedBody k n).takeWhile Char.isDigit = showNatS (n / pow10 k) :=
    takeWhile_append_stop _ _ _ _ hdig hdot
  have hdw : (fixedBody k n).dropWhile Char.isDigit = '.' :: padZeros k (showNatS (n % pow10 k)) :=
    dropWhile_append_stop _ _ _ _ hdig hdot
  have hfp : (padZeros k (showNatS (n % pow10 k))).all Char.isDigit = true := by
    rw [List.all_eq_true]; exact padZeros_isDigit _ _
  have hval : digitsVal (showNatS (n / pow10 k) ++ padZeros k (showNatS (n % pow10 k))) = n := by
    rw [digitsVal_append, padZeros_length k _ hk hm, padZeros_val, digitsVal_showNatS]
    have := Nat.div_add_mod n (pow10 k)
    unfold pow10 at *
    rw [Nat.mul_comm]; exact this
  have hlen := padZeros_length k (n % pow10 k) hk hm
  have hne : ¬ ((showNatS (n / pow10 k)).isEmpty && (padZeros k (showNatS (n % pow10 k))).isEmpty) = true := by
    have := showNatS_ne_nil (n / pow10 k)
    cases h : showNatS (n / pow10 k) with
    | nil => exact absurd h this
    | cons c r => simp
  cases neg with
  | true =>
    have hs : strip (['-'] ++ fixedBody k n) = '-' :: fixedBody k n := by
      apply strip_id
      intro c hc
      simp only [List.singleton_append, List.mem_cons] at hc
      rcases hc with rfl | hc
      · decide
      · exact fixedBody_no_ws k n c hc
    unfold parseDecimal
    simp only [if_true, hs, splitSign, htw, hdw, hfp, hne, hval, hlen]
    simp
  | false =>
    have hs : strip ([] ++ fixedBody k n) = fixedBody k n := by
      apply strip_id
      intro c hc
      exact fixedBody_no_ws k n c (by simpa using hc)
    have hsplit : splitSign (fixedBody k n) = (false, fixedBody k n) := by
      cases hb : fixedBody k n with
      | nil => rfl
      | cons c r =>
        have hc : c.isDigit = true := by
          have hne2 := showNatS_ne_nil (n / pow10 k)
          unfold fixedBody at hb
          cases hq : showNatS (n / pow10 k) with
          | nil => exact absurd hq hne2
          | cons d ds =>
            rw [hq] at hb
            simp only [List.cons_append, List.cons.injEq] at hb
            rw [← hb.1]
            exact hdig d (by rw [hq]; simp)
        have hc1 : c ≠ '-' := by intro e; subst e; exact absurd hc (by decide)
        have hc2 : c ≠ '+' := by intro e; subst e; exact absurd hc (by decide)
        unfold splitSign
        split
        · rename_i heq; injection heq with e1 e2; exact absurd e1 hc1
        · rename_i heq; injection heq with e1 e2; exact absurd e1 hc2
        · rfl
    unfold parseDecimal
    simp only [Bool.false_eq_true, if_false, hs, hsplit, htw, hdw, hfp, hne, hval, hlen, if_true]

theorem splitOn_no_sep (sep : Char) (a : List Char) (h : ∀ c ∈ a, c ≠ sep) : splitOn sep a = [a] := by
  induction a with
  | nil => rfl
  | cons c cs ih =>
    have hc : c ≠ sep := h c (by simp)
    unfold splitOn
    rw [if_neg hc, ih (fun d hd => h d (by simp [hd]))]

theorem splitOn_append (sep : Char) (a b : List Char) (h : ∀ c ∈ a, c ≠ sep) :
    splitOn sep (a ++ sep :: b) = a :: splitOn sep b := by
  induction a with
  | nil => simp [splitOn]
  | cons c cs ih =>
    have hc : c ≠ sep := h c (by simp)
    rw [List.cons_append, splitOn, if_neg hc, ih (fun d hd => h d (by simp [hd]))]

theorem showNatS_no (sep : Char) (hs : sep.isDigit = false) (n : Nat) : ∀ c ∈ showNatS n, c ≠ sep := by
  intro c hc e
  subst e
  have := showNatS_isDigit n c hc
  rw [hs] at this
  exact absurd this (by decide)

theorem fracSimple_1 (n : Nat) : fracSimple (showNatS n) = some (n, 1, none) := by
  unfold fracSimple
  rw [splitOn_no_sep '/' _ (showNatS_no '/' (by decide) n)]
  simp [allDigits_showNatS, digitsVal_showNatS]

theorem fracSimple_2 (n d : Nat) : fracSimple (showNatS n ++ '/' :: showNatS d) = some (n, d, none) := by
  unfold fracSimple
  rw [splitOn_append '/' _ _ (showNatS_no '/' (by decide) n), splitOn_no_sep '/' _ (showNatS_no '/' (by decide) d)]
  simp [allDigits_showNatS, digitsVal_showNatS]

theorem fracSimple_3 (n d t : Nat) :
    fracSimple (showNatS n ++ '/' :: showNatS d ++ '/' :: showNatS t) = some (n, d, some t) := by
  unfold fracSimple
  have : showNatS n ++ '/' :: showNatS d ++ '/' :: showNatS t = showNatS n ++ '/' :: (showNatS d ++ '/' :: showNatS t) := by
    simp
  rw [this, splitOn_append '/' _ _ (showNatS_no '/' (by decide) n),
    splitOn_append '/' _ _ (showNatS_no '/' (by decide) d), splitOn_no_sep '/' _ (showNatS_no '/' (by decide) t)]
  simp [allDigits_showNatS, digitsVal_showNatS]

theorem fracSimple_str1 (n d : Nat) (t : Option Nat) (h : d = 1 → t = none → True) :
    fracSimple (fracStr1 n d t) = some (if t = none ∧ d = 1 then (n, 1, none) else (n, d, t)) := by
  unfold fracStr1
  cases t with
  | none =>
    by_cases hd : d = 1
    · simp [hd, fracSimple_1]
    · simp [hd, fracSimple_2]
  | some t =>
    have := fracSimple_3 n d t
    simp only [List.append_assoc, List.cons_append] at this
    simp [this]

/-- a simple duration (`n`, `n/d`, `n/d/t`, numbers within the bound) is read back from its text -/
theorem fracFromString_toStr (f : Frac) (ha : f.add = none) (hn : f.num ≤ BOUND) (hd : f.den ≤ BOUND) :
    fracFromString f.toStr = .ok f := by
  obtain ⟨n, d, t, a⟩ := f
  simp only at ha hn hd
  subst ha
  unfold Frac.toStr
  simp only
  unfold fracFromString
  rw [fracSimple_str1 n d t (fun _ _ => trivial)]
  unfold BOUND at hn hd
  by_cases h : t = none ∧ d = 1
  · obtain ⟨rfl, rfl⟩ := h
    have : ¬ (1024 < n) := by omega
    simp [Frac.mk?, BOUND, this]
  · have h1 : ¬ (1024 < n) := by omega
    have h2 : ¬ (1024 < d) := by omega
    simp only [h, if_false]
    simp [Frac.mk?, BOUND, h1, h2]

theorem isEmpty_showNatS (n : Nat) : (showNatS n).isEmpty = false := by
  cases h : showNatS n with
  | nil => exact absurd h (showNatS_ne_nil n)
  | cons c r => rfl

theorem decVersion_encVersion (a b c : Nat) : decVersion (encVersion a b c) = some (a, b, c) := by
  unfold encVersion decVersion
  have hdot : Char.isDigit '.' = false := by decide
  have e : showNatS a ++ '.' :: showNatS b ++ '.' :: showNatS c
      = showNatS a ++ '.' :: (showNatS b ++ '.' :: showNatS c) := by simp
  rw [e]
  have h1 := takeWhile_append_stop Char.isDigit (showNatS a) '.' (showNatS b ++ '.' :: showNatS c) (showNatS_isDigit a) hdot
  have h1' := dropWhile_append_stop Char.isDigit (showNatS a) '.' (showNatS b ++ '.' :: showNatS c) (showNatS_isDigit a) hdot
  have h2 := takeWhile_append_stop Char.isDigit (showNatS b) '.' (showNatS c) (showNatS_isDigit b) hdot
  have h2' := dropWhile_append_stop Char.isDigit (showNatS b) '.' (showNatS c) (showNatS_isDigit b) hdot
  have h3 := takeWhile_all Char.isDigit (showNatS c) (showNatS_isDigit c)
  simp only [h1, h1']
  cases ha : showNatS a with
  | nil => exact absurd ha (showNatS_ne_nil a)
  | cons x xs =>
    simp only [h2, h2', h3, isEmpty_showNatS, Bool.false_eq_true, if_false]
    rw [← ha]
    simp [digitsVal_showNatS]

theorem lastIndexOf_go_snoc (c : Char) (a : List Char) : ∀ (i : Nat) (acc : Option Nat),
    lastIndexOf.go c (a ++ [c]) i acc = some (i + a.length) := by
  induction a with
  | nil => intro i acc; simp [lastIndexOf.go]
  | cons d r ih =>
    intro i acc
    simp only [List.cons_append, lastIndexOf.go, List.length_cons]
    rw [ih]
    congr 1; omega

theorem lastIndexOf_snoc (c : Char) (a : List Char) : lastIndexOf c (a ++ [c]) = some a.length := by
  unfold lastIndexOf
  rw [lastIndexOf_go_snoc]; simp

theorem splitOn_joinWith (sep : Char) : ∀ (items : List (List Char)), items ≠ [] →
    (∀ x ∈ items, ∀ c ∈ x, c ≠ sep) → splitOn sep (joinWith [sep] items) = items := by
  intro items
  induction items with
  | nil => intro h; exact absurd rfl h
  | cons x xs ih =>
    intro _ h
    cases xs with
    | nil => simp only [joinWith]; exact splitOn_no_sep sep x (h x (by simp))
    | cons y ys =>
      simp only [joinWith, List.append_assoc, List.singleton_append]
      rw [splitOn_append sep x _ (h x (by simp))]
      congr 1
      exact ih (by simp) (fun z hz => h z (by simp [hz]))

theorem joinWith_eq_nil (sep : Char) (items : List (List Char)) (h : joinWith [sep] items = []) :
    items = [] ∨ items = [[]] := by
  cases items with
  | nil => exact Or.inl rfl
  | cons x xs =>
    cases xs with
    | nil => simp only [joinWith] at h; subst h; exact Or.inr rfl
    | cons y ys => simp [joinWith] at h

theorem joinWith_no_ws (items : List (List Char)) (h : ∀ x ∈ items, ∀ c ∈ x, isWs c = false) :
    ∀ c ∈ joinWith [','] items, isWs c = false := by
  induction items with
  | nil => intro c hc; simp [joinWith] at hc
  | cons x xs ih =>
    cases xs with
    | nil => intro c hc; simp only [joinWith] at hc; exact h x (by simp) c hc
    | cons y ys =>
      intro c hc
      simp only [joinWith, List.append_assoc, List.singleton_append, List.mem_append, List.mem_cons] at hc
      rcases hc with hc | rfl | hc
      · exact h x (by simp) c hc
      · decide
      · exact ih (fun z hz => h z (by simp [hz])) c hc

/-- words: no comma, no blank -/
def Words (items : List (List Char)) : Prop := ∀ x ∈ items, ∀ c ∈ x, c ≠ ',' ∧ isWs c = false

theorem map_strip_id (items : List (List Char)) (h : ∀ x ∈ items, ∀ c ∈ x, isWs c = false) :
    items.map strip = items := by
  induction items with
  | nil => rfl
  | cons x xs ih =>
    simp only [List.map_cons]
    rw [strip_id x (h x (by simp)), ih (fun z hz => h z (by simp [hz]))]

theorem decList_body (items : List (List Char)) (hw : Words items) (hne : items ≠ [[]])
    (body : List Char) (hb : body = joinWith [','] items) :
    (if (strip body).isEmpty then [] else (splitOn ',' body).map strip) = items := by
  subst hb
  have hws := joinWith_no_ws items (fun x hx c hc => (hw x hx c hc).2)
  rw [strip_id _ hws]
  by_cases he : (joinWith [','] items).isEmpty = true
  · simp only [he, if_true]
    rw [List.isEmpty_iff] at he
    rcases joinWith_eq_nil ',' items he with h | h
    · exact h.symm
    · exact absurd h hne
  · simp only [he]
    have hnil : items ≠ [] := by
      intro e; subst e; simp [joinWith] at he
    rw [splitOn_joinWith ',' items hnil (fun x hx c hc => (hw x hx c hc).1)]
    exact map_strip_id items (fun x hx c hc => (hw x hx c hc).2)

/-- `interpret_as_list(format_list(items)) = items` for lists of words of any length (the empty list
    included; the one list that cannot be written is `[""]`, whose text is the empty list's) -/
theorem decList_encList (items : List (List Char)) (hw : Words items) (hne : items ≠ [[]]) :
    decList (encList items) = items := by
  unfold decList encList encListBody
  simp only [listBodyOf, lastIndexOf_snoc, List.take_left']
  exact decList_body items hw hne _ rfl

/-- the same when the brackets belong to the pattern's literals (`\\[(?P<X>.*)\\]`) -/
theorem decList_encListBody (items : List (List Char)) (hw : Words items) (hne : items ≠ [[]])
    (hbr : ∀ x, items.head? = some x → x.head? ≠ some '[') :
    decList (encListBody items) = items := by
  unfold decList encListBody
  have hnb : ∀ r, joinWith [','] items ≠ '[' :: r := by
    intro r e
    cases items with
    | nil => simp [joinWith] at e
    | cons x xs =>
      have := hbr x rfl
      cases xs with
      | nil => simp only [joinWith] at e; rw [e] at this; simp at this
      | cons y ys =>
        simp only [joinWith, List.append_assoc, List.singleton_append] at e
        cases x with
        | nil => simp at e
        | cons c cs => simp only [List.cons_append, List.cons.injEq] at e; rw [e.1] at this; simp at this
  have hm : listBodyOf (joinWith [','] items) = joinWith [','] items := by
    unfold listBodyOf
    split
    · rename_i r heq; exact absurd heq (hnb r)
    · rfl
  simp only [hm]
  exact decList_body items hw hne _ rfl


end C07Codec
