/-
C01 helper lemmas, round 5: one step and histories of the extended machine `stepX` (Model/TimelineX.lean).
-/
import PartituraModel.Proofs.C01X

namespace TL

/-- the invariant of all histories of the extended machine: `WInv` of the part, and a fresh memo -/
def XInv (c : CPart) : Prop := WInv c.part ∧ CacheOk c

/-- the operation carries a negative time-point argument -/
def OpX.negTime : OpX → Bool
  | .base op => op.negTime
  | .tpAdd _ t _ => decide (t < 0)
  | .tpRemove _ t _ => decide (t < 0)
  | .addDefault _ st en => isNeg (st.getD Gen.C01Sig.addStartDefault) || isNeg (en.getD Gen.C01Sig.addEndDefault)
  | _ => false

theorem xinv_lift {s : Part} (h : WInv s) : XInv (lift s) := ⟨h, cacheOk_lift s⟩

theorem xinv_same_table {c : CPart} (h : XInv c) {s' : Part} (hW : WInv s') (hq : s'.qtab = c.part.qtab) :
    XInv { c with part := s' } := by
  refine ⟨hW, ?_⟩
  unfold CacheOk
  simp only [hq]
  exact h.2

theorem stepRemoveX_cases (s : Part) (o : ObjRef) (w : Option String) :
    stepRemoveX s o w = .ok s ∨ ∃ w', stepRemoveX s o w = stepRemove s o w' := by
  unfold stepRemoveX
  split
  · exact Or.inr ⟨_, rfl⟩
  · exact Or.inr ⟨_, rfl⟩
  · exact Or.inr ⟨_, rfl⟩
  · exact Or.inl rfl

theorem stepRemove_wspec {s : Part} (hW : WInv s) (o : ObjRef) (w : Which) :
    ∃ s', stepRemove s o w = .ok s' ∧ WInv s' ∧ s'.qtab = s.qtab := by
  obtain ⟨s', out, he, hW'⟩ := wstep_ok hW (op := .remove o w) trivial rfl
  simp only [step] at he
  cases hr : stepRemove s o w with
  | error e => rw [hr] at he; cases he
  | ok s'' =>
    rw [hr] at he
    simp only [Except.map, Except.ok.injEq, Prod.mk.injEq] at he
    obtain ⟨rfl, -⟩ := he
    exact ⟨s'', rfl, hW', stepRemove_qtab hr⟩

/-- every operation of the extended machine keeps `WInv` of the part and the memo fresh -/
theorem stepX_preserves {c c' : CPart} {out : OutX} (h : XInv c) {op : OpX} (hq : op.qdNonneg)
    (he : stepX c op = .ok (c', out)) : XInv c' := by
  have hc : c = lift c.part := (cacheOk_iff c).mp h.2
  cases op with
  | base op =>
    simp only [stepX] at he
    rw [hc, stepC_lift] at he
    cases hs : step c.part op with
    | error e => rw [hs] at he; cases he
    | ok r =>
      rw [hs] at he
      simp only [Except.map, Except.ok.injEq, Prod.mk.injEq] at he
      obtain ⟨rfl, -⟩ := he
      exact xinv_lift (wstep_preserves h.1 hq hs)
  | tpAdd sd t o =>
    simp only [stepX] at he
    split at he
    · cases he
    · split at he
      · cases he; exact h
      · rename_i p hp
        cases he
        have hmem := getPoint_some h.1.sorted hp
        have ht : t ∈ c.part.times := List.mem_map.mpr ⟨p, hmem.1, hmem.2⟩
        exact xinv_same_table h ((wgood_iff_winv _).mp (tpRegister_wgood ((wgood_iff_winv _).mpr h.1) o ht)) rfl
  | tpRemove sd t o =>
    simp only [stepX] at he
    split at he
    · cases he
    · split at he
      · cases he; exact h
      · cases he
        refine xinv_same_table h ((wgood_iff_winv _).mp (tpUnregister_wgood ((wgood_iff_winv _).mpr h.1) sd t o)) ?_
        rw [tpUnregister_eq, allowEmpty_qtab]; rfl
  | slurStart slur note =>
    simp only [stepX] at he
    cases he
    refine xinv_same_table h ((wgood_iff_winv _).mp (slurSetStart_wgood ((wgood_iff_winv _).mpr h.1) slur)) ?_
    unfold slurSetStart
    split
    · rw [tpUnregister_eq, allowEmpty_qtab]; rfl
    · rfl
  | slurEnd slur note =>
    simp only [stepX] at he
    cases he
    refine xinv_same_table h ((wgood_iff_winv _).mp (slurSetEnd_wgood ((wgood_iff_winv _).mpr h.1) slur note)) ?_
    unfold slurSetEnd
    have h1 : (match (getObj c.part.objs slur).stop with
        | some t => tpUnregister c.part .stop t slur
        | none => c.part).qtab = c.part.qtab := by
      split
      · rw [tpUnregister_eq, allowEmpty_qtab]; rfl
      · rfl
    simp only
    split
    · exact h1
    · exact h1
  | removeX o w =>
    simp only [stepX] at he
    rcases stepRemoveX_cases c.part o w with hr | ⟨w', hr⟩
    · rw [hr] at he
      cases he
      exact h
    · rw [hr] at he
      obtain ⟨s', hs, hW', hq'⟩ := stepRemove_wspec h.1 o w'
      rw [hs] at he
      cases he
      exact xinv_same_table h hW' hq'
  | addDefault o st en =>
    simp only [stepX] at he
    rw [hc, stepAddC_lift] at he
    cases hs : stepAdd c.part o (st.getD Gen.C01Sig.addStartDefault) (en.getD Gen.C01Sig.addEndDefault) with
    | error e => rw [hs] at he; cases he
    | ok s' =>
      rw [hs] at he
      cases he
      have : step c.part (.add o (st.getD Gen.C01Sig.addStartDefault) (en.getD Gen.C01Sig.addEndDefault))
          = .ok (s', .unit) := by simp [step, hs, Except.map]
      exact xinv_lift (wstep_preserves h.1 (op := .add o (st.getD Gen.C01Sig.addStartDefault) (en.getD Gen.C01Sig.addEndDefault)) trivial this)
  | iterAllX cls a b incl mode => simp only [stepX] at he; cases he; exact h
  | mapCached xs => simp only [stepX] at he; cases he; exact h
  | mapFresh xs => simp only [stepX] at he; cases he; exact h

/-- an operation of the extended machine raises only on a negative time-point argument -/
theorem stepX_ok {c : CPart} (h : XInv c) {op : OpX} (hq : op.qdNonneg) (hn : op.negTime = false) :
    ∃ r, stepX c op = .ok r := by
  have hc : c = lift c.part := (cacheOk_iff c).mp h.2
  cases op with
  | base op =>
    obtain ⟨s', out, he, -⟩ := wstep_ok h.1 hq hn
    refine ⟨(lift s', .base out), ?_⟩
    simp only [stepX]
    rw [hc, stepC_lift, he]
    rfl
  | tpAdd sd t o =>
    simp only [OpX.negTime, decide_eq_false_iff_not] at hn
    simp only [stepX, hn, if_false]
    split <;> exact ⟨_, rfl⟩
  | tpRemove sd t o =>
    simp only [OpX.negTime, decide_eq_false_iff_not] at hn
    simp only [stepX, hn, if_false]
    split <;> exact ⟨_, rfl⟩
  | slurStart slur note => exact ⟨_, rfl⟩
  | slurEnd slur note => exact ⟨_, rfl⟩
  | removeX o w =>
    simp only [stepX]
    rcases stepRemoveX_cases c.part o w with hr | ⟨w', hr⟩
    · rw [hr]; exact ⟨_, rfl⟩
    · obtain ⟨s', hs, -, -⟩ := stepRemove_wspec h.1 o w'
      rw [hr, hs]; exact ⟨_, rfl⟩
  | addDefault o st en =>
    simp only [OpX.negTime] at hn
    obtain ⟨s', out, he, -⟩ := wstep_ok h.1
      (op := .add o (st.getD Gen.C01Sig.addStartDefault) (en.getD Gen.C01Sig.addEndDefault)) trivial hn
    simp only [step] at he
    simp only [stepX]
    rw [hc, stepAddC_lift]
    cases hs : stepAdd c.part o (st.getD Gen.C01Sig.addStartDefault) (en.getD Gen.C01Sig.addEndDefault) with
    | error e => rw [hs] at he; cases he
    | ok s'' => exact ⟨_, rfl⟩
  | iterAllX cls a b incl mode => exact ⟨_, rfl⟩
  | mapCached xs => exact ⟨_, rfl⟩
  | mapFresh xs => exact ⟨_, rfl⟩

def nextX (c : CPart) (op : OpX) : CPart :=
  match stepX c op with
  | .ok (c', _) => c'
  | .error _ => c

theorem runX_cons (c : CPart) (op : OpX) (ops : List OpX) : runX c (op :: ops) = runX (nextX c op) ops := by
  unfold nextX
  simp only [runX]
  cases stepX c op with
  | error e => rfl
  | ok r => rfl

theorem nextX_xinv {c : CPart} (h : XInv c) {op : OpX} (hq : op.qdNonneg) : XInv (nextX c op) := by
  unfold nextX
  cases he : stepX c op with
  | error e => exact h
  | ok r =>
    obtain ⟨c', out⟩ := r
    exact stepX_preserves h hq he

theorem runX_xinv {c : CPart} (h : XInv c) (ops : List OpX) (hq : ∀ op ∈ ops, op.qdNonneg) :
    XInv (runX c ops) := by
  induction ops generalizing c with
  | nil => exact h
  | cons op ops ih =>
    rw [runX_cons]
    exact ih (nextX_xinv h (hq op (by simp))) (fun op' h' => hq op' (by simp [h']))

/-- the memo is fresh after EVERY history (no hypothesis at all: also after `set_quarter_duration` at a
negative time, which the invariant theorems exclude) -/
theorem stepX_cacheOk {c c' : CPart} {out : OutX} (h : CacheOk c) {op : OpX}
    (he : stepX c op = .ok (c', out)) : CacheOk c' := by
  have hc : c = lift c.part := (cacheOk_iff c).mp h
  have same : ∀ s' : Part, s'.qtab = c.part.qtab → CacheOk { c with part := s' } := by
    intro s' hq
    unfold CacheOk
    simp only [hq]
    exact h
  cases op with
  | base op =>
    simp only [stepX] at he
    rw [hc, stepC_lift] at he
    cases hs : step c.part op with
    | error e => rw [hs] at he; cases he
    | ok r =>
      rw [hs] at he
      simp only [Except.map, Except.ok.injEq, Prod.mk.injEq] at he
      obtain ⟨rfl, -⟩ := he
      exact cacheOk_lift _
  | tpAdd sd t o =>
    simp only [stepX] at he
    split at he
    · cases he
    · split at he
      · cases he; exact h
      · cases he; exact same _ rfl
  | tpRemove sd t o =>
    simp only [stepX] at he
    split at he
    · cases he
    · split at he
      · cases he; exact h
      · cases he
        exact same _ (by rw [tpUnregister_eq, allowEmpty_qtab]; rfl)
  | slurStart slur note =>
    simp only [stepX] at he
    cases he
    refine same _ ?_
    unfold slurSetStart
    split
    · rw [tpUnregister_eq, allowEmpty_qtab]; rfl
    · rfl
  | slurEnd slur note =>
    simp only [stepX] at he
    cases he
    refine same _ ?_
    unfold slurSetEnd
    have h1 : (match (getObj c.part.objs slur).stop with
        | some t => tpUnregister c.part .stop t slur
        | none => c.part).qtab = c.part.qtab := by
      split
      · rw [tpUnregister_eq, allowEmpty_qtab]; rfl
      · rfl
    simp only
    split
    · exact h1
    · exact h1
  | removeX o w =>
    simp only [stepX] at he
    rcases stepRemoveX_cases c.part o w with hr | ⟨w', hr⟩
    · rw [hr] at he
      cases he
      exact h
    · rw [hr] at he
      cases hs : stepRemove c.part o w' with
      | error e => rw [hs] at he; cases he
      | ok s' =>
        rw [hs] at he
        cases he
        exact same _ (stepRemove_qtab hs)
  | addDefault o st en =>
    simp only [stepX] at he
    rw [hc, stepAddC_lift] at he
    cases hs : stepAdd c.part o (st.getD Gen.C01Sig.addStartDefault) (en.getD Gen.C01Sig.addEndDefault) with
    | error e => rw [hs] at he; cases he
    | ok s' =>
      rw [hs] at he
      cases he
      exact cacheOk_lift _
  | iterAllX cls a b incl mode => simp only [stepX] at he; cases he; exact h
  | mapCached xs => simp only [stepX] at he; cases he; exact h
  | mapFresh xs => simp only [stepX] at he; cases he; exact h

theorem runX_cacheOk {c : CPart} (h : CacheOk c) (ops : List OpX) : CacheOk (runX c ops) := by
  induction ops generalizing c with
  | nil => exact h
  | cons op ops ih =>
    rw [runX_cons]
    apply ih
    unfold nextX
    cases he : stepX c op with
    | error e => exact h
    | ok r =>
      obtain ⟨c', out⟩ := r
      exact stepX_cacheOk h he

/-- the machine with the memo, run on the operations of the property's histories, is the memo-free machine -/
theorem runX_base (s : Part) (ops : List Op) : runX (lift s) (ops.map .base) = lift (run s ops) := by
  induction ops generalizing s with
  | nil => rfl
  | cons op ops ih =>
    rw [List.map_cons, runX_cons, run_cons]
    have : nextX (lift s) (.base op) = lift (next s op) := by
      unfold nextX next
      simp only [stepX, stepC_lift]
      cases step s op with
      | error e => rfl
      | ok r => rfl
    rw [this]
    exact ih _

end TL

namespace TL

/-- the arguments under which the extended machine keeps the FULL invariant: the property's `Valid` for the
timeline operations; `tp.add_*_object(o)` only on a free side of `o`; `tp.remove_*_object(o)` only on the point
`o` refers to (what the Slur / Tuplet setters do); quarter durations at times `≥ 0` -/
def ValidX (c : CPart) : OpX → Prop
  | .base op => Valid c.part op
  | .tpAdd sd _ o => (getObj c.part.objs o).at sd = none
  | .tpRemove sd t o => (getObj c.part.objs o).at sd = some t
  | .addDefault o st en =>
    Valid c.part (.add o (st.getD Gen.C01Sig.addStartDefault) (en.getD Gen.C01Sig.addEndDefault))
  | _ => True

instance (c : CPart) (op : OpX) : Decidable (ValidX c op) := by
  cases op <;> simp only [ValidX] <;> infer_instance

def ValidHistoryX (c : CPart) : List OpX → Prop
  | [] => True
  | op :: ops => ValidX c op ∧ ValidHistoryX (nextX c op) ops

instance : (c : CPart) → (ops : List OpX) → Decidable (ValidHistoryX c ops)
  | _, [] => isTrue trivial
  | c, op :: ops =>
    have := instDecidableValidHistoryX (nextX c op) ops
    inferInstanceAs (Decidable (ValidX c op ∧ ValidHistoryX (nextX c op) ops))

/-- every valid operation of the extended machine keeps the FULL invariant (and the memo fresh) -/
theorem stepX_inv {c c' : CPart} {out : OutX} (hI : Inv c.part) (hc : CacheOk c) {op : OpX} (hv : ValidX c op)
    (he : stepX c op = .ok (c', out)) : Inv c'.part := by
  have hcl : c = lift c.part := (cacheOk_iff c).mp hc
  cases op with
  | base op =>
    simp only [stepX] at he
    rw [hcl, stepC_lift] at he
    cases hs : step c.part op with
    | error e => rw [hs] at he; cases he
    | ok r =>
      rw [hs] at he
      simp only [Except.map, Except.ok.injEq, Prod.mk.injEq] at he
      obtain ⟨rfl, -⟩ := he
      exact step_preserves hI hv hs
  | tpAdd sd t o =>
    simp only [stepX] at he
    split at he
    · cases he
    · split at he
      · cases he; exact hI
      · rename_i p hp
        cases he
        have hmem := getPoint_some hI.sorted hp
        exact tpRegister_inv hI (List.mem_map.mpr ⟨p, hmem.1, hmem.2⟩) hv
  | tpRemove sd t o =>
    simp only [stepX] at he
    split at he
    · cases he
    · split at he
      · cases he; exact hI
      · cases he; exact tpUnregister_inv hI hv
  | slurStart slur note => simp only [stepX] at he; cases he; exact slurSetStart_inv hI slur
  | slurEnd slur note => simp only [stepX] at he; cases he; exact slurSetEnd_inv hI slur note
  | removeX o w =>
    simp only [stepX] at he
    rcases stepRemoveX_cases c.part o w with hr | ⟨w', hr⟩
    · rw [hr] at he; cases he; exact hI
    · rw [hr] at he
      cases hs : stepRemove c.part o w' with
      | error e => rw [hs] at he; cases he
      | ok s' =>
        rw [hs] at he
        cases he
        have : step c.part (.remove o w') = .ok (s', .unit) := by simp [step, hs, Except.map]
        exact step_preserves hI (op := .remove o w') trivial this
  | addDefault o st en =>
    simp only [stepX] at he
    rw [hcl, stepAddC_lift] at he
    cases hs : stepAdd c.part o (st.getD Gen.C01Sig.addStartDefault) (en.getD Gen.C01Sig.addEndDefault) with
    | error e => rw [hs] at he; cases he
    | ok s' =>
      rw [hs] at he
      cases he
      have : step c.part (.add o (st.getD Gen.C01Sig.addStartDefault) (en.getD Gen.C01Sig.addEndDefault))
          = .ok (s', .unit) := by simp [step, hs, Except.map]
      exact step_preserves hI (op := .add o (st.getD Gen.C01Sig.addStartDefault) (en.getD Gen.C01Sig.addEndDefault)) hv this
  | iterAllX cls a b incl mode => simp only [stepX] at he; cases he; exact hI
  | mapCached xs => simp only [stepX] at he; cases he; exact hI
  | mapFresh xs => simp only [stepX] at he; cases he; exact hI

theorem runX_inv {c : CPart} (hI : Inv c.part) (hc : CacheOk c) (ops : List OpX) (hv : ValidHistoryX c ops) :
    Inv (runX c ops).part := by
  induction ops generalizing c with
  | nil => exact hI
  | cons op ops ih =>
    rw [runX_cons]
    have hI' : Inv (nextX c op).part ∧ CacheOk (nextX c op) := by
      unfold nextX
      cases he : stepX c op with
      | error e => exact ⟨hI, hc⟩
      | ok r =>
        obtain ⟨c', out⟩ := r
        exact ⟨stepX_inv hI hc hv.1 he, stepX_cacheOk hc he⟩
    exact ih hI'.1 hI'.2 hv.2

end TL
