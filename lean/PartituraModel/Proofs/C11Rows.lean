/-
C11 — the rows of the note array, as a LIST, are the same before and after `tie_notes`: no row is lost, none is
added, the order is kept (Model/Measures.lean: `tieOne`, `tieStage1`).

A row is a note without `tie_prev`.  `rowsOf` lists, in iteration order, key, onset, pitch, voice and id of the rows;
the tied duration and end of each row are covered by the `Walk` theorems of Proofs/C11Walk.lean.
Well-formedness of the input (kept as an invariant over the loop): keys are distinct (`KeysOK` — the model addresses
notes by key), and every tie points at a note of the list that has a back link (`LinksOK`).
-/
import PartituraModel.Proofs.C11Walk
import Mathlib.Data.List.Perm.Basic

namespace C11Rows
open Model Model.Dur Model.Meas C11Tie C11Walk

def isRow (n : Note) : Bool := n.tiePrev.isNone

abbrev Fields := Nat × Nat × String × Option Int × Option String

def fields (n : Note) : Fields := (n.key, n.start, n.pitch, n.voice, n.id)

/-- the rows of the note array in iteration order: key, onset, pitch, voice, id -/
def rowsOf (ns : List Note) : List Fields := (ns.filter isRow).map fields

def KeysOK (ns : List Note) : Prop := (ns.map (·.key)).Nodup

/-- every tie points at a note of the list that has a back link -/
def LinksOK (ns : List Note) : Prop := ∀ n ∈ ns, ∀ t, n.tieNext = some t → ∃ m, lk ns t = some m ∧ m.tiePrev.isSome = true

theorem rowsOf_map (g : Note → Note) : ∀ (l : List Note), (∀ n ∈ l, isRow (g n) = isRow n ∧ fields (g n) = fields n) →
    rowsOf (l.map g) = rowsOf l := by
  intro l
  induction l with
  | nil => intro _; rfl
  | cons a as ih =>
    intro h
    obtain ⟨h1, h2⟩ := h a List.mem_cons_self
    have ih' := ih (fun n hn => h n (List.mem_cons_of_mem _ hn))
    unfold rowsOf at ih' ⊢
    rw [List.map_cons, List.filter_cons, List.filter_cons, h1]
    split
    · rw [List.map_cons, List.map_cons, h2, ih']
    · exact ih'

theorem rowsOf_insert (m : Note) (hm : m.tiePrev.isSome = true) : ∀ l : List Note, rowsOf (insertNote m l) = rowsOf l := by
  have hr : isRow m = false := by
    unfold isRow
    cases h : m.tiePrev with
    | none => rw [h] at hm; simp at hm
    | some x => rfl
  intro l
  induction l with
  | nil => simp [insertNote, rowsOf, hr]
  | cons a as ih =>
    unfold insertNote
    split
    · unfold rowsOf; rw [List.filter_cons, hr]; simp
    · unfold rowsOf at ih ⊢
      rw [List.filter_cons, List.filter_cons]
      split
      · rw [List.map_cons, List.map_cons, ih]
      · exact ih

theorem rowsOf_foldInsert : ∀ (more : List Note), (∀ m ∈ more, m.tiePrev.isSome = true) → ∀ l : List Note,
    rowsOf (more.foldl (fun acc n => insertNote n acc) l) = rowsOf l := by
  intro more
  induction more with
  | nil => intro _ l; rfl
  | cons m rest ih =>
    intro h l
    rw [List.foldl_cons, ih (fun x hx => h x (List.mem_cons_of_mem _ hx)), rowsOf_insert m (h m List.mem_cons_self)]

theorem insertNote_perm (n : Note) : ∀ l : List Note, (insertNote n l).Perm (n :: l) := by
  intro l
  induction l with
  | nil => exact List.Perm.refl _
  | cons a as ih =>
    unfold insertNote
    split
    · exact List.Perm.refl _
    · exact (List.Perm.cons a ih).trans (List.Perm.swap n a as)

theorem foldInsert_perm : ∀ (more l : List Note), (more.foldl (fun acc n => insertNote n acc) l).Perm (more ++ l) := by
  intro more
  induction more with
  | nil => intro l; exact List.Perm.refl _
  | cons m rest ih =>
    intro l
    rw [List.foldl_cons]
    refine (ih (insertNote m l)).trans ?_
    refine (List.Perm.append_left rest (insertNote_perm m l)).trans ?_
    exact List.perm_middle

theorem keysOK_eq (ns : List Note) (h : KeysOK ns) (a b : Note) (ha : a ∈ ns) (hb : b ∈ ns) (hab : a.key = b.key) : a = b := by
  have h1 := find_self ns h a ha
  have h2 := find_self ns h b hb
  rw [hab, h2] at h1
  exact (Option.some.inj h1).symm

theorem lk_self (ns : List Note) (h : KeysOK ns) (a : Note) (ha : a ∈ ns) : lk ns a.key = some a :=
  find_self ns h a ha

/-- every member of a linked chain but the first has a back link -/
theorem linked_tail_prev : ∀ (c : List Note) (a : Note), Linked (a :: c) → ∀ m ∈ c, m.tiePrev.isSome = true := by
  intro c
  induction c with
  | nil => intro a _ m hm; simp at hm
  | cons b rest ih =>
    intro a h m hm
    obtain ⟨_, _, h3, h4⟩ := (linked_cons2 a b rest).mp h
    rcases List.mem_cons.mp hm with rfl | hm
    · rw [h3]; rfl
    · exact ih b h4 m hm

/-- every member of a linked chain is the last one or is tied to a later member, which has a back link -/
theorem linked_next : ∀ (c : List Note) (a : Note), Linked (a :: c) → ∀ m ∈ a :: c,
    (a :: c).getLast? = some m ∨ ∃ b ∈ c, m.tieNext = some b.key ∧ b.tiePrev.isSome = true := by
  intro c
  induction c with
  | nil =>
    intro a _ m hm
    simp only [List.mem_cons, List.not_mem_nil, or_false] at hm
    subst hm; left; rfl
  | cons b rest ih =>
    intro a h m hm
    obtain ⟨_, h2, h3, h4⟩ := (linked_cons2 a b rest).mp h
    rcases List.mem_cons.mp hm with rfl | hm
    · right; exact ⟨b, List.mem_cons_self, h2, by rw [h3]; rfl⟩
    · rcases ih b h4 m hm with h5 | ⟨b', hb', h6, h7⟩
      · left; rw [List.getLast?_cons_cons]; exact h5
      · right; exact ⟨b', List.mem_cons_of_mem _ hb', h6, h7⟩

theorem mem_updateNote (k : Nat) (g : Note → Note) (ns : List Note) (x : Note) (h : x ∈ updateNote k g ns) :
    ∃ y ∈ ns, x = if y.key = k then g y else y := by
  unfold updateNote at h
  obtain ⟨y, hy, rfl⟩ := List.mem_map.mp h
  exact ⟨y, hy, rfl⟩

/-- **installing a chain keeps the rows** and the well-formedness of the list -/
theorem install_rows_list (ns : List Note) (orig : Note) (base : Nat) (ps : List (Nat × Nat × Option Est))
    (hkeys : KeysOK ns) (hlinks : LinksOK ns) (horig : orig ∈ ns) (hbase : freshKey ns ≤ base) (hne : ps ≠ [])
    (ht : PTiles orig.start orig.stop ps) :
    rowsOf (installChain ns orig (mkChain orig base ps)) = rowsOf ns ∧
    KeysOK (installChain ns orig (mkChain orig base ps)) ∧ LinksOK (installChain ns orig (mkChain orig base ps)) := by
  have hk : lk ns orig.key = some orig := lk_self ns hkeys orig horig
  have sp := chainFrom_spec orig base ps 0 orig.tiePrev orig.key orig.id orig.start orig.stop hne ht
  have hkeys' := chainFrom_keys orig base ps 0 orig.tiePrev orig.key orig.id hne
  obtain ⟨first, more, hc, hfs, hfk, hfid, hfp⟩ := sp.head
  have hc' : mkChain orig base ps = first :: more := hc
  have hrk := install_rows ns orig base ps hk hbase hne ht
  rw [hc'] at hrk ⊢
  rw [hc, List.map_cons] at hkeys'
  have hmk : more.map (·.key) = (List.range (ps.length - 1)).map (fun j => base + 0 + j) := (List.cons.inj hkeys').2
  have hnd : (more.map (·.key)).Nodup := by
    rw [hmk]
    exact List.Nodup.map (f := fun j => base + 0 + j) (by intro a b h; simp only at h; omega) List.nodup_range
  have hge : ∀ m ∈ more, base ≤ m.key := by
    intro m hm
    have : m.key ∈ more.map (·.key) := List.mem_map.mpr ⟨m, hm, rfl⟩
    rw [hmk] at this
    obtain ⟨j, _, hj⟩ := List.mem_map.mp this
    omega
  have hsame := sp.same first (by rw [hc]; exact List.mem_cons_self)
  have hlinked : Linked (first :: more) := by rw [← hc]; exact sp.linked
  have hmoreprev := linked_tail_prev more first hlinked
  obtain ⟨lastN, hlast, _, hlastnext, _⟩ := sp.last
  rw [hc] at hlast
  -- step 1: `orig` is replaced by `first` where it stands
  set repl : Note → Note := fun n => if n.key = orig.key then first else n with hrepl
  have hreplkey : ∀ n, (repl n).key = n.key := by
    intro n; simp only [hrepl]; split
    · rename_i h; rw [hfk, h]
    · rfl
  have hstep1 : ∀ n ∈ ns, isRow (repl n) = isRow n ∧ fields (repl n) = fields n := by
    intro n hn
    simp only [hrepl]
    split
    · rename_i h
      have : n = orig := keysOK_eq ns hkeys n orig hn horig h
      subst this
      refine ⟨by unfold isRow; rw [hfp], ?_⟩
      unfold fields; rw [hfk, hfs, hfid, hsame.1, hsame.2.1]
    · exact ⟨rfl, rfl⟩
  set ns1 := ns.map repl with hns1
  set ns2 := more.foldl (fun acc n => insertNote n acc) ns1 with hns2
  have hrows2 : rowsOf ns2 = rowsOf ns := by
    rw [hns2, rowsOf_foldInsert more hmoreprev, hns1, rowsOf_map repl ns hstep1]
  have hmem2 : ∀ x, x ∈ ns2 ↔ x ∈ more ∨ x ∈ ns1 := by
    intro x; rw [hns2, (foldInsert_perm more ns1).mem_iff, List.mem_append]
  have hkeys2 : KeysOK ns2 := by
    unfold KeysOK
    rw [hns2, ((foldInsert_perm more ns1).map _).nodup_iff, List.map_append, List.nodup_append]
    refine ⟨hnd, ?_, ?_⟩
    · rw [hns1, List.map_map]
      have : (fun n => n.key) ∘ repl = fun n => n.key := by funext n; exact hreplkey n
      rw [this]; exact hkeys
    · intro a ha b hb hab
      rw [hns1, List.map_map] at hb
      have : (fun n => n.key) ∘ repl = fun n => n.key := by funext n; exact hreplkey n
      rw [this] at hb
      obtain ⟨m, hm, rfl⟩ := List.mem_map.mp ha
      obtain ⟨n, hn, rfl⟩ := List.mem_map.mp hb
      have := freshKey_gt ns n hn
      have := hge m hm
      omega
  -- the relinked note (if any) had a back link already
  have hrel : ∀ t, orig.tieNext = some t → ∀ n ∈ ns2, n.key = t → n.tiePrev.isSome = true := by
    intro t htn n hn hnt
    rcases (hmem2 n).mp hn with hn | hn
    · exact hmoreprev n hn
    · rw [hns1] at hn
      obtain ⟨n0, hn0, rfl⟩ := List.mem_map.mp hn
      rw [hreplkey] at hnt
      obtain ⟨m, hm1, hm2⟩ := hlinks orig horig t htn
      have : lk ns n0.key = some n0 := lk_self ns hkeys n0 hn0
      rw [hnt, hm1] at this
      have hmn : m = n0 := Option.some.inj this
      subst hmn
      simp only [hrepl]
      split
      · rename_i h
        have : m = orig := keysOK_eq ns hkeys m orig hn0 horig h
        subst this
        rw [hfp]; exact hm2
      · exact hm2
  have hinst : installChain ns orig (first :: more) = relinkNext orig (first :: more) ns2 := rfl
  -- rows and keys after relinking
  have hrows : rowsOf (installChain ns orig (first :: more)) = rowsOf ns := by
    rw [hinst, ← hrows2]
    unfold relinkNext
    split
    · rename_i t last htn _
      unfold updateNote
      apply rowsOf_map
      intro n hn
      split
      · rename_i hkt
        have := hrel t htn n hn hkt
        refine ⟨?_, rfl⟩
        unfold isRow
        cases hp : n.tiePrev with
        | none => rw [hp] at this; simp at this
        | some x => rfl
      · exact ⟨rfl, rfl⟩
    · rfl
  have hkeysNew : KeysOK (installChain ns orig (first :: more)) := by
    rw [hinst]
    unfold relinkNext
    split
    · rename_i t last _ _
      unfold updateNote KeysOK
      rw [List.map_map]
      have : ((fun n => n.key) ∘ fun (n : Note) => if n.key = t then { n with tiePrev := some last.key } else n) =
          fun n => n.key := by
        funext n; simp only [Function.comp]; split <;> rfl
      rw [this]; exact hkeys2
    · exact hkeys2
  refine ⟨hrows, hkeysNew, ?_⟩
  -- links
  obtain ⟨r, hr, hlk⟩ := lk_install ns orig first more hfk (fun m hm => Nat.le_trans hbase (hge m hm)) hnd
  have hfromOld : ∀ t, (∃ m, lk ns t = some m ∧ m.tiePrev.isSome = true) →
      ∃ m', lk (installChain ns orig (first :: more)) t = some m' ∧ m'.tiePrev.isSome = true := by
    rintro t ⟨m, hm1, hm2⟩
    obtain ⟨n', hn', _, _, _, _, _, h6⟩ := hrk t m hm1
    exact ⟨n', hn', h6 hm2⟩
  have hfromMore : ∀ b ∈ more, b.tiePrev.isSome = true →
      ∃ m', lk (installChain ns orig (first :: more)) b.key = some m' ∧ m'.tiePrev.isSome = true := by
    intro b hb hbp
    refine ⟨r b, ?_, (hr b).2.2.2.2.2.2.2.2.1 hbp⟩
    rw [hlk, find_self more hnd b hb]
    rfl
  -- every element of the new list is (up to the relinked back link) an old note, `first`, or a new piece
  have hmemNew : ∀ x ∈ installChain ns orig (first :: more), ∃ y ∈ ns2, x.tieNext = y.tieNext := by
    intro x hx
    rw [hinst] at hx
    unfold relinkNext at hx
    split at hx
    · obtain ⟨y, hy, rfl⟩ := mem_updateNote _ _ _ x hx
      refine ⟨y, hy, ?_⟩
      split <;> rfl
    · exact ⟨x, hx, rfl⟩
  intro x hx t hxt
  obtain ⟨y, hy, hxy⟩ := hmemNew x hx
  rw [hxy] at hxt
  have hchain : ∀ c ∈ first :: more, c.tieNext = some t →
      ∃ m', lk (installChain ns orig (first :: more)) t = some m' ∧ m'.tiePrev.isSome = true := by
    intro c hcm hct
    rcases linked_next more first hlinked c hcm with hl | ⟨b, hb, hcb, hbp⟩
    · rw [hlast] at hl
      have : lastN = c := Option.some.inj hl
      subst this
      rw [hlastnext] at hct
      exact hfromOld t (hlinks orig horig t hct)
    · rw [hcb] at hct
      have : b.key = t := Option.some.inj hct
      subst this
      exact hfromMore b hb hbp
  rcases (hmem2 y).mp hy with hy | hy
  · exact hchain y (List.mem_cons_of_mem _ hy) hxt
  · rw [hns1] at hy
    obtain ⟨n0, hn0, rfl⟩ := List.mem_map.mp hy
    simp only [hrepl] at hxt
    split at hxt
    · exact hchain first List.mem_cons_self hxt
    · exact hfromOld t (hlinks n0 hn0 t hxt)

theorem tieOne_rows (qd : List (Int × Nat)) (ms : List Nat) (ns : List Note) (k : Nat) (hkeys : KeysOK ns) (hlinks : LinksOK ns) :
    rowsOf (tieOne qd ms ns k) = rowsOf ns ∧ KeysOK (tieOne qd ms ns k) ∧ LinksOK (tieOne qd ms ns k) := by
  unfold tieOne
  cases hn : ns.find? (·.key = k) with
  | none => exact ⟨rfl, hkeys, hlinks⟩
  | some note =>
    simp only
    cases hcut : cutPoints note.start note.stop ms with
    | nil => exact ⟨rfl, hkeys, hlinks⟩
    | cons c cs =>
      simp only
      have hlt := cutPoints_cons_lt ms note.start note.stop c cs hcut
      have hmem : note ∈ ns := (lk_some ns k note hn).2
      have ht := cutPoints_tiles (fun b => some (estimateI (b.2 - b.1) (quarterAt qd b.1))) ms note.start note.stop hlt
      rw [hcut] at ht
      have hne : (pieceBounds note.start note.stop (c :: cs)).map
          (fun b => (b.1, b.2, some (estimateI (b.2 - b.1) (quarterAt qd b.1)))) ≠ [] := by
        intro h; rw [h] at ht
        have : note.start = note.stop := ht
        omega
      exact install_rows_list ns note (freshKey ns) _ hkeys hlinks hmem (Nat.le_refl _) hne ht

/-- **stage 1 of `tie_notes` keeps the list of rows** -/
theorem tieStage1_rows (qd : List (Int × Nat)) (ms : List Nat) (ns : List Note) (hkeys : KeysOK ns) (hlinks : LinksOK ns) :
    rowsOf (tieStage1 qd ms ns) = rowsOf ns ∧ KeysOK (tieStage1 qd ms ns) ∧ LinksOK (tieStage1 qd ms ns) := by
  unfold tieStage1
  generalize ns.map (·.key) = ks
  induction ks generalizing ns with
  | nil => exact ⟨rfl, hkeys, hlinks⟩
  | cons k ks ih =>
    rw [List.foldl_cons]
    obtain ⟨a1, a2, a3⟩ := tieOne_rows qd ms ns k hkeys hlinks
    obtain ⟨b1, b2, b3⟩ := ih (tieOne qd ms ns k) a2 a3
    exact ⟨b1.trans a1, b2, b3⟩

/-- the tied duration and the end of a chain are determined by the list -/
theorem walk_unique (ns : List Note) : ∀ (x d e : Nat), Walk ns x d e → ∀ d' e', Walk ns x d' e' → d = d' ∧ e = e' := by
  intro x d e h
  induction h with
  | last x n hn hnone =>
    intro d' e' h'
    cases h' with
    | last _ n' hn' _ =>
      rw [hn] at hn'; cases hn'; exact ⟨rfl, rfl⟩
    | step _ n' t _ _ hn' hsome _ =>
      rw [hn] at hn'; cases hn'; rw [hnone] at hsome; cases hsome
  | step x n t d e hn hsome _ ih =>
    intro d' e' h'
    cases h' with
    | last _ n' hn' hnone =>
      rw [hn] at hn'; cases hn'; rw [hsome] at hnone; cases hnone
    | step _ n' t' d'' _ hn' hsome' hw' =>
      rw [hn] at hn'; cases hn'
      rw [hsome] at hsome'; cases hsome'
      obtain ⟨i1, i2⟩ := ih _ _ hw'
      exact ⟨by rw [i1], i2⟩

end C11Rows
