/-
C09 helper lemmas, part 6: layouts whose only structure is repeats.  `procSeg` in closed form for such
boundaries; the segment table of r pairwise disjoint simple repeats for SYMBOLIC boundary times.
-/
import PartituraModel.Proofs.C09Table

namespace C09
open Model.Unfold

/-! ### `modAt` -/

theorem modAt_get {α : Type} (f : α → α) : ∀ (l : List α) (i j : Nat),
    (modAt i f l)[j]? = if j = i then (l[j]?).map f else l[j]? := by
  intro l
  induction l with
  | nil => intro i j; simp [modAt]
  | cons a as ih =>
    intro i j
    cases i with
    | zero =>
      cases j with
      | zero => simp [modAt]
      | succ j => simp [modAt]
    | succ i =>
      cases j with
      | zero => simp [modAt]
      | succ j =>
        simp only [modAt, List.getElem?_cons_succ, ih]
        by_cases h : j = i <;> simp [h]

theorem modAt_length {α : Type} (f : α → α) : ∀ (l : List α) (i : Nat), (modAt i f l).length = l.length := by
  intro l
  induction l with
  | nil => intro i; simp [modAt]
  | cons a as ih =>
    intro i
    cases i with
    | zero => simp [modAt]
    | succ i => simp [modAt, ih]

theorem modAt_modAt {α : Type} (f g : α → α) : ∀ (l : List α) (i : Nat),
    modAt i f (modAt i g l) = modAt i (fun a => f (g a)) l := by
  intro l
  induction l with
  | nil => intro i; simp [modAt]
  | cons a as ih =>
    intro i
    cases i with
    | zero => simp [modAt]
    | succ i => simp [modAt, ih]

theorem modAt_id {α : Type} (f : α → α) (hf : ∀ a, f a = a) : ∀ (l : List α) (i : Nat), modAt i f l = l := by
  intro l
  induction l with
  | nil => intro i; simp [modAt]
  | cons a as ih =>
    intro i
    cases i with
    | zero => simp [modAt, hf]
    | succ i => simp [modAt, ih]

theorem modAt_eta (l : List SegInfo) (i : Nat) :
    modAt i (fun s : SegInfo => { to := s.to, ty := s.ty, voltaNums := s.voltaNums }) l = l :=
  modAt_id _ (fun _ => rfl) l i

/-! ### one boundary that carries only repeat information -/

/-- nothing but repeat starts/ends (and the end of the part) is registered at this boundary -/
def RepeatOnly (b : BInfo) : Prop :=
  b.voltaStart = none ∧ b.voltaEnd = false ∧ b.coda = false ∧ b.tocoda = false ∧ b.dacapo = false ∧
  b.fine = false ∧ b.segno = false ∧ b.dalsegno = false

/-- the raw destinations segment `i` gets from the boundary at its end -/
def repRaw (b : BInfo) (idSe : Dest) (back : Option Dest) : List (Tag × Dest) :=
  (if b.repeatStart then [(Tag.plain, idSe)] else []) ++
  (match back with
    | some d => [(Tag.plain, idSe), (Tag.plain, d)]
    | none => []) ++
  (if b.isEnd then [(Tag.plain, idSe)] else [])

theorem procSeg_repeatOnly (L : Layout) (tb : BTable) (times : List Int) (i : Nat) (ss se : Int) (st : BState)
    (b : BInfo) (idSe : Dest) (hget : tblGet se tb = some b) (hid : idOf times se = some idSe)
    (hb : RepeatOnly b) (back : Option Dest)
    (hback : match b.repeatEnd with
      | none => back = none
      | some rs => ∃ d, idOf times rs = some d ∧ back = some d) :
    procSeg L tb times i ss se st =
      some { st with info := modAt i (fun s => { s with to := s.to ++ repRaw b idSe back,
                                                        ty := if ss = 0 then .leapEnd else s.ty }) st.info } := by
  obtain ⟨h1, h2, h3, h4, h5, h6, h7, h8⟩ := hb
  unfold procSeg
  rw [hget, hid]
  simp only [stVoltaStart, stVoltaEnd, stLeapEnd, stToCoda, stJumpBack, stFine, h1, h2, h3, h4, h5, h6, h7, h8,
    Option.isSome_none, Bool.false_and, Bool.false_eq_true, if_false, Option.bind_some]
  cases hre : b.repeatEnd with
  | none =>
    rw [hre] at hback
    subst hback
    cases hrs : b.repeatStart <;> cases hie : b.isEnd <;> by_cases h0 : ss = 0 <;>
      simp [stRepeatStart, stRepeatEnd, stEnd, stFirst, hre, hrs, hie, h0, repRaw, addTo, setTy, modAt_modAt, modAt_eta]
  | some rs =>
    rw [hre] at hback
    obtain ⟨d, hd, rfl⟩ := hback
    cases hrs : b.repeatStart <;> cases hie : b.isEnd <;> by_cases h0 : ss = 0 <;>
      simp [stRepeatStart, stRepeatEnd, stEnd, stFirst, hre, hrs, hie, h0, h2, hd, repRaw, addTo, setTy, modAt_modAt]

/-- the cleaned destinations of such a segment: the repeat start (if a repeat ends here), then the next segment -/
theorem cleanTo_repRaw (b : BInfo) (idSe : Dest) (back : Option Dest) (i : Nat)
    (hne : b.repeatStart = true ∨ back.isSome = true ∨ b.isEnd = true)
    (hid : idSe = .fin ∨ idSe = .seg (i + 1))
    (hback : ∀ d, back = some d → ∃ j, d = .seg j ∧ j ≤ i) :
    cleanToBase (repRaw b idSe back) = some (back.toList ++ [idSe], []) := by
  cases back with
  | none =>
    rcases hid with rfl | rfl <;> cases hrs : b.repeatStart <;> cases hie : b.isEnd <;>
      simp_all [cleanToBase, nav1Of, repRaw, insSorted]
  | some d =>
    obtain ⟨j, rfl, hj⟩ := hback d rfl
    have h1 : j < i + 1 := by omega
    have h2 : ¬ i + 1 < j := by omega
    have h3 : ¬ i + 1 = j := by omega
    have h4 : ¬ j = i + 1 := by omega
    rcases hid with rfl | rfl <;> cases hrs : b.repeatStart <;> cases hie : b.isEnd <;>
      simp [cleanToBase, nav1Of, repRaw, insSorted, h1, h2, h3, hrs, hie]

theorem nav1Of_repRaw (b : BInfo) (idSe : Dest) (back : Option Dest) : nav1Of (repRaw b idSe back) = [] := by
  unfold nav1Of repRaw
  cases b.repeatStart <;> cases back <;> cases b.isEnd <;> simp

/-! ### `lastSome` -/

theorem lastSome_eq_none {α β : Type} (f : α → Option β) (l : List α) (h : ∀ a ∈ l, f a = none) :
    lastSome f l = none := by
  induction l with
  | nil => rfl
  | cons a as ih =>
    simp only [lastSome]
    rw [ih (fun x hx => h x (List.mem_cons_of_mem _ hx)), h a List.mem_cons_self]

theorem lastSome_eq_some {α β : Type} (f : α → Option β) (l : List α) (b : β)
    (hex : ∃ a ∈ l, f a = some b) (huniq : ∀ a ∈ l, ∀ b', f a = some b' → b' = b) :
    lastSome f l = some b := by
  induction l with
  | nil => obtain ⟨a, ha, _⟩ := hex; simp at ha
  | cons a as ih =>
    simp only [lastSome]
    cases hl : lastSome f as with
    | some b' =>
      -- b' comes from an element of `as`
      have : ∃ x ∈ as, f x = some b' := by
        clear ih hex huniq
        induction as with
        | nil => simp [lastSome] at hl
        | cons y ys ihy =>
          simp only [lastSome] at hl
          cases hy : lastSome f ys with
          | some c =>
            rw [hy] at hl
            simp only [Option.some.injEq] at hl
            subst hl
            obtain ⟨x, hx, hfx⟩ := ihy hy
            exact ⟨x, List.mem_cons_of_mem _ hx, hfx⟩
          | none =>
            rw [hy] at hl
            exact ⟨y, List.mem_cons_self, hl⟩
      obtain ⟨x, hx, hfx⟩ := this
      simp only [Option.some.injEq]
      exact huniq x (List.mem_cons_of_mem _ hx) b' hfx
    | none =>
      simp only
      obtain ⟨x, hx, hfx⟩ := hex
      simp only [List.mem_cons] at hx
      rcases hx with rfl | hx
      · exact hfx
      · -- then lastSome on `as` could not be none
        exfalso
        have hs := lastSome_isSome f as
        rw [hl] at hs
        simp only [Option.isSome_none] at hs
        have : as.any (fun a => (f a).isSome) = true := by
          rw [List.any_eq_true]
          exact ⟨x, hx, by rw [hfx]; rfl⟩
        rw [this] at hs
        exact Bool.noConfusion hs

/-! ### r pairwise disjoint simple repeats over symbolic boundary times -/


/-- two neighbouring sections without a repeat would be one segment: there is no boundary between them -/
def NoAdjFalse (flags : List Bool) : Prop :=
  ∀ j, flags[j]? = some false → flags[j + 1]? ≠ some false

theorem chainRepeats_mem : ∀ (ts : List Int) (flags : List Bool) (r : Int × Int),
    r ∈ chainRepeats ts flags ↔ ∃ j, flags[j]? = some true ∧ ts[j]? = some r.1 ∧ ts[j + 1]? = some r.2 := by
  intro ts
  induction ts with
  | nil => intro flags r; simp [chainRepeats]
  | cons a ts ih =>
    intro flags r
    cases ts with
    | nil =>
      simp only [chainRepeats, List.not_mem_nil, false_iff]
      rintro ⟨j, _, _, h⟩
      simp at h
    | cons b ts =>
      cases flags with
      | nil => simp [chainRepeats]
      | cons f fs =>
        simp only [chainRepeats, List.mem_append, ih]
        constructor
        · rintro (h | ⟨j, h1, h2, h3⟩)
          · cases f with
            | false => simp at h
            | true =>
              simp only [if_true, List.mem_singleton] at h
              subst h
              exact ⟨0, rfl, rfl, rfl⟩
          · exact ⟨j + 1, by simpa using h1, by simpa using h2, by simpa using h3⟩
        · rintro ⟨j, h1, h2, h3⟩
          cases j with
          | zero =>
            simp only [List.getElem?_cons_zero, Option.some.injEq, List.getElem?_cons_succ, Nat.zero_add] at h1 h2 h3
            left
            subst h1
            simp only [if_true, List.mem_singleton]
            exact Prod.ext h2.symm h3.symm
          | succ j =>
            right
            exact ⟨j, by simpa using h1, by simpa using h2, by simpa using h3⟩

theorem sorted_inj (ts : List Int) (hs : StrictSorted ts) (i j : Nat) (t : Int)
    (hi : ts[i]? = some t) (hj : ts[j]? = some t) : i = j := by
  rcases Nat.lt_trichotomy i j with h | h | h
  · have := sorted_get_lt ts hs i j t t h hi hj; omega
  · exact h
  · have := sorted_get_lt ts hs j i t t h hj hi; omega

section chainfacts
variable (ts : List Int) (flags : List Bool) (hs : StrictSorted ts)
include hs

theorem chain_repA (j : Nat) (t : Int) (hj : ts[j]? = some t) (hl : flags.length + 1 ≤ ts.length) :
    repA (chainRepeats ts flags) t = (flags[j]?).getD false := by
  unfold repA
  cases hf : (flags[j]?).getD false with
  | false =>
    rw [List.any_eq_false]
    intro r hr
    rw [chainRepeats_mem] at hr
    obtain ⟨j', h1, h2, _⟩ := hr
    simp only [decide_eq_true_eq]
    intro h
    rw [h] at h2
    have := sorted_inj ts hs j' j t h2 hj
    subst this
    rw [h1] at hf
    simp at hf
  | true =>
    rw [List.any_eq_true]
    have hft : flags[j]? = some true := by
      cases h : flags[j]? with
      | none => rw [h] at hf; simp at hf
      | some v => rw [h] at hf; simp at hf; rw [hf]
    have hjn : j + 1 < ts.length := by
      have := (List.getElem?_eq_some_iff.mp hft).1
      omega
    obtain ⟨t', ht'⟩ : ∃ t', ts[j + 1]? = some t' := ⟨ts[j + 1], List.getElem?_eq_getElem hjn⟩
    refine ⟨(t, t'), ?_, by simp⟩
    rw [chainRepeats_mem]
    exact ⟨j, hft, hj, ht'⟩

theorem chain_repE (j : Nat) (t : Int) (hj : ts[j]? = some t) :
    repE (chainRepeats ts flags) t =
      (match j with
       | 0 => none
       | j' + 1 => if (flags[j']?).getD false then ts[j']? else none) := by
  unfold repE
  cases j with
  | zero =>
    apply lastSome_eq_none
    intro r hr
    rw [chainRepeats_mem] at hr
    obtain ⟨j', _, _, h3⟩ := hr
    split
    · rename_i h
      rw [h] at h3
      have := sorted_inj ts hs (j' + 1) 0 t h3 hj
      omega
    · rfl
  | succ j' =>
    simp only
    cases hf : (flags[j']?).getD false with
    | false =>
      simp only [Bool.false_eq_true, if_false]
      apply lastSome_eq_none
      intro r hr
      rw [chainRepeats_mem] at hr
      obtain ⟨j'', h1, _, h3⟩ := hr
      split
      · rename_i h
        rw [h] at h3
        have := sorted_inj ts hs (j'' + 1) (j' + 1) t h3 hj
        have e : j'' = j' := by omega
        subst e
        rw [h1] at hf
        simp at hf
      · rfl
    | true =>
      simp only [if_true]
      have hlt : j' < ts.length := by
        have := (List.getElem?_eq_some_iff.mp hj).1
        omega
      rw [List.getElem?_eq_getElem hlt]
      apply lastSome_eq_some
      · refine ⟨(ts[j'], t), ?_, by simp⟩
        rw [chainRepeats_mem]
        refine ⟨j', ?_, List.getElem?_eq_getElem hlt, hj⟩
        cases h : flags[j']? with
        | none => rw [h] at hf; simp at hf
        | some v => rw [h] at hf; simp at hf; rw [hf]
      · intro r hr b' hb'
        rw [chainRepeats_mem] at hr
        obtain ⟨j'', _, h2, h3⟩ := hr
        split at hb'
        · rename_i h
          rw [h] at h3
          have := sorted_inj ts hs (j'' + 1) (j' + 1) t h3 hj
          have e : j'' = j' := by omega
          subst e
          rw [List.getElem?_eq_getElem hlt] at h2
          simp only [Option.some.injEq] at h2 hb'
          rw [← hb', ← h2]
        · simp at hb'

end chainfacts

theorem getLastD_get (t0 : Int) (rest : List Int) : (t0 :: rest)[rest.length]? = some (rest.getLastD t0) := by
  induction rest generalizing t0 with
  | nil => rfl
  | cons a r ih =>
    simp only [List.length_cons, List.getElem?_cons_succ]
    rw [ih a]
    cases r <;> rfl

theorem enum_length {α : Type} (l : List α) (k : Nat) : (enum k l).length = l.length := by
  induction l generalizing k with
  | nil => rfl
  | cons a as ih => simp [enum, ih]

theorem range_map_const {α : Type} (a : α) (n : Nat) : (List.range n).map (fun _ => a) = List.replicate n a := by
  apply List.ext_getElem?
  intro i
  by_cases h : i < n
  · simp [h]
  · simp [h]

section chain
variable (t0 : Int) (rest : List Int) (flags : List Bool)
variable (hs : StrictSorted (t0 :: rest)) (hlen : rest.length = flags.length) (hne : flags ≠ [])
variable (hadj : NoAdjFalse flags)

def flagAt (flags : List Bool) (j : Nat) : Bool := (flags[j]?).getD false

include hs hlen hadj in
theorem chain_isKey (t : Int) : t ∈ (t0 :: rest) ↔ isKey (chainLayout t0 rest flags) t = true := by
  have hl : flags.length + 1 ≤ (t0 :: rest).length := by simp [hlen]
  constructor
  · intro ht
    obtain ⟨j, hj⟩ := List.getElem?_of_mem ht
    have hjl : j < (t0 :: rest).length := (List.getElem?_eq_some_iff.mp hj).1
    simp only [List.length_cons] at hjl
    by_cases h0 : j = 0
    · subst h0
      simp only [List.getElem?_cons_zero, Option.some.injEq] at hj
      simp [isKey, chainLayout, hj]
    · by_cases hn : j = rest.length
      · subst hn
        rw [getLastD_get] at hj
        simp only [Option.some.injEq] at hj
        subst hj
        simp [isKey, chainLayout]
      · -- an inner boundary: a repeat starts or ends here
        have hA := chain_repA (t0 :: rest) flags hs j t hj hl
        have hE := chain_repE (t0 :: rest) flags hs j t hj
        obtain ⟨j', rfl⟩ : ∃ j', j = j' + 1 := ⟨j - 1, by omega⟩
        simp only at hE
        have h1 : j' < flags.length := by omega
        have h2 : j' + 1 < flags.length := by omega
        cases hf1 : flags[j' + 1]'h2 with
        | true =>
          have : (flags[j' + 1]?).getD false = true := by rw [List.getElem?_eq_getElem h2, hf1]; rfl
          rw [this] at hA
          simp [isKey, chainLayout, hA]
        | false =>
          have hf0 : flags[j']? = some true := by
            cases hv : flags[j']'h1 with
            | true => rw [List.getElem?_eq_getElem h1, hv]
            | false =>
              exfalso
              apply hadj j' (by rw [List.getElem?_eq_getElem h1, hv])
              rw [List.getElem?_eq_getElem h2, hf1]
          rw [hf0] at hE
          simp only [Option.getD_some, if_true] at hE
          have hjl' : j' < (t0 :: rest).length := by simp; omega
          rw [List.getElem?_eq_getElem hjl'] at hE
          simp [isKey, chainLayout, hE]
  · intro hk
    simp only [isKey, chainLayout, Bool.or_eq_true] at hk
    rcases hk with ((((((((((hk | hk) | hk) | hk) | hk) | hk) | hk) | hk) | hk) | hk) | hk) | hk
    · unfold repA at hk
      rw [List.any_eq_true] at hk
      obtain ⟨r, hr, hrt⟩ := hk
      rw [chainRepeats_mem] at hr
      obtain ⟨j, _, h2, _⟩ := hr
      simp only [decide_eq_true_eq] at hrt
      rw [← hrt]
      exact List.mem_of_getElem? h2
    · unfold repE at hk
      rw [lastSome_isSome, List.any_eq_true] at hk
      obtain ⟨r, hr, hrt⟩ := hk
      rw [chainRepeats_mem] at hr
      obtain ⟨j, _, _, h3⟩ := hr
      split at hrt
      · rename_i h
        rw [← h]
        exact List.mem_of_getElem? h3
      · simp at hrt
    · simp [volS, lastSome] at hk
    · simp [volE] at hk
    · simp at hk
    · simp at hk
    · simp at hk
    · simp at hk
    · simp at hk
    · simp at hk
    · rw [of_decide_eq_true hk]
      exact List.mem_of_getElem? (getLastD_get t0 rest)
    · rw [of_decide_eq_true hk]; exact List.mem_cons_self

/-- type of segment `j`: "the first segment is always a leap destination" is tested as `ss == 0` -/
def tyAt (ts : List Int) (j : Nat) : SegType := if ts.getD j 0 = 0 then .leapEnd else .dflt

theorem tyAt_ne (ts : List Int) (i : Nat) : tyAt ts i ≠ SegType.leapStart := by
  unfold tyAt; split <;> simp

def chainTys (ts : List Int) : List SegType := ts.map fun t => if t = 0 then .leapEnd else .dflt

theorem chainTys_getD (ts : List Int) (j : Nat) (h : j < ts.length) : (chainTys ts).getD j .dflt = tyAt ts j := by
  unfold chainTys tyAt
  rw [List.getD_eq_getElem?_getD, List.getD_eq_getElem?_getD, List.getElem?_map, List.getElem?_eq_getElem h]
  rfl

/-- raw information of segment `j` of the chain -/
def chainInfo (n : Nat) (ts : List Int) (flags : List Bool) (L : Layout) (j : Nat) : SegInfo :=
  { to := repRaw (infoAt L (ts.getD (j + 1) 0)) (nextDest n j) (if flagAt flags j then some (.seg j) else none),
    ty := tyAt ts j }

def chainSt (n : Nat) (ts : List Int) (flags : List Bool) (L : Layout) (k : Nat) : BState :=
  { info := (List.range n).map fun j => if j < k then chainInfo n ts flags L j else {} }

include hs hlen hne hadj in
theorem chain_mkSegments :
    mkSegments (chainLayout t0 rest flags) =
      some (chainGraph flags (chainTys (t0 :: rest)) ((t0 :: rest).zip rest)) := by
  have hl : flags.length + 1 ≤ (t0 :: rest).length := by simp [hlen]
  have hn1 : 1 ≤ flags.length := by
    cases flags with
    | nil => exact absurd rfl hne
    | cons _ _ => simp
  have hkeys := mkTable_keys (chainLayout t0 rest flags) (t0 :: rest) hs
    (chain_isKey t0 rest flags hs hlen hadj)
  have htl : (t0 :: rest).length = flags.length + 1 := by simp [hlen]
  -- what is registered at the end of segment i
  have hseg : ∀ i, i < flags.length → ∀ ss se, (t0 :: rest)[i]? = some ss → (t0 :: rest)[i + 1]? = some se →
      tblGet se (mkTable (chainLayout t0 rest flags)) = some (infoAt (chainLayout t0 rest flags) se) ∧
      idOf (t0 :: rest) se = some (nextDest flags.length i) ∧
      RepeatOnly (infoAt (chainLayout t0 rest flags) se) ∧
      (infoAt (chainLayout t0 rest flags) se).repeatStart = flagAt flags (i + 1) ∧
      (infoAt (chainLayout t0 rest flags) se).repeatEnd = (if flagAt flags i then some ss else none) ∧
      (infoAt (chainLayout t0 rest flags) se).isEnd = decide (i + 1 = flags.length) ∧
      idOf (t0 :: rest) ss = some (.seg i) := by
    intro i hi ss se hss hse
    refine ⟨?_, ?_, ?_, ?_, ?_, ?_, ?_⟩
    · rw [mkTable_get]
      have : isKey (chainLayout t0 rest flags) se = true :=
        (chain_isKey t0 rest flags hs hlen hadj se).mp (List.mem_of_getElem? hse)
      rw [this]; rfl
    · rw [idOf_sorted _ hs (i + 1) se hse, htl]
      unfold nextDest
      by_cases h : i + 1 = flags.length
      · rw [if_pos (by omega), if_pos h]
      · rw [if_neg (by omega), if_neg h]
    · simp [RepeatOnly, infoAt, chainLayout, volS, volE, lastSome]
    · show repA (chainRepeats (t0 :: rest) flags) se = _
      rw [chain_repA (t0 :: rest) flags hs (i + 1) se hse hl]
      rfl
    · show repE (chainRepeats (t0 :: rest) flags) se = _
      rw [chain_repE (t0 :: rest) flags hs (i + 1) se hse]
      simp only [hss]
      rfl
    · show decide (se = rest.getLastD t0) = _
      by_cases h : i + 1 = flags.length
      · have : (t0 :: rest)[i + 1]? = some (rest.getLastD t0) := by
          rw [h, ← hlen]; exact getLastD_get t0 rest
        rw [hse] at this
        simp only [Option.some.injEq] at this
        rw [decide_eq_true h, this]
        exact decide_eq_true rfl
      · have hne' : ¬ se = rest.getLastD t0 := by
          intro he
          have h1 := getLastD_get t0 rest
          rw [← he] at h1
          have := sorted_inj _ hs _ _ se hse h1
          omega
        rw [decide_eq_false hne', decide_eq_false h]
    · rw [idOf_sorted _ hs i ss hss, htl]
      have : ¬ (i + 1 = flags.length + 1) := by omega
      rw [if_neg this]
  -- the per-segment step
  have hstep : ∀ i, i < flags.length → ∀ ss se, (t0 :: rest)[i]? = some ss → (t0 :: rest)[i + 1]? = some se →
      procSeg (chainLayout t0 rest flags) (mkTable (chainLayout t0 rest flags)) (t0 :: rest) i ss se
        (chainSt flags.length (t0 :: rest) flags (chainLayout t0 rest flags) i) =
      some (chainSt flags.length (t0 :: rest) flags (chainLayout t0 rest flags) (i + 1)) := by
    intro i hi ss se hss hse
    obtain ⟨g1, g2, g3, g4, g5, g6, g7⟩ := hseg i hi ss se hss hse
    rw [procSeg_repeatOnly _ _ _ i ss se _ _ _ g1 g2 g3 (if flagAt flags i then some (.seg i) else none)
      (by rw [g5]
          cases flagAt flags i with
          | false => simp
          | true => simp only [if_true]; exact ⟨_, g7, rfl⟩)]
    unfold chainSt
    simp only [Option.some.injEq]
    congr 1
    apply List.ext_getElem?
    intro j
    rw [modAt_get]
    simp only [List.getElem?_map]
    by_cases hj : j < flags.length
    · rw [List.getElem?_range hj]
      simp only [Option.map_some]
      by_cases hji : j = i
      · subst hji
        have e1 : (t0 :: rest).getD (j + 1) 0 = se := by
          rw [List.getD_eq_getElem?_getD, hse]; rfl
        have e2 : (t0 :: rest).getD j 0 = ss := by
          rw [List.getD_eq_getElem?_getD, hss]; rfl
        have hlt : j < j + 1 := Nat.lt_succ_self j
        simp only [Nat.lt_irrefl, if_false, hlt, if_true, chainInfo, tyAt, e1, e2, Option.some.injEq]
        rfl
      · simp only [hji, if_false]
        by_cases h1 : j < i
        · have : j < i + 1 := by omega
          simp [h1, this]
        · have : ¬ j < i + 1 := by omega
          simp [h1, this]
    · have : (List.range flags.length)[j]? = none := by simp; omega
      simp [this]
  have hproc := procAll_seq (chainLayout t0 rest flags) (mkTable (chainLayout t0 rest flags)) (t0 :: rest) (t0 :: rest)
    (chainSt flags.length (t0 :: rest) flags (chainLayout t0 rest flags)) flags.length htl hstep
  have hinit : chainSt flags.length (t0 :: rest) flags (chainLayout t0 rest flags) 0 =
      { info := List.replicate flags.length {} } := by
    unfold chainSt
    simp only [Nat.not_lt_zero, if_false]
    rw [range_map_const]
  unfold mkSegments
  have hsup : (chainLayout t0 rest flags).supported = true := by simp [Layout.supported, chainLayout]
  simp only [hsup, Bool.not_true, Bool.false_eq_true, if_false, hkeys]
  have hnn : (t0 :: rest).length - 1 = flags.length := by simp [hlen]
  rw [hnn, ← hinit, hproc]
  simp only
  apply buildSegs_eq
  · simp [chainSt, hlen]
  · simp [chainSt, chainGraph, enum_length]
  · intro i inf hinf
    simp only [chainSt, List.getElem?_map] at hinf
    have hi : i < flags.length := by
      by_cases h : i < flags.length
      · exact h
      · have : (List.range flags.length)[i]? = none := by simp; omega
        simp [this] at hinf
    rw [List.getElem?_range hi] at hinf
    simp only [Option.map_some, hi, if_true, Option.some.injEq] at hinf
    subst hinf
    have h0 : i < (t0 :: rest).length := by omega
    have h1 : i + 1 < (t0 :: rest).length := by omega
    have hss := List.getElem?_eq_getElem h0
    have hse := List.getElem?_eq_getElem h1
    obtain ⟨g1, g2, g3, g4, g5, g6, g7⟩ := hseg i hi _ _ hss hse
    have e1 : (t0 :: rest).getD (i + 1) 0 = (t0 :: rest)[i + 1] := by
      rw [List.getD_eq_getElem?_getD, hse]; rfl
    refine ⟨_, _, (if flagAt flags i then some (Dest.seg i) else none).toList ++ [nextDest flags.length i], [], hss, hse, ?_, ?_⟩
    · simp only [chainInfo, e1, Nat.zero_add]
      rw [cleanTo_noNav _ _ (nav1Of_repRaw _ _ _)]
      apply cleanTo_repRaw _ _ _ i
      · rw [g4, g6]
        by_cases hlast : i + 1 = flags.length
        · right; right; simp [hlast]
        · have h2 : i + 1 < flags.length := by omega
          cases hf1 : flagAt flags (i + 1) with
          | true => left; rfl
          | false =>
            right; left
            cases hf0 : flagAt flags i with
            | true => rfl
            | false =>
              exfalso
              apply hadj i
              · unfold flagAt at hf0
                rw [List.getElem?_eq_getElem hi] at hf0 ⊢
                simp only [Option.getD_some] at hf0
                rw [hf0]
              · unfold flagAt at hf1
                rw [List.getElem?_eq_getElem h2] at hf1 ⊢
                simp only [Option.getD_some] at hf1
                rw [hf1]
      · unfold nextDest
        by_cases h : i + 1 = flags.length <;> simp [h]
      · intro d hd
        cases hf : flagAt flags i with
        | false => rw [hf] at hd; simp at hd
        | true =>
          rw [hf] at hd
          simp only [if_true, Option.some.injEq] at hd
          exact ⟨i, hd.symm, Nat.le_refl _⟩
    · rw [chainGraph_get, List.getElem?_eq_getElem hi]
      simp only [Option.map_some, chainSeg, chainInfo, Option.some.injEq]
      have ety := chainTys_getD (t0 :: rest) i h0
      have etm : ((t0 :: rest).zip rest).getD i (0, 0) = ((t0 :: rest)[i], (t0 :: rest)[i + 1]) := by
        have hse' : rest[i]? = some (t0 :: rest)[i + 1] := by
          rw [← hse]; rfl
        rw [List.getD_eq_getElem?_getD,
          List.getElem?_zip_eq_some.mpr (show (t0 :: rest)[i]? = some ((t0 :: rest)[i], (t0 :: rest)[i + 1]).1 ∧ _ from ⟨hss, hse'⟩)]
        rfl
      rw [ety, etm]
      have hfl : flagAt flags i = flags[i] := by
        unfold flagAt
        rw [List.getElem?_eq_getElem hi]; rfl
      rw [hfl]
      cases flags[i] <;> simp

end chain

end C09
