/-
C04 — lemmas about `Model.Ticks`: the ppq rule, integrality and monotonicity of the tick image.
-/
import PartituraModel.Model.Ticks
import PartituraModel.Proofs.Round
import Mathlib.Tactic.Ring
import Mathlib.Tactic.Linarith
import Mathlib.Tactic.FieldSimp
import Mathlib.Tactic.Positivity
import Mathlib.Algebra.Order.Field.Rat

namespace C04T
open Model Model.Ticks

-- ------------------------------------------------------------------ lcm and doubling

theorem foldl_lcm_pos (l : List Nat) (a : Nat) (ha : 0 < a) (h : ∀ d ∈ l, 0 < d) :
    0 < l.foldl Nat.lcm a := by
  induction l generalizing a with
  | nil => simpa
  | cons x xs ih =>
    simp only [List.foldl_cons]
    exact ih _ (Nat.lcm_pos ha (h x List.mem_cons_self)) (fun d hd => h d (List.mem_cons_of_mem _ hd))

theorem acc_dvd_foldl_lcm (l : List Nat) (a : Nat) : a ∣ l.foldl Nat.lcm a := by
  induction l generalizing a with
  | nil => simp
  | cons x xs ih =>
    simp only [List.foldl_cons]
    exact Nat.dvd_trans (Nat.dvd_lcm_left a x) (ih _)

theorem mem_dvd_foldl_lcm (l : List Nat) (a d : Nat) (hd : d ∈ l) : d ∣ l.foldl Nat.lcm a := by
  induction l generalizing a with
  | nil => cases hd
  | cons x xs ih =>
    simp only [List.foldl_cons]
    rcases List.mem_cons.mp hd with rfl | h
    · exact Nat.dvd_trans (Nat.dvd_lcm_right a d) (acc_dvd_foldl_lcm xs _)
    · exact ih _ h

/-- the fold is the least common multiple: it divides every common multiple -/
theorem foldl_lcm_dvd (l : List Nat) (a m : Nat) (ha : a ∣ m) (h : ∀ d ∈ l, d ∣ m) :
    l.foldl Nat.lcm a ∣ m := by
  induction l generalizing a with
  | nil => simpa
  | cons x xs ih =>
    simp only [List.foldl_cons]
    exact ih _ (Nat.lcm_dvd ha (h x List.mem_cons_self)) (fun d hd => h d (List.mem_cons_of_mem _ hd))

theorem natLcm_pos (l : List Nat) (h : ∀ d ∈ l, 0 < d) : 0 < natLcm l :=
  foldl_lcm_pos l 1 Nat.one_pos h

theorem dvd_natLcm (l : List Nat) (d : Nat) (hd : d ∈ l) : d ∣ natLcm l :=
  mem_dvd_foldl_lcm l 1 d hd

theorem natLcm_dvd (l : List Nat) (m : Nat) (h : ∀ d ∈ l, d ∣ m) : natLcm l ∣ m :=
  foldl_lcm_dvd l 1 m (Nat.one_dvd m) h

theorem doubleUntil_spec (p m : Nat) (hp : 0 < p) :
    ∃ k, doubleUntil p m = p * 2 ^ k ∧ m ≤ doubleUntil p m ∧ ∀ j, j < k → p * 2 ^ j < m := by
  induction h : m - p using Nat.strong_induction_on generalizing p with
  | _ n ih =>
    unfold doubleUntil
    by_cases hc : 0 < p ∧ p < m
    · simp only [hc, and_self, if_true]
      obtain ⟨k, h1, h2, h3⟩ := ih (m - 2 * p) (by omega) (2 * p) (by omega) rfl
      refine ⟨k + 1, ?_, h2, ?_⟩
      · rw [h1, pow_succ]; ring
      · intro j hj
        cases j with
        | zero => simpa using hc.2
        | succ j' =>
          have := h3 j' (by omega)
          rw [pow_succ]
          calc p * (2 ^ j' * 2) = 2 * p * 2 ^ j' := by ring
            _ < m := this
    · simp only [hc, if_false]
      refine ⟨0, by simp, ?_, fun j hj => absurd hj (Nat.not_lt_zero j)⟩
      have : ¬ p < m := fun h' => hc ⟨hp, h'⟩
      omega

-- ------------------------------------------------------------------ integrality

/-- the rational is an integer -/
def IsInt (r : Rat) : Prop := ∃ z : Int, r = (z : Rat)

theorem IsInt.add {a b : Rat} (ha : IsInt a) (hb : IsInt b) : IsInt (a + b) := by
  obtain ⟨x, rfl⟩ := ha; obtain ⟨y, rfl⟩ := hb; exact ⟨x + y, by push_cast; ring⟩

theorem IsInt.sub {a b : Rat} (ha : IsInt a) (hb : IsInt b) : IsInt (a - b) := by
  obtain ⟨x, rfl⟩ := ha; obtain ⟨y, rfl⟩ := hb; exact ⟨x - y, by push_cast; ring⟩

theorem IsInt.mul {a b : Rat} (ha : IsInt a) (hb : IsInt b) : IsInt (a * b) := by
  obtain ⟨x, rfl⟩ := ha; obtain ⟨y, rfl⟩ := hb; exact ⟨x * y, by push_cast; ring⟩

theorem IsInt.neg {a : Rat} (ha : IsInt a) : IsInt (-a) := by
  obtain ⟨x, rfl⟩ := ha; exact ⟨-x, by push_cast; ring⟩

theorem IsInt.zero : IsInt 0 := ⟨0, by simp⟩

theorem IsInt.den {a : Rat} (ha : IsInt a) : a.den = 1 := by
  obtain ⟨x, rfl⟩ := ha; exact Rat.den_intCast x

theorem isInt_intCast (z : Int) : IsInt (z : Rat) := ⟨z, rfl⟩

/-- a tick count times the rate of a division that divides it is whole -/
theorem isInt_rate (P d : Nat) (h : d ∣ P) : IsInt ((P : Rat) * (1 / (d : Rat))) := by
  by_cases hd : d = 0
  · subst hd; exact ⟨0, by simp⟩
  · obtain ⟨c, rfl⟩ := h
    refine ⟨(c : Int), ?_⟩
    have : (d : Rat) ≠ 0 := by exact_mod_cast hd
    push_cast
    field_simp

theorem integ_isInt (P : Rat) (tbl : List (Nat × Rat)) (t0 : Nat) (r0 : Rat) (t : Nat)
    (h0 : IsInt (P * r0)) (h : ∀ e ∈ tbl, IsInt (P * e.2)) : IsInt (P * integ tbl t0 r0 t) := by
  induction tbl generalizing t0 r0 with
  | nil =>
    simp only [integ]
    have : P * (r0 * (((t : Int) : Rat) - ((t0 : Int) : Rat))) = (P * r0) * (((t : Int) - (t0 : Int) : Int) : Rat) := by
      push_cast; ring
    rw [this]
    exact h0.mul (isInt_intCast _)
  | cons e rest ih =>
    obtain ⟨t1, r1⟩ := e
    simp only [integ]
    split
    · have : P * (r0 * (((t : Int) : Rat) - ((t0 : Int) : Rat))) = (P * r0) * (((t : Int) - (t0 : Int) : Int) : Rat) := by
        push_cast; ring
      rw [this]
      exact h0.mul (isInt_intCast _)
    · have e1 : P * (r0 * (((t1 : Int) : Rat) - ((t0 : Int) : Rat)) + integ rest t1 r1 t)
          = (P * r0) * (((t1 : Int) - (t0 : Int) : Int) : Rat) + P * integ rest t1 r1 t := by
        push_cast; ring
      rw [e1]
      exact (h0.mul (isInt_intCast _)).add
        (ih t1 r1 (h (t1, r1) List.mem_cons_self) (fun e he => h e (List.mem_cons_of_mem _ he)))

theorem quarterRaw_isInt (P : Nat) (b : TimeBase) (hdiv : ∀ d ∈ divisions b, d ∣ P) (t : Nat) :
    IsInt ((P : Rat) * quarterRaw b t) := by
  unfold quarterRaw
  apply integ_isInt
  · exact isInt_rate P b.d0 (hdiv b.d0 (by simp [divisions]))
  · intro e he
    simp only [qRates, List.mem_map] at he
    obtain ⟨x, hx, rfl⟩ := he
    exact isInt_rate P x.2 (hdiv x.2 (by simp only [divisions, List.mem_cons, List.mem_map]; exact Or.inr ⟨x, hx, rfl⟩))

theorem pickup_isInt (P : Nat) (b : TimeBase) (hdiv : ∀ d ∈ divisions b, d ∣ P) :
    IsInt ((P : Rat) * pickup b) := by
  unfold pickup
  split
  · simpa using IsInt.zero
  · split
    · simpa using IsInt.zero
    · simp only
      split
      · rw [mul_sub]
        exact (quarterRaw_isInt P b hdiv _).sub (quarterRaw_isInt P b hdiv _)
      · simpa using IsInt.zero

theorem quarter_isInt (P : Nat) (b : TimeBase) (hdiv : ∀ d ∈ divisions b, d ∣ P) (t : Nat) :
    IsInt ((P : Rat) * quarter b t) := by
  unfold quarter
  rw [mul_sub]
  exact (quarterRaw_isInt P b hdiv t).sub (pickup_isInt P b hdiv)

theorem argminFirst_mem (l : List Rat) (i : Nat) (y : Rat) (h : argminFirst l = some (i, y)) :
    l[i]? = some y := by
  induction l generalizing i y with
  | nil => simp [argminFirst] at h
  | cons x xs ih =>
    simp only [argminFirst] at h
    cases hr : argminFirst xs with
    | none =>
      rw [hr] at h
      simp only [Option.some.injEq, Prod.mk.injEq] at h
      obtain ⟨rfl, rfl⟩ := h
      simp
    | some p =>
      obtain ⟨j, z⟩ := p
      rw [hr] at h
      simp only at h
      split at h
      · simp only [Option.some.injEq, Prod.mk.injEq] at h
        obtain ⟨rfl, rfl⟩ := h
        simpa using ih j z hr
      · simp only [Option.some.injEq, Prod.mk.injEq] at h
        obtain ⟨rfl, rfl⟩ := h
        simp

/-- the first minimum is a minimum -/
theorem argminFirst_le (l : List Rat) (i : Nat) (y : Rat) (h : argminFirst l = some (i, y)) :
    ∀ x ∈ l, y ≤ x := by
  induction l generalizing i y with
  | nil => intro x hx; cases hx
  | cons a xs ih =>
    simp only [argminFirst] at h
    cases hr : argminFirst xs with
    | none =>
      rw [hr] at h
      simp only [Option.some.injEq, Prod.mk.injEq] at h
      obtain ⟨rfl, rfl⟩ := h
      have : xs = [] := by
        cases xs with
        | nil => rfl
        | cons b bs =>
          simp only [argminFirst] at hr
          cases h2 : argminFirst bs with
          | none => rw [h2] at hr; simp at hr
          | some q => rw [h2] at hr; obtain ⟨j, z⟩ := q; simp only at hr; split at hr <;> simp at hr
      subst this
      intro x hx
      simp at hx
      subst hx
      exact le_refl _
    | some p =>
      obtain ⟨j, z⟩ := p
      rw [hr] at h
      simp only at h
      have hz := ih j z hr
      split at h
      · rename_i hlt
        simp only [Option.some.injEq, Prod.mk.injEq] at h
        obtain ⟨rfl, rfl⟩ := h
        intro x hx
        rcases List.mem_cons.mp hx with rfl | hx'
        · exact le_of_lt hlt
        · exact hz x hx'
      · rename_i hnl
        simp only [Option.some.injEq, Prod.mk.injEq] at h
        obtain ⟨rfl, rfl⟩ := h
        intro x hx
        rcases List.mem_cons.mp hx with rfl | hx'
        · exact le_refl _
        · exact le_trans (not_lt.mp hnl) (hz x hx')

theorem origin_isInt (P : Nat) (a : Anacrusis) (parts : List TimeBase) (o : Rat)
    (hdiv : ∀ b ∈ parts, ∀ d ∈ divisions b, d ∣ P) (ha : a ≠ .padBar) (ho : origin a parts = some o) :
    IsInt ((P : Rat) * o) := by
  unfold origin at ho
  cases hr : argminFirst (parts.map fun b => quarter b 0) with
  | none => rw [hr] at ho; simp at ho
  | some p =>
    obtain ⟨i, q0⟩ := p
    rw [hr] at ho
    simp only at ho
    have hm := argminFirst_mem _ i q0 hr
    rw [List.getElem?_map] at hm
    cases hb : parts[i]? with
    | none => rw [hb] at hm; simp at hm
    | some b =>
      rw [hb] at hm
      simp only [Option.map_some, Option.some.injEq] at hm
      have hbm : b ∈ parts := List.mem_of_getElem? hb
      have hq : IsInt ((P : Rat) * q0) := hm ▸ quarter_isInt P b (hdiv b hbm) 0
      split at ho
      · cases a with
        | shift => simp only [Option.some.injEq] at ho; exact ho ▸ hq
        | timeSigChange => simp only [Option.some.injEq] at ho; exact ho ▸ hq
        | padBar => exact absurd rfl ha
      · simp only [Option.some.injEq] at ho
        subst ho
        simpa using IsInt.zero

/-- the origin of the `pad_bar` policy: minus one bar of the signature in force at time 0 in the part
    that starts earliest, when there is a pickup -/
theorem origin_pad_cases (parts : List TimeBase) (o : Rat) (ho : origin .padBar parts = some o) :
    o = 0 ∨ ∃ b ∈ parts, ∃ beats bt, tsAt b 0 = some (beats, bt) ∧ bt ≠ 0 ∧ o = -((beats : Rat) / ((bt : Rat) / 4)) := by
  unfold origin at ho
  cases hr : argminFirst (parts.map fun b => quarter b 0) with
  | none => rw [hr] at ho; simp at ho
  | some p =>
    obtain ⟨i, q0⟩ := p
    rw [hr] at ho
    simp only at ho
    split at ho
    · cases hb : parts[i]? with
      | none => rw [hb] at ho; simp at ho
      | some b =>
        rw [hb] at ho
        simp only at ho
        cases hts : tsAt b 0 with
        | none => rw [hts] at ho; simp at ho
        | some v =>
          obtain ⟨beats, bt⟩ := v
          rw [hts] at ho
          simp only at ho
          split at ho
          · simp at ho
          · rename_i hbt
            simp only [Option.some.injEq] at ho
            exact Or.inr ⟨b, List.mem_of_getElem? hb, beats, bt, hts, hbt, ho.symm⟩
    · simp only [Option.some.injEq] at ho
      exact Or.inl ho.symm

theorem pad_origin_isInt (P beats bt : Nat) (hbt : bt ≠ 0) (h : bt ∣ 4 * beats * P) :
    IsInt ((P : Rat) * -((beats : Rat) / ((bt : Rat) / 4))) := by
  obtain ⟨c, hc⟩ := h
  refine ⟨-(c : Int), ?_⟩
  have hb : (bt : Rat) ≠ 0 := by exact_mod_cast hbt
  have hc' : (4 : Rat) * beats * P = bt * c := by exact_mod_cast hc
  push_cast
  field_simp
  linarith

-- ------------------------------------------------------------------ monotonicity

/-- change times ascend from `t0` -/
def Asc : Nat → List (Nat × Rat) → Prop
  | _, [] => True
  | t0, (t1, _) :: rest => t0 ≤ t1 ∧ Asc t1 rest

theorem integ_nonneg (tbl : List (Nat × Rat)) (t0 : Nat) (r0 : Rat) (t : Nat)
    (h0 : 0 ≤ r0) (h : ∀ e ∈ tbl, 0 ≤ e.2) (hasc : Asc t0 tbl) (ht : t0 ≤ t) : 0 ≤ integ tbl t0 r0 t := by
  induction tbl generalizing t0 r0 with
  | nil =>
    simp only [integ]
    have : (0 : Rat) ≤ ((t : Int) : Rat) - ((t0 : Int) : Rat) := by
      have : ((t0 : Int) : Rat) ≤ ((t : Int) : Rat) := by exact_mod_cast ht
      linarith
    positivity
  | cons e rest ih =>
    obtain ⟨t1, r1⟩ := e
    simp only [integ]
    obtain ⟨h01, hrest⟩ := hasc
    split
    · have : (0 : Rat) ≤ ((t : Int) : Rat) - ((t0 : Int) : Rat) := by
        have : ((t0 : Int) : Rat) ≤ ((t : Int) : Rat) := by exact_mod_cast ht
        linarith
      positivity
    · rename_i hgt
      have h1 : (0 : Rat) ≤ ((t1 : Int) : Rat) - ((t0 : Int) : Rat) := by
        have : ((t0 : Int) : Rat) ≤ ((t1 : Int) : Rat) := by exact_mod_cast h01
        linarith
      have h2 := ih t1 r1 (h (t1, r1) List.mem_cons_self) (fun e he => h e (List.mem_cons_of_mem _ he)) hrest (by omega)
      have h3 : 0 ≤ r0 * (((t1 : Int) : Rat) - ((t0 : Int) : Rat)) := mul_nonneg h0 h1
      linarith

theorem integ_mono (tbl : List (Nat × Rat)) (t0 : Nat) (r0 : Rat) (a b : Nat)
    (h0 : 0 ≤ r0) (h : ∀ e ∈ tbl, 0 ≤ e.2) (hasc : Asc t0 tbl) (hta : t0 ≤ a) (hab : a ≤ b) :
    integ tbl t0 r0 a ≤ integ tbl t0 r0 b := by
  induction tbl generalizing t0 r0 with
  | nil =>
    simp only [integ]
    have : ((a : Int) : Rat) ≤ ((b : Int) : Rat) := by exact_mod_cast hab
    apply mul_le_mul_of_nonneg_left _ h0
    linarith
  | cons e rest ih =>
    obtain ⟨t1, r1⟩ := e
    obtain ⟨h01, hrest⟩ := hasc
    have hr1 := h (t1, r1) List.mem_cons_self
    have hr := fun e he => h e (List.mem_cons_of_mem (t1, r1) he)
    simp only [integ]
    by_cases ha : a ≤ t1
    · by_cases hb : b ≤ t1
      · simp only [ha, hb, if_true]
        have : ((a : Int) : Rat) ≤ ((b : Int) : Rat) := by exact_mod_cast hab
        apply mul_le_mul_of_nonneg_left _ h0
        linarith
      · simp only [ha, hb, if_true, if_false]
        have h2 := integ_nonneg rest t1 r1 b hr1 hr hrest (by omega)
        have : ((a : Int) : Rat) ≤ ((t1 : Int) : Rat) := by exact_mod_cast ha
        have h3 : r0 * (((a : Int) : Rat) - ((t0 : Int) : Rat)) ≤ r0 * (((t1 : Int) : Rat) - ((t0 : Int) : Rat)) := by
          apply mul_le_mul_of_nonneg_left _ h0
          linarith
        linarith
    · have hb : ¬ b ≤ t1 := by omega
      simp only [ha, hb, if_false]
      have := ih t1 r1 hr1 hr hrest (by omega)
      linarith

theorem integ_strictMono (tbl : List (Nat × Rat)) (t0 : Nat) (r0 : Rat) (a b : Nat)
    (h0 : 0 < r0) (h : ∀ e ∈ tbl, 0 < e.2) (hasc : Asc t0 tbl) (hta : t0 ≤ a) (hab : a < b) :
    integ tbl t0 r0 a < integ tbl t0 r0 b := by
  induction tbl generalizing t0 r0 with
  | nil =>
    simp only [integ]
    have : ((a : Int) : Rat) < ((b : Int) : Rat) := by exact_mod_cast hab
    apply mul_lt_mul_of_pos_left _ h0
    linarith
  | cons e rest ih =>
    obtain ⟨t1, r1⟩ := e
    obtain ⟨h01, hrest⟩ := hasc
    have hr1 := h (t1, r1) List.mem_cons_self
    have hr := fun e he => h e (List.mem_cons_of_mem (t1, r1) he)
    simp only [integ]
    by_cases ha : a ≤ t1
    · by_cases hb : b ≤ t1
      · simp only [ha, hb, if_true]
        have : ((a : Int) : Rat) < ((b : Int) : Rat) := by exact_mod_cast hab
        apply mul_lt_mul_of_pos_left _ h0
        linarith
      · simp only [ha, hb, if_true, if_false]
        by_cases hat : a = t1
        · subst hat
          have h2 := ih a r1 hr1 hr hrest (le_refl a)
          have h4 : integ rest a r1 a = 0 := by
            cases rest with
            | nil => simp [integ]
            | cons e2 r2 =>
              obtain ⟨t2, _⟩ := e2
              have : a ≤ t2 := hrest.1
              simp [integ, this]
          rw [h4] at h2
          linarith
        · have h2 := integ_nonneg rest t1 r1 b (le_of_lt hr1) (fun e he => le_of_lt (hr e he)) hrest (by omega)
          have : ((a : Int) : Rat) < ((t1 : Int) : Rat) := by
            have : a < t1 := by omega
            exact_mod_cast this
          have h3 : r0 * (((a : Int) : Rat) - ((t0 : Int) : Rat)) < r0 * (((t1 : Int) : Rat) - ((t0 : Int) : Rat)) := by
            apply mul_lt_mul_of_pos_left _ h0
            linarith
          linarith
    · have hb : ¬ b ≤ t1 := by omega
      simp only [ha, hb, if_false]
      have := ih t1 r1 hr1 hr hrest (by omega)
      linarith

/-- the quarter-duration table of a part is well formed: positive divisions, ascending change times -/
def WellFormed (b : TimeBase) : Prop :=
  0 < b.d0 ∧ (∀ e ∈ b.qd, 0 < e.2) ∧ Asc 0 (qRates b.qd)

theorem quarterRaw_mono (b : TimeBase) (hw : WellFormed b) (x y : Nat) (hxy : x ≤ y) :
    quarterRaw b x ≤ quarterRaw b y := by
  obtain ⟨h0, hq, hasc⟩ := hw
  unfold quarterRaw
  apply integ_mono _ _ _ _ _ _ _ hasc (Nat.zero_le x) hxy
  · have : (0 : Rat) < (b.d0 : Rat) := by exact_mod_cast h0
    positivity
  · intro e he
    simp only [qRates, List.mem_map] at he
    obtain ⟨z, hz, rfl⟩ := he
    have : (0 : Rat) < (z.2 : Rat) := by exact_mod_cast hq z hz
    positivity

theorem quarterRaw_strictMono (b : TimeBase) (hw : WellFormed b) (x y : Nat) (hxy : x < y) :
    quarterRaw b x < quarterRaw b y := by
  obtain ⟨h0, hq, hasc⟩ := hw
  unfold quarterRaw
  apply integ_strictMono _ _ _ _ _ _ _ hasc (Nat.zero_le x) hxy
  · have : (0 : Rat) < (b.d0 : Rat) := by exact_mod_cast h0
    positivity
  · intro e he
    simp only [qRates, List.mem_map] at he
    obtain ⟨z, hz, rfl⟩ := he
    have : (0 : Rat) < (z.2 : Rat) := by exact_mod_cast hq z hz
    positivity

end C04T
