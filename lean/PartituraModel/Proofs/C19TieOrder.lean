/-
Helper lemmas for `Props/C19TieOrder.lean`: the parts a final state denotes do not depend on the ORDER in which the
`<tie>` elements were collected, when no two ties start at the same note.
-/
import PartituraModel.Proofs.C19Sections

set_option linter.unusedSimpArgs false
set_option linter.unusedVariables false

namespace C19T
open Model Model.Mei C19S

theorem find?_perm_unique {α : Type} (p : α → Bool) {l l' : List α} (h : l.Perm l')
    (hu : ∀ x ∈ l, ∀ y ∈ l, p x = true → p y = true → x = y) : l.find? p = l'.find? p := by
  induction h with
  | nil => rfl
  | cons a _ ih =>
    simp only [List.find?_cons]
    cases hp : p a with
    | true => rfl
    | false => exact ih fun x hx y hy => hu x (List.mem_cons_of_mem _ hx) y (List.mem_cons_of_mem _ hy)
  | swap a b l =>
    simp only [List.find?_cons]
    cases hpa : p a with
    | true =>
      cases hpb : p b with
      | true =>
        have : b = a := hu b (by simp) a (by simp) hpb hpa
        simp [this]
      | false => rfl
    | false => rfl
  | trans h1 h2 ih1 ih2 =>
    rw [ih1 hu]
    exact ih2 fun x hx y hy => hu x (h1.mem_iff.mpr hx) y (h1.mem_iff.mpr hy)

theorem unique_of_nodup_fst (ties : List (String × String)) (hnd : (ties.map (·.1)).Nodup) (id : String) :
    ∀ x ∈ ties, ∀ y ∈ ties, (decide (x.1 = id)) = true → (decide (y.1 = id)) = true → x = y := by
  induction ties with
  | nil => intro x hx; cases hx
  | cons t rest ih =>
    simp only [List.map_cons, List.nodup_cons] at hnd
    obtain ⟨hnot, hrest⟩ := hnd
    intro x hx y hy px py
    simp only [decide_eq_true_eq] at px py
    rcases List.mem_cons.mp hx with rfl | hx' <;> rcases List.mem_cons.mp hy with rfl | hy'
    · rfl
    · exact absurd (List.mem_map.mpr ⟨y, hy', by rw [py, px]⟩) hnot
    · exact absurd (List.mem_map.mpr ⟨x, hx', by rw [px, py]⟩) hnot
    · exact ih hrest x hx' y hy' (by simpa using px) (by simpa using py)

theorem chainDur_perm (notes : List RNote) (ties ties' : List (String × String)) (h : ties'.Perm ties)
    (hnd : (ties.map (·.1)).Nodup) : ∀ (fuel : Nat) (id : String), chainDur notes ties' fuel id = chainDur notes ties fuel id := by
  intro fuel
  induction fuel with
  | zero => intro id; rfl
  | succ n ih =>
    intro id
    simp only [chainDur]
    have hf : ties'.find? (fun t => t.1 = id) = ties.find? (fun t => t.1 = id) :=
      (find?_perm_unique _ h.symm (unique_of_nodup_fst ties hnd id)).symm
    rw [hf]
    cases ties.find? (fun t => decide (t.1 = id)) with
    | none => rfl
    | some t =>
      obtain ⟨_, nxt⟩ := t
      simp only []
      cases notes.find? (fun n => n.xmlid = nxt) with
      | none => rfl
      | some n => simp only [ih nxt]

theorem contains_perm {l l' : List String} (h : l'.Perm l) (a : String) : l'.contains a = l.contains a := by
  cases hc : l.contains a with
  | true =>
    rw [List.contains_iff_mem] at hc ⊢
    exact h.mem_iff.mpr hc
  | false =>
    cases hc' : l'.contains a with
    | false => rfl
    | true =>
      rw [List.contains_iff_mem] at hc'
      have := h.mem_iff.mp hc'
      rw [← List.contains_iff_mem] at this
      rw [this] at hc
      cases hc

theorem mkPart_ties_perm (st : St) (ties' : List (String × String)) (h : ties'.Perm st.ties)
    (hnd : (st.ties.map (·.1)).Nodup) (i : Nat) (d : PartDef) :
    mkPart { st with ties := ties' } i d = mkPart st i d := by
  have hs : ∀ a, (ties'.map (·.1)).contains a = (st.ties.map (·.1)).contains a := contains_perm (h.map _)
  have he : ∀ a, (ties'.map (·.2)).contains a = (st.ties.map (·.2)).contains a := contains_perm (h.map _)
  have hc := chainDur_perm st.notes.reverse st.ties ties' h hnd
  have hl : ties'.length = st.ties.length := h.length_eq
  have hrm : resolveMeter { st with ties := ties' } d = resolveMeter st d := rfl
  have hrk : resolveKey { st with ties := ties' } d = resolveKey st d := rfl
  simp only [mkPart, hrm, hrk]
  cases resolveMeter st d with
  | none => rfl
  | some bu =>
    simp only [hs, he, hc, hl]

theorem partsOf_ties_perm (st : St) (ties' : List (String × String)) (h : ties'.Perm st.ties)
    (hnd : (st.ties.map (·.1)).Nodup) : partsOf { st with ties := ties' } = partsOf st := by
  unfold partsOf
  have hp : partsInOrder { st with ties := ties' } = partsInOrder st := rfl
  rw [hp]
  congr 1
  funext di
  exact mkPart_ties_perm st ties' h hnd di.2 di.1

/-! ## the state machine never reads the tie list -/

def setTies (t : List (String × String)) (s : St) : St := { s with ties := t }

theorem ensureStarted_ties (st : St) (t : List (String × String)) :
    ensureStarted (setTies t st) = (ensureStarted st).map (setTies t) := by
  unfold ensureStarted setTies
  by_cases hs : st.started = true
  · simp [hs]
  · simp only [hs]
    show (match (partsInOrder st).mapM (resolveMeter st) with
      | some ms => some ({ ({ st with ties := t } : St) with meters := ms, started := true })
      | none => none) = _
    cases (partsInOrder st).mapM (resolveMeter st) <;> rfl

theorem measureLen_ties (st : St) (t : List (String × String)) : measureLen (setTies t st) = measureLen st := rfl

theorem recordUnits_ties (st : St) (t : List (String × String)) (tag : String) (as : List (String × String)) :
    recordUnits (setTies t st) tag as = setTies t (recordUnits st tag as) := by
  unfold recordUnits setTies
  cases natAttr as "meter.unit" <;> by_cases h : tag = "meterSig" <;> cases natAttr as "unit" <;> simp [h]

theorem recordDurElT_ties (tups : List (Nat × Nat)) (st : St) (t : List (String × String)) (as : List (String × String)) :
    recordDurElT tups (setTies t st) as = (recordDurElT tups st as).map (setTies t) := by
  unfold recordDurElT setTies
  cases hd : attr as "dur" with
  | none => rfl
  | some d =>
    simp only []
    cases hv : durNumber d with
    | none => rfl
    | some v =>
      simp only []
      rcases tups with _ | ⟨t1, _ | ⟨t2, r⟩⟩ <;> rfl

macro "finT" : tactic => `(tactic|
  (simp [coreBody, tieOf, setTies, *]
   all_goals (try (repeat' split))
   all_goals (try (simp_all [setTies]))))

/-- `coreBody` on a state with another tie list: the same result with that tie list (plus the tie the element adds) -/
theorem coreBody_ties (c : Ctx) (st : St) (t : List (String × String)) (tag : String) (as : List (String × String)) :
    coreBody c (setTies t st) tag as = (coreBody c st tag as).map fun r => (setTies (tieOf tag as ++ t) r.1, r.2) := by
  by_cases hm : tag = "measure"
  · subst hm
    have := ensureStarted_ties st t
    simp [coreBody]
    rw [this]
    cases ensureStarted st <;> simp [tieOf, setTies]
  by_cases h12 : tag = "mRest"
  · subst h12
    simp [coreBody, tieOf, setTies]
    split
    · rfl
    · have : measureLen { st with ties := t } = measureLen st := rfl
      rw [this]
      cases measureLen st <;> simp
  by_cases h13 : tag = "multiRest"
  · subst h13
    simp [coreBody, tieOf, setTies]
    split
    · rfl
    · split
      · rfl
      · have : measureLen { st with ties := t } = measureLen st := rfl
        rw [this]
        cases measureLen st <;> simp
  by_cases h14 : tag = "space"
  · subst h14
    simp [coreBody, tieOf, setTies]
    split
    · rfl
    · split
      · cases durOfT c.tups as <;> simp
      · have : measureLen { st with ties := t } = measureLen st := rfl
        rw [this]
        cases measureLen st <;> simp
  by_cases h0 : tag = "section"
  · subst h0
    finT
  by_cases h1 : tag = "scoreDef"
  · subst h1
    finT
  by_cases h2 : tag = "meterSig"
  · subst h2
    finT
  by_cases h3 : tag = "keySig"
  · subst h3
    finT
  by_cases h4 : tag = "clef"
  · subst h4
    finT
  by_cases h5 : tag = "staff"
  · subst h5
    finT
  by_cases h6 : tag = "layer"
  · subst h6
    finT
  by_cases h7 : tag = "tie"
  · subst h7
    finT
  by_cases h8 : tag = "chord"
  · subst h8
    simp [coreBody, tieOf, setTies]
    split
    · rfl
    · cases durOfT c.tups as <;> simp
  by_cases h9 : tag = "note"
  · subst h9
    simp [coreBody, tieOf, setTies]
    split
    · rfl
    · split
      · split
        · rfl
        · cases attr as "pname" <;> cases (attr as "oct").bind natOfString <;> simp
      · split
        · cases attr as "pname" <;> cases (attr as "oct").bind natOfString <;> simp
        · cases durOfT c.tups as <;> cases attr as "pname" <;> cases (attr as "oct").bind natOfString <;> simp
  by_cases h10 : tag = "accid"
  · subst h10
    finT
  by_cases h11 : tag = "rest"
  · subst h11
    simp [coreBody, tieOf, setTies]
    split
    · rfl
    · cases durOfT c.tups as <;> simp
  by_cases h15 : tag = "tuplet"
  · subst h15
    finT
  finT

theorem openCore_ties (c : Ctx) (st : St) (t : List (String × String)) (tag : String) (as : List (String × String)) :
    openCore c (setTies t st) tag as = (openCore c st tag as).map fun r => (setTies (tieOf tag as ++ t) r.1, r.2) := by
  unfold openCore
  rw [recordUnits_ties, recordDurElT_ties]
  cases recordDurElT c.tups (recordUnits st tag as) as with
  | none => rfl
  | some s => simp only [Option.map_some, Option.bind_some, coreBody_ties]

theorem applySdChange_ties (st : St) (t : List (String × String)) (f : Frame) :
    applySdChange (setTies t st) f = setTies t (applySdChange st f) := by
  unfold applySdChange setTies
  simp only []
  split <;> split <;> rfl

theorem closeCore_ties (f : Frame) (b : String) (st : St) (t : List (String × String)) :
    closeCore f b (setTies t st) = (closeCore f b st).map (setTies t) := by
  obtain ⟨ftag, fattrs, cm, ck, cc⟩ := f
  by_cases h1 : ftag = "scoreDef"
  · subst h1
    by_cases h2 : st.inSection = true
    · have h2' : (setTies t st).inSection = true := h2
      simp only [closeCore, h2, h2', if_true, ensureStarted_ties]
      cases ensureStarted st with
      | none => rfl
      | some x => simp [applySdChange_ties]
    · have h2' : ¬ (setTies t st).inSection = true := h2
      simp [closeCore, h2, h2', setTies]
  by_cases h2 : ftag = "staffDef"
  · subst h2
    by_cases h3 : st.inSection = true
    · have h3' : (setTies t st).inSection = true := h3
      simp [closeCore, h3, h3', setTies]
    · have h3' : ¬ (setTies t st).inSection = true := h3
      simp [closeCore, h3, h3', setTies]
  by_cases h3 : ftag = "layer"
  · subst h3
    by_cases hb : b = "staff" <;> simp [closeCore, setTies, hb]
  by_cases h4 : ftag = "staff"
  · subst h4
    by_cases hb : b = "measure" <;> simp [closeCore, setTies, hb]
  by_cases h5 : ftag = "measure"
  · subst h5
    by_cases hm : st.staffIdx = st.defs.length <;> simp [closeCore, setTies, hm]
  by_cases h6 : ftag = "chord"
  · subst h6
    cases hch : st.chord with
    | none => simp [closeCore, setTies, hch]
    | some p =>
      obtain ⟨d, sx⟩ := p
      simp [closeCore, setTies, hch]
  simp only [closeCore, h1, h2, h3, h4, h5, h6, decide_false, Bool.false_and, Bool.false_eq_true, if_false]
  rfl

/-- a step from a state with another tie list -/
theorem step_ties (st : St) (t : List (String × String)) (e : Ev) :
    stepEv (setTies t st) e = (stepEv st e).map (setTies (evTies e ++ t)) := by
  cases e with
  | op tag as =>
    rw [stepEv_op, stepEv_op]
    have hc : core (setTies t st) = setTies t (core st) := rfl
    have hs : (setTies t st).stack = st.stack := rfl
    rw [hc, hs, openCore_ties]
    cases openCore (ctxOf st.stack) (core st) tag as with
    | none => rfl
    | some r => rfl
  | cl =>
    rw [stepEv_cl, stepEv_cl]
    have hs : (setTies t st).stack = st.stack := rfl
    rw [hs]
    cases st.stack with
    | nil => rfl
    | cons f rest =>
      simp only []
      have hc : core (setTies t st) = setTies t (core st) := rfl
      rw [hc, closeCore_ties]
      cases closeCore f (ptagOf rest) (core st) with
      | none => rfl
      | some x => rfl

/-- same state but for the tie lists, which are permutations of each other -/
def SimT (a b : St) : Prop := setTies b.ties a = b ∧ a.ties.Perm b.ties

theorem step_simT (a b : St) (e : Ev) (h : SimT a b) : RelOpt SimT (stepEv a e) (stepEv b e) := by
  obtain ⟨h1, h2⟩ := h
  have hb : stepEv b e = (stepEv a e).map (setTies (evTies e ++ b.ties)) := by
    rw [← h1, step_ties]
    rfl
  cases ha : stepEv a e with
  | none => rw [hb, ha]; exact trivial
  | some x =>
    rw [hb, ha]
    simp only [Option.map_some, RelOpt]
    have hk := (step_keeps a x e ha).1
    refine ⟨rfl, ?_⟩
    show x.ties.Perm (evTies e ++ b.ties)
    rw [hk]
    exact List.Perm.append_left _ h2

theorem run_simT (evs : List Ev) (a b : St) (h : SimT a b) : RelOpt SimT (runEvs a evs) (runEvs b evs) := by
  induction evs generalizing a b with
  | nil => exact h
  | cons e es ih =>
    simp only [runEvs]
    have hstep := step_simT a b e h
    cases ha : stepEv a e with
    | none =>
      cases hb : stepEv b e with
      | none => exact trivial
      | some y => simp [ha, hb, RelOpt] at hstep
    | some x =>
      cases hb : stepEv b e with
      | none => simp [ha, hb, RelOpt] at hstep
      | some y =>
        simp only [ha, hb, RelOpt] at hstep
        exact ih x y hstep

/-- an empty `<tie>` element (attributes without `@dur` / `@meter.unit`) adds its pair to the tie list and nothing else -/
theorem tie_leaf (st : St) (as : List (String × String)) (evs : List Ev) (hp : PlainAttrs as) :
    runEvs st (.op "tie" as :: .cl :: evs) = runEvs (setTies (tieOf "tie" as ++ st.ties) st) evs := by
  obtain ⟨hd, hu⟩ := hp
  have hopen : openCore (ctxOf st.stack) (core st) "tie" as = some (setTies (tieOf "tie" as ++ st.ties) (core st), .keep) := by
    simp [openCore, coreBody, recordDurElT, recordUnits, hd, hu, tieOf, setTies]
    split <;> simp_all [core, withStack]
  simp only [runEvs]
  rw [stepEv_op, hopen]
  simp only [Option.map_some, applyTop_keep]
  rw [stepEv_cl]
  show (match ((closeCore (newFrame "tie" as) (ptagOf st.stack)
      (core (withStack (setTies (tieOf "tie" as ++ st.ties) (core st)) (newFrame "tie" as :: st.stack)))).map
      fun x => withStack x st.stack) with
    | some st' => runEvs st' evs
    | none => none) = _
  have hclose : closeCore (newFrame "tie" as) (ptagOf st.stack)
      (core (withStack (setTies (tieOf "tie" as ++ st.ties) (core st)) (newFrame "tie" as :: st.stack)))
      = some (setTies (tieOf "tie" as ++ st.ties) (core st)) := by
    simp [closeCore, newFrame]
    rfl
  rw [hclose]
  rfl

/-- a run from a state with another tie list -/
theorem run_setTies (evs : List Ev) : ∀ (st : St) (t : List (String × String)),
    runEvs (setTies t st) evs = (runEvs st evs).map (setTies ((tiesOf evs).reverse ++ t)) := by
  induction evs with
  | nil => intro st t; simp [runEvs, tiesOf]
  | cons e es ih =>
    intro st t
    simp only [runEvs, step_ties]
    cases hs : stepEv st e with
    | none => rfl
    | some x =>
      simp only [Option.map_some, ih]
      cases runEvs x es with
      | none => rfl
      | some y =>
        simp only [Option.map_some]
        congr 2
        cases e with
        | op tag as => simp [tiesOf, evTies, List.reverse_append, tieOf_reverse]
        | cl => simp [tiesOf, evTies]

/-- the two placements of one `<tie>` element lead to final states that differ in the order of their tie lists only -/
theorem tie_move_states (st : St) (as : List (String × String)) (mid post : List Ev) (hp : PlainAttrs as) :
    RelOpt SimT (runEvs st (.op "tie" as :: .cl :: (mid ++ post))) (runEvs st (mid ++ .op "tie" as :: .cl :: post)) := by
  rw [tie_leaf st as (mid ++ post) hp, runEvs_append, runEvs_append, run_setTies]
  cases hm : runEvs st mid with
  | none => exact trivial
  | some s1 =>
    simp only [Option.map_some, Option.bind_some]
    rw [tie_leaf s1 as post hp]
    refine run_simT post _ _ ⟨rfl, ?_⟩
    have hk := (run_ties mid st s1 hm).1
    show ((tiesOf mid).reverse ++ (tieOf "tie" as ++ st.ties)).Perm (tieOf "tie" as ++ s1.ties)
    rw [hk, ← List.append_assoc, ← List.append_assoc]
    exact List.Perm.append_right _ List.perm_append_comm

theorem eq_setTies_of (a b : St) (h : setTies b.ties a = b) : setTies a.ties b = a := by
  rw [← h]
  rfl

end C19T
