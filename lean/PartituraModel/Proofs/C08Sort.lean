/-
Helper lemmas for C08: the stable insertion sort of Model/MatchTime.lean (`insertBy`, `sortBy`) returns a
permutation that is sorted; on indexed elements it is the lexicographic order with the index as last key
(stability); on a sorted list it is the identity; the last element of a sorted list below a bound.
-/
import PartituraModel.Model.MatchTime
import Mathlib.Data.List.Perm.Basic
import Mathlib.Data.List.Pairwise
import Mathlib.Tactic.Linarith

namespace C08S
open Model Model.MatchTime

variable {α : Type}

theorem insertBy_perm (le : α → α → Bool) (a : α) (l : List α) : (insertBy le a l).Perm (a :: l) := by
  induction l with
  | nil => simp [insertBy]
  | cons b rest ih =>
    unfold insertBy
    split
    · exact List.Perm.refl _
    · exact (List.Perm.cons b ih).trans (List.Perm.swap a b rest)

theorem sortBy_perm (le : α → α → Bool) (l : List α) : (sortBy le l).Perm l := by
  induction l with
  | nil => simp [sortBy]
  | cons a rest ih =>
    unfold sortBy
    exact (insertBy_perm le a _).trans (List.Perm.cons a ih)

theorem mem_insertBy {le : α → α → Bool} {a x : α} {l : List α} : x ∈ insertBy le a l ↔ x = a ∨ x ∈ l := by
  rw [(insertBy_perm le a l).mem_iff]; simp

theorem mem_sortBy {le : α → α → Bool} {x : α} {l : List α} : x ∈ sortBy le l ↔ x ∈ l :=
  (sortBy_perm le l).mem_iff

/-- inserting into a list sorted by a relation `R`, when `le` decides `R` in the sense below -/
theorem insertBy_pairwise (le : α → α → Bool) (R : α → α → Prop) (a : α) (l : List α)
    (hyes : ∀ x ∈ l, le a x = true → R a x) (hno : ∀ x ∈ l, le a x = false → R x a)
    (hmono : ∀ x ∈ l, ∀ y ∈ l, le a x = true → R x y → le a y = true)
    (hl : l.Pairwise R) : (insertBy le a l).Pairwise R := by
  induction l with
  | nil => simp [insertBy]
  | cons b rest ih =>
    unfold insertBy
    have hb : b ∈ b :: rest := by simp
    rw [List.pairwise_cons] at hl
    split
    · rename_i h
      rw [List.pairwise_cons]
      refine ⟨?_, List.pairwise_cons.mpr hl⟩
      intro x hx
      rcases List.mem_cons.mp hx with rfl | hx'
      · exact hyes _ hb h
      · exact hyes x hx (hmono b hb x hx h (hl.1 x hx'))
    · rename_i h
      have h' : le a b = false := by simpa using h
      rw [List.pairwise_cons]
      constructor
      · intro x hx
        rcases mem_insertBy.mp hx with rfl | hx'
        · exact hno b hb h'
        · exact hl.1 x hx'
      · exact ih (fun x hx => hyes x (by simp [hx])) (fun x hx => hno x (by simp [hx]))
          (fun x hx y hy => hmono x (by simp [hx]) y (by simp [hy])) hl.2

/-- for a total, transitive `le` the result of `sortBy` is sorted -/
theorem sortBy_pairwise (le : α → α → Bool) (total : ∀ a b, le a b = true ∨ le b a = true)
    (trans : ∀ a b c, le a b = true → le b c = true → le a c = true) (l : List α) :
    (sortBy le l).Pairwise (fun a b => le a b = true) := by
  induction l with
  | nil => simp [sortBy]
  | cons a rest ih =>
    unfold sortBy
    apply insertBy_pairwise le _ a _ (fun x _ h => h) _ _ ih
    · intro x _ h
      rcases total a x with h1 | h1
      · rw [h1] at h; cases h
      · exact h1
    · intro x _ y _ h1 h2
      exact trans a x y h1 h2

/-- a sorted list is left unchanged -/
theorem sortBy_id (le : α → α → Bool) (l : List α) (h : l.Pairwise (fun a b => le a b = true)) :
    sortBy le l = l := by
  induction l with
  | nil => rfl
  | cons a rest ih =>
    rw [List.pairwise_cons] at h
    unfold sortBy
    rw [ih h.2]
    cases rest with
    | nil => rfl
    | cons b r =>
      unfold insertBy
      rw [h.1 b (by simp)]
      rfl

/-! ### stability: indexed elements -/

/-- order of indexed elements: by key, equal keys by index -/
def IdxLe {κ : Type} (le : κ → κ → Bool) (a b : Nat × κ) : Prop :=
  le a.2 b.2 = true ∧ (le b.2 a.2 = true → a.1 < b.1)

theorem sortBy_stable {κ : Type} (le : κ → κ → Bool) (total : ∀ a b, le a b = true ∨ le b a = true)
    (trans : ∀ a b c, le a b = true → le b c = true → le a c = true) (l : List (Nat × κ))
    (hidx : l.Pairwise (fun a b => a.1 < b.1)) :
    (sortBy (fun a b => le a.2 b.2) l).Pairwise (IdxLe le) := by
  induction l with
  | nil => simp [sortBy]
  | cons a rest ih =>
    rw [List.pairwise_cons] at hidx
    unfold sortBy
    have hlt : ∀ x ∈ sortBy (fun a b => le a.2 b.2) rest, a.1 < x.1 := fun x hx => hidx.1 x (mem_sortBy.mp hx)
    apply insertBy_pairwise (fun a b => le a.2 b.2) (IdxLe le) a _ _ _ _ (ih hidx.2)
    · intro x hx h
      exact ⟨h, fun _ => hlt x hx⟩
    · intro x _ h
      refine ⟨?_, fun h2 => ?_⟩
      · rcases total a.2 x.2 with h1 | h1
        · rw [h1] at h; cases h
        · exact h1
      · rw [h2] at h; cases h
    · intro x _ y _ h1 h2
      exact trans a.2 x.2 y.2 h1 h2.1

/-! ### the last element of a sorted list that is not above a bound -/

/-- the last element of a list whose keys increase (weakly) is a largest one -/
theorem getLast?_max {key : α → Rat} (l : List α) (h : l.Pairwise (fun a b => key a ≤ key b)) (p : α)
    (hp : l.getLast? = some p) : ∀ x ∈ l, key x ≤ key p := by
  induction l with
  | nil => simp at hp
  | cons a rest ih =>
    rw [List.pairwise_cons] at h
    cases rest with
    | nil =>
      simp at hp
      intro x hx
      simp at hx
      rw [hx, hp]
    | cons b r =>
      have hp' : (b :: r).getLast? = some p := by simpa [List.getLast?_cons_cons] using hp
      intro x hx
      rcases List.mem_cons.mp hx with rfl | hx'
      · exact h.1 p (List.mem_of_getLast? hp')
      · exact ih h.2 hp' x hx'

/-- `(sorted list).filter (key ≤ b)).getLast?`: a member not above `b` that is largest among those -/
theorem lastLE_spec {key : α → Rat} (l : List α) (h : l.Pairwise (fun a b => key a ≤ key b)) (b : Rat) :
    match (l.filter fun x => decide (key x ≤ b)).getLast? with
    | some p => p ∈ l ∧ key p ≤ b ∧ ∀ x ∈ l, key x ≤ b → key x ≤ key p
    | none => ∀ x ∈ l, ¬ key x ≤ b := by
  cases hq : (l.filter fun x => decide (key x ≤ b)).getLast? with
  | none =>
    intro x hx hle
    have : x ∈ l.filter fun x => decide (key x ≤ b) := List.mem_filter.mpr ⟨hx, by simpa using hle⟩
    rw [List.getLast?_eq_none_iff] at hq
    rw [hq] at this
    cases this
  | some p =>
    have hm := List.mem_filter.mp (List.mem_of_getLast? hq)
    refine ⟨hm.1, by simpa using hm.2, ?_⟩
    intro x hx hle
    exact getLast?_max _ (h.sublist List.filter_sublist) p hq x (List.mem_filter.mpr ⟨hx, by simpa using hle⟩)

/-- head step of the search in a sorted list: below the second key only the first element can qualify -/
theorem lastLE_lt {key : α → Rat} (a a' : α) (rest : List α)
    (h : (a :: a' :: rest).Pairwise (fun x y => key x ≤ key y)) (b : Rat) (hb : b < key a') :
    ((a :: a' :: rest).filter fun x => decide (key x ≤ b)).getLast? = if key a ≤ b then some a else none := by
  have htail : (a' :: rest).filter (fun x => decide (key x ≤ b)) = [] := by
    rw [List.filter_eq_nil_iff]
    intro x hx
    have h2 := (List.pairwise_cons.mp (List.pairwise_cons.mp h).2)
    have : key a' ≤ key x := by
      rcases List.mem_cons.mp hx with rfl | hx'
      · exact le_refl _
      · exact h2.1 x hx'
    simp only [decide_eq_true_eq, not_le]
    linarith
  rw [List.filter_cons, htail]
  split <;> rename_i hc
  · have : key a ≤ b := by simpa using hc
    simp [this]
  · have : ¬ key a ≤ b := by simpa using hc
    simp [this]

/-- head step: at or above the second key the first element does not matter -/
theorem lastLE_ge {key : α → Rat} (a a' : α) (rest : List α) (b : Rat) (hb : key a' ≤ b) :
    ((a :: a' :: rest).filter fun x => decide (key x ≤ b)).getLast?
      = ((a' :: rest).filter fun x => decide (key x ≤ b)).getLast? := by
  have hne : (a' :: rest).filter (fun x => decide (key x ≤ b)) ≠ [] := by
    rw [List.filter_cons]
    simp [hb]
  rw [List.filter_cons]
  split
  · cases hf : (a' :: rest).filter (fun x => decide (key x ≤ b)) with
    | nil => exact absurd hf hne
    | cons c r => rw [List.getLast?_cons_cons]
  · rfl

/-! ### `mapM` in `Option` -/

theorem mapM_map {α β γ : Type} (f : α → Option β) (g : β → γ) (h : α → γ)
    (hfg : ∀ a b, f a = some b → g b = h a) :
    ∀ (l : List α) (l' : List β), l.mapM f = some l' → l'.map g = l.map h := by
  intro l
  induction l with
  | nil => intro l' hl; simp at hl; subst hl; rfl
  | cons a rest ih =>
    intro l' hl
    rw [List.mapM_cons] at hl
    cases hfa : f a with
    | none => simp [hfa] at hl
    | some b =>
      cases hr : rest.mapM f with
      | none => simp [hfa, hr] at hl
      | some bs =>
        simp [hfa, hr] at hl
        subst hl
        simp [hfg a b hfa, ih bs hr]

end C08S
