/-
C11 (round 6) — `Walkable` (every tie chain ENDS: `duration_tied` / `end_tied` return) from local, decidable conditions:
when every tie points at a note of the list that starts LATER, the chains end — the start time grows along a chain and
is bounded by the latest start in the list.  Adjacent ties (`ContigAll`) out of notes of positive length are such ties.
-/
import PartituraModel.Proofs.C11Sound

namespace C11Forward
open Model Model.Dur Model.Meas C11Walk C11Rows C11Sound

/-- every tie points at a note that starts later -/
def Forward (ns : List Note) : Prop :=
  ∀ n ∈ ns, ∀ t, n.tieNext = some t → ∃ m, lk ns t = some m ∧ n.start < m.start

theorem start_le_sum : ∀ (ns : List Note), ∀ n ∈ ns, n.start ≤ (ns.map (·.start)).sum := by
  intro ns
  induction ns with
  | nil => intro n hn; cases hn
  | cons a as ih =>
    intro n hn
    rw [List.map_cons, List.sum_cons]
    rcases List.mem_cons.mp hn with rfl | h
    · omega
    · have := ih n h; omega

/-- a chain whose starts grow and are bounded ends: induction on the room left below the bound -/
theorem walk_of_forward (ns : List Note) (hf : Forward ns) : ∀ (k x : Nat) (n : Note), lk ns x = some n →
    (∀ m ∈ ns, m.start ≤ n.start + k) → ∃ d e, Walk ns x d e := by
  intro k
  induction k with
  | zero =>
    intro x n hn hb
    cases ht : n.tieNext with
    | none => exact ⟨_, _, Walk.last x n hn ht⟩
    | some t =>
      obtain ⟨m, hm, hlt⟩ := hf n (lk_some ns x n hn).2 t ht
      have := hb m (lk_some ns t m hm).2
      omega
  | succ k ih =>
    intro x n hn hb
    cases ht : n.tieNext with
    | none => exact ⟨_, _, Walk.last x n hn ht⟩
    | some t =>
      obtain ⟨m, hm, hlt⟩ := hf n (lk_some ns x n hn).2 t ht
      obtain ⟨d, e, hw⟩ := ih t m hm (fun m' hm' => by have := hb m' hm'; omega)
      exact ⟨_, e, Walk.step x n t d e hn ht hw⟩

/-- **forward ties end**: with distinct keys, a list in which every tie points at a later note is `Walkable` -/
theorem walkable_of_forward (ns : List Note) (hkeys : KeysOK ns) (hf : Forward ns) : Walkable ns := by
  intro n hn _
  exact walk_of_forward ns hf ((ns.map (·.start)).sum) n.key n (lk_self ns hkeys n hn)
    (fun m hm => by have := start_le_sum ns m hm; omega)

/-- adjacent ties out of notes of positive length point forward -/
theorem forward_of_contig (ns : List Note) (hlinks : LinksOK ns) (hc : ContigAll ns)
    (hpos : ∀ n ∈ ns, n.tieNext.isSome = true → n.start < n.stop) : Forward ns := by
  intro n hn t ht
  obtain ⟨m, hm, _⟩ := hlinks n hn t ht
  refine ⟨m, hm, ?_⟩
  have h1 := (hc n hn).2 t m ht hm
  have h2 := hpos n hn (by rw [ht]; rfl)
  omega

end C11Forward
