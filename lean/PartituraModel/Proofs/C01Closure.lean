/-
C01 helper lemmas, round 2: the generated MRO table IS the reflexive-transitive closure of the generated
`__subclasses__()` table (so "subclass per the MRO" and "reachable through `__subclasses__()`" — what
`iter_subclasses` walks — are the same relation), by kernel evaluation of the WHOLE tables plus an induction
on the MRO length; and the class filter of the queries for ARBITRARY class arguments.
-/
import PartituraModel.Proofs.C01Main

namespace TL

/-- `SubclassRT d c`: `d` is `c`, or reachable from `c` through `__subclasses__()` edges -/
inductive SubclassRT : Nat → Nat → Prop
  | refl (c : Nat) : SubclassRT c c
  | step {d m c : Nat} : d ∈ Gen.directSubclasses.getD m [] → SubclassRT m c → SubclassRT d c

-- ------------------------------------------------------------------ whole-table facts

/-- every class id mentioned anywhere in the generated tables is a row index -/
theorem class_ids_bounded_tab :
    (∀ row ∈ Gen.directSubclasses, ∀ c ∈ row, c < Gen.numClasses)
    ∧ (∀ row ∈ Gen.iterSubclassesTab, ∀ c ∈ row, c < Gen.numClasses)
    ∧ (∀ row ∈ Gen.mroTab, ∀ c ∈ row, c < Gen.numClasses)
    ∧ (∀ c ∈ Gen.objectSubclasses, c < Gen.numClasses) := by
  decide +kernel

/-- the MRO relation is transitive -/
theorem mro_trans_tab :
    ∀ a ∈ List.range Gen.numClasses, ∀ b ∈ Gen.mroTab.getD a [], ∀ c ∈ Gen.mroTab.getD b [],
      c ∈ Gen.mroTab.getD a [] := by
  decide +kernel

/-- a `__subclasses__()` edge is a subclass pair of the MRO table -/
theorem direct_in_mro_tab :
    ∀ m ∈ List.range Gen.numClasses, ∀ d ∈ Gen.directSubclasses.getD m [], m ∈ Gen.mroTab.getD d [] := by
  decide +kernel

/-- every strict ancestor in the MRO is an ancestor-or-self of a direct parent, whose MRO is shorter -/
theorem mro_step_tab :
    ∀ d ∈ List.range Gen.numClasses, ∀ c ∈ Gen.mroTab.getD d [], c ≠ d →
      ∃ m ∈ List.range Gen.numClasses, d ∈ Gen.directSubclasses.getD m [] ∧ c ∈ Gen.mroTab.getD m []
        ∧ (Gen.mroTab.getD m []).length < (Gen.mroTab.getD d []).length := by
  decide +kernel

-- ------------------------------------------------------------------ consequences for arbitrary ids

theorem getD_nil_of_ge {tab : List (List Nat)} {i : Nat} (h : tab.length ≤ i) : tab.getD i [] = [] := by
  rw [List.getD_eq_getElem?_getD, List.getElem?_eq_none h]
  rfl

theorem mem_getD_lt {tab : List (List Nat)} {i x : Nat} (h : x ∈ tab.getD i []) : i < tab.length := by
  by_cases hc : i < tab.length
  · exact hc
  · rw [getD_nil_of_ge (by omega)] at h
    cases h

theorem mem_getD_row {tab : List (List Nat)} {i x : Nat} (h : x ∈ tab.getD i []) : ∃ row ∈ tab, x ∈ row := by
  have hi := mem_getD_lt h
  rw [List.getD_eq_getElem?_getD, List.getElem?_eq_getElem hi] at h
  exact ⟨tab[i], List.getElem_mem hi, h⟩

theorem isSubclass_iff_mem (d c : Nat) : isSubclass d c = true ↔ c ∈ Gen.mroTab.getD d [] := by
  simp [isSubclass]

theorem isSubclass_bounds {d c : Nat} (h : isSubclass d c = true) : d < Gen.numClasses ∧ c < Gen.numClasses := by
  rw [isSubclass_iff_mem] at h
  refine ⟨?_, ?_⟩
  · have := mem_getD_lt h
    rwa [class_table_lengths.2.2.2] at this
  · obtain ⟨row, hr, hx⟩ := mem_getD_row h
    exact class_ids_bounded_tab.2.2.1 row hr c hx

theorem direct_bounds {d m : Nat} (h : d ∈ Gen.directSubclasses.getD m []) :
    d < Gen.numClasses ∧ m < Gen.numClasses := by
  refine ⟨?_, ?_⟩
  · obtain ⟨row, hr, hx⟩ := mem_getD_row h
    exact class_ids_bounded_tab.1 row hr d hx
  · have := mem_getD_lt h
    rwa [class_table_lengths.2.1] at this

theorem iterSubclasses_bounds {k c : Nat} (h : k ∈ iterSubclasses c) : k < Gen.numClasses ∧ c < Gen.numClasses := by
  have hc : c < Gen.numClasses := by
    by_cases hcc : c < Gen.numClasses
    · exact hcc
    · rw [iterSubclasses_out_of_range (by omega)] at h
      cases h
  refine ⟨?_, hc⟩
  rw [iterSubclasses_eq_tab c (List.mem_range.mpr hc)] at h
  obtain ⟨row, hr, hx⟩ := mem_getD_row h
  exact class_ids_bounded_tab.2.1 row hr k hx

/-- MRO membership is reachability through `__subclasses__()`: induction on the length of the MRO -/
theorem closure_of_mro : ∀ (n d c : Nat), (Gen.mroTab.getD d []).length ≤ n → c ∈ Gen.mroTab.getD d [] →
    SubclassRT d c := by
  intro n
  induction n with
  | zero =>
    intro d c hlen hmem
    have : Gen.mroTab.getD d [] = [] := List.eq_nil_of_length_eq_zero (by omega)
    rw [this] at hmem
    cases hmem
  | succ n ih =>
    intro d c hlen hmem
    by_cases hcd : c = d
    · subst hcd; exact SubclassRT.refl c
    · have hd : d < Gen.numClasses := (isSubclass_bounds ((isSubclass_iff_mem d c).mpr hmem)).1
      obtain ⟨m, -, hdm, hcm, hlt⟩ := mro_step_tab d (List.mem_range.mpr hd) c hmem hcd
      exact SubclassRT.step hdm (ih m c (by omega) hcm)

/-- the generated MRO table is exactly the reflexive-transitive closure of the generated
`__subclasses__()` table, for ALL naturals (ids outside the table are related to themselves only) -/
theorem subclassRT_iff (d c : Nat) : SubclassRT d c ↔ (d = c ∨ isSubclass d c = true) := by
  constructor
  · intro h
    induction h with
    | refl c => exact Or.inl rfl
    | @step d m c hdm _ ih =>
      right
      obtain ⟨hd, hm⟩ := direct_bounds hdm
      have hmd : m ∈ Gen.mroTab.getD d [] := direct_in_mro_tab m (List.mem_range.mpr hm) d hdm
      rw [isSubclass_iff_mem]
      rcases ih with rfl | hmc
      · exact hmd
      · rw [isSubclass_iff_mem] at hmc
        exact mro_trans_tab d (List.mem_range.mpr hd) m hmd c hmc
  · rintro (rfl | h)
    · exact SubclassRT.refl d
    · rw [isSubclass_iff_mem] at h
      exact closure_of_mro _ d c (Nat.le_refl _) h

-- ------------------------------------------------------------------ the class filter, any query class

/-- the class filter as the property states it, with the subclass relation as reachability through
`__subclasses__()` (equivalently the MRO, `subclassRT_iff`) -/
def ClassSpecRT (cls : Option Nat) (incl : Bool) (k : Nat) : Prop :=
  match cls with
  | none => incl = true
  | some c => if incl then SubclassRT k c else k = c

/-- for an object of a generated class, the classes the model visits are exactly the matching ones —
whatever the query class is (no hypothesis on `cls`) -/
theorem clsMatch_specRT {cls : Option Nat} {incl : Bool} {k : Nat} (hk : k < Gen.numClasses) :
    clsMatch cls incl k ↔ ClassSpecRT cls incl k := by
  cases cls with
  | none =>
    have := objectSubclasses_tab.2 k (List.mem_range.mpr hk)
    simp [clsMatch, ClassSpecRT, subSeq, this]
  | some c =>
    cases incl with
    | false => simp [clsMatch, ClassSpecRT, eq_comm]
    | true =>
      simp only [clsMatch, ClassSpecRT, subSeq, Option.some.injEq, true_and, if_true]
      rw [subclassRT_iff]
      by_cases hc : c < Gen.numClasses
      · have hd := iterSubclasses_desc_tab c (List.mem_range.mpr hc) k (List.mem_range.mpr hk)
        have hr := isSubclass_refl_tab c (List.mem_range.mpr hc)
        rw [hd]
        constructor
        · rintro (rfl | ⟨-, h⟩)
          · exact Or.inl rfl
          · exact Or.inr h
        · rintro (rfl | h)
          · exact Or.inl rfl
          · by_cases hkc : k = c
            · exact Or.inl hkc.symm
            · exact Or.inr ⟨hkc, h⟩
      · rw [iterSubclasses_out_of_range (by omega)]
        constructor
        · rintro (rfl | h)
          · exact Or.inl rfl
          · cases h
        · rintro (rfl | h)
          · exact Or.inl rfl
          · exact absurd (isSubclass_bounds h).2 hc

/-- for generated ids the two formulations of the class filter agree -/
theorem classSpecRT_iff {cls : Option Nat} {incl : Bool} {k : Nat} (hk : k < Gen.numClasses)
    (hc : ∀ c, cls = some c → c < Gen.numClasses) : ClassSpecRT cls incl k ↔ ClassSpec cls incl k := by
  rw [← clsMatch_specRT hk, clsMatch_spec hk hc]

end TL
