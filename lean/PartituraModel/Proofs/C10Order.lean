/-
Helper definitions and lemmas for Props/C10Order.lean (round 5).
-/
import PartituraModel.Proofs.C10

namespace C10
open Model Model.StepMap

/-- the rows that start at or before `x`, in table order -/
def upTo {α : Type} (tbl : Tbl α) (x : Int) : Tbl α := tbl.filter fun e => decide (e.1 ≤ x)

theorem upTo_nil_of_lt {α : Type} (tbl : Tbl α) (x : Int) (h : ∀ e ∈ tbl, x < e.1) : upTo tbl x = [] := by
  unfold upTo
  rw [List.filter_eq_nil_iff]
  intro e he
  have := h e he
  simp only [decide_eq_true_eq]
  omega

theorem sortedLE_mapVal {β γ : Type} (g : β → γ) (l : Tbl β) (h : SortedLE l) : SortedLE (mapVal g l) := by
  unfold SortedLE mapVal
  rw [List.pairwise_map]
  exact h

theorem upTo_mapVal {β γ : Type} (g : β → γ) (l : Tbl β) (x : Int) : upTo (mapVal g l) x = mapVal g (upTo l x) := by
  unfold upTo mapVal
  rw [List.filter_map]
  rfl

theorem getLast_mapVal {β γ : Type} (g : β → γ) (l : Tbl β) :
    (mapVal g l).getLast? = l.getLast?.map fun e => (e.1, g e.2) := by
  unfold mapVal
  rw [List.getLast?_map]

end C10
