/-
C01 helper lemmas, part 5: every operation of the state machine on a good state.
-/
import PartituraModel.Proofs.C01Quarter

namespace TL

/-- the operation carries a negative time-point argument (which the code must reject) -/
def Op.negTime : Op → Bool
  | .add _ st en => isNeg st || isNeg en
  | .getOrAdd t => decide (t < 0)
  | .iterPrev t _ _ _ => decide (t < 0)
  | .iterNext t _ _ _ => decide (t < 0)
  | .getPoint t => decide (t < 0)
  | _ => false

theorem isNeg_false_some {t : Int} (h : isNeg (some t) = false) : 0 ≤ t := by
  simp [isNeg] at h; omega

-- ------------------------------------------------------------------ add

theorem add_spec {s : Part} (h : Good s) {o : ObjRef} {st en : Option Int}
    (hv : Valid s (.add o st en)) (hn : (Op.add o st en).negTime = false) :
    ∃ s', step s (.add o st en) = .ok (s', .unit) ∧ Good s' ∧ s'.qtab = s.qtab ∧ s'.requested = s.requested
      ∧ (getObj s'.objs o).start = (if st.isSome then st else (getObj s.objs o).start)
      ∧ (getObj s'.objs o).stop = (if en.isSome then en else (getObj s.objs o).stop)
      ∧ (∀ o', o' ≠ o → getObj s'.objs o' = getObj s.objs o')
      ∧ (∀ x, x ∈ s'.times ↔ x ∈ s.times ∨ some x = st ∨ some x = en) := by
  simp only [Op.negTime, Bool.or_eq_false_iff] at hn
  obtain ⟨hn1, hn2⟩ := hn
  simp only [Valid] at hv
  simp only [step, stepAdd, hn1, hn2, Bool.or_self, Bool.false_eq_true, if_false]
  -- the start side
  have hA : ∃ s1, addSideOpt s .start st o = .ok s1 ∧ Good s1
      ∧ s1.qtab = s.qtab ∧ s1.requested = s.requested
      ∧ (getObj s1.objs o).start = (if st.isSome then st else (getObj s.objs o).start)
      ∧ (getObj s1.objs o).stop = (getObj s.objs o).stop
      ∧ (∀ o', o' ≠ o → getObj s1.objs o' = getObj s.objs o')
      ∧ (∀ x, x ∈ s1.times ↔ x ∈ s.times ∨ some x = st) := by
    cases st with
    | none => exact ⟨s, rfl, h, rfl, rfl, by simp, rfl, fun _ _ => rfl, by simp⟩
    | some a =>
      have ha : 0 ≤ a := isNeg_false_some hn1
      obtain ⟨s1, he, hg, hq, hobjs, hr, ht⟩ := addSide_spec h (sd := .start) (o := o) ha (hv.1 rfl)
      have hrefs : ∀ e : ObjSt, (e.setAt .start (some a)).ref = e.ref := fun e => by simp
      refine ⟨s1, he, hg, hq, hr, ?_, ?_, ?_, ?_⟩
      · rw [hobjs, getObj_setObj_same h.1.objsNodup hrefs]; rfl
      · rw [hobjs, getObj_setObj_same h.1.objsNodup hrefs]; rfl
      · intro o' hne
        rw [hobjs, getObj_setObj_other h.1.objsNodup hrefs hne]
      · intro x
        rw [ht x]
        simp [eq_comm]
  obtain ⟨s1, he1, hg1, hq1, hr1, hs1, hp1, ho1, ht1⟩ := hA
  rw [he1]
  simp only [Except.bind]
  have hB : ∃ s2, addSideOpt s1 .stop en o = .ok s2 ∧ Good s2
      ∧ s2.qtab = s1.qtab ∧ s2.requested = s1.requested
      ∧ (getObj s2.objs o).start = (getObj s1.objs o).start
      ∧ (getObj s2.objs o).stop = (if en.isSome then en else (getObj s1.objs o).stop)
      ∧ (∀ o', o' ≠ o → getObj s2.objs o' = getObj s1.objs o')
      ∧ (∀ x, x ∈ s2.times ↔ x ∈ s1.times ∨ some x = en) := by
    cases en with
    | none => exact ⟨s1, rfl, hg1, rfl, rfl, rfl, by simp, fun _ _ => rfl, by simp⟩
    | some b =>
      have hb : 0 ≤ b := isNeg_false_some hn2
      have hfree : (getObj s1.objs o).at .stop = none := by
        show (getObj s1.objs o).stop = none
        rw [hp1]; exact hv.2 rfl
      obtain ⟨s2, he, hg, hq, hobjs, hr, ht⟩ := addSide_spec hg1 (sd := .stop) (o := o) hb hfree
      have hrefs : ∀ e : ObjSt, (e.setAt .stop (some b)).ref = e.ref := fun e => by simp
      refine ⟨s2, he, hg, hq, hr, ?_, ?_, ?_, ?_⟩
      · rw [hobjs, getObj_setObj_same hg1.1.objsNodup hrefs]; rfl
      · rw [hobjs, getObj_setObj_same hg1.1.objsNodup hrefs]; rfl
      · intro o' hne
        rw [hobjs, getObj_setObj_other hg1.1.objsNodup hrefs hne]
      · intro x
        rw [ht x]
        simp [eq_comm]
  obtain ⟨s2, he2, hg2, hq2, hr2, hs2, hp2, ho2, ht2⟩ := hB
  rw [he2]
  refine ⟨s2, rfl, hg2, by rw [hq2, hq1], by rw [hr2, hr1], by rw [hs2, hs1], by rw [hp2, hp1], ?_, ?_⟩
  · intro o' hne; rw [ho2 o' hne, ho1 o' hne]
  · intro x; rw [ht2 x, ht1 x]; exact or_assoc

-- ------------------------------------------------------------------ remove

theorem removeSide_effect {s : Part} (h : Good s) (sd : Side) (o : ObjRef) :
    ∃ s', removeSide s sd o = .ok s' ∧ Good s' ∧ s'.qtab = s.qtab
      ∧ (getObj s'.objs o).at sd = none
      ∧ (∀ sd', sd' ≠ sd → (getObj s'.objs o).at sd' = (getObj s.objs o).at sd')
      ∧ (∀ o', o' ≠ o → getObj s'.objs o' = getObj s.objs o') := by
  obtain ⟨s', he, hg, hq, hobjs⟩ := removeSide_spec h sd o
  have hrefs : ∀ e : ObjSt, (e.setAt sd none).ref = e.ref := fun e => by simp
  refine ⟨s', he, hg, hq, ?_, ?_, ?_⟩
  · rw [hobjs]
    cases hat : (getObj s.objs o).at sd with
    | none => simpa using hat
    | some t => simp only; rw [getObj_setObj_same h.1.objsNodup hrefs]; simp
  · intro sd' hne
    rw [hobjs]
    cases hat : (getObj s.objs o).at sd with
    | none => rfl
    | some t => simp only; rw [getObj_setObj_same h.1.objsNodup hrefs, setAt_at_other _ hne]
  · intro o' hne
    rw [hobjs]
    cases hat : (getObj s.objs o).at sd with
    | none => rfl
    | some t => simp only; rw [getObj_setObj_other h.1.objsNodup hrefs hne]

theorem remove_spec {s : Part} (h : Good s) (o : ObjRef) (w : Which) :
    ∃ s', step s (.remove o w) = .ok (s', .unit) ∧ Good s' ∧ s'.qtab = s.qtab
      ∧ (getObj s'.objs o).start = (if w = .start ∨ w = .both then none else (getObj s.objs o).start)
      ∧ (getObj s'.objs o).stop = (if w = .stop ∨ w = .both then none else (getObj s.objs o).stop)
      ∧ (∀ o', o' ≠ o → getObj s'.objs o' = getObj s.objs o') := by
  simp only [step, stepRemove]
  have hA : ∃ s1, (if w = .start ∨ w = .both then removeSide s .start o else .ok s) = .ok s1 ∧ Good s1
      ∧ s1.qtab = s.qtab
      ∧ (getObj s1.objs o).start = (if w = .start ∨ w = .both then none else (getObj s.objs o).start)
      ∧ (getObj s1.objs o).stop = (getObj s.objs o).stop
      ∧ (∀ o', o' ≠ o → getObj s1.objs o' = getObj s.objs o') := by
    by_cases hw : w = .start ∨ w = .both
    · obtain ⟨s1, he, hg, hq, h1, h2, h3⟩ := removeSide_effect h .start o
      exact ⟨s1, by simp [hw, he], hg, hq, by simp only [hw, if_true]; exact h1, h2 .stop (by decide), h3⟩
    · exact ⟨s, by simp [hw], h, rfl, by simp [hw], rfl, fun _ _ => rfl⟩
  obtain ⟨s1, he1, hg1, hq1, hs1, hp1, ho1⟩ := hA
  rw [he1]
  simp only [Except.bind]
  have hB : ∃ s2, (if w = .stop ∨ w = .both then removeSide s1 .stop o else .ok s1) = .ok s2 ∧ Good s2
      ∧ s2.qtab = s1.qtab
      ∧ (getObj s2.objs o).start = (getObj s1.objs o).start
      ∧ (getObj s2.objs o).stop = (if w = .stop ∨ w = .both then none else (getObj s1.objs o).stop)
      ∧ (∀ o', o' ≠ o → getObj s2.objs o' = getObj s1.objs o') := by
    by_cases hw : w = .stop ∨ w = .both
    · obtain ⟨s2, he, hg, hq, h1, h2, h3⟩ := removeSide_effect hg1 .stop o
      exact ⟨s2, by simp [hw, he], hg, hq, h2 .start (by decide), by simp only [hw, if_true]; exact h1, h3⟩
    · exact ⟨s1, by simp [hw], hg1, rfl, rfl, by simp [hw], fun _ _ => rfl⟩
  obtain ⟨s2, he2, hg2, hq2, hs2, hp2, ho2⟩ := hB
  rw [he2]
  refine ⟨s2, rfl, hg2, by rw [hq2, hq1], by rw [hs2, hs1], by rw [hp2, hp1], ?_⟩
  intro o' hne; rw [ho2 o' hne, ho1 o' hne]

-- ------------------------------------------------------------------ get_or_add_point

theorem getOrAdd_spec {s : Part} (h : Good s) {t : Int} (ht : 0 ≤ t) :
    ∃ s', step s (.getOrAdd t) = .ok (s', .point (some t)) ∧ Good s' ∧ s'.qtab = s.qtab ∧ s'.objs = s.objs
      ∧ t ∈ s'.times ∧ (∀ x, x ∈ s'.times ↔ x ∈ s.times ∨ x = t) := by
  obtain ⟨s1, he, hc, hl, hmem, hobjs, hq, hr, htimes, -, -⟩ := ensurePoint_spec h.1 h.2 ht
  simp only [step, stepGetOrAdd, he, Except.map]
  refine ⟨_, rfl, ⟨?_, hl⟩, hq, hobjs, hmem, htimes⟩
  have hreq : ∀ x, x ∈ (if t ∈ s1.requested then s1.requested else s1.requested ++ [t])
      ↔ x ∈ s1.requested ∨ x = t := by
    intro x
    split
    · rename_i hin
      constructor
      · exact Or.inl
      · rintro (hx | rfl)
        · exact hx
        · exact hin
    · simp
  refine { hc with nonempty := ?_, requestedOn := ?_ }
  · intro p hp
    rcases hc.nonempty p hp with a | a | a | a
    · exact Or.inl a
    · exact Or.inr (Or.inl a)
    · exact Or.inr (Or.inr (Or.inl ((hreq _).mpr (Or.inl a))))
    · simp only [Option.some.injEq] at a
      exact Or.inr (Or.inr (Or.inl ((hreq _).mpr (Or.inr a))))
  · intro x hx
    rcases (hreq x).mp hx with hx | rfl
    · exact hc.requestedOn x hx
    · exact hmem

end TL
