/-
C17 (round 2): the crystallisation loop of the modelled search (`VoSA.estimate_voices`) never
answers `none` from a well-formed context and state; the context built by `search` is well-formed.
-/
import PartituraModel.Model.Vosa
import PartituraModel.Proofs.C17Vosa
import PartituraModel.Proofs.C17VosaTotal
import Mathlib.Data.List.Basic
import Mathlib.Tactic.Linarith

namespace C17L
open Model Model.Vosa C17T

-- ------------------------------------------------------------------ generic

theorem mapM_map_some {α β : Type} (f : α → Option β) (g : α → β) : ∀ l : List α,
    (∀ x ∈ l, f x = some (g x)) → l.mapM f = some (l.map g) := by
  intro l
  induction l with
  | nil => intro _; simp
  | cons a r ih =>
    intro h
    simp [List.mapM_cons, h a (List.mem_cons_self ..), ih (fun x hx => h x (List.mem_cons_of_mem _ hx))]

theorem foldlM_inv {α σ : Type} (f : σ → α → Option σ) (I : σ → Prop) : ∀ (l : List α) (s : σ),
    I s → (∀ s a, a ∈ l → I s → ∃ s', f s a = some s' ∧ I s') → ∃ s', l.foldlM f s = some s' ∧ I s' := by
  intro l
  induction l with
  | nil => intro s hs _; exact ⟨s, by simp, hs⟩
  | cons a r ih =>
    intro s hs hstep
    obtain ⟨s1, h1, hI1⟩ := hstep s a (List.mem_cons_self ..) hs
    obtain ⟨s2, h2, hI2⟩ := ih s1 hI1 (fun s a ha hI => hstep s a (List.mem_cons_of_mem _ ha) hI)
    exact ⟨s2, by simp [List.foldlM_cons, h1, h2], hI2⟩

-- ------------------------------------------------------------------ well-formedness

/-- the context `search` builds: stream numbers and row numbers are in range, a contig has as many
    first notes as streams, at most as many last notes, at most `numV` streams; a maximal contig has
    exactly `numV` streams -/
structure CtxWF (ctx : Ctx) (n : Nat) : Prop where
  streams_ix : ∀ (sid : Nat) (s : Stream), ctx.streams[sid]? = some s → s.first.ix < n ∧ s.last.ix < n
  contig_ok : ∀ c ∈ ctx.contigs.toList, (∀ sid ∈ c.sids, sid < ctx.streams.size) ∧
    c.first.length = c.sids.length ∧ c.last.length ≤ c.sids.length ∧ c.sids.length ≤ ctx.numV ∧
    (∀ x ∈ c.first, x.ix < n) ∧ (∀ x ∈ c.last, x.ix < n)
  max_full : ∀ mci ∈ ctx.maxIdx, ∃ c, ctx.contigs[mci]? = some c ∧ c.sids.length = ctx.numV

structure StWF (ctx : Ctx) (n : Nat) (st : St) : Prop where
  skip_size : st.skip.size = n
  sv_size : st.sv.size = ctx.streams.size
  vms_size : st.vms.size = ctx.maxIdx.length
  vm_ok : ∀ (k : Nat) (vm : Array (List Nat)), st.vms[k]? = some vm → vm.size = ctx.numV ∧
    ∀ (es : Nat) (voice : List Nat), vm[es]? = some voice → ∀ sid ∈ voice, sid < ctx.streams.size
  fun_ok : ∀ es ∈ st.fUn, es < ctx.numV
  bun_ok : ∀ es ∈ st.bUn, es < ctx.numV

/-- `Voice` number `es` of voice manager `k` holds a stream -/
def VNE (st : St) (k es : Nat) : Prop :=
  ∀ (vm : Array (List Nat)) (voice : List Nat), st.vms[k]? = some vm → vm[es]? = some voice → voice ≠ []

-- ------------------------------------------------------------------ stream voice, append

theorem stampStream_isSome (ctx : Ctx) (v : Int) (voice : Array (Option Int)) (sid : Nat)
    (h : sid < ctx.streams.size) : ∃ voice', stampStream ctx v voice sid = some voice' := by
  simp only [stampStream, Array.getElem?_eq_getElem h, Option.map_some]
  exact ⟨_, rfl⟩

theorem setStreamVoice_ok (ctx : Ctx) (st : St) (sid : Nat) (v : Int)
    (h1 : sid < st.sv.size) (h2 : sid < ctx.streams.size) :
    ∃ voice', setStreamVoice ctx st sid v =
      some { st with sv := st.sv.setIfInBounds sid (some v), voice := voice' } := by
  obtain ⟨voice', hv⟩ := stampStream_isSome ctx v st.voice sid h2
  exact ⟨voice', by simp [setStreamVoice, h1, hv]⟩

theorem sortSids_ok (ctx : Ctx) (sids : List Nat) (h : ∀ s ∈ sids, s < ctx.streams.size) :
    ∃ new, sortSids ctx sids = some new ∧ new.Perm sids := by
  let g : Nat → Rat × Nat := fun s => (((ctx.streams[s]?).map (·.onset)).getD 0, s)
  have hm : (sids.mapM fun s => (streamOnset ctx s).map fun o => (o, s)) = some (sids.map g) := by
    apply mapM_map_some
    intro s hs
    simp [streamOnset, g, Array.getElem?_eq_getElem (h s hs)]
  refine ⟨(isort (fun a b : Rat × Nat => decide (a.1 ≤ b.1)) (sids.map g)).map (·.2),
    by simp only [sortSids, hm, Option.map_some], ?_⟩
  have hp := (C17S.isort_perm (fun a b : Rat × Nat => decide (a.1 ≤ b.1)) (sids.map g)).map (·.2)
  refine hp.trans ?_
  simp [List.map_map, Function.comp_def, g]

theorem stampFold_isSome (ctx : Ctx) (v : Int) : ∀ (l : List Nat) (voice : Array (Option Int)),
    (∀ s ∈ l, s < ctx.streams.size) → ∃ voice', l.foldlM (fun a s => stampStream ctx v a s) voice = some voice' := by
  intro l voice h
  obtain ⟨v', hv, _⟩ := foldlM_inv (fun a s => stampStream ctx v a s) (fun _ => True) l voice trivial
    (fun a s hs _ => by obtain ⟨x, hx⟩ := stampStream_isSome ctx v a s (h s hs); exact ⟨x, hx, trivial⟩)
  exact ⟨v', hv⟩

/-- `vm[es].append(stream)` succeeds on a well-formed state and keeps it well-formed; the voice it
    appends to holds a stream afterwards and no voice loses one -/
theorem vappend_ok (ctx : Ctx) (n : Nat) (k es sid : Nat) (st : St) (hst : StWF ctx n st)
    (hk : k < st.vms.size) (hes : es < ctx.numV) (hsid : sid < ctx.streams.size) :
    ∃ st', vappend ctx k es sid st = some st' ∧ StWF ctx n st' ∧ st'.fUn = st.fUn ∧ st'.bUn = st.bUn ∧
      VNE st' k es ∧ ∀ k' es', VNE st k' es' → VNE st' k' es' := by
  obtain ⟨voice1, h1⟩ := setStreamVoice_ok ctx st sid es (by rw [hst.sv_size]; exact hsid) hsid
  have hvm : st.vms[k]? = some st.vms[k] := Array.getElem?_eq_getElem hk
  obtain ⟨hsz, hvoices⟩ := hst.vm_ok k _ hvm
  have hes' : es < (st.vms[k]).size := by rw [hsz]; exact hes
  have hold : (st.vms[k])[es]? = some (st.vms[k])[es] := Array.getElem?_eq_getElem hes'
  have hvalid : ∀ s ∈ (st.vms[k])[es] ++ [sid], s < ctx.streams.size := by
    intro s hs
    rcases List.mem_append.mp hs with h | h
    · exact hvoices es _ hold s h
    · simp at h; rw [h]; exact hsid
  obtain ⟨new, hnew, hperm⟩ := sortSids_ok ctx _ hvalid
  have hnewvalid : ∀ s ∈ new, s < ctx.streams.size := fun s hs => hvalid s (hperm.subset hs)
  obtain ⟨voice2, h2⟩ := stampFold_isSome ctx es new voice1 hnewvalid
  refine ⟨{ st with sv := st.sv.setIfInBounds sid (some (es : Int)), voice := voice2,
                     vms := st.vms.setIfInBounds k ((st.vms[k]).setIfInBounds es new) }, ?_, ?_, rfl, rfl, ?_, ?_⟩
  · simp only [vappend, Option.bind_eq_bind, h1, Option.bind_some, hvm, hold, hnew, h2, Option.pure_def]
  · refine ⟨hst.skip_size, by simp [hst.sv_size], by simp [hst.vms_size], ?_, hst.fun_ok, hst.bun_ok⟩
    intro k' vm' hk'
    by_cases hkk : k = k'
    · subst hkk
      simp only [Array.getElem?_setIfInBounds_self, hk, if_true, Option.some.injEq] at hk'
      subst hk'
      refine ⟨by simp [hsz], ?_⟩
      intro es' voice' hv'
      by_cases hee : es = es'
      · subst hee
        simp only [Array.getElem?_setIfInBounds_self, hes', if_true, Option.some.injEq] at hv'
        subst hv'
        exact hnewvalid
      · rw [Array.getElem?_setIfInBounds_ne hee] at hv'
        exact hvoices es' voice' hv'
    · simp only [Array.getElem?_setIfInBounds_ne hkk] at hk'
      exact hst.vm_ok k' vm' hk'
  · intro vm voice hvm' hv'
    simp only [Array.getElem?_setIfInBounds_self, hk, if_true, Option.some.injEq] at hvm'
    subst hvm'
    simp only [Array.getElem?_setIfInBounds_self, hes', if_true, Option.some.injEq] at hv'
    subst hv'
    intro e
    have := hperm.length_eq
    rw [e] at this
    simp at this
  · intro k' es' hne vm voice hvm' hv'
    by_cases hkk : k = k'
    · subst hkk
      simp only [Array.getElem?_setIfInBounds_self, hk, if_true, Option.some.injEq] at hvm'
      subst hvm'
      by_cases hee : es = es'
      · subst hee
        simp only [Array.getElem?_setIfInBounds_self, hes', if_true, Option.some.injEq] at hv'
        subst hv'
        intro e
        have := hperm.length_eq
        rw [e] at this
        simp at this
      · rw [Array.getElem?_setIfInBounds_ne hee] at hv'
        exact hne _ voice hvm hv'
    · simp only [Array.getElem?_setIfInBounds_ne hkk] at hvm'
      exact hne vm voice hvm' hv'

-- ------------------------------------------------------------------ the parts of a visit

/-- all voices of voice manager `vm` hold a stream, and every stream number is in range -/
def VmOK (ctx : Ctx) (vm : Array (List Nat)) : Prop :=
  vm.size = ctx.numV ∧ ∀ (es : Nat) (voice : List Nat), vm[es]? = some voice →
    voice ≠ [] ∧ ∀ sid ∈ voice, sid < ctx.streams.size

theorem end_ok (ctx : Ctx) (n : Nat) (hctx : CtxWF ctx n) (voice : List Nat) (last : Bool)
    (hne : voice ≠ []) (hv : ∀ sid ∈ voice, sid < ctx.streams.size) :
    ∃ x, ((if last then voice.getLast? else voice.head?).bind fun s =>
      ctx.streams[s]?.map fun str => if last then str.last else str.first) = some x ∧ x.ix < n := by
  have hs : ∃ s, (if last then voice.getLast? else voice.head?) = some s ∧ s ∈ voice := by
    cases last with
    | true => exact ⟨voice.getLast hne, by simp [List.getLast?_eq_some_getLast hne], List.getLast_mem hne⟩
    | false => exact ⟨voice.head hne, by simp [List.head?_eq_some_head hne], List.head_mem hne⟩
  obtain ⟨s, hs1, hs2⟩ := hs
  have hlt := hv s hs2
  have hix := hctx.streams_ix s _ (Array.getElem?_eq_getElem hlt)
  refine ⟨if last then (ctx.streams[s]).last else (ctx.streams[s]).first, ?_, ?_⟩
  · simp [hs1, Array.getElem?_eq_getElem hlt]
  · cases last <;> simp [hix.1, hix.2]

theorem voiceEnds_ok (ctx : Ctx) (n : Nat) (hctx : CtxWF ctx n) (vm : Array (List Nat)) (last : Bool)
    (hvm : VmOK ctx vm) :
    ∃ l, voiceEnds ctx vm last = some l ∧ l.length = ctx.numV ∧ ∀ x ∈ l, x.ix < n := by
  have hall : ∀ voice ∈ vm.toList, ∃ x, ((if last then voice.getLast? else voice.head?).bind fun s =>
      ctx.streams[s]?.map fun str => if last then str.last else str.first) = some x ∧ x.ix < n := by
    intro voice hvoice
    obtain ⟨es, hes, rfl⟩ := List.mem_iff_getElem.mp hvoice
    have hes' : es < vm.size := by simpa using hes
    have hget : vm[es]? = some (vm.toList[es]) := by simp [Array.getElem?_eq_getElem hes']
    have := hvm.2 es _ hget
    exact end_ok ctx n hctx _ last this.1 this.2
  -- pointwise choice
  have : ∀ (l : List (List Nat)), (∀ voice ∈ l, ∃ x, ((if last then voice.getLast? else voice.head?).bind fun s =>
      ctx.streams[s]?.map fun str => if last then str.last else str.first) = some x ∧ x.ix < n) →
      ∃ out, (l.mapM fun sids => (if last then sids.getLast? else sids.head?).bind fun s =>
        ctx.streams[s]?.map fun str => if last then str.last else str.first) = some out ∧
        out.length = l.length ∧ ∀ x ∈ out, x.ix < n := by
    intro l
    induction l with
    | nil => intro _; exact ⟨[], by simp, rfl, by simp⟩
    | cons a r ih =>
      intro h
      obtain ⟨x, hx, hxn⟩ := h a (List.mem_cons_self ..)
      obtain ⟨out, ho, hl, hon⟩ := ih (fun v hv => h v (List.mem_cons_of_mem _ hv))
      refine ⟨x :: out, by simp [List.mapM_cons, hx, ho], by simp [hl], ?_⟩
      intro y hy
      rcases List.mem_cons.mp hy with rfl | hy
      · exact hxn
      · exact hon y hy
  obtain ⟨out, ho, hl, hon⟩ := this vm.toList hall
  exact ⟨out, ho, by rw [hl]; simpa using hvm.1, hon⟩

theorem bumpSkip_ok (ctx : Ctx) (n : Nat) (hctx : CtxWF ctx n) (vm : Array (List Nat)) (last : Bool)
    (hvm : VmOK ctx vm) (skip : Array Nat) (hs : skip.size = n) (es : Nat) (hes : es < ctx.numV) :
    ∃ skip', bumpSkip ctx vm last skip es = some skip' ∧ skip'.size = n := by
  have hes' : es < vm.size := by rw [hvm.1]; exact hes
  have hvoice := hvm.2 es _ (Array.getElem?_eq_getElem hes')
  cases last with
  | true =>
    have hs2 := List.getLast_mem hvoice.1
    have hlt := hvoice.2 _ hs2
    have hix := hctx.streams_ix _ _ (Array.getElem?_eq_getElem hlt)
    have hb : (ctx.streams[(vm[es]).getLast hvoice.1]).last.ix < skip.size := by rw [hs]; exact hix.2
    refine ⟨skip.modify (ctx.streams[(vm[es]).getLast hvoice.1]).last.ix (· + 1), ?_, by simp [hs]⟩
    simp only [bumpSkip, Option.bind_eq_bind, Array.getElem?_eq_getElem hes', Option.bind_some, if_true,
      List.getLast?_eq_some_getLast hvoice.1, Array.getElem?_eq_getElem hlt, hb, Option.pure_def]
  | false =>
    have hs2 := List.head_mem hvoice.1
    have hlt := hvoice.2 _ hs2
    have hix := hctx.streams_ix _ _ (Array.getElem?_eq_getElem hlt)
    have hb : (ctx.streams[(vm[es]).head hvoice.1]).first.ix < skip.size := by rw [hs]; exact hix.1
    refine ⟨skip.modify (ctx.streams[(vm[es]).head hvoice.1]).first.ix (· + 1), ?_, by simp [hs]⟩
    simp only [bumpSkip, Option.bind_eq_bind, Array.getElem?_eq_getElem hes', Option.bind_some,
      Bool.false_eq_true, if_false, List.head?_eq_some_head hvoice.1, Array.getElem?_eq_getElem hlt, hb, if_true,
      Option.pure_def]

theorem cost1_isSome (skip : Array Nat) (c x : N) (hc : c.ix < skip.size) (hx : x.ix < skip.size) :
    ∃ v, cost1 skip c x = some v := by
  unfold cost1
  split
  · exact ⟨_, rfl⟩
  · simp only [Array.getElem?_eq_getElem hc, Array.getElem?_eq_getElem hx]
    split <;> exact ⟨_, rfl⟩

theorem rowCost_ok (skip : Array Nat) (c : N) (hc : c.ix < skip.size) : ∀ (nxt : List N),
    (∀ x ∈ nxt, x.ix < skip.size) → ∃ row, (nxt.mapM fun x => cost1 skip c x) = some row ∧ row.length = nxt.length := by
  intro nxt
  induction nxt with
  | nil => intro _; exact ⟨[], by simp, rfl⟩
  | cons a r ih =>
    intro h
    obtain ⟨v, hv⟩ := cost1_isSome skip c a hc (h a (List.mem_cons_self ..))
    obtain ⟨row, hr, hl⟩ := ih (fun x hx => h x (List.mem_cons_of_mem _ hx))
    exact ⟨v :: row, by simp [List.mapM_cons, hv, hr], by simp [hl]⟩

theorem pairwiseCost_ok (skip : Array Nat) (nxt : List N) (hn : ∀ x ∈ nxt, x.ix < skip.size) :
    ∀ (prev : List N), (∀ x ∈ prev, x.ix < skip.size) →
    ∃ cost, pairwiseCost skip prev nxt = some cost ∧ cost.length = prev.length ∧ C17S.Rect cost nxt.length := by
  intro prev
  unfold pairwiseCost
  induction prev with
  | nil => intro _; exact ⟨[], by simp, rfl, by intro r hr; simp at hr⟩
  | cons a r ih =>
    intro h
    obtain ⟨row, hr, hl⟩ := rowCost_ok skip a (h a (List.mem_cons_self ..)) nxt hn
    obtain ⟨cost, hc, hcl, hrect⟩ := ih (fun x hx => h x (List.mem_cons_of_mem _ hx))
    refine ⟨row :: cost, by simp [List.mapM_cons, hr, hc], by simp [hcl], ?_⟩
    intro r' hr'
    rcases List.mem_cons.mp hr' with rfl | hr'
    · exact hl
    · exact hrect r' hr'

theorem column_ok (j C : Nat) (hj : j < C) : ∀ (m : List (List Int)), C17S.Rect m C →
    ∃ col, (m.mapM fun row => row[j]?) = some col ∧ col.length = m.length := by
  intro m
  induction m with
  | nil => intro _; exact ⟨[], by simp, rfl⟩
  | cons a r ih =>
    intro h
    have ha : j < a.length := by rw [h a (List.mem_cons_self ..)]; exact hj
    obtain ⟨col, hc, hl⟩ := ih (fun x hx => h x (List.mem_cons_of_mem _ hx))
    exact ⟨a[j] :: col, by simp [List.mapM_cons, List.getElem?_eq_getElem ha, hc], by simp [hl]⟩

theorem transpose_ok (C : Nat) (m : List (List Int)) (hrect : C17S.Rect m C) :
    ∃ con, transpose C m = some con ∧ con.length = C ∧ C17S.Rect con m.length := by
  unfold transpose
  have : ∀ (js : List Nat), (∀ j ∈ js, j < C) →
      ∃ con, (js.mapM fun j => m.mapM fun row => row[j]?) = some con ∧ con.length = js.length ∧ C17S.Rect con m.length := by
    intro js
    induction js with
    | nil => intro _; exact ⟨[], by simp, rfl, by intro r hr; simp at hr⟩
    | cons j r ih =>
      intro h
      obtain ⟨col, hc, hl⟩ := column_ok j C (h j (List.mem_cons_self ..)) m hrect
      obtain ⟨con, hcon, hcl, hcr⟩ := ih (fun x hx => h x (List.mem_cons_of_mem _ hx))
      refine ⟨col :: con, by simp [List.mapM_cons, hc, hcon], by simp [hcl], ?_⟩
      intro r' hr'
      rcases List.mem_cons.mp hr' with rfl | hr'
      · exact hl
      · exact hcr r' hr'
  obtain ⟨con, h1, h2, h3⟩ := this (List.range C) (fun j hj => List.mem_range.mp hj)
  exact ⟨con, h1, by simpa using h2, h3⟩

/-- the answers of `est_best_connections` stay inside the matrix -/
theorem estBest_bounds (cost : List (List Int)) (C nA : Nat) (hrect : C17S.Rect cost C)
    (hR : nA ≤ cost.length) (hC : nA ≤ C) :
    (∀ x ∈ (estBest cost nA).1, x.1 < cost.length ∧ x.2 < C) ∧ ∀ i ∈ (estBest cost nA).2, i < cost.length := by
  constructor
  · have h := C17S.bestAux_matching cost C hrect nA [] [] List.nodup_nil List.nodup_nil (by simpa using hR) (by simpa using hC)
    exact h.2.2
  · intro i hi
    simp only [estBest, List.mem_filter, List.mem_range] at hi
    exact hi.1

theorem vmOK_of (ctx : Ctx) (n : Nat) (st : St) (hst : StWF ctx n st) (k : Nat) (hk : k < st.vms.size)
    (hfull : ∀ es, VNE st k es) : VmOK ctx st.vms[k] := by
  have hvm : st.vms[k]? = some st.vms[k] := Array.getElem?_eq_getElem hk
  obtain ⟨h1, h2⟩ := hst.vm_ok k _ hvm
  exact ⟨h1, fun es voice hv => ⟨hfull es _ _ hvm hv, h2 es voice hv⟩⟩

/-- the fold of `vm[es].append(...)` over the connections found -/
theorem appendFold_ok (ctx : Ctx) (n : Nat) (k : Nat) (sids : List Nat)
    (hsids : ∀ sid ∈ sids, sid < ctx.streams.size) (best : List (Nat × Nat))
    (hbest : ∀ x ∈ best, x.1 < ctx.numV ∧ x.2 < sids.length)
    (st : St) (hst : StWF ctx n st) (hk : k < st.vms.size) :
    ∃ st', best.foldlM (fun st (x : Nat × Nat) => sids[x.2]?.bind fun sid => vappend ctx k x.1 sid st) st = some st' ∧
      StWF ctx n st' ∧ st'.fUn = st.fUn ∧ st'.bUn = st.bUn ∧ ∀ k' es', VNE st k' es' → VNE st' k' es' := by
  have := foldlM_inv (fun st (x : Nat × Nat) => sids[x.2]?.bind fun sid => vappend ctx k x.1 sid st)
    (fun s => StWF ctx n s ∧ s.fUn = st.fUn ∧ s.bUn = st.bUn ∧ ∀ k' es', VNE st k' es' → VNE s k' es')
    best st ⟨hst, rfl, rfl, fun _ _ h => h⟩
    (by
      intro s x hx ⟨hs, hf, hb, hmono⟩
      obtain ⟨h1, h2⟩ := hbest x hx
      have hsid := hsids _ (List.getElem_mem h2)
      have hk' : k < s.vms.size := by rw [hs.vms_size, ← hst.vms_size]; exact hk
      obtain ⟨s', e, hs', hf', hb', _, hm'⟩ := vappend_ok ctx n k x.1 (sids[x.2]) s hs hk' h1 hsid
      exact ⟨s', by simp [List.getElem?_eq_getElem h2, e], hs', by rw [hf', hf], by rw [hb', hb],
        fun k' es' h => hm' k' es' (hmono k' es' h)⟩)
  obtain ⟨st', e, h1, h2, h3, h4⟩ := this
  exact ⟨st', e, h1, h2, h3, h4⟩

theorem skipFold_ok (ctx : Ctx) (n : Nat) (hctx : CtxWF ctx n) (vm : Array (List Nat)) (last : Bool)
    (hvm : VmOK ctx vm) (un : List Nat) (hun : ∀ es ∈ un, es < ctx.numV) (skip : Array Nat) (hs : skip.size = n) :
    ∃ skip', un.foldlM (bumpSkip ctx vm last) skip = some skip' ∧ skip'.size = n :=
  foldlM_inv (bumpSkip ctx vm last) (fun s => s.size = n) un skip hs
    (fun s es hes hsz => bumpSkip_ok ctx n hctx vm last hvm s hsz es (hun es hes))

/-- the forward half of a visit succeeds and keeps the state well-formed -/
theorem forward_ok (ctx : Ctx) (n : Nat) (hctx : CtxWF ctx n) (k : Nat) (nx : Contig) (st : St)
    (hst : StWF ctx n st) (hk : k < st.vms.size) (hfull : ∀ es, VNE st k es) (hnx : nx ∈ ctx.contigs.toList) :
    ∃ st', forward ctx k nx st = some st' ∧ StWF ctx n st' ∧ ∀ k' es', VNE st k' es' → VNE st' k' es' := by
  have hvm := vmOK_of ctx n st hst k hk hfull
  obtain ⟨hsid, hfl, _, hle, hfix, _⟩ := hctx.contig_ok nx hnx
  obtain ⟨skip', hsk, hsz⟩ := skipFold_ok ctx n hctx _ true hvm st.fUn hst.fun_ok st.skip hst.skip_size
  obtain ⟨prev, hprev, hpl, hpix⟩ := voiceEnds_ok ctx n hctx _ true hvm
  obtain ⟨cost, hcost, hcl, hrect⟩ := pairwiseCost_ok skip' nx.first (fun x hx => by rw [hsz]; exact hfix x hx)
    prev (fun x hx => by rw [hsz]; exact hpix x hx)
  have hb := estBest_bounds cost nx.first.length nx.first.length hrect (by rw [hcl, hpl, hfl]; exact hle) (le_refl _)
  rcases hE : estBest cost nx.first.length with ⟨best, un⟩
  rw [hE] at hb
  have hst2 : StWF ctx n { st with skip := skip', fUn := un } :=
    ⟨hsz, hst.sv_size, hst.vms_size, hst.vm_ok, fun es hes => by have := hb.2 es hes; rw [hcl, hpl] at this; exact this,
      hst.bun_ok⟩
  obtain ⟨st', e, h1, _, _, h4⟩ := appendFold_ok ctx n k nx.sids hsid best
    (fun x hx => by have := hb.1 x hx; rw [hcl, hpl, hfl] at this; exact this)
    { st with skip := skip', fUn := un } hst2 hk
  refine ⟨st', ?_, h1, fun k' es' h => h4 k' es' h⟩
  simp only [forward, Option.bind_eq_bind, Array.getElem?_eq_getElem hk, Option.bind_some, hsk, hprev, hcost, hE]
  exact e

/-- the backward half of a visit succeeds and keeps the state well-formed -/
theorem backward_ok (ctx : Ctx) (n : Nat) (hctx : CtxWF ctx n) (k : Nat) (pv : Contig) (st : St)
    (hst : StWF ctx n st) (hk : k < st.vms.size) (hfull : ∀ es, VNE st k es) (hpv : pv ∈ ctx.contigs.toList) :
    ∃ st', backward ctx k pv st = some st' ∧ StWF ctx n st' ∧ ∀ k' es', VNE st k' es' → VNE st' k' es' := by
  have hvm := vmOK_of ctx n st hst k hk hfull
  obtain ⟨hsid, _, hll, hle, _, hlix⟩ := hctx.contig_ok pv hpv
  obtain ⟨skip', hsk, hsz⟩ := skipFold_ok ctx n hctx _ false hvm st.bUn hst.bun_ok st.skip hst.skip_size
  obtain ⟨nxt, hnxt, hnl, hnix⟩ := voiceEnds_ok ctx n hctx _ false hvm
  obtain ⟨cost, hcost, hcl, hrect⟩ := pairwiseCost_ok skip' nxt (fun x hx => by rw [hsz]; exact hnix x hx)
    pv.last (fun x hx => by rw [hsz]; exact hlix x hx)
  obtain ⟨con, hcon, hconl, hcrect⟩ := transpose_ok nxt.length cost hrect
  rw [hcl] at hcrect
  have hb := estBest_bounds con pv.last.length pv.last.length hcrect
    (by rw [hconl, hnl]; exact le_trans hll hle) (le_refl _)
  rcases hE : estBest con pv.last.length with ⟨best, un⟩
  rw [hE] at hb
  have hst2 : StWF ctx n { st with skip := skip', bUn := un } :=
    ⟨hsz, hst.sv_size, hst.vms_size, hst.vm_ok, hst.fun_ok,
      fun es hes => by have := hb.2 es hes; rw [hconl, hnl] at this; exact this⟩
  obtain ⟨st', e, h1, _, _, h4⟩ := appendFold_ok ctx n k pv.sids hsid best
    (fun x hx => by
      have := hb.1 x hx
      rw [hconl, hnl] at this
      exact ⟨this.1, lt_of_lt_of_le this.2 hll⟩)
    { st with skip := skip', bUn := un } hst2 hk
  refine ⟨st', ?_, h1, fun k' es' h => h4 k' es' h⟩
  simp only [backward, Option.bind_eq_bind, Array.getElem?_eq_getElem hk, Option.bind_some, hsk, hnxt, hcost, hcon, hE]
  exact e

-- ------------------------------------------------------------------ visits, passes, the loop

theorem foldlM_collect {α σ : Type} (f : σ → α → Option σ) (I : σ → Prop) (Q : α → σ → Prop) :
    ∀ (l : List α) (s : σ), I s →
    (∀ s a, a ∈ l → I s → ∃ s', f s a = some s' ∧ I s' ∧ Q a s' ∧ ∀ b, Q b s → Q b s') →
    ∃ s', l.foldlM f s = some s' ∧ I s' ∧ (∀ a ∈ l, Q a s') ∧ ∀ b, Q b s → Q b s' := by
  intro l
  induction l with
  | nil => intro s hs _; exact ⟨s, by simp, hs, by simp, fun _ h => h⟩
  | cons a r ih =>
    intro s hs hstep
    obtain ⟨s1, h1, hI1, hQ1, hm1⟩ := hstep s a (List.mem_cons_self ..) hs
    obtain ⟨s2, h2, hI2, hQ2, hm2⟩ := ih s1 hI1 (fun s a ha hI => hstep s a (List.mem_cons_of_mem _ ha) hI)
    refine ⟨s2, by simp [List.foldlM_cons, h1, h2], hI2, ?_, fun b h => hm2 b (hm1 b h)⟩
    intro x hx
    rcases List.mem_cons.mp hx with rfl | hx
    · exact hm2 x hQ1
    · exact hQ2 x hx

theorem pyGet_mem (a : Array Contig) (i : Int) (c : Contig) (h : pyGet a i = some c) : c ∈ a.toList := by
  unfold pyGet at h
  split at h
  · exact Array.mem_toList_iff.mpr (Array.mem_of_getElem? h)
  · split at h
    · exact Array.mem_toList_iff.mpr (Array.mem_of_getElem? h)
    · exact absurd h (by simp)

/-- one visit of a maximal contig succeeds from a well-formed state whose voice manager is full -/
theorem visit_ok (ctx : Ctx) (n : Nat) (hctx : CtxWF ctx n) (nix : Nat) (st : St) (mk : Nat × Nat)
    (hst : StWF ctx n st) (hk : mk.2 < st.vms.size) (hfull : ∀ es, VNE st mk.2 es) :
    ∃ st', visit ctx nix st mk = some st' ∧ StWF ctx n st' ∧ ∀ k' es', VNE st k' es' → VNE st' k' es' := by
  obtain ⟨mci, k⟩ := mk
  simp only at hk hfull
  have hbw : ∀ st1, StWF ctx n st1 → k < st1.vms.size → (∀ es, VNE st1 k es) →
      ∃ st2, (match pyGet ctx.contigs ((mci : Int) - ((nix : Int) - 1)), pyGet ctx.contigs ((mci : Int) - (nix : Int)) with
      | some _, some pv => if hasVoiceInfo st1 pv then some st1 else backward ctx k pv st1
      | _, _ => some st1) = some st2 ∧ StWF ctx n st2 ∧ ∀ k' es', VNE st1 k' es' → VNE st2 k' es' := by
    intro st1 hst1 hk1 hfull1
    cases hb : pyGet ctx.contigs ((mci : Int) - ((nix : Int) - 1)) with
    | none => exact ⟨st1, rfl, hst1, fun _ _ h => h⟩
    | some bc =>
      cases hp : pyGet ctx.contigs ((mci : Int) - (nix : Int)) with
      | none => exact ⟨st1, rfl, hst1, fun _ _ h => h⟩
      | some pv =>
        simp only
        split
        · exact ⟨st1, rfl, hst1, fun _ _ h => h⟩
        · exact backward_ok ctx n hctx k pv st1 hst1 hk1 hfull1 (pyGet_mem _ _ _ hp)
  simp only [visit, Option.bind_eq_bind]
  cases hf : pyGet ctx.contigs ((mci : Int) + ((nix : Int) - 1)) with
  | none => simp only [Option.bind_some]; exact hbw st hst hk hfull
  | some fc =>
    cases hn : pyGet ctx.contigs ((mci : Int) + (nix : Int)) with
    | none => simp only [Option.bind_some]; exact hbw st hst hk hfull
    | some nx =>
      simp only
      split
      · simp only [Option.bind_some]; exact hbw st hst hk hfull
      · obtain ⟨st1, e1, hst1, hm1⟩ := forward_ok ctx n hctx k nx st hst hk hfull (pyGet_mem _ _ _ hn)
        have hk1 : k < st1.vms.size := by rw [hst1.vms_size, ← hst.vms_size]; exact hk
        obtain ⟨st2, e2, hst2, hm2⟩ := hbw st1 hst1 hk1 (fun es => hm1 k es (hfull es))
        exact ⟨st2, by simp only [e1, Option.bind_some]; exact e2, hst2, fun k' es' h => hm2 k' es' (hm1 k' es' h)⟩

/-- every voice of every voice manager holds a stream -/
def AllFull (ctx : Ctx) (st : St) : Prop := ∀ k, k < ctx.maxIdx.length → ∀ es, VNE st k es

theorem pass_ok (ctx : Ctx) (n : Nat) (hctx : CtxWF ctx n) (nix : Nat) (st : St)
    (hst : StWF ctx n st) (hfull : AllFull ctx st) :
    ∃ st', ctx.maxIdx.zipIdx.foldlM (visit ctx nix) st = some st' ∧ StWF ctx n st' ∧ AllFull ctx st' := by
  apply foldlM_inv (visit ctx nix) (fun s => StWF ctx n s ∧ AllFull ctx s) _ st ⟨hst, hfull⟩
  intro s mk hmk ⟨hs, hf⟩
  have hk : mk.2 < ctx.maxIdx.length := by
    have := List.mem_zipIdx hmk
    simp at this; omega
  obtain ⟨s', e, hs', hm⟩ := visit_ok ctx n hctx nix s mk hs (by rw [hs.vms_size]; exact hk) (hf mk.2 hk)
  exact ⟨s', e, hs', fun k' hk' es => hm k' es (hf k' hk' es)⟩

/-- the `while keep_loop` never raises -/
theorem crystallise_ok (ctx : Ctx) (n : Nat) (hctx : CtxWF ctx n) : ∀ (rem : Nat) (st : St),
    StWF ctx n st → AllFull ctx st → ∃ st', crystallise ctx rem st = some st' := by
  intro rem
  induction rem with
  | zero => intro st _ _; exact ⟨st, rfl⟩
  | succ r ih =>
    intro st hst hfull
    obtain ⟨st1, e, hst1, hf1⟩ := pass_ok ctx n hctx (ctx.nTimepoints + 1 - r) st hst hfull
    simp only [crystallise, e, Option.bind_some]
    split
    · exact ⟨st1, rfl⟩
    · exact ih st1 hst1 hf1

/-- the seeding of one maximal contig's voice manager -/
theorem initMax_ok (ctx : Ctx) (n : Nat) (hctx : CtxWF ctx n) (st : St) (mk : Nat × Nat)
    (hst : StWF ctx n st) (hk : mk.2 < st.vms.size) (hmci : mk.1 ∈ ctx.maxIdx) :
    ∃ st', initMax ctx st mk = some st' ∧ StWF ctx n st' ∧ (∀ es, VNE st' mk.2 es) ∧
      ∀ k' es', VNE st k' es' → VNE st' k' es' := by
  obtain ⟨mci, k⟩ := mk
  simp only at hk hmci
  obtain ⟨c, hc, hlen⟩ := hctx.max_full mci hmci
  have hcmem : c ∈ ctx.contigs.toList := Array.mem_toList_iff.mpr (Array.mem_of_getElem? hc)
  obtain ⟨hsid, _, _, _, _, _⟩ := hctx.contig_ok c hcmem
  -- stream voices
  obtain ⟨st1, e1, hst1, hvms1⟩ := foldlM_inv (fun st (x : Nat × Nat) => setStreamVoice ctx st x.1 x.2)
    (fun s => StWF ctx n s ∧ s.vms = st.vms) c.sids.zipIdx st ⟨hst, rfl⟩
    (by
      intro s x hx ⟨hs, hv⟩
      have hx' := List.mem_zipIdx hx
      simp at hx'
      have hlt : x.1 < ctx.streams.size := by
        have : x.1 ∈ c.sids := by rw [hx'.2]; exact List.getElem_mem _
        exact hsid _ this
      obtain ⟨v', e⟩ := setStreamVoice_ok ctx s x.1 x.2 (by rw [hs.sv_size]; exact hlt) hlt
      exact ⟨_, e, ⟨hs.skip_size, by simp [hs.sv_size], hs.vms_size, hs.vm_ok, hs.fun_ok, hs.bun_ok⟩, hv⟩)
  have hk1 : k < st1.vms.size := by rw [hvms1]; exact hk
  -- voices
  obtain ⟨st2, e2, ⟨hst2, hmono⟩, hQ, _⟩ := foldlM_collect (fun st (x : Nat × Nat) => vappend ctx k x.2 x.1 st)
    (fun s => StWF ctx n s ∧ ∀ k' es', VNE st1 k' es' → VNE s k' es') (fun x s => VNE s k x.2)
    c.sids.zipIdx st1 ⟨hst1, fun _ _ h => h⟩
    (by
      intro s x hx ⟨hs, hm⟩
      have hx' := List.mem_zipIdx hx
      simp at hx'
      have hlt : x.1 < ctx.streams.size := by
        have : x.1 ∈ c.sids := by rw [hx'.2]; exact List.getElem_mem _
        exact hsid _ this
      have hes : x.2 < ctx.numV := by rw [← hlen]; exact hx'.1
      have hks : k < s.vms.size := by rw [hs.vms_size, ← hst1.vms_size]; exact hk1
      obtain ⟨s', e, hs', _, _, hv, hm'⟩ := vappend_ok ctx n k x.2 x.1 s hs hks hes hlt
      exact ⟨s', e, ⟨hs', fun k' es' h => hm' k' es' (hm k' es' h)⟩, hv, fun b h => hm' k b.2 h⟩)
  refine ⟨st2, ?_, hst2, ?_, ?_⟩
  · simp only [initMax, Option.bind_eq_bind, hc, Option.bind_some]
    rw [show (c.sids.zipIdx.foldlM (fun st (x : Nat × Nat) => setStreamVoice ctx st x.1 (x.2 : Int)) st) = some st1 from e1]
    exact e2
  · intro es vm voice hvm hv
    have hsz := (hst2.vm_ok k vm hvm).1
    have hes : es < ctx.numV := by
      rw [← hsz]
      by_contra hcon
      rw [Array.getElem?_eq_none (by omega)] at hv
      exact absurd hv (by simp)
    have hin : (c.sids[es]'(by rw [hlen]; exact hes), es) ∈ c.sids.zipIdx := by
      rw [List.mem_zipIdx_iff_getElem?]
      simp [List.getElem?_eq_getElem (show es < c.sids.length by rw [hlen]; exact hes)]
    exact hQ _ hin vm voice hvm hv
  · intro k' es' h vm voice hvm hv
    have : VNE st1 k' es' := by
      intro vm1 voice1 hvm1 hv1
      rw [hvms1] at hvm1
      exact h vm1 voice1 hvm1 hv1
    exact hmono k' es' this vm voice hvm hv

theorem initAll_ok (ctx : Ctx) (n : Nat) (hctx : CtxWF ctx n) (st : St) (hst : StWF ctx n st) :
    ∃ st', ctx.maxIdx.zipIdx.foldlM (initMax ctx) st = some st' ∧ StWF ctx n st' ∧ AllFull ctx st' := by
  obtain ⟨st', e, hst', hQ, _⟩ := foldlM_collect (initMax ctx) (fun s => StWF ctx n s)
    (fun (mk : Nat × Nat) s => ∀ es, VNE s mk.2 es) ctx.maxIdx.zipIdx st hst
    (by
      intro s mk hmk hs
      have hm := List.mem_zipIdx hmk
      simp at hm
      have hk : mk.2 < s.vms.size := by rw [hs.vms_size]; exact hm.1
      have hmci : mk.1 ∈ ctx.maxIdx := by rw [hm.2]; exact List.getElem_mem _
      obtain ⟨s', e, hs', hfull, hmono⟩ := initMax_ok ctx n hctx s mk hs hk hmci
      exact ⟨s', e, hs', hfull, fun b h es => hmono b.2 es (h es)⟩)
  refine ⟨st', e, hst', ?_⟩
  intro k hk es
  have hin : (ctx.maxIdx[k], k) ∈ ctx.maxIdx.zipIdx := by
    rw [List.mem_zipIdx_iff_getElem?]; simp [List.getElem?_eq_getElem hk]
  exact hQ _ hin es

end C17L
