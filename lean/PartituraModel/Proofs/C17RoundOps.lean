/-
Helper lemmas for C17 (binary64 operations of Model/C17Float.lean): `fl`, `fadd`, `fsub`, `fdiv` return a correctly
rounded result — the nearest 53-bit dyadic to the exact rational result, the even one on a tie.
-/
import PartituraModel.Proofs.C17Round
import Mathlib.Algebra.Order.Field.Power
import Mathlib.Data.Rat.Floor

namespace C17R
open Model Model.C17Float

/-- `r` is a correct binary64 rounding of the rational `x` (exponent range not modelled): zero for zero; otherwise a
    53-bit significand (`2^52 ≤ |m| ≤ 2^53`), at most half a unit in the last place away from `x`, and with an even
    significand when `x` is exactly halfway between two such numbers -/
def Nearest (r : Dy) (x : Rat) : Prop :=
  (x = 0 → r.m = 0) ∧
  (x ≠ 0 → (2 : Int) ^ 52 ≤ |r.m| ∧ |r.m| ≤ 2 ^ 53 ∧ 2 * |r.toRat - x| ≤ pow2 r.e ∧
    (2 * |r.toRat - x| = pow2 r.e → r.m % 2 = 0))

theorem pow2_eq_zpow (k : Int) : pow2 k = (2 : Rat) ^ k := by
  unfold pow2
  cases k with
  | ofNat n =>
    rw [if_pos (by simp)]
    simp
  | negSucc n =>
    rw [if_neg (by simp [Int.negSucc_eq]; omega)]
    have : (-Int.negSucc n).toNat = n + 1 := by rw [Int.negSucc_eq]; omega
    rw [this, zpow_negSucc]
    simp

theorem toRat_eq (a : Dy) : a.toRat = (a.m : Rat) * (2 : Rat) ^ a.e := by
  simp only [Dy.toRat, pow2_eq_zpow]

theorem flQ_nearest (num : Int) (den s : Nat) (hd : 0 < den) (hs : den < 2 ^ s) :
    Nearest (flQ num den s) ((num : Rat) / den) := by
  have hdq : (0 : Rat) < den := by exact_mod_cast hd
  unfold flQ
  rw [force_eq]
  cases num with
  | ofNat n =>
    simp only [force_eq]
    by_cases hn : n = 0
    · subst hn
      refine ⟨fun _ => by simp, fun h => by simp at h⟩
    · rw [if_neg hn]
      have hpos : 0 < n := Nat.pos_of_ne_zero hn
      obtain ⟨h1, h2, h3, h4⟩ := roundPos_nearest n den s hpos hd hs
      refine ⟨fun h => ?_, fun _ => ?_⟩
      · exfalso
        have : (0 : Rat) < ((Int.ofNat n : Int) : Rat) / den := by
          apply div_pos _ hdq
          simp only [Int.ofNat_eq_natCast, Int.cast_natCast]
          exact_mod_cast hpos
        linarith
      · have hm : 0 ≤ (roundPos n den s).m := le_trans (by positivity) h1
        rw [abs_of_nonneg hm]
        exact ⟨h1, h2, by simpa using h3, by simpa using h4⟩
  | negSucc n =>
    simp only [force_eq, Dy.force_eq]
    obtain ⟨h1, h2, h3, h4⟩ := roundPos_nearest (n + 1) den s (by omega) hd hs
    have hx : ((Int.negSucc n : Int) : Rat) / den = -(((n + 1 : Nat) : Rat) / den) := by
      rw [Int.negSucc_eq]; push_cast; ring
    refine ⟨fun h => ?_, fun _ => ?_⟩
    · exfalso
      have : (0 : Rat) < ((n + 1 : Nat) : Rat) / den := div_pos (by positivity) hdq
      rw [hx] at h; linarith
    · have hm : 0 ≤ (roundPos (n + 1) den s).m := le_trans (by positivity) h1
      have hval : (Dy.toRat ⟨-(roundPos (n + 1) den s).m, (roundPos (n + 1) den s).e⟩) -
          ((Int.negSucc n : Int) : Rat) / den = -((roundPos (n + 1) den s).toRat - ((n + 1 : Nat) : Rat) / den) := by
        rw [hx]; simp only [Dy.toRat]; push_cast; ring
      simp only [abs_neg, abs_of_nonneg hm, hval]
      refine ⟨h1, h2, h3, fun h => ?_⟩
      have := h4 h
      omega

theorem fl_nearest (v : Rat) : Nearest (fl v) v := by
  unfold fl
  rw [force_eq]
  have hd : 0 < v.den := v.den_pos
  have := flQ_nearest v.num v.den (lg v.den + 1) hd (lg_spec v.den hd).2
  rwa [Rat.num_div_den] at this

/-- the value a dyadic is rounded from -/
theorem round_nearest (a : Dy) : Nearest a.round a.toRat := by
  unfold Dy.round
  rw [toRat_eq]
  cases he : a.e with
  | ofNat k =>
    simp only
    have := flQ_nearest (a.m * ((2 ^ k : Nat) : Int)) 1 1 (by omega) (by norm_num)
    simpa [zpow_natCast] using this
  | negSucc k =>
    simp only
    have := flQ_nearest a.m (2 ^ (k + 1)) (k + 2) (by positivity) (Nat.pow_lt_pow_right (by norm_num) (by omega))
    have e : (2 : Rat) ^ Int.negSucc k = 1 / ((2 ^ (k + 1) : Nat) : Rat) := by
      rw [Int.negSucc_eq, zpow_neg]
      have : ((k : Int) + 1) = ((k + 1 : Nat) : Int) := by push_cast; ring
      rw [this, zpow_natCast]; simp
    rw [e, mul_one_div]
    exact this

theorem addExact_toRat (a b : Dy) : (a.addExact b).toRat = a.toRat + b.toRat := by
  have h2 : (2 : Rat) ≠ 0 := by norm_num
  unfold Dy.addExact
  split
  · rename_i h
    simp only [toRat_eq]
    have : b.e = a.e + ((b.e - a.e).toNat : Int) := by omega
    conv_rhs => rw [this, zpow_add₀ h2, zpow_natCast]
    push_cast; ring
  · rename_i h
    simp only [toRat_eq]
    have : a.e = b.e + ((a.e - b.e).toNat : Int) := by omega
    conv_rhs => rw [this, zpow_add₀ h2, zpow_natCast]
    push_cast; ring

theorem neg_toRat (a : Dy) : a.neg.toRat = -a.toRat := by
  simp [Dy.neg, Dy.toRat]

theorem fadd_nearest (a b : Dy) : Nearest (fadd a b) (a.toRat + b.toRat) := by
  unfold fadd
  simp only [Dy.force_eq]
  rw [← addExact_toRat]
  exact round_nearest _

theorem fsub_nearest (a b : Dy) : Nearest (fsub a b) (a.toRat - b.toRat) := by
  unfold fsub
  simp only [Dy.force_eq]
  rw [sub_eq_add_neg, ← neg_toRat, ← addExact_toRat]
  exact round_nearest _

theorem fdiv_nearest (a b : Dy) (hb : b.m ≠ 0) : Nearest (fdiv a b) (a.toRat / b.toRat) := by
  have h2 : (2 : Rat) ≠ 0 := by norm_num
  unfold fdiv
  simp only [Dy.force_eq, force_eq]
  have hden : 0 < b.m.natAbs * 2 ^ (b.e - a.e).toNat :=
    Nat.mul_pos (Int.natAbs_pos.mpr hb) (by positivity)
  have key := flQ_nearest ((if b.m < 0 then -a.m else a.m) * ((2 ^ (a.e - b.e).toNat : Nat) : Int))
    (b.m.natAbs * 2 ^ (b.e - a.e).toNat) (lg (b.m.natAbs * 2 ^ (b.e - a.e).toNat) + 1) hden (lg_spec _ hden).2
  have hval : (((if b.m < 0 then -a.m else a.m) * ((2 ^ (a.e - b.e).toNat : Nat) : Int) : Int) : Rat) /
      ((b.m.natAbs * 2 ^ (b.e - a.e).toNat : Nat) : Rat) = a.toRat / b.toRat := by
    have hbq : (b.m : Rat) ≠ 0 := by exact_mod_cast hb
    have hnat : ((b.m.natAbs : Nat) : Rat) = |(b.m : Rat)| := by
      rw [← Int.cast_abs, ← Int.natCast_natAbs]; simp
    simp only [toRat_eq]
    push_cast
    rw [hnat]
    by_cases hle : a.e ≤ b.e
    · have e1 : (a.e - b.e).toNat = 0 := by omega
      have e2 : b.e = a.e + ((b.e - a.e).toNat : Int) := by omega
      rw [e1, pow_zero, mul_one]
      conv_rhs => rw [e2, zpow_add₀ h2, zpow_natCast]
      have hz : (2 : Rat) ^ a.e ≠ 0 := zpow_ne_zero _ h2
      have hp : ((2 : Rat) ^ (b.e - a.e).toNat) ≠ 0 := pow_ne_zero _ h2
      by_cases hneg : b.m < 0
      · have : (b.m : Rat) < 0 := by exact_mod_cast hneg
        rw [if_pos hneg, abs_of_neg this]; push_cast; field_simp
      · have : (0 : Rat) < b.m := by
          have : 0 < b.m := by omega
          exact_mod_cast this
        rw [if_neg hneg, abs_of_pos this]; field_simp
    · have e1 : (b.e - a.e).toNat = 0 := by omega
      have e2 : a.e = b.e + ((a.e - b.e).toNat : Int) := by omega
      rw [e1, pow_zero, mul_one]
      conv_rhs => rw [e2, zpow_add₀ h2, zpow_natCast]
      have hz : (2 : Rat) ^ b.e ≠ 0 := zpow_ne_zero _ h2
      by_cases hneg : b.m < 0
      · have : (b.m : Rat) < 0 := by exact_mod_cast hneg
        rw [if_pos hneg, abs_of_neg this]; push_cast; field_simp
      · have : (0 : Rat) < b.m := by
          have : 0 < b.m := by omega
          exact_mod_cast this
        rw [if_neg hneg, abs_of_pos this]; field_simp
  rw [hval] at key
  exact key

/-- the comparison of two dyadics is the comparison of the numbers they denote -/
theorem lt_iff (a b : Dy) : Dy.lt a b = true ↔ a.toRat < b.toRat := by
  have h2 : (2 : Rat) ≠ 0 := by norm_num
  unfold Dy.lt
  simp only [toRat_eq]
  split
  · rename_i h
    obtain ⟨k, hk⟩ : ∃ k : Nat, b.e = a.e + k := ⟨(b.e - a.e).toNat, by omega⟩
    have hk' : (b.e - a.e).toNat = k := by omega
    have hz : (0 : Rat) < (2 : Rat) ^ a.e := zpow_pos (by norm_num) _
    have hb : (2 : Rat) ^ b.e = (2 : Rat) ^ k * (2 : Rat) ^ a.e := by rw [hk, zpow_add₀ h2, zpow_natCast, mul_comm]
    rw [hk', hb, ← mul_assoc, decide_eq_true_eq, mul_lt_mul_iff_of_pos_right hz]
    constructor
    · intro h; have : ((a.m : Int) : Rat) < ((b.m * ((2 ^ k : Nat) : Int) : Int) : Rat) := by exact_mod_cast h
      push_cast at this; linarith
    · intro h
      have : ((a.m : Int) : Rat) < ((b.m * ((2 ^ k : Nat) : Int) : Int) : Rat) := by push_cast; linarith
      exact_mod_cast this
  · rename_i h
    obtain ⟨k, hk⟩ : ∃ k : Nat, a.e = b.e + k := ⟨(a.e - b.e).toNat, by omega⟩
    have hk' : (a.e - b.e).toNat = k := by omega
    have hz : (0 : Rat) < (2 : Rat) ^ b.e := zpow_pos (by norm_num) _
    have ha : (2 : Rat) ^ a.e = (2 : Rat) ^ k * (2 : Rat) ^ b.e := by rw [hk, zpow_add₀ h2, zpow_natCast, mul_comm]
    rw [hk', ha, ← mul_assoc, decide_eq_true_eq, mul_lt_mul_iff_of_pos_right hz]
    constructor
    · intro h; have : ((a.m * ((2 ^ k : Nat) : Int) : Int) : Rat) < ((b.m : Int) : Rat) := by exact_mod_cast h
      push_cast at this; linarith
    · intro h
      have : ((a.m * ((2 ^ k : Nat) : Int) : Int) : Rat) < ((b.m : Int) : Rat) := by push_cast; linarith
      exact_mod_cast this

/-- `Dy.floor` is the floor of the number the dyadic denotes -/
theorem floor_eq (a : Dy) : a.floor = ⌊a.toRat⌋ := by
  unfold Dy.floor
  rw [Dy.force_eq, toRat_eq]
  cases he : a.e with
  | ofNat k =>
    simp only
    have : (a.m : Rat) * (2 : Rat) ^ Int.ofNat k = ((a.m * ((2 ^ k : Nat) : Int) : Int) : Rat) := by
      simp [zpow_natCast]
    rw [this, Int.floor_intCast]
  | negSucc k =>
    simp only
    have : (a.m : Rat) * (2 : Rat) ^ Int.negSucc k = (a.m : Rat) / ((2 ^ (k + 1) : Nat) : Rat) := by
      rw [zpow_negSucc]; push_cast; rw [div_eq_mul_inv]
    rw [this, Rat.floor_intCast_div_natCast]

end C17R
