/-
C06 helper lemmas (round 6): the order of the loaded notes by their final seconds (`secLe`, `sortNotesSec`,
`loadFileS` of Model/PerfIds.lean), when it is the order by ticks, and that every tick the loader sees is
non-negative when the delta times of the file are, and that a file the exporter writes has no negative tick when no
time of the performance is mapped to one (`loaderTracks_written_nonneg`).
-/
import PartituraModel.Model.PerfIds
import PartituraModel.Proofs.C06Sort
import PartituraModel.Proofs.C06Ids
import PartituraModel.Proofs.C06Defaults
import Mathlib.Tactic.Linarith

namespace C06Order
open Model Model.PerfMidi C06Sort C06Ids C06Export C06Defaults

-- ------------------------------------------------------------------ sortBy depends on the comparisons it makes only

theorem insertBy_congr {α : Type} (le1 le2 : α → α → Bool) (a : α) (s : List α)
    (h : ∀ b ∈ s, le1 a b = le2 a b) : insertBy le1 a s = insertBy le2 a s := by
  induction s with
  | nil => rfl
  | cons b s ih =>
    simp only [insertBy]
    rw [h b (List.mem_cons_self ..), ih (fun c hc => h c (List.mem_cons_of_mem _ hc))]

theorem sortBy_congr_le {α : Type} (le1 le2 : α → α → Bool) (l : List α)
    (h : ∀ a ∈ l, ∀ b ∈ l, le1 a b = le2 a b) : sortBy le1 l = sortBy le2 l := by
  induction l with
  | nil => rfl
  | cons a l ih =>
    simp only [sortBy]
    rw [ih (fun x hx y hy => h x (List.mem_cons_of_mem _ hx) y (List.mem_cons_of_mem _ hy))]
    exact insertBy_congr le1 le2 a _
      (fun b hb => h a (List.mem_cons_self ..) b (List.mem_cons_of_mem _ ((mem_sortBy _ _ _).mp hb)))

-- ------------------------------------------------------------------ the key in seconds

theorem secLe_iff (sec : Int → Rat) (a b : RNote) : secLe sec a b = true ↔ KeyLe sec a b := by
  simp [secLe, KeyLe]

theorem lex_trans {α : Type} [Preorder α] {x y z : α} {R1 R2 R3 : Prop}
    (h1 : x < y ∨ (x = y ∧ R1)) (h2 : y < z ∨ (y = z ∧ R2)) (h : R1 → R2 → R3) : x < z ∨ (x = z ∧ R3) := by
  rcases h1 with h1 | ⟨e1, r1⟩
  · rcases h2 with h2 | ⟨e2, _⟩
    · exact Or.inl (lt_trans h1 h2)
    · exact Or.inl (e2 ▸ h1)
  · rcases h2 with h2 | ⟨e2, r2⟩
    · exact Or.inl (e1 ▸ h2)
    · exact Or.inr ⟨e1.trans e2, h r1 r2⟩

theorem keyLe_trans (sec : Int → Rat) (a b c : RNote) (h1 : KeyLe sec a b) (h2 : KeyLe sec b c) : KeyLe sec a c := by
  unfold KeyLe at *
  exact lex_trans h1 h2 fun r1 r2 => lex_trans r1 r2 fun s1 s2 => lex_trans s1 s2 fun t1 t2 => le_trans t1 t2

theorem keyLe_total (sec : Int → Rat) (a b : RNote) : KeyLe sec a b ∨ KeyLe sec b a := by
  unfold KeyLe
  rcases lt_trichotomy (sec a.on) (sec b.on) with h1 | h1 | h1
  · exact Or.inl (Or.inl h1)
  · rcases lt_trichotomy a.pitch b.pitch with h2 | h2 | h2
    · exact Or.inl (Or.inr ⟨h1, Or.inl h2⟩)
    · rcases lt_trichotomy (sec a.off) (sec b.off) with h3 | h3 | h3
      · exact Or.inl (Or.inr ⟨h1, Or.inr ⟨h2, Or.inl h3⟩⟩)
      · rcases le_total a.ch b.ch with h4 | h4
        · exact Or.inl (Or.inr ⟨h1, Or.inr ⟨h2, Or.inr ⟨h3, h4⟩⟩⟩)
        · exact Or.inr (Or.inr ⟨h1.symm, Or.inr ⟨h2.symm, Or.inr ⟨h3.symm, h4⟩⟩⟩)
      · exact Or.inr (Or.inr ⟨h1.symm, Or.inr ⟨h2.symm, Or.inl h3⟩⟩)
    · exact Or.inr (Or.inr ⟨h1.symm, Or.inl h2⟩)
  · exact Or.inr (Or.inl h1)

theorem secLe_total (sec : Int → Rat) (a b : RNote) : secLe sec a b = true ∨ secLe sec b a = true := by
  rw [secLe_iff, secLe_iff]; exact keyLe_total sec a b

theorem secLe_trans (sec : Int → Rat) (a b c : RNote) (h1 : secLe sec a b = true) (h2 : secLe sec b c = true) :
    secLe sec a c = true := by
  rw [secLe_iff] at *; exact keyLe_trans sec a b c h1 h2

-- ------------------------------------------------------------------ strictly increasing seconds: the order by ticks

/-- strictly increasing on the non-negative ticks -/
def StrictOn (sec : Int → Rat) : Prop := ∀ x y, 0 ≤ x → x < y → sec x < sec y

theorem strictOn_lt_iff (sec : Int → Rat) (h : StrictOn sec) (x y : Int) (hx : 0 ≤ x) (hy : 0 ≤ y) :
    sec x < sec y ↔ x < y := by
  constructor
  · intro hlt
    by_contra hn
    rcases lt_or_eq_of_le (not_lt.mp hn) with h1 | h1
    · exact lt_asymm hlt (h y x hy h1)
    · rw [h1] at hlt; exact lt_irrefl _ hlt
  · exact h x y hx

theorem strictOn_eq_iff (sec : Int → Rat) (h : StrictOn sec) (x y : Int) (hx : 0 ≤ x) (hy : 0 ≤ y) :
    sec x = sec y ↔ x = y := by
  constructor
  · intro he
    rcases lt_trichotomy x y with h1 | h1 | h1
    · exact absurd he (ne_of_lt (h x y hx h1))
    · exact h1
    · exact absurd he.symm (ne_of_lt (h y x hy h1))
  · intro he; rw [he]

theorem secLe_eq_rnoteLe (sec : Int → Rat) (h : StrictOn sec) (a b : RNote)
    (ha : 0 ≤ a.on ∧ 0 ≤ a.off) (hb : 0 ≤ b.on ∧ 0 ≤ b.off) : secLe sec a b = rnoteLe a b := by
  rw [Bool.eq_iff_iff, secLe_iff, rnoteLe_iff]
  unfold KeyLe
  rw [strictOn_lt_iff sec h _ _ ha.1 hb.1, strictOn_eq_iff sec h _ _ ha.1 hb.1,
    strictOn_lt_iff sec h _ _ ha.2 hb.2, strictOn_eq_iff sec h _ _ ha.2 hb.2]

theorem sortNotesSec_eq (sec : Int → Rat) (h : StrictOn sec) (l : List RNote)
    (hpos : ∀ n ∈ l, 0 ≤ n.on ∧ 0 ≤ n.off) : sortNotesSec sec l = sortNotes l := by
  unfold sortNotesSec sortNotes
  exact sortBy_congr_le _ _ l (fun a ha b hb => secLe_eq_rnoteLe sec h a b (hpos a ha) (hpos b hb))

-- ------------------------------------------------------------------ the ticks the loader sees are non-negative

def NonnegTicks (l : Track) : Prop := ∀ m ∈ l, 0 ≤ m.1

theorem toAbsFrom_nonneg (t : Int) (ht : 0 ≤ t) (l : Track) (h : NonnegTicks l) : NonnegTicks (toAbsFrom t l) := by
  induction l generalizing t with
  | nil => intro m hm; simp [toAbsFrom] at hm
  | cons a l ih =>
    obtain ⟨d, e⟩ := a
    have hd : 0 ≤ d := h (d, e) (List.mem_cons_self ..)
    intro m hm
    simp only [toAbsFrom, List.mem_cons] at hm
    rcases hm with rfl | hm
    · show 0 ≤ t + d; omega
    · exact ih (t + d) (by omega) (fun x hx => h x (List.mem_cons_of_mem _ hx)) m hm

theorem toAbs_nonneg (l : Track) (h : NonnegTicks l) : NonnegTicks (toAbs l) :=
  toAbsFrom_nonneg 0 (le_refl _) l h

theorem lastTick_nonneg (l : Track) (h : NonnegTicks l) : 0 ≤ lastTick l := by
  induction l with
  | nil => simp [lastTick]
  | cons a l ih =>
    cases l with
    | nil => exact h a (List.mem_cons_self ..)
    | cons b l =>
      simp only [lastTick]
      exact ih (fun x hx => h x (List.mem_cons_of_mem _ hx))

theorem fixEot_nonneg (l : Track) (h : NonnegTicks l) : NonnegTicks (fixEot l) := by
  intro m hm
  simp only [fixEot, List.mem_append, List.mem_filter, List.mem_singleton] at hm
  rcases hm with ⟨hm, _⟩ | rfl
  · exact h m hm
  · exact lastTick_nonneg l h

theorem mergeAbs_nonneg (ts : List Track) (h : ∀ t ∈ ts, NonnegTicks t) : NonnegTicks (mergeAbs ts) := by
  unfold mergeAbs
  apply fixEot_nonneg
  intro m hm
  rw [mem_sortBy, List.mem_flatten] at hm
  obtain ⟨t, ht, hmt⟩ := hm
  exact h t ht m hmt

theorem loaderTracks_nonneg (merge : Bool) (tracks : List Track) (h : ∀ t ∈ tracks, NonnegTicks t) :
    ∀ t ∈ loaderTracks merge tracks, NonnegTicks t := by
  have habs : ∀ t ∈ tracks.map toAbs, NonnegTicks t := by
    intro t ht
    obtain ⟨t0, ht0, rfl⟩ := List.mem_map.mp ht
    exact toAbs_nonneg t0 (h t0 ht0)
  unfold loaderTracks
  split
  · intro t ht
    rw [List.mem_singleton] at ht
    subst ht
    exact mergeAbs_nonneg _ habs
  · exact habs

/-- the notes the message loop pairs carry ticks of the track -/
theorem pairFrom_nonneg (s : Sounding) (l : Track) (hl : NonnegTicks l)
    (hs : ∀ κ on vel, s κ = some (on, vel) → 0 ≤ on) : ∀ n ∈ pairFrom s l, 0 ≤ n.on ∧ 0 ≤ n.off := by
  induction l generalizing s with
  | nil => intro n hn; simp [pairFrom] at hn
  | cons m l ih =>
    obtain ⟨k, e⟩ := m
    have hk : 0 ≤ k := hl (k, e) (List.mem_cons_self ..)
    have hl' : NonnegTicks l := fun x hx => hl x (List.mem_cons_of_mem _ hx)
    have hset : ∀ (κ0 : Nat) (v : Option (Int × Nat)), (∀ on vel, v = some (on, vel) → 0 ≤ on) →
        ∀ κ on vel, (s.set κ0 v) κ = some (on, vel) → 0 ≤ on := by
      intro κ0 v hv κ on vel hh
      unfold Sounding.set at hh
      split at hh
      · exact hv on vel hh
      · exact hs κ on vel hh
    have hnone : ∀ on vel, (none : Option (Int × Nat)) = some (on, vel) → 0 ≤ on := fun _ _ hh => by cases hh
    have hclose : ∀ (ch p : Nat), ∀ n ∈ (match s (noteHash ch p) with
        | none => pairFrom s l
        | some (on, vel) => (⟨p, on, k, vel, ch⟩ : RNote) :: pairFrom (s.set (noteHash ch p) none) l),
        0 ≤ n.on ∧ 0 ≤ n.off := by
      intro ch p n hn
      cases hsk : s (noteHash ch p) with
      | none => rw [hsk] at hn; exact ih s hl' hs n hn
      | some ov =>
        obtain ⟨on, vel⟩ := ov
        rw [hsk] at hn
        rcases List.mem_cons.mp hn with rfl | hn
        · exact ⟨hs _ on vel hsk, hk⟩
        · exact ih _ hl' (hset _ none hnone) n hn
    cases e with
    | noteOn ch p v =>
      simp only [pairFrom]
      split
      · exact ih _ hl' (hset _ (some (k, v)) (fun on vel hh => by cases hh; exact hk))
      · exact hclose ch p
    | noteOff ch p v => simp only [pairFrom]; exact hclose ch p
    | control _ _ _ => simp only [pairFrom]; exact ih s hl' hs
    | program _ _ => simp only [pairFrom]; exact ih s hl' hs
    | tempo _ => simp only [pairFrom]; exact ih s hl' hs
    | timeSig _ _ => simp only [pairFrom]; exact ih s hl' hs
    | keySig _ _ => simp only [pairFrom]; exact ih s hl' hs
    | eot => simp only [pairFrom]; exact ih s hl' hs
    | metaMsg _ => simp only [pairFrom]; exact ih s hl' hs
    | other _ => simp only [pairFrom]; exact ih s hl' hs

theorem pairNotes_nonneg (l : Track) (hl : NonnegTicks l) : ∀ n ∈ pairNotes l, 0 ≤ n.on ∧ 0 ≤ n.off :=
  pairFrom_nonneg _ l hl (fun _ _ _ hh => by cases hh)

theorem mem_temposOf (l : Track) (c : Int × Nat) (h : c ∈ temposOf l) : (c.1, Ev.tempo c.2) ∈ l := by
  induction l with
  | nil => simp [temposOf] at h
  | cons m l ih =>
    obtain ⟨k, e⟩ := m
    cases e <;> simp only [temposOf, List.mem_cons] at h ⊢
    case tempo mm =>
      rcases h with rfl | h
      · exact Or.inl rfl
      · exact Or.inr (ih h)
    all_goals exact Or.inr (ih h)

/-- a `set_tempo` the loader meets in a (merged or unmerged) track is a `set_tempo` of a track of the file -/
theorem loaderTracks_tempo_mem (merge : Bool) (tracks : List Track) (T : Track) (hT : T ∈ loaderTracks merge tracks)
    (k : Int) (m : Nat) (h : (k, Ev.tempo m) ∈ T) : ∃ t ∈ tracks, (k, Ev.tempo m) ∈ toAbs t := by
  unfold loaderTracks at hT
  split at hT
  · rw [List.mem_singleton] at hT
    subst hT
    simp only [mergeAbs, fixEot, List.mem_append, List.mem_filter, List.mem_singleton] at h
    rcases h with ⟨h, _⟩ | h
    · rw [mem_sortBy, List.mem_flatten] at h
      obtain ⟨t', ht', hm⟩ := h
      obtain ⟨t, ht, rfl⟩ := List.mem_map.mp ht'
      exact ⟨t, ht, hm⟩
    · cases h
  · obtain ⟨t, ht, rfl⟩ := List.mem_map.mp hT
    exact ⟨t, ht, h⟩

theorem temposOf_mem (l : Track) (k : Int) (m : Nat) (h : (k, Ev.tempo m) ∈ l) : (k, m) ∈ temposOf l := by
  induction l with
  | nil => simp at h
  | cons a l ih =>
    obtain ⟨k', e⟩ := a
    rcases List.mem_cons.mp h with h1 | h2
    · cases h1; simp [temposOf]
    · clear h
      cases e <;> simp only [temposOf, List.mem_cons] <;> first | exact Or.inr (ih h2) | exact ih h2

-- ------------------------------------------------------------------ the ticks of a written file

/-- every time of the performance is mapped to a non-negative tick -/
def TicksNonneg (q : Rat → Int) (p : PPart) : Prop :=
  (∀ m ∈ p.metaOther, 0 ≤ q m.time) ∧ (∀ m ∈ p.keySigs, 0 ≤ q m.time) ∧ (∀ m ∈ p.timeSigs, 0 ≤ q m.time) ∧
  (∀ m ∈ p.controls, 0 ≤ q m.time) ∧ (∀ n ∈ p.notes, 0 ≤ q n.on ∧ 0 ≤ q n.off) ∧ (∀ m ∈ p.programs, 0 ≤ q m.time)

theorem partEvents_nonneg (q : Rat → Int) (p : PPart) (h : TicksNonneg q p) : ∀ i ∈ partEvents q p, 0 ≤ i.2.1 := by
  obtain ⟨h1, h2, h3, h4, h5, h6⟩ := h
  intro i hi
  simp only [partEvents, List.mem_append, List.mem_map, List.mem_flatMap] at hi
  rcases hi with ((((⟨m, hm, rfl⟩ | ⟨m, hm, rfl⟩) | ⟨m, hm, rfl⟩) | ⟨m, hm, rfl⟩) | ⟨n, hn, hi⟩) | ⟨m, hm, rfl⟩
  · exact h1 m hm
  · exact h2 m hm
  · exact h3 m hm
  · exact h4 m hm
  · have hn' := h5 n ((mem_sortBy _ _ _).mp hn)
    simp only [noteIns, List.mem_cons, List.not_mem_nil, or_false] at hi
    rcases hi with rfl | rfl
    · exact hn'.1
    · exact hn'.2
  · exact h6 m hm

theorem defaultPrograms_nonneg (acc : List Ins) (p : PPart) (hacc : ∀ i ∈ acc, 0 ≤ i.2.1) :
    ∀ i ∈ defaultPrograms acc p, 0 ≤ i.2.1 := by
  intro i hi
  unfold defaultPrograms at hi
  split at hi
  · split at hi
    · simp at hi
    · rename_i m hm
      simp only [List.mem_flatMap, List.mem_map] at hi
      obtain ⟨tr, _, ch, _, rfl⟩ := hi
      obtain ⟨hmem, _⟩ := minTick_spec _ m hm
      obtain ⟨j, hj, rfl⟩ := List.mem_map.mp hmem
      exact hacc j hj
  · simp at hi

theorem foldl_insertPart_nonneg (q : Rat → Int) (parts : List PPart) (h : ∀ p ∈ parts, TicksNonneg q p)
    (acc : List Ins) (hacc : ∀ i ∈ acc, 0 ≤ i.2.1) : ∀ i ∈ parts.foldl (insertPart q) acc, 0 ≤ i.2.1 := by
  induction parts generalizing acc with
  | nil => exact hacc
  | cons p ps ih =>
    simp only [List.foldl_cons]
    apply ih (fun p' hp' => h p' (List.mem_cons_of_mem _ hp'))
    have h1 : ∀ i ∈ acc ++ partEvents q p, 0 ≤ i.2.1 := by
      intro i hi
      rcases List.mem_append.mp hi with hi | hi
      · exact hacc i hi
      · exact partEvents_nonneg q p (h p (List.mem_cons_self ..)) i hi
    intro i hi
    unfold insertPart at hi
    rcases List.mem_append.mp hi with hi | hi
    · exact h1 i hi
    · exact defaultPrograms_nonneg _ p h1 i hi

theorem insertAll_nonneg (q : Rat → Int) (parts : List PPart) (h : ∀ p ∈ parts, TicksNonneg q p) :
    ∀ i ∈ insertAll q parts, 0 ≤ i.2.1 :=
  foldl_insertPart_nonneg q parts h [] (fun _ hi => by cases hi)

theorem trackAbs_nonneg (ins : List Ins) (h : ∀ i ∈ ins, 0 ≤ i.2.1) (tr : Nat) : NonnegTicks (trackAbs ins tr) := by
  intro m hm
  unfold trackAbs at hm
  rw [mem_sortBy] at hm
  obtain ⟨i, hi, rfl⟩ := List.mem_map.mp hm
  exact h i (List.mem_filter.mp hi).1

theorem exportAbs_nonneg (q : Rat → Int) (mpq : Nat) (parts : List PPart) (h : ∀ p ∈ parts, TicksNonneg q p) :
    ∀ t ∈ exportAbs q mpq parts, NonnegTicks t := by
  have hins := insertAll_nonneg q parts h
  intro t ht
  unfold exportAbs at ht
  dsimp only at ht
  split at ht
  · cases ht
  · rcases List.mem_cons.mp ht with rfl | ht
    · intro m hm
      rcases List.mem_cons.mp hm with rfl | hm
      · exact le_refl _
      · exact trackAbs_nonneg _ hins _ m hm
    · obtain ⟨tr, _, rfl⟩ := List.mem_map.mp ht
      exact trackAbs_nonneg _ hins tr

theorem savedAbs_nonneg (q : Rat → Int) (mpq : Nat) (ms : Bool) (parts : List PPart)
    (h : ∀ p ∈ parts, TicksNonneg q p) : ∀ t ∈ savedAbs q mpq ms parts, NonnegTicks t := by
  have he := exportAbs_nonneg q mpq parts h
  intro t ht
  unfold savedAbs at ht
  dsimp only at ht
  obtain ⟨t0, ht0, rfl⟩ := List.mem_map.mp ht
  apply fixEot_nonneg
  split at ht0
  · rw [List.mem_singleton] at ht0
    subst ht0
    exact mergeAbs_nonneg _ he
  · exact he t0 ht0

/-- the tracks the loader sees of a written file carry non-negative ticks -/
theorem loaderTracks_written_nonneg (q : Rat → Int) (mpq : Nat) (ms ml : Bool) (parts : List PPart)
    (h : ∀ p ∈ parts, TicksNonneg q p) :
    ∀ T ∈ loaderTracks ml ((savedAbs q mpq ms parts).map toDelta), NonnegTicks T := by
  have hs := savedAbs_nonneg q mpq ms parts h
  unfold loaderTracks
  rw [map_toAbs_toDelta]
  split
  · intro T hT
    rw [List.mem_singleton] at hT
    subst hT
    exact mergeAbs_nonneg _ hs
  · exact hs


theorem forall₂_exists_left {α β : Type} {R : α → β → Prop} {l1 : List α} {l2 : List β}
    (h : List.Forall₂ R l1 l2) : ∀ a ∈ l1, ∃ b ∈ l2, R a b := by
  induction h with
  | nil => intro a ha; cases ha
  | cons hab _ ih =>
    intro a ha
    rcases List.mem_cons.mp ha with rfl | ha
    · exact ⟨_, List.mem_cons_self .., hab⟩
    · obtain ⟨b, hb, hr⟩ := ih a ha
      exact ⟨b, List.mem_cons_of_mem _ hb, hr⟩

end C06Order
