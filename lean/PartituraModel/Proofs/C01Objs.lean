/-
C01 helper lemmas: object records (`getObj/setObj`), registries (`regAdd/regRemove`), `modifyPoint`,
side accessors.
-/
import PartituraModel.Model.Timeline

namespace TL

-- ------------------------------------------------------------------ side accessors

@[simp] theorem setReg_t (p : Point) (sd : Side) (l : List ObjRef) : (p.setReg sd l).t = p.t := by
  cases sd <;> rfl
@[simp] theorem setReg_quarter (p : Point) (sd : Side) (l : List ObjRef) : (p.setReg sd l).quarter = p.quarter := by
  cases sd <;> rfl
@[simp] theorem setReg_prev (p : Point) (sd : Side) (l : List ObjRef) : (p.setReg sd l).prev = p.prev := by
  cases sd <;> rfl
@[simp] theorem setReg_next (p : Point) (sd : Side) (l : List ObjRef) : (p.setReg sd l).next = p.next := by
  cases sd <;> rfl
@[simp] theorem setReg_reg_same (p : Point) (sd : Side) (l : List ObjRef) : (p.setReg sd l).reg sd = l := by
  cases sd <;> rfl
theorem setReg_reg_other (p : Point) {sd sd' : Side} (h : sd' ≠ sd) (l : List ObjRef) :
    (p.setReg sd l).reg sd' = p.reg sd' := by
  cases sd <;> cases sd' <;> first | rfl | exact absurd rfl h
theorem setReg_reg (p : Point) (sd sd' : Side) (l : List ObjRef) :
    (p.setReg sd l).reg sd' = if sd' = sd then l else p.reg sd' := by
  by_cases h : sd' = sd
  · subst h; simp
  · simp [h, setReg_reg_other p h]

@[simp] theorem setAt_ref (e : ObjSt) (sd : Side) (v : Option Int) : (e.setAt sd v).ref = e.ref := by
  cases sd <;> rfl
@[simp] theorem setAt_at_same (e : ObjSt) (sd : Side) (v : Option Int) : (e.setAt sd v).at sd = v := by
  cases sd <;> rfl
theorem setAt_at_other (e : ObjSt) {sd sd' : Side} (h : sd' ≠ sd) (v : Option Int) :
    (e.setAt sd v).at sd' = e.at sd' := by
  cases sd <;> cases sd' <;> first | rfl | exact absurd rfl h
theorem setAt_at (e : ObjSt) (sd sd' : Side) (v : Option Int) :
    (e.setAt sd v).at sd' = if sd' = sd then v else e.at sd' := by
  by_cases h : sd' = sd
  · subst h; simp
  · simp [h, setAt_at_other e h]

theorem reg_nonempty_of_mem {p : Point} {sd : Side} {o : ObjRef} (h : o ∈ p.reg sd) :
    p.starting ≠ [] ∨ p.ending ≠ [] := by
  cases sd
  · left; intro e; simp [Point.reg, e] at h
  · right; intro e; simp [Point.reg, e] at h

theorem reg_eq_nil_of_empty {p : Point} (h : p.starting.length + p.ending.length = 0) (sd : Side) :
    p.reg sd = [] := by
  cases sd
  · simp only [Point.reg]; exact List.eq_nil_of_length_eq_zero (by omega)
  · simp only [Point.reg]; exact List.eq_nil_of_length_eq_zero (by omega)

-- ------------------------------------------------------------------ registries

theorem mem_regAdd {l : List ObjRef} {o x : ObjRef} : x ∈ regAdd l o ↔ x ∈ l ∨ x = o := by
  unfold regAdd
  split
  · constructor
    · exact Or.inl
    · rintro (h | rfl)
      · exact h
      · assumption
  · simp

theorem nodup_regAdd {l : List ObjRef} (o : ObjRef) (h : l.Nodup) : (regAdd l o).Nodup := by
  unfold regAdd
  split
  · exact h
  · rename_i hn
    rw [List.nodup_append]
    refine ⟨h, by simp, ?_⟩
    intro a ha b hb
    simp at hb
    subst hb
    intro e
    subst e
    exact hn ha

theorem mem_regRemove {l : List ObjRef} {o x : ObjRef} : x ∈ regRemove l o ↔ x ∈ l ∧ x ≠ o := by
  simp [regRemove]

theorem nodup_regRemove {l : List ObjRef} (o : ObjRef) (h : l.Nodup) : (regRemove l o).Nodup :=
  h.sublist List.filter_sublist

-- ------------------------------------------------------------------ modifyPoint

theorem mem_modifyPoint {pts : List Point} {t : Int} {f : Point → Point} {p' : Point} :
    p' ∈ modifyPoint pts t f ↔ ∃ p ∈ pts, p' = if p.t = t then f p else p := by
  simp only [modifyPoint, List.mem_map]
  constructor
  · rintro ⟨p, hp, rfl⟩; exact ⟨p, hp, rfl⟩
  · rintro ⟨p, hp, rfl⟩; exact ⟨p, hp, rfl⟩

theorem times_modifyPoint {pts : List Point} {t : Int} {f : Point → Point} (hf : ∀ p, (f p).t = p.t) :
    (modifyPoint pts t f).map (·.t) = pts.map (·.t) := by
  simp only [modifyPoint, List.map_map]
  apply List.map_congr_left
  intro p _
  simp only [Function.comp]
  split <;> simp [hf]

theorem lnk_modifyPoint {pts : List Point} {t : Int} {f : Point → Point}
    (hf : ∀ p, (f p).t = p.t ∧ (f p).prev = p.prev ∧ (f p).next = p.next) :
    (modifyPoint pts t f).map (fun p => (p.t, p.prev, p.next)) = pts.map (fun p => (p.t, p.prev, p.next)) := by
  simp only [modifyPoint, List.map_map]
  apply List.map_congr_left
  intro p _
  simp only [Function.comp]
  split <;> simp [hf]

-- ------------------------------------------------------------------ object records

def blank (o : ObjRef) : ObjSt := { ref := o, start := none, stop := none }

theorem getObj_def (objs : List ObjSt) (o : ObjRef) :
    getObj objs o = (objs.find? (fun e => e.ref == o)).getD (blank o) := by
  unfold getObj blank
  cases objs.find? (fun e => e.ref == o) <;> rfl

@[simp] theorem getObj_ref (objs : List ObjSt) (o : ObjRef) : (getObj objs o).ref = o := by
  rw [getObj_def]
  cases h : objs.find? (fun e => e.ref == o) with
  | none => rfl
  | some e =>
    have := List.find?_some h
    simpa using this

theorem getObj_of_not_mem {objs : List ObjSt} {o : ObjRef} (h : o ∉ objs.map (·.ref)) :
    getObj objs o = blank o := by
  rw [getObj_def]
  have : objs.find? (fun e => e.ref == o) = none := by
    rw [List.find?_eq_none]
    intro e he hc
    apply h
    simp only [beq_iff_eq] at hc
    exact List.mem_map.mpr ⟨e, he, hc⟩
  rw [this]; rfl

theorem getObj_mem_or_blank (objs : List ObjSt) (o : ObjRef) :
    (getObj objs o ∈ objs ∧ o ∈ objs.map (·.ref)) ∨ (getObj objs o = blank o ∧ o ∉ objs.map (·.ref)) := by
  by_cases h : o ∈ objs.map (·.ref)
  · left
    refine ⟨?_, h⟩
    rw [getObj_def]
    cases hf : objs.find? (fun e => e.ref == o) with
    | none =>
      rw [List.find?_eq_none] at hf
      obtain ⟨e, he, rfl⟩ := List.mem_map.mp h
      have := hf e he
      simp at this
    | some e => exact List.mem_of_find?_eq_some hf
  · right
    exact ⟨getObj_of_not_mem h, h⟩

theorem getObj_of_mem {objs : List ObjSt} (hn : (objs.map (·.ref)).Nodup) {e : ObjSt} (he : e ∈ objs) :
    getObj objs e.ref = e := by
  induction objs with
  | nil => cases he
  | cons a r ih =>
    simp only [List.map_cons, List.nodup_cons] at hn
    rw [getObj_def]
    rcases List.mem_cons.mp he with rfl | he'
    · simp
    · have hne : a.ref ≠ e.ref := fun hc => hn.1 (hc ▸ List.mem_map_of_mem he')
      have : (a :: r).find? (fun x => x.ref == e.ref) = r.find? (fun x => x.ref == e.ref) := by
        simp [List.find?_cons, hne]
      rw [this, ← getObj_def]
      exact ih hn.2 he'

theorem mem_setObj {objs : List ObjSt} (hn : (objs.map (·.ref)).Nodup) {o : ObjRef} {f : ObjSt → ObjSt}
    {e' : ObjSt} :
    e' ∈ setObj objs o f ↔ (e' ∈ objs ∧ e'.ref ≠ o) ∨ e' = f (getObj objs o) := by
  unfold setObj
  by_cases h : o ∈ objs.map (·.ref)
  · have hany : objs.any (fun e => e.ref == o) = true := by
      obtain ⟨e, he, rfl⟩ := List.mem_map.mp h
      exact List.any_eq_true.mpr ⟨e, he, by simp⟩
    simp only [hany, if_true, List.mem_map]
    constructor
    · rintro ⟨e, he, rfl⟩
      by_cases hr : e.ref = o
      · right
        subst hr
        simp [getObj_of_mem hn he]
      · left
        simp [hr, he]
    · rintro (⟨he, hr⟩ | rfl)
      · exact ⟨e', he, by simp [hr]⟩
      · rcases getObj_mem_or_blank objs o with ⟨hm, _⟩ | ⟨_, hnm⟩
        · exact ⟨getObj objs o, hm, by simp⟩
        · exact absurd h hnm
  · have hany : objs.any (fun e => e.ref == o) = false := by
      rw [List.any_eq_false]
      intro e he hc
      simp only [beq_iff_eq] at hc
      exact h (List.mem_map.mpr ⟨e, he, hc⟩)
    simp only [hany, Bool.false_eq_true, if_false, List.mem_append, List.mem_singleton]
    rw [getObj_of_not_mem h]
    constructor
    · rintro (he | rfl)
      · left
        exact ⟨he, fun hc => h (List.mem_map.mpr ⟨e', he, hc⟩)⟩
      · right; rfl
    · rintro (⟨he, _⟩ | rfl)
      · exact Or.inl he
      · right; rfl

theorem refs_setObj {objs : List ObjSt} {o : ObjRef} {f : ObjSt → ObjSt} (hf : ∀ e, (f e).ref = e.ref) :
    (setObj objs o f).map (·.ref) = if o ∈ objs.map (·.ref) then objs.map (·.ref) else objs.map (·.ref) ++ [o] := by
  unfold setObj
  by_cases h : o ∈ objs.map (·.ref)
  · have hany : objs.any (fun e => e.ref == o) = true := by
      obtain ⟨e, he, rfl⟩ := List.mem_map.mp h
      exact List.any_eq_true.mpr ⟨e, he, by simp⟩
    simp only [hany, if_true, h, List.map_map]
    apply List.map_congr_left
    intro e _
    simp only [Function.comp]
    split <;> simp [hf]
  · have hany : objs.any (fun e => e.ref == o) = false := by
      rw [List.any_eq_false]
      intro e he hc
      simp only [beq_iff_eq] at hc
      exact h (List.mem_map.mpr ⟨e, he, hc⟩)
    simp [hany, h, hf]

theorem nodup_refs_setObj {objs : List ObjSt} (hn : (objs.map (·.ref)).Nodup) {o : ObjRef} {f : ObjSt → ObjSt}
    (hf : ∀ e, (f e).ref = e.ref) : ((setObj objs o f).map (·.ref)).Nodup := by
  rw [refs_setObj hf]
  split
  · exact hn
  · rename_i h
    rw [List.nodup_append]
    refine ⟨hn, by simp, ?_⟩
    intro a ha b hb
    simp at hb
    subst hb
    intro e
    subst e
    exact h ha

theorem mem_refs_setObj {objs : List ObjSt} {o x : ObjRef} {f : ObjSt → ObjSt} (hf : ∀ e, (f e).ref = e.ref) :
    x ∈ (setObj objs o f).map (·.ref) ↔ x ∈ objs.map (·.ref) ∨ x = o := by
  rw [refs_setObj hf]
  split
  · rename_i h
    constructor
    · exact Or.inl
    · rintro (h' | rfl)
      · exact h'
      · exact h
  · simp

theorem getObj_setObj_same {objs : List ObjSt} (hn : (objs.map (·.ref)).Nodup) {o : ObjRef} {f : ObjSt → ObjSt}
    (hf : ∀ e, (f e).ref = e.ref) : getObj (setObj objs o f) o = f (getObj objs o) := by
  have hm : f (getObj objs o) ∈ setObj objs o f := (mem_setObj hn).mpr (Or.inr rfl)
  have := getObj_of_mem (nodup_refs_setObj hn hf) hm
  simpa [hf] using this

theorem getObj_setObj_other {objs : List ObjSt} (hn : (objs.map (·.ref)).Nodup) {o o' : ObjRef} {f : ObjSt → ObjSt}
    (hf : ∀ e, (f e).ref = e.ref) (hne : o' ≠ o) : getObj (setObj objs o f) o' = getObj objs o' := by
  rcases getObj_mem_or_blank objs o' with ⟨hm, _⟩ | ⟨hb, hnm⟩
  · have hm' : getObj objs o' ∈ setObj objs o f := (mem_setObj hn).mpr (Or.inl ⟨hm, by simpa using hne⟩)
    have := getObj_of_mem (nodup_refs_setObj hn hf) hm'
    simpa using this
  · rw [hb]
    apply getObj_of_not_mem
    rw [mem_refs_setObj hf]
    rintro (h | h)
    · exact hnm h
    · exact hne h

end TL
