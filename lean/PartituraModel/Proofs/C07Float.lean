/-
C07 — the binary64 step inside `'%.kf'`: `toBinary64` is within relative error 2^-53 of its argument, hence a
k-decimal number `n / 10^k` with `n < 2^52` is printed by `encFix k` as exactly its own numeral.
-/
import PartituraModel.Model.MatchCodec
import PartituraModel.Proofs.Round
import PartituraModel.Proofs.C07Codec
import Mathlib.Tactic.Linarith
import Mathlib.Tactic.FieldSimp
import Mathlib.Tactic.Positivity
import Mathlib.Tactic.Ring
import Mathlib.Tactic.Push
import Mathlib.Tactic.NormNum
import Mathlib.Algebra.Order.Field.Rat
import Mathlib.Algebra.Order.Field.Power
import Mathlib.Algebra.Order.Ring.Abs

open Model Model.MatchCodec Round

namespace C07Float

theorem pow2_eq (e : Int) : pow2 e = (2 : ℚ) ^ e := by
  unfold pow2
  split
  · rename_i h
    have : ((e.toNat : ℕ) : ℤ) = e := Int.toNat_of_nonneg h
    push_cast
    rw [← zpow_natCast, this]
  · rename_i h
    have hn : (((-e).toNat : ℕ) : ℤ) = -e := Int.toNat_of_nonneg (by omega)
    push_cast
    rw [← zpow_natCast, hn, zpow_neg, one_div, inv_inv]

theorem pow2_pos (e : Int) : 0 < pow2 e := by
  rw [pow2_eq]; positivity

theorem pow2_succ (e : Int) : pow2 (e + 1) = pow2 e * 2 := by
  rw [pow2_eq, pow2_eq, zpow_add_one₀ (two_ne_zero)]

theorem pow2_pred (e : Int) : pow2 (e - 1) = pow2 e / 2 := by
  rw [pow2_eq, pow2_eq, zpow_sub_one₀ (two_ne_zero), div_eq_mul_inv]

/-- the exponent `toBinary64` settles on for a positive `a`, from the first estimate `e0` -/
def normExp (a : ℚ) (e0 : ℤ) : ℤ :=
  let lo : ℚ := ((2 ^ 52 : ℕ) : ℚ)
  let hi : ℚ := ((2 ^ 53 : ℕ) : ℚ)
  let e1 := if a / pow2 e0 < lo then e0 - 1 else e0
  let e2 := if hi ≤ a / pow2 e1 then e1 + 1 else e1
  let e3 := if hi ≤ a / pow2 e2 then e2 + 1 else e2
  e3

theorem step_up (a : ℚ) (e : ℤ) (h : ((2 ^ 52 : ℕ) : ℚ) ≤ a / pow2 e) :
    ((2 ^ 52 : ℕ) : ℚ) ≤ a / pow2 (if ((2 ^ 53 : ℕ) : ℚ) ≤ a / pow2 e then e + 1 else e) := by
  split
  · rename_i hh
    rw [pow2_succ]
    have hp := pow2_pos e
    rw [div_mul_eq_div_div]
    have : ((2 ^ 53 : ℕ) : ℚ) = ((2 ^ 52 : ℕ) : ℚ) * 2 := by norm_num
    rw [this] at hh
    linarith
  · exact h

theorem normExp_ge (a : ℚ) (e0 : ℤ) (h : (2 : ℚ) ^ 51 < a / pow2 e0) :
    ((2 ^ 52 : ℕ) : ℚ) ≤ a / pow2 (normExp a e0) := by
  unfold normExp
  simp only
  apply step_up
  apply step_up
  split
  · rw [pow2_pred]
    have hp := pow2_pos e0
    rw [div_div_eq_mul_div, mul_div_assoc]
    have : ((2 ^ 52 : ℕ) : ℚ) = (2 : ℚ) ^ 51 * 2 := by norm_num
    rw [this]
    have h2 : a * (2 / pow2 e0) = a / pow2 e0 * 2 := by ring
    rw [h2]
    linarith
  · rename_i hh
    push_neg at hh
    exact hh

/-- first estimate of the exponent: the quotient lies above 2^51 -/
theorem bracket (a : ℚ) (ha : 0 < a) :
    (2 : ℚ) ^ 51 < a / pow2 ((Nat.log2 a.num.toNat : ℤ) - (Nat.log2 a.den : ℤ) - 52) := by
  have hnum : 0 < a.num := Rat.num_pos.mpr ha
  have hN : ((a.num.toNat : ℕ) : ℤ) = a.num := Int.toNat_of_nonneg (le_of_lt hnum)
  have hN0 : a.num.toNat ≠ 0 := by
    intro e
    rw [e] at hN
    simp at hN
    omega
  have hD0 : a.den ≠ 0 := a.den_nz
  have h1 : 2 ^ Nat.log2 a.num.toNat ≤ a.num.toNat := Nat.log2_self_le hN0
  have h2 : a.den < 2 ^ (Nat.log2 a.den + 1) := Nat.lt_log2_self
  have h1q : (2 : ℚ) ^ (Nat.log2 a.num.toNat) ≤ (a.num.toNat : ℚ) := by exact_mod_cast h1
  have h2q : (a.den : ℚ) < (2 : ℚ) ^ (Nat.log2 a.den + 1) := by exact_mod_cast h2
  have haq : a = (a.num.toNat : ℚ) / (a.den : ℚ) := by
    have hcast : ((a.num.toNat : ℕ) : ℚ) = ((a.num : ℤ) : ℚ) := by
      have : ((a.num.toNat : ℕ) : ℚ) = (((a.num.toNat : ℕ) : ℤ) : ℚ) := by push_cast; rfl
      rw [this, hN]
    rw [hcast]
    exact (Rat.num_div_den a).symm
  set N := a.num.toNat with hNdef
  set D := a.den with hDdef
  have hDpos : (0 : ℚ) < (D : ℚ) := by
    have : 0 < D := Nat.pos_of_ne_zero hD0
    exact_mod_cast this
  rw [pow2_eq]
  have hz : (2 : ℚ) ^ ((Nat.log2 N : ℤ) - (Nat.log2 D : ℤ) - 52)
      = (2 : ℚ) ^ (Nat.log2 N) / ((2 : ℚ) ^ (Nat.log2 D) * (2 : ℚ) ^ 52) := by
    rw [zpow_sub₀ (two_ne_zero), zpow_sub₀ (two_ne_zero), zpow_natCast, zpow_natCast]
    rw [div_div]
    norm_num
  rw [hz]
  have hpN : (0 : ℚ) < (2 : ℚ) ^ (Nat.log2 N) := by positivity
  have hpD : (0 : ℚ) < (2 : ℚ) ^ (Nat.log2 D) := by positivity
  rw [div_div_eq_mul_div, lt_div_iff₀ hpN]
  rw [haq]
  have h3 : (N : ℚ) / (D : ℚ) * ((2 : ℚ) ^ (Nat.log2 D) * (2 : ℚ) ^ 52)
      = (N : ℚ) * ((2 : ℚ) ^ (Nat.log2 D) * (2 : ℚ) ^ 52) / D := by ring
  rw [h3, lt_div_iff₀ hDpos]
  have h4 : (D : ℚ) < (2 : ℚ) ^ (Nat.log2 D) * 2 := by
    have := h2q
    rw [pow_succ] at this
    exact this
  calc (2 : ℚ) ^ 51 * (2 : ℚ) ^ (Nat.log2 N) * D
      < (2 : ℚ) ^ 51 * (2 : ℚ) ^ (Nat.log2 N) * ((2 : ℚ) ^ (Nat.log2 D) * 2) := by
        apply mul_lt_mul_of_pos_left h4
        positivity
    _ = (2 : ℚ) ^ (Nat.log2 N) * ((2 : ℚ) ^ (Nat.log2 D) * (2 : ℚ) ^ 52) := by ring
    _ ≤ (N : ℚ) * ((2 : ℚ) ^ (Nat.log2 D) * (2 : ℚ) ^ 52) := by
        apply mul_le_mul_of_nonneg_right h1q
        positivity

/-- the binary64 value of a positive rational: mantissa times power of two -/
def tbPos (a : ℚ) : ℚ :=
  let E := normExp a ((Nat.log2 a.num.toNat : ℤ) - (Nat.log2 a.den : ℤ) - 52)
  ((roundHalfEven (a / pow2 E) : ℤ) : ℚ) * pow2 E

theorem toBinary64_pos (q : ℚ) (h : 0 < q) : toBinary64 q = tbPos q := by
  have h0 : q ≠ 0 := ne_of_gt h
  have hn : ¬ q < 0 := not_lt.mpr (le_of_lt h)
  unfold toBinary64 tbPos normExp
  simp only [h0, hn, if_false]

theorem toBinary64_neg (q : ℚ) (h : q < 0) : toBinary64 q = -tbPos (-q) := by
  have h0 : q ≠ 0 := ne_of_lt h
  unfold toBinary64 tbPos normExp
  simp only [h0, h, if_false, if_true]

/-- **correct rounding**: the binary64 value is within relative error 2^-53 -/
theorem tbPos_close (a : ℚ) (ha : 0 < a) : |tbPos a - a| ≤ a / (2 : ℚ) ^ 53 := by
  unfold tbPos
  simp only
  set E := normExp a ((Nat.log2 a.num.toNat : ℤ) - (Nat.log2 a.den : ℤ) - 52) with hE
  have hge := normExp_ge a _ (bracket a ha)
  rw [← hE] at hge
  have hp := pow2_pos E
  have hclose := roundHalfEven_close (a / pow2 E)
  have e1 : ((roundHalfEven (a / pow2 E) : ℤ) : ℚ) * pow2 E - a
      = (((roundHalfEven (a / pow2 E) : ℤ) : ℚ) - a / pow2 E) * pow2 E := by
    field_simp
  rw [e1, abs_mul, abs_of_pos hp]
  have h52 : ((2 ^ 52 : ℕ) : ℚ) = (2 : ℚ) ^ 52 := by norm_num
  rw [h52, le_div_iff₀ hp] at hge
  calc |((roundHalfEven (a / pow2 E) : ℤ) : ℚ) - a / pow2 E| * pow2 E
      ≤ 1 / 2 * pow2 E := by
        apply mul_le_mul_of_nonneg_right hclose (le_of_lt hp)
    _ ≤ a / (2 : ℚ) ^ 53 := by
        rw [le_div_iff₀ (by positivity)]
        have : (1 : ℚ) / 2 * pow2 E * (2 : ℚ) ^ 53 = (2 : ℚ) ^ 52 * pow2 E := by ring
        rw [this]
        exact hge

theorem tbPos_pos (a : ℚ) (ha : 0 < a) : 0 < tbPos a := by
  have h := tbPos_close a ha
  have h2 := abs_le.mp h
  have : a / (2 : ℚ) ^ 53 < a := by
    rw [div_lt_iff₀ (by positivity)]
    have : (1 : ℚ) < (2 : ℚ) ^ 53 := by norm_num
    nlinarith
  linarith [h2.1]

theorem roundHalfEven_near (y : ℚ) (n : ℤ) (h : |y - n| < 1 / 2) : roundHalfEven y = n := by
  have hc := roundHalfEven_close y
  have h1 : |((roundHalfEven y : ℤ) : ℚ) - (n : ℚ)| < 1 := by
    have : ((roundHalfEven y : ℤ) : ℚ) - (n : ℚ) = (((roundHalfEven y : ℤ) : ℚ) - y) + (y - n) := by ring
    rw [this]
    calc |(((roundHalfEven y : ℤ) : ℚ) - y) + (y - n)| ≤ |((roundHalfEven y : ℤ) : ℚ) - y| + |y - n| := abs_add_le _ _
      _ < 1 / 2 + 1 / 2 := by linarith
      _ = 1 := by norm_num
  have h2 : |roundHalfEven y - n| < 1 := by
    have : ((|roundHalfEven y - n| : ℤ) : ℚ) < 1 := by
      push_cast
      exact h1
    exact_mod_cast this
  have := Int.abs_lt_one_iff.mp h2
  omega

/-- a positive k-decimal number with fewer than 2^52 units in the last place is printed as itself -/
theorem round_fixed (k n : ℕ) (hn : 0 < n) (hb : n < 2 ^ 52) :
    roundHalfEven (tbPos ((n : ℚ) / (pow10 k : ℚ)) * (pow10 k : ℚ)) = (n : ℤ) := by
  have hk : (0 : ℚ) < (pow10 k : ℚ) := by
    unfold pow10
    positivity
  have hq : (0 : ℚ) < (n : ℚ) / (pow10 k : ℚ) := by
    apply div_pos _ hk
    exact_mod_cast hn
  have hc := tbPos_close _ hq
  apply roundHalfEven_near
  have e : tbPos ((n : ℚ) / (pow10 k : ℚ)) * (pow10 k : ℚ) - ((n : ℤ) : ℚ)
      = (tbPos ((n : ℚ) / (pow10 k : ℚ)) - (n : ℚ) / (pow10 k : ℚ)) * (pow10 k : ℚ) := by
    push_cast
    field_simp
  rw [e, abs_mul, abs_of_pos hk]
  have hnq : (n : ℚ) < (2 : ℚ) ^ 52 := by exact_mod_cast hb
  calc |tbPos ((n : ℚ) / (pow10 k : ℚ)) - (n : ℚ) / (pow10 k : ℚ)| * (pow10 k : ℚ)
      ≤ (n : ℚ) / (pow10 k : ℚ) / (2 : ℚ) ^ 53 * (pow10 k : ℚ) := by
        apply mul_le_mul_of_nonneg_right hc (le_of_lt hk)
    _ = (n : ℚ) / (2 : ℚ) ^ 53 := by field_simp
    _ < 1 / 2 := by
        rw [div_lt_iff₀ (by positivity)]
        have : (1 : ℚ) / 2 * (2 : ℚ) ^ 53 = (2 : ℚ) ^ 52 := by norm_num
        rw [this]
        exact hnq

/-- **`'%.kf'` of a k-decimal number**: the float nearest to `±n / 10^k` (`n < 2^52`) is printed as the
    numeral `±n / 10^k` itself -/
theorem encFix_fixed (k n : ℕ) (neg : Bool) (hb : n < 2 ^ 52) (hz : neg = true → 0 < n) :
    encFix k (if neg then -((n : ℚ) / (pow10 k : ℚ)) else (n : ℚ) / (pow10 k : ℚ)) = printFixed k neg n := by
  have hk : (0 : ℚ) < (pow10 k : ℚ) := by
    unfold pow10
    positivity
  by_cases hn : n = 0
  · subst hn
    have : neg = false := by
      cases neg with
      | false => rfl
      | true => exact absurd (hz rfl) (by simp)
    subst this
    simp only [Bool.false_eq_true, if_false, Nat.cast_zero, zero_div]
    unfold encFix toBinary64
    simp [roundHalfEven_int 0]
    have : roundHalfEven (0 : ℚ) = 0 := by
      have := roundHalfEven_int 0
      simpa using this
    simp [this]
  · have hnpos : 0 < n := Nat.pos_of_ne_zero hn
    have hq : (0 : ℚ) < (n : ℚ) / (pow10 k : ℚ) := by
      apply div_pos _ hk
      exact_mod_cast hnpos
    have hr := round_fixed k n hnpos hb
    have htp := tbPos_pos _ hq
    cases neg with
    | false =>
      simp only [Bool.false_eq_true, if_false]
      unfold encFix
      simp only [toBinary64_pos _ hq]
      have hnl : ¬ tbPos ((n : ℚ) / (pow10 k : ℚ)) < 0 := not_lt.mpr (le_of_lt htp)
      simp only [hnl, if_false, hr, decide_false, Int.toNat_natCast]
    | true =>
      simp only [if_true]
      unfold encFix
      have hneg : -((n : ℚ) / (pow10 k : ℚ)) < 0 := by linarith
      simp only [toBinary64_neg _ hneg, neg_neg]
      have hl : -tbPos ((n : ℚ) / (pow10 k : ℚ)) < 0 := by linarith
      simp only [hl, if_true, neg_neg, hr, decide_true, Int.toNat_natCast]

-- ---------------------------------------------------------------- repr (the shortest decimal, carried exactly)

theorem decimalsOf_spec (a : ℚ) : ∀ (fuel d d' : ℕ), decimalsOf a fuel d = some d' → pow10 d' % a.den = 0 := by
  intro fuel
  induction fuel with
  | zero =>
    intro d d' h
    simp only [decimalsOf] at h
    split at h
    · rename_i hm; injection h with h; subst h; exact hm
    · simp at h
  | succ f ih =>
    intro d d' h
    simp only [decimalsOf] at h
    split at h
    · rename_i hm; injection h with h; subst h; exact hm
    · exact ih _ _ h

/-- a non-negative rational whose denominator divides `10^d`, times `10^d`, is the natural number its
    numerator says -/
theorem scaled_num (a : ℚ) (ha : 0 ≤ a) (d : ℕ) (hd : pow10 d % a.den = 0) :
    (((a * (pow10 d : ℚ)).num.toNat : ℕ) : ℚ) = a * (pow10 d : ℚ) := by
  obtain ⟨m, hm⟩ := Nat.dvd_of_mod_eq_zero hd
  have hnum : 0 ≤ a.num := Rat.num_nonneg.mpr ha
  have hN : ((a.num.toNat : ℕ) : ℤ) = a.num := Int.toNat_of_nonneg hnum
  have h2 : ((a.num.toNat : ℕ) : ℚ) = (a.num : ℚ) := by
    have : ((a.num.toNat : ℕ) : ℚ) = (((a.num.toNat : ℕ) : ℤ) : ℚ) := by push_cast; rfl
    rw [this, hN]
  have hval : a * (pow10 d : ℚ) = ((a.num.toNat * m : ℕ) : ℚ) := by
    rw [hm]
    push_cast
    rw [h2, ← mul_assoc, Rat.mul_den_eq_num]
  rw [hval]
  have : ((a.num.toNat * m : ℕ) : ℚ).num = ((a.num.toNat * m : ℕ) : ℤ) := Rat.num_natCast _
  rw [this, Int.toNat_natCast]

theorem encRepr_helper (a : ℚ) (ha : 0 ≤ a) (neg : Bool) (d : ℕ) (hd : decimalsOf a 25 0 = some d) :
    parseDecimal (printFixed (if d = 0 then 1 else d) neg
        (if d = 0 then (a * (pow10 d : ℚ)).num.toNat * 10 else (a * (pow10 d : ℚ)).num.toNat))
      = some (if neg then -a else a) := by
  have hmod := decimalsOf_spec _ _ _ _ hd
  have hsc := scaled_num a ha d hmod
  by_cases hd0 : d = 0
  · subst hd0
    simp only [if_true]
    rw [C07Codec.parseDecimal_printFixed 1 _ _ (le_refl _)]
    have e : (((a * (pow10 0 : ℚ)).num.toNat * 10 : ℕ) : ℚ) / (pow10 1 : ℚ) = a := by
      push_cast
      rw [hsc]
      simp [pow10]
    rw [e]
  · simp only [hd0, if_false]
    have hk : 1 ≤ d := Nat.pos_of_ne_zero hd0
    rw [C07Codec.parseDecimal_printFixed d _ _ hk]
    have hp : (0 : ℚ) < (pow10 d : ℚ) := by unfold pow10; positivity
    have e : (((a * (pow10 d : ℚ)).num.toNat : ℕ) : ℚ) / (pow10 d : ℚ) = a := by
      rw [hsc]
      field_simp
    rw [e]

/-- the text `repr` writes for a decimal (positional range, at most 25 places) is read back as that decimal -/
theorem encRepr_parse (q : ℚ) (text : List Char) (h : encRepr q = some text) : parseDecimal text = some q := by
  by_cases hq : q < 0
  · unfold encRepr at h
    simp only [hq, if_true] at h
    split at h
    · simp at h
    · cases hdec : decimalsOf (-q) 25 0 with
      | none => simp [hdec] at h
      | some d =>
        simp only [hdec, Option.some.injEq] at h
        have := encRepr_helper (-q) (by linarith) true d hdec
        rw [← h]
        simpa using this
  · unfold encRepr at h
    simp only [hq, if_false] at h
    split at h
    · simp at h
    · cases hdec : decimalsOf q 25 0 with
      | none => simp [hdec] at h
      | some d =>
        simp only [hdec, Option.some.injEq] at h
        have := encRepr_helper q (by linarith) false d hdec
        rw [← h]
        simpa using this

end C07Float
