/-
C01 helper lemmas, round 6: the FULL invariant along valid histories of the round-6 machine.
-/
import PartituraModel.Proofs.C01Y

namespace TL

/-- the arguments under which the round-6 machine keeps the FULL invariant: `ValidX` for the operations of
round 5; a Tuplet setter only while the tuplet is registered where its previous note starts (ends) — the way
the importers use it -/
def tupletOk (s : Part) (sd : Side) (tup : ObjRef) (old : Option ObjRef) : Prop :=
  match old with
  | none => True
  | some o =>
    match (getObj s.objs o).at sd with
    | none => True
    | some t => (getObj s.objs tup).at sd = some t

instance (s : Part) (sd : Side) (tup : ObjRef) (old : Option ObjRef) : Decidable (tupletOk s sd tup old) := by
  unfold tupletOk
  split
  · infer_instance
  · split <;> infer_instance

theorem tupletOk_iff (s : Part) (sd : Side) (tup : ObjRef) (old : Option ObjRef) :
    tupletOk s sd tup old
      ↔ ∀ o, old = some o → ∀ t, (getObj s.objs o).at sd = some t → (getObj s.objs tup).at sd = some t := by
  unfold tupletOk
  cases old with
  | none => simp
  | some o =>
    cases h : (getObj s.objs o).at sd with
    | none => simp [h]
    | some t => simp [h]

def ValidY (y : YPart) : OpY → Prop
  | .base op => ValidX y.c op
  | .tupletStart tup _ => tupletOk y.c.part .start tup (assocGet y.tupStart tup)
  | .tupletEnd tup _ => tupletOk y.c.part .stop tup (assocGet y.tupEnd tup)
  | _ => True

instance (y : YPart) (op : OpY) : Decidable (ValidY y op) := by
  cases op <;> simp only [ValidY] <;> infer_instance

def ValidHistoryY (staff : ObjRef → Option Nat) (y : YPart) : List OpY → Prop
  | [] => True
  | op :: ops => ValidY y op ∧ ValidHistoryY staff (nextY staff y op) ops

instance (staff : ObjRef → Option Nat) : (y : YPart) → (ops : List OpY) → Decidable (ValidHistoryY staff y ops)
  | _, [] => isTrue trivial
  | y, op :: ops =>
    have := instDecidableValidHistoryY staff (nextY staff y op) ops
    inferInstanceAs (Decidable (ValidY y op ∧ ValidHistoryY staff (nextY staff y op) ops))

theorem tupletDetach_inv {s : Part} (hI : Inv s) (sd : Side) (tup : ObjRef) (old note : Option ObjRef)
    (h : ∀ o, old = some o → ∀ t, (getObj s.objs o).at sd = some t → (getObj s.objs tup).at sd = some t) :
    Inv (tupletDetach s sd tup old note) := by
  rcases tupletDetach_cases s sd tup old note with he | ⟨n, o, t, -, ho, -, hat, he⟩
  · rw [he]; exact hI
  · rw [he]; exact tpUnregister_inv hI (h o ho t hat)

theorem stepY_cacheOk {staff : ObjRef → Option Nat} {y y' : YPart} {out : OutY} (hc : CacheOk y.c) {op : OpY}
    (he : stepY staff y op = .ok (y', out)) : CacheOk y'.c := by
  cases op with
  | base op =>
    simp only [stepY] at he
    cases hs : stepX y.c op with
    | error e => rw [hs] at he; cases he
    | ok r =>
      rw [hs] at he
      simp only [Except.map, Except.ok.injEq, Prod.mk.injEq] at he
      obtain ⟨rfl, -⟩ := he
      obtain ⟨c', o'⟩ := r
      exact stepX_cacheOk hc hs
  | tupletStart tup note =>
    simp only [stepY, Except.ok.injEq, Prod.mk.injEq] at he
    obtain ⟨rfl, -⟩ := he
    unfold CacheOk tupletSetStart
    simp only [tupletDetach_qtab]
    exact hc
  | tupletEnd tup note =>
    simp only [stepY, Except.ok.injEq, Prod.mk.injEq] at he
    obtain ⟨rfl, -⟩ := he
    unfold CacheOk tupletSetEnd
    simp only [tupletDetach_qtab]
    exact hc
  | view name =>
    simp only [stepY, Except.ok.injEq, Prod.mk.injEq] at he
    obtain ⟨rfl, -⟩ := he; exact hc
  | staves =>
    simp only [stepY, Except.ok.injEq, Prod.mk.injEq] at he
    obtain ⟨rfl, -⟩ := he
    unfold readStaves
    split <;> exact hc
  | duration o =>
    simp only [stepY, Except.ok.injEq, Prod.mk.injEq] at he
    obtain ⟨rfl, -⟩ := he; exact hc

theorem stepY_inv {staff : ObjRef → Option Nat} {y y' : YPart} {out : OutY} (hI : Inv y.c.part) (hc : CacheOk y.c)
    {op : OpY} (hv : ValidY y op) (he : stepY staff y op = .ok (y', out)) : Inv y'.c.part := by
  cases op with
  | base op =>
    simp only [stepY] at he
    cases hs : stepX y.c op with
    | error e => rw [hs] at he; cases he
    | ok r =>
      rw [hs] at he
      simp only [Except.map, Except.ok.injEq, Prod.mk.injEq] at he
      obtain ⟨rfl, -⟩ := he
      obtain ⟨c', o'⟩ := r
      exact stepX_inv hI hc hv hs
  | tupletStart tup note =>
    simp only [stepY, Except.ok.injEq, Prod.mk.injEq] at he
    obtain ⟨rfl, -⟩ := he
    exact tupletDetach_inv hI .start tup _ note ((tupletOk_iff _ _ _ _).mp hv)
  | tupletEnd tup note =>
    simp only [stepY, Except.ok.injEq, Prod.mk.injEq] at he
    obtain ⟨rfl, -⟩ := he
    exact tupletDetach_inv hI .stop tup _ note ((tupletOk_iff _ _ _ _).mp hv)
  | view name =>
    simp only [stepY, Except.ok.injEq, Prod.mk.injEq] at he
    obtain ⟨rfl, -⟩ := he; exact hI
  | staves =>
    simp only [stepY, Except.ok.injEq, Prod.mk.injEq] at he
    obtain ⟨rfl, -⟩ := he
    unfold readStaves
    split <;> exact hI
  | duration o =>
    simp only [stepY, Except.ok.injEq, Prod.mk.injEq] at he
    obtain ⟨rfl, -⟩ := he; exact hI

theorem runY_inv {staff : ObjRef → Option Nat} {y : YPart} (hI : Inv y.c.part) (hc : CacheOk y.c) (ops : List OpY)
    (hv : ValidHistoryY staff y ops) : Inv (runY staff y ops).c.part := by
  induction ops generalizing y with
  | nil => exact hI
  | cons op ops ih =>
    rw [runY_cons]
    have hI' : Inv (nextY staff y op).c.part ∧ CacheOk (nextY staff y op).c := by
      unfold nextY
      cases he : stepY staff y op with
      | error e => exact ⟨hI, hc⟩
      | ok r =>
        obtain ⟨y', out⟩ := r
        exact ⟨stepY_inv hI hc hv.1 he, stepY_cacheOk hc he⟩
    exact ih hI'.1 hI'.2 hv.2

end TL
