/-
C09 helper lemmas, part 11: termination of the path enumeration.  The class: segment tables in which every
segment offers its successor, preceded by at most one backward destination (what `add_segments` builds from
any set of repeats); the measure: the backward jumps not yet consumed, weighted by 2^position.
A table on which the enumeration does not terminate (da capo in the middle of a part).
-/
import PartituraModel.Proofs.C09LayoutChain
import PartituraModel.Proofs.C09Walk

namespace C09
open Model.Unfold

/-! ### the class -/

/-- every segment offers the next one (END for the last), possibly after ONE destination that is not ahead;
no awaiting destinations, no leap, no forced sequence -/
def RepForm (g : List Seg) : Prop :=
  ∀ i s, g[i]? = some s → s.await = [] ∧ s.ty ≠ .leapStart ∧
    (s.to = [nextDest g.length i] ∨ ∃ j, j ≤ i ∧ s.to = [.seg j, nextDest g.length i])

/-! ### weights -/

/-- S i = Σ_{i' < i} (W i' + 1) with W i = S i + 1, i.e. S i = 2^(i+1) - 2 -/
def tS : Nat → Nat
  | 0 => 0
  | i + 1 => 2 * tS i + 2

def tW (i : Nat) : Nat := tS i + 1

theorem tS_pow (i : Nat) : tS i + 2 = 2 ^ (i + 1) := by
  induction i with
  | zero => rfl
  | succ i ih => simp only [tS]; rw [Nat.pow_succ]; omega

/-- Σ_{i = lo}^{lo+k-1} (rem i * W i + 1) -/
def phiFrom (rem : Nat → Nat) : Nat → Nat → Nat
  | _, 0 => 0
  | lo, k + 1 => rem lo * tW lo + 1 + phiFrom rem (lo + 1) k

theorem phiFrom_congr (r1 r2 : Nat → Nat) : ∀ (k lo : Nat), (∀ i, lo ≤ i → r1 i = r2 i) →
    phiFrom r1 lo k = phiFrom r2 lo k := by
  intro k
  induction k with
  | zero => intro lo _; rfl
  | succ k ih =>
    intro lo h
    simp only [phiFrom]
    rw [h lo (Nat.le_refl _), ih (lo + 1) (fun i hi => h i (by omega))]

theorem phiFrom_le (rem : Nat → Nat) (hrem : ∀ i, rem i ≤ 1) : ∀ (k lo : Nat),
    phiFrom rem lo k + tS lo ≤ tS (lo + k) := by
  intro k
  induction k with
  | zero => intro lo; simp [phiFrom]
  | succ k ih =>
    intro lo
    simp only [phiFrom]
    have h1 := ih (lo + 1)
    have h2 := hrem lo
    have e : lo + 1 + k = lo + (k + 1) := by omega
    rw [e] at h1
    simp only [tS, tW] at h1 ⊢
    have : rem lo * (tS lo + 1) ≤ tS lo + 1 := by
      have := Nat.mul_le_mul_right (tS lo + 1) h2
      simpa using this
    omega

theorem phiFrom_split (rem : Nat → Nat) : ∀ (a lo b : Nat),
    phiFrom rem lo (a + b) = phiFrom rem lo a + phiFrom rem (lo + a) b := by
  intro a
  induction a with
  | zero => intro lo b; simp [phiFrom]
  | succ a ih =>
    intro lo b
    have e : a + 1 + b = (a + b) + 1 := by omega
    rw [e]
    simp only [phiFrom]
    rw [ih (lo + 1) b]
    have e2 : lo + 1 + a = lo + (a + 1) := by omega
    rw [e2]
    omega

/-! ### reading the destinations -/

theorem lastIndex_one (a : Dest) (used : List Dest) (x : Dest) (hl : used.getLast? = some x) (hx : x = a) :
    lastIndex [a] used = some (some 0) := by
  subst hx
  unfold lastIndex
  rw [hl]
  simp [positions, Nat.mod_one]

theorem lastIndex_two_fst (a b : Dest) (hab : a ≠ b) (used : List Dest) (hl : used.getLast? = some a) :
    lastIndex [a, b] used = some (some 0) := by
  unfold lastIndex
  rw [hl]
  have hba : ¬ b = a := fun h => hab h.symm
  simp [positions, hba, Nat.mod_one]

theorem lastIndex_two_snd (a b : Dest) (hab : a ≠ b) (used : List Dest) (hl : used.getLast? = some b) :
    lastIndex [a, b] used = some (some 1) := by
  unfold lastIndex
  rw [hl]
  simp [positions, hab, Nat.mod_one]

/-- the backward jump of segment `i` is still to be taken in the current round -/
def remAt (g : List Seg) (used : Nat → List Dest) (i : Nat) : Nat :=
  match g[i]? with
  | some s => (match s.to with
    | [Dest.seg j, _] => if (used i).getLast? = some (.seg j) then 0 else 1
    | _ => 0)
  | none => 0

theorem remAt_le (g : List Seg) (used : Nat → List Dest) (i : Nat) : remAt g used i ≤ 1 := by
  unfold remAt
  split
  · split
    · split <;> omega
    · omega
  · omega

theorem remAt_unf (g : List Seg) (used : Nat → List Dest) (i : Nat) (s : Seg) (hs : g[i]? = some s) :
    remAt g used i = (match s.to with
      | [Dest.seg j, _] => if (used i).getLast? = some (.seg j) then 0 else 1
      | _ => 0) := by
  unfold remAt; rw [hs]

theorem dests_unf (st : PState) (s : Seg) (hs : st.segs[st.cur]? = some s) :
    st.dests = (match lastIndex s.to (st.used st.cur) with
      | none => none
      | some li =>
        if st.noRepeats then s.to.getLast?.map fun d => [d]
        else if s.forceSeq || st.allRepeats then
          match li with
          | none => s.to.head?.map fun d => [d]
          | some k => if k + 1 < s.to.length then s.to[k + 1]?.map fun d => [d] else s.to.head?.map fun d => [d]
        else
          match li with
          | none => some s.to
          | some k => if k + 1 < s.to.length then some (s.to.drop (k + 1)) else some s.to) := by
  unfold PState.dests
  rw [hs]
  simp only []
  cases lastIndex s.to (st.used st.cur) with
  | none => rfl
  | some li => cases li <;> rfl

def phi (g : List Seg) (st : PState) : Nat := phiFrom (remAt g st.used) st.cur (g.length - st.cur)

/-- the state invariant: the table is `g`, the current segment exists, every used destination was offered -/
def TInv (g : List Seg) (st : PState) : Prop :=
  st.segs = g ∧ st.cur < g.length ∧ ∀ i d, d ∈ st.used i → ∃ s, g[i]? = some s ∧ d ∈ s.to

theorem nextDest_ne_seg (n i j : Nat) (hj : j ≤ i) : Dest.seg j ≠ nextDest n i := by
  unfold nextDest
  split
  · simp
  · intro h; injection h with h; omega

section term
variable (g : List Seg) (hg : RepForm g) (il : Bool)

include hg in
/-- destinations offered in a state of the class: each is END or an existing segment; a segment destination
decreases the measure -/
theorem rep_dests (st : PState) (hinv : TInv g st) :
    ∃ ds, st.dests = some ds ∧ ∀ d ∈ ds, d = .fin ∨
      ∃ j, d = .seg j ∧ st.jump il j = some (afterJump st j) ∧ TInv g (afterJump st j) ∧
        phi g (afterJump st j) < phi g st := by
  obtain ⟨hsegs, hcur, hused⟩ := hinv
  obtain ⟨s, hs⟩ : ∃ s, g[st.cur]? = some s := ⟨g[st.cur], List.getElem?_eq_getElem hcur⟩
  obtain ⟨haw, hty, hto⟩ := hg st.cur s hs
  have hs' : st.segs[st.cur]? = some s := by rw [hsegs]; exact hs
  -- a step to segment j (existing) keeps the invariant
  have hstep : ∀ j, j < g.length → Dest.seg j ∈ s.to →
      st.jump il j = some (afterJump st j) ∧ TInv g (afterJump st j) := by
    intro j hj hmem
    obtain ⟨sj, hsj⟩ : ∃ sj, g[j]? = some sj := ⟨g[j], List.getElem?_eq_getElem hj⟩
    refine ⟨jump_plain il st j sj s (by rw [hsegs]; exact hsj) hs' hty, hsegs, hj, ?_⟩
    intro i d hd
    simp only [afterJump] at hd
    by_cases hi : i = st.cur
    · simp only [hi, if_true, List.mem_append, List.mem_singleton] at hd
      rcases hd with hd | hd
      · exact hused _ d (by rw [hi]; exact hd)
      · subst hd; rw [hi]; exact ⟨s, hs, hmem⟩
    · simp only [hi, if_false] at hd
      exact hused i d hd
  -- measure after a forward step
  have hfwd : st.cur + 1 < g.length → phi g (afterJump st (st.cur + 1)) < phi g st := by
    intro hlt
    unfold phi
    have e : g.length - st.cur = (g.length - (st.cur + 1)) + 1 := by omega
    have ec : (afterJump st (st.cur + 1)).cur = st.cur + 1 := rfl
    rw [ec, e]
    simp only [phiFrom]
    rw [phiFrom_congr (remAt g (afterJump st (st.cur + 1)).used) (remAt g st.used) _ (st.cur + 1) (by
      intro i hi
      unfold remAt
      have : ¬ i = st.cur := by omega
      simp only [afterJump, this, if_false])]
    omega
  -- measure after the backward step from a segment with `to = [seg j, next]`, `j ≤ cur`, not yet taken
  have hback : ∀ j, j ≤ st.cur → s.to = [.seg j, nextDest g.length st.cur] →
      remAt g st.used st.cur = 1 → phi g (afterJump st j) < phi g st := by
    intro j hj hto' hrem
    unfold phi
    have ec : (afterJump st j).cur = j := rfl
    rw [ec]
    have e1 : g.length - j = (st.cur - j) + ((g.length - (st.cur + 1)) + 1) := by omega
    have e2 : g.length - st.cur = (g.length - (st.cur + 1)) + 1 := by omega
    rw [e1, e2, phiFrom_split]
    have ej : j + (st.cur - j) = st.cur := by omega
    rw [ej]
    simp only [phiFrom]
    have hrem' : remAt g (afterJump st j).used st.cur = 0 := by
      rw [remAt_unf g _ _ s hs, hto']
      simp [afterJump]
    rw [hrem', hrem]
    rw [phiFrom_congr (remAt g (afterJump st j).used) (remAt g st.used) _ (st.cur + 1) (by
      intro i hi
      unfold remAt
      have : ¬ i = st.cur := by omega
      simp only [afterJump, this, if_false])]
    have hle := phiFrom_le (remAt g (afterJump st j).used) (remAt_le g _) (st.cur - j) j
    rw [ej] at hle
    simp only [tW]
    omega
  have hnd : ∀ d, d = nextDest g.length st.cur → d = .fin ∨
      ∃ j, d = .seg j ∧ st.jump il j = some (afterJump st j) ∧ TInv g (afterJump st j) ∧
        phi g (afterJump st j) < phi g st := by
    intro d hd
    unfold nextDest at hd
    by_cases hl : st.cur + 1 = g.length
    · left; rw [hd, if_pos hl]
    · right
      rw [if_neg hl] at hd
      have hlt : st.cur + 1 < g.length := by omega
      have hm : Dest.seg (st.cur + 1) ∈ s.to := by
        rcases hto with h | ⟨j, _, h⟩
        · rw [h]; simp [nextDest, hl]
        · rw [h]; simp [nextDest, hl]
      obtain ⟨h1, h2⟩ := hstep (st.cur + 1) hlt hm
      exact ⟨st.cur + 1, hd, h1, h2, hfwd hlt⟩
  -- the last used destination, if any, is one of the list
  have hlast : ∀ x, (st.used st.cur).getLast? = some x → x ∈ s.to := by
    intro x hx
    obtain ⟨s', hs'', hm⟩ := hused st.cur x (List.mem_of_getLast? hx)
    rw [hs] at hs''
    simp only [Option.some.injEq] at hs''
    subst hs''
    exact hm
  rw [dests_unf st s hs']
  rcases hto with h1 | ⟨j, hj, h2⟩
  · -- only the successor
    have hli : ∃ li, lastIndex s.to (st.used st.cur) = some li := by
      cases hu : (st.used st.cur).getLast? with
      | none => exact ⟨none, by simp [lastIndex, hu]⟩
      | some x =>
        have := hlast x hu
        rw [h1] at this ⊢
        simp only [List.mem_singleton] at this
        exact ⟨some 0, lastIndex_one _ _ x hu this⟩
    obtain ⟨li, hli⟩ := hli
    rw [hli]
    refine ⟨[nextDest g.length st.cur], ?_, ?_⟩
    · simp only [h1]
      cases st.noRepeats <;> cases (s.forceSeq || st.allRepeats) <;> cases li <;> simp
    · intro d hd
      simp only [List.mem_singleton] at hd
      exact hnd d hd
  · -- a backward destination, then the successor
    have hne := nextDest_ne_seg g.length st.cur j hj
    cases hu : (st.used st.cur).getLast? with
    | none =>
      have hli : lastIndex s.to (st.used st.cur) = some none := by simp [lastIndex, hu]
      have hrem : remAt g st.used st.cur = 1 := by
        rw [remAt_unf g _ _ s hs, h2]; simp [hu]
      rw [hli]
      have hjlt : j < g.length := by omega
      obtain ⟨k1, k2⟩ := hstep j hjlt (by rw [h2]; simp)
      have hb := hback j hj h2 hrem
      cases hnr : st.noRepeats with
      | true =>
        refine ⟨[nextDest g.length st.cur], by simp [h2], ?_⟩
        intro d hd
        simp only [List.mem_singleton] at hd
        exact hnd d hd
      | false =>
        cases hall : (s.forceSeq || st.allRepeats) with
        | true =>
          refine ⟨[.seg j], by simp [h2], ?_⟩
          intro d hd
          simp only [List.mem_singleton] at hd
          exact Or.inr ⟨j, hd, k1, k2, hb⟩
        | false =>
          refine ⟨[.seg j, nextDest g.length st.cur], by simp [h2], ?_⟩
          intro d hd
          simp only [List.mem_cons, List.not_mem_nil, or_false] at hd
          rcases hd with hd | hd
          · exact Or.inr ⟨j, hd, k1, k2, hb⟩
          · exact hnd d hd
    | some x =>
      have hx := hlast x hu
      rw [h2] at hx
      simp only [List.mem_cons, List.not_mem_nil, or_false] at hx
      rcases hx with hx | hx
      · -- the backward jump was the last one used: only the successor is left
        subst hx
        have hli : lastIndex s.to (st.used st.cur) = some (some 0) := by
          rw [h2]; exact lastIndex_two_fst _ _ hne _ hu
        rw [hli]
        refine ⟨[nextDest g.length st.cur], ?_, ?_⟩
        · simp only [h2]
          cases st.noRepeats <;> cases (s.forceSeq || st.allRepeats) <;> simp
        · intro d hd
          simp only [List.mem_singleton] at hd
          exact hnd d hd
      · -- the successor was the last one used: a new round
        subst hx
        have hli : lastIndex s.to (st.used st.cur) = some (some 1) := by
          rw [h2]; exact lastIndex_two_snd _ _ hne _ hu
        have hrem : remAt g st.used st.cur = 1 := by
          rw [remAt_unf g _ _ s hs, h2]
          have : ¬ (nextDest g.length st.cur = Dest.seg j) := fun h => hne h.symm
          simp [hu, this]
        rw [hli]
        have hjlt : j < g.length := by omega
        obtain ⟨k1, k2⟩ := hstep j hjlt (by rw [h2]; simp)
        have hb := hback j hj h2 hrem
        cases hnr : st.noRepeats with
        | true =>
          refine ⟨[nextDest g.length st.cur], by simp [h2], ?_⟩
          intro d hd
          simp only [List.mem_singleton] at hd
          exact hnd d hd
        | false =>
          cases hall : (s.forceSeq || st.allRepeats) with
          | true =>
            refine ⟨[.seg j], by simp [h2], ?_⟩
            intro d hd
            simp only [List.mem_singleton] at hd
            exact Or.inr ⟨j, hd, k1, k2, hb⟩
          | false =>
            refine ⟨[.seg j, nextDest g.length st.cur], by simp [h2], ?_⟩
            intro d hd
            simp only [List.mem_cons, List.not_mem_nil, or_false] at hd
            rcases hd with hd | hd
            · exact Or.inr ⟨j, hd, k1, k2, hb⟩
            · exact hnd d hd

theorem stepList_some (rec : PState → Option (List (List Nat))) (st : PState) :
    ∀ (ds : List Dest), (∀ d ∈ ds, d = .fin ∨ ∃ j st', d = .seg j ∧ st.jump il j = some st' ∧ ∃ ps, rec st' = some ps) →
      ∃ ps, stepList rec il st ds = some ps := by
  intro ds
  induction ds with
  | nil => intro _; exact ⟨[], rfl⟩
  | cons d ds ih =>
    intro h
    obtain ⟨ps', hps'⟩ := ih (fun d' hd' => h d' (List.mem_cons_of_mem _ hd'))
    rcases h d List.mem_cons_self with rfl | ⟨j, st', rfl, hj, ps, hps⟩
    · exact ⟨st.path :: ps', by simp [stepList, hps']⟩
    · exact ⟨ps ++ ps', by simp [stepList, hj, hps, hps']⟩

include hg in
/-- the enumeration terminates from every state of the class with fuel above the measure -/
theorem rep_terminates : ∀ (m : Nat) (st : PState), TInv g st → phi g st ≤ m →
    ∃ ps, unfoldFrom il (m + 1) st = some ps := by
  intro m
  induction m with
  | zero =>
    intro st hinv hm
    obtain ⟨ds, hd, hall⟩ := rep_dests g hg il st hinv
    rw [unfoldFrom, hd]
    apply stepList_some
    intro d hdm
    rcases hall d hdm with h | ⟨j, _, _, _, hlt⟩
    · exact Or.inl h
    · omega
  | succ m ih =>
    intro st hinv hm
    obtain ⟨ds, hd, hall⟩ := rep_dests g hg il st hinv
    rw [unfoldFrom, hd]
    apply stepList_some
    intro d hdm
    rcases hall d hdm with h | ⟨j, hdj, hj, hinv', hlt⟩
    · exact Or.inl h
    · exact Or.inr ⟨j, _, hdj, hj, ih _ hinv' (by omega)⟩

end term

/-- Termination on the class: from the first segment, in all three modes, fuel 2^(n+1) is enough. -/
theorem repForm_terminates (g : List Seg) (hg : RepForm g) (hne : g ≠ []) (nr ar il : Bool) :
    ∃ ps, getPaths g nr ar il (2 ^ (g.length + 1)) = some ps := by
  have hlen : 0 < g.length := List.length_pos_iff.mpr hne
  have hinv : TInv g (initState g nr ar) := ⟨rfl, hlen, by intro i d hd; simp [initState] at hd⟩
  have hphi : phi g (initState g nr ar) ≤ tS g.length := by
    unfold phi
    have := phiFrom_le (remAt g (initState g nr ar).used) (remAt_le g _) (g.length - (initState g nr ar).cur)
      (initState g nr ar).cur
    have e : (initState g nr ar).cur = 0 := rfl
    rw [e] at this ⊢
    simp only [Nat.sub_zero, Nat.zero_add, tS, Nat.add_zero] at this
    exact this
  obtain ⟨ps, hps⟩ := rep_terminates g hg il (tS g.length) (initState g nr ar) hinv hphi
  refine ⟨ps, ?_⟩
  have hp := tS_pow g.length
  have e : 2 ^ (g.length + 1) = (tS g.length + 1) + 1 := by omega
  unfold getPaths
  rw [e]
  exact unfoldFrom_mono_add il _ 1 _ ps hps

/-! ### a table on which the enumeration does not terminate -/

/-- da capo (or dal segno to a segno at the start) in the MIDDLE of a part, the first segment starting at
time 0: `A.to = [B, A]` (the jump back comes last), `A` is a leap destination, not a leap start -/
def dcMidGraph : List Seg :=
  [{ start := 0, stp := 4, to := [.seg 1, .seg 0], await := [.seg 1], ty := .leapEnd },
   { start := 4, stp := 12, to := [.fin], await := [], ty := .dflt }]

theorem dcMid_loops (il : Bool) : ∀ (fuel : Nat) (st : PState), st.segs = dcMidGraph → st.cur = 0 →
    st.noRepeats = true → (∃ m, st.used 0 = List.replicate m (.seg 0)) → unfoldFrom il fuel st = none := by
  intro fuel
  induction fuel with
  | zero => intro st _ _ _ _; rfl
  | succ f ih =>
    intro st hsegs hcur hnr ⟨m, hm⟩
    have hs0 : st.segs[st.cur]? = some dcMidGraph[0] := by rw [hsegs, hcur]; rfl
    have hd : st.dests = some [.seg 0] := by
      rw [dests_unf st _ hs0]
      have hli : ∃ li, lastIndex [Dest.seg 1, Dest.seg 0] (st.used st.cur) = some li := by
        rw [hcur, hm]
        cases m with
        | zero => exact ⟨none, by simp [lastIndex]⟩
        | succ m =>
          have : (List.replicate (m + 1) (Dest.seg 0)).getLast? = some (Dest.seg 0) := by
            rw [List.replicate_succ']; simp
          exact ⟨some 1, lastIndex_two_snd _ _ (by simp) _ this⟩
      obtain ⟨li, hli⟩ := hli
      simp only [dcMidGraph, List.getElem_cons_zero, hli, hnr, if_true]
      rfl
    have hj : st.jump il 0 = some (afterJump st 0) :=
      jump_plain il st 0 dcMidGraph[0] dcMidGraph[0] (by rw [hsegs]; rfl) hs0 (by simp [dcMidGraph])
    rw [unfoldFrom, hd]
    simp only [stepList, hj]
    rw [ih (afterJump st 0) hsegs rfl hnr ⟨m + 1, by
      show (if 0 = st.cur then st.used 0 ++ [Dest.seg 0] else st.used 0) = _
      rw [if_pos hcur.symm, hm, List.replicate_succ']⟩]

/-- the minimal enumeration on that table fails for EVERY amount of fuel -/
theorem dcMid_no_minimal (il : Bool) (fuel : Nat) : getPaths dcMidGraph true false il fuel = none :=
  dcMid_loops il fuel (initState dcMidGraph true false) rfl rfl rfl ⟨0, rfl⟩

end C09
