/-
C20 helper lemmas for Props/C20Forms.lean: `iter_parts` and the heap model of `transpose` (Model/ArgForms.lean).
-/
import PartituraModel.Model.ArgForms

namespace C20Heap
open Model.ArgForms

-- ------------------------------------------------------------------ iter_parts

theorem iterNodes_append (xs ys : List Node) : iterNodes (xs ++ ys) = iterNodes xs ++ iterNodes ys := by
  induction xs with
  | nil => simp [iterNodes]
  | cons x xs ih => simp [iterNodes, ih, List.append_assoc]

theorem iterNodes_parts (ps : List Nat) : iterNodes (ps.map Node.part) = ps := by
  induction ps with
  | nil => simp [iterNodes]
  | cons p ps ih => simp [iterNodes, iterNode, ih]

/-- lists and tuples are among the sequence types `iter_parts` walks (the tuple `(list, tuple, set)` of its
    `isinstance` test is REGENERATED from the source: Gen.C20.iterPartsSeqTypes) -/
theorem iterParts_seq (b : Bool) (xs : List Node) : iterParts (ScoreArg.seq b xs) = some (iterNodes xs) := by
  have h1 : "list" ∈ Gen.C20.iterPartsSeqTypes := by decide
  have h2 : "tuple" ∈ Gen.C20.iterPartsSeqTypes := by decide
  cases b <;> simp [iterParts, h1, h2]

-- ------------------------------------------------------------------ writes

theorem writeNote_length {α : Type} (f : α → α) (cells : List α) (a : Nat) :
    (writeNote f cells a).length = cells.length := by
  unfold writeNote
  split <;> simp

theorem writePart_length {α : Type} (f : α → α) (p : PartObj) :
    ∀ cells : List α, (writePart f cells p).length = cells.length := by
  induction p with
  | nil => intro cells; rfl
  | cons a as ih => intro cells; simp [writePart, ih, writeNote_length]

theorem writeParts_length {α : Type} (f : α → α) (ps : List PartObj) :
    ∀ cells : List α, (writeParts f cells ps).length = cells.length := by
  induction ps with
  | nil => intro cells; rfl
  | cons p ps ih => intro cells; simp [writeParts, ih, writePart_length]

theorem writeNote_get {α : Type} (f : α → α) (cells : List α) (a i : Nat) :
    (writeNote f cells a)[i]? = if i = a then (cells[i]?).map f else cells[i]? := by
  unfold writeNote
  by_cases h : i = a
  · subst h
    cases hc : cells[i]? with
    | none => simp [hc]
    | some x =>
      have hlt : i < cells.length := by
        rcases Nat.lt_or_ge i cells.length with hl | hl
        · exact hl
        · rw [List.getElem?_eq_none_iff.mpr hl] at hc; cases hc
      simp [hlt]
  · cases hc : cells[a]? with
    | none => simp [h]
    | some x =>
      have : a ≠ i := fun e => h e.symm
      simp [h, List.getElem?_set_ne this]

/-- rewriting the notes at pairwise different addresses applies `f` once to each of them and to nothing else -/
theorem writePart_get {α : Type} (f : α → α) (p : PartObj) (hnd : p.Nodup) :
    ∀ (cells : List α) (i : Nat),
      (writePart f cells p)[i]? = if i ∈ p then (cells[i]?).map f else cells[i]? := by
  induction p with
  | nil => intro cells i; simp [writePart]
  | cons a as ih =>
    intro cells i
    have hna : a ∉ as := (List.nodup_cons.mp hnd).1
    have hnd' : as.Nodup := (List.nodup_cons.mp hnd).2
    simp only [writePart]
    rw [ih hnd', writeNote_get]
    by_cases hia : i = a
    · subst hia
      simp [hna]
    · simp [hia]

theorem writePart_append {α : Type} (f : α → α) (p q : PartObj) :
    ∀ cells : List α, writePart f cells (p ++ q) = writePart f (writePart f cells p) q := by
  induction p with
  | nil => intro cells; rfl
  | cons a as ih => intro cells; simp [writePart, ih]

theorem writeParts_flatten {α : Type} (f : α → α) (ps : List PartObj) :
    ∀ cells : List α, writeParts f cells ps = writePart f cells ps.flatten := by
  induction ps with
  | nil => intro cells; rfl
  | cons p ps ih => intro cells; simp [writeParts, ih, writePart_append]

/-- a write below no address of `ps` is not a write to it: the cells under `n` are what they were -/
theorem writePart_frame {α : Type} (f : α → α) (n : Nat) (p : PartObj) (h : ∀ a ∈ p, n ≤ a) :
    ∀ (cells : List α) (i : Nat), i < n → (writePart f cells p)[i]? = cells[i]? := by
  induction p with
  | nil => intro cells i _; rfl
  | cons a as ih =>
    intro cells i hi
    simp only [writePart]
    rw [ih (fun b hb => h b (List.mem_cons_of_mem _ hb)) _ i hi, writeNote_get]
    have : i ≠ a := by
      have := h a (List.mem_cons_self ..)
      omega
    simp [this]

-- ------------------------------------------------------------------ deep copies

theorem copyPart_snd {α : Type} (cells : List α) (p : PartObj) :
    (copyPart cells p).2 = List.range' cells.length p.length := rfl

theorem copyPart_fst_length {α : Type} (cells : List α) (p : PartObj) (h : ∀ a ∈ p, a < cells.length) :
    (copyPart cells p).1.length = cells.length + p.length := by
  simp only [copyPart, List.length_append]
  congr 1
  induction p with
  | nil => rfl
  | cons a as ih =>
    have ha : a < cells.length := h a (List.mem_cons_self ..)
    simp only [List.filterMap_cons, List.getElem?_eq_getElem ha, List.length_cons]
    rw [ih (fun b hb => h b (List.mem_cons_of_mem _ hb))]

theorem copyParts_extends {α : Type} (ps : List PartObj) :
    ∀ cells : List α, ∃ ext, (copyParts cells ps).1 = cells ++ ext := by
  induction ps with
  | nil => intro cells; exact ⟨[], by simp [copyParts]⟩
  | cons p ps ih =>
    intro cells
    obtain ⟨e, he⟩ := ih (copyPart cells p).1
    refine ⟨p.filterMap (fun a => cells[a]?) ++ e, ?_⟩
    simp only [copyParts]
    rw [he]
    simp [copyPart, List.append_assoc]

/-- every address in a deep copy is a NEW address -/
theorem copyParts_fresh {α : Type} (ps : List PartObj) :
    ∀ (cells : List α), ∀ q ∈ (copyParts cells ps).2, ∀ a ∈ q, cells.length ≤ a := by
  induction ps with
  | nil => intro cells q hq; simp [copyParts] at hq
  | cons p ps ih =>
    intro cells q hq a ha
    simp only [copyParts, List.mem_cons] at hq
    rcases hq with hq | hq
    · subst hq
      rw [copyPart_snd] at ha
      have := List.mem_range'_1.mp ha
      omega
    · have h1 := ih (copyPart cells p).1 q hq a ha
      have h2 : cells.length ≤ (copyPart cells p).1.length := by simp [copyPart]
      omega

theorem getElem?_append_ext {α : Type} (cells ext : List α) (i : Nat) (h : i < cells.length) :
    (cells ++ ext)[i]? = cells[i]? := List.getElem?_append_left h

theorem filterMap_valid {α : Type} (cells : List α) (p : PartObj) (h : ∀ a ∈ p, a < cells.length) :
    (p.filterMap (fun a => cells[a]?)).map some = p.map (fun a => cells[a]?) := by
  induction p with
  | nil => rfl
  | cons a as ih =>
    have ha : a < cells.length := h a (List.mem_cons_self ..)
    simp only [List.filterMap_cons, List.getElem?_eq_getElem ha, List.map_cons]
    rw [ih (fun b hb => h b (List.mem_cons_of_mem _ hb))]

/-- reading the freshly appended cells back, address by address -/
theorem range_read {α : Type} (l fm : List α) :
    (List.range' l.length fm.length).map (fun x => (l ++ fm)[x]?) = fm.map some := by
  apply List.ext_getElem
  · simp
  · intro j h1 h2
    simp only [List.length_map, List.length_range'] at h1
    simp only [List.getElem_map, List.getElem_range']
    rw [List.getElem?_append_right (by omega)]
    simp [List.getElem?_eq_getElem h1]

/-- the addresses of a deep copy are consecutive new addresses -/
theorem copyParts_addresses {α : Type} (ps : List PartObj) :
    ∀ (cells : List α), (∀ p ∈ ps, ∀ x ∈ p, x < cells.length) →
      (copyParts cells ps).2.flatten = List.range' cells.length ps.flatten.length ∧
      (copyParts cells ps).1.length = cells.length + ps.flatten.length := by
  induction ps with
  | nil => intro cells _; simp [copyParts]
  | cons p ps ih =>
    intro cells hwf
    have hp : ∀ a ∈ p, a < cells.length := hwf p (List.mem_cons_self ..)
    have hlen := copyPart_fst_length cells p hp
    have hwf' : ∀ q ∈ ps, ∀ x ∈ q, x < (copyPart cells p).1.length := by
      intro q hq x hx
      have := hwf q (List.mem_cons_of_mem _ hq) x hx
      omega
    obtain ⟨h1, h2⟩ := ih (copyPart cells p).1 hwf'
    simp only [copyParts, List.flatten_cons, List.length_append]
    rw [h1, h2, copyPart_snd, hlen]
    refine ⟨?_, by omega⟩
    rw [List.range'_append_1] <;> rfl

/-- **a deep copy holds what the original holds**: read through the new heap, the copied parts show exactly the
    contents of the argument's parts -/
theorem copyParts_contents {α : Type} (cells0 : List α) (ps : List PartObj)
    (hwf : ∀ p ∈ ps, ∀ x ∈ p, x < cells0.length) :
    ∀ e : List α,
      (copyParts (cells0 ++ e) ps).2.map (fun q => q.map (fun x => (copyParts (cells0 ++ e) ps).1[x]?))
        = ps.map (fun p => p.map (fun x => cells0[x]?)) := by
  induction ps with
  | nil => intro e; simp [copyParts]
  | cons p ps ih =>
    intro e
    have hp : ∀ a ∈ p, a < cells0.length := hwf p (List.mem_cons_self ..)
    have hp' : ∀ a ∈ p, a < (cells0 ++ e).length := fun a ha => by
      have := hp a ha
      simp only [List.length_append]; omega
    have hc1 : (copyPart (cells0 ++ e) p).1 = cells0 ++ (e ++ p.filterMap (fun a => (cells0 ++ e)[a]?)) := by
      simp [copyPart, List.append_assoc]
    simp only [copyParts, List.map_cons]
    congr 1
    · -- the head: the part just copied
      obtain ⟨ext, hext⟩ := copyParts_extends ps (copyPart (cells0 ++ e) p).1
      rw [hext, copyPart_snd]
      have hlen := copyPart_fst_length (cells0 ++ e) p hp'
      have hfm : (p.filterMap (fun a => (cells0 ++ e)[a]?)).length = p.length := by
        have := hlen
        simp only [copyPart, List.length_append] at this
        omega
      have step1 : (List.range' (cells0 ++ e).length p.length).map
            (fun x => ((copyPart (cells0 ++ e) p).1 ++ ext)[x]?)
          = (List.range' (cells0 ++ e).length p.length).map (fun x => (copyPart (cells0 ++ e) p).1[x]?) := by
        apply List.map_congr_left
        intro x hx
        have := List.mem_range'_1.mp hx
        exact List.getElem?_append_left (by omega)
      rw [step1]
      have step2 := range_read (cells0 ++ e) (p.filterMap (fun a => (cells0 ++ e)[a]?))
      rw [hfm] at step2
      simp only [copyPart]
      rw [step2, filterMap_valid _ _ hp']
      apply List.map_congr_left
      intro a ha
      exact List.getElem?_append_left (hp a ha)
    · -- the tail: induction, the heap has grown
      rw [hc1]
      exact ih (fun q hq => hwf q (List.mem_cons_of_mem _ hq)) _

theorem targets_sub {α : Type} (cells : List α) (a : TArg) :
    ∀ q ∈ targets (deepcopy cells a).2, q ∈ (copyParts cells a.parts).2 := by
  intro q hq
  cases a with
  | score ps => simpa [deepcopy, TArg.withParts, targets, TArg.parts] using hq
  | part p =>
    simp only [deepcopy, TArg.withParts, targets, TArg.parts, copyParts, List.headD_cons, List.mem_singleton] at hq ⊢
    simp [hq]
  | group ps => simp [deepcopy, TArg.withParts, targets] at hq
  | seq ps => simp [deepcopy, TArg.withParts, targets] at hq

theorem withParts_parts (a : TArg) (qs : List PartObj) (h : qs.length = a.parts.length) :
    (a.withParts qs).parts = qs := by
  cases a with
  | score ps => rfl
  | group ps => rfl
  | seq ps => rfl
  | part p =>
    match qs, h with
    | [q], _ => rfl

theorem copyParts_snd_length {α : Type} (ps : List PartObj) :
    ∀ cells : List α, (copyParts cells ps).2.length = ps.length := by
  induction ps with
  | nil => intro cells; rfl
  | cons p ps ih => intro cells; simp [copyParts, ih]

theorem transpose_heap_grows {α : Type} (f : α → α) (cells : List α) (a : TArg) :
    cells.length ≤ (transpose f cells a).1.length := by
  simp only [transpose, writeParts_length, deepcopy]
  obtain ⟨ext, hext⟩ := copyParts_extends a.parts cells
  rw [hext]; simp


end C20Heap
