/-
C07 — composite lines (`snote(..)-note(..).`, `snote(..)-deletion.`, `insertion-note(..).`,
`ornament(..)-note(..).`, `stime(..)-ptime(..).`): written by concatenating the parts, read by searching
every component over the WHOLE line.  The composition lemma reduces the composite round trip to the
round trips of the components at their offsets.
-/
import PartituraModel.Model.MatchLine
import PartituraModel.Proofs.C07Search

namespace C07Comp
open Model Model.Template Model.MatchCodec Model.MatchLine

/-- one part of a composite line, written as `txt`, standing behind `pre` and before `tail` in the whole
    line: a literal carries no values; a component is written as `txt` and the search of its pattern over
    the whole line gives its values back -/
def PartOK (ts : List Template) (pre tail : Str) (p : CPart) (vs : List Val) (txt : Str) : Prop :=
  match p with
  | .lit s => vs = [] ∧ txt = s.toList
  | .tpl n => ∃ t, findTpl ts n = some t ∧ vs.length = t.fields.length ∧
      formatT t vs = some txt ∧ parseT t (pre ++ (txt ++ tail)) = .ok vs

/-- all parts, each at its offset (`pre` grows by the text of the parts already written) -/
def PartsOK (ts : List Template) : Str → List CPart → List (List Val) → List Str → Str → Prop
  | _, [], [], [], _ => True
  | pre, p :: ps, vs :: vss, x :: xs, tail =>
    PartOK ts pre (xs.flatten ++ tail) p vs x ∧ PartsOK ts (pre ++ x) ps vss xs tail
  | _, _, _, _, _ => False

theorem formatParts_ok (ts : List Template) : ∀ (ps : List CPart) (pre : Str) (vss : List (List Val)) (xs : List Str)
    (tail : Str), PartsOK ts pre ps vss xs tail → formatParts ts ps vss.flatten = some xs.flatten := by
  intro ps
  induction ps with
  | nil =>
    intro pre vss xs tail h
    cases vss <;> cases xs <;> simp_all [PartsOK, formatParts]
  | cons p ps ih =>
    intro pre vss xs tail h
    cases vss with
    | nil => simp [PartsOK] at h
    | cons vs vss =>
      cases xs with
      | nil => simp [PartsOK] at h
      | cons x xs =>
        obtain ⟨hp, hr⟩ := h
        have hrec := ih _ vss xs tail hr
        cases p with
        | lit s =>
          obtain ⟨hv, hx⟩ := hp
          subst hv; subst hx
          simp only [List.flatten_cons, List.nil_append, formatParts, hrec, Option.map_some]
        | tpl n =>
          obtain ⟨t, hf, hlen, hfmt, _⟩ := hp
          simp only [List.flatten_cons, formatParts, hf]
          have h1 : ¬ ((vs ++ vss.flatten).length < t.fields.length) := by
            simp only [List.length_append]; omega
          have h2 : (vs ++ vss.flatten).take t.fields.length = vs := by
            rw [← hlen]; simp
          have h3 : (vs ++ vss.flatten).drop t.fields.length = vss.flatten := by
            rw [← hlen]; simp
          simp only [h1, if_false, h2, h3, hfmt, hrec]

theorem parseParts_ok (ts : List Template) : ∀ (ps : List CPart) (pre : Str) (vss : List (List Val)) (xs : List Str)
    (tail : Str), PartsOK ts pre ps vss xs tail →
    parseParts ts (pre ++ (xs.flatten ++ tail)) ps = .ok vss.flatten := by
  intro ps
  induction ps with
  | nil =>
    intro pre vss xs tail h
    cases vss <;> cases xs <;> simp_all [PartsOK, parseParts]
    rfl
  | cons p ps ih =>
    intro pre vss xs tail h
    cases vss with
    | nil => simp [PartsOK] at h
    | cons vs vss =>
      cases xs with
      | nil => simp [PartsOK] at h
      | cons x xs =>
        obtain ⟨hp, hr⟩ := h
        have hrec := ih _ vss xs tail hr
        have hline : pre ++ ((x :: xs).flatten ++ tail) = (pre ++ x) ++ (xs.flatten ++ tail) := by
          simp
        rw [hline]
        cases p with
        | lit s =>
          obtain ⟨hv, _⟩ := hp
          subst hv
          simp only [List.flatten_cons, List.nil_append, parseParts]
          exact hrec
        | tpl n =>
          obtain ⟨t, hf, _, _, hparse⟩ := hp
          have hparse' : parseT t ((pre ++ x) ++ (xs.flatten ++ tail)) = .ok vs := by
            rw [← hparse]; simp
          simp only [List.flatten_cons, parseParts, hf, hparse', hrec, bind, Except.bind, pure, Except.pure]

-- ---------------------------------------------------------------- the identifier literals

theorem isPrefixOf_append (p s : List Char) : p.isPrefixOf (p ++ s) = true := by
  induction p with
  | nil => simp [List.isPrefixOf]
  | cons c cs ih => simp [List.isPrefixOf, ih]

theorem findLit_append (p : List Char) : ∀ (a b : List Char), findLit p (a ++ (p ++ b)) = true := by
  intro a
  induction a with
  | nil =>
    intro b
    cases hp : p ++ b with
    | nil =>
      have : p = [] := by
        cases p with
        | nil => rfl
        | cons c cs => simp at hp
      subst this
      simp [findLit]
    | cons c s =>
      simp only [List.nil_append, hp, findLit]
      rw [← hp, isPrefixOf_append]
      simp
  | cons c a ih =>
    intro b
    simp only [List.cons_append, findLit, ih b, Bool.or_true]

/-- the text of a literal part occurs in the written line -/
theorem findLit_of_part (ts : List Template) (i : String) : ∀ (ps : List CPart) (pre : Str) (vss : List (List Val))
    (xs : List Str) (tail : Str), PartsOK ts pre ps vss xs tail → CPart.lit i ∈ ps →
    findLit i.toList (pre ++ (xs.flatten ++ tail)) = true := by
  intro ps
  induction ps with
  | nil => intro _ _ _ _ _ h; simp at h
  | cons p ps ih =>
    intro pre vss xs tail h hm
    cases vss with
    | nil => simp [PartsOK] at h
    | cons vs vss =>
      cases xs with
      | nil => simp [PartsOK] at h
      | cons x xs =>
        obtain ⟨hp, hr⟩ := h
        rcases List.mem_cons.mp hm with he | hm'
        · subst he
          obtain ⟨_, hx⟩ := hp
          subst hx
          have : pre ++ ((i.toList :: xs).flatten ++ tail) = pre ++ (i.toList ++ (xs.flatten ++ tail)) := by simp
          rw [this]
          exact findLit_append _ _ _
        · have := ih (pre ++ x) vss xs tail hr hm'
          have e : pre ++ ((x :: xs).flatten ++ tail) = (pre ++ x) ++ (xs.flatten ++ tail) := by simp
          rw [e]; exact this

/-- **a composite line**: if every part is written and found at its offset, the composite is written as
    the concatenation, the parse over the written line (whatever follows) returns all values in order,
    and writing them again gives the identical text -/
theorem composite_ok (ts : List Template) (c : Composite) (vss : List (List Val)) (xs : List Str) (tail : Str)
    (hid : c.idents.all (fun i => c.parts.contains (.lit i)) = true)
    (h : PartsOK ts [] c.parts vss xs tail) :
    formatC ts c vss.flatten = some xs.flatten ∧ parseC ts c (xs.flatten ++ tail) = .ok vss.flatten := by
  constructor
  · exact formatParts_ok ts _ _ _ _ _ h
  · unfold parseC
    have hall : (c.idents.all fun i => findLit i.toList (xs.flatten ++ tail)) = true := by
      rw [List.all_eq_true] at hid ⊢
      intro i hi
      have hm := hid i hi
      have hm' : CPart.lit i ∈ c.parts := by simpa using hm
      have := findLit_of_part ts i c.parts [] vss xs tail h hm'
      simpa using this
    simp only [hall, Bool.not_true, Bool.false_eq_true, if_false]
    have := parseParts_ok ts c.parts [] vss xs tail h
    simpa using this

theorem render_append (o1 o2 : List OSeg) (v : String → List Char) : render (o1 ++ o2) v = render o1 v ++ render o2 v := by
  induction o1 with
  | nil => rfl
  | cons s o ih => cases s <;> simp [render, ih]

theorem encodeFields_length (t : Template) (a : Option Str) : ∀ (fs : List (String × Enc × Dec)) (vs : List Val)
    (r : List (String × Str)), encodeFields t a fs vs = some r → vs.length = fs.length := by
  intro fs
  induction fs with
  | nil => intro vs r h; cases vs <;> simp_all [encodeFields]
  | cons f fs ih =>
    intro vs r h
    cases vs with
    | nil => simp [encodeFields] at h
    | cons v vs =>
      simp only [encodeFields] at h
      split at h
      · simp at h
      · split at h
        · rename_i s r' _ hr
          simp [ih vs r' hr]
        · simp at h

theorem formatT_length (t : Template) (vals : List Val) (l : Str) (h : formatT t vals = some l) :
    vals.length = t.fields.length := by
  unfold formatT at h
  split at h
  · simp at h
  · simp only [Option.map_eq_some_iff] at h
    obtain ⟨r, hr, _⟩ := h
    exact encodeFields_length t _ _ _ _ hr


end C07Comp
